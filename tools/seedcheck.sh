#!/bin/bash
# tools/seedcheck.sh <prop> [worktree] [id]  -- validate a seeded defect produced by an independent sub-agent:
#   saves patch + demo under seeded/<prop>/, runs the demo on the original and on the changed code,
#   runs ./check <prop> against the changed tree (VERIF_REPO), starts the pinned test suite on the changed tree in the background.
p=$1; wt=${2:-/tmp/seed_$p}; id=${3:-$p}; out=/verif/seeded/$id
mkdir -p $out
git -C $wt diff -- torchsnapshot > $out/patch.diff
cp $wt/demo_$p.py $out/demo_$p.py 2>/dev/null
echo "== patch: $(grep -c '^[+-][^+-]' $out/patch.diff) changed lines in $(grep -c '^diff' $out/patch.diff) file(s)"
# demo on changed code
(cd $out && PYTHONPATH=$wt timeout 600 /venv/bin/python -W ignore $out/demo_$p.py > $out/demo_changed.txt 2>&1); echo "demo on changed code: exit $? ($(tail -1 $out/demo_changed.txt | cut -c1-120))"
# demo on original code (current /repo)
(cd $out && PYTHONPATH=/repo timeout 600 /venv/bin/python -W ignore $out/demo_$p.py > $out/demo_original.txt 2>&1); echo "demo on /repo: exit $? ($(tail -1 $out/demo_original.txt | cut -c1-120))"
# our check against the changed tree
(cd /verif && VERIF_REPO=$wt timeout 3000 ./check $p > $out/check_quick.txt 2>&1); echo "check $p quick on changed tree: exit $?"; grep -E "VIOLATION|broken:" $out/check_quick.txt | head -3
# pinned suite on the changed tree, in the background
# (the pinned suite on the changed tree is run separately, one at a time: tools/seedsuite.sh)
