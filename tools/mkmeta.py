#!/usr/bin/env python3
"""tools/mkmeta.py <id> <breaks> <summary> <needs> <detected_by> [extra ran lines...] -- write seeded/<id>/meta.json"""
import json, sys
id_, breaks, summary, needs, det = sys.argv[1:6]
ran = [f"demo_{breaks}.py with PYTHONPATH=<worktree>: FAIL (exit 1); with PYTHONPATH=/repo: PASS (exit 0)",
       f"VERIF_REPO=<worktree> ./check {breaks}: see check_quick.txt",
       "pinned test suite on the changed tree: see suite.txt (257 stable_pass tests must pass)"] + sys.argv[6:]
json.dump({"breaks": breaks, "summary": summary, "needs": needs, "detected_by": det,
           "produced_by": "independent sub-agent given only the property text and a scratch git worktree of /repo (no access to /verif)"
                          + ("; second round: told not to touch the function the first-round seed changed" if id_.endswith("b") else ""),
           "ran": ran}, open(f"/verif/seeded/{id_}/meta.json", "w"), indent=1)
