#!/bin/bash
# tools/robust.sh <seed>  -- re-run every kept seeded defect (scratch worktrees) under ANOTHER harness seed: detection must not depend on the draw
s=${1:-7}
one() { p=$1; s=$2
  for pre in seed seed2 seed3 seed4; do
    case $pre in seed) id=$p;; seed2) id=${p}b;; seed3) id=${p}c;; seed4) id=${p}d;; esac
    wt=/tmp/${pre}_$p
    [ -d /verif/seeded/$id ] && [ -d $wt ] || continue
    (cd /verif && VERIF_REPO=$wt timeout 3000 ./check $p --seed $s > out/robust/$id-s$s.txt 2>&1); rc=$?
    echo "$id seed=$s rc=$rc $(grep -c VIOLATION out/robust/$id-s$s.txt)" >> /verif/out/robust/summary-s$s.txt
  done; }
export -f one
: > /verif/out/robust/summary-s$s.txt
printf "%s\n" C01 C02 C03 C04 C05 C06 C07 C08 C09 C10 C11 C12 C13 C14 C15 C16 C17 C18 C19 C20 | xargs -P 5 -I{} bash -c "one {} $s"
echo done >> /verif/out/robust/summary-s$s.txt
