#!/bin/bash
# Run every claimed check (quick tier by default) against /repo and summarise.  Usage: tools/runall.sh [quick|thorough] [seed]
cd /verif
tier=${1:-quick}; seed=${2:-0}
for p in $(cat tools/claimed.txt); do
  s=$(date +%s)
  out=$(VERIF_SEED=$seed ./check $p --tier $tier 2>&1); rc=$?
  echo "$p rc=$rc $(( $(date +%s) - s ))s  $(echo "$out" | grep -c KNOWN-FINDING) known  $(echo "$out" | grep VIOLATION | head -1)"
done
