#!/bin/bash
# tools/applycheck.sh <seed id> <property>  -- the brief's literal procedure: apply the seeded patch to /repo itself, run the
# REGISTERED quick command of the property, undo the patch straight afterwards.  Evidence written by such a run is restored
# from git afterwards (the committed evidence must come from the unchanged tree).
id=$1; p=$2
cd /verif
if ! git -C /repo apply --check /verif/seeded/$id/patch.diff 2>/dev/null; then echo "$id: patch does not apply to the current /repo HEAD (made against an earlier HEAD)"; exit 0; fi
git -C /repo apply /verif/seeded/$id/patch.diff
./check $p --tier quick > seeded/$id/check_on_repo.txt 2>&1; rc=$?
git -C /repo checkout -- .
git checkout -- evidence/$p.json 2>/dev/null
echo "$id on /repo: ./check $p -> exit $rc; $(grep -E 'VIOLATION' seeded/$id/check_on_repo.txt | head -1)"
[ -z "$(git -C /repo status --porcelain)" ] || echo "WARNING: /repo not clean"
