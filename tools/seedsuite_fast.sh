#!/bin/bash
# tools/seedsuite_fast.sh <id>[=<worktree>]...  -- pinned suite on each seeded worktree with pytest-xdist (-n 6); tests of the
# stable_pass set that did not pass are re-run serially (the pinned way) before the verdict is written to seeded/<id>/suite.txt
for a in "$@"; do
  p=${a%%=*}; wt=/tmp/seed_$p; [ "$a" != "$p" ] && wt=${a#*=}; out=/verif/seeded/$p
  (cd $wt && PYTHONPATH=$wt nice -n 10 timeout 5000 /venv/bin/python -m pytest -q -p no:cacheprovider -n 6 --timeout=900 --continue-on-collection-errors --junitxml=$out/suite.xml > $out/suite.log 2>&1)
  python3 /verif/tools/suitecmp.py $out/suite.xml > $out/suite.txt 2>&1
  if ! grep -q " 0 not passing" $out/suite.txt; then
    # re-run the not-passing ones serially
    ids=$(python3 - "$out/suite.xml" <<'PY'
import json, sys, xml.etree.ElementTree as ET
sp = set(json.load(open('/root/.vp/BASELINE.json'))['stable_pass']); res = {}
for tc in ET.parse(sys.argv[1]).iter('testcase'):
    res[f"{tc.get('classname')}::{tc.get('name')}"] = not any(c.tag in ('failure', 'error', 'skipped') for c in tc)
for n in sorted(n for n in sp if not res.get(n)):
    cls, name = n.split('::', 1); parts = cls.split('.')
    if parts[-1][0].isupper():
        print('/'.join(parts[:-1]) + '.py::' + parts[-1] + '::' + name)
    else:
        print('/'.join(parts) + '.py::' + name)
PY
)
    (cd $wt && PYTHONPATH=$wt nice -n 10 timeout 3000 /venv/bin/python -m pytest -q -p no:cacheprovider --timeout=900 --junitxml=$out/suite_rerun.xml $ids > $out/suite_rerun.log 2>&1)
    echo "re-run of the not-passing tests, serially: $(tail -1 $out/suite_rerun.log)" >> $out/suite.txt
  fi
  echo "$p: $(cat $out/suite.txt | cut -c1-300)"
  rm -f $out/suite.xml $out/suite_rerun.xml
done
