import json, sys, xml.etree.ElementTree as ET
b = json.load(open('/root/.vp/BASELINE.json')); sp = set(b['stable_pass'])
res = {}
for tc in ET.parse(sys.argv[1]).iter('testcase'):
    res[f"{tc.get('classname')}::{tc.get('name')}"] = not any(c.tag in ('failure', 'error', 'skipped') for c in tc)
missing = sorted(n for n in sp if not res.get(n))
print(f"{len(sp)} stable_pass tests; {len(missing)} not passing: {missing[:20]}")
