#!/bin/bash
# tools/seedsuite.sh <prop>...  -- run the pinned test suite on each seeded worktree, one at a time, and compare with BASELINE stable_pass
# an argument may be <id>=<worktree> (default worktree: /tmp/seed_<id>)
for a in "$@"; do
  p=${a%%=*}; wt=/tmp/seed_$p; [ "$a" != "$p" ] && wt=${a#*=}; out=/verif/seeded/$p
  (cd $wt && PYTHONPATH=$wt nice -n 10 timeout 5000 /venv/bin/python -m pytest -q -p no:cacheprovider --timeout=900 --continue-on-collection-errors --junitxml=$out/suite.xml > $out/suite.log 2>&1)
  python3 /verif/tools/suitecmp.py $out/suite.xml > $out/suite.txt 2>&1
  echo "$p: $(cat $out/suite.txt | cut -c1-300)"
  ls /tmp | grep -E '^[0-9a-f]{8}-[0-9a-f]{4}-' | sed 's|^|/tmp/|' | xargs rm -rf
done
