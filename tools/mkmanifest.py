#!/usr/bin/env python3
"""Regenerate /verif/MANIFEST.json from the per-property modules (harness/props/Cxx.py: MANIFEST dict)."""
import importlib, json, os, sys
sys.path[:0] = ["/verif/harness", "/verif"]
IDS = [f"C{i:02d}" for i in range(1, 21)]
NOT_BUILT = "check not built yet (work in progress; DESIGN.md section 5 gives the planned Coq model and theorems)"
checks, na = [], []
CLAIMED = set(open("/verif/tools/claimed.txt").read().split())   # properties whose check is finished and reviewed
for pid in IDS:
    if pid not in CLAIMED or not os.path.exists(f"/verif/harness/props/{pid}.py"):
        na.append({"property_id": pid, "reason": NOT_BUILT}); continue
    m = importlib.import_module(f"props.{pid}")
    meta = getattr(m, "MANIFEST", None)
    if meta is None or meta.get("disabled"):
        na.append({"property_id": pid, "reason": (meta or {}).get("reason", NOT_BUILT)}); continue
    checks.append({
        "property_id": pid,
        "quick_cmd": f"./check {pid} --tier quick",
        "thorough_cmd": f"./check {pid} --tier thorough",
        "evidence_file": f"/verif/evidence/{pid}.json",
        "replay_cmd_template": f"./check {pid} --replay {{path}}",
        "engine": "coq-model+correspondence",
        "level_claimed": {"category": "proof", "text": meta["level_text"], "design_ref": meta.get("design_ref", "DESIGN.md section 5")},
        "level_note": meta["level_note"],
        "technique": meta["technique"],
    })
man = {
    "version": 1,
    "setup_cmd": "./check --setup",
    "hooks": {"guard": "TORCHSNAPSHOT_VERIF",
              "enable": "checks run torchsnapshot from /repo's working tree (PYTHONPATH=/repo) and observe it at its public seams; no source hook is needed, the guard name is reserved",
              "baseline_off_cmd": "cd /repo && /venv/bin/python -m pytest -ra -q -p no:cacheprovider --timeout=900 --continue-on-collection-errors",
              "source_commits": [], "add_only": True},
    "engines": [{"name": "coq-model+correspondence", "path": "/verif/check",
                 "serves_properties": [c["property_id"] for c in checks],
                 "kind_free_text": "Coq 8.16.1 development (coq/model, coq/proofs, coq/props) + Python-ast translator (translator/) regenerating coq/gen from /repo on every run + differential correspondence harness (harness/) evaluating the models with vm_compute inside coqc"}],
    "checks": checks,
    "not_applicable": na,
    "notes": "Every claimed property is decided by Coq theorems over an executable model; the tie to /repo is re-established on every run (translator and/or correspondence). See DESIGN.md.",
}
json.dump(man, open("/verif/MANIFEST.json", "w"), indent=1)
print(f"{len(checks)} checks, {len(na)} not claimed")
