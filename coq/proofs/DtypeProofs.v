(* C17: soundness of the dtype-table checkers of model/Dtype.v.
   Each checker is a boolean function of a table; [checker t = true -> property t] is proved here once, for every
   table.  The per-run obligation over the GENERATED tables is then [checker generated = true] by vm_compute
   (proofs/C17Gen.v) - the domain is finite, so that is a proof. *)
From TS Require Import model.Base model.Dtype.

(* ------------------------------------------------------------------ equality, membership *)
Lemma Dtype_str_eqb_eq a b : Dtype_str_eqb a b = true <-> a = b.
Proof.
  unfold Dtype_str_eqb. revert b; induction a as [|x a IH]; intros [|y b]; cbn [list_eqb]; split; intros H;
    try reflexivity; try discriminate.
  - apply andb_true_iff in H as [Hx Hab]. apply Z.eqb_eq in Hx. apply IH in Hab. subst; reflexivity.
  - injection H as -> ->. apply andb_true_iff; split; [apply Z.eqb_refl | apply IH; reflexivity].
Qed.

Lemma Dtype_str_eqb_refl a : Dtype_str_eqb a a = true.
Proof. apply Dtype_str_eqb_eq; reflexivity. Qed.

Lemma Dtype_str_eqb_neq a b : Dtype_str_eqb a b = false <-> a <> b.
Proof.
  split; intros H.
  - intros ->. rewrite Dtype_str_eqb_refl in H; discriminate.
  - destruct (Dtype_str_eqb a b) eqn:E; [|reflexivity]. apply Dtype_str_eqb_eq in E. contradiction.
Qed.

Lemma Dtype_mem_In k l : Dtype_mem k l = true <-> In k l.
Proof.
  unfold Dtype_mem. rewrite existsb_exists. split.
  - intros [x [Hin Hx]]. apply Dtype_str_eqb_eq in Hx. subst; exact Hin.
  - intros Hin. exists k. split; [exact Hin | apply Dtype_str_eqb_refl].
Qed.

Lemma Dtype_nodupb_NoDup l : Dtype_nodupb l = true -> NoDup l.
Proof.
  induction l as [|x l IH]; intros H; [constructor|].
  cbn [Dtype_nodupb] in H. apply andb_true_iff in H as [Hx Hl].
  constructor; [|apply IH; exact Hl].
  intros Hin. apply Dtype_mem_In in Hin. rewrite Hin in Hx; discriminate.
Qed.

(* ------------------------------------------------------------------ dict lookup *)
Lemma Dtype_get_Some_In {V} k (t : list (pystr * V)) v : Dtype_get k t = Some v -> In (k, v) t.
Proof.
  induction t as [|[k' v'] t IH]; cbn [Dtype_get]; intros H; [discriminate|].
  destruct (Dtype_get k t) as [w|] eqn:E.
  - injection H as <-. right. apply IH; reflexivity.
  - destruct (Dtype_str_eqb k' k) eqn:Ek; [|discriminate].
    injection H as <-. apply Dtype_str_eqb_eq in Ek. subst. left; reflexivity.
Qed.

Lemma Dtype_get_None_notin {V} k (t : list (pystr * V)) : Dtype_get k t = None -> ~ In k (map fst t).
Proof.
  induction t as [|[k' v'] t IH]; cbn [Dtype_get map fst]; intros H Hin; [exact Hin|].
  destruct (Dtype_get k t) as [w|] eqn:E; [discriminate|].
  destruct (Dtype_str_eqb k' k) eqn:Ek; [discriminate|].
  apply Dtype_str_eqb_neq in Ek. destruct Hin as [Hin|Hin]; [contradiction|]. exact (IH eq_refl Hin).
Qed.

Lemma Dtype_get_In {V} k (t : list (pystr * V)) v :
  NoDup (map fst t) -> In (k, v) t -> Dtype_get k t = Some v.
Proof.
  induction t as [|[k' v'] t IH]; cbn [Dtype_get map fst]; intros Hnd Hin; [contradiction|].
  inversion Hnd as [|? ? Hnotin Hnd']; subst.
  destruct Hin as [Heq|Hin].
  - injection Heq as -> ->.
    destruct (Dtype_get k t) as [w|] eqn:E.
    + exfalso. apply Hnotin. apply Dtype_get_Some_In in E. apply (in_map fst) in E. exact E.
    + rewrite Dtype_str_eqb_refl. reflexivity.
  - rewrite (IH Hnd' Hin). reflexivity.
Qed.

Lemma Dtype_get_in_dom {V} k (t : list (pystr * V)) :
  In k (map fst t) -> exists v, Dtype_get k t = Some v.
Proof.
  intros Hin. destruct (Dtype_get k t) as [v|] eqn:E; [exists v; reflexivity|].
  exfalso. exact (Dtype_get_None_notin k t E Hin).
Qed.

Lemma Dtype_swap_In {A B} (t : list (A * B)) a b : In (a, b) t <-> In (b, a) (Dtype_swap t).
Proof.
  unfold Dtype_swap. rewrite in_map_iff. split.
  - intros H. exists (a, b). split; [reflexivity | exact H].
  - intros [[a' b'] [Heq H]]. cbn in Heq. injection Heq as <- <-. exact H.
Qed.

Lemma Dtype_swap_fst {A B} (t : list (A * B)) : map fst (Dtype_swap t) = map snd t.
Proof. unfold Dtype_swap. rewrite map_map. reflexivity. Qed.

(* ------------------------------------------------------------------ bijection *)
(* [t] (read as a dict) maps [dom] one-to-one onto its values, and the inverse dict [Dtype_swap t]
   (the comprehension {val: key for key, val in t.items()}) is its two-sided inverse. *)
Definition table_bijection (dom : list pystr) (t : list (pystr * pystr)) : Prop :=
  (forall d, In d dom <-> exists s, Dtype_get d t = Some s) /\
  (forall d s, Dtype_get d t = Some s -> Dtype_get s (Dtype_swap t) = Some d) /\
  (forall s d, Dtype_get s (Dtype_swap t) = Some d -> Dtype_get d t = Some s) /\
  (forall d1 d2 s, Dtype_get d1 t = Some s -> Dtype_get d2 t = Some s -> d1 = d2).

Lemma bijective_table_sound dom t : bijective_table dom t = true -> table_bijection dom t.
Proof.
  unfold bijective_table. intros H.
  apply andb_true_iff in H as [H Hkeys_dom].
  apply andb_true_iff in H as [H Hdom_keys].
  apply andb_true_iff in H as [Hk Hv].
  apply Dtype_nodupb_NoDup in Hk. apply Dtype_nodupb_NoDup in Hv.
  rewrite forallb_forall in Hdom_keys, Hkeys_dom.
  assert (Hfwd : forall d s, Dtype_get d t = Some s -> Dtype_get s (Dtype_swap t) = Some d).
  { intros d s Hg. apply Dtype_get_In.
    - rewrite Dtype_swap_fst. exact Hv.
    - apply (proj1 (Dtype_swap_In t d s)). apply Dtype_get_Some_In. exact Hg. }
  repeat split.
  - intros Hd. apply Dtype_get_in_dom. apply Dtype_mem_In. apply Hdom_keys. exact Hd.
  - intros [s Hs]. apply Dtype_mem_In. apply Hkeys_dom.
    apply Dtype_get_Some_In in Hs. apply (in_map fst) in Hs. exact Hs.
  - exact Hfwd.
  - intros s d Hg. apply Dtype_get_In; [exact Hk|].
    apply (proj2 (Dtype_swap_In t d s)). apply Dtype_get_Some_In. exact Hg.
  - intros d1 d2 s H1 H2. apply Hfwd in H1. apply Hfwd in H2. rewrite H1 in H2. injection H2 as ->. reflexivity.
Qed.

(* ------------------------------------------------------------------ element sizes *)
Definition table_sizes_match (ref : list (pystr * Z)) (dom : list pystr) (t : list (pystr * Z)) : Prop :=
  (forall d, In d dom -> exists z, Dtype_get d t = Some z) /\
  (forall d z, Dtype_get d t = Some z -> Dtype_get d ref = Some z).

Lemma sizes_match_sound ref dom t : sizes_match ref dom t = true -> table_sizes_match ref dom t.
Proof.
  unfold sizes_match. intros H.
  apply andb_true_iff in H as [H Hall].
  apply andb_true_iff in H as [Hk Hdom].
  rewrite forallb_forall in Hdom, Hall.
  split.
  - intros d Hd. apply Dtype_get_in_dom. apply Dtype_mem_In. apply Hdom. exact Hd.
  - intros d z Hg. apply Dtype_get_Some_In in Hg. specialize (Hall _ Hg). cbn [fst snd] in Hall.
    destruct (Dtype_get d ref) as [r|]; [|discriminate]. apply Z.eqb_eq in Hall. subst; reflexivity.
Qed.

Lemma sizes_positive_sound t : sizes_positive t = true -> forall d z, Dtype_get d t = Some z -> 0 < z.
Proof.
  unfold sizes_positive. rewrite forallb_forall. intros H d z Hg.
  apply Dtype_get_Some_In in Hg. specialize (H _ Hg). cbn [snd] in H. apply Z.ltb_lt. exact H.
Qed.

(* ------------------------------------------------------------------ subsets *)
Lemma bp_subset_of_all_sound bp all : bp_subset_of_all bp all = true -> forall d, In d bp -> In d all.
Proof.
  unfold bp_subset_of_all. rewrite forallb_forall. intros H d Hd. apply Dtype_mem_In. apply H. exact Hd.
Qed.

Lemma Dtype_disjoint_sound a b : Dtype_disjoint a b = true -> forall d, In d a -> ~ In d b.
Proof.
  unfold Dtype_disjoint. rewrite forallb_forall. intros H d Hd Hb.
  specialize (H _ Hd). apply Dtype_mem_In in Hb. rewrite Hb in H. discriminate.
Qed.

Lemma strings_canonical_sound t : strings_canonical t = true ->
  forall d s, Dtype_get d t = Some s -> s = Dtype_torch_prefix ++ d.
Proof.
  unfold strings_canonical. rewrite forallb_forall. intros H d s Hg.
  apply Dtype_get_Some_In in Hg. specialize (H _ Hg). cbn [fst snd] in H. apply Dtype_str_eqb_eq. exact H.
Qed.
