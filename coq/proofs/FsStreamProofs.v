From TS Require Import model.Base model.FsStream.
From Coq Require Import Permutation.

(* ---------------------------------------------------------------- lists *)
Lemma zlen_nonneg {A} (l : list A) : 0 <= zlen l.
Proof. unfold zlen; lia. Qed.

Lemma zlen_skipn {A} (l : list A) (k : Z) :
  0 <= k -> zlen (skipn (Z.to_nat k) l) = Z.max 0 (zlen l - k).
Proof. intros Hk; unfold zlen; rewrite skipn_length; lia. Qed.

Lemma zlen_firstn {A} (l : list A) (k : Z) :
  0 <= k -> zlen (firstn (Z.to_nat k) l) = Z.min k (zlen l).
Proof. intros Hk; unfold zlen; rewrite firstn_length; lia. Qed.

Lemma firstn_ge_all {A} (l : list A) (n : nat) : (length l <= n)%nat -> firstn n l = l.
Proof. apply firstn_all2. Qed.

Lemma skipn_ge_nil {A} (l : list A) (n : nat) : (length l <= n)%nat -> skipn n l = [].
Proof. apply skipn_all2. Qed.

(* ---------------------------------------------------------------- ranged read *)
Lemma file_read_range_length d a b :
  0 <= a <= b -> b <= zlen d -> zlen (file_read_range d a b) = b - a.
Proof.
  intros Hab Hb; unfold file_read_range.
  rewrite zlen_firstn by lia. rewrite zlen_skipn by lia. lia.
Qed.

Lemma nth_firstn_lt {A} (l : list A) n i dflt : (i < n)%nat -> nth i (firstn n l) dflt = nth i l dflt.
Proof.
  revert n i; induction l as [|x l IH]; intros n i Hi.
  - rewrite firstn_nil; reflexivity.
  - destruct n as [|n]; [lia|]. destruct i as [|i]; cbn; [reflexivity|]. apply IH; lia.
Qed.

Lemma nth_skipn' {A} (l : list A) n i dflt : nth i (skipn n l) dflt = nth (n + i) l dflt.
Proof.
  revert l; induction n as [|n IH]; intros l; [reflexivity|].
  destruct l as [|x l]; cbn; [destruct i; reflexivity | apply IH].
Qed.

Lemma file_read_range_nth d a b i dflt :
  0 <= a <= b -> 0 <= i < b - a ->
  nth (Z.to_nat i) (file_read_range d a b) dflt = nth (Z.to_nat (a + i)) d dflt.
Proof.
  intros Hab Hi; unfold file_read_range.
  rewrite nth_firstn_lt by lia. rewrite nth_skipn'. f_equal; lia.
Qed.

Lemma file_read_range_whole d : file_read_range d 0 (zlen d) = d.
Proof.
  unfold file_read_range, zlen. cbn [Z.to_nat skipn].
  rewrite Z.sub_0_r, Nat2Z.id. apply firstn_all.
Qed.

Lemma firstn_plus {A} (l : list A) : forall n m, firstn (n + m) l = firstn n l ++ firstn m (skipn n l).
Proof.
  induction l as [|x l IH]; intros n m.
  - rewrite skipn_nil, !firstn_nil. reflexivity.
  - destruct n as [|n]; [reflexivity|]. cbn. f_equal. apply IH.
Qed.

Lemma skipn_plus {A} (l : list A) : forall n m, skipn m (skipn n l) = skipn (n + m) l.
Proof.
  induction l as [|x l IH]; intros n m.
  - rewrite !skipn_nil. reflexivity.
  - destruct n as [|n]; [reflexivity|]. cbn. apply IH.
Qed.

(* concatenating adjacent ranges gives the enclosing range *)
Lemma file_read_range_app d a b c :
  0 <= a <= b -> b <= c ->
  file_read_range d a b ++ file_read_range d b c = file_read_range d a c.
Proof.
  intros Hab Hbc; unfold file_read_range.
  replace (Z.to_nat (c - a)) with (Z.to_nat (b - a) + Z.to_nat (c - b))%nat by lia.
  rewrite firstn_plus. f_equal. rewrite skipn_plus. do 2 f_equal. lia.
Qed.

(* ---------------------------------------------------------------- store *)
Lemma path_eqb_eq a b : path_eqb a b = true <-> a = b.
Proof.
  unfold path_eqb; revert b; induction a as [|x a IH]; intros [|y b]; cbn; split; intros H;
    try reflexivity; try discriminate.
  - apply andb_true_iff in H as [H1 H2]. apply Z.eqb_eq in H1. apply IH in H2. congruence.
  - inversion H; subst. rewrite Z.eqb_refl. cbn. apply IH. reflexivity.
Qed.

Lemma path_eqb_refl a : path_eqb a a = true.
Proof. apply path_eqb_eq; reflexivity. Qed.

Lemma path_eqb_neq a b : a <> b -> path_eqb a b = false.
Proof. intros H; destruct (path_eqb a b) eqn:E; [apply path_eqb_eq in E; contradiction | reflexivity]. Qed.

Lemma lookup_write_same s p d : fs_lookup (fs_write s p d) p = Some d.
Proof. cbn. rewrite path_eqb_refl. reflexivity. Qed.

Lemma lookup_write_other s p q d : p <> q -> fs_lookup (fs_write s p d) q = fs_lookup s q.
Proof. intros H; cbn. rewrite path_eqb_neq by assumption. reflexivity. Qed.

Definition apply_writes (s : fs) (ws : list (path * bytes)) : fs :=
  fold_left (fun s w => fs_write s (fst w) (snd w)) ws s.

Lemma lookup_apply_notin ws : forall s q,
  ~ In q (map fst ws) -> fs_lookup (apply_writes s ws) q = fs_lookup s q.
Proof.
  induction ws as [|[p d] ws IH]; intros s q Hq; [reflexivity|].
  cbn [apply_writes fold_left fst snd]. cbn in Hq.
  change (fs_lookup (apply_writes (fs_write s p d) ws) q = fs_lookup s q).
  rewrite IH by tauto. apply lookup_write_other. tauto.
Qed.

Lemma lookup_apply_in ws : forall s p d,
  NoDup (map fst ws) -> In (p, d) ws -> fs_lookup (apply_writes s ws) p = Some d.
Proof.
  induction ws as [|[q e] ws IH]; intros s p d Hnd Hin; [contradiction|].
  cbn in Hnd. inversion Hnd as [|? ? Hnotin Hnd']; subst.
  change (fs_lookup (apply_writes (fs_write s q e) ws) p = Some d).
  destruct Hin as [Heq | Hin].
  - inversion Heq; subst. rewrite lookup_apply_notin by assumption. apply lookup_write_same.
  - apply IH; assumption.
Qed.

(* any completion order of writes to pairwise distinct paths: every path holds its own bytes *)
Lemma concurrent_writes ws ws' s p d :
  NoDup (map fst ws) -> Permutation ws ws' -> In (p, d) ws ->
  fs_read (apply_writes s ws') p None = Some d.
Proof.
  intros Hnd Hperm Hin. unfold fs_read.
  rewrite (lookup_apply_in ws' s p d); [reflexivity | | ].
  - eapply Permutation_NoDup; [apply Permutation_map; exact Hperm | exact Hnd].
  - eapply Permutation_in; eassumption.
Qed.

Lemma read_missing ws s p :
  ~ In p (map fst ws) -> fs_lookup s p = None -> forall r, fs_read (apply_writes s ws) p r = None.
Proof. intros Hn Hs r; unfold fs_read. rewrite lookup_apply_notin by assumption. rewrite Hs. reflexivity. Qed.

(* ---------------------------------------------------------------- stream refinement *)
Definition R (m : mvs) (b : bio) : Prop :=
  mv_data m = b_data b /\ mv_pos m = b_pos b /\ mv_closed m = b_closed b /\ 0 <= mv_pos m.

Lemma step_sim m b o :
  R m b ->
  snd (mvs_step m o) = snd (bio_step b o) /\ R (fst (mvs_step m o)) (fst (bio_step b o)).
Proof.
  intros (Hd & Hp & Hc & Hpos). destruct m as [d p c]; destruct b as [d' p' c']; cbn in *; subst d' p' c'.
  destruct o as [n | pos whence | | ]; unfold mvs_step, bio_step, R; cbn [mv_data mv_pos mv_closed b_data b_pos b_closed].
  - (* read *)
    destruct c; [cbn; repeat split; auto|].
    set (size := if (match n with None => -1 | Some k => k end) <? 0 then zlen d
                 else match n with None => -1 | Some k => k end).
    destruct (zlen d <=? p) eqn:Hle.
    + apply Z.leb_le in Hle.
      assert (Hrest : skipn (Z.to_nat p) d = []) by (apply skipn_ge_nil; unfold zlen in Hle; lia).
      rewrite Hrest.
      assert (Hgot : match n with None => [] | Some k => if k <? 0 then [] else firstn (Z.to_nat k) (@nil Z) end = [])
        by (destruct n as [k|]; [destruct (k <? 0); [reflexivity | apply firstn_nil] | reflexivity]).
      rewrite Hgot. cbn. repeat split; auto; lia.
    + apply Z.leb_gt in Hle.
      set (rest := skipn (Z.to_nat p) d).
      assert (Hlr : zlen rest = zlen d - p) by (unfold rest; rewrite zlen_skipn by lia; lia).
      assert (Hgot : slice d p (Z.min (zlen d) (p + size)) =
                     match n with None => rest | Some k => if k <? 0 then rest else firstn (Z.to_nat k) rest end
                     /\ Z.min (zlen d) (p + size) = p + zlen (slice d p (Z.min (zlen d) (p + size)))).
      { unfold slice. fold rest. unfold size.
        destruct n as [k|].
        - destruct (k <? 0) eqn:Hk.
          + replace (Z.min (zlen d) (p + zlen d)) with (zlen d) by lia.
            rewrite firstn_ge_all by (unfold zlen in *; lia). split; [reflexivity | lia].
          + apply Z.ltb_ge in Hk.
            destruct (Z.le_gt_cases (p + k) (zlen d)) as [Hfit | Hover].
            * replace (Z.min (zlen d) (p + k)) with (p + k) by lia.
              replace (p + k - p) with k by lia. split; [reflexivity|].
              rewrite zlen_firstn by lia. lia.
            * replace (Z.min (zlen d) (p + k)) with (zlen d) by lia.
              rewrite firstn_ge_all by (unfold zlen in *; lia).
              rewrite (firstn_ge_all rest (Z.to_nat k)) by (unfold zlen in *; lia).
              split; [reflexivity | lia].
        - cbn [Z.ltb Z.compare]. replace (Z.min (zlen d) (p + zlen d)) with (zlen d) by lia.
          rewrite firstn_ge_all by (unfold zlen in *; lia). split; [reflexivity | lia]. }
      destruct Hgot as [Hg1 Hg2]. cbn [fst snd mv_data mv_pos mv_closed b_data b_pos b_closed].
      rewrite <- Hg1. pose proof (zlen_nonneg d) as Hd0.
      repeat split; auto; try exact Hg2; try lia.
      rewrite Hg2. pose proof (zlen_nonneg (slice d p (Z.min (zlen d) (p + size)))). lia.
  - (* seek *)
    destruct c; [cbn; repeat split; auto|].
    destruct (whence =? 0); [destruct (pos <? 0) eqn:Hn; cbn; repeat split; auto; apply Z.ltb_ge in Hn; lia|].
    destruct (whence =? 1); [cbn; repeat split; auto; lia|].
    destruct (whence =? 2); cbn; repeat split; auto; lia.
  - destruct c; cbn; repeat split; auto.
  - cbn; repeat split; auto.
Qed.

Lemma run_sim ops : forall m b, R m b -> run mvs_step m ops = run bio_step b ops.
Proof.
  induction ops as [|o ops IH]; intros m b HR; [reflexivity|].
  cbn [run]. destruct (step_sim m b o HR) as [Hout HR'].
  destruct (mvs_step m o) as [m' om]; destruct (bio_step b o) as [b' ob]; cbn in *.
  subst. f_equal. apply IH; assumption.
Qed.

Lemma stream_refines d ops : run_mvs d ops = run_bio d ops.
Proof. apply run_sim. unfold R; cbn; repeat split; lia. Qed.

(* a full read() after seek(0) returns the whole buffer: what an uploader sees *)
Lemma stream_read_all d : run_mvs d [SRead None] = [OBytes d].
Proof.
  rewrite stream_refines. unfold run_bio; cbn.
  reflexivity.
Qed.
