(* C05: lemmas about model/StoragePath.v (storage locations, their resolution by the file system, references). *)
From TS Require Import model.Base model.Flatten proofs.FlattenProofs model.StoragePath.
From TS Require Import model.Batch proofs.ChunkProofs proofs.BatchProofs.
From TS Require Import gen.PartitionGen model.Partition proofs.PartitionProofs.
From Coq Require Import Permutation.

(* ================================================================== 1. components *)
(* a component as _encode produces it: no "/", not "." and not ".." *)
Definition okc (c : component) : Prop := slash_free c /\ c <> [46] /\ c <> [46; 46].
(* ... and not empty: the file system keeps such a component as it is *)
Definition plain (c : component) : Prop := c <> [] /\ okc c.
Definition no_empty_component (q : path) : Prop := Forall (fun c : component => c <> []) q.

Lemma okc_plain : forall q, Forall okc q -> no_empty_component q -> Forall plain q.
Proof.
  intros q H1 H2. unfold no_empty_component in H2. rewrite Forall_forall in *. intros c Hc. split; [exact (H2 c Hc) | exact (H1 c Hc)].
Qed.

Lemma encode_okc : forall s, okc (encode s).
Proof.
  intro s. split; [exact (encode_slash_free s)|]. unfold encode.
  destruct (str_eqb (flat_map esc_char s) [46] || str_eqb (flat_map esc_char s) [46; 46]) eqn:E.
  - apply orb_true_iff in E. destruct E as [E|E]; apply str_eqb_eq in E; rewrite E; cbn; split; discriminate.
  - apply orb_false_iff in E. destruct E as [E1 E2]. apply str_eqb_neq in E1. apply str_eqb_neq in E2. split; assumption.
Qed.

Lemma encode_nil : forall s, encode s = [] -> s = [].
Proof. intros s H. rewrite <- (decode_encode s), H. reflexivity. Qed.

Lemma str_of_Z_chars : forall z c, In c (str_of_Z z) -> is_digit c \/ c = 45.
Proof.
  intros z c H. unfold str_of_Z in H. destruct (Z.to_int z) as [d|d].
  - left. exact (uint_chars_digits d c H).
  - destruct H as [H|H]; [right; symmetry; exact H | left; exact (uint_chars_digits d c H)].
Qed.

Lemma uint_chars_nil : forall d, uint_chars d = [] -> d = Decimal.Nil.
Proof. destruct d; cbn; intro H; try discriminate; reflexivity. Qed.

Lemma str_of_Z_nonnil : forall z, str_of_Z z <> [].
Proof.
  intro z. unfold str_of_Z. destruct z as [|p|p]; cbn.
  - discriminate.
  - intro H. apply uint_chars_nil in H. exact (pos_to_uint_nonnil p H).
  - discriminate.
Qed.

Lemma str_of_Z_plain : forall z, plain (str_of_Z z).
Proof.
  intro z. split; [apply str_of_Z_nonnil|]. split; [apply str_of_Z_slash_free|].
  split; intro E; assert (H : In 46 (str_of_Z z)) by (rewrite E; cbn; auto);
    apply str_of_Z_chars in H; unfold is_digit in H; lia.
Qed.

Lemma plain_literals : plain s_replicated /\ plain s_sharded /\ plain s_replicated_sharded /\ plain s_batched.
Proof.
  repeat split; try discriminate; unfold slash_free; cbn; intro H;
    repeat (destruct H as [H|H]; [discriminate|]); exact H.
Qed.

Lemma prefix_plain : forall sh rp rank, plain (prefix_of sh rp rank).
Proof.
  intros sh rp rank. destruct plain_literals as (H1 & H2 & H3 & _). unfold prefix_of.
  destruct sh, rp; try assumption. apply str_of_Z_plain.
Qed.

(* a string that contains "_" is neither "." nor ".." nor empty *)
Lemma app_underscore_plain : forall c t, slash_free c -> slash_free t -> In 95 t -> plain (c ++ t).
Proof.
  intros c t Hc Ht Hu. assert (Hin : In 95 (c ++ t)) by (apply in_or_app; right; exact Hu).
  split; [intro E; rewrite E in Hin; destruct Hin|]. split.
  - intro H. apply in_app_or in H. destruct H; [exact (Hc H) | exact (Ht H)].
  - split; intro E; rewrite E in Hin; cbn in Hin; intuition discriminate.
Qed.

(* ================================================================== 2. separators *)
Lemma sep_split_inj : forall (sep : Z) (a b x y : pystr),
  ~ In sep a -> ~ In sep b -> a ++ sep :: x = b ++ sep :: y -> a = b /\ x = y.
Proof.
  intros sep. induction a as [|c a IH]; intros b x y Ha Hb E; destruct b as [|d b]; cbn [app] in E.
  - inversion E. split; reflexivity.
  - inversion E; subst. exfalso. apply Hb. left. reflexivity.
  - inversion E; subst. exfalso. apply Ha. left. reflexivity.
  - inversion E; subst. destruct (IH b x y) as [E1 E2].
    + intro H. apply Ha. right. exact H.
    + intro H. apply Hb. right. exact H.
    + assumption.
    + subst. split; reflexivity.
Qed.

Lemma sep_free_neq : forall (sep : Z) (a b y : pystr), ~ In sep a -> a <> b ++ sep :: y.
Proof. intros sep a b y Ha E. apply Ha. rewrite E. apply in_or_app. right. left. reflexivity. Qed.

Lemma joinc_cons2 : forall sep a b r, joinc sep (a :: b :: r) = a ++ sep :: joinc sep (b :: r).
Proof. reflexivity. Qed.

Lemma joinc_inj : forall sep ts1 ts2,
  Forall (fun t => ~ In sep t /\ t <> []) ts1 -> Forall (fun t => ~ In sep t /\ t <> []) ts2 ->
  joinc sep ts1 = joinc sep ts2 -> ts1 = ts2.
Proof.
  intros sep. induction ts1 as [|a r1 IH]; intros ts2 F1 F2 E.
  - destruct ts2 as [|b r2]; [reflexivity|]. exfalso. inversion F2 as [|? ? [_ Hb] _]; subst.
    cbn [joinc] in E. destruct r2; [apply Hb; symmetry; exact E | destruct b; [apply Hb; reflexivity | discriminate]].
  - inversion F1 as [|? ? [Ha1 Ha2] F1']; subst. destruct ts2 as [|b r2].
    + exfalso. cbn [joinc] in E. destruct r1; [apply Ha2; exact E | destruct a; [apply Ha2; reflexivity | discriminate]].
    + inversion F2 as [|? ? [Hb1 Hb2] F2']; subst. destruct r1 as [|a' r1]; destruct r2 as [|b' r2].
      * cbn [joinc] in E. subst. reflexivity.
      * exfalso. rewrite joinc_cons2 in E. change (joinc sep [a]) with a in E. exact (sep_free_neq sep a b _ Ha1 E).
      * exfalso. rewrite joinc_cons2 in E. change (joinc sep [b]) with b in E. symmetry in E. exact (sep_free_neq sep b a _ Hb1 E).
      * rewrite !joinc_cons2 in E. apply sep_split_inj in E; [|assumption|assumption]. destruct E as [E1 E2].
        subst. f_equal. apply IH; assumption.
Qed.

Lemma offsets_tokens_ok : forall offs, Forall (fun t => ~ In 95 t /\ t <> []) (map str_of_Z offs).
Proof.
  intro offs. apply Forall_forall. intros t Ht. apply in_map_iff in Ht. destruct Ht as [z [E _]]. subst t. split.
  - intro H. apply str_of_Z_chars in H. unfold is_digit in H. lia.
  - apply str_of_Z_nonnil.
Qed.

Lemma offsets_suffix_inj : forall o1 o2, offsets_suffix o1 = offsets_suffix o2 -> o1 = o2.
Proof.
  intros o1 o2 E. unfold offsets_suffix in E. inversion E as [E'].
  apply joinc_inj in E'; [|apply offsets_tokens_ok|apply offsets_tokens_ok]. clear E.
  revert o2 E'. induction o1 as [|a o1 IH]; intros [|b o2] E'; try discriminate; [reflexivity|].
  cbn [map] in E'. inversion E' as [[Ea Eo]]. apply str_of_Z_inj in Ea. subst. f_equal. apply IH. exact Eo.
Qed.

(* the characters a chunk / shard suffix is made of: digits, "_" and "-" *)
Definition suffix_chars (t : pystr) : Prop := Forall (fun c => is_digit c \/ c = 95 \/ c = 45) t.

Lemma joinc_offsets_chars : forall offs, suffix_chars (joinc 95 (map str_of_Z offs)).
Proof.
  induction offs as [|a r IH]; [constructor|]. cbn [map]. destruct r as [|b r].
  - cbn [map joinc]. apply Forall_forall. intros c Hc. apply str_of_Z_chars in Hc. tauto.
  - cbn [map] in *. rewrite joinc_cons2. apply Forall_app. split.
    + apply Forall_forall. intros c Hc. apply str_of_Z_chars in Hc. tauto.
    + constructor; [right; left; reflexivity | exact IH].
Qed.

Lemma offsets_suffix_shape : forall offs, exists t, offsets_suffix offs = 95 :: t /\ suffix_chars t.
Proof. intro offs. exists (joinc 95 (map str_of_Z offs)). split; [reflexivity | apply joinc_offsets_chars]. Qed.

Lemma offsets_suffix_slash_free : forall offs, slash_free (offsets_suffix offs).
Proof.
  intros offs H. destruct (offsets_suffix_shape offs) as [t [E F]]. rewrite E in H. destruct H as [H|H]; [discriminate|].
  unfold suffix_chars in F. rewrite Forall_forall in F. apply F in H. unfold is_digit in H. lia.
Qed.

Lemma suffix_chars_app_l : forall a b, suffix_chars (a ++ b) -> suffix_chars a.
Proof. intros a b H. apply Forall_app in H. tauto. Qed.

(* ================================================================== 3. os.path.join *)
Lemma ends_slash_false : forall s, slash_free s -> ends_slash s = false.
Proof.
  intros s H. unfold ends_slash. destruct (rev s) as [|c r] eqn:E; [reflexivity|].
  apply Z.eqb_neq. intro Hc. subst c. apply H. apply in_rev. rewrite E. left. reflexivity.
Qed.

Lemma os_join_plain : forall a b, plain a -> starts_slash b = false -> os_join a b = a ++ 47 :: b.
Proof.
  intros a b [Hn [Hs _]] Hb. unfold os_join. rewrite Hb, (ends_slash_false a Hs).
  destruct a; [contradiction Hn; reflexivity | reflexivity].
Qed.

Lemma join_cons2 : forall a b r, join (a :: b :: r) = a ++ 47 :: join (b :: r).
Proof. reflexivity. Qed.

(* the "/"-join of a non-empty component list whose first component is not empty does not start with "/" *)
Lemma starts_slash_join : forall q, q <> [] -> hd [] q <> [] -> slash_free (hd [] q) -> starts_slash (join q) = false.
Proof.
  intros [|c r] Hq Hh Hs; [contradiction Hq; reflexivity|]. cbn [hd] in Hh, Hs.
  destruct c as [|x c]; [contradiction Hh; reflexivity|].
  assert (Hx : (x =? 47) = false) by (apply Z.eqb_neq; intro E; subst; apply Hs; left; reflexivity).
  destruct r; cbn [join app starts_slash]; exact Hx.
Qed.

Lemma os_join_components : forall a q, plain a -> q <> [] -> hd [] q <> [] -> slash_free (hd [] q) ->
  os_join a (join q) = join (a :: q).
Proof.
  intros a q Ha Hq Hh Hs. rewrite (os_join_plain a _ Ha (starts_slash_join q Hq Hh Hs)).
  destruct q as [|c r]; [contradiction Hq; reflexivity | reflexivity].
Qed.

(* ================================================================== 4. appending a suffix to the last component *)
Fixpoint ext_last (ts : list pystr) (t : pystr) : list pystr :=
  match ts with
  | [] => [t]
  | x :: r => match r with [] => [x ++ t] | _ => x :: ext_last r t end
  end.

Lemma ext_last_cons2 : forall a b r t, ext_last (a :: b :: r) t = a :: ext_last (b :: r) t.
Proof. reflexivity. Qed.

Lemma ext_last_nonnil : forall ts t, ext_last ts t <> [].
Proof. intros [|a [|b r]] t; discriminate. Qed.

Lemma join_cons_nonnil : forall a l, l <> [] -> join (a :: l) = a ++ 47 :: join l.
Proof. intros a [|b r] H; [contradiction H; reflexivity | reflexivity]. Qed.

Lemma join_ext_last : forall ts t, ts <> [] -> join ts ++ t = join (ext_last ts t).
Proof.
  induction ts as [|a r IH]; intros t H; [contradiction H; reflexivity|]. destruct r as [|b r].
  - reflexivity.
  - rewrite join_cons2, ext_last_cons2, <- app_assoc. cbn [app]. rewrite IH by discriminate.
    symmetry. apply join_cons_nonnil. apply ext_last_nonnil.
Qed.

Lemma ext_last_nil : forall ts, ts <> [] -> ext_last ts [] = ts.
Proof.
  induction ts as [|a r IH]; intro H; [contradiction H; reflexivity|]. destruct r as [|b r].
  - cbn. rewrite app_nil_r. reflexivity.
  - rewrite ext_last_cons2, IH by discriminate. reflexivity.
Qed.

(* every component but the last is kept; the last one gets the suffix *)
Lemma ext_last_Forall : forall (P : pystr -> Prop) ts t, ts <> [] ->
  Forall P (removelast ts) -> P (last ts [] ++ t) -> Forall P (ext_last ts t).
Proof.
  intros P. induction ts as [|a r IH]; intros t H F L; [contradiction H; reflexivity|]. destruct r as [|b r].
  - cbn in *. constructor; [exact L | constructor].
  - rewrite ext_last_cons2. change (removelast (a :: b :: r)) with (a :: removelast (b :: r)) in F.
    inversion F; subst. constructor; [assumption|]. apply IH; [discriminate | assumption | exact L].
Qed.

Lemma Forall_removelast : forall {A} (P : A -> Prop) l, Forall P l -> Forall P (removelast l).
Proof.
  intros A P. induction l as [|a r IH]; intro F; [constructor|]. destruct r as [|b r]; [constructor|].
  change (removelast (a :: b :: r)) with (a :: removelast (b :: r)). inversion F; subst. constructor; [assumption | apply IH; assumption].
Qed.

Lemma Forall_last : forall {A} (P : A -> Prop) l d, l <> [] -> Forall P l -> P (last l d).
Proof.
  intros A P. induction l as [|a r IH]; intros d H F; [contradiction H; reflexivity|]. destruct r as [|b r].
  - inversion F; assumption.
  - change (last (a :: b :: r) d) with (last (b :: r) d). inversion F; subst. apply IH; [discriminate | assumption].
Qed.

(* ================================================================== 5. resolution *)
Lemma plain_flags : forall c, plain c -> is_nil c = false /\ is_dot c = false /\ is_dotdot c = false.
Proof.
  intros c [Hn [_ [H1 H2]]]. repeat split.
  - destruct c; [contradiction Hn; reflexivity | reflexivity].
  - apply str_eqb_neq. exact H1.
  - apply str_eqb_neq. exact H2.
Qed.

Lemma resolve_from_plain : forall cs st, Forall plain cs -> resolve_from st cs = Some (rev st ++ cs).
Proof.
  induction cs as [|c r IH]; intros st F; cbn [resolve_from].
  - rewrite app_nil_r. reflexivity.
  - inversion F as [|? ? Hc Hr]; subst. destruct (plain_flags c Hc) as (E1 & E2 & E3). rewrite E1, E2, E3. cbn [orb].
    rewrite (IH (c :: st) Hr). cbn [rev]. rewrite <- app_assoc. reflexivity.
Qed.

(* plain components only: the file system takes the location literally *)
Lemma resolve_plain : forall cs, Forall plain cs -> resolve cs = Some cs.
Proof.
  intros cs F. unfold resolve. destruct cs as [|c r]; [reflexivity|].
  inversion F as [|? ? [Hn _] _]; subst. destruct c as [|x c]; [contradiction Hn; reflexivity|].
  exact (resolve_from_plain _ [] F).
Qed.

Lemma okc_dotdot : forall c, okc c -> is_dotdot c = false.
Proof. intros c [_ [_ H]]. apply str_eqb_neq. exact H. Qed.

(* without ".." the walk never leaves the root *)
Lemma resolve_from_total : forall cs st, Forall okc cs -> exists l, resolve_from st cs = Some l.
Proof.
  induction cs as [|c r IH]; intros st F; cbn [resolve_from]; [eexists; reflexivity|].
  inversion F as [|? ? Hc Hr]; subst. destruct (is_nil c || is_dot c); [apply IH; exact Hr|].
  rewrite (okc_dotdot c Hc). apply IH. exact Hr.
Qed.

Lemma resolve_total : forall cs, Forall okc cs -> hd [] cs <> [] -> exists l, resolve cs = Some l.
Proof.
  intros cs F H. unfold resolve. destruct cs as [|c r]; [eexists; reflexivity|]. cbn [hd] in H.
  destruct c as [|x c]; [contradiction H; reflexivity|]. exact (resolve_from_total _ [] F).
Qed.

(* ================================================================== 6. the components of a location *)
Definition item_suffix (a : litem) : pystr := match li_offs a with None => [] | Some o => offsets_suffix o end.
Definition item_components (a : litem) : list component := ext_last (item_prefix a :: li_path a) (item_suffix a).

(* what flatten guarantees about a logical path *)
Definition wf_path (q : path) : Prop := q <> [] /\ Forall okc q.
(* the app_state key is not the empty string *)
Definition relative (q : path) : Prop := hd [] q <> [].

Lemma location_is_join : forall a, wf_path (li_path a) -> relative (li_path a) ->
  location_of a = join (item_components a) /\ Forall slash_free (item_components a).
Proof.
  intros a [Hq F] Hrel. unfold location_of, item_components, item_suffix, item_storage_path, storage_path, chunk_location.
  fold (item_prefix a). assert (Hp : plain (item_prefix a)) by apply prefix_plain.
  assert (Hs : slash_free (hd [] (li_path a))).
  { destruct (li_path a) as [|c r]; [contradiction Hq; reflexivity|]. inversion F as [|? ? [Hc _] _]. exact Hc. }
  rewrite (os_join_components _ _ Hp Hq Hrel Hs).
  assert (Fs : Forall slash_free (item_prefix a :: li_path a)).
  { constructor; [apply Hp|]. apply Forall_forall. intros c Hc. rewrite Forall_forall in F. exact (proj1 (F c Hc)). }
  destruct (li_offs a) as [offs|].
  - split; [apply join_ext_last; discriminate|]. apply ext_last_Forall; [discriminate | apply Forall_removelast; exact Fs |].
    intro H. apply in_app_or in H. destruct H as [H|H].
    + revert H. apply (Forall_last slash_free _ []); [discriminate | exact Fs].
    + exact (offsets_suffix_slash_free offs H).
  - rewrite ext_last_nil by discriminate. split; [reflexivity | exact Fs].
Qed.

Lemma item_components_split : forall a, wf_path (li_path a) -> relative (li_path a) ->
  split (location_of a) = item_components a.
Proof.
  intros a W R. destruct (location_is_join a W R) as [E F]. rewrite E. apply split_join; [apply ext_last_nonnil | exact F].
Qed.

Lemma item_components_okc : forall a, wf_path (li_path a) -> Forall okc (item_components a).
Proof.
  intros a [Hq F]. unfold item_components, item_suffix.
  assert (Fp : Forall okc (item_prefix a :: li_path a)) by (constructor; [apply prefix_plain | exact F]).
  destruct (li_offs a) as [offs|].
  - apply ext_last_Forall; [discriminate | apply Forall_removelast; exact Fp |].
    apply app_underscore_plain.
    + apply (Forall_last okc _ []); [discriminate | exact Fp].
    + apply offsets_suffix_slash_free.
    + left. reflexivity.
  - rewrite ext_last_nil by discriminate. exact Fp.
Qed.

Lemma item_components_plain : forall a, wf_path (li_path a) -> no_empty_component (li_path a) ->
  Forall plain (item_components a).
Proof.
  intros a [Hq F] Hne. unfold item_components, item_suffix.
  assert (Fp : Forall plain (item_prefix a :: li_path a)) by (constructor; [apply prefix_plain | apply okc_plain; assumption]).
  destruct (li_offs a) as [offs|].
  - apply ext_last_Forall; [discriminate | apply Forall_removelast; exact Fp |].
    apply app_underscore_plain.
    + apply (Forall_last plain _ []); [discriminate | exact Fp].
    + apply offsets_suffix_slash_free.
    + left. reflexivity.
  - rewrite ext_last_nil by discriminate. exact Fp.
Qed.

Lemma item_components_head : forall a, hd [] (item_components a) <> [].
Proof.
  intro a. unfold item_components. destruct (li_path a) as [|c r].
  - cbn. intro E. apply app_eq_nil in E. destruct E as [E _]. exact (proj1 (prefix_plain _ _ _) E).
  - rewrite ext_last_cons2. cbn [hd]. apply prefix_plain.
Qed.

(* CONFINED, general form: the location never leaves the root; without empty components it denotes itself *)
Lemma location_confined : forall a, wf_path (li_path a) -> relative (li_path a) ->
  (exists l, resolve_s (location_of a) = Some l) /\
  (no_empty_component (li_path a) -> resolve_s (location_of a) = Some (split (location_of a))).
Proof.
  intros a W R. unfold resolve_s. rewrite (item_components_split a W R). split.
  - apply resolve_total; [apply item_components_okc; exact W | apply item_components_head].
  - intro Hne. apply resolve_plain. apply item_components_plain; assumption.
Qed.

Lemma slab_location_resolves : forall u, plain u ->
  slab_location u = join [s_batched; u] /\ resolve_s (slab_location u) = Some [s_batched; u].
Proof.
  intros u Hu. destruct plain_literals as (_ & _ & _ & Hb). unfold slab_location.
  assert (E : os_join s_batched u = join [s_batched; u]).
  { change u with (join [u]) at 1. apply os_join_components; [exact Hb | discriminate | exact (proj1 Hu) | exact (proj1 (proj2 Hu))]. }
  rewrite E. split; [reflexivity|]. unfold resolve_s. rewrite split_join.
  - apply resolve_plain. constructor; [exact Hb | constructor; [exact Hu | constructor]].
  - discriminate.
  - constructor; [exact (proj1 (proj2 Hb)) | constructor; [exact (proj1 (proj2 Hu)) | constructor]].
Qed.

(* ---- what flatten produces ---- *)
Lemma kids_token_okc : forall o t c, In (t, c) (kids o) -> okc t.
Proof.
  intros o t c Hin. destruct o as [l|xs|ord kvs]; cbn [kids] in Hin.
  - destruct Hin.
  - apply in_combine_l in Hin. unfold list_tokens in Hin. apply in_map_iff in Hin. destruct Hin as [i [E _]].
    subst t. apply str_of_Z_plain.
  - apply in_map_iff in Hin. destruct Hin as [kv [E _]]. inversion E. apply encode_okc.
Qed.

Lemma all_paths_okc : forall o P q, Forall okc P -> In q (all_paths o P) -> Forall okc q.
Proof.
  induction o using obj_kids_ind. intros P q FP Hin. destruct (is_leaflike o) eqn:L.
  - unfold all_paths in Hin. rewrite (flatten_leaflike o P L) in Hin. cbn in Hin. destruct Hin as [E|[]]. subst. exact FP.
  - apply (Permutation_in _ (all_paths_container o P L)) in Hin. destruct Hin as [E|Hin]; [subst; exact FP|].
    apply in_flat_map in Hin. destruct Hin as [[t c] [Hk Hin]]. cbn [fst snd] in Hin.
    apply (H t c Hk (P ++ [t]) q); [|exact Hin]. apply Forall_app. split; [exact FP|].
    constructor; [exact (kids_token_okc o t c Hk) | constructor].
Qed.

Lemma flatten_path_wf : forall o appkey q, In q (all_paths o [encode appkey]) ->
  wf_path q /\ (appkey <> [] -> relative q).
Proof.
  intros o appkey q Hin. pose proof (all_paths_prefix _ _ _ Hin) as [r E]. subst q. split; [split|].
  - discriminate.
  - apply (all_paths_okc o [encode appkey]); [constructor; [apply encode_okc | constructor] | exact Hin].
  - intros Hk. unfold relative. cbn [app hd]. intro E. apply Hk. exact (encode_nil _ E).
Qed.

(* ================================================================== 7. CONFINED for everything flatten produces *)
Lemma leaf_in_all_paths : forall o appkey q,
  In q (map fst (snd (flatten_top o appkey))) -> In q (all_paths o [encode appkey]).
Proof. intros o appkey q H. unfold all_paths, flatten_top in *. apply in_or_app. right. exact H. Qed.

Theorem confined : forall (o : obj) (appkey : pystr) (q : path) sh rp rank offs,
  appkey <> [] -> In q (map fst (snd (flatten_top o appkey))) ->
  (exists l, resolve_s (location_of (mkLoc sh rp rank q offs)) = Some l) /\
  (no_empty_component q ->
   resolve_s (location_of (mkLoc sh rp rank q offs)) = Some (split (location_of (mkLoc sh rp rank q offs)))).
Proof.
  intros o appkey q sh rp rank offs Hk Hin. apply leaf_in_all_paths in Hin.
  destruct (flatten_path_wf o appkey q Hin) as [W R]. apply location_confined; [exact W | exact (R Hk)].
Qed.

Lemma confined_legacy_refuted :
  exists q : path, Forall (fun c => exists s, c = encode_legacy s) q /\ relative q /\ no_empty_component q /\
                   resolve_s (location_of (mkLoc false false 0 q None)) = None.
Proof.
  exists [[109]; [46; 46]; [46; 46]; [46; 46]; [120]]. split; [|split; [|split]].
  - repeat constructor; [exists [109] | exists [46; 46] | exists [46; 46] | exists [46; 46] | exists [120]]; reflexivity.
  - discriminate.
  - repeat constructor; discriminate.
  - vm_compute. reflexivity.
Qed.

(* the empty app_state key: flatten's paths start with an empty component, os.path.join drops the prefix AND the root *)
Lemma confined_empty_app_key_refuted :
  exists (o : obj) (q : path), In q (map fst (snd (flatten_top o []))) /\
    location_of (mkLoc false false 0 q None) = [47; 120] /\
    resolve_s (location_of (mkLoc false false 0 q None)) = None.
Proof.
  exists (ODict false [(KStr [120], Leaf 1)]), [[]; [120]]. split; [|split]; vm_compute; auto.
Qed.
