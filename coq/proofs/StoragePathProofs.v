(* C05: lemmas about model/StoragePath.v (storage locations, their resolution by the file system, references). *)
From TS Require Import model.Base model.Flatten proofs.FlattenProofs model.StoragePath.
From TS Require Import model.Batch proofs.ChunkProofs proofs.BatchProofs.
From TS Require Import gen.PartitionGen model.Partition proofs.PartitionProofs.
From Coq Require Import Permutation.

(* ================================================================== 1. components *)
(* a component as _encode produces it: no "/", not "." and not ".." *)
Definition okc (c : component) : Prop := slash_free c /\ c <> [46] /\ c <> [46; 46].
(* ... and not empty: the file system keeps such a component as it is *)
Definition plain (c : component) : Prop := c <> [] /\ okc c.
Definition no_empty_component (q : path) : Prop := Forall (fun c : component => c <> []) q.

Lemma okc_plain : forall q, Forall okc q -> no_empty_component q -> Forall plain q.
Proof.
  intros q H1 H2. unfold no_empty_component in H2. rewrite Forall_forall in *. intros c Hc. split; [exact (H2 c Hc) | exact (H1 c Hc)].
Qed.

Lemma encode_okc : forall s, okc (encode s).
Proof.
  intro s. split; [exact (encode_slash_free s)|]. unfold encode.
  destruct (str_eqb (flat_map esc_char s) [46] || str_eqb (flat_map esc_char s) [46; 46]) eqn:E.
  - apply orb_true_iff in E. destruct E as [E|E]; apply str_eqb_eq in E; rewrite E; cbn; split; discriminate.
  - apply orb_false_iff in E. destruct E as [E1 E2]. apply str_eqb_neq in E1. apply str_eqb_neq in E2. split; assumption.
Qed.

Lemma encode_nil : forall s, encode s = [] -> s = [].
Proof. intros s H. rewrite <- (decode_encode s), H. reflexivity. Qed.

Lemma str_of_Z_chars : forall z c, In c (str_of_Z z) -> is_digit c \/ c = 45.
Proof.
  intros z c H. unfold str_of_Z in H. destruct (Z.to_int z) as [d|d].
  - left. exact (uint_chars_digits d c H).
  - destruct H as [H|H]; [right; symmetry; exact H | left; exact (uint_chars_digits d c H)].
Qed.

Lemma uint_chars_nil : forall d, uint_chars d = [] -> d = Decimal.Nil.
Proof. destruct d; cbn; intro H; try discriminate; reflexivity. Qed.

Lemma str_of_Z_nonnil : forall z, str_of_Z z <> [].
Proof.
  intro z. unfold str_of_Z. destruct z as [|p|p]; cbn.
  - discriminate.
  - intro H. apply uint_chars_nil in H. exact (pos_to_uint_nonnil p H).
  - discriminate.
Qed.

Lemma str_of_Z_plain : forall z, plain (str_of_Z z).
Proof.
  intro z. split; [apply str_of_Z_nonnil|]. split; [apply str_of_Z_slash_free|].
  split; intro E; assert (H : In 46 (str_of_Z z)) by (rewrite E; cbn; auto);
    apply str_of_Z_chars in H; unfold is_digit in H; lia.
Qed.

Lemma plain_literals : plain s_replicated /\ plain s_sharded /\ plain s_replicated_sharded /\ plain s_batched.
Proof.
  repeat split; try discriminate; unfold slash_free; cbn; intro H;
    repeat (destruct H as [H|H]; [discriminate|]); exact H.
Qed.

Lemma prefix_plain : forall sh rp rank, plain (prefix_of sh rp rank).
Proof.
  intros sh rp rank. destruct plain_literals as (H1 & H2 & H3 & _). unfold prefix_of.
  destruct sh, rp; try assumption. apply str_of_Z_plain.
Qed.

(* a string that contains "_" is neither "." nor ".." nor empty *)
Lemma app_underscore_plain : forall c t, slash_free c -> slash_free t -> In 95 t -> plain (c ++ t).
Proof.
  intros c t Hc Ht Hu. assert (Hin : In 95 (c ++ t)) by (apply in_or_app; right; exact Hu).
  split; [intro E; rewrite E in Hin; destruct Hin|]. split.
  - intro H. apply in_app_or in H. destruct H; [exact (Hc H) | exact (Ht H)].
  - split; intro E; rewrite E in Hin; cbn in Hin; intuition discriminate.
Qed.

(* ================================================================== 2. separators *)
Lemma sep_split_inj : forall (sep : Z) (a b x y : pystr),
  ~ In sep a -> ~ In sep b -> a ++ sep :: x = b ++ sep :: y -> a = b /\ x = y.
Proof.
  intros sep. induction a as [|c a IH]; intros b x y Ha Hb E; destruct b as [|d b]; cbn [app] in E.
  - inversion E. split; reflexivity.
  - inversion E; subst. exfalso. apply Hb. left. reflexivity.
  - inversion E; subst. exfalso. apply Ha. left. reflexivity.
  - inversion E; subst. destruct (IH b x y) as [E1 E2].
    + intro H. apply Ha. right. exact H.
    + intro H. apply Hb. right. exact H.
    + assumption.
    + subst. split; reflexivity.
Qed.

Lemma sep_free_neq : forall (sep : Z) (a b y : pystr), ~ In sep a -> a <> b ++ sep :: y.
Proof. intros sep a b y Ha E. apply Ha. rewrite E. apply in_or_app. right. left. reflexivity. Qed.

Lemma joinc_cons2 : forall sep a b r, joinc sep (a :: b :: r) = a ++ sep :: joinc sep (b :: r).
Proof. reflexivity. Qed.

Lemma joinc_inj : forall sep ts1 ts2,
  Forall (fun t => ~ In sep t /\ t <> []) ts1 -> Forall (fun t => ~ In sep t /\ t <> []) ts2 ->
  joinc sep ts1 = joinc sep ts2 -> ts1 = ts2.
Proof.
  intros sep. induction ts1 as [|a r1 IH]; intros ts2 F1 F2 E.
  - destruct ts2 as [|b r2]; [reflexivity|]. exfalso. inversion F2 as [|? ? [_ Hb] _]; subst.
    cbn [joinc] in E. destruct r2; [apply Hb; symmetry; exact E | destruct b; [apply Hb; reflexivity | discriminate]].
  - inversion F1 as [|? ? [Ha1 Ha2] F1']; subst. destruct ts2 as [|b r2].
    + exfalso. cbn [joinc] in E. destruct r1; [apply Ha2; exact E | destruct a; [apply Ha2; reflexivity | discriminate]].
    + inversion F2 as [|? ? [Hb1 Hb2] F2']; subst. destruct r1 as [|a' r1]; destruct r2 as [|b' r2].
      * cbn [joinc] in E. subst. reflexivity.
      * exfalso. rewrite joinc_cons2 in E. change (joinc sep [a]) with a in E. exact (sep_free_neq sep a b _ Ha1 E).
      * exfalso. rewrite joinc_cons2 in E. change (joinc sep [b]) with b in E. symmetry in E. exact (sep_free_neq sep b a _ Hb1 E).
      * rewrite !joinc_cons2 in E. apply sep_split_inj in E; [|assumption|assumption]. destruct E as [E1 E2].
        subst. f_equal. apply IH; assumption.
Qed.

Lemma offsets_tokens_ok : forall offs, Forall (fun t => ~ In 95 t /\ t <> []) (map str_of_Z offs).
Proof.
  intro offs. apply Forall_forall. intros t Ht. apply in_map_iff in Ht. destruct Ht as [z [E _]]. subst t. split.
  - intro H. apply str_of_Z_chars in H. unfold is_digit in H. lia.
  - apply str_of_Z_nonnil.
Qed.

Lemma offsets_suffix_inj : forall o1 o2, offsets_suffix o1 = offsets_suffix o2 -> o1 = o2.
Proof.
  intros o1 o2 E. unfold offsets_suffix in E. inversion E as [E'].
  apply joinc_inj in E'; [|apply offsets_tokens_ok|apply offsets_tokens_ok]. clear E.
  revert o2 E'. induction o1 as [|a o1 IH]; intros [|b o2] E'; try discriminate; [reflexivity|].
  cbn [map] in E'. inversion E' as [[Ea Eo]]. apply str_of_Z_inj in Ea. subst. f_equal. apply IH. exact Eo.
Qed.

(* the characters a chunk / shard suffix is made of: digits, "_" and "-" *)
Definition suffix_chars (t : pystr) : Prop := Forall (fun c => is_digit c \/ c = 95 \/ c = 45) t.

Lemma joinc_offsets_chars : forall offs, suffix_chars (joinc 95 (map str_of_Z offs)).
Proof.
  induction offs as [|a r IH]; [constructor|]. cbn [map]. destruct r as [|b r].
  - cbn [map joinc]. apply Forall_forall. intros c Hc. apply str_of_Z_chars in Hc. tauto.
  - cbn [map] in *. rewrite joinc_cons2. apply Forall_app. split.
    + apply Forall_forall. intros c Hc. apply str_of_Z_chars in Hc. tauto.
    + constructor; [right; left; reflexivity | exact IH].
Qed.

Lemma offsets_suffix_shape : forall offs, exists t, offsets_suffix offs = 95 :: t /\ suffix_chars t.
Proof. intro offs. exists (joinc 95 (map str_of_Z offs)). split; [reflexivity | apply joinc_offsets_chars]. Qed.

Lemma offsets_suffix_slash_free : forall offs, slash_free (offsets_suffix offs).
Proof.
  intros offs H. destruct (offsets_suffix_shape offs) as [t [E F]]. rewrite E in H. destruct H as [H|H]; [discriminate|].
  unfold suffix_chars in F. rewrite Forall_forall in F. apply F in H. unfold is_digit in H. lia.
Qed.

Lemma suffix_chars_app_l : forall a b, suffix_chars (a ++ b) -> suffix_chars a.
Proof. intros a b H. apply Forall_app in H. tauto. Qed.

(* ================================================================== 3. os.path.join *)
Lemma ends_slash_false : forall s, slash_free s -> ends_slash s = false.
Proof.
  intros s H. unfold ends_slash. destruct (rev s) as [|c r] eqn:E; [reflexivity|].
  apply Z.eqb_neq. intro Hc. subst c. apply H. apply in_rev. rewrite E. left. reflexivity.
Qed.

Lemma os_join_plain : forall a b, plain a -> starts_slash b = false -> os_join a b = a ++ 47 :: b.
Proof.
  intros a b [Hn [Hs _]] Hb. unfold os_join. rewrite Hb, (ends_slash_false a Hs).
  destruct a; [contradiction Hn; reflexivity | reflexivity].
Qed.

Lemma join_cons2 : forall a b r, join (a :: b :: r) = a ++ 47 :: join (b :: r).
Proof. reflexivity. Qed.

(* the "/"-join of a non-empty component list whose first component is not empty does not start with "/" *)
Lemma starts_slash_join : forall q, q <> [] -> hd [] q <> [] -> slash_free (hd [] q) -> starts_slash (join q) = false.
Proof.
  intros [|c r] Hq Hh Hs; [contradiction Hq; reflexivity|]. cbn [hd] in Hh, Hs.
  destruct c as [|x c]; [contradiction Hh; reflexivity|].
  assert (Hx : (x =? 47) = false) by (apply Z.eqb_neq; intro E; subst; apply Hs; left; reflexivity).
  destruct r; cbn [join app starts_slash]; exact Hx.
Qed.

Lemma os_join_components : forall a q, plain a -> q <> [] -> hd [] q <> [] -> slash_free (hd [] q) ->
  os_join a (join q) = join (a :: q).
Proof.
  intros a q Ha Hq Hh Hs. rewrite (os_join_plain a _ Ha (starts_slash_join q Hq Hh Hs)).
  destruct q as [|c r]; [contradiction Hq; reflexivity | reflexivity].
Qed.

(* ================================================================== 4. appending a suffix to the last component *)
Fixpoint ext_last (ts : list pystr) (t : pystr) : list pystr :=
  match ts with
  | [] => [t]
  | x :: r => match r with [] => [x ++ t] | _ => x :: ext_last r t end
  end.

Lemma ext_last_cons2 : forall a b r t, ext_last (a :: b :: r) t = a :: ext_last (b :: r) t.
Proof. reflexivity. Qed.

Lemma ext_last_nonnil : forall ts t, ext_last ts t <> [].
Proof. intros [|a [|b r]] t; discriminate. Qed.

Lemma join_cons_nonnil : forall a l, l <> [] -> join (a :: l) = a ++ 47 :: join l.
Proof. intros a [|b r] H; [contradiction H; reflexivity | reflexivity]. Qed.

Lemma join_ext_last : forall ts t, ts <> [] -> join ts ++ t = join (ext_last ts t).
Proof.
  induction ts as [|a r IH]; intros t H; [contradiction H; reflexivity|]. destruct r as [|b r].
  - reflexivity.
  - rewrite join_cons2, ext_last_cons2, <- app_assoc. cbn [app]. rewrite IH by discriminate.
    symmetry. apply join_cons_nonnil. apply ext_last_nonnil.
Qed.

Lemma ext_last_nil : forall ts, ts <> [] -> ext_last ts [] = ts.
Proof.
  induction ts as [|a r IH]; intro H; [contradiction H; reflexivity|]. destruct r as [|b r].
  - cbn. rewrite app_nil_r. reflexivity.
  - rewrite ext_last_cons2, IH by discriminate. reflexivity.
Qed.

(* every component but the last is kept; the last one gets the suffix *)
Lemma ext_last_Forall : forall (P : pystr -> Prop) ts t, ts <> [] ->
  Forall P (removelast ts) -> P (last ts [] ++ t) -> Forall P (ext_last ts t).
Proof.
  intros P. induction ts as [|a r IH]; intros t H F L; [contradiction H; reflexivity|]. destruct r as [|b r].
  - cbn in *. constructor; [exact L | constructor].
  - rewrite ext_last_cons2. change (removelast (a :: b :: r)) with (a :: removelast (b :: r)) in F.
    inversion F; subst. constructor; [assumption|]. apply IH; [discriminate | assumption | exact L].
Qed.

Lemma Forall_removelast : forall {A} (P : A -> Prop) l, Forall P l -> Forall P (removelast l).
Proof.
  intros A P. induction l as [|a r IH]; intro F; [constructor|]. destruct r as [|b r]; [constructor|].
  change (removelast (a :: b :: r)) with (a :: removelast (b :: r)). inversion F; subst. constructor; [assumption | apply IH; assumption].
Qed.

Lemma Forall_last : forall {A} (P : A -> Prop) l d, l <> [] -> Forall P l -> P (last l d).
Proof.
  intros A P. induction l as [|a r IH]; intros d H F; [contradiction H; reflexivity|]. destruct r as [|b r].
  - inversion F; assumption.
  - change (last (a :: b :: r) d) with (last (b :: r) d). inversion F; subst. apply IH; [discriminate | assumption].
Qed.

(* ================================================================== 5. resolution *)
Lemma plain_flags : forall c, plain c -> is_nil c = false /\ is_dot c = false /\ is_dotdot c = false.
Proof.
  intros c [Hn [_ [H1 H2]]]. repeat split.
  - destruct c; [contradiction Hn; reflexivity | reflexivity].
  - apply str_eqb_neq. exact H1.
  - apply str_eqb_neq. exact H2.
Qed.

Lemma resolve_from_plain : forall cs st, Forall plain cs -> resolve_from st cs = Some (rev st ++ cs).
Proof.
  induction cs as [|c r IH]; intros st F; cbn [resolve_from].
  - rewrite app_nil_r. reflexivity.
  - inversion F as [|? ? Hc Hr]; subst. destruct (plain_flags c Hc) as (E1 & E2 & E3). rewrite E1, E2, E3. cbn [orb].
    rewrite (IH (c :: st) Hr). cbn [rev]. rewrite <- app_assoc. reflexivity.
Qed.

(* plain components only: the file system takes the location literally *)
Lemma resolve_plain : forall cs, Forall plain cs -> resolve cs = Some cs.
Proof.
  intros cs F. unfold resolve. destruct cs as [|c r]; [reflexivity|].
  inversion F as [|? ? [Hn _] _]; subst. destruct c as [|x c]; [contradiction Hn; reflexivity|].
  exact (resolve_from_plain _ [] F).
Qed.

Lemma okc_dotdot : forall c, okc c -> is_dotdot c = false.
Proof. intros c [_ [_ H]]. apply str_eqb_neq. exact H. Qed.

(* without ".." the walk never leaves the root *)
Lemma resolve_from_total : forall cs st, Forall okc cs -> exists l, resolve_from st cs = Some l.
Proof.
  induction cs as [|c r IH]; intros st F; cbn [resolve_from]; [eexists; reflexivity|].
  inversion F as [|? ? Hc Hr]; subst. destruct (is_nil c || is_dot c); [apply IH; exact Hr|].
  rewrite (okc_dotdot c Hc). apply IH. exact Hr.
Qed.

Lemma resolve_total : forall cs, Forall okc cs -> hd [] cs <> [] -> exists l, resolve cs = Some l.
Proof.
  intros cs F H. unfold resolve. destruct cs as [|c r]; [eexists; reflexivity|]. cbn [hd] in H.
  destruct c as [|x c]; [contradiction H; reflexivity|]. exact (resolve_from_total _ [] F).
Qed.

(* ================================================================== 6. the components of a location *)
Definition item_suffix (a : litem) : pystr := match li_offs a with None => [] | Some o => offsets_suffix o end.
Definition item_components (a : litem) : list component := ext_last (item_prefix a :: li_path a) (item_suffix a).

(* what flatten guarantees about a logical path *)
Definition wf_path (q : path) : Prop := q <> [] /\ Forall okc q.
(* the app_state key is not the empty string *)
Definition relative (q : path) : Prop := hd [] q <> [].

Lemma location_is_join : forall a, wf_path (li_path a) -> relative (li_path a) ->
  location_of a = join (item_components a) /\ Forall slash_free (item_components a).
Proof.
  intros a [Hq F] Hrel. unfold location_of, item_components, item_suffix, item_storage_path, storage_path, chunk_location.
  fold (item_prefix a). assert (Hp : plain (item_prefix a)) by apply prefix_plain.
  assert (Hs : slash_free (hd [] (li_path a))).
  { destruct (li_path a) as [|c r]; [contradiction Hq; reflexivity|]. inversion F as [|? ? [Hc _] _]. exact Hc. }
  rewrite (os_join_components _ _ Hp Hq Hrel Hs).
  assert (Fs : Forall slash_free (item_prefix a :: li_path a)).
  { constructor; [apply Hp|]. apply Forall_forall. intros c Hc. rewrite Forall_forall in F. exact (proj1 (F c Hc)). }
  destruct (li_offs a) as [offs|].
  - split; [apply join_ext_last; discriminate|]. apply ext_last_Forall; [discriminate | apply Forall_removelast; exact Fs |].
    intro H. apply in_app_or in H. destruct H as [H|H].
    + revert H. apply (Forall_last slash_free _ []); [discriminate | exact Fs].
    + exact (offsets_suffix_slash_free offs H).
  - rewrite ext_last_nil by discriminate. split; [reflexivity | exact Fs].
Qed.

Lemma item_components_split : forall a, wf_path (li_path a) -> relative (li_path a) ->
  split (location_of a) = item_components a.
Proof.
  intros a W R. destruct (location_is_join a W R) as [E F]. rewrite E. apply split_join; [apply ext_last_nonnil | exact F].
Qed.

Lemma item_components_okc : forall a, wf_path (li_path a) -> Forall okc (item_components a).
Proof.
  intros a [Hq F]. unfold item_components, item_suffix.
  assert (Fp : Forall okc (item_prefix a :: li_path a)) by (constructor; [apply prefix_plain | exact F]).
  destruct (li_offs a) as [offs|].
  - apply ext_last_Forall; [discriminate | apply Forall_removelast; exact Fp |].
    apply app_underscore_plain.
    + apply (Forall_last okc _ []); [discriminate | exact Fp].
    + apply offsets_suffix_slash_free.
    + left. reflexivity.
  - rewrite ext_last_nil by discriminate. exact Fp.
Qed.

Lemma item_components_plain : forall a, wf_path (li_path a) -> no_empty_component (li_path a) ->
  Forall plain (item_components a).
Proof.
  intros a [Hq F] Hne. unfold item_components, item_suffix.
  assert (Fp : Forall plain (item_prefix a :: li_path a)) by (constructor; [apply prefix_plain | apply okc_plain; assumption]).
  destruct (li_offs a) as [offs|].
  - apply ext_last_Forall; [discriminate | apply Forall_removelast; exact Fp |].
    apply app_underscore_plain.
    + apply (Forall_last plain _ []); [discriminate | exact Fp].
    + apply offsets_suffix_slash_free.
    + left. reflexivity.
  - rewrite ext_last_nil by discriminate. exact Fp.
Qed.

Lemma item_components_head : forall a, hd [] (item_components a) <> [].
Proof.
  intro a. unfold item_components. destruct (li_path a) as [|c r].
  - cbn. intro E. apply app_eq_nil in E. destruct E as [E _]. exact (proj1 (prefix_plain _ _ _) E).
  - rewrite ext_last_cons2. cbn [hd]. apply prefix_plain.
Qed.

(* CONFINED, general form: the location never leaves the root; without empty components it denotes itself *)
Lemma location_confined : forall a, wf_path (li_path a) -> relative (li_path a) ->
  (exists l, resolve_s (location_of a) = Some l) /\
  (no_empty_component (li_path a) -> resolve_s (location_of a) = Some (split (location_of a))).
Proof.
  intros a W R. unfold resolve_s. rewrite (item_components_split a W R). split.
  - apply resolve_total; [apply item_components_okc; exact W | apply item_components_head].
  - intro Hne. apply resolve_plain. apply item_components_plain; assumption.
Qed.

Lemma slab_location_resolves : forall u, plain u ->
  slab_location u = join [s_batched; u] /\ resolve_s (slab_location u) = Some [s_batched; u].
Proof.
  intros u Hu. destruct plain_literals as (_ & _ & _ & Hb). unfold slab_location.
  assert (E : os_join s_batched u = join [s_batched; u]).
  { change u with (join [u]) at 1. apply os_join_components; [exact Hb | discriminate | exact (proj1 Hu) | exact (proj1 (proj2 Hu))]. }
  rewrite E. split; [reflexivity|]. unfold resolve_s. rewrite split_join.
  - apply resolve_plain. constructor; [exact Hb | constructor; [exact Hu | constructor]].
  - discriminate.
  - constructor; [exact (proj1 (proj2 Hb)) | constructor; [exact (proj1 (proj2 Hu)) | constructor]].
Qed.

(* ---- what flatten produces ---- *)
Lemma kids_token_okc : forall o t c, In (t, c) (kids o) -> okc t.
Proof.
  intros o t c Hin. destruct o as [l|xs|ord kvs]; cbn [kids] in Hin.
  - destruct Hin.
  - apply in_combine_l in Hin. unfold list_tokens in Hin. apply in_map_iff in Hin. destruct Hin as [i [E _]].
    subst t. apply str_of_Z_plain.
  - apply in_map_iff in Hin. destruct Hin as [kv [E _]]. inversion E. apply encode_okc.
Qed.

Lemma all_paths_okc : forall o P q, Forall okc P -> In q (all_paths o P) -> Forall okc q.
Proof.
  induction o using obj_kids_ind. intros P q FP Hin. destruct (is_leaflike o) eqn:L.
  - unfold all_paths in Hin. rewrite (flatten_leaflike o P L) in Hin. cbn in Hin. destruct Hin as [E|[]]. subst. exact FP.
  - apply (Permutation_in _ (all_paths_container o P L)) in Hin. destruct Hin as [E|Hin]; [subst; exact FP|].
    apply in_flat_map in Hin. destruct Hin as [[t c] [Hk Hin]]. cbn [fst snd] in Hin.
    apply (H t c Hk (P ++ [t]) q); [|exact Hin]. apply Forall_app. split; [exact FP|].
    constructor; [exact (kids_token_okc o t c Hk) | constructor].
Qed.

Lemma flatten_path_wf : forall o appkey q, In q (all_paths o [encode appkey]) ->
  wf_path q /\ (appkey <> [] -> relative q).
Proof.
  intros o appkey q Hin. pose proof (all_paths_prefix _ _ _ Hin) as [r E]. subst q. split; [split|].
  - discriminate.
  - apply (all_paths_okc o [encode appkey]); [constructor; [apply encode_okc | constructor] | exact Hin].
  - intros Hk. unfold relative. cbn [app hd]. intro E. apply Hk. exact (encode_nil _ E).
Qed.

(* ================================================================== 7. CONFINED for everything flatten produces *)
Lemma leaf_in_all_paths : forall o appkey q,
  In q (map fst (snd (flatten_top o appkey))) -> In q (all_paths o [encode appkey]).
Proof. intros o appkey q H. unfold all_paths, flatten_top in *. apply in_or_app. right. exact H. Qed.

Theorem confined : forall (o : obj) (appkey : pystr) (q : path) sh rp rank offs,
  appkey <> [] -> In q (map fst (snd (flatten_top o appkey))) ->
  (exists l, resolve_s (location_of (mkLoc sh rp rank q offs)) = Some l) /\
  (no_empty_component q ->
   resolve_s (location_of (mkLoc sh rp rank q offs)) = Some (split (location_of (mkLoc sh rp rank q offs)))).
Proof.
  intros o appkey q sh rp rank offs Hk Hin. apply leaf_in_all_paths in Hin.
  destruct (flatten_path_wf o appkey q Hin) as [W R]. apply location_confined; [exact W | exact (R Hk)].
Qed.

Lemma confined_legacy_refuted :
  exists q : path, Forall (fun c => exists s, c = encode_legacy s) q /\ relative q /\ no_empty_component q /\
                   resolve_s (location_of (mkLoc false false 0 q None)) = None.
Proof.
  exists [[109]; [46; 46]; [46; 46]; [46; 46]; [120]]. split; [|split; [|split]].
  - repeat constructor; [exists [109] | exists [46; 46] | exists [46; 46] | exists [46; 46] | exists [120]]; reflexivity.
  - discriminate.
  - repeat constructor; discriminate.
  - vm_compute. reflexivity.
Qed.

(* the empty app_state key: flatten's paths start with an empty component, os.path.join drops the prefix AND the root *)
Lemma confined_empty_app_key_refuted :
  exists (o : obj) (q : path), In q (map fst (snd (flatten_top o []))) /\
    location_of (mkLoc false false 0 q None) = [47; 120] /\
    resolve_s (location_of (mkLoc false false 0 q None)) = None.
Proof.
  exists (ODict false [(KStr [120], Leaf 1)]), [[]; [120]]. split; [|split]; vm_compute; auto.
Qed.

(* ================================================================== 8. distinct objects, distinct files *)
(* p' is p followed by "_" and offset-suffix characters: the shape of a chunk / shard location of p *)
Definition no_suffix_clash (p p' : pystr) : Prop := forall t, suffix_chars t -> p' <> p ++ 95 :: t.

Definition same_object (a b : litem) : Prop :=
  item_prefix a = item_prefix b /\ li_path a = li_path b /\ li_offs a = li_offs b.

Lemma literal_not_number : forall z,
  str_of_Z z <> s_replicated /\ str_of_Z z <> s_sharded /\ str_of_Z z <> s_replicated_sharded /\ str_of_Z z <> s_batched.
Proof.
  intro z. repeat split; intro E.
  - assert (H : In 114 (str_of_Z z)) by (rewrite E; cbn; auto). apply str_of_Z_chars in H. unfold is_digit in H. lia.
  - assert (H : In 115 (str_of_Z z)) by (rewrite E; cbn; auto). apply str_of_Z_chars in H. unfold is_digit in H. lia.
  - assert (H : In 114 (str_of_Z z)) by (rewrite E; cbn; auto). apply str_of_Z_chars in H. unfold is_digit in H. lia.
  - assert (H : In 98 (str_of_Z z)) by (rewrite E; cbn; auto). apply str_of_Z_chars in H. unfold is_digit in H. lia.
Qed.

(* the prefix determines the storage class, and the rank for rank-private objects *)
Lemma prefix_of_inj : forall sh rp r sh' rp' r', prefix_of sh rp r = prefix_of sh' rp' r' ->
  sh = sh' /\ rp = rp' /\ (sh = false -> rp = false -> r = r').
Proof.
  intros sh rp r sh' rp' r' E. destruct (literal_not_number r) as (A1 & A2 & A3 & _).
  destruct (literal_not_number r') as (B1 & B2 & B3 & _). unfold prefix_of in E.
  destruct sh, rp, sh', rp'; try discriminate E; try (repeat split; intros; congruence);
    try (exfalso; first [apply A1; exact E | apply A2; exact E | apply A3; exact E
                        | apply B1; symmetry; exact E | apply B2; symmetry; exact E | apply B3; symmetry; exact E]).
  repeat split. intros _ _. apply str_of_Z_inj. exact E.
Qed.

Lemma prefix_not_batched : forall sh rp r, prefix_of sh rp r <> s_batched.
Proof.
  intros sh rp r. destruct (literal_not_number r) as (_ & _ & _ & A). unfold prefix_of. destruct sh, rp; try discriminate. exact A.
Qed.

Lemma item_suffix_shape : forall a, item_suffix a = [] \/ exists t, item_suffix a = 95 :: t /\ suffix_chars t.
Proof.
  intro a. unfold item_suffix. destruct (li_offs a) as [o|]; [right; apply offsets_suffix_shape | left; reflexivity].
Qed.

Lemma item_suffix_inj : forall a b, item_suffix a = item_suffix b -> li_offs a = li_offs b.
Proof.
  intros a b. unfold item_suffix. destruct (li_offs a) as [o1|], (li_offs b) as [o2|]; intro E.
  - f_equal. apply offsets_suffix_inj. exact E.
  - discriminate.
  - discriminate.
  - reflexivity.
Qed.

(* the location string, spelled out *)
Lemma location_string : forall a, wf_path (li_path a) -> relative (li_path a) ->
  location_of a = item_prefix a ++ 47 :: join (li_path a) ++ item_suffix a.
Proof.
  intros a [Hq F] Hrel. unfold location_of, item_suffix, item_storage_path, storage_path, chunk_location, item_prefix.
  assert (Hs : slash_free (hd [] (li_path a))).
  { destruct (li_path a) as [|c r]; [contradiction Hq; reflexivity|]. inversion F as [|? ? [Hc _] _]. exact Hc. }
  rewrite (os_join_plain _ _ (prefix_plain (li_sharded a) (li_replicated a) (li_rank a)) (starts_slash_join _ Hq Hrel Hs)).
  destruct (li_offs a); [rewrite <- app_assoc; reflexivity | rewrite app_nil_r; reflexivity].
Qed.

(* string level: equal location strings name the same object, unless one path is the other plus an offsets suffix *)
Lemma location_string_injective : forall a b,
  wf_path (li_path a) -> wf_path (li_path b) -> relative (li_path a) -> relative (li_path b) ->
  no_suffix_clash (join (li_path a)) (join (li_path b)) -> no_suffix_clash (join (li_path b)) (join (li_path a)) ->
  location_of a = location_of b -> same_object a b.
Proof.
  intros a b Wa Wb Ra Rb Nab Nba E. rewrite (location_string a Wa Ra), (location_string b Wb Rb) in E.
  apply sep_split_inj in E; [|apply prefix_plain|apply prefix_plain]. destruct E as [Ep E].
  assert (Hj : join (li_path a) = join (li_path b) /\ item_suffix a = item_suffix b).
  { apply app_eq_app in E. destruct E as [l [[E1 E2]|[E1 E2]]].
    - destruct l as [|c l].
      + rewrite app_nil_r in E1. cbn [app] in E2. split; [exact E1 | symmetry; exact E2].
      + exfalso. destruct (item_suffix_shape b) as [Hb|[t [Hb Ft]]]; rewrite Hb in E2; [discriminate|].
        inversion E2; subst c. apply (Nba l); [|exact E1]. subst t. exact (suffix_chars_app_l _ _ Ft).
    - destruct l as [|c l].
      + rewrite app_nil_r in E1. cbn [app] in E2. split; [symmetry; exact E1 | exact E2].
      + exfalso. destruct (item_suffix_shape a) as [Ha|[t [Ha Ft]]]; rewrite Ha in E2; [discriminate|].
        inversion E2; subst c. apply (Nab l); [|exact E1]. subst t. exact (suffix_chars_app_l _ _ Ft). }
  destruct Hj as [Hj Hs]. split; [exact Ep|]. split; [|exact (item_suffix_inj a b Hs)].
  destruct Wa as [Ha Fa], Wb as [Hb Fb].
  rewrite <- (split_join (li_path a) Ha), <- (split_join (li_path b) Hb), Hj; [reflexivity| |].
  - apply Forall_forall. intros c Hc. rewrite Forall_forall in Fb. exact (proj1 (Fb c Hc)).
  - apply Forall_forall. intros c Hc. rewrite Forall_forall in Fa. exact (proj1 (Fa c Hc)).
Qed.

(* file level: what the file system makes of the two locations is the same file only for the same object *)
Theorem location_injective : forall a b,
  wf_path (li_path a) -> wf_path (li_path b) -> relative (li_path a) -> relative (li_path b) ->
  no_empty_component (li_path a) -> no_empty_component (li_path b) ->
  no_suffix_clash (join (li_path a)) (join (li_path b)) -> no_suffix_clash (join (li_path b)) (join (li_path a)) ->
  resolve_s (location_of a) = resolve_s (location_of b) -> same_object a b.
Proof.
  intros a b Wa Wb Ra Rb Ea Eb Nab Nba E.
  rewrite (proj2 (location_confined a Wa Ra) Ea), (proj2 (location_confined b Wb Rb) Eb) in E. inversion E as [E'].
  apply (location_string_injective a b Wa Wb Ra Rb Nab Nba).
  destruct (location_is_join a Wa Ra) as [Ja _], (location_is_join b Wb Rb) as [Jb _].
  rewrite Ja, Jb. rewrite <- (item_components_split a Wa Ra), <- (item_components_split b Wb Rb), E'. reflexivity.
Qed.

(* without ".." the walk never pops what is already on the stack *)
Lemma resolve_from_keeps_stack : forall cs st l, Forall okc cs -> resolve_from st cs = Some l -> exists r, l = rev st ++ r.
Proof.
  induction cs as [|c r IH]; intros st l F H; cbn [resolve_from] in H.
  - inversion H. exists []. rewrite app_nil_r. reflexivity.
  - inversion F as [|? ? Hc Hr]; subst. destruct (is_nil c || is_dot c); [exact (IH st l Hr H)|].
    rewrite (okc_dotdot c Hc) in H. destruct (IH (c :: st) l Hr H) as [r' E]. exists (c :: r').
    rewrite E. cbn [rev]. rewrite <- app_assoc. reflexivity.
Qed.

(* a slab never shares a file with an object's own location *)
Lemma slab_vs_item : forall u a, plain u -> wf_path (li_path a) -> relative (li_path a) ->
  resolve_s (slab_location u) <> resolve_s (location_of a).
Proof.
  intros u a Hu W R E. rewrite (proj2 (slab_location_resolves u Hu)) in E. unfold resolve_s in E.
  rewrite (item_components_split a W R) in E. pose proof (item_components_okc a W) as F.
  unfold item_components in E, F. destruct W as [Hq _].
  destruct (li_path a) as [|c r]; [contradiction Hq; reflexivity|]. rewrite ext_last_cons2 in E, F.
  unfold resolve in E. pose proof (prefix_plain (li_sharded a) (li_replicated a) (li_rank a)) as Hp. fold (item_prefix a) in Hp.
  destruct (item_prefix a) as [|x p] eqn:Ep; [exact (proj1 Hp eq_refl)|].
  cbn [resolve_from] in E. destruct (plain_flags _ Hp) as (E1 & E2 & E3). rewrite E1, E2, E3 in E. cbn [orb] in E.
  inversion F as [|? ? _ Fr]; subst. symmetry in E. destruct (resolve_from_keeps_stack _ _ _ Fr E) as [r' E'].
  cbn [rev app] in E'. apply (f_equal (hd [])) in E'. cbn [hd] in E'. rename E' into Eb. apply (prefix_not_batched (li_sharded a) (li_replicated a) (li_rank a)).
  fold (item_prefix a). rewrite Ep. symmetry. exact Eb.
Qed.

Lemma slab_location_injective : forall u u', plain u -> plain u' ->
  resolve_s (slab_location u) = resolve_s (slab_location u') -> u = u'.
Proof.
  intros u u' Hu Hu' E. rewrite (proj2 (slab_location_resolves u Hu)), (proj2 (slab_location_resolves u' Hu')) in E.
  inversion E. reflexivity.
Qed.

(* ---- the two hypotheses are forced ---- *)
Lemma suffix_clash_refuted :
  exists a b, wf_path (li_path a) /\ wf_path (li_path b) /\ relative (li_path a) /\ relative (li_path b) /\
              no_empty_component (li_path a) /\ no_empty_component (li_path b) /\
              location_of a = location_of b /\ ~ same_object a b.
Proof.
  exists (mkLoc false false 0 [[109]; [119]] (Some [0])), (mkLoc false false 0 [[109]; [119; 95; 48]] None).
  repeat split; try discriminate; try (repeat constructor; unfold slash_free; cbn; intuition discriminate).
  intros (_ & E & _). discriminate E.
Qed.

Lemma empty_component_refuted :
  exists a b, wf_path (li_path a) /\ wf_path (li_path b) /\ relative (li_path a) /\ relative (li_path b) /\
              no_suffix_clash (join (li_path a)) (join (li_path b)) /\ no_suffix_clash (join (li_path b)) (join (li_path a)) /\
              location_of a <> location_of b /\
              resolve_s (location_of a) = resolve_s (location_of b) /\ ~ same_object a b.
Proof.
  exists (mkLoc false false 0 [[109]; []; [120]] None), (mkLoc false false 0 [[109]; [120]] None).
  split; [|split; [|split; [|split; [|split; [|split; [|split; [|split]]]]]]].
  - split; [discriminate|]. repeat constructor; unfold slash_free; cbn; intuition discriminate.
  - split; [discriminate|]. repeat constructor; unfold slash_free; cbn; intuition discriminate.
  - discriminate.
  - discriminate.
  - intros t _ E. cbn in E. discriminate E.
  - intros t _ E. cbn in E. discriminate E.
  - cbn. discriminate.
  - vm_compute. reflexivity.
  - intros (_ & E & _). discriminate E.
Qed.

(* ================================================================== 9. byte ranges of distinct objects never overlap *)
Lemma FOP_app : forall {A} (R : A -> A -> Prop) l1 l2,
  ForallOrdPairs R l1 -> ForallOrdPairs R l2 -> (forall x y, In x l1 -> In y l2 -> R x y) -> ForallOrdPairs R (l1 ++ l2).
Proof.
  intros A R. induction l1 as [|a l1 IH]; intros l2 H1 H2 Hx; cbn [app]; [exact H2|].
  inversion H1 as [|? ? Fa H1']; subst. constructor.
  - apply Forall_app. split; [exact Fa|]. apply Forall_forall. intros y Hy. apply Hx; [left; reflexivity | exact Hy].
  - apply IH; [exact H1' | exact H2 |]. intros x y Hin Hy. apply Hx; [right; exact Hin | exact Hy].
Qed.

Lemma FOP_map : forall {A B} (f : A -> B) (R : B -> B -> Prop) l,
  ForallOrdPairs (fun x y => R (f x) (f y)) l -> ForallOrdPairs R (map f l).
Proof.
  intros A B f R. induction l as [|a l IH]; intro H; cbn [map]; [constructor|].
  inversion H as [|? ? Fa H']; subst. constructor; [|apply IH; exact H'].
  apply Forall_forall. intros y Hy. apply in_map_iff in Hy. destruct Hy as [x [E Hx]]. subst y.
  rewrite Forall_forall in Fa. exact (Fa x Hx).
Qed.

Lemma FOP_impl_in : forall {A} (R Q : A -> A -> Prop) l,
  ForallOrdPairs R l -> (forall x y, In x l -> In y l -> R x y -> Q x y) -> ForallOrdPairs Q l.
Proof.
  intros A R Q. induction l as [|a l IH]; intros H HQ; [constructor|].
  inversion H as [|? ? Fa H']; subst. constructor.
  - apply Forall_forall. intros y Hy. rewrite Forall_forall in Fa. apply HQ; [left; reflexivity | right; exact Hy | exact (Fa y Hy)].
  - apply IH; [exact H'|]. intros x y Hin Hy. apply HQ; right; assumption.
Qed.

Lemma opt_path_eqb_true : forall a b, opt_path_eqb a b = true -> a = b.
Proof.
  intros [x|] [y|] H; cbn in H; try discriminate; [|reflexivity]. apply path_eqb_eq in H. subst. reflexivity.
Qed.

Lemma overlaps_false_loc : forall (r1 r2 : ref), resolve_s (fst r1) <> resolve_s (fst r2) -> overlaps r1 r2 = false.
Proof.
  intros r1 r2 H. unfold overlaps. destruct (opt_path_eqb (resolve_s (fst r1)) (resolve_s (fst r2))) eqn:E; [|reflexivity].
  apply opt_path_eqb_true in E. contradiction.
Qed.

Lemma overlaps_false_rng : forall l l' l1 h1 l2 h2, h1 <= l2 -> overlaps (l, Some (l1, h1)) (l', Some (l2, h2)) = false.
Proof.
  intros l l' l1 h1 l2 h2 H. unfold overlaps. cbn [snd ranges_meet].
  assert (E : (Z.max l1 l2 <? Z.min h1 h2) = false) by (apply Z.ltb_ge; lia). rewrite E. apply andb_false_r.
Qed.

(* what flatten gives, plus no empty key on the way *)
Definition good_item (a : litem) : Prop := wf_path (li_path a) /\ relative (li_path a) /\ no_empty_component (li_path a).
(* two different saved objects whose keys do not differ by an offsets suffix *)
Definition distinct_objects (a b : litem) : Prop :=
  ~ same_object a b /\
  no_suffix_clash (join (li_path a)) (join (li_path b)) /\ no_suffix_clash (join (li_path b)) (join (li_path a)).

Theorem ranges_disjoint : forall T (items : list litem) (slabs : list (pystr * list member)),
  Forall good_item items -> ForallOrdPairs distinct_objects items ->
  NoDup (map fst slabs) -> Forall (fun s => plain (fst s) /\ good_slab T (snd s)) slabs ->
  ForallOrdPairs (fun r1 r2 => overlaps r1 r2 = false) (layout_refs items slabs).
Proof.
  intros T items slabs Gi Di Nu Gs. unfold layout_refs. apply FOP_app.
  - apply FOP_map. apply (FOP_impl_in distinct_objects); [exact Di|].
    intros a b Ha Hb (Hn & N1 & N2). rewrite Forall_forall in Gi.
    destruct (Gi a Ha) as (Wa & Ra & Ea). destruct (Gi b Hb) as (Wb & Rb & Eb).
    apply overlaps_false_loc. cbn [fst]. intro E. apply Hn. exact (location_injective a b Wa Wb Ra Rb Ea Eb N1 N2 E).
  - induction slabs as [|s rest IH]; [constructor|]. cbn [flat_map]. cbn [map] in Nu.
    inversion Nu as [|? ? Hs Nu']; subst. inversion Gs as [|? ? [Ps Gd] Gs']; subst. apply FOP_app.
    + unfold slab_refs. apply FOP_map. apply (FOP_impl_in (fun a b => m_hi a <= m_lo b)); [exact (good_slab_disjoint T _ Gd)|].
      intros x y _ _ H. apply overlaps_false_rng. exact H.
    + apply IH; assumption.
    + intros x y Hx Hy. apply in_flat_map in Hy. destruct Hy as [s' [Hs' Hy]].
      unfold slab_refs in Hx, Hy. apply in_map_iff in Hx. destruct Hx as [mx [Ex _]].
      apply in_map_iff in Hy. destruct Hy as [my [Ey _]]. subst x y. apply overlaps_false_loc. cbn [fst]. intro E.
      rewrite Forall_forall in Gs'. destruct (Gs' s' Hs') as [Ps' _].
      apply (slab_location_injective _ _ Ps Ps') in E. apply Hs. apply in_map_iff. exists s'. split; [symmetry; exact E | exact Hs'].
  - intros x y Hx Hy. apply in_map_iff in Hx. destruct Hx as [a [Ex Ha]]. subst x.
    apply in_flat_map in Hy. destruct Hy as [s [Hs Hy]]. unfold slab_refs in Hy. apply in_map_iff in Hy.
    destruct Hy as [m [Ey _]]. subst y. apply overlaps_false_loc. cbn [fst]. intro E.
    rewrite Forall_forall in Gi, Gs. destruct (Gi a Ha) as (Wa & Ra & _). destruct (Gs s Hs) as [Ps _].
    symmetry in E. exact (slab_vs_item (fst s) a Ps Wa Ra E).
Qed.

(* ================================================================== 10. raw size *)
(* a buffer-protocol tensor write request: (path id, batchable, shape, element size) *)
Definition treq := (Z * bool * list Z * Z)%type.
Definition t_path (t : treq) : Z := fst (fst (fst t)).
Definition t_shape (t : treq) : list Z := snd (fst t).
Definition t_esize (t : treq) : Z := snd t.
Definition t_bytes (t : treq) : Z := t_esize t * prodZ (t_shape t).           (* nelement() * element_size() *)
Definition treq_wreq (t : treq) : wreq := (t_path t, snd (fst (fst t)), t_bytes t).

Theorem raw_size : forall T (ts : list treq) slabs pass reloc,
  1 <= T -> Forall (fun t => 0 <= t_esize t /\ Forall (fun s => 0 <= s) (t_shape t)) ts -> NoDup (map t_path ts) ->
  batch_write T (map treq_wreq ts) = (slabs, pass, reloc) ->
  forall t, In t ts ->
    (dict_get Z.eqb (t_path t) reloc = None /\ In (treq_wreq t) pass)
    \/ (exists k ms lo hi, dict_get Z.eqb (t_path t) reloc = Some (k, lo, hi) /\ In (k, ms) slabs /\ In (t_path t, lo, hi) ms /\
                           hi - lo = t_esize t * prodZ (t_shape t) /\ 0 <= lo /\ hi <= slab_sz ms).
Proof.
  intros T ts slabs pass reloc HT Hts Hnd Hbw t Hin.
  assert (Hsz : Forall (fun w => 0 <= w_size w) (map treq_wreq ts)).
  { apply Forall_forall. intros w Hw. apply in_map_iff in Hw. destruct Hw as [t' [E Ht']]. subst w.
    rewrite Forall_forall in Hts. destruct (Hts t' Ht') as [He Hs]. unfold treq_wreq, w_size, t_bytes. cbn [snd].
    apply Z.mul_nonneg_nonneg; [exact He | apply prodZ_nonneg; exact Hs]. }
  assert (Hnd' : NoDup (map w_path (map treq_wreq ts))).
  { rewrite map_map. exact Hnd. }
  assert (Hw : In (treq_wreq t) (map treq_wreq ts)) by (apply in_map; exact Hin).
  destruct (small T (treq_wreq t)) eqn:Es.
  - right. destruct (bw_small_request T _ slabs pass reloc HT Hsz Hnd' Hbw _ Hw Es) as (k & ms & lo & hi & H1 & H2 & H3 & H4).
    exists k, ms, lo, hi. change (w_path (treq_wreq t)) with (t_path t) in *. repeat split; try assumption.
    + pose proof (slab_good T _ slabs pass reloc HT Hsz Hnd' Hbw k ms H1) as (_ & Hc & _).
      pose proof (consecutive_bounds _ _ _ Hc (m_range (t_path t, lo, hi)) (in_map m_range _ _ H2)) as Hb. cbn in Hb. lia.
    + pose proof (slab_good T _ slabs pass reloc HT Hsz Hnd' Hbw k ms H1) as (_ & Hc & _).
      pose proof (consecutive_bounds _ _ _ Hc (m_range (t_path t, lo, hi)) (in_map m_range _ _ H2)) as Hb. cbn in Hb. lia.
  - left. destruct (bw_large_request T _ slabs pass reloc HT Hsz Hnd' Hbw _ Hw Es) as [H1 H2]. split; assumption.
Qed.

(* ================================================================== 11. the manifest lists every leaf exactly once *)
Lemma manifest_path_string : forall r p, starts_slash p = false -> manifest_path r p = str_of_Z r ++ 47 :: p.
Proof. intros r p H. unfold manifest_path. apply os_join_plain; [apply str_of_Z_plain | exact H]. Qed.

Lemma manifest_path_inj : forall r r' p p', starts_slash p = false -> starts_slash p' = false ->
  manifest_path r p = manifest_path r' p' -> r = r' /\ p = p'.
Proof.
  intros r r' p p' H H' E. rewrite (manifest_path_string r p H), (manifest_path_string r' p' H') in E.
  apply sep_split_inj in E; [|apply str_of_Z_slash_free|apply str_of_Z_slash_free]. destruct E as [E1 E2].
  split; [apply str_of_Z_inj; exact E1 | exact E2].
Qed.

Lemma in_global_from : forall L r0 x,
  In x (global_from r0 L) <->
  exists i m p, nth_error L i = Some m /\ In p m /\ x = manifest_path (Z.of_nat (r0 + i)) p.
Proof.
  induction L as [|m0 rest IH]; intros r0 x; cbn [global_from].
  - split; [intros [] | intros (i & m & p & H & _)]. destruct i; discriminate H.
  - rewrite in_app_iff, IH. split.
    + intros [H | (i & m & p & H1 & H2 & H3)].
      * apply in_map_iff in H. destruct H as [p [E Hp]]. exists 0%nat, m0, p. rewrite Nat.add_0_r. repeat split; [exact Hp | symmetry; exact E].
      * exists (S i), m, p. repeat split; [exact H1 | exact H2 |]. rewrite H3. f_equal. f_equal. lia.
    + intros (i & m & p & H1 & H2 & H3). destruct i as [|i].
      * left. cbn in H1. inversion H1; subst m0. rewrite Nat.add_0_r in H3. subst x. apply in_map. exact H2.
      * right. exists i, m, p. repeat split; [exact H1 | exact H2 |]. rewrite H3. f_equal. f_equal. lia.
Qed.

Definition relative_str (p : pystr) : Prop := starts_slash p = false.

Lemma global_from_nodup : forall L r0,
  Forall (fun m => NoDup m /\ Forall relative_str m) L -> NoDup (global_from r0 L).
Proof.
  induction L as [|m0 rest IH]; intros r0 F; cbn [global_from]; [constructor|].
  inversion F as [|? ? [N0 R0] F']; subst. apply NoDup_app_intro.
  - apply NoDup_map_inj_on; [|exact N0]. intros a b Ha Hb E. rewrite Forall_forall in R0.
    exact (proj2 (manifest_path_inj _ _ a b (R0 a Ha) (R0 b Hb) E)).
  - apply IH. exact F'.
  - intros x Hx Hy. apply in_map_iff in Hx. destruct Hx as [p [E Hp]]. apply in_global_from in Hy.
    destruct Hy as (i & m & p' & H1 & H2 & H3). subst x. rewrite Forall_forall in R0, F'.
    apply nth_error_In in H1. destruct (F' m H1) as [_ Rm]. rewrite Forall_forall in Rm.
    apply manifest_path_inj in H3; [|exact (R0 p Hp)|exact (Rm p' H2)]. destruct H3 as [H3 _]. lia.
Qed.

(* ---- one rank: the leaf paths of all its stateful objects are pairwise distinct strings ---- *)
Lemma NoDup_flat_map_disjoint : forall {A B} (f : A -> list B) l,
  (forall x, In x l -> NoDup (f x)) ->
  ForallOrdPairs (fun x y => forall b, In b (f x) -> ~ In b (f y)) l -> NoDup (flat_map f l).
Proof.
  intros A B f. induction l as [|a l IH]; intros Hn Hd; cbn [flat_map]; [constructor|].
  inversion Hd as [|? ? Fa Hd']; subst. apply NoDup_app_intro.
  - apply Hn. left. reflexivity.
  - apply IH; [intros x Hx; apply Hn; right; exact Hx | exact Hd'].
  - intros b Hb Hc. apply in_flat_map in Hc. destruct Hc as [y [Hy Hby]]. rewrite Forall_forall in Fa. exact (Fa y Hy b Hb Hby).
Qed.

Lemma leaf_string_origin : forall o k s, In s (map fst (snd (flatten_s o k))) ->
  exists q, In q (all_paths o [encode k]) /\ s = join q.
Proof.
  intros o k s H. unfold flatten_s in H. cbn [snd] in H. rewrite map_map in H. cbn [fst] in H.
  apply in_map_iff in H. destruct H as [[q x] [E Hq]]. cbn [fst] in E. exists q. split; [|symmetry; exact E].
  unfold all_paths, flatten_top in *. apply in_or_app. right. apply in_map_iff. exists (q, x). split; [reflexivity | exact Hq].
Qed.

Lemma FOP_of_NoDup_map : forall {A B} (f : A -> B) (R : A -> A -> Prop) l,
  NoDup (map f l) -> (forall x y, f x <> f y -> R x y) -> ForallOrdPairs R l.
Proof.
  intros A B f R. induction l as [|a l IH]; intros N H; [constructor|]. cbn [map] in N. inversion N as [|? ? Ha N']; subst.
  constructor; [|apply IH; assumption]. apply Forall_forall. intros y Hy. apply H. intro E. apply Ha. rewrite E. apply in_map. exact Hy.
Qed.

Theorem rank_leaf_paths_nodup : forall st : list (pystr * obj), NoDup (map fst st) -> NoDup (rank_leaf_paths st).
Proof.
  intros st N. unfold rank_leaf_paths. apply NoDup_flat_map_disjoint.
  - intros [k o] _. cbn [fst snd]. exact (NoDup_app_r _ _ (flatten_s_paths_nodup o k)).
  - apply (FOP_of_NoDup_map fst); [exact N|]. intros [k1 o1] [k2 o2] Hk s H1 H2. cbn [fst snd] in *.
    apply leaf_string_origin in H1. destruct H1 as [q1 [I1 E1]]. apply leaf_string_origin in H2. destruct H2 as [q2 [I2 E2]].
    assert (Eq : q1 = q2).
    { rewrite <- (split_join_path o1 k1 q1 I1), <- (split_join_path o2 k2 q2 I2), <- E1, <- E2. reflexivity. }
    apply all_paths_prefix in I1. destruct I1 as [r1 R1]. apply all_paths_prefix in I2. destruct I2 as [r2 R2].
    subst q1. rewrite R2 in Eq. cbn [app] in Eq. apply (f_equal (hd [])) in Eq. cbn [hd] in Eq. apply Hk. exact (encode_inj _ _ Eq).
Qed.

Lemma rank_leaf_paths_relative : forall st, Forall (fun kv : pystr * obj => fst kv <> []) st ->
  Forall relative_str (rank_leaf_paths st).
Proof.
  intros st F. apply Forall_forall. intros s Hs. unfold rank_leaf_paths in Hs. apply in_flat_map in Hs.
  destruct Hs as [[k o] [Hin Hs]]. cbn [fst snd] in Hs. rewrite Forall_forall in F. specialize (F _ Hin). cbn [fst] in F.
  apply leaf_string_origin in Hs. destruct Hs as [q [Iq E]]. subst s.
  destruct (flatten_path_wf o k q Iq) as [[Hq Fq] R]. unfold relative_str. apply starts_slash_join; [exact Hq | exact (R F) |].
  destruct q as [|c r]; [contradiction Hq; reflexivity|]. inversion Fq as [|? ? [Hc _] _]. exact Hc.
Qed.

(* ---- all ranks, after consolidate_replicated_entries (model/Partition.v, property C06) ---- *)
Definition named_keys (name : Z -> pystr) (ms : list Partition.manifest) : list (list pystr) :=
  map (fun m => map (fun kv : Z * Partition.entry => name (fst kv)) m) ms.

Lemma nth_error_nth_default : forall {A} (l : list A) i x d, nth_error l i = Some x -> nth i l d = x.
Proof. intros A. induction l as [|a l IH]; intros [|i] x d H; cbn in *; try discriminate; [inversion H; reflexivity | apply IH; exact H]. Qed.

Lemma in_nth_manifest : forall (ms : list Partition.manifest) r pe, In pe (nth r ms []) -> In (nth r ms []) ms.
Proof.
  intros ms r pe H. destruct (Nat.lt_ge_cases r (length ms)) as [L|L]; [apply nth_In; exact L|].
  rewrite (nth_overflow ms [] L) in H. destruct H.
Qed.

Lemma strip_repl_in : forall m p e, In (p, e) (strip_repl m) <-> In (p, e) m /\ is_repl e = false.
Proof.
  intros m p e. unfold strip_repl. rewrite filter_In. cbn [snd]. split; intros [H1 H2]; split; try exact H1.
  - apply negb_true_iff in H2. exact H2.
  - apply negb_true_iff. exact H2.
Qed.

Lemma nth_error_named : forall name (ms : list Partition.manifest) i m,
  nth_error (named_keys name ms) i = Some m <->
  exists mi, nth_error ms i = Some mi /\ m = map (fun kv : Z * Partition.entry => name (fst kv)) mi.
Proof.
  intros name. unfold named_keys. induction ms as [|a ms IH]; intros [|i] m; cbn [map nth_error].
  - split; [discriminate | intros (mi & H & _); discriminate H].
  - split; [discriminate | intros (mi & H & _); discriminate H].
  - split; [intro H; inversion H; exists a; split; reflexivity | intros (mi & H & E); inversion H; subst; reflexivity].
  - apply IH.
Qed.

Lemma in_named_global : forall name ms' r p,
  (exists e, In (p, e) (nth r ms' [])) -> In (manifest_path (Z.of_nat r) (name p)) (global_paths (named_keys name ms')).
Proof.
  intros name ms' r p [e H]. unfold global_paths. apply in_global_from.
  assert (L : (r < length ms')%nat).
  { destruct (Nat.lt_ge_cases r (length ms')) as [L|L]; [exact L|]. rewrite (nth_overflow ms' [] L) in H. destruct H. }
  exists r, (map (fun kv : Z * Partition.entry => name (fst kv)) (nth r ms' [])), (name p). repeat split.
  - apply nth_error_named. exists (nth r ms' []). split; [apply nth_error_nth'; exact L | reflexivity].
  - apply in_map_iff. exists (p, e). split; [reflexivity | exact H].
Qed.

Lemma named_global_in : forall name ms' r p,
  (forall a b, name a = name b -> a = b) -> (forall a, relative_str (name a)) ->
  In (manifest_path (Z.of_nat r) (name p)) (global_paths (named_keys name ms')) -> exists e, In (p, e) (nth r ms' []).
Proof.
  intros name ms' r p Inj Rel H. unfold global_paths in H. apply in_global_from in H.
  destruct H as (i & m & s & H1 & H2 & H3). cbn [Nat.add] in H3. apply nth_error_named in H1.
  destruct H1 as (mi & Ei & Em). subst m.
  apply in_map_iff in H2. destruct H2 as [[p' e] [E Hin]]. cbn [fst] in E. subst s.
  apply manifest_path_inj in H3; [|apply Rel|apply Rel]. destruct H3 as [Hr Hp]. apply Nat2Z.inj in Hr. subst i.
  apply Inj in Hp. subst p'. exists e. rewrite (nth_error_nth_default ms' r mi [] Ei). exact Hin.
Qed.

Theorem manifest_lists_each_leaf_once : forall (name : Z -> pystr) (ms ms' : list Partition.manifest),
  (forall a b, name a = name b -> a = b) -> (forall a, relative_str (name a)) ->
  ms <> [] -> keys_distinct ms -> consistent ms -> consolidate ms = Some ms' ->
  NoDup (global_paths (named_keys name ms')) /\
  (forall r p e, In (p, e) (nth r ms []) -> is_repl e = false ->
     In (manifest_path (Z.of_nat r) (name p)) (global_paths (named_keys name ms'))) /\
  (forall m p e, In m ms -> In (p, e) m -> is_repl e = true ->
     In (manifest_path 0 (name p)) (global_paths (named_keys name ms')) /\
     forall r, (1 <= r)%nat -> ~ In (manifest_path (Z.of_nat r) (name p)) (global_paths (named_keys name ms'))).
Proof.
  intros name ms ms' Inj Rel Hne KD CO HC.
  destruct (consolidate_complete ms ms' Hne KD CO HC) as (HL & HS & HR & H0 & HG & HO).
  assert (KDn : forall r, NoDup (map fst (nth r ms []))).
  { intro r. destruct (Nat.lt_ge_cases r (length ms)) as [L|L].
    - unfold keys_distinct in KD. rewrite Forall_forall in KD. apply KD. apply nth_In. exact L.
    - rewrite (nth_overflow ms [] L). constructor. }
  split; [|split].
  - unfold global_paths. apply global_from_nodup. unfold named_keys. apply Forall_forall. intros l Hl.
    apply in_map_iff in Hl. destruct Hl as [m [E Hm]]. subst l. split.
    + rewrite <- (map_map fst name). apply NoDup_map_inj_on; [intros a b _ _; apply Inj|].
      destruct (In_nth ms' m [] Hm) as [r [Lr Er]]. subst m. destruct r as [|r]; [exact H0|].
      rewrite (HR (S r)) by lia. unfold strip_repl. apply NoDup_map_filter. apply KDn.
    + apply Forall_forall. intros s Hs. apply in_map_iff in Hs. destruct Hs as [kv [E _]]. subst s. apply Rel.
  - intros r p e Hin He. apply in_named_global. exists e.
    assert (Hs : In (p, e) (strip_repl (nth r ms' []))) by (rewrite HS; apply strip_repl_in; split; assumption).
    apply strip_repl_in in Hs. exact (proj1 Hs).
  - intros m p e Hm Hin He. split.
    + change 0 with (Z.of_nat 0). apply in_named_global.
      destruct (in_dec Z.eq_dec p (group_paths ms)) as [G|G].
      * destruct (HG p G) as [(meta & cs & Hl & _) _]. exists (EChunked true meta cs). exact (lookup_In _ _ _ Hl).
      * exists e. exact (lookup_In _ _ _ (HO m p e Hm Hin He G)).
    + intros r Hr Hg. apply (named_global_in name ms' r p Inj Rel) in Hg. destruct Hg as [e' He'].
      rewrite (HR r Hr) in He'. apply strip_repl_in in He'. destruct He' as [Hin' Hrep'].
      pose proof (in_nth_manifest ms r _ Hin') as Hm'. rewrite (CO m (nth r ms []) p e e' Hm Hm' Hin Hin') in He. congruence.
Qed.
