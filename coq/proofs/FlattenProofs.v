(* C15: lemmas about model/Flatten.v *)
From TS Require Import model.Base model.Flatten.
From Coq Require Import Decimal DecimalZ DecimalPos Permutation.

(* ================================================================== 1. strings *)
Lemma str_eqb_eq : forall a b, str_eqb a b = true <-> a = b.
Proof.
  unfold str_eqb. induction a as [|x a IH]; destruct b as [|y b]; cbn [list_eqb]; split; intro H;
    try reflexivity; try discriminate.
  - apply andb_true_iff in H. destruct H as [H1 H2]. apply Z.eqb_eq in H1. apply IH in H2. subst. reflexivity.
  - inversion H; subst. apply andb_true_iff. split. apply Z.eqb_refl. apply IH. reflexivity.
Qed.

Lemma str_eqb_refl : forall a, str_eqb a a = true.
Proof. intro a. apply str_eqb_eq. reflexivity. Qed.

Lemma str_eqb_neq : forall a b, str_eqb a b = false <-> a <> b.
Proof.
  intros a b. split.
  - intros H E. apply str_eqb_eq in E. congruence.
  - intro H. destruct (str_eqb a b) eqn:E; [apply str_eqb_eq in E; contradiction | reflexivity].
Qed.

Lemma path_eqb_eq : forall a b, path_eqb a b = true <-> a = b.
Proof.
  unfold path_eqb. induction a as [|x a IH]; destruct b as [|y b]; cbn [list_eqb]; split; intro H;
    try reflexivity; try discriminate.
  - apply andb_true_iff in H. destruct H as [H1 H2]. apply str_eqb_eq in H1. apply IH in H2. subst. reflexivity.
  - inversion H; subst. apply andb_true_iff. split. apply str_eqb_refl. apply IH. reflexivity.
Qed.

Lemma path_eqb_refl : forall a, path_eqb a a = true.
Proof. intro a. apply path_eqb_eq. reflexivity. Qed.

(* ---------------- encode / decode ---------------- *)
Definition slash_free (s : pystr) : Prop := ~ In 47 s.

Lemma esc_char_slash_free : forall c, slash_free (esc_char c).
Proof.
  intro c. unfold esc_char, slash_free.
  destruct (c =? 37) eqn:E1; [cbn; intuition discriminate|].
  destruct (c =? 47) eqn:E2; [cbn; intuition discriminate|].
  apply Z.eqb_neq in E2. cbn. intuition.
Qed.

Lemma flat_map_esc_slash_free : forall s, slash_free (flat_map esc_char s).
Proof.
  unfold slash_free. induction s as [|c s IH]; cbn [flat_map]; [tauto|].
  intro H. apply in_app_or in H. destruct H as [H|H]; [exact (esc_char_slash_free c H) | exact (IH H)].
Qed.

Lemma encode_slash_free : forall s, slash_free (encode s).
Proof.
  intro s. unfold encode.
  destruct (str_eqb (flat_map esc_char s) [46] || str_eqb (flat_map esc_char s) [46; 46]) eqn:E.
  - apply orb_true_iff in E. destruct E as [E|E]; apply str_eqb_eq in E; rewrite E; cbn;
      unfold slash_free; cbn; intuition discriminate.
  - apply flat_map_esc_slash_free.
Qed.

Lemma decode_esc_char : forall c rest, decode (esc_char c ++ rest) = c :: decode rest.
Proof.
  intros c rest. unfold esc_char.
  destruct (c =? 37) eqn:E1.
  - apply Z.eqb_eq in E1. subst. reflexivity.
  - destruct (c =? 47) eqn:E2.
    + apply Z.eqb_eq in E2. subst. reflexivity.
    + cbn [app decode]. rewrite E1. reflexivity.
Qed.

Lemma decode_flat_map_esc : forall s, decode (flat_map esc_char s) = s.
Proof.
  induction s as [|c s IH]; [reflexivity|]. cbn [flat_map]. rewrite decode_esc_char, IH. reflexivity.
Qed.

Lemma flat_map_esc_nil : forall s, flat_map esc_char s = [] -> s = [].
Proof.
  destruct s as [|c s]; [reflexivity|]. cbn [flat_map]. unfold esc_char.
  destruct (c =? 37); [discriminate|]. destruct (c =? 47); discriminate.
Qed.

Lemma decode_encode : forall s, decode (encode s) = s.
Proof.
  intro s. unfold encode.
  destruct (str_eqb (flat_map esc_char s) [46] || str_eqb (flat_map esc_char s) [46; 46]) eqn:E.
  - pose proof (decode_flat_map_esc s) as D.
    apply orb_true_iff in E. destruct E as [E|E]; apply str_eqb_eq in E; rewrite E in *; cbn in D; subst s; reflexivity.
  - apply decode_flat_map_esc.
Qed.

Lemma encode_inj : forall a b, encode a = encode b -> a = b.
Proof. intros a b H. rewrite <- (decode_encode a), <- (decode_encode b), H. reflexivity. Qed.

(* ---------------- str(int) / int(str) ---------------- *)
Lemma chars_uint_uint_chars : forall d, chars_uint (uint_chars d) = Some d.
Proof. induction d; cbn [uint_chars chars_uint]; try rewrite IHd; reflexivity. Qed.

Definition is_digit (c : Z) : Prop := 48 <= c <= 57.

Lemma uint_chars_digits : forall d c, In c (uint_chars d) -> is_digit c.
Proof.
  unfold is_digit. induction d; cbn [uint_chars]; intros c H; try (destruct H as [H|H]; [lia | exact (IHd c H)]).
  destruct H.
Qed.

Lemma pos_to_uint_nonnil : forall p, Pos.to_uint p <> Nil.
Proof.
  intros p H. pose proof (DecimalZ.of_to (Z.pos p)) as E. cbn [Z.to_int Z.of_int] in E. rewrite H in E.
  cbn in E. discriminate.
Qed.

Lemma of_uint_pos : forall p, Z.of_uint (Pos.to_uint p) = Z.pos p.
Proof. intro p. exact (DecimalZ.of_to (Z.pos p)). Qed.

Lemma parse_digits : forall d, d <> Nil ->
  parse_int (uint_chars d) = Some (Z.of_uint d).
Proof.
  intros d Hd. destruct (uint_chars d) as [|c r] eqn:E.
  - destruct d; cbn in E; try discriminate. contradiction.
  - assert (Hc : is_digit c) by (apply (uint_chars_digits d); rewrite E; left; reflexivity).
    unfold is_digit in Hc. unfold parse_int.
    destruct (c =? 45) eqn:E1; [apply Z.eqb_eq in E1; lia|].
    destruct (c =? 43) eqn:E2; [apply Z.eqb_eq in E2; lia|].
    rewrite <- E, chars_uint_uint_chars. reflexivity.
Qed.

Lemma parse_int_str_of_Z : forall z, parse_int (str_of_Z z) = Some z.
Proof.
  intro z. unfold str_of_Z. destruct z as [|p|p]; cbn [Z.to_int].
  - reflexivity.
  - rewrite parse_digits by apply pos_to_uint_nonnil. rewrite of_uint_pos. reflexivity.
  - unfold parse_int. cbn [Z.eqb Pos.eqb].
    destruct (uint_chars (Pos.to_uint p)) as [|c r] eqn:E.
    + pose proof (pos_to_uint_nonnil p) as N. destruct (Pos.to_uint p); cbn in E; try discriminate. contradiction.
    + rewrite <- E, chars_uint_uint_chars. cbn [option_map]. rewrite of_uint_pos. reflexivity.
Qed.

Lemma str_of_Z_inj : forall a b, str_of_Z a = str_of_Z b -> a = b.
Proof.
  intros a b H. pose proof (parse_int_str_of_Z a) as Ha. rewrite H, parse_int_str_of_Z in Ha. congruence.
Qed.

Lemma str_of_Z_slash_free : forall z, slash_free (str_of_Z z).
Proof.
  intro z. unfold slash_free, str_of_Z. destruct (Z.to_int z) as [d|d]; intro H.
  - apply uint_chars_digits in H. unfold is_digit in H. lia.
  - destruct H as [H|H]; [discriminate|]. apply uint_chars_digits in H. unfold is_digit in H. lia.
Qed.

(* ---------------- join / split ---------------- *)
Lemma split_slash_free : forall t, slash_free t -> split t = [t].
Proof.
  induction t as [|c t IH]; intro H; [reflexivity|].
  cbn [split]. destruct (c =? 47) eqn:E.
  - apply Z.eqb_eq in E. exfalso. apply H. left. auto.
  - rewrite IH; [reflexivity|]. intro K. apply H. right. exact K.
Qed.

Lemma split_app_slash : forall t rest, slash_free t -> split (t ++ 47 :: rest) = t :: split rest.
Proof.
  induction t as [|c t IH]; intros rest H.
  - reflexivity.
  - cbn [app split]. destruct (c =? 47) eqn:E.
    + apply Z.eqb_eq in E. exfalso. apply H. left. auto.
    + rewrite IH; [reflexivity|]. intro K. apply H. right. exact K.
Qed.

Lemma split_join : forall ts, ts <> [] -> Forall slash_free ts -> split (join ts) = ts.
Proof.
  induction ts as [|t r IH]; intros Hne Hf; [contradiction|].
  inversion Hf as [|? ? Ht Hr]; subst. destruct r as [|t2 r].
  - cbn [join]. apply split_slash_free. exact Ht.
  - change (join (t :: t2 :: r)) with (t ++ 47 :: join (t2 :: r)).
    rewrite split_app_slash by exact Ht. rewrite IH; [reflexivity | discriminate | exact Hr].
Qed.
