(* C15: lemmas about model/Flatten.v *)
From TS Require Import model.Base model.Flatten.
From Coq Require Decimal DecimalZ DecimalPos.
From Coq Require Import Permutation.

(* ================================================================== 1. strings *)
Lemma str_eqb_eq : forall a b, str_eqb a b = true <-> a = b.
Proof.
  unfold str_eqb. induction a as [|x a IH]; destruct b as [|y b]; cbn [list_eqb]; split; intro H;
    try reflexivity; try discriminate.
  - apply andb_true_iff in H. destruct H as [H1 H2]. apply Z.eqb_eq in H1. apply IH in H2. subst. reflexivity.
  - inversion H; subst. apply andb_true_iff. split. apply Z.eqb_refl. apply IH. reflexivity.
Qed.

Lemma str_eqb_refl : forall a, str_eqb a a = true.
Proof. intro a. apply str_eqb_eq. reflexivity. Qed.

Lemma str_eqb_neq : forall a b, str_eqb a b = false <-> a <> b.
Proof.
  intros a b. split.
  - intros H E. apply str_eqb_eq in E. congruence.
  - intro H. destruct (str_eqb a b) eqn:E; [apply str_eqb_eq in E; contradiction | reflexivity].
Qed.

Lemma path_eqb_eq : forall a b, path_eqb a b = true <-> a = b.
Proof.
  unfold path_eqb. induction a as [|x a IH]; destruct b as [|y b]; cbn [list_eqb]; split; intro H;
    try reflexivity; try discriminate.
  - apply andb_true_iff in H. destruct H as [H1 H2]. apply str_eqb_eq in H1. apply IH in H2. subst. reflexivity.
  - inversion H; subst. apply andb_true_iff. split. apply str_eqb_refl. apply IH. reflexivity.
Qed.

Lemma path_eqb_refl : forall a, path_eqb a a = true.
Proof. intro a. apply path_eqb_eq. reflexivity. Qed.

(* ---------------- encode / decode ---------------- *)
Definition slash_free (s : pystr) : Prop := ~ In 47 s.

Lemma esc_char_slash_free : forall c, slash_free (esc_char c).
Proof.
  intro c. unfold esc_char, slash_free.
  destruct (c =? 37) eqn:E1; [cbn; intuition discriminate|].
  destruct (c =? 47) eqn:E2; [cbn; intuition discriminate|].
  apply Z.eqb_neq in E2. cbn. intuition.
Qed.

Lemma flat_map_esc_slash_free : forall s, slash_free (flat_map esc_char s).
Proof.
  unfold slash_free. induction s as [|c s IH]; cbn [flat_map]; [tauto|].
  intro H. apply in_app_or in H. destruct H as [H|H]; [exact (esc_char_slash_free c H) | exact (IH H)].
Qed.

Lemma encode_slash_free : forall s, slash_free (encode s).
Proof.
  intro s. unfold encode.
  destruct (str_eqb (flat_map esc_char s) [46] || str_eqb (flat_map esc_char s) [46; 46]) eqn:E.
  - apply orb_true_iff in E. destruct E as [E|E]; apply str_eqb_eq in E; rewrite E; cbn;
      unfold slash_free; cbn; intuition discriminate.
  - apply flat_map_esc_slash_free.
Qed.

Lemma decode_esc_char : forall c rest, decode (esc_char c ++ rest) = c :: decode rest.
Proof.
  intros c rest. unfold esc_char.
  destruct (c =? 37) eqn:E1.
  - apply Z.eqb_eq in E1. subst. reflexivity.
  - destruct (c =? 47) eqn:E2.
    + apply Z.eqb_eq in E2. subst. reflexivity.
    + cbn [app decode]. rewrite E1. reflexivity.
Qed.

Lemma decode_flat_map_esc : forall s, decode (flat_map esc_char s) = s.
Proof.
  induction s as [|c s IH]; [reflexivity|]. cbn [flat_map]. rewrite decode_esc_char, IH. reflexivity.
Qed.

Lemma flat_map_esc_nil : forall s, flat_map esc_char s = [] -> s = [].
Proof.
  destruct s as [|c s]; [reflexivity|]. cbn [flat_map]. unfold esc_char.
  destruct (c =? 37); [discriminate|]. destruct (c =? 47); discriminate.
Qed.

Lemma decode_encode : forall s, decode (encode s) = s.
Proof.
  intro s. unfold encode.
  destruct (str_eqb (flat_map esc_char s) [46] || str_eqb (flat_map esc_char s) [46; 46]) eqn:E.
  - pose proof (decode_flat_map_esc s) as D.
    apply orb_true_iff in E. destruct E as [E|E]; apply str_eqb_eq in E; rewrite E in *; cbn in D; subst s; reflexivity.
  - apply decode_flat_map_esc.
Qed.

Lemma encode_inj : forall a b, encode a = encode b -> a = b.
Proof. intros a b H. rewrite <- (decode_encode a), <- (decode_encode b), H. reflexivity. Qed.

(* ---------------- str(int) / int(str) ---------------- *)
Lemma chars_uint_uint_chars : forall d, chars_uint (uint_chars d) = Some d.
Proof. induction d; cbn [uint_chars chars_uint]; try rewrite IHd; reflexivity. Qed.

Definition is_digit (c : Z) : Prop := 48 <= c <= 57.

Lemma uint_chars_digits : forall d c, In c (uint_chars d) -> is_digit c.
Proof.
  unfold is_digit. induction d; cbn [uint_chars]; intros c H; try (destruct H as [H|H]; [lia | exact (IHd c H)]).
  destruct H.
Qed.

Lemma pos_to_uint_nonnil : forall p, Pos.to_uint p <> Decimal.Nil.
Proof.
  intros p H. pose proof (DecimalZ.of_to (Z.pos p)) as E. cbn [Z.to_int Z.of_int] in E. rewrite H in E.
  cbn in E. discriminate.
Qed.

Lemma of_uint_pos : forall p, Z.of_uint (Pos.to_uint p) = Z.pos p.
Proof. intro p. exact (DecimalZ.of_to (Z.pos p)). Qed.

Lemma parse_digits : forall d, d <> Decimal.Nil ->
  parse_int (uint_chars d) = Some (Z.of_uint d).
Proof.
  intros d Hd. destruct (uint_chars d) as [|c r] eqn:E.
  - destruct d; cbn in E; try discriminate. contradiction.
  - assert (Hc : is_digit c) by (apply (uint_chars_digits d); rewrite E; left; reflexivity).
    unfold is_digit in Hc. unfold parse_int.
    destruct (c =? 45) eqn:E1; [apply Z.eqb_eq in E1; lia|].
    destruct (c =? 43) eqn:E2; [apply Z.eqb_eq in E2; lia|].
    rewrite <- E, chars_uint_uint_chars. reflexivity.
Qed.

Lemma parse_int_str_of_Z : forall z, parse_int (str_of_Z z) = Some z.
Proof.
  intro z. unfold str_of_Z. destruct z as [|p|p]; cbn [Z.to_int].
  - reflexivity.
  - rewrite parse_digits by apply pos_to_uint_nonnil. rewrite of_uint_pos. reflexivity.
  - unfold parse_int. cbn [Z.eqb Pos.eqb].
    destruct (uint_chars (Pos.to_uint p)) as [|c r] eqn:E.
    + pose proof (pos_to_uint_nonnil p) as N. destruct (Pos.to_uint p); cbn in E; try discriminate. contradiction.
    + rewrite <- E, chars_uint_uint_chars. cbn [option_map]. rewrite of_uint_pos. reflexivity.
Qed.

Lemma str_of_Z_inj : forall a b, str_of_Z a = str_of_Z b -> a = b.
Proof.
  intros a b H. pose proof (parse_int_str_of_Z a) as Ha. rewrite H, parse_int_str_of_Z in Ha. congruence.
Qed.

Lemma str_of_Z_slash_free : forall z, slash_free (str_of_Z z).
Proof.
  intro z. unfold slash_free, str_of_Z. destruct (Z.to_int z) as [d|d]; intro H.
  - apply uint_chars_digits in H. unfold is_digit in H. lia.
  - destruct H as [H|H]; [discriminate|]. apply uint_chars_digits in H. unfold is_digit in H. lia.
Qed.

(* ---------------- join / split ---------------- *)
Lemma split_slash_free : forall t, slash_free t -> split t = [t].
Proof.
  induction t as [|c t IH]; intro H; [reflexivity|].
  cbn [split]. destruct (c =? 47) eqn:E.
  - apply Z.eqb_eq in E. exfalso. apply H. left. auto.
  - rewrite IH; [reflexivity|]. intro K. apply H. right. exact K.
Qed.

Lemma split_app_slash : forall t rest, slash_free t -> split (t ++ 47 :: rest) = t :: split rest.
Proof.
  induction t as [|c t IH]; intros rest H.
  - reflexivity.
  - cbn [app split]. destruct (c =? 47) eqn:E.
    + apply Z.eqb_eq in E. exfalso. apply H. left. auto.
    + rewrite IH; [reflexivity|]. intro K. apply H. right. exact K.
Qed.

Lemma split_join : forall ts, ts <> [] -> Forall slash_free ts -> split (join ts) = ts.
Proof.
  induction ts as [|t r IH]; intros Hne Hf; [contradiction|].
  inversion Hf as [|? ? Ht Hr]; subst. destruct r as [|t2 r].
  - cbn [join]. apply split_slash_free. exact Ht.
  - change (join (t :: t2 :: r)) with (t ++ 47 :: join (t2 :: r)).
    rewrite split_app_slash by exact Ht. rewrite IH; [reflexivity | discriminate | exact Hr].
Qed.

(* ================================================================== 2. objects: kids, induction, flatten equations *)
(* a leaf of the flattening: a real leaf, or a dict that _should_flatten_dict rejects *)
Definition is_leaflike (o : obj) : bool :=
  match o with
  | Leaf _ => true
  | OList _ => false
  | ODict _ kvs => negb (should_flatten (map fst kvs))
  end.

Definition entry_of (o : obj) : entry :=
  match o with
  | Leaf _ => EList
  | OList _ => EList
  | ODict ord kvs => EDict ord (map fst kvs)
  end.

(* children of a container with the path token flatten gives them *)
Definition kids (o : obj) : list (token * obj) :=
  match o with
  | Leaf _ => []
  | OList xs => combine (list_tokens (length xs)) xs
  | ODict _ kvs => map (fun kv => (key_token (fst kv), snd kv)) kvs
  end.

Definition flat_kids (P : path) (ks : list (token * obj)) : manifest * leafmap :=
  (flat_map (fun tc => fst (flatten (snd tc) (P ++ [fst tc]))) ks,
   flat_map (fun tc => snd (flatten (snd tc) (P ++ [fst tc]))) ks).

Section ObjInd.
  Variable Q : obj -> Prop.
  Hypothesis HL : forall l, Q (Leaf l).
  Hypothesis HLi : forall xs, Forall Q xs -> Q (OList xs).
  Hypothesis HD : forall ord kvs, Forall (fun kv => Q (snd kv)) kvs -> Q (ODict ord kvs).
  Fixpoint obj_ind' (o : obj) : Q o :=
    match o with
    | Leaf l => HL l
    | OList xs => HLi xs ((fix go (xs : list obj) : Forall Q xs :=
                             match xs with
                             | [] => Forall_nil _
                             | x :: r => Forall_cons x (obj_ind' x) (go r)
                             end) xs)
    | ODict ord kvs => HD ord kvs ((fix go (kvs : list (key * obj)) : Forall (fun kv => Q (snd kv)) kvs :=
                                     match kvs with
                                     | [] => Forall_nil _
                                     | kv :: r => Forall_cons kv (obj_ind' (snd kv)) (go r)
                                     end) kvs)
    end.
End ObjInd.

Lemma in_combine_snd : forall {A B} (l : list A) (l' : list B) a b, In (a, b) (combine l l') -> In b l'.
Proof. intros A B l l' a b H. exact (in_combine_r l l' a b H). Qed.

(* induction over the children as flatten sees them *)
Lemma obj_kids_ind : forall Q : obj -> Prop,
  (forall o, (forall t c, In (t, c) (kids o) -> Q c) -> Q o) -> forall o, Q o.
Proof.
  intros Q H. induction o using obj_ind'.
  - apply H. intros t c [].
  - apply H. intros t c Hin. cbn [kids] in Hin. apply in_combine_snd in Hin.
    rewrite Forall_forall in H0. exact (H0 c Hin).
  - apply H. intros t c Hin. cbn [kids] in Hin. apply in_map_iff in Hin. destruct Hin as [kv [E Hin]].
    inversion E; subst. rewrite Forall_forall in H0. exact (H0 kv Hin).
Qed.

Lemma flatten_leaflike : forall o P, is_leaflike o = true -> flatten o P = ([], [(P, o)]).
Proof.
  intros o P H. destruct o as [l|xs|ord kvs]; cbn [is_leaflike] in H.
  - reflexivity.
  - discriminate.
  - cbn [flatten]. apply negb_true_iff in H. rewrite H. reflexivity.
Qed.

Lemma flatten_container : forall o P, is_leaflike o = false ->
  flatten o P = ((P, entry_of o) :: fst (flat_kids P (kids o)), snd (flat_kids P (kids o))).
Proof.
  intros o P H. destruct o as [l|xs|ord kvs]; cbn [is_leaflike] in H.
  - discriminate.
  - cbn [flatten entry_of kids]. generalize (list_tokens (length xs)) as ts.
    intro ts.
    assert (G : forall xs ts,
      (fix go (xs0 : list obj) (ts0 : list token) {struct xs0} : manifest * leafmap :=
         match xs0 with
         | [] => ([], [])
         | x :: xs' => match ts0 with
                       | [] => ([], [])
                       | t :: ts' => (fst (flatten x (P ++ [t])) ++ fst (go xs' ts'), snd (flatten x (P ++ [t])) ++ snd (go xs' ts'))
                       end
         end) xs ts = flat_kids P (combine ts xs)).
    { clear. induction xs as [|x xs IH]; intros ts.
      - destruct ts; reflexivity.
      - destruct ts as [|t ts]; [reflexivity|]. rewrite IH. reflexivity. }
    rewrite G. reflexivity.
  - apply negb_false_iff in H. cbn [flatten entry_of kids]. rewrite H.
    assert (G : forall kvs,
      (fix go (kvs0 : list (key * obj)) : manifest * leafmap :=
         match kvs0 with
         | [] => ([], [])
         | kv :: kvs' => (fst (flatten (snd kv) (P ++ [key_token (fst kv)])) ++ fst (go kvs'),
                          snd (flatten (snd kv) (P ++ [key_token (fst kv)])) ++ snd (go kvs'))
         end) kvs = flat_kids P (map (fun kv => (key_token (fst kv), snd kv)) kvs)).
    { clear. induction kvs as [|kv kvs IH]; [reflexivity|]. rewrite IH. reflexivity. }
    rewrite G. reflexivity.
Qed.

(* ================================================================== 3. well-formed objects, distinct tokens *)
(* dict keys pairwise distinct under Python equality - every Python dict satisfies this *)
Fixpoint keys_distinctb (ks : list key) : bool :=
  match ks with
  | [] => true
  | k :: r => negb (existsb (py_eqb k) r) && keys_distinctb r
  end.

(* required only of the dicts flatten descends into; a dict kept whole is not inspected *)
Fixpoint wf_objb (o : obj) : bool :=
  match o with
  | Leaf _ => true
  | OList xs => forallb wf_objb xs
  | ODict _ kvs =>
      if should_flatten (map fst kvs)
      then keys_distinctb (map fst kvs) && forallb (fun kv => wf_objb (snd kv)) kvs
      else true
  end.
Definition wf_obj (o : obj) : Prop := wf_objb o = true.

Lemma wf_kids : forall o, wf_obj o -> is_leaflike o = false ->
  forall t c, In (t, c) (kids o) -> wf_obj c.
Proof.
  unfold wf_obj. intros o W L t c Hin. destruct o as [l|xs|ord kvs]; cbn [is_leaflike] in L.
  - discriminate.
  - cbn [kids] in Hin. apply in_combine_snd in Hin. cbn [wf_objb] in W.
    rewrite forallb_forall in W. exact (W c Hin).
  - apply negb_false_iff in L. cbn [wf_objb] in W. rewrite L in W. apply andb_true_iff in W. destruct W as [_ W].
    cbn [kids] in Hin. apply in_map_iff in Hin. destruct Hin as [kv [E Hin]]. inversion E; subst.
    rewrite forallb_forall in W. exact (W kv Hin).
Qed.

Lemma fromkeys_acc_id : forall ks seen, keys_distinctb ks = true ->
  (forall k, In k ks -> key_memb k seen = false) -> fromkeys_acc seen ks = ks.
Proof.
  induction ks as [|k r IH]; intros seen D S; [reflexivity|].
  cbn [keys_distinctb] in D. apply andb_true_iff in D. destruct D as [D1 D2]. apply negb_true_iff in D1.
  cbn [fromkeys_acc]. rewrite (S k (or_introl eq_refl)). f_equal. apply IH; [exact D2|].
  intros k' Hin. cbn [key_memb]. rewrite (S k' (or_intror Hin)), orb_false_r.
  destruct (py_eqb k k') eqn:E; [|reflexivity].
  assert (X : existsb (py_eqb k) r = true) by (apply existsb_exists; exists k'; split; assumption). congruence.
Qed.

Lemma fromkeys_id : forall ks, keys_distinctb ks = true -> fromkeys ks = ks.
Proof. intros ks D. apply fromkeys_acc_id; [exact D | reflexivity]. Qed.

Lemma str_memb_in : forall x l, str_memb x l = true <-> In x l.
Proof.
  induction l as [|y r IH]; cbn [str_memb In]; [split; [discriminate | tauto]|].
  rewrite orb_true_iff, IH, str_eqb_eq. split; intros [H|H]; auto.
Qed.

Lemma dedup_length_le : forall l, (length (dedup l) <= length l)%nat.
Proof.
  induction l as [|x r IH]; cbn [dedup length]; [lia|]. destruct (str_memb x r); cbn [length]; lia.
Qed.

Lemma dedup_full_nodup : forall l, length (dedup l) = length l -> NoDup l.
Proof.
  induction l as [|x r IH]; intro H; [constructor|].
  cbn [dedup] in H. destruct (str_memb x r) eqn:E.
  - pose proof (dedup_length_le r). cbn [length] in H. lia.
  - cbn [length] in H. constructor.
    + intro K. apply str_memb_in in K. congruence.
    + apply IH. lia.
Qed.

Lemma should_flatten_spec : forall ks, should_flatten ks = true ->
  forallb is_str_or_int ks = true /\ NoDup (map key_str ks).
Proof.
  intros ks H. unfold should_flatten in H.
  destruct (forallb is_str_or_int ks) eqn:E1; cbn [negb] in H; [|discriminate]. split; [reflexivity|].
  destruct (Z.of_nat (length (dedup (map key_str ks))) <? Z.of_nat (length ks)) eqn:E2; [discriminate|].
  apply Z.ltb_ge in E2. apply dedup_full_nodup. pose proof (dedup_length_le (map key_str ks)) as L.
  rewrite map_length in *. lia.
Qed.

Lemma NoDup_map_inj : forall {A B} (f : A -> B) l, (forall a b, f a = f b -> a = b) -> NoDup l -> NoDup (map f l).
Proof.
  intros A B f l Hf N. induction N as [|x l Hx N IH]; cbn [map]; constructor; [|exact IH].
  intro K. apply in_map_iff in K. destruct K as [y [E Hy]]. apply Hf in E. subst. contradiction.
Qed.

Lemma list_tokens_nodup : forall n, NoDup (list_tokens n).
Proof.
  intro n. unfold list_tokens. apply NoDup_map_inj; [|apply seq_NoDup].
  intros a b H. apply str_of_Z_inj in H. lia.
Qed.

Lemma map_fst_combine : forall {A B} (l : list A) (l' : list B), length l = length l' -> map fst (combine l l') = l.
Proof.
  induction l as [|a l IH]; destruct l' as [|b l']; cbn; intro H; try reflexivity; try discriminate.
  f_equal. apply IH. lia.
Qed.

Lemma map_snd_combine : forall {A B} (l : list A) (l' : list B), length l = length l' -> map snd (combine l l') = l'.
Proof.
  induction l as [|a l IH]; destruct l' as [|b l']; cbn; intro H; try reflexivity; try discriminate.
  f_equal. apply IH. lia.
Qed.

Lemma list_tokens_length : forall n, length (list_tokens n) = n.
Proof. intro n. unfold list_tokens. rewrite map_length, seq_length. reflexivity. Qed.

(* the path tokens flatten gives to the children of one container are pairwise distinct *)
Lemma kids_tokens_nodup : forall o, is_leaflike o = false -> NoDup (map fst (kids o)).
Proof.
  intros o L. destruct o as [l|xs|ord kvs]; cbn [is_leaflike] in L.
  - discriminate.
  - cbn [kids]. rewrite map_fst_combine by apply list_tokens_length. apply list_tokens_nodup.
  - apply negb_false_iff in L. apply should_flatten_spec in L. destruct L as [_ N].
    cbn [kids]. replace (map fst (map (fun kv : key * obj => (key_token (fst kv), snd kv)) kvs))
      with (map encode (map key_str (map fst kvs))) by (rewrite !map_map; reflexivity).
    apply NoDup_map_inj; [exact encode_inj | exact N].
Qed.

Lemma NoDup_fst_pair : forall {A B} (l : list (A * B)), NoDup (map fst l) -> NoDup l.
Proof.
  intros A B l. induction l as [|x l IH]; cbn [map]; intro N; [constructor|].
  inversion N as [|? ? Hx N']; subst. constructor; [|exact (IH N')].
  intro K. apply Hx. apply in_map. exact K.
Qed.

Lemma fst_unique : forall {A B} (l : list (A * B)) a b b', NoDup (map fst l) -> In (a, b) l -> In (a, b') l -> b = b'.
Proof.
  intros A B l a b b'. induction l as [|x l IH]; cbn [map]; intros N H1 H2; [destruct H1|].
  inversion N as [|? ? Hx N']; subst. destruct H1 as [H1|H1], H2 as [H2|H2].
  - congruence.
  - subst x. exfalso. apply Hx. apply (in_map fst) in H2. exact H2.
  - subst x. exfalso. apply Hx. apply (in_map fst) in H1. exact H1.
  - exact (IH N' H1 H2).
Qed.

(* ================================================================== 4. the paths flatten produces *)
Lemma in_flatten_m_container : forall o P q e, is_leaflike o = false ->
  (In (q, e) (fst (flatten o P)) <->
   (q = P /\ e = entry_of o) \/ exists t c, In (t, c) (kids o) /\ In (q, e) (fst (flatten c (P ++ [t])))).
Proof.
  intros o P q e L. rewrite (flatten_container o P L). cbn [fst flat_kids In]. rewrite in_flat_map. split.
  - intros [H|[[t c] [H1 H2]]]; [left; inversion H; auto | right; exists t, c; auto].
  - intros [[H1 H2]|[t [c [H1 H2]]]]; [left; subst; reflexivity | right; exists (t, c); auto].
Qed.

Lemma in_flatten_l_container : forall o P q x, is_leaflike o = false ->
  (In (q, x) (snd (flatten o P)) <->
   exists t c, In (t, c) (kids o) /\ In (q, x) (snd (flatten c (P ++ [t])))).
Proof.
  intros o P q x L. rewrite (flatten_container o P L). cbn [snd flat_kids]. rewrite in_flat_map. split.
  - intros [[t c] [H1 H2]]. exists t, c; auto.
  - intros [t [c [H1 H2]]]. exists (t, c); auto.
Qed.

Lemma flatten_prefix : forall o P,
  (forall q e, In (q, e) (fst (flatten o P)) -> exists r, q = P ++ r) /\
  (forall q x, In (q, x) (snd (flatten o P)) -> exists r, q = P ++ r).
Proof.
  induction o using obj_kids_ind. intro P. destruct (is_leaflike o) eqn:L.
  - rewrite (flatten_leaflike o P L). cbn [fst snd In]. split; [intros q e [] |].
    intros q x [E|[]]. inversion E; subst. exists []. rewrite app_nil_r. reflexivity.
  - split.
    + intros q e Hin. apply (in_flatten_m_container o P q e L) in Hin.
      destruct Hin as [[E _]|[t [c [Hk Hin]]]].
      * exists []. rewrite app_nil_r. exact E.
      * destruct (H t c Hk (P ++ [t])) as [Hm _]. destruct (Hm q e Hin) as [r E].
        exists (t :: r). rewrite E, <- app_assoc. reflexivity.
    + intros q x Hin. apply (in_flatten_l_container o P q x L) in Hin. destruct Hin as [t [c [Hk Hin]]].
      destruct (H t c Hk (P ++ [t])) as [_ Hl]. destruct (Hl q x Hin) as [r E].
      exists (t :: r). rewrite E, <- app_assoc. reflexivity.
Qed.

Lemma app_cons_neq : forall {A} (P : list A) t r, P ++ t :: r <> P.
Proof.
  intros A P t r E. apply (f_equal (@length A)) in E. rewrite app_length in E. cbn [length] in E. lia.
Qed.

Lemma app_cons_inv : forall {A} (P : list A) t r t' r', P ++ t :: r = P ++ t' :: r' -> t = t' /\ r = r'.
Proof. intros A P t r t' r' E. apply app_inv_head in E. inversion E; auto. Qed.

(* what sits exactly at the root path *)
Lemma root_entry : forall o P e, In (P, e) (fst (flatten o P)) -> is_leaflike o = false /\ e = entry_of o.
Proof.
  intros o P e Hin. destruct (is_leaflike o) eqn:L.
  - rewrite (flatten_leaflike o P L) in Hin. destruct Hin.
  - split; [reflexivity|]. apply (in_flatten_m_container o P P e L) in Hin.
    destruct Hin as [[_ E]|[t [c [Hk Hin]]]]; [exact E|].
    destruct (flatten_prefix c (P ++ [t])) as [Hm _]. destruct (Hm P e Hin) as [r E].
    rewrite <- app_assoc in E. symmetry in E. exfalso. exact (app_cons_neq P t r E).
Qed.

Lemma root_leaf : forall o P x, In (P, x) (snd (flatten o P)) -> is_leaflike o = true /\ x = o.
Proof.
  intros o P x Hin. destruct (is_leaflike o) eqn:L.
  - rewrite (flatten_leaflike o P L) in Hin. destruct Hin as [E|[]]. inversion E. auto.
  - exfalso. apply (in_flatten_l_container o P P x L) in Hin. destruct Hin as [t [c [Hk Hin]]].
    destruct (flatten_prefix c (P ++ [t])) as [_ Hl]. destruct (Hl P x Hin) as [r E].
    rewrite <- app_assoc in E. symmetry in E. exact (app_cons_neq P t r E).
Qed.

Lemma root_entry_in : forall o P, is_leaflike o = false -> In (P, entry_of o) (fst (flatten o P)).
Proof. intros o P L. apply (in_flatten_m_container o P P _ L). left. auto. Qed.

Lemma root_leaf_in : forall o P, is_leaflike o = true -> In (P, o) (snd (flatten o P)).
Proof. intros o P L. rewrite (flatten_leaflike o P L). left. reflexivity. Qed.

(* ---------------- pairwise distinct paths ---------------- *)
Definition all_paths (o : obj) (P : path) : list path :=
  map fst (fst (flatten o P)) ++ map fst (snd (flatten o P)).

Lemma all_paths_prefix : forall o P q, In q (all_paths o P) -> exists r, q = P ++ r.
Proof.
  intros o P q Hin. unfold all_paths in Hin. destruct (flatten_prefix o P) as [Hm Hl].
  apply in_app_or in Hin. destruct Hin as [Hin|Hin]; apply in_map_iff in Hin; destruct Hin as [[q' v] [E Hin]];
    cbn [fst] in E; subst q'; [exact (Hm q v Hin) | exact (Hl q v Hin)].
Qed.

Lemma NoDup_app_intro : forall {A} (l1 l2 : list A),
  NoDup l1 -> NoDup l2 -> (forall x, In x l1 -> ~ In x l2) -> NoDup (l1 ++ l2).
Proof.
  intros A l1 l2 N1 N2 D. induction N1 as [|x l1 Hx N1 IH]; [exact N2|].
  cbn [app]. constructor.
  - intro K. apply in_app_or in K. destruct K as [K|K]; [contradiction | exact (D x (or_introl eq_refl) K)].
  - apply IH. intros y Hy. apply D. right. exact Hy.
Qed.

Lemma NoDup_flat_map_tagged : forall (P : path) (F : token * obj -> list path) (ks : list (token * obj)),
  NoDup (map fst ks) ->
  (forall tc, In tc ks -> NoDup (F tc)) ->
  (forall tc q, In tc ks -> In q (F tc) -> exists r, q = P ++ fst tc :: r) ->
  NoDup (flat_map F ks).
Proof.
  intros P F ks. induction ks as [|a ks IH]; cbn [map flat_map]; intros N HN HT; [constructor|].
  inversion N as [|? ? Ha N']; subst. apply NoDup_app_intro.
  - apply HN. left. reflexivity.
  - apply IH; [exact N' | intros; apply HN; right; assumption | intros tc q H1 H2; apply (HT tc q); [right|]; assumption].
  - intros q H1 H2. apply in_flat_map in H2. destruct H2 as [b [Hb H2]].
    destruct (HT a q (or_introl eq_refl) H1) as [r E]. destruct (HT b q (or_intror Hb) H2) as [r' E'].
    rewrite E in E'. apply app_cons_inv in E'. destruct E' as [E' _]. apply Ha. rewrite E'. apply in_map. exact Hb.
Qed.

Lemma map_flat_map : forall {A B C} (g : B -> C) (f : A -> list B) l,
  map g (flat_map f l) = flat_map (fun x => map g (f x)) l.
Proof. intros A B C g f l. induction l as [|a l IH]; cbn [flat_map map]; [reflexivity|]. rewrite map_app, IH. reflexivity. Qed.

Lemma flat_map_app_perm : forall {A B} (f g : A -> list B) l,
  Permutation (flat_map f l ++ flat_map g l) (flat_map (fun x => f x ++ g x) l).
Proof.
  intros A B f g l. induction l as [|a l IH]; cbn [flat_map]; [constructor|].
  rewrite <- app_assoc. rewrite <- app_assoc. apply Permutation_app_head.
  eapply Permutation_trans; [apply Permutation_app_swap_app|]. apply Permutation_app_head. exact IH.
Qed.

Lemma all_paths_container : forall o P, is_leaflike o = false ->
  Permutation (all_paths o P) (P :: flat_map (fun tc => all_paths (snd tc) (P ++ [fst tc])) (kids o)).
Proof.
  intros o P L. unfold all_paths at 1. rewrite (flatten_container o P L). cbn [fst snd flat_kids map app].
  constructor. rewrite !map_flat_map. apply flat_map_app_perm.
Qed.

Lemma all_paths_nodup : forall o P, NoDup (all_paths o P).
Proof.
  induction o using obj_kids_ind. intro P. destruct (is_leaflike o) eqn:L.
  - unfold all_paths. rewrite (flatten_leaflike o P L). cbn. constructor; [tauto | constructor].
  - apply (Permutation_NoDup (Permutation_sym (all_paths_container o P L))). constructor.
    + intro K. apply in_flat_map in K. destruct K as [[t c] [Hk K]]. cbn [fst snd] in K.
      apply all_paths_prefix in K. destruct K as [r E]. rewrite <- app_assoc in E. symmetry in E.
      exact (app_cons_neq P t r E).
    + apply (NoDup_flat_map_tagged P).
      * apply kids_tokens_nodup. exact L.
      * intros [t c] Hk. cbn [fst snd]. exact (H t c Hk (P ++ [t])).
      * intros [t c] q Hk Hq. cbn [fst snd] in *. apply all_paths_prefix in Hq. destruct Hq as [r E].
        exists r. rewrite E, <- app_assoc. reflexivity.
Qed.

Lemma NoDup_app_l : forall {A} (l1 l2 : list A), NoDup (l1 ++ l2) -> NoDup l1.
Proof.
  intros A l1 l2. induction l1 as [|x l1 IH]; cbn [app]; intro N; [constructor|].
  inversion N as [|? ? Hx N']; subst. constructor; [|exact (IH N')]. intro K. apply Hx. apply in_or_app. left. exact K.
Qed.

Lemma NoDup_app_r : forall {A} (l1 l2 : list A), NoDup (l1 ++ l2) -> NoDup l2.
Proof.
  intros A l1 l2. induction l1 as [|x l1 IH]; cbn [app]; intro N; [exact N|].
  inversion N; subst. apply IH. assumption.
Qed.

Lemma mpaths_nodup : forall o P, NoDup (map fst (fst (flatten o P))).
Proof. intros o P. exact (NoDup_app_l _ _ (all_paths_nodup o P)). Qed.
Lemma lpaths_nodup : forall o P, NoDup (map fst (snd (flatten o P))).
Proof. intros o P. exact (NoDup_app_r _ _ (all_paths_nodup o P)). Qed.

(* ================================================================== 5. the pieces of inflate *)
Lemma strip_prefix_spec : forall P q r, strip_prefix P q = Some r <-> q = P ++ r.
Proof.
  induction P as [|a P IH]; intros q r; cbn [strip_prefix app].
  - split; intro H; [inversion H | subst]; reflexivity.
  - destruct q as [|b q]; [split; discriminate|].
    destruct (str_eqb a b) eqn:E.
    + apply str_eqb_eq in E. subst b. rewrite IH. split; intro H; [subst | inversion H]; reflexivity.
    + apply str_eqb_neq in E. split; [discriminate|]. intro H. inversion H. congruence.
Qed.

Lemma in_children : forall {A} (l : list (path * A)) P t x, In (t, x) (children l P) <-> In (P ++ [t], x) l.
Proof.
  intros A l P t x. unfold children. rewrite in_flat_map. split.
  - intros [[q y] [Hin H]]. cbn [fst snd] in H. destruct (strip_prefix P q) as [r|] eqn:E; [|destruct H].
    destruct r as [|t' [|? ?]]; [destruct H | | destruct H]. destruct H as [H|[]].
    inversion H; subst. apply strip_prefix_spec in E. subst q. exact Hin.
  - intro Hin. exists (P ++ [t], x). split; [exact Hin|]. cbn [fst snd].
    assert (E : strip_prefix P (P ++ [t]) = Some [t]) by (apply strip_prefix_spec; reflexivity).
    rewrite E. left. reflexivity.
Qed.

Lemma children_nodup : forall {A} (l : list (path * A)) P, NoDup (map fst l) -> NoDup (map fst (children l P)).
Proof.
  intros A l P. induction l as [|[q y] l IH]; cbn [map]; intro N; [constructor|].
  inversion N as [|? ? Hq N']; subst. unfold children. cbn [flat_map fst snd]. fold (children l P).
  destruct (strip_prefix P q) as [r|] eqn:E; [|exact (IH N')].
  destruct r as [|t [|? ?]]; try exact (IH N'). cbn [app map fst]. constructor; [|exact (IH N')].
  intro K. apply in_map_iff in K. destruct K as [[t' x] [E' K]]. cbn [fst] in E'. subst t'.
  apply in_children in K. apply strip_prefix_spec in E. subst q. apply Hq. apply (in_map fst) in K. exact K.
Qed.

(* ---------------- association lists ---------------- *)
Lemma assoc_str_in : forall {A} (l : list (pystr * A)) s v, NoDup (map fst l) -> In (s, v) l -> assoc_str s l = Some v.
Proof.
  intros A l s v. induction l as [|[t w] l IH]; cbn [map fst]; intros N Hin; [destruct Hin|].
  inversion N as [|? ? Ht N']; subst. cbn [assoc_str]. destruct Hin as [E|Hin].
  - inversion E; subst. rewrite str_eqb_refl. reflexivity.
  - destruct (str_eqb s t) eqn:E; [|exact (IH N' Hin)].
    apply str_eqb_eq in E. subst t. exfalso. apply Ht. apply (in_map fst) in Hin. exact Hin.
Qed.

Lemma assoc_path_in : forall {A} (l : list (path * A)) p v, NoDup (map fst l) -> In (p, v) l -> assoc_path p l = Some v.
Proof.
  intros A l p v. induction l as [|[t w] l IH]; cbn [map fst]; intros N Hin; [destruct Hin|].
  inversion N as [|? ? Ht N']; subst. cbn [assoc_path]. destruct Hin as [E|Hin].
  - inversion E; subst. rewrite path_eqb_refl. reflexivity.
  - destruct (path_eqb p t) eqn:E; [|exact (IH N' Hin)].
    apply path_eqb_eq in E. subst t. exfalso. apply Ht. apply (in_map fst) in Hin. exact Hin.
Qed.

Lemma assoc_path_none : forall {A} (l : list (path * A)) p, ~ In p (map fst l) -> assoc_path p l = None.
Proof.
  intros A l p. induction l as [|[t w] l IH]; cbn [map fst In assoc_path]; intro H; [reflexivity|].
  destruct (path_eqb p t) eqn:E; [apply path_eqb_eq in E; subst; tauto | apply IH; tauto].
Qed.

(* ---------------- mapM ---------------- *)
Lemma mapM_map : forall {A B} (f : A -> option B) (g : A -> B) l,
  (forall x, In x l -> f x = Some (g x)) -> mapM f l = Some (map g l).
Proof.
  intros A B f g l. induction l as [|x l IH]; intro H; [reflexivity|].
  cbn [mapM map]. rewrite (H x (or_introl eq_refl)), IH; [reflexivity|]. intros y Hy. apply H. right. exact Hy.
Qed.

(* ---------------- sorting a permutation of a strictly sorted list ---------------- *)
Fixpoint ssorted {A} (l : list (Z * A)) : Prop :=
  match l with
  | [] => True
  | x :: r => (forall y, In y r -> fst x < fst y) /\ ssorted r
  end.

Lemma insert_mid : forall {A} (x : Z * A) s1 s2,
  (forall y, In y s1 -> fst y < fst x) -> (forall y, In y s2 -> fst x < fst y) ->
  insert_by x (s1 ++ s2) = s1 ++ x :: s2.
Proof.
  intros A x s1 s2 H1 H2. induction s1 as [|y s1 IH]; cbn [app].
  - destruct s2 as [|y s2]; [reflexivity|]. cbn [insert_by].
    pose proof (H2 y (or_introl eq_refl)) as L. destruct (fst y <? fst x) eqn:E; [apply Z.ltb_lt in E; lia | reflexivity].
  - cbn [insert_by]. pose proof (H1 y (or_introl eq_refl)) as L.
    destruct (fst y <? fst x) eqn:E; [|apply Z.ltb_ge in E; lia].
    rewrite IH; [reflexivity|]. intros z Hz. apply H1. right. exact Hz.
Qed.

Lemma ssorted_app_cons : forall {A} (s1 : list (Z * A)) x s2, ssorted (s1 ++ x :: s2) ->
  (forall y, In y s1 -> fst y < fst x) /\ (forall y, In y s2 -> fst x < fst y) /\ ssorted (s1 ++ s2).
Proof.
  intros A s1 x s2. induction s1 as [|y s1 IH]; cbn [app ssorted].
  - intros [H1 H2]. split; [intros y []|]. split; assumption.
  - intros [H1 H2]. destruct (IH H2) as [I1 [I2 I3]]. split; [|split].
    + intros z [E|Hz]; [subst z; apply H1; apply in_or_app; right; left; reflexivity | exact (I1 z Hz)].
    + exact I2.
    + split; [|exact I3]. intros z Hz. apply H1. apply in_app_or in Hz. apply in_or_app.
      destruct Hz as [Hz|Hz]; [left | right; right]; exact Hz.
Qed.

Lemma isort_perm_ssorted : forall {A} (l s : list (Z * A)), Permutation l s -> ssorted s -> isort l = s.
Proof.
  intros A l. induction l as [|x l IH]; intros s Hp Hs.
  - apply Permutation_nil in Hp. subst. reflexivity.
  - assert (Hin : In x s) by (apply (Permutation_in _ Hp); left; reflexivity).
    apply in_split in Hin. destruct Hin as [s1 [s2 E]]. subst s.
    apply Permutation_cons_app_inv in Hp. apply ssorted_app_cons in Hs. destruct Hs as [H1 [H2 H3]].
    cbn [isort]. rewrite (IH (s1 ++ s2) Hp H3). apply insert_mid; assumption.
Qed.

Lemma ssorted_combine_seq : forall {A} (xs : list A) a n,
  ssorted (combine (map Z.of_nat (seq a n)) xs).
Proof.
  intros A xs. induction xs as [|x xs IH]; intros a n.
  - destruct (map Z.of_nat (seq a n)); exact I.
  - destruct n as [|n]; [exact I|]. cbn [seq map combine ssorted]. split; [|apply IH].
    intros y Hy. destruct y as [i v]. apply in_combine_l in Hy. apply in_map_iff in Hy.
    destruct Hy as [j [E Hj]]. apply in_seq in Hj. cbn [fst]. lia.
Qed.

(* ---------------- populate: lists ---------------- *)
Definition parse_tv (tv : token * obj) : Z * obj :=
  (match parse_int (fst tv) with Some z => z | None => 0 end, snd tv).

Lemma parse_tv_combine : forall l xs,
  map parse_tv (combine (map (fun i => str_of_Z (Z.of_nat i)) l) xs) = combine (map Z.of_nat l) xs.
Proof.
  induction l as [|i l IH]; intros xs; [reflexivity|]. destruct xs as [|x xs]; [reflexivity|].
  cbn [map combine]. rewrite IH. unfold parse_tv at 1. cbn [fst snd]. rewrite parse_int_str_of_Z. reflexivity.
Qed.

Lemma populate_list : forall xs vals, Permutation vals (kids (OList xs)) -> populate EList vals = Some (OList xs).
Proof.
  intros xs vals Hp. cbn [populate].
  assert (M : mapM (fun tv => option_map (fun z => (z, snd tv)) (parse_int (fst tv))) vals = Some (map parse_tv vals)).
  { apply mapM_map. intros [t v] Hin. apply (Permutation_in _ Hp) in Hin. cbn [kids] in Hin.
    apply in_combine_l in Hin. unfold list_tokens in Hin. apply in_map_iff in Hin. destruct Hin as [i [E _]].
    subst t. unfold parse_tv. cbn [fst snd]. rewrite parse_int_str_of_Z. reflexivity. }
  rewrite M. unfold sort_by_int.
  assert (S : isort (map parse_tv vals) = combine (map Z.of_nat (seq 0 (length xs))) xs).
  { apply isort_perm_ssorted; [|apply ssorted_combine_seq].
    rewrite <- parse_tv_combine. apply Permutation_map. exact Hp. }
  rewrite S, map_snd_combine; [reflexivity|]. rewrite map_length, seq_length. reflexivity.
Qed.

(* ---------------- populate: dicts ---------------- *)
Lemma populate_dict : forall ord kvs vals,
  should_flatten (map fst kvs) = true -> keys_distinctb (map fst kvs) = true ->
  Permutation vals (kids (ODict ord kvs)) ->
  populate (EDict ord (map fst kvs)) vals = Some (ODict ord kvs).
Proof.
  intros ord kvs vals SF KD Hp. cbn [populate]. rewrite (fromkeys_id _ KD).
  cbv zeta. match goal with |- context [assoc_str _ (rev ?d)] => remember d as dec eqn:Edec end.
  assert (ND : NoDup (map fst dec)).
  { rewrite Edec. rewrite map_map. cbn [fst].
    apply (Permutation_NoDup (l := map (fun tv : token * obj => decode (fst tv)) (kids (ODict ord kvs)))).
    - apply Permutation_map. apply Permutation_sym. exact Hp.
    - cbn [kids]. rewrite map_map. cbn [fst]. unfold key_token.
      replace (map (fun x : key * obj => decode (encode (key_str (fst x)))) kvs) with (map key_str (map fst kvs)).
      + apply should_flatten_spec in SF. tauto.
      + rewrite map_map. apply map_ext. intro a. rewrite decode_encode. reflexivity. }
  assert (L : forall k v, In (k, v) kvs -> assoc_str (key_str k) (rev dec) = Some v).
  { intros k v Hin. apply assoc_str_in; [rewrite map_rev; apply NoDup_rev; exact ND|]. apply -> in_rev. rewrite Edec. apply in_map_iff.
    exists (key_token k, v). cbn [fst snd]. unfold key_token at 1. rewrite decode_encode. split; [reflexivity|].
    apply (Permutation_in _ (Permutation_sym Hp)). cbn [kids]. apply in_map_iff. exists (k, v). auto. }
  f_equal. f_equal. clear -L. induction kvs as [|[k v] kvs IH]; [reflexivity|].
  cbn [map fst flat_map]. rewrite (L k v (or_introl eq_refl)). cbn [app]. f_equal. apply IH.
  intros k' v' Hin. apply L. right. exact Hin.
Qed.

Lemma populate_kids : forall o vals, wf_obj o -> is_leaflike o = false ->
  Permutation vals (kids o) -> populate (entry_of o) vals = Some o.
Proof.
  intros o vals W L Hp. destruct o as [l|xs|ord kvs]; cbn [is_leaflike] in L.
  - discriminate.
  - cbn [entry_of]. apply populate_list. exact Hp.
  - apply negb_false_iff in L. unfold wf_obj in W. cbn [wf_objb] in W. rewrite L in W.
    apply andb_true_iff in W. destruct W as [KD _]. cbn [entry_of]. apply populate_dict; assumption.
Qed.

(* ================================================================== 6. build = the inverse of flatten *)
(* nesting depth of flattened containers (fuel measure) *)
Fixpoint hgt (o : obj) : nat :=
  match o with
  | Leaf _ => O
  | OList xs => S (fold_right (fun x a => Nat.max (hgt x) a) O xs)
  | ODict _ kvs => if should_flatten (map fst kvs)
                   then S (fold_right (fun kv a => Nat.max (hgt (snd kv)) a) O kvs) else O
  end.

Lemma fold_max_ge : forall {A} (f : A -> nat) l x, In x l -> (f x <= fold_right (fun y a => Nat.max (f y) a) O l)%nat.
Proof.
  intros A f l x. induction l as [|y l IH]; cbn [In fold_right]; intro H; [destruct H|].
  destruct H as [E|H]; [subst; lia | specialize (IH H); lia].
Qed.

Lemma hgt_kids : forall o t c, is_leaflike o = false -> In (t, c) (kids o) -> (hgt c < hgt o)%nat.
Proof.
  intros o t c L Hin. destruct o as [l|xs|ord kvs]; cbn [is_leaflike] in L.
  - discriminate.
  - cbn [kids] in Hin. apply in_combine_snd in Hin. cbn [hgt].
    pose proof (fold_max_ge hgt xs c Hin). lia.
  - apply negb_false_iff in L. cbn [hgt]. rewrite L. cbn [kids] in Hin. apply in_map_iff in Hin.
    destruct Hin as [kv [E Hin]]. inversion E; subst.
    pose proof (fold_max_ge (fun kv => hgt (snd kv)) kvs kv Hin). cbn beta in H. lia.
Qed.

Definition has_prefix (P q : path) : Prop := exists r, q = P ++ r.

(* the manifest / leaf map handed to inflate agrees with flatten's output on every path below P;
   anything else (other prefixes, order) is arbitrary *)
Definition agree_m (m : manifest) (o : obj) (P : path) : Prop :=
  forall q e, has_prefix P q -> (In (q, e) m <-> In (q, e) (fst (flatten o P))).
Definition agree_l (lm : leafmap) (o : obj) (P : path) : Prop :=
  forall q x, has_prefix P q -> (In (q, x) lm <-> In (q, x) (snd (flatten o P))).

Lemma kid_unique : forall o t c c', is_leaflike o = false -> In (t, c) (kids o) -> In (t, c') (kids o) -> c = c'.
Proof. intros o t c c' L H1 H2. exact (fst_unique (kids o) t c c' (kids_tokens_nodup o L) H1 H2). Qed.

Lemma has_prefix_kid : forall P t q, has_prefix (P ++ [t]) q -> has_prefix P q.
Proof. intros P t q [r E]. exists (t :: r). rewrite E, <- app_assoc. reflexivity. Qed.

Lemma agree_m_kid : forall m o P t c, is_leaflike o = false -> In (t, c) (kids o) ->
  agree_m m o P -> agree_m m c (P ++ [t]).
Proof.
  intros m o P t c L Hk A q e Hp. rewrite (A q e (has_prefix_kid P t q Hp)).
  rewrite (in_flatten_m_container o P q e L). split.
  - intros [[E _]|[t' [c' [Hk' Hin]]]].
    + destruct Hp as [r Er]. rewrite E, <- app_assoc in Er. exfalso. exact (app_cons_neq P t r (eq_sym Er)).
    + destruct (flatten_prefix c' (P ++ [t'])) as [Hm _]. destruct (Hm q e Hin) as [r' E']. destruct Hp as [r E].
      rewrite E', <- !app_assoc in E. cbn [app] in E. apply app_cons_inv in E. destruct E as [E _]. subst t'.
      rewrite (kid_unique o t c c' L Hk Hk'). exact Hin.
  - intro Hin. right. exists t, c. auto.
Qed.

Lemma agree_l_kid : forall lm o P t c, is_leaflike o = false -> In (t, c) (kids o) ->
  agree_l lm o P -> agree_l lm c (P ++ [t]).
Proof.
  intros lm o P t c L Hk A q x Hp. rewrite (A q x (has_prefix_kid P t q Hp)).
  rewrite (in_flatten_l_container o P q x L). split.
  - intros [t' [c' [Hk' Hin]]].
    destruct (flatten_prefix c' (P ++ [t'])) as [_ Hl]. destruct (Hl q x Hin) as [r' E']. destruct Hp as [r E].
    rewrite E', <- !app_assoc in E. cbn [app] in E. apply app_cons_inv in E. destruct E as [E _]. subst t'.
    rewrite (kid_unique o t c c' L Hk Hk'). exact Hin.
  - intro Hin. exists t, c. auto.
Qed.

Lemma has_prefix_self : forall P, has_prefix P P.
Proof. intro P. exists []. rewrite app_nil_r. reflexivity. Qed.
Lemma has_prefix_snoc : forall P t, has_prefix P (P ++ [t]).
Proof. intros P t. exists [t]. reflexivity. Qed.

Lemma child_m_inv : forall m o P t e, is_leaflike o = false -> agree_m m o P -> In (t, e) (children m P) ->
  exists c, In (t, c) (kids o) /\ is_leaflike c = false /\ e = entry_of c.
Proof.
  intros m o P t e L A Hin. apply in_children in Hin. apply (A _ _ (has_prefix_snoc P t)) in Hin.
  apply (in_flatten_m_container o P _ e L) in Hin. destruct Hin as [[E _]|[t' [c [Hk Hin]]]].
  - exfalso. exact (app_cons_neq P t [] E).
  - destruct (flatten_prefix c (P ++ [t'])) as [Hm _]. destruct (Hm _ e Hin) as [r E].
    rewrite <- app_assoc in E. cbn [app] in E. apply app_cons_inv in E. destruct E as [E1 E2]. subst t' r.
    apply root_entry in Hin. exists c. tauto.
Qed.

Lemma child_m_intro : forall m o P t c, is_leaflike o = false -> agree_m m o P -> In (t, c) (kids o) ->
  is_leaflike c = false -> In (t, entry_of c) (children m P).
Proof.
  intros m o P t c L A Hk Lc. apply in_children. apply (A _ _ (has_prefix_snoc P t)).
  apply (in_flatten_m_container o P _ _ L). right. exists t, c. split; [exact Hk | apply root_entry_in; exact Lc].
Qed.

Lemma child_l_inv : forall lm o P t x, is_leaflike o = false -> agree_l lm o P -> In (t, x) (children lm P) ->
  In (t, x) (kids o) /\ is_leaflike x = true.
Proof.
  intros lm o P t x L A Hin. apply in_children in Hin. apply (A _ _ (has_prefix_snoc P t)) in Hin.
  apply (in_flatten_l_container o P _ x L) in Hin. destruct Hin as [t' [c [Hk Hin]]].
  destruct (flatten_prefix c (P ++ [t'])) as [_ Hl]. destruct (Hl _ x Hin) as [r E].
  rewrite <- app_assoc in E. cbn [app] in E. apply app_cons_inv in E. destruct E as [E1 E2]. subst t' r.
  apply root_leaf in Hin. destruct Hin as [Lc E]. subst x. auto.
Qed.

Lemma child_l_intro : forall lm o P t c, is_leaflike o = false -> agree_l lm o P -> In (t, c) (kids o) ->
  is_leaflike c = true -> In (t, c) (children lm P).
Proof.
  intros lm o P t c L A Hk Lc. apply in_children. apply (A _ _ (has_prefix_snoc P t)).
  apply (in_flatten_l_container o P _ _ L). exists t, c. split; [exact Hk | apply root_leaf_in; exact Lc].
Qed.

Lemma hgt_pos : forall o, is_leaflike o = false -> (1 <= hgt o)%nat.
Proof.
  intros o L. destruct o as [l|xs|ord kvs]; cbn [is_leaflike] in L; [discriminate | cbn [hgt]; lia |].
  apply negb_false_iff in L. cbn [hgt]. rewrite L. lia.
Qed.

Lemma init_container_empty : forall o, is_leaflike o = false -> kids o = [] -> init_container (entry_of o) = o.
Proof.
  intros o L K. destruct o as [l|xs|ord kvs]; cbn [is_leaflike] in L.
  - discriminate.
  - cbn [kids] in K. destruct xs as [|x xs]; [reflexivity|]. cbn in K. discriminate.
  - cbn [kids] in K. destruct kvs as [|kv kvs]; [reflexivity | discriminate].
Qed.

Theorem build_correct : forall o, wf_obj o -> is_leaflike o = false ->
  forall P m lm fuel, NoDup (map fst m) -> NoDup (map fst lm) -> agree_m m o P -> agree_l lm o P ->
  (hgt o <= fuel)%nat -> build fuel m lm P (entry_of o) = Some o.
Proof.
  induction o using obj_kids_ind. intros W L P m lm fuel Nm Nl Am Al Hf.
  pose proof (hgt_pos o L) as Hp. destruct fuel as [|f]; [lia|]. cbn [build].
  pose proof (kids_tokens_nodup o L) as NK.
  set (g := fun te : token * entry =>
              (fst te, match assoc_str (fst te) (kids o) with Some c => c | None => Leaf 0 end)).
  assert (G : forall t e c, In (t, c) (kids o) -> g (t, e) = (t, c)).
  { intros t e c Hk. unfold g. cbn [fst]. rewrite (assoc_str_in (kids o) t c NK Hk). reflexivity. }
  assert (M : mapM (fun te => option_map (fun o0 => (fst te, o0)) (build f m lm (P ++ [fst te]) (snd te)))
                   (children m P) = Some (map g (children m P))).
  { apply mapM_map. intros [t e] Hin. cbn [fst snd].
    destruct (child_m_inv m o P t e L Am Hin) as [c [Hk [Lc Ee]]]. subst e.
    rewrite (H t c Hk (wf_kids o W L t c Hk) Lc (P ++ [t]) m lm f Nm Nl
               (agree_m_kid m o P t c L Hk Am) (agree_l_kid lm o P t c L Hk Al)).
    - cbn [option_map]. rewrite (G t _ c Hk). reflexivity.
    - pose proof (hgt_kids o t c L Hk). lia. }
  rewrite M.
  assert (PERM : Permutation (map g (children m P) ++ children lm P) (kids o)); [|
    destruct (map g (children m P) ++ children lm P) as [|v0 vals] eqn:EV;
    [ apply Permutation_nil in PERM; rewrite (init_container_empty o L PERM); reflexivity
    | apply populate_kids; [exact W | exact L | exact PERM] ] ].
  assert (C1 : forall t c, In (t, c) (map g (children m P)) -> In (t, c) (kids o) /\ is_leaflike c = false).
  { intros t c Hin. apply in_map_iff in Hin. destruct Hin as [[t' e] [E Hin]].
    destruct (child_m_inv m o P t' e L Am Hin) as [c' [Hk [Lc _]]]. rewrite (G t' e c' Hk) in E.
    inversion E; subst. auto. }
  assert (C2 : forall t c, In (t, c) (kids o) -> is_leaflike c = false -> In (t, c) (map g (children m P))).
  { intros t c Hk Lc. apply in_map_iff. exists (t, entry_of c). split; [exact (G t _ c Hk)|].
    exact (child_m_intro m o P t c L Am Hk Lc). }
  apply NoDup_Permutation.
  - apply NoDup_fst_pair. rewrite map_app, map_map.
    replace (map (fun x => fst (g x)) (children m P)) with (map fst (children m P)) by reflexivity.
    apply NoDup_app_intro; [exact (children_nodup m P Nm) | exact (children_nodup lm P Nl) |].
    intros t H1 H2. apply in_map_iff in H1. destruct H1 as [[t1 e] [E1 H1]]. cbn [fst] in E1. subst t1.
    apply in_map_iff in H2. destruct H2 as [[t2 x] [E2 H2]]. cbn [fst] in E2. subst t2.
    destruct (child_m_inv m o P t e L Am H1) as [c [Hk [Lc _]]].
    destruct (child_l_inv lm o P t x L Al H2) as [Hk' Lx].
    rewrite (kid_unique o t c x L Hk Hk') in Lc. congruence.
  - apply NoDup_fst_pair. exact NK.
  - intros [t c]. split.
    + intro Hin. apply in_app_or in Hin. destruct Hin as [Hin|Hin].
      * exact (proj1 (C1 t c Hin)).
      * exact (proj1 (child_l_inv lm o P t c L Al Hin)).
    + intro Hk. apply in_or_app. destruct (is_leaflike c) eqn:Lc.
      * right. exact (child_l_intro lm o P t c L Al Hk Lc).
      * left. exact (C2 t c Hk Lc).
Qed.

(* ================================================================== 7. inflate (top level) *)
Lemma hgt_le_manifest : forall o P, (hgt o <= length (fst (flatten o P)))%nat.
Proof.
  induction o using obj_ind'; intro P.
  - cbn. lia.
  - rewrite (flatten_container (OList xs) P eq_refl). cbn [hgt kids fst flat_kids length]. apply le_n_S.
    pose proof (list_tokens_length (length xs)) as LT. revert LT.
    generalize (list_tokens (length xs)) as ts. induction H as [|x xs Hx Hxs IH]; intros ts LT; [cbn; lia|].
    destruct ts as [|t ts]; [cbn [length] in LT; lia|]. cbn [combine flat_map fold_right fst snd].
    rewrite app_length. cbn [length] in LT. specialize (IH ts ltac:(lia)). specialize (Hx (P ++ [t])). lia.
  - cbn [hgt]. destruct (should_flatten (map fst kvs)) eqn:SF; [|lia].
    assert (L : is_leaflike (ODict ord kvs) = false) by (cbn [is_leaflike]; rewrite SF; reflexivity).
    rewrite (flatten_container (ODict ord kvs) P L). cbn [kids fst flat_kids length]. apply le_n_S.
    clear SF L. induction H as [|kv kvs Hx Hxs IH]; [cbn; lia|].
    cbn [map flat_map fold_right fst snd]. rewrite app_length. specialize (Hx (P ++ [key_token (fst kv)])). lia.
Qed.

Lemma head_is_prefix : forall p q, head_is p q = true <-> has_prefix [p] q.
Proof.
  intros p q. unfold head_is, has_prefix. destruct q as [|t r]; split.
  - discriminate.
  - intros [r E]. discriminate.
  - intro H. apply str_eqb_eq in H. subst. exists r. reflexivity.
  - intros [r' E]. inversion E. apply str_eqb_refl.
Qed.

Lemma NoDup_map_filter : forall {A B} (f : A -> B) (g : A -> bool) l, NoDup (map f l) -> NoDup (map f (filter g l)).
Proof.
  intros A B f g l. induction l as [|x l IH]; cbn [map filter]; intro N; [constructor|].
  inversion N as [|? ? Hx N']; subst. destruct (g x); [|exact (IH N')]. cbn [map]. constructor; [|exact (IH N')].
  intro K. apply Hx. apply in_map_iff in K. destruct K as [y [E Hy]]. apply filter_In in Hy.
  apply in_map_iff. exists y. tauto.
Qed.

Lemma parent_in_manifest : forall o P q, In q (all_paths o P) ->
  q = P \/ exists e, In (removelast q, e) (fst (flatten o P)).
Proof.
  induction o using obj_kids_ind. intros P q Hin. destruct (is_leaflike o) eqn:L.
  - unfold all_paths in Hin. rewrite (flatten_leaflike o P L) in Hin. cbn in Hin. left. destruct Hin as [E|[]]. auto.
  - apply (Permutation_in _ (all_paths_container o P L)) in Hin. destruct Hin as [E|Hin]; [left; auto|].
    right. apply in_flat_map in Hin. destruct Hin as [[t c] [Hk Hin]]. cbn [fst snd] in Hin.
    destruct (H t c Hk (P ++ [t]) q Hin) as [E|[e He]].
    + subst q. rewrite removelast_last. exists (entry_of o). apply root_entry_in. exact L.
    + exists e. apply (in_flatten_m_container o P _ e L). right. exists t, c. auto.
Qed.

Lemma in_mpaths : forall o P q e, In (q, e) (fst (flatten o P)) -> In q (all_paths o P).
Proof. intros o P q e H. unfold all_paths. apply in_or_app. left. apply (in_map fst) in H. exact H. Qed.
Lemma in_lpaths : forall o P q x, In (q, x) (snd (flatten o P)) -> In q (all_paths o P).
Proof. intros o P q x H. unfold all_paths. apply in_or_app. right. apply (in_map fst) in H. exact H. Qed.

(* Main theorem.  [m] and [lm] are Python dicts (distinct keys) that agree with the output of flatten on every
   path whose first component is the encoded prefix: any order, any additional entries under other prefixes. *)
Theorem inflate_correct : forall o prefix m lm, wf_obj o ->
  NoDup (map fst m) -> NoDup (map fst lm) ->
  agree_m m o [encode prefix] -> agree_l lm o [encode prefix] ->
  inflate m lm prefix = Some o.
Proof.
  intros o prefix m lm W Nm Nl Am Al. unfold inflate.
  set (p := encode prefix) in *.
  set (m' := filter (fun e : path * entry => head_is p (fst e)) m).
  set (lm' := filter (fun e : path * obj => head_is p (fst e)) lm).
  assert (Nm' : NoDup (map fst m')) by (apply NoDup_map_filter; exact Nm).
  assert (Nl' : NoDup (map fst lm')) by (apply NoDup_map_filter; exact Nl).
  assert (Am' : agree_m m' o [p]).
  { intros q e Hp. rewrite <- (Am q e Hp). unfold m'. rewrite filter_In. cbn [fst].
    apply head_is_prefix in Hp. tauto. }
  assert (Al' : agree_l lm' o [p]).
  { intros q x Hp. rewrite <- (Al q x Hp). unfold lm'. rewrite filter_In. cbn [fst].
    apply head_is_prefix in Hp. tauto. }
  destruct (is_leaflike o) eqn:L.
  - rewrite (assoc_path_in lm' [p] o Nl'); [reflexivity|].
    apply (Al' _ _ (has_prefix_self [p])). apply root_leaf_in. exact L.
  - rewrite assoc_path_none.
    2:{ intro K. apply in_map_iff in K. destruct K as [[q x] [E K]]. cbn [fst] in E. subst q.
        apply (Al' _ _ (has_prefix_self [p])) in K. apply root_leaf in K. destruct K. congruence. }
    rewrite (assoc_path_in m' [p] (entry_of o) Nm').
    2:{ apply (Am' _ _ (has_prefix_self [p])). apply root_entry_in. exact L. }
    assert (PO : parents_ok m' lm' [p] = true).
    { unfold parents_ok. apply forallb_forall. intros q Hq.
      assert (Hall : In q (all_paths o [p])).
      { apply in_app_or in Hq. destruct Hq as [Hq|Hq]; apply in_map_iff in Hq; destruct Hq as [[q' v] [E Hq]];
          cbn [fst] in E; subst q'.
        - assert (Hp : has_prefix [p] q) by (apply head_is_prefix; unfold m' in Hq; apply filter_In in Hq; tauto).
          apply (Am' q v Hp) in Hq. exact (in_mpaths o [p] q v Hq).
        - assert (Hp : has_prefix [p] q) by (apply head_is_prefix; unfold lm' in Hq; apply filter_In in Hq; tauto).
          apply (Al' q v Hp) in Hq. exact (in_lpaths o [p] q v Hq). }
      destruct (parent_in_manifest o [p] q Hall) as [E|[e He]].
      - subst q. rewrite path_eqb_refl. reflexivity.
      - apply orb_true_iff. right. unfold path_memb. apply existsb_exists. exists (removelast q).
        split; [|apply path_eqb_refl]. destruct (flatten_prefix o [p]) as [Hm _].
        apply (Am' _ _ (Hm _ _ He)) in He. apply (in_map fst) in He. exact He. }
    rewrite PO. apply build_correct; try assumption.
    pose proof (hgt_le_manifest o [p]) as H1.
    assert (H2 : (length (fst (flatten o [p])) <= length m')%nat).
    { apply NoDup_incl_length.
      - apply NoDup_fst_pair. apply mpaths_nodup.
      - intros [q e] Hin. destruct (flatten_prefix o [p]) as [Hm _]. exact (proj2 (Am' q e (Hm q e Hin)) Hin). }
    lia.
Qed.

Lemma perm_agree_m : forall m o P, Permutation m (fst (flatten o P)) -> NoDup (map fst m) /\ agree_m m o P.
Proof.
  intros m o P Hp. split.
  - apply (Permutation_NoDup (l := map fst (fst (flatten o P)))); [|apply mpaths_nodup].
    apply Permutation_map. apply Permutation_sym. exact Hp.
  - intros q e _. split; intro H; [exact (Permutation_in _ Hp H) | exact (Permutation_in _ (Permutation_sym Hp) H)].
Qed.

Lemma perm_agree_l : forall lm o P, Permutation lm (snd (flatten o P)) -> NoDup (map fst lm) /\ agree_l lm o P.
Proof.
  intros lm o P Hp. split.
  - apply (Permutation_NoDup (l := map fst (snd (flatten o P)))); [|apply lpaths_nodup].
    apply Permutation_map. apply Permutation_sym. exact Hp.
  - intros q e _. split; intro H; [exact (Permutation_in _ Hp H) | exact (Permutation_in _ (Permutation_sym Hp) H)].
Qed.

Theorem inflate_flatten_perm : forall o prefix m lm, wf_obj o ->
  Permutation m (fst (flatten_top o prefix)) -> Permutation lm (snd (flatten_top o prefix)) ->
  inflate m lm prefix = Some o.
Proof.
  intros o prefix m lm W Hm Hl. unfold flatten_top in *.
  destruct (perm_agree_m m o _ Hm) as [Nm Am]. destruct (perm_agree_l lm o _ Hl) as [Nl Al].
  apply inflate_correct; assumption.
Qed.

Theorem inflate_flatten : forall o prefix, wf_obj o ->
  inflate (fst (flatten_top o prefix)) (snd (flatten_top o prefix)) prefix = Some o.
Proof. intros o prefix W. apply inflate_flatten_perm; [exact W | apply Permutation_refl | apply Permutation_refl]. Qed.

(* a dict that _should_flatten_dict rejects is stored whole and comes back as the identical leaf *)
Theorem opaque_dict_whole : forall ord kvs prefix, should_flatten (map fst kvs) = false ->
  flatten_top (ODict ord kvs) prefix = ([], [([encode prefix], ODict ord kvs)]) /\
  inflate [] [([encode prefix], ODict ord kvs)] prefix = Some (ODict ord kvs).
Proof.
  intros ord kvs prefix SF.
  assert (L : is_leaflike (ODict ord kvs) = true) by (cbn [is_leaflike]; rewrite SF; reflexivity).
  assert (E : flatten_top (ODict ord kvs) prefix = ([], [([encode prefix], ODict ord kvs)]))
    by (unfold flatten_top; apply flatten_leaflike; exact L).
  split; [exact E|].
  assert (W : wf_obj (ODict ord kvs)) by (unfold wf_obj; cbn [wf_objb]; rewrite SF; reflexivity).
  pose proof (inflate_flatten (ODict ord kvs) prefix W) as I. rewrite E in I. exact I.
Qed.

(* ================================================================== 8. the string level ("/".join / split("/")) *)
Lemma kids_token_slash_free : forall o t c, In (t, c) (kids o) -> slash_free t.
Proof.
  intros o t c Hin. destruct o as [l|xs|ord kvs]; cbn [kids] in Hin.
  - destruct Hin.
  - apply in_combine_l in Hin. unfold list_tokens in Hin. apply in_map_iff in Hin. destruct Hin as [i [E _]].
    subst t. apply str_of_Z_slash_free.
  - apply in_map_iff in Hin. destruct Hin as [kv [E _]]. inversion E. apply encode_slash_free.
Qed.

Lemma all_paths_slash_free : forall o P q, Forall slash_free P -> In q (all_paths o P) -> Forall slash_free q.
Proof.
  induction o using obj_kids_ind. intros P q FP Hin. destruct (is_leaflike o) eqn:L.
  - unfold all_paths in Hin. rewrite (flatten_leaflike o P L) in Hin. cbn in Hin. destruct Hin as [E|[]]. subst. exact FP.
  - apply (Permutation_in _ (all_paths_container o P L)) in Hin. destruct Hin as [E|Hin]; [subst; exact FP|].
    apply in_flat_map in Hin. destruct Hin as [[t c] [Hk Hin]]. cbn [fst snd] in Hin.
    apply (H t c Hk (P ++ [t]) q); [|exact Hin]. apply Forall_app. split; [exact FP|].
    constructor; [exact (kids_token_slash_free o t c Hk) | constructor].
Qed.

Lemma split_join_path : forall o prefix q, In q (all_paths o [encode prefix]) -> split (join q) = q.
Proof.
  intros o prefix q Hin. apply split_join.
  - apply all_paths_prefix in Hin. destruct Hin as [r E]. subst q. discriminate.
  - apply (all_paths_slash_free o [encode prefix] q); [|exact Hin]. constructor; [apply encode_slash_free | constructor].
Qed.

Lemma map_id_on : forall {A} (f : A -> A) l, (forall x, In x l -> f x = x) -> map f l = l.
Proof.
  intros A f l. induction l as [|x l IH]; intro H; [reflexivity|]. cbn [map].
  rewrite (H x (or_introl eq_refl)), IH; [reflexivity|]. intros y Hy. apply H. right. exact Hy.
Qed.

Lemma split_flatten_s_m : forall o prefix,
  map (fun e : pystr * entry => (split (fst e), snd e)) (fst (flatten_s o prefix)) = fst (flatten_top o prefix).
Proof.
  intros o prefix. unfold flatten_s. cbn [fst]. rewrite map_map. cbn [fst snd]. apply map_id_on.
  intros [q e] Hin. cbn [fst snd]. unfold flatten_top in Hin. rewrite (split_join_path o prefix q); [reflexivity|].
  exact (in_mpaths _ _ q e Hin).
Qed.

Lemma split_flatten_s_l : forall o prefix,
  map (fun e : pystr * obj => (split (fst e), snd e)) (snd (flatten_s o prefix)) = snd (flatten_top o prefix).
Proof.
  intros o prefix. unfold flatten_s. cbn [snd]. rewrite map_map. cbn [fst snd]. apply map_id_on.
  intros [q e] Hin. cbn [fst snd]. unfold flatten_top in Hin. rewrite (split_join_path o prefix q); [reflexivity|].
  exact (in_lpaths _ _ q e Hin).
Qed.

(* what the code really does: string paths, any order of the two dicts *)
Theorem inflate_s_flatten_s_perm : forall o prefix ms ls, wf_obj o ->
  Permutation ms (fst (flatten_s o prefix)) -> Permutation ls (snd (flatten_s o prefix)) ->
  inflate_s ms ls prefix = Some o.
Proof.
  intros o prefix ms ls W Hm Hl. unfold inflate_s. apply inflate_flatten_perm; [exact W | |].
  - rewrite <- split_flatten_s_m. apply Permutation_map. exact Hm.
  - rewrite <- split_flatten_s_l. apply Permutation_map. exact Hl.
Qed.

(* distinct token paths stay distinct as "/"-joined strings *)
Lemma join_inj_on_paths : forall o prefix q1 q2,
  In q1 (all_paths o [encode prefix]) -> In q2 (all_paths o [encode prefix]) -> join q1 = join q2 -> q1 = q2.
Proof.
  intros o prefix q1 q2 H1 H2 E. rewrite <- (split_join_path o prefix q1 H1), <- (split_join_path o prefix q2 H2), E.
  reflexivity.
Qed.

Lemma NoDup_map_inj_on : forall {A B} (f : A -> B) l,
  (forall a b, In a l -> In b l -> f a = f b -> a = b) -> NoDup l -> NoDup (map f l).
Proof.
  intros A B f l Hf N. induction N as [|x l Hx N IH]; cbn [map]; constructor.
  - intro K. apply in_map_iff in K. destruct K as [y [E Hy]].
    apply Hf in E; [subst; contradiction | right; exact Hy | left; reflexivity].
  - apply IH. intros a b Ha Hb. apply Hf; right; assumption.
Qed.

Theorem flatten_s_paths_nodup : forall o prefix,
  NoDup (map fst (fst (flatten_s o prefix)) ++ map fst (snd (flatten_s o prefix))).
Proof.
  intros o prefix. unfold flatten_s. cbn [fst snd]. rewrite !map_map. cbn [fst].
  rewrite <- (map_map fst join), <- (map_map fst join), <- map_app.
  apply NoDup_map_inj_on; [|exact (all_paths_nodup o [encode prefix])].
  intros a b Ha Hb. exact (join_inj_on_paths o prefix a b Ha Hb).
Qed.
