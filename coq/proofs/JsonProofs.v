(* C14 layers 2, 4, 5: the JSON text layer.
     part 1  string escaping: scan_string inverts escape_body (needs no_adj_hi_lo), and the counterexample
     part 2  parse (print v) = Some v
     part 3  every strict prefix of a printed object is rejected by the parser, whatever the fuel *)
From TS Require Import model.Base model.Codec model.Json proofs.CodecProofs.
From Coq Require Import ZifyBool.
Ltac Zify.zify_post_hook ::= Z.to_euclidean_division_equations.

(* ================================================================== part 1: strings *)
Lemma hexv_hexd : forall k, 0 <= k < 16 -> hexv (hexd k) = Some k.
Proof. intros k Hk. unfold hexd. bd; unfold hexv; bd; try (f_equal; lia); lia. Qed.

Lemma hex4_esc : forall n, 0 <= n < 65536 ->
  hex4 (hexd (n / 4096)) (hexd ((n / 256) mod 16)) (hexd ((n / 16) mod 16)) (hexd (n mod 16)) = Some n.
Proof.
  intros n Hn. unfold hex4. rewrite !hexv_hexd by lia. f_equal. lia.
Qed.

(* is the text a \uXXXX escape that the scanner would try to join to a preceding high surrogate
   (a low surrogate, or broken hex digits which make the scanner fail)? *)
Definition lo_esc_head (t : list Z) : bool :=
  match t with
  | b :: u :: t' =>
      (b =? 92) && (u =? 117) &&
      match t' with
      | g1 :: g2 :: g3 :: g4 :: _ => match hex4 g1 g2 g3 g4 with None => true | Some u2 => is_lo u2 end
      | _ => false
      end
  | _ => false
  end.

Lemma scan_string_nil : scan_string [] = None.
Proof. reflexivity. Qed.

Lemma scan_quote : forall t, scan_string (34 :: t) = Some ([], t).
Proof. reflexivity. Qed.

Lemma scan_raw : forall c t, (c =? 34) = false -> (c =? 92) = false -> (c <? 32) = false ->
  scan_string (c :: t) = cons_opt c (scan_string t).
Proof. intros c t H1 H2 H3. cbn [scan_string]. rewrite H1, H2, H3. reflexivity. Qed.

Lemma scan_simple : forall e x t, (e =? 117) = false -> simple_escape e = Some x ->
  scan_string (92 :: e :: t) = cons_opt x (scan_string t).
Proof.
  intros e x t H1 H2. cbn [scan_string].
  change (92 =? 34) with false. change (92 =? 92) with true. cbv iota. rewrite H1, H2. reflexivity.
Qed.

Lemma scan_u_plain : forall h1 h2 h3 h4 u t, hex4 h1 h2 h3 h4 = Some u -> is_hi u = false ->
  scan_string (92 :: 117 :: h1 :: h2 :: h3 :: h4 :: t) = cons_opt u (scan_string t).
Proof.
  intros h1 h2 h3 h4 u t H1 H2. cbn [scan_string].
  change (92 =? 34) with false. change (92 =? 92) with true. change (117 =? 117) with true. cbv iota.
  rewrite H1, H2. reflexivity.
Qed.

Lemma scan_u_hi_lone : forall h1 h2 h3 h4 u t, hex4 h1 h2 h3 h4 = Some u -> is_hi u = true ->
  lo_esc_head t = false ->
  scan_string (92 :: 117 :: h1 :: h2 :: h3 :: h4 :: t) = cons_opt u (scan_string t).
Proof.
  intros h1 h2 h3 h4 u t H1 H2 H3. cbn [scan_string].
  change (92 =? 34) with false. change (92 =? 92) with true. change (117 =? 117) with true. cbv iota.
  rewrite H1, H2.
  destruct t as [|b [|u' [|g1 [|g2 [|g3 [|g4 s4]]]]]]; try reflexivity.
  unfold lo_esc_head in H3.
  destruct ((b =? 92) && (u' =? 117)) eqn:E; [|reflexivity].
  cbn [andb] in H3. destruct (hex4 g1 g2 g3 g4) as [u2|]; [|discriminate]. rewrite H3. reflexivity.
Qed.

Lemma scan_u_pair : forall h1 h2 h3 h4 g1 g2 g3 g4 u u2 t,
  hex4 h1 h2 h3 h4 = Some u -> is_hi u = true -> hex4 g1 g2 g3 g4 = Some u2 -> is_lo u2 = true ->
  scan_string (92 :: 117 :: h1 :: h2 :: h3 :: h4 :: 92 :: 117 :: g1 :: g2 :: g3 :: g4 :: t)
  = cons_opt (join_surr u u2) (scan_string t).
Proof.
  intros h1 h2 h3 h4 g1 g2 g3 g4 u u2 t H1 H2 H3 H4. cbn [scan_string].
  change (92 =? 34) with false. change (92 =? 92) with true. change (117 =? 117) with true. cbv iota.
  rewrite H1, H2. cbn [andb]. cbv iota. rewrite H3, H4. reflexivity.
Qed.

(* the classes of esc_char *)
Inductive esc_class (c : Z) : list Z -> Prop :=
| EC_simple : forall e, (e =? 117) = false -> simple_escape e = Some c -> esc_class c [92; e]
| EC_raw : (c =? 34) = false -> (c =? 92) = false -> (c <? 32) = false -> esc_class c [c]
| EC_u : 0 <= c < 65536 ->
         esc_class c [92; 117; hexd (c / 4096); hexd ((c / 256) mod 16); hexd ((c / 16) mod 16); hexd (c mod 16)]
| EC_pair : forall hi lo, 65536 <= c -> is_hi hi = true -> is_lo lo = true -> join_surr hi lo = c ->
         esc_class c (esc_u hi ++ esc_u lo).

Lemma esc_char_class : forall c, cp_ok c = true -> esc_class c (esc_char c).
Proof.
  intros c Hc. unfold cp_ok in Hc. unfold esc_char.
  destruct (c =? 34) eqn:E1. { assert (c = 34) by lia; subst. apply (EC_simple 34 34); reflexivity. }
  destruct (c =? 92) eqn:E2. { assert (c = 92) by lia; subst. apply (EC_simple 92 92); reflexivity. }
  destruct (c =? 10) eqn:E3. { assert (c = 10) by lia; subst. apply (EC_simple 10 110); reflexivity. }
  destruct (c =? 13) eqn:E4. { assert (c = 13) by lia; subst. apply (EC_simple 13 114); reflexivity. }
  destruct (c =? 9) eqn:E5. { assert (c = 9) by lia; subst. apply (EC_simple 9 116); reflexivity. }
  destruct (c =? 8) eqn:E6. { assert (c = 8) by lia; subst. apply (EC_simple 8 98); reflexivity. }
  destruct (c =? 12) eqn:E7. { assert (c = 12) by lia; subst. apply (EC_simple 12 102); reflexivity. }
  destruct ((32 <=? c) && (c <=? 126)) eqn:E8. { apply EC_raw; lia. }
  destruct (c <? 65536) eqn:E9. { unfold esc_u. apply EC_u. lia. }
  apply EC_pair; unfold is_hi, is_lo, join_surr; lia.
Qed.

Lemma esc_u_cons : forall n t,
  esc_u n ++ t = 92 :: 117 :: hexd (n / 4096) :: hexd ((n / 256) mod 16) :: hexd ((n / 16) mod 16) :: hexd (n mod 16) :: t.
Proof. reflexivity. Qed.

Lemma hi_range : forall u, is_hi u = true -> 0 <= u < 65536.
Proof. unfold is_hi. intros; lia. Qed.
Lemma lo_range : forall u, is_lo u = true -> 0 <= u < 65536.
Proof. unfold is_lo. intros; lia. Qed.
Lemma hi_not_lo : forall u, is_hi u = true -> is_lo u = false.
Proof. unfold is_hi, is_lo. intros; lia. Qed.

(* one escaped character is read back as that character, provided a high surrogate is not followed by
   the escape of a low surrogate *)
Lemma scan_esc_char : forall c t, cp_ok c = true -> (is_hi c = true -> lo_esc_head t = false) ->
  scan_string (esc_char c ++ t) = cons_opt c (scan_string t).
Proof.
  intros c t Hc Hhi. destruct (esc_char_class c Hc) as [e He1 He2 | H1 H2 H3 | Hr | hi lo Hge Hh Hl Hj].
  - cbn [app]. apply scan_simple; assumption.
  - cbn [app]. apply scan_raw; assumption.
  - cbn [app]. destruct (is_hi c) eqn:E.
    + apply scan_u_hi_lone; auto using hex4_esc.
    + apply scan_u_plain; auto using hex4_esc.
  - rewrite <- app_assoc. rewrite (esc_u_cons lo t). rewrite esc_u_cons.
    rewrite (scan_u_pair _ _ _ _ _ _ _ _ hi lo); auto using hex4_esc, hi_range, lo_range.
    rewrite Hj. reflexivity.
Qed.

(* what follows a character in an escaped body never looks like a low-surrogate escape unless the next
   character is a low surrogate *)
Lemma lo_esc_head_quote : forall t, lo_esc_head (34 :: t) = false.
Proof. intros t. destruct t; reflexivity. Qed.

Lemma lo_esc_head_esc_char : forall d t, cp_ok d = true -> is_lo d = false -> lo_esc_head (esc_char d ++ t) = false.
Proof.
  intros d t Hd Hlo. destruct (esc_char_class d Hd) as [e He1 He2 | H1 H2 H3 | Hr | hi lo Hge Hh Hl Hj].
  - cbn [app lo_esc_head]. rewrite He1. rewrite andb_false_r. reflexivity.
  - cbn [app]. destruct t as [|u t']; [reflexivity|]. cbn [lo_esc_head]. rewrite H2. reflexivity.
  - cbn [app lo_esc_head]. rewrite hex4_esc by assumption. rewrite Hlo. reflexivity.
  - rewrite <- app_assoc, esc_u_cons. cbn [lo_esc_head]. rewrite hex4_esc by (apply hi_range; assumption).
    rewrite (hi_not_lo _ Hh). reflexivity.
Qed.

Lemma str_ok_cons : forall c s, str_ok (c :: s) = true ->
  cp_ok c = true /\ str_ok s = true /\
  match s with d :: _ => is_hi c = true -> is_lo d = false | [] => True end.
Proof.
  intros c s H. unfold str_ok in *. cbn [forallb no_adj_hi_lo] in H.
  apply andb_true_iff in H. destruct H as [H1 H2].
  apply andb_true_iff in H1. destruct H1 as [Hc Hs].
  apply andb_true_iff in H2. destruct H2 as [Hadj Hrest].
  split; [exact Hc|]. split; [rewrite Hs, Hrest; reflexivity|].
  destruct s as [|d s']; [exact I|]. intros Hh. rewrite Hh in Hadj. cbn [andb] in Hadj.
  destruct (is_lo d); [discriminate | reflexivity].
Qed.

Lemma escape_body_lookahead : forall c s rest, str_ok (c :: s) = true -> is_hi c = true ->
  lo_esc_head (escape_body s ++ 34 :: rest) = false.
Proof.
  intros c s rest H Hh. destruct (str_ok_cons c s H) as (_ & Hs & Hadj).
  destruct s as [|d s'].
  - apply lo_esc_head_quote.
  - cbn [escape_body]. rewrite <- app_assoc. apply lo_esc_head_esc_char.
    + destruct (str_ok_cons d s' Hs) as (Hd & _). exact Hd.
    + apply Hadj. exact Hh.
Qed.

(* Layer 2: the scanner inverts the escaper *)
Theorem scan_escape_body : forall s rest, str_ok s = true ->
  scan_string (escape_body s ++ 34 :: rest) = Some (s, rest).
Proof.
  induction s as [|c s IH]; intros rest H.
  - apply scan_quote.
  - destruct (str_ok_cons c s H) as (Hc & Hs & _).
    cbn [escape_body]. rewrite <- app_assoc.
    rewrite scan_esc_char.
    + rewrite IH by assumption. reflexivity.
    + exact Hc.
    + intros Hh. apply (escape_body_lookahead c s rest H Hh).
Qed.

Theorem unescape_escape : forall s, str_ok s = true -> unescape (escape s) = Some s.
Proof.
  intros s H. unfold escape, quote, unescape. rewrite Z.eqb_refl.
  rewrite scan_escape_body by assumption. reflexivity.
Qed.

(* the hypothesis is needed: a high surrogate followed by a low surrogate, as two code points *)
Theorem unescape_escape_needs_hyp :
  exists s, forallb cp_ok s = true /\ no_adj_hi_lo s = false /\ unescape (escape s) = Some [65536] /\ length s = 2%nat.
Proof. exists [55296; 56320]. vm_compute. repeat split. Qed.

(* two different keys with the same escaped text *)
Theorem escape_not_injective_without_hyp : exists a b, a <> b /\ escape a = escape b.
Proof. exists [55296; 56320], [65536]. split; [discriminate | vm_compute; reflexivity]. Qed.

(* ================================================================== part 2: parse (print v) = v *)
Fixpoint jvalue_ind' (P : jvalue -> Prop)
  (Hn : P JNull) (Hb : forall b, P (JBool b)) (Hi : forall z, P (JInt z)) (Hs : forall s, P (JStr s))
  (Ha : forall l, Forall P l -> P (JArr l))
  (Ho : forall l, Forall (fun kv => P (snd kv)) l -> P (JObj l)) (v : jvalue) : P v :=
  match v with
  | JNull => Hn
  | JBool b => Hb b
  | JInt z => Hi z
  | JStr s => Hs s
  | JArr l => Ha l ((fix go (l : list jvalue) : Forall P l :=
                       match l with
                       | [] => Forall_nil P
                       | x :: xs => Forall_cons x (jvalue_ind' P Hn Hb Hi Hs Ha Ho x) (go xs)
                       end) l)
  | JObj l => Ho l ((fix go (l : list (pystr * jvalue)) : Forall (fun kv => P (snd kv)) l :=
                       match l with
                       | [] => Forall_nil _
                       | kv :: xs => Forall_cons kv (jvalue_ind' P Hn Hb Hi Hs Ha Ho (snd kv)) (go xs)
                       end) l)
  end.

(* ---------- printing equations in terms of the top-level print_items / print_members *)
Definition sep_of (lvl : nat) : list Z := 44 :: nl (S lvl).
Definition close_arr (lvl : nat) : list Z := nl lvl ++ [93].
Definition close_obj (lvl : nat) : list Z := nl lvl ++ [125].

Lemma print_at_arr : forall lvl x xs,
  print_at lvl (JArr (x :: xs)) =
  91 :: nl (S lvl) ++ print_at (S lvl) x ++ print_items (print_at (S lvl)) (sep_of lvl) (close_arr lvl) xs.
Proof.
  intros lvl x xs. cbn [print_at]. f_equal. f_equal. f_equal.
  induction xs as [|y ys IH]; [reflexivity|].
  cbn [print_items]. unfold sep_of at 1. f_equal. f_equal. f_equal. exact IH.
Qed.

Lemma print_at_obj : forall lvl k x xs,
  print_at lvl (JObj ((k, x) :: xs)) =
  123 :: nl (S lvl) ++ quote k ++ 58 :: 32 :: print_at (S lvl) x ++
  print_members (print_at (S lvl)) (sep_of lvl) (close_obj lvl) xs.
Proof.
  intros lvl k x xs. cbn [print_at]. f_equal. f_equal. f_equal. f_equal. f_equal. f_equal.
  induction xs as [|[k' y] ys IH]; [reflexivity|].
  cbn [print_members]. unfold sep_of at 1. f_equal. f_equal. f_equal. f_equal. f_equal. f_equal. exact IH.
Qed.

(* ---------- whitespace *)
Lemma skip_ws_nows : forall c s, is_ws c = false -> skip_ws (c :: s) = c :: s.
Proof. intros c s H. cbn [skip_ws]. rewrite H. reflexivity. Qed.

Lemma skip_ws_spaces : forall n s, skip_ws (repeat 32 n ++ s) = skip_ws s.
Proof. induction n as [|n IH]; intros s; [reflexivity|]. cbn [repeat app skip_ws]. change (is_ws 32) with true. cbv iota. apply IH. Qed.

Lemma skip_ws_nl : forall k s, skip_ws (nl k ++ s) = skip_ws s.
Proof. intros k s. unfold nl. cbn [app skip_ws]. change (is_ws 10) with true. cbv iota. apply skip_ws_spaces. Qed.

(* ---------- the first character of a printed value *)
Definition vstart (c : Z) : Prop := is_ws c = false /\ (c =? 93) = false /\ (c =? 125) = false.

Lemma str_of_int_head : forall z, exists c t, str_of_int z = c :: t /\ (c = 45 \/ is_digit c = true).
Proof.
  intros z. unfold str_of_int. destruct (z <? 0) eqn:E.
  - eexists; eexists; split; [reflexivity | left; reflexivity].
  - destruct (digits_of_nonneg_spec z ltac:(lia)) as (c & t & Heq & Hc & _).
    exists c, t. split; [exact Heq | right; exact Hc].
Qed.

Lemma print_at_head : forall lvl v, exists c t, print_at lvl v = c :: t /\ vstart c.
Proof.
  intros lvl v. destruct v as [ | [|] | z | s | [|x xs] | [|[k x] xs]];
    try (eexists; eexists; split; [reflexivity | repeat split; reflexivity]).
  - destruct (str_of_int_head z) as (c & t & Heq & Hc). exists c, t. split; [exact Heq|].
    unfold vstart, is_ws. unfold is_digit in Hc. repeat split; lia.
Qed.

Lemma skip_ws_print : forall lvl v s, skip_ws (print_at lvl v ++ s) = print_at lvl v ++ s.
Proof.
  intros lvl v s. destruct (print_at_head lvl v) as (c & t & Heq & Hc & _). rewrite Heq. cbn [app].
  apply skip_ws_nows. exact Hc.
Qed.

(* ---------- numbers *)
Definition ok_follow (rest : list Z) : Prop :=
  match rest with [] => True | c :: _ => is_digit c = false end.

Lemma span_digits_app : forall t rest, forallb is_digit t = true -> ok_follow rest ->
  span_digits (t ++ rest) = (t, rest).
Proof.
  induction t as [|c t IH]; intros rest Ht Hr.
  - cbn [app]. destruct rest as [|c r]; [reflexivity|]. cbn [span_digits]. cbn in Hr. rewrite Hr. reflexivity.
  - cbn [forallb] in Ht. apply andb_true_iff in Ht. destruct Ht as [Hc Ht].
    cbn [app span_digits]. rewrite Hc. rewrite IH by assumption. reflexivity.
Qed.

Lemma lex_nat_digits : forall n rest, 0 <= n -> ok_follow rest ->
  lex_nat (digits_of_nonneg n ++ rest) = Some (n, rest).
Proof.
  intros n rest Hn Hr. destruct (digits_of_nonneg_spec n Hn) as (c & t & Heq & Hc & Ht & Hv & H0).
  rewrite Heq. cbn [app lex_nat]. destruct (c =? 48) eqn:E.
  - assert (c = 48) by lia. destruct (H0 H) as [-> ->]. reflexivity.
  - rewrite Hc. rewrite span_digits_app by assumption. rewrite Hv. reflexivity.
Qed.

Lemma lex_int_str : forall z rest, ok_follow rest -> lex_int (str_of_int z ++ rest) = Some (z, rest).
Proof.
  intros z rest Hr. unfold str_of_int. destruct (z <? 0) eqn:E.
  - cbn [app lex_int]. change (45 =? 45) with true. cbv iota.
    rewrite lex_nat_digits by (assumption || lia). f_equal. f_equal. lia.
  - pose proof (lex_nat_digits z rest ltac:(lia) Hr) as H.
    destruct (digits_of_nonneg_spec z ltac:(lia)) as (c & t & Heq & Hc & _).
    rewrite Heq in *. cbn [app] in *. cbn [lex_int]. unfold is_digit in Hc.
    replace (c =? 45) with false by lia. exact H.
Qed.

(* ---------- one step of each parser function *)
Lemma pv_str : forall f s1, parse_value (S f) (34 :: s1) =
  match scan_string s1 with Some (str, r) => Some (JStr str, r) | None => None end.
Proof. reflexivity. Qed.

Lemma pv_arr : forall f s1, parse_value (S f) (91 :: s1) =
  match skip_ws s1 with
  | [] => None
  | c2 :: s3 => if c2 =? 93 then Some (JArr [], s3)
                else match parse_elems f (c2 :: s3) with Some (vs, r) => Some (JArr vs, r) | None => None end
  end.
Proof. reflexivity. Qed.

Lemma pv_obj : forall f s1, parse_value (S f) (123 :: s1) =
  match skip_ws s1 with
  | [] => None
  | c2 :: s3 => if c2 =? 125 then Some (JObj [], s3)
                else match parse_members f (c2 :: s3) with Some (ms, r) => Some (JObj ms, r) | None => None end
  end.
Proof. reflexivity. Qed.

Lemma pv_int : forall f c s1, c = 45 \/ is_digit c = true -> parse_value (S f) (c :: s1) =
  match lex_int (c :: s1) with Some (z, r) => Some (JInt z, r) | None => None end.
Proof.
  intros f c s1 Hc. cbn [parse_value]. unfold is_digit in Hc.
  replace (c =? 34) with false by lia. replace (c =? 123) with false by lia.
  replace (c =? 91) with false by lia. replace (c =? 110) with false by lia.
  replace (c =? 116) with false by lia. replace (c =? 102) with false by lia. reflexivity.
Qed.

Lemma parse_elems_S : forall f s, parse_elems (S f) s =
  match parse_value f s with
  | None => None
  | Some (v, r) =>
      match skip_ws r with
      | [] => None
      | c :: r2 =>
          if c =? 93 then Some ([v], r2)
          else if c =? 44 then
            match parse_elems f (skip_ws r2) with Some (vs, r3) => Some (v :: vs, r3) | None => None end
          else None
      end
  end.
Proof. reflexivity. Qed.

Lemma parse_members_S : forall f s1, parse_members (S f) (34 :: s1) =
  match scan_string s1 with
  | None => None
  | Some (k, r) =>
      match skip_ws r with
      | [] => None
      | c :: r2 =>
          if c =? 58 then
            match parse_value f (skip_ws r2) with
            | None => None
            | Some (v, r3) =>
                match skip_ws r3 with
                | [] => None
                | c3 :: r4 =>
                    if c3 =? 125 then Some ([(k, v)], r4)
                    else if c3 =? 44 then
                      match parse_members f (skip_ws r4) with
                      | Some (ms, r5) => Some ((k, v) :: ms, r5)
                      | None => None
                      end
                    else None
                end
            end
          else None
      end
  end.
Proof. reflexivity. Qed.

(* ---------- fuel: the number of nodes *)
Fixpoint jsize (v : jvalue) : nat :=
  match v with
  | JArr l => S ((fix go (l : list jvalue) : nat := match l with [] => O | x :: xs => S (jsize x + go xs) end) l)
  | JObj l => S ((fix go (l : list (pystr * jvalue)) : nat :=
                    match l with [] => O | (k, x) :: xs => S (jsize x + go xs) end) l)
  | _ => 1%nat
  end.
Definition esize (l : list jvalue) : nat := fold_right (fun x n => S (jsize x + n)) O l.
Definition msize (l : list (pystr * jvalue)) : nat := fold_right (fun kx n => S (jsize (snd kx) + n)) O l.

Lemma jsize_arr : forall l, jsize (JArr l) = S (esize l).
Proof. reflexivity. Qed.

Lemma jsize_obj : forall l, jsize (JObj l) = S (msize l).
Proof.
  intros l. cbn [jsize]. apply f_equal.
  induction l as [|[k x] xs IH]; [reflexivity|]. cbn [msize fold_right snd]. fold (msize xs). rewrite IH. reflexivity.
Qed.

(* ---------- well-formedness, unfolded *)
Lemma wf_j_arr : forall l, wf_j (JArr l) = true -> Forall (fun x => wf_j x = true) l.
Proof.
  induction l as [|x xs IH]; intros H; [constructor|].
  cbn [wf_j] in H. apply andb_true_iff in H. destruct H as [H1 H2]. constructor; [exact H1|]. apply IH. exact H2.
Qed.

Definition wf_member (kv : pystr * jvalue) : Prop := str_ok (fst kv) = true /\ wf_j (snd kv) = true.

Lemma wf_j_obj : forall l, wf_j (JObj l) = true -> nodup_str (map fst l) = true /\ Forall wf_member l.
Proof.
  intros l H. cbn [wf_j] in H. apply andb_true_iff in H. destruct H as [H1 H2]. split; [exact H1|].
  clear H1. induction l as [|[k x] xs IH]; [constructor|].
  apply andb_true_iff in H2. destruct H2 as [H2 H3]. apply andb_true_iff in H2. destruct H2 as [Hk Hx].
  constructor; [split; assumption | apply IH; exact H3].
Qed.

(* ---------- the round trip, generalised over the indentation level, the fuel and the following text *)
Definition RT (v : jvalue) : Prop :=
  forall lvl f rest, wf_j v = true -> ok_follow rest -> (jsize v <= f)%nat ->
  parse_value f (print_at lvl v ++ rest) = Some (v, rest).

Lemma ok_follow_items : forall pr lvl xs rest, ok_follow (print_items pr (sep_of lvl) (close_arr lvl) xs ++ rest).
Proof. intros pr lvl [|y ys] rest; reflexivity. Qed.

Lemma ok_follow_members : forall pr lvl xs rest, ok_follow (print_members pr (sep_of lvl) (close_obj lvl) xs ++ rest).
Proof. intros pr lvl [|[k y] ys] rest; reflexivity. Qed.

Lemma match_vstart : forall lvl x R (A : Type) (k : list Z -> A) (d : A) (e : list Z -> A),
  match print_at lvl x ++ R with
  | [] => d
  | c2 :: s3 => if c2 =? 93 then e s3 else k (c2 :: s3)
  end = k (print_at lvl x ++ R).
Proof.
  intros lvl x R A k d e. destruct (print_at_head lvl x) as (c & t & Heq & _ & H93 & _).
  rewrite Heq. cbn [app]. rewrite H93. reflexivity.
Qed.

Lemma match_quote : forall k T (A : Type) (kf : list Z -> A) (d : A) (e : list Z -> A),
  match quote k ++ T with
  | [] => d
  | c2 :: s3 => if c2 =? 125 then e s3 else kf (c2 :: s3)
  end = kf (quote k ++ T).
Proof. reflexivity. Qed.

Lemma rt_elems : forall lvl xs x f rest,
  RT x -> Forall RT xs -> wf_j x = true -> Forall (fun y => wf_j y = true) xs -> (esize (x :: xs) <= f)%nat ->
  parse_elems f (print_at (S lvl) x ++ print_items (print_at (S lvl)) (sep_of lvl) (close_arr lvl) xs ++ rest)
  = Some (x :: xs, rest).
Proof.
  intros lvl. induction xs as [|y ys IH]; intros x f rest Hx Hxs Wx Wxs Hf.
  - cbn [esize fold_right] in Hf. destruct f as [|f]; [lia|]. rewrite parse_elems_S.
    rewrite Hx; [| assumption | apply ok_follow_items | lia].
    cbn [print_items]. unfold close_arr. rewrite <- app_assoc. rewrite skip_ws_nl. cbn [app].
    rewrite skip_ws_nows by reflexivity. reflexivity.
  - cbn [esize fold_right] in Hf. fold (esize ys) in Hf. destruct f as [|f]; [lia|]. rewrite parse_elems_S.
    rewrite Hx; [| assumption | apply ok_follow_items | lia].
    cbn [print_items]. unfold sep_of at 1. rewrite <- !app_assoc. cbn [app].
    rewrite skip_ws_nows by reflexivity. change (44 =? 93) with false. change (44 =? 44) with true. cbv iota.
    rewrite skip_ws_nl, skip_ws_print.
    inversion Hxs as [|? ? Hy Hys]; subst. inversion Wxs as [|? ? Wy Wys]; subst.
    rewrite IH; [reflexivity | assumption | assumption | assumption | assumption |].
    cbn [esize fold_right]. fold (esize ys). lia.
Qed.

Lemma rt_members : forall lvl xs k x f rest,
  RT x -> Forall (fun kv => RT (snd kv)) xs -> wf_member (k, x) -> Forall wf_member xs ->
  (msize ((k, x) :: xs) <= f)%nat ->
  parse_members f (quote k ++ 58 :: 32 :: print_at (S lvl) x ++
                   print_members (print_at (S lvl)) (sep_of lvl) (close_obj lvl) xs ++ rest)
  = Some ((k, x) :: xs, rest).
Proof.
  intros lvl. induction xs as [|[k' y] ys IH]; intros k x f rest Hx Hxs [Wk Wx] Wxs Hf; cbn [fst snd] in *.
  - cbn [msize fold_right snd] in Hf. destruct f as [|f]; [lia|].
    unfold quote. cbn [app]. rewrite <- app_assoc. cbn [app]. rewrite parse_members_S.
    rewrite scan_escape_body by assumption.
    rewrite skip_ws_nows by reflexivity. change (58 =? 58) with true. cbv iota.
    cbn [skip_ws]. change (is_ws 32) with true. cbv iota. rewrite skip_ws_print.
    rewrite Hx; [| assumption | apply ok_follow_members | lia].
    cbn [print_members]. unfold close_obj. rewrite <- app_assoc. rewrite skip_ws_nl. cbn [app].
    rewrite skip_ws_nows by reflexivity. reflexivity.
  - cbn [msize fold_right snd] in Hf. fold (msize ys) in Hf. destruct f as [|f]; [lia|].
    unfold quote at 1. cbn [app]. rewrite <- app_assoc. cbn [app]. rewrite parse_members_S.
    rewrite scan_escape_body by assumption.
    rewrite skip_ws_nows by reflexivity. change (58 =? 58) with true. cbv iota.
    cbn [skip_ws]. change (is_ws 32) with true. cbv iota. rewrite skip_ws_print.
    rewrite Hx; [| assumption | apply ok_follow_members | lia].
    cbn [print_members]. unfold sep_of at 1. rewrite <- !app_assoc. cbn [app].
    rewrite skip_ws_nows by reflexivity. change (44 =? 125) with false. change (44 =? 44) with true. cbv iota.
    rewrite skip_ws_nl.
    inversion Hxs as [|? ? Hy Hys]; subst. inversion Wxs as [|? ? Wy Wys]; subst. cbn [snd] in Hy.
    assert (Hq : forall T, skip_ws (quote k' ++ T) = quote k' ++ T) by (intros T; reflexivity).
    rewrite Hq. rewrite <- app_assoc.
    rewrite IH; [reflexivity | assumption | assumption | assumption | assumption |].
    cbn [msize fold_right snd]. fold (msize ys). lia.
Qed.

Theorem parse_value_print : forall v, RT v.
Proof.
  induction v as [ | b | z | s | l IH | l IH] using jvalue_ind'; intros lvl f rest W Hr Hf.
  - destruct f as [|f]; [cbn in Hf; lia|]. reflexivity.
  - destruct f as [|f]; [cbn in Hf; lia|]. destruct b; reflexivity.
  - destruct f as [|f]; [cbn in Hf; lia|]. cbn [print_at].
    destruct (str_of_int_head z) as (c & t & Heq & Hc).
    pose proof (lex_int_str z rest Hr) as HL. rewrite Heq in *. cbn [app] in *.
    rewrite pv_int by assumption. rewrite HL. reflexivity.
  - destruct f as [|f]; [cbn in Hf; lia|]. cbn [print_at wf_j] in *. unfold quote. cbn [app].
    rewrite <- app_assoc. cbn [app]. rewrite pv_str. rewrite scan_escape_body by assumption. reflexivity.
  - rewrite jsize_arr in Hf. destruct f as [|f]; [lia|]. destruct l as [|x xs]; [reflexivity|].
    rewrite print_at_arr. cbn [app]. rewrite pv_arr. rewrite <- !app_assoc. rewrite skip_ws_nl, skip_ws_print.
    rewrite (match_vstart (S lvl) x _ _
               (fun s => match parse_elems f s with Some (vs, r) => Some (JArr vs, r) | None => None end)).
    inversion IH as [|? ? Hx Hxs]; subst. pose proof (wf_j_arr _ W) as WW. inversion WW as [|? ? Wx Wxs]; subst.
    rewrite rt_elems; [reflexivity | assumption | assumption | assumption | assumption | lia].
  - rewrite jsize_obj in Hf. destruct f as [|f]; [lia|]. destruct l as [|[k x] xs]; [reflexivity|].
    rewrite print_at_obj. cbn [app]. rewrite pv_obj. rewrite <- !app_assoc. rewrite skip_ws_nl.
    assert (Hq : forall T, skip_ws (quote k ++ T) = quote k ++ T) by (intros T; reflexivity).
    rewrite Hq.
    rewrite (match_quote k _ _
               (fun s => match parse_members f s with Some (ms, r) => Some (JObj ms, r) | None => None end)).
    inversion IH as [|? ? Hx Hxs]; subst. cbn [snd] in Hx.
    destruct (wf_j_obj _ W) as [_ WW]. inversion WW as [|? ? Wx Wxs]; subst.
    cbn [app]. rewrite <- app_assoc.
    rewrite (rt_members lvl xs k x f rest Hx Hxs Wx Wxs ltac:(lia)). reflexivity.
Qed.

(* ---------- dict semantics are the identity on distinct keys *)
Lemma mem_str_false : forall k l, mem_str k l = false <-> ~ In k l.
Proof.
  intros k l. induction l as [|x l IH]; cbn [mem_str In].
  - split; [intros _ H; exact H | reflexivity].
  - rewrite orb_false_iff, IH, pystr_eqb_neq. tauto.
Qed.

Lemma nodup_str_NoDup : forall l, nodup_str l = true -> NoDup l.
Proof.
  induction l as [|x l IH]; intros H; [constructor|].
  cbn [nodup_str] in H. apply andb_true_iff in H. destruct H as [H1 H2].
  constructor; [|apply IH; exact H2]. apply mem_str_false. destruct (mem_str x l); [discriminate | reflexivity].
Qed.

Lemma obj_set_fresh : forall k v acc, ~ In k (map fst acc) -> obj_set k v acc = acc ++ [(k, v)].
Proof.
  intros k v. induction acc as [|[k' v'] acc IH]; intros H; [reflexivity|].
  cbn [map fst In] in H. cbn [obj_set app].
  replace (pystr_eqb k' k) with false by (symmetry; apply pystr_eqb_neq; tauto).
  rewrite IH by tauto. reflexivity.
Qed.

Lemma dedup_gen : forall l acc, NoDup (map fst acc ++ map fst l) ->
  fold_left (fun acc kv => obj_set (fst kv) (snd kv) acc) l acc = acc ++ l.
Proof.
  induction l as [|[k v] l IH]; intros acc H.
  - cbn. rewrite app_nil_r. reflexivity.
  - cbn [fold_left fst snd map] in *. rewrite obj_set_fresh.
    + rewrite IH.
      * rewrite <- app_assoc. reflexivity.
      * rewrite map_app. cbn [map fst]. rewrite <- app_assoc. exact H.
    + apply NoDup_remove_2 in H. intros Hin. apply H. apply in_or_app. left. exact Hin.
Qed.

Lemma dedup_nodup : forall l, nodup_str (map fst l) = true -> dedup l = l.
Proof. intros l H. unfold dedup. rewrite dedup_gen; [reflexivity|]. cbn [map app]. apply nodup_str_NoDup. exact H. Qed.

Theorem normalize_wf : forall v, wf_j v = true -> normalize v = v.
Proof.
  induction v as [ | b | z | s | l IH | l IH] using jvalue_ind'; intros W; try reflexivity.
  - cbn [normalize]. f_equal. pose proof (wf_j_arr _ W) as WW. clear W.
    induction l as [|x xs IHl]; [reflexivity|].
    inversion IH as [|? ? Hx Hxs]; subst. inversion WW as [|? ? Wx Wxs]; subst.
    rewrite Hx by assumption. rewrite IHl by assumption. reflexivity.
  - cbn [normalize]. f_equal. destruct (wf_j_obj _ W) as [ND WW]. clear W.
    match goal with |- dedup ?X = _ => assert (HX : X = l) end.
    { clear ND. induction l as [|[k x] xs IHl]; [reflexivity|].
      inversion IH as [|? ? Hx Hxs]; subst. inversion WW as [|? ? Wx Wxs]; subst. destruct Wx as [_ Wx]. cbn [snd] in *.
      rewrite Hx by assumption. rewrite IHl by assumption. reflexivity. }
    rewrite HX. apply dedup_nodup. exact ND.
Qed.

(* ---------- the default fuel (text length + 1) is enough *)
Lemma nl_length : forall k, (1 <= length (nl k))%nat.
Proof. intros k. unfold nl. cbn [length]. lia. Qed.

Lemma esize_items : forall lvl sep close xs,
  Forall (fun y => forall lvl, (jsize y <= length (print_at lvl y))%nat) xs -> (1 <= length sep)%nat ->
  (esize xs <= length (print_items (print_at lvl) sep close xs))%nat.
Proof.
  intros lvl sep close xs H Hs. induction xs as [|y ys IH]; [cbn; lia|].
  inversion H as [|? ? Hy Hys]; subst. cbn [esize fold_right print_items]. fold (esize ys).
  rewrite !app_length. specialize (Hy lvl). specialize (IH Hys). lia.
Qed.

Lemma msize_members : forall lvl sep close xs,
  Forall (fun kv => forall lvl, (jsize (snd kv) <= length (print_at lvl (snd kv)))%nat) xs -> (1 <= length sep)%nat ->
  (msize xs <= length (print_members (print_at lvl) sep close xs))%nat.
Proof.
  intros lvl sep close xs H Hs. induction xs as [|[k y] ys IH]; [cbn; lia|].
  inversion H as [|? ? Hy Hys]; subst. cbn [msize fold_right print_members snd] in *. fold (msize ys).
  rewrite !app_length. cbn [length]. rewrite !app_length. specialize (Hy lvl). specialize (IH Hys). lia.
Qed.

Lemma jsize_le_length : forall v lvl, (jsize v <= length (print_at lvl v))%nat.
Proof.
  induction v as [ | b | z | s | l IH | l IH] using jvalue_ind'; intros lvl.
  - cbn. lia.
  - destruct b; cbn; lia.
  - cbn [jsize print_at]. destruct (str_of_int_head z) as (c & t & -> & _). cbn [length]. lia.
  - cbn [jsize print_at]. unfold quote. cbn [length]. lia.
  - rewrite jsize_arr. destruct l as [|x xs]; [cbn; lia|].
    rewrite print_at_arr. inversion IH as [|? ? Hx Hxs]; subst.
    cbn [length esize fold_right]. fold (esize xs). rewrite !app_length.
    pose proof (esize_items (S lvl) (sep_of lvl) (close_arr lvl) xs Hxs ltac:(cbn; lia)).
    pose proof (nl_length (S lvl)). specialize (Hx (S lvl)). lia.
  - rewrite jsize_obj. destruct l as [|[k x] xs]; [cbn; lia|].
    rewrite print_at_obj. inversion IH as [|? ? Hx Hxs]; subst. cbn [snd] in Hx.
    cbn [length msize fold_right snd]. fold (msize xs). rewrite !app_length. cbn [length]. rewrite !app_length.
    pose proof (msize_members (S lvl) (sep_of lvl) (close_obj lvl) xs Hxs ltac:(cbn; lia)).
    pose proof (nl_length (S lvl)). specialize (Hx (S lvl)). lia.
Qed.

(* Layer 4 *)
Theorem parse_print : forall v, wf_j v = true -> parse (print v) = Some v.
Proof.
  intros v W. unfold parse, parse_fuel, print.
  assert (H1 : skip_ws (print_at 0 v) = print_at 0 v).
  { rewrite <- (app_nil_r (print_at 0 v)). apply skip_ws_print. }
  assert (H2 : parse_value (S (length (print_at 0 v))) (print_at 0 v) = Some (v, [])).
  { pose proof (parse_value_print v 0%nat (S (length (print_at 0 v))) [] W I) as H.
    rewrite app_nil_r in H. apply H. pose proof (jsize_le_length v 0%nat). lia. }
  rewrite H1, H2. cbn [skip_ws]. rewrite normalize_wf by assumption. reflexivity.
Qed.

(* ================================================================== part 3: strict prefixes are rejected *)
Definition sprefix (p s : list Z) : Prop := exists q, q <> [] /\ s = p ++ q.

Lemma sprefix_nil : forall p, ~ sprefix p [].
Proof. intros p (q & Hq & H). destruct p; destruct q; try discriminate. congruence. Qed.

Lemma sprefix_cons : forall p c s, sprefix p (c :: s) -> p = [] \/ exists p', p = c :: p' /\ sprefix p' s.
Proof.
  intros p c s (q & Hq & H). destruct p as [|d p']; [left; reflexivity|].
  right. cbn [app] in H. inversion H; subst. exists p'. split; [reflexivity|]. exists q. split; [exact Hq | reflexivity].
Qed.

Lemma sprefix_app : forall a p b, sprefix p (a ++ b) -> sprefix p a \/ exists p', p = a ++ p' /\ sprefix p' b.
Proof.
  induction a as [|c a IH]; intros p b H.
  - right. exists p. split; [reflexivity | exact H].
  - cbn [app] in H. apply sprefix_cons in H. destruct H as [-> | (p' & -> & H)].
    + left. exists (c :: a). split; [discriminate | reflexivity].
    + destruct (IH _ _ H) as [H1 | (p2 & -> & H2)].
      * left. destruct H1 as (q & Hq & ->). exists q. split; [exact Hq | reflexivity].
      * right. exists p2. split; [reflexivity | exact H2].
Qed.

(* a strict prefix of a ++ [c] is a (weak) prefix of a *)
Lemma sprefix_snoc : forall a c p, sprefix p (a ++ [c]) -> exists q, a = p ++ q.
Proof.
  intros a c p (q & Hq & H). destruct (exists_last Hq) as (q' & x & ->).
  rewrite app_assoc in H. apply app_inj_tail in H. destruct H as [H _]. exists q'. exact H.
Qed.

Lemma sprefix_weak : forall p s, sprefix p s -> exists q, s = p ++ q.
Proof. intros p s (q & _ & H). exists q. exact H. Qed.

Lemma skip_ws_allws : forall p q, forallb is_ws (p ++ q) = true -> skip_ws p = [].
Proof.
  induction p as [|c p IH]; intros q H; [reflexivity|].
  cbn [app forallb] in H. apply andb_true_iff in H. destruct H as [H1 H2].
  cbn [skip_ws]. rewrite H1. apply (IH q H2).
Qed.

Lemma nl_allws : forall k, forallb is_ws (nl k) = true.
Proof.
  intros k. unfold nl. cbn [forallb]. change (is_ws 10) with true. cbn [andb].
  induction (2 * k)%nat as [|n IH]; [reflexivity|]. cbn [repeat forallb]. change (is_ws 32) with true. exact IH.
Qed.

Lemma skip_ws_sprefix_nl : forall k p, sprefix p (nl k) -> skip_ws p = [].
Proof.
  intros k p H. destruct (sprefix_weak _ _ H) as (q & Hq). apply (skip_ws_allws p q). rewrite <- Hq. apply nl_allws.
Qed.

Lemma skip_ws_sprefix_close : forall k c p, sprefix p (nl k ++ [c]) -> skip_ws p = [].
Proof.
  intros k c p H. destruct (sprefix_snoc _ _ _ H) as (q & Hq). apply (skip_ws_allws p q). rewrite <- Hq. apply nl_allws.
Qed.

Lemma skip_ws_sprefix_print : forall lvl v T p, sprefix p (print_at lvl v ++ T) -> skip_ws p = p.
Proof.
  intros lvl v T p H. destruct (print_at_head lvl v) as (c & t & Heq & Hc & _). rewrite Heq in H. cbn [app] in H.
  apply sprefix_cons in H. destruct H as [-> | (p' & -> & _)]; [reflexivity|]. apply skip_ws_nows. exact Hc.
Qed.

Lemma parse_value_nil : forall f, parse_value f [] = None.
Proof. destruct f; reflexivity. Qed.

Lemma parse_elems_nil : forall f, parse_elems f [] = None.
Proof. destruct f; [reflexivity|]. rewrite parse_elems_S. rewrite parse_value_nil. reflexivity. Qed.

Lemma parse_members_nil : forall f, parse_members f [] = None.
Proof. destruct f; reflexivity. Qed.

(* ---------- more fuel never changes a successful parse *)
Lemma parse_value_S : forall f s, parse_value (S f) s =
  match s with
  | [] => None
  | c :: s1 =>
      if c =? 34 then
        match scan_string s1 with Some (str, r) => Some (JStr str, r) | None => None end
      else if c =? 123 then
        match skip_ws s1 with
        | [] => None
        | c2 :: s3 =>
            if c2 =? 125 then Some (JObj [], s3)
            else match parse_members f (c2 :: s3) with Some (ms, r) => Some (JObj ms, r) | None => None end
        end
      else if c =? 91 then
        match skip_ws s1 with
        | [] => None
        | c2 :: s3 =>
            if c2 =? 93 then Some (JArr [], s3)
            else match parse_elems f (c2 :: s3) with Some (vs, r) => Some (JArr vs, r) | None => None end
        end
      else if c =? 110 then lit lit_null JNull s
      else if c =? 116 then lit lit_true (JBool true) s
      else if c =? 102 then lit lit_false (JBool false) s
      else match lex_int s with Some (z, r) => Some (JInt z, r) | None => None end
  end.
Proof. reflexivity. Qed.

Lemma parse_members_S' : forall f s, parse_members (S f) s =
  match s with
  | [] => None
  | q :: s1 =>
      if q =? 34 then
        match scan_string s1 with
        | None => None
        | Some (k, r) =>
            match skip_ws r with
            | [] => None
            | c :: r2 =>
                if c =? 58 then
                  match parse_value f (skip_ws r2) with
                  | None => None
                  | Some (v, r3) =>
                      match skip_ws r3 with
                      | [] => None
                      | c3 :: r4 =>
                          if c3 =? 125 then Some ([(k, v)], r4)
                          else if c3 =? 44 then
                            match parse_members f (skip_ws r4) with
                            | Some (ms, r5) => Some ((k, v) :: ms, r5)
                            | None => None
                            end
                          else None
                      end
                  end
                else None
            end
        end
      else None
  end.
Proof. reflexivity. Qed.

Lemma fuel_mono_S : forall f,
  (forall s r, parse_value f s = Some r -> parse_value (S f) s = Some r) /\
  (forall s r, parse_elems f s = Some r -> parse_elems (S f) s = Some r) /\
  (forall s r, parse_members f s = Some r -> parse_members (S f) s = Some r).
Proof.
  induction f as [|f (IHv & IHe & IHm)].
  - repeat split; intros s r H; discriminate.
  - repeat split; intros s r H.
    + rewrite parse_value_S in *. destruct s as [|c s1]; [discriminate|].
      destruct (c =? 34); [exact H|].
      destruct (c =? 123).
      { destruct (skip_ws s1) as [|c2 s3]; [discriminate|]. destruct (c2 =? 125); [exact H|].
        destruct (parse_members f (c2 :: s3)) as [[ms r']|] eqn:E; [|discriminate].
        rewrite (IHm _ _ E). exact H. }
      destruct (c =? 91).
      { destruct (skip_ws s1) as [|c2 s3]; [discriminate|]. destruct (c2 =? 93); [exact H|].
        destruct (parse_elems f (c2 :: s3)) as [[vs r']|] eqn:E; [|discriminate].
        rewrite (IHe _ _ E). exact H. }
      exact H.
    + rewrite parse_elems_S in *.
      destruct (parse_value f s) as [[v r']|] eqn:E; [|discriminate]. rewrite (IHv _ _ E).
      destruct (skip_ws r') as [|c r2]; [discriminate|]. destruct (c =? 93); [exact H|].
      destruct (c =? 44); [|discriminate].
      destruct (parse_elems f (skip_ws r2)) as [[vs r3]|] eqn:E2; [|discriminate]. rewrite (IHe _ _ E2). exact H.
    + rewrite parse_members_S' in *. destruct s as [|q s1]; [discriminate|].
      destruct (q =? 34); [|discriminate].
      destruct (scan_string s1) as [[k r']|]; [|discriminate].
      destruct (skip_ws r') as [|c r2]; [discriminate|]. destruct (c =? 58); [|discriminate].
      destruct (parse_value f (skip_ws r2)) as [[v r3]|] eqn:E; [|discriminate]. rewrite (IHv _ _ E).
      destruct (skip_ws r3) as [|c3 r4]; [discriminate|]. destruct (c3 =? 125); [exact H|].
      destruct (c3 =? 44); [|discriminate].
      destruct (parse_members f (skip_ws r4)) as [[ms r5]|] eqn:E2; [|discriminate]. rewrite (IHm _ _ E2). exact H.
Qed.

Lemma fuel_mono : forall f f' s r, (f <= f')%nat -> parse_value f s = Some r -> parse_value f' s = Some r.
Proof.
  intros f f' s r Hle. induction Hle as [|f' Hle IH]; intros H; [exact H|].
  apply (proj1 (fuel_mono_S f')). apply IH. exact H.
Qed.

(* whatever the fuel, a printed value followed by [rest] is parsed as that value or not at all *)
Lemma rt_weak : forall v lvl rest f, wf_j v = true -> ok_follow rest ->
  parse_value f (print_at lvl v ++ rest) = None \/ parse_value f (print_at lvl v ++ rest) = Some (v, rest).
Proof.
  intros v lvl rest f W Hr. destruct (parse_value f (print_at lvl v ++ rest)) as [r|] eqn:E; [right | left; reflexivity].
  apply (fuel_mono f (Nat.max f (jsize v))) in E; [|lia].
  rewrite (parse_value_print v lvl _ rest W Hr) in E by lia. congruence.
Qed.

(* ---------- strings: a strict prefix of an escaped body (closing quote included) is not a string *)
Ltac sp_cases H :=
  lazymatch type of H with
  | sprefix _ [] => exfalso; exact (sprefix_nil _ H)
  | sprefix _ (_ :: _) =>
      apply sprefix_cons in H; destruct H as [-> | (? & -> & H)]; [ | sp_cases H]
  end.

Lemma lo_esc_head_prefix : forall p q, lo_esc_head (p ++ q) = false -> lo_esc_head p = false.
Proof.
  intros p q H. destruct p as [|b [|u [|g1 [|g2 [|g3 [|g4 p']]]]]]; try reflexivity;
    try (cbn [lo_esc_head]; apply andb_false_r).
  cbn [app lo_esc_head] in *. exact H.
Qed.

Lemma scan_prefix_esc_u : forall n p, sprefix p (esc_u n) -> scan_string p = None.
Proof. intros n p H. unfold esc_u in H. sp_cases H; reflexivity. Qed.

Lemma scan_prefix_esc_char : forall c p, cp_ok c = true -> sprefix p (esc_char c) -> scan_string p = None.
Proof.
  intros c p Hc H. destruct (esc_char_class c Hc) as [e He1 He2 | H1 H2 H3 | Hr | hi lo Hge Hh Hl Hj].
  - sp_cases H; reflexivity.
  - sp_cases H; reflexivity.
  - sp_cases H; reflexivity.
  - apply sprefix_app in H. destruct H as [H | (p' & -> & H)].
    + apply (scan_prefix_esc_u hi p H).
    + rewrite esc_u_cons. unfold esc_u in H.
      sp_cases H; (rewrite (scan_u_hi_lone _ _ _ _ hi);
                   [reflexivity | apply hex4_esc; apply hi_range; exact Hh | exact Hh
                   | try reflexivity; cbn [lo_esc_head]; apply andb_false_r]).
Qed.

Lemma scan_prefix : forall s p, str_ok s = true -> sprefix p (escape_body s ++ [34]) -> scan_string p = None.
Proof.
  induction s as [|c s IH]; intros p W H.
  - cbn [escape_body app] in H. sp_cases H. reflexivity.
  - destruct (str_ok_cons c s W) as (Hc & Ws & Hadj). cbn [escape_body] in H. rewrite <- app_assoc in H.
    apply sprefix_app in H. destruct H as [H | (p' & -> & H)].
    + apply (scan_prefix_esc_char c p Hc H).
    + rewrite scan_esc_char; [rewrite (IH p' Ws H); reflexivity | exact Hc |].
      intros Hh. destruct (sprefix_weak _ _ H) as (q & Hq). apply (lo_esc_head_prefix p' q). rewrite <- Hq.
      apply (escape_body_lookahead c s [] W Hh).
Qed.

(* ---------- values: on a strict prefix of a printed value the parser fails, or (numbers only) eats everything *)
Definition PF (v : jvalue) : Prop :=
  forall lvl p f, wf_j v = true -> sprefix p (print_at lvl v) ->
  match parse_value f p with
  | None => True
  | Some (_, r) => r = [] /\ exists z, v = JInt z
  end.

Lemma forallb_prefix : forall (A : Type) (pr : A -> bool) p q, forallb pr (p ++ q) = true -> forallb pr p = true.
Proof. intros A pr p q H. rewrite forallb_app in H. apply andb_true_iff in H. exact (proj1 H). Qed.

Lemma lex_nat_prefix : forall c t p', is_digit c = true -> forallb is_digit t = true -> (c = 48 -> t = []) ->
  sprefix p' t -> exists n, lex_nat (c :: p') = Some (n, []).
Proof.
  intros c t p' Hc Ht H0 Hp. destruct (sprefix_weak _ _ Hp) as (q & ->).
  cbn [lex_nat]. destruct (c =? 48) eqn:E.
  - assert (c = 48) by lia. specialize (H0 H). destruct p'; [|discriminate]. destruct q; [|discriminate].
    exfalso. apply (sprefix_nil _ Hp).
  - rewrite Hc. pose proof (span_digits_app p' [] (forallb_prefix _ _ _ _ Ht) I) as HS. rewrite app_nil_r in HS.
    rewrite HS. eexists. reflexivity.
Qed.

Lemma pf_int : forall z, PF (JInt z).
Proof.
  intros z lvl p f _ H. cbn [print_at] in H. destruct f as [|f]; [exact I|].
  unfold str_of_int in H. destruct (z <? 0) eqn:E.
  - destruct (digits_of_nonneg_spec (- z) ltac:(lia)) as (c & t & Heq & Hc & Ht & _ & H0). rewrite Heq in H.
    apply sprefix_cons in H. destruct H as [-> | (p1 & -> & H)]; [exact I|].
    rewrite pv_int by (left; reflexivity). cbn [lex_int]. change (45 =? 45) with true. cbv iota.
    apply sprefix_cons in H. destruct H as [-> | (p2 & -> & H)]; [exact I|].
    destruct (lex_nat_prefix c t p2 Hc Ht (fun e => proj2 (H0 e)) H) as (n & ->). split; [reflexivity | eexists; reflexivity].
  - destruct (digits_of_nonneg_spec z ltac:(lia)) as (c & t & Heq & Hc & Ht & _ & H0). rewrite Heq in H.
    apply sprefix_cons in H. destruct H as [-> | (p2 & -> & H)]; [exact I|].
    rewrite pv_int by (right; exact Hc). cbn [lex_int]. unfold is_digit in Hc.
    replace (c =? 45) with false by lia.
    destruct (lex_nat_prefix c t p2 ltac:(unfold is_digit; lia) Ht (fun e => proj2 (H0 e)) H) as (n & ->).
    split; [reflexivity | eexists; reflexivity].
Qed.

Lemma pf_str : forall s, PF (JStr s).
Proof.
  intros s lvl p f W H. cbn [print_at wf_j] in *. unfold quote in H.
  apply sprefix_cons in H. destruct H as [-> | (p1 & -> & H)]; [rewrite parse_value_nil; exact I|].
  destruct f as [|f]; [exact I|]. rewrite pv_str. rewrite (scan_prefix s p1 W H). exact I.
Qed.

Lemma pf_lit : forall v, v = JNull \/ v = JBool true \/ v = JBool false -> PF v.
Proof.
  intros v Hv lvl p f _ H. destruct f as [|f]; [exact I|].
  destruct Hv as [-> | [-> | ->]]; cbn [print_at] in H;
    [unfold lit_null in H | unfold lit_true in H | unfold lit_false in H]; sp_cases H; exact I.
Qed.

Lemma ok_follow_sprefix_items : forall pr lvl xs p, sprefix p (print_items pr (sep_of lvl) (close_arr lvl) xs) -> ok_follow p.
Proof.
  intros pr lvl xs p H. destruct xs as [|y ys]; cbn [print_items] in H.
  - unfold close_arr, nl in H. cbn [app] in H. apply sprefix_cons in H. destruct H as [-> | (p' & -> & _)]; reflexivity.
  - unfold sep_of in H. cbn [app] in H. apply sprefix_cons in H. destruct H as [-> | (p' & -> & _)]; reflexivity.
Qed.

Lemma ok_follow_sprefix_members : forall pr lvl xs p, sprefix p (print_members pr (sep_of lvl) (close_obj lvl) xs) -> ok_follow p.
Proof.
  intros pr lvl xs p H. destruct xs as [|[k y] ys]; cbn [print_members] in H.
  - unfold close_obj, nl in H. cbn [app] in H. apply sprefix_cons in H. destruct H as [-> | (p' & -> & _)]; reflexivity.
  - unfold sep_of in H. cbn [app] in H. apply sprefix_cons in H. destruct H as [-> | (p' & -> & _)]; reflexivity.
Qed.

Lemma pf_elems : forall lvl xs x p f,
  PF x -> Forall PF xs -> wf_j x = true -> Forall (fun y => wf_j y = true) xs ->
  sprefix p (print_at (S lvl) x ++ print_items (print_at (S lvl)) (sep_of lvl) (close_arr lvl) xs) ->
  parse_elems f p = None.
Proof.
  intros lvl. induction xs as [|y ys IH]; intros x p f Px Pxs Wx Wxs H;
    (destruct f as [|f]; [reflexivity|]); rewrite parse_elems_S;
    apply sprefix_app in H; destruct H as [H | (p' & -> & H)].
  - specialize (Px (S lvl) p f Wx H). destruct (parse_value f p) as [[v r]|]; [|reflexivity].
    destruct Px as [-> _]. reflexivity.
  - destruct (rt_weak x (S lvl) p' f Wx (ok_follow_sprefix_items _ _ _ _ H)) as [E | E]; rewrite E; [reflexivity|].
    cbn [print_items] in H. unfold close_arr in H. rewrite (skip_ws_sprefix_close _ _ _ H). reflexivity.
  - specialize (Px (S lvl) p f Wx H). destruct (parse_value f p) as [[v r]|]; [|reflexivity].
    destruct Px as [-> _]. reflexivity.
  - destruct (rt_weak x (S lvl) p' f Wx (ok_follow_sprefix_items _ _ _ _ H)) as [E | E]; rewrite E; [reflexivity|].
    cbn [print_items] in H. unfold sep_of in H at 1. cbn [app] in H.
    apply sprefix_cons in H. destruct H as [-> | (p2 & -> & H)]; [reflexivity|].
    rewrite skip_ws_nows by reflexivity. change (44 =? 93) with false. change (44 =? 44) with true. cbv iota.
    inversion Pxs as [|? ? Py Pys]; subst. inversion Wxs as [|? ? Wy Wys]; subst.
    apply sprefix_app in H. destruct H as [H | (p3 & -> & H)].
    + rewrite (skip_ws_sprefix_nl _ _ H). rewrite parse_elems_nil. reflexivity.
    + rewrite skip_ws_nl. rewrite (skip_ws_sprefix_print _ _ _ _ H).
      rewrite (IH y p3 f Py Pys Wy Wys H). reflexivity.
Qed.

Lemma pf_arr : forall l, Forall PF l -> PF (JArr l).
Proof.
  intros l Pl lvl p f W H. pose proof (wf_j_arr _ W) as WW.
  destruct l as [|x xs].
  - cbn [print_at] in H. destruct f as [|f]; [exact I|]. sp_cases H; exact I.
  - rewrite print_at_arr in H. apply sprefix_cons in H. destruct H as [-> | (p1 & -> & H)]; [rewrite parse_value_nil; exact I|].
    destruct f as [|f]; [exact I|]. rewrite pv_arr.
    inversion Pl as [|? ? Px Pxs]; subst. inversion WW as [|? ? Wx Wxs]; subst.
    apply sprefix_app in H. destruct H as [H | (p2 & -> & H)].
    + rewrite (skip_ws_sprefix_nl _ _ H). exact I.
    + rewrite skip_ws_nl. rewrite (skip_ws_sprefix_print _ _ _ _ H).
      pose proof (pf_elems lvl xs x p2 f Px Pxs Wx Wxs H) as HE.
      destruct (print_at_head (S lvl) x) as (c & t & Heq & _ & H93 & _). rewrite Heq in H. cbn [app] in H.
      apply sprefix_cons in H. destruct H as [-> | (p3 & -> & H)]; [exact I|].
      rewrite H93. rewrite HE. exact I.
Qed.

Lemma skip_ws_sprefix_quote : forall k T p, sprefix p (quote k ++ T) -> skip_ws p = p.
Proof.
  intros k T p H. unfold quote in H. cbn [app] in H. apply sprefix_cons in H.
  destruct H as [-> | (p' & -> & _)]; reflexivity.
Qed.

Lemma pf_members : forall lvl xs k x p f,
  PF x -> Forall (fun kv => PF (snd kv)) xs -> wf_member (k, x) -> Forall wf_member xs ->
  sprefix p (quote k ++ 58 :: 32 :: print_at (S lvl) x ++
             print_members (print_at (S lvl)) (sep_of lvl) (close_obj lvl) xs) ->
  parse_members f p = None.
Proof.
  intros lvl. induction xs as [|[k' y] ys IH]; intros k x p f Px Pxs [Wk Wx] Wxs H; cbn [fst snd] in *;
    (destruct f as [|f]; [reflexivity|]);
    apply sprefix_app in H; destruct H as [H | (p1 & -> & H)].
  - unfold quote in H. apply sprefix_cons in H. destruct H as [-> | (p1 & -> & H)]; [reflexivity|].
    rewrite parse_members_S. rewrite (scan_prefix k p1 Wk H). reflexivity.
  - unfold quote. cbn [app]. rewrite <- app_assoc. cbn [app]. rewrite parse_members_S.
    rewrite scan_escape_body by assumption.
    apply sprefix_cons in H. destruct H as [-> | (p2 & -> & H)]; [reflexivity|].
    rewrite skip_ws_nows by reflexivity. change (58 =? 58) with true. cbv iota.
    apply sprefix_cons in H. destruct H as [-> | (p3 & -> & H)]; [cbn [skip_ws]; rewrite parse_value_nil; reflexivity|].
    cbn [skip_ws]. change (is_ws 32) with true. cbv iota. rewrite (skip_ws_sprefix_print _ _ _ _ H).
    apply sprefix_app in H. destruct H as [H | (p4 & -> & H)].
    + specialize (Px (S lvl) p3 f Wx H). destruct (parse_value f p3) as [[v r]|]; [|reflexivity].
      destruct Px as [-> _]. reflexivity.
    + destruct (rt_weak x (S lvl) p4 f Wx (ok_follow_sprefix_members _ _ _ _ H)) as [E | E]; rewrite E; [reflexivity|].
      cbn [print_members] in H. unfold close_obj in H. rewrite (skip_ws_sprefix_close _ _ _ H). reflexivity.
  - unfold quote in H. apply sprefix_cons in H. destruct H as [-> | (p1 & -> & H)]; [reflexivity|].
    rewrite parse_members_S. rewrite (scan_prefix k p1 Wk H). reflexivity.
  - unfold quote at 1. cbn [app]. rewrite <- app_assoc. cbn [app]. rewrite parse_members_S.
    rewrite scan_escape_body by assumption.
    apply sprefix_cons in H. destruct H as [-> | (p2 & -> & H)]; [reflexivity|].
    rewrite skip_ws_nows by reflexivity. change (58 =? 58) with true. cbv iota.
    apply sprefix_cons in H. destruct H as [-> | (p3 & -> & H)]; [cbn [skip_ws]; rewrite parse_value_nil; reflexivity|].
    cbn [skip_ws]. change (is_ws 32) with true. cbv iota. rewrite (skip_ws_sprefix_print _ _ _ _ H).
    apply sprefix_app in H. destruct H as [H | (p4 & -> & H)].
    + specialize (Px (S lvl) p3 f Wx H). destruct (parse_value f p3) as [[v r]|]; [|reflexivity].
      destruct Px as [-> _]. reflexivity.
    + destruct (rt_weak x (S lvl) p4 f Wx (ok_follow_sprefix_members _ _ _ _ H)) as [E | E]; rewrite E; [reflexivity|].
      cbn [print_members] in H. unfold sep_of in H at 1. cbn [app] in H.
      apply sprefix_cons in H. destruct H as [-> | (p5 & -> & H)]; [reflexivity|].
      rewrite skip_ws_nows by reflexivity. change (44 =? 125) with false. change (44 =? 44) with true. cbv iota.
      inversion Pxs as [|? ? Py Pys]; subst. inversion Wxs as [|? ? Wy Wys]; subst. cbn [snd] in Py.
      apply sprefix_app in H. destruct H as [H | (p6 & -> & H)].
      * rewrite (skip_ws_sprefix_nl _ _ H). rewrite parse_members_nil. reflexivity.
      * rewrite skip_ws_nl. rewrite (skip_ws_sprefix_quote _ _ _ H).
        rewrite (IH k' y p6 f Py Pys Wy Wys H). reflexivity.
Qed.

Lemma pf_obj : forall l, Forall (fun kv => PF (snd kv)) l -> PF (JObj l).
Proof.
  intros l Pl lvl p f W H. destruct (wf_j_obj _ W) as [_ WW].
  destruct l as [|[k x] xs].
  - cbn [print_at] in H. destruct f as [|f]; [exact I|]. sp_cases H; exact I.
  - rewrite print_at_obj in H. apply sprefix_cons in H. destruct H as [-> | (p1 & -> & H)]; [rewrite parse_value_nil; exact I|].
    destruct f as [|f]; [exact I|]. rewrite pv_obj.
    inversion Pl as [|? ? Px Pxs]; subst. inversion WW as [|? ? Wx Wxs]; subst. cbn [snd] in Px.
    apply sprefix_app in H. destruct H as [H | (p2 & -> & H)].
    + rewrite (skip_ws_sprefix_nl _ _ H). exact I.
    + rewrite skip_ws_nl. rewrite (skip_ws_sprefix_quote _ _ _ H).
      pose proof (pf_members lvl xs k x p2 f Px Pxs Wx Wxs H) as HE.
      unfold quote in H. cbn [app] in H.
      apply sprefix_cons in H. destruct H as [-> | (p3 & -> & H)]; [exact I|].
      change (34 =? 125) with false. cbv iota. rewrite HE. exact I.
Qed.

Theorem pf_all : forall v, PF v.
Proof.
  induction v as [ | b | z | s | l IH | l IH] using jvalue_ind'.
  - apply pf_lit. left. reflexivity.
  - apply pf_lit. right. destruct b; [left | right]; reflexivity.
  - apply pf_int.
  - apply pf_str.
  - apply pf_arr. exact IH.
  - apply pf_obj. exact IH.
Qed.

(* Layer 5: no strict prefix of a printed object / array / string / literal is accepted, whatever the fuel.
   (A number is excluded: "12" is a strict prefix of "123".) *)
Theorem strict_prefix_rejected_fuel : forall v p fuel,
  wf_j v = true -> (forall z, v <> JInt z) -> sprefix p (print v) -> parse_fuel fuel p = None.
Proof.
  intros v p fuel W Hv H. unfold parse_fuel, print in *.
  assert (H' : sprefix p (print_at 0 v ++ [])) by (rewrite app_nil_r; exact H).
  rewrite (skip_ws_sprefix_print _ _ _ _ H').
  pose proof (pf_all v 0%nat p fuel W H) as P.
  destruct (parse_value fuel p) as [[v' r]|]; [|reflexivity].
  destruct P as [_ [z Hz]]. exfalso. exact (Hv z Hz).
Qed.

Theorem strict_prefix_rejected : forall v p,
  wf_j v = true -> (forall z, v <> JInt z) -> sprefix p (print v) -> parse p = None.
Proof. intros v p W Hv H. unfold parse. apply (strict_prefix_rejected_fuel v p _ W Hv H). Qed.
