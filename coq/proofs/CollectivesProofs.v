(* C12: soundness of the uniformity condition.  If [uniform s = true] then the sequence of collectives a rank
   issues depends only on the shared environment, never on rank-local conditions or loop counts. *)
From TS Require Import model.Base model.Collectives.
From Coq Require Import Arith Lia.
Local Close Scope Z_scope.
Local Open Scope nat_scope.

Lemma iter_no_coll (body : list nat -> list nat * bool) ctx n start :
  (forall c, fst (body c) = []) -> fst (iter body ctx n start) = [].
Proof.
  intros Hb. revert start; induction n as [|n IH]; intros start; cbn [iter]; [reflexivity|].
  destruct (body (start :: ctx)) as [t r] eqn:E. pose proof (Hb (start :: ctx)) as Ht. rewrite E in Ht. cbn in Ht. subst t.
  destruct r; [reflexivity|]. specialize (IH (S start)). destruct (iter body ctx n (S start)) as [t' r']. cbn in *. exact IH.
Qed.

Lemma iter_no_ret (body : list nat -> list nat * bool) ctx n start :
  (forall c, snd (body c) = false) -> snd (iter body ctx n start) = false.
Proof.
  intros Hb. revert start; induction n as [|n IH]; intros start; cbn [iter]; [reflexivity|].
  destruct (body (start :: ctx)) as [t r] eqn:E. pose proof (Hb (start :: ctx)) as Hr. rewrite E in Hr. cbn in Hr. subst r.
  specialize (IH (S start)). destruct (iter body ctx n (S start)) as [t' r']. cbn in *. exact IH.
Qed.

Lemma no_coll_trace g l s : has_coll s = false -> forall ctx, fst (run g l s ctx) = [].
Proof.
  induction s as [| k | | a IHa b IHb | s IH | c a IHa b IHb | c a IHa b IHb | c b IH | c b IH]; cbn [has_coll run]; intros H ctx;
    try reflexivity; try discriminate.
  - apply Bool.orb_false_elim in H. destruct H as [Ha Hb]. specialize (IHa Ha ctx). specialize (IHb Hb ctx).
    destruct (run g l a ctx) as [t r]. cbn in IHa. subst t. destruct r; [reflexivity|].
    destruct (run g l b ctx) as [t' r']. cbn in *. exact IHb.
  - cbn. apply IH; exact H.
  - apply Bool.orb_false_elim in H. destruct H as [Ha Hb]. destruct (Nat.eqb _ 0); [apply IHb | apply IHa]; assumption.
  - apply Bool.orb_false_elim in H. destruct H as [Ha Hb]. destruct (Nat.eqb _ 0); [apply IHb | apply IHa]; assumption.
  - apply iter_no_coll. intros c0. apply IH; exact H.
  - apply iter_no_coll. intros c0. apply IH; exact H.
Qed.

Lemma no_may_ret_flag g l s : may_ret s = false -> forall ctx, snd (run g l s ctx) = false.
Proof.
  induction s as [| k | | a IHa b IHb | s IH | c a IHa b IHb | c a IHa b IHb | c b IH | c b IH]; cbn [may_ret run]; intros H ctx;
    try reflexivity; try discriminate.
  - apply Bool.orb_false_elim in H. destruct H as [Ha Hb]. specialize (IHa Ha ctx). specialize (IHb Hb ctx).
    destruct (run g l a ctx) as [t r]. cbn in IHa. subst r.
    destruct (run g l b ctx) as [t' r']. cbn in *. exact IHb.
  - apply Bool.orb_false_elim in H. destruct H as [Ha Hb]. destruct (Nat.eqb _ 0); [apply IHb | apply IHa]; assumption.
  - apply Bool.orb_false_elim in H. destruct H as [Ha Hb]. destruct (Nat.eqb _ 0); [apply IHb | apply IHa]; assumption.
  - apply iter_no_ret. intros c0. apply IH; exact H.
  - apply iter_no_ret. intros c0. apply IH; exact H.
Qed.

(* the loop lemma: same count, body uniform in the sense of the induction hypothesis *)
Lemma iter_same (b1 b2 : list nat -> list nat * bool) (flags_eq : bool) ctx n start :
  (forall c, fst (b1 c) = fst (b2 c)) ->
  (flags_eq = true -> forall c, snd (b1 c) = snd (b2 c)) ->
  (flags_eq = false -> forall c, fst (b1 c) = []) ->
  fst (iter b1 ctx n start) = fst (iter b2 ctx n start) /\
  (flags_eq = true -> snd (iter b1 ctx n start) = snd (iter b2 ctx n start)).
Proof.
  intros Ht Hf Hnil. destruct flags_eq.
  - specialize (Hf eq_refl). revert start; induction n as [|n IH]; intros start; cbn [iter]; [split; reflexivity|].
    pose proof (Ht (start :: ctx)) as E1. pose proof (Hf (start :: ctx)) as E2.
    destruct (b1 (start :: ctx)) as [t1 r1]; destruct (b2 (start :: ctx)) as [t2 r2]. cbn in E1, E2. subst t2 r2.
    destruct r1; [split; reflexivity|]. specialize (IH (S start)).
    destruct (iter b1 ctx n (S start)) as [u1 q1]; destruct (iter b2 ctx n (S start)) as [u2 q2]. cbn in *.
    destruct IH as [A B]. split; [congruence | exact B].
  - specialize (Hnil eq_refl). split; [|discriminate].
    rewrite (iter_no_coll b1) by exact Hnil.
    rewrite (iter_no_coll b2) by (intros c0; rewrite <- Ht; apply Hnil). reflexivity.
Qed.

Lemma uniform_run g l1 l2 s :
  uniform s = true ->
  forall ctx, fst (run g l1 s ctx) = fst (run g l2 s ctx) /\
              (lret s = false -> snd (run g l1 s ctx) = snd (run g l2 s ctx)).
Proof.
  induction s as [| k | | a IHa b IHb | s IH | c a IHa b IHb | c a IHa b IHb | c b IH | c b IH]; cbn [uniform lret run]; intros H ctx.
  - split; reflexivity.
  - split; reflexivity.
  - split; reflexivity.
  - (* Seq *)
    apply andb_prop in H. destruct H as [H Hside]. apply andb_prop in H. destruct H as [Ha Hb].
    destruct (IHa Ha ctx) as [Ta Fa]. destruct (IHb Hb ctx) as [Tb Fb].
    destruct (lret a) eqn:La.
    + (* a may return locally: then b issues no collective *)
      cbn in Hside. apply Bool.negb_true_iff in Hside.
      pose proof (no_coll_trace g l1 b Hside ctx) as N1. pose proof (no_coll_trace g l2 b Hside ctx) as N2.
      destruct (run g l1 a ctx) as [t1 r1]; destruct (run g l2 a ctx) as [t2 r2]. cbn in Ta. subst t2.
      destruct (run g l1 b ctx) as [u1 q1]; destruct (run g l2 b ctx) as [u2 q2]. cbn in N1, N2. subst u1 u2.
      split; [|cbn; discriminate].
      destruct r1, r2; cbn; rewrite ?app_nil_r; reflexivity.
    + specialize (Fa eq_refl).
      destruct (run g l1 a ctx) as [t1 r1]; destruct (run g l2 a ctx) as [t2 r2]. cbn in Ta, Fa. subst t2 r2.
      destruct r1; [split; reflexivity|].
      destruct (run g l1 b ctx) as [u1 q1]; destruct (run g l2 b ctx) as [u2 q2]. cbn in *.
      split; [congruence | exact Fb].
  - (* Scope *) destruct (IH H ctx) as [T _]. cbn. split; [exact T | reflexivity].
  - (* IfU *)
    apply andb_prop in H. destruct H as [Ha Hb]. destruct (Nat.eqb (g c ctx) 0).
    + destruct (IHb Hb ctx) as [T F]. split; [exact T|]. intros Hl. apply Bool.orb_false_elim in Hl. apply F; tauto.
    + destruct (IHa Ha ctx) as [T F]. split; [exact T|]. intros Hl. apply Bool.orb_false_elim in Hl. apply F; tauto.
  - (* IfL *)
    apply andb_prop in H. destruct H as [Ha Hb]. apply Bool.negb_true_iff in Ha, Hb.
    split.
    + destruct (Nat.eqb (l1 c ctx) 0), (Nat.eqb (l2 c ctx) 0);
        rewrite ?(no_coll_trace g l1 a Ha), ?(no_coll_trace g l2 a Ha), ?(no_coll_trace g l1 b Hb), ?(no_coll_trace g l2 b Hb); reflexivity.
    + intros Hl. apply Bool.orb_false_elim in Hl. destruct Hl as [Ma Mb].
      destruct (Nat.eqb (l1 c ctx) 0), (Nat.eqb (l2 c ctx) 0);
        rewrite ?(no_may_ret_flag g l1 a Ma), ?(no_may_ret_flag g l2 a Ma), ?(no_may_ret_flag g l1 b Mb), ?(no_may_ret_flag g l2 b Mb); reflexivity.
  - (* LoopU *)
    apply andb_prop in H. destruct H as [Hb Hside].
    destruct (lret b) eqn:Lb.
    + cbn in Hside. apply Bool.negb_true_iff in Hside.
      split; [|discriminate].
      rewrite (iter_no_coll (run g l1 b)) by (intros c0; apply no_coll_trace; exact Hside).
      rewrite (iter_no_coll (run g l2 b)) by (intros c0; apply no_coll_trace; exact Hside). reflexivity.
    + destruct (iter_same (run g l1 b) (run g l2 b) true ctx (g c ctx) 0) as [T F].
      * intros c0. apply (IH Hb c0).
      * intros _ c0. apply (IH Hb c0). reflexivity.
      * discriminate.
      * split; [exact T | intros _; apply F; reflexivity].
  - (* LoopL *)
    apply Bool.negb_true_iff in H. split.
    + rewrite (iter_no_coll (run g l1 b)) by (intros c0; apply no_coll_trace; exact H).
      rewrite (iter_no_coll (run g l2 b)) by (intros c0; apply no_coll_trace; exact H). reflexivity.
    + intros Hm. rewrite !iter_no_ret by (intros c0; apply no_may_ret_flag; exact Hm). reflexivity.
Qed.

Theorem uniform_sound s : uniform s = true -> forall g l1 l2, trace s g l1 = trace s g l2.
Proof. intros H g l1 l2. unfold trace. apply (uniform_run g l1 l2 s H []). Qed.
