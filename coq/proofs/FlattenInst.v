(* C15: the definitions generated from /repo's flatten.py (gen/FlattenGen.v, rewritten on every run) equal the
   hand model the theorems are about.  A change to _encode / _should_flatten_dict in the source changes the
   generated term and breaks one of these two obligations. *)
From TS Require Import model.Base model.Flatten proofs.FlattenProofs gen.FlattenGen.

Definition sub_char (c : Z) (new : pystr) (x : Z) : pystr := if x =? c then new else [x].

Lemma replace_fuel_char : forall c new n s, (length s <= n)%nat ->
  replace_fuel n [c] new s = flat_map (sub_char c new) s.
Proof.
  intros c new n. induction n as [|n IH]; intros s L.
  - destruct s; [reflexivity | cbn [length] in L; lia].
  - destruct s as [|x r]; [reflexivity|]. cbn [length] in L.
    cbn [replace_fuel strip_str flat_map]. unfold sub_char at 1. rewrite (Z.eqb_sym x c).
    destruct (c =? x); rewrite IH by lia; reflexivity.
Qed.

Lemma replace_all_char : forall c new s, replace_all [c] new s = flat_map (sub_char c new) s.
Proof. intros c new s. unfold replace_all. apply replace_fuel_char. lia. Qed.

Lemma esc_two_passes : forall s,
  flat_map (sub_char 47 [37; 50; 70]) (flat_map (sub_char 37 [37; 50; 53]) s) = flat_map esc_char s.
Proof.
  induction s as [|x s IH]; [reflexivity|]. cbn [flat_map]. rewrite flat_map_app, IH. f_equal.
  unfold sub_char, esc_char. destruct (x =? 37) eqn:E1; [reflexivity|].
  cbn [flat_map app]. rewrite app_nil_r. reflexivity.
Qed.

Lemma esc_dot_sub : forall s, flat_map (sub_char 46 [37; 50; 69]) s = flat_map esc_dot s.
Proof. reflexivity. Qed.

Theorem encode_gen_is_encode : forall s, encode_gen s = encode s.
Proof.
  intro s. unfold encode_gen, encode. cbv zeta. rewrite !replace_all_char, esc_two_passes, esc_dot_sub.
  cbn [existsb]. rewrite orb_false_r. reflexivity.
Qed.

Theorem should_flatten_gen_is_should_flatten : forall ks, should_flatten_gen ks = should_flatten ks.
Proof. intro ks. reflexivity. Qed.
