(* C08: proofs about model/Reshard.v.  Strategy: reflect the structural (executable) definitions into
   per-dimension statements over [nth i _ 0]; every n-dimensional fact is then the 1-D interval fact (lia)
   at each dimension. *)
From TS Require Import model.Base model.Reshard.
From Coq Require Import Permutation.

(* ================================================================== lists, vectors *)
Lemma coord_eqb_eq (a b : coord) : coord_eqb a b = true <-> a = b.
Proof.
  unfold coord_eqb. revert b; induction a as [|x a IH]; intros [|y b]; cbn; split; intros H;
    try reflexivity; try discriminate.
  - apply andb_prop in H as [H1 H2]. apply Z.eqb_eq in H1. apply IH in H2. congruence.
  - inversion H; subst. rewrite Z.eqb_refl. cbn. apply IH. reflexivity.
Qed.

Lemma coord_eqb_refl a : coord_eqb a a = true.
Proof. apply coord_eqb_eq. reflexivity. Qed.

Lemma coord_eqb_neq a b : a <> b -> coord_eqb a b = false.
Proof. intros H. destruct (coord_eqb a b) eqn:E; [|reflexivity]. apply coord_eqb_eq in E. contradiction. Qed.

Lemma vadd_length a b : length a = length b -> length (vadd a b) = length a.
Proof. revert b; induction a as [|x a IH]; intros [|y b] H; cbn in *; try discriminate; [reflexivity|]. f_equal. apply IH. lia. Qed.

Lemma vsub_length a b : length a = length b -> length (vsub a b) = length a.
Proof. revert b; induction a as [|x a IH]; intros [|y b] H; cbn in *; try discriminate; [reflexivity|]. f_equal. apply IH. lia. Qed.

Lemma vadd_nth a b i : length a = length b -> nth i (vadd a b) 0 = nth i a 0 + nth i b 0.
Proof.
  revert b i; induction a as [|x a IH]; intros [|y b] i H; cbn in *; try discriminate.
  - destruct i; reflexivity.
  - destruct i; [reflexivity|]. apply IH. lia.
Qed.

Lemma vsub_nth a b i : length a = length b -> nth i (vsub a b) 0 = nth i a 0 - nth i b 0.
Proof.
  revert b i; induction a as [|x a IH]; intros [|y b] i H; cbn in *; try discriminate.
  - destruct i; reflexivity.
  - destruct i; [reflexivity|]. apply IH. lia.
Qed.

Lemma zeros_length l : length (zeros l) = length l.
Proof. apply map_length. Qed.

Lemma zeros_nth l i : nth i (zeros l) 0 = 0.
Proof. unfold zeros. revert i; induction l as [|x l IH]; intros [|i]; cbn; auto. Qed.

Lemma upd_length l k v : length (upd l k v) = length l.
Proof. revert k; induction l as [|x l IH]; intros [|k]; cbn; auto. Qed.

Lemma upd_nth_same l k v : (k < length l)%nat -> nth k (upd l k v) 0 = v.
Proof. revert k; induction l as [|x l IH]; intros [|k] H; cbn in *; try lia; auto. apply IH. lia. Qed.

Lemma upd_nth_other l k v i : i <> k -> nth i (upd l k v) 0 = nth i l 0.
Proof.
  revert k i; induction l as [|x l IH]; intros [|k] [|i] H; cbn; auto; try congruence.
Qed.

Lemma list_eq_nth (a b : list Z) :
  length a = length b -> (forall i, (i < length a)%nat -> nth i a 0 = nth i b 0) -> a = b.
Proof. intros HL H. apply nth_ext with (d := 0) (d' := 0); assumption. Qed.

(* ================================================================== membership, reflected *)
Lemma in_range_spec off sz x :
  in_range off sz x = true <->
  length off = length x /\ length sz = length x /\
  forall i, (i < length x)%nat -> nth i off 0 <= nth i x 0 < nth i off 0 + nth i sz 0.
Proof.
  revert sz x; induction off as [|o off IH]; intros [|s sz] [|v x]; cbn; split; intros H;
    try discriminate; try (destruct H as (H1 & H2 & _); discriminate).
  - split; [reflexivity|]. split; [reflexivity|]. intros i Hi; lia.
  - reflexivity.
  - apply andb_prop in H as [H H3]. apply andb_prop in H as [H1 H2].
    apply IH in H3 as (L1 & L2 & H3). split; [lia|]. split; [lia|].
    intros i Hi. destruct i; cbn; [lia|]. apply H3. lia.
  - destruct H as (L1 & L2 & H3). apply andb_true_intro; split; [apply andb_true_intro; split|].
    + specialize (H3 O ltac:(lia)). cbn in H3. lia.
    + specialize (H3 O ltac:(lia)). cbn in H3. lia.
    + apply IH. split; [lia|]. split; [lia|]. intros i Hi. specialize (H3 (S i) ltac:(lia)). cbn in H3. exact H3.
Qed.

Definition wfb (n : nat) (b : box) : Prop := length (boff b) = n /\ length (bsz b) = n.

Lemma in_box_spec n b g : wfb n b ->
  (in_box b g = true <->
   length g = n /\ forall i, (i < n)%nat -> nth i (boff b) 0 <= nth i g 0 < nth i (boff b) 0 + nth i (bsz b) 0).
Proof.
  intros [H1 H2]. unfold in_box. rewrite in_range_spec. split.
  - intros (L1 & L2 & H). split; [lia|]. intros i Hi. apply H. lia.
  - intros (L & H). split; [lia|]. split; [lia|]. intros i Hi. apply H. lia.
Qed.

Lemma in_local_spec n b c : wfb n b ->
  (in_local b c = true <-> length c = n /\ forall i, (i < n)%nat -> 0 <= nth i c 0 < nth i (bsz b) 0).
Proof.
  intros [H1 H2]. unfold in_local. rewrite in_range_spec. rewrite zeros_length. split.
  - intros (L1 & L2 & H). split; [lia|]. intros i Hi. specialize (H i ltac:(lia)). rewrite zeros_nth in H. lia.
  - intros (L & H). split; [lia|]. split; [lia|]. intros i Hi. rewrite zeros_nth. specialize (H i ltac:(lia)). lia.
Qed.

Lemma in_lens_spec lens c :
  in_range (zeros lens) lens c = true <->
  length c = length lens /\ forall i, (i < length lens)%nat -> 0 <= nth i c 0 < nth i lens 0.
Proof.
  rewrite in_range_spec, zeros_length. split.
  - intros (L1 & L2 & H). split; [lia|]. intros i Hi. specialize (H i ltac:(lia)). rewrite zeros_nth in H. lia.
  - intros (L & H). split; [lia|]. split; [lia|]. intros i Hi. rewrite zeros_nth. specialize (H i ltac:(lia)). lia.
Qed.

(* ================================================================== torch's overlap test, reflected *)
Lemma overlaps_l_spec o1 : forall s1 o2 s2 n,
  length o1 = n -> length s1 = n -> length o2 = n -> length s2 = n ->
  (overlaps_l o1 s1 o2 s2 = true <->
   forall i, (i < n)%nat -> nth i o1 0 < nth i o2 0 + nth i s2 0 /\ nth i o2 0 < nth i o1 0 + nth i s1 0).
Proof.
  induction o1 as [|a o1 IH]; intros [|x s1] [|b o2] [|y s2] n L1 L2 L3 L4; cbn in *; subst n; try discriminate.
  - split; [intros _ i Hi; lia | reflexivity].
  - injection L2 as L2. injection L3 as L3. injection L4 as L4.
    specialize (IH s1 o2 s2 (length o1) eq_refl L2 L3 L4). split.
    + intros H. apply andb_prop in H as [H H3]. apply andb_prop in H as [H1 H2].
      apply negb_true_iff in H1, H2. apply Z.leb_gt in H1, H2.
      intros [|i] Hi; cbn; [lia|]. apply IH; [exact H3|lia].
    + intros H. apply andb_true_intro; split; [apply andb_true_intro; split|].
      * apply negb_true_iff, Z.leb_gt. specialize (H O ltac:(lia)). cbn in H. lia.
      * apply negb_true_iff, Z.leb_gt. specialize (H O ltac:(lia)). cbn in H. lia.
      * apply IH. intros i Hi. specialize (H (S i) ltac:(lia)). cbn in H. exact H.
Qed.

Lemma overlaps_spec n b1 b2 : wfb n b1 -> wfb n b2 ->
  (overlaps b1 b2 = true <->
   forall i, (i < n)%nat -> nth i (boff b1) 0 < nth i (boff b2) 0 + nth i (bsz b2) 0 /\
                            nth i (boff b2) 0 < nth i (boff b1) 0 + nth i (bsz b1) 0).
Proof. intros [A1 A2] [B1 B2]. unfold overlaps. apply overlaps_l_spec; assumption. Qed.

Lemma overlaps_sym n b1 b2 : wfb n b1 -> wfb n b2 -> overlaps b1 b2 = overlaps b2 b1.
Proof.
  intros W1 W2. destruct (overlaps b1 b2) eqn:E1, (overlaps b2 b1) eqn:E2; try reflexivity.
  - rewrite (overlaps_spec n) in E1 by assumption.
    assert (overlaps b2 b1 = true) as X; [|congruence].
    apply (overlaps_spec n); try assumption. intros i Hi. specialize (E1 i Hi). lia.
  - rewrite (overlaps_spec n) in E2 by assumption.
    assert (overlaps b1 b2 = true) as X; [|congruence].
    apply (overlaps_spec n); try assumption. intros i Hi. specialize (E2 i Hi). lia.
Qed.

(* boxes the test calls non-overlapping have no coordinate in common *)
Lemma overlaps_false_disjoint n b1 b2 g : wfb n b1 -> wfb n b2 ->
  overlaps b1 b2 = false -> in_box b1 g = true -> in_box b2 g = true -> False.
Proof.
  intros W1 W2 E G1 G2.
  assert (overlaps b1 b2 = true) as X; [|congruence].
  apply (overlaps_spec n); try assumption.
  apply (in_box_spec n) in G1 as [_ G1]; [|assumption].
  apply (in_box_spec n) in G2 as [_ G2]; [|assumption].
  intros i Hi. specialize (G1 i Hi). specialize (G2 i Hi). lia.
Qed.

(* with positive sizes the test is exactly "the boxes share a coordinate" *)
Lemma overlaps_true_intersect n b1 b2 : wfb n b1 -> wfb n b2 ->
  (forall i, (i < n)%nat -> 0 < nth i (bsz b1) 0) -> (forall i, (i < n)%nat -> 0 < nth i (bsz b2) 0) ->
  overlaps b1 b2 = true -> exists g, in_box b1 g = true /\ in_box b2 g = true.
Proof.
  intros W1 W2 P1 P2 E. rewrite (overlaps_spec n) in E by assumption.
  pose (g := map (fun p => Z.max (fst p) (snd p)) (combine (boff b1) (boff b2))).
  destruct W1 as [A1 A2], W2 as [B1 B2].
  assert (length g = n) as Lg by (unfold g; rewrite map_length, combine_length; lia).
  assert (forall i, (i < n)%nat -> nth i g 0 = Z.max (nth i (boff b1) 0) (nth i (boff b2) 0)) as Hg.
  { intros i Hi. unfold g.
    change 0 with ((fun p : Z * Z => Z.max (fst p) (snd p)) (0, 0)) at 1.
    rewrite map_nth, combine_nth by lia. reflexivity. }
  exists g. split; apply (in_box_spec n); try (split; assumption); (split; [assumption|]);
    intros i Hi; rewrite (Hg i Hi); specialize (E i Hi); specialize (P1 i Hi); specialize (P2 i Hi); lia.
Qed.

(* ================================================================== the overlap region, reflected *)
Lemma region_dim_spec a x b y :
  region_dim a x b y = (Z.max a b - a, Z.max a b - b, Z.min (a + x) (b + y) - Z.max a b).
Proof.
  unfold region_dim. destruct (a >? b) eqn:E.
  - apply Z.gtb_lt in E. f_equal; [f_equal|]; lia.
  - assert (a <= b) by (destruct (Z.gtb_spec a b); [discriminate|lia]). f_equal; [f_equal|]; lia.
Qed.

Lemma overlap_region_l_nth so : forall ss co cs n i,
  length so = n -> length ss = n -> length co = n -> length cs = n -> (i < n)%nat ->
  nth i (overlap_region_l so ss co cs) (0, 0, 0) =
  region_dim (nth i so 0) (nth i ss 0) (nth i co 0) (nth i cs 0).
Proof.
  induction so as [|a so IH]; intros [|x ss] [|b co] [|y cs] n i L1 L2 L3 L4 Hi; cbn in *; subst n;
    try discriminate; try lia.
  destruct i; [reflexivity|]. apply (IH ss co cs (length so)); try lia.
Qed.

Lemma overlap_region_l_length so : forall ss co cs n,
  length so = n -> length ss = n -> length co = n -> length cs = n ->
  length (overlap_region_l so ss co cs) = n.
Proof.
  induction so as [|a so IH]; intros [|x ss] [|b co] [|y cs] n L1 L2 L3 L4; cbn in *; subst n;
    try discriminate; [reflexivity|]. f_equal. apply IH; lia.
Qed.

Section RegionFacts.
  Variables (n : nat) (sv cu : box).
  Hypothesis (Wsv : wfb n sv) (Wcu : wfb n cu).
  Let R := overlap_region sv cu.

  Lemma region_length : length R = n.
  Proof. destruct Wsv, Wcu. apply overlap_region_l_length; assumption. Qed.

  Lemma r_src_length : length (r_src R) = n.
  Proof. unfold r_src. rewrite map_length. apply region_length. Qed.
  Lemma r_dst_length : length (r_dst R) = n.
  Proof. unfold r_dst. rewrite map_length. apply region_length. Qed.
  Lemma r_len_length : length (r_len R) = n.
  Proof. unfold r_len. rewrite map_length. apply region_length. Qed.

  Let a i := nth i (boff sv) 0.
  Let x i := nth i (bsz sv) 0.
  Let b i := nth i (boff cu) 0.
  Let y i := nth i (bsz cu) 0.

  Lemma region_nth i : (i < n)%nat ->
    nth i R (0, 0, 0) = (Z.max (a i) (b i) - a i, Z.max (a i) (b i) - b i,
                         Z.min (a i + x i) (b i + y i) - Z.max (a i) (b i)).
  Proof.
    intros Hi. destruct Wsv, Wcu. unfold R, overlap_region.
    rewrite (overlap_region_l_nth _ _ _ _ n) by assumption. apply region_dim_spec.
  Qed.

  Lemma r_src_nth i : (i < n)%nat -> nth i (r_src R) 0 = Z.max (a i) (b i) - a i.
  Proof.
    intros Hi. unfold r_src.
    change 0 with ((fun t : Z * Z * Z => fst (fst t)) (0, 0, 0)) at 1.
    rewrite map_nth, region_nth by assumption. reflexivity.
  Qed.
  Lemma r_dst_nth i : (i < n)%nat -> nth i (r_dst R) 0 = Z.max (a i) (b i) - b i.
  Proof.
    intros Hi. unfold r_dst.
    change 0 with ((fun t : Z * Z * Z => snd (fst t)) (0, 0, 0)) at 1.
    rewrite map_nth, region_nth by assumption. reflexivity.
  Qed.
  Lemma r_len_nth i : (i < n)%nat ->
    nth i (r_len R) 0 = Z.min (a i + x i) (b i + y i) - Z.max (a i) (b i).
  Proof.
    intros Hi. unfold r_len.
    change 0 with ((@snd (Z * Z) Z) (0, 0, 0)) at 1.
    rewrite map_nth, region_nth by assumption. reflexivity.
  Qed.

  (* forward: inside the length box both narrows name the same global coordinate, inside both boxes *)
  Lemma region_forward c :
    in_range (zeros (r_len R)) (r_len R) c = true ->
    vadd (boff sv) (vadd (r_src R) c) = vadd (boff cu) (vadd (r_dst R) c) /\
    in_box sv (vadd (boff sv) (vadd (r_src R) c)) = true /\
    in_box cu (vadd (boff cu) (vadd (r_dst R) c)) = true /\
    in_local sv (vadd (r_src R) c) = true /\
    in_local cu (vadd (r_dst R) c) = true.
  Proof.
    intros Hc. apply in_lens_spec in Hc as [Lc Hc]. rewrite r_len_length in Lc, Hc.
    pose proof r_src_length as LS. pose proof r_dst_length as LD.
    destruct Wsv as [A1 A2], Wcu as [B1 B2].
    assert (length (vadd (r_src R) c) = n) as L1 by (rewrite vadd_length; lia).
    assert (length (vadd (r_dst R) c) = n) as L2 by (rewrite vadd_length; lia).
    assert (forall i, (i < n)%nat ->
              nth i (vadd (r_src R) c) 0 = Z.max (a i) (b i) - a i + nth i c 0) as S1.
    { intros i Hi. rewrite vadd_nth by lia. rewrite r_src_nth by assumption. reflexivity. }
    assert (forall i, (i < n)%nat ->
              nth i (vadd (r_dst R) c) 0 = Z.max (a i) (b i) - b i + nth i c 0) as S2.
    { intros i Hi. rewrite vadd_nth by lia. rewrite r_dst_nth by assumption. reflexivity. }
    repeat split.
    - apply list_eq_nth; rewrite !vadd_length by lia; [lia|].
      intros i Hi. rewrite (vadd_nth (boff sv)), (vadd_nth (boff cu)) by lia. rewrite S1, S2 by lia. fold (a i) (b i). lia.
    - apply (in_box_spec n); [split; assumption|]. split; [rewrite vadd_length; lia|].
      intros i Hi. rewrite (vadd_nth (boff sv)) by lia. rewrite S1 by assumption.
      specialize (Hc i Hi). rewrite r_len_nth in Hc by assumption. fold (a i) (x i). lia.
    - apply (in_box_spec n); [split; assumption|]. split; [rewrite vadd_length; lia|].
      intros i Hi. rewrite (vadd_nth (boff cu)) by lia. rewrite S2 by assumption.
      specialize (Hc i Hi). rewrite r_len_nth in Hc by assumption. fold (b i) (y i). lia.
    - apply (in_local_spec n); [split; assumption|]. split; [assumption|].
      intros i Hi. rewrite S1 by assumption.
      specialize (Hc i Hi). rewrite r_len_nth in Hc by assumption. fold (x i). lia.
    - apply (in_local_spec n); [split; assumption|]. split; [assumption|].
      intros i Hi. rewrite S2 by assumption.
      specialize (Hc i Hi). rewrite r_len_nth in Hc by assumption. fold (y i). lia.
  Qed.

  (* backward: every global coordinate of the intersection is hit by exactly one c of the length box *)
  Lemma region_backward g :
    in_box sv g = true -> in_box cu g = true ->
    exists c, in_range (zeros (r_len R)) (r_len R) c = true /\
              vadd (boff sv) (vadd (r_src R) c) = g /\
              vadd (boff cu) (vadd (r_dst R) c) = g /\
              forall c', in_range (zeros (r_len R)) (r_len R) c' = true ->
                         (vadd (boff sv) (vadd (r_src R) c') = g \/ vadd (boff cu) (vadd (r_dst R) c') = g) ->
                         c' = c.
  Proof.
    intros G1 G2.
    apply (in_box_spec n) in G1 as [Lg G1]; [|assumption].
    apply (in_box_spec n) in G2 as [_ G2]; [|assumption].
    pose proof r_src_length as LS. pose proof r_dst_length as LD. pose proof r_len_length as LL.
    destruct Wsv as [A1 A2], Wcu as [B1 B2].
    pose (c := vsub (vsub g (boff sv)) (r_src R)).
    assert (length c = n) as Lc by (unfold c; rewrite !vsub_length; rewrite ?vsub_length; lia).
    assert (forall i, (i < n)%nat -> nth i c 0 = nth i g 0 - Z.max (a i) (b i)) as Hcn.
    { intros i Hi. unfold c. rewrite vsub_nth by (rewrite vsub_length; lia).
      rewrite vsub_nth by lia. rewrite r_src_nth by assumption. fold (a i). lia. }
    assert (in_range (zeros (r_len R)) (r_len R) c = true) as Hin.
    { apply in_lens_spec. rewrite LL. split; [assumption|]. intros i Hi.
      rewrite Hcn, r_len_nth by assumption. specialize (G1 i Hi). specialize (G2 i Hi).
      fold (a i) (x i) in G1. fold (b i) (y i) in G2. lia. }
    exists c. split; [exact Hin|].
    assert (vadd (boff sv) (vadd (r_src R) c) = g) as E1.
    { apply list_eq_nth; rewrite !vadd_length by (rewrite ?vadd_length; lia); [lia|].
      intros i Hi. rewrite vadd_nth by (rewrite vadd_length; lia). rewrite vadd_nth by lia.
      rewrite r_src_nth, Hcn by lia. fold (a i). lia. }
    split; [exact E1|]. split.
    { destruct (region_forward c Hin) as (E & _). rewrite <- E. exact E1. }
    intros c' Hin' Hc'.
    assert (vadd (boff sv) (vadd (r_src R) c') = g) as E1'.
    { destruct Hc' as [H|H]; [exact H|]. destruct (region_forward c' Hin') as (E & _). rewrite E. exact H. }
    apply in_lens_spec in Hin' as [Lc' _]. rewrite LL in Lc'.
    apply list_eq_nth; [lia|]. intros i Hi. rewrite Lc' in Hi.
    assert (nth i (vadd (boff sv) (vadd (r_src R) c')) 0 = nth i (vadd (boff sv) (vadd (r_src R) c)) 0) as Q
      by (rewrite E1, E1'; reflexivity).
    rewrite !vadd_nth in Q by (rewrite ?vadd_length; lia). lia.
  Qed.
End RegionFacts.

(* ================================================================== more vector facts *)
Lemma vadd_length_min a b : length (vadd a b) = Nat.min (length a) (length b).
Proof. revert b; induction a as [|x a IH]; intros [|y b]; cbn; auto. Qed.
Lemma vsub_length_min a b : length (vsub a b) = Nat.min (length a) (length b).
Proof. revert b; induction a as [|x a IH]; intros [|y b]; cbn; auto. Qed.
Ltac vlen := repeat (rewrite vadd_length_min || rewrite vsub_length_min || rewrite zeros_length); lia.

Lemma vadd_inj a c c' : length c = length a -> length c' = length a -> vadd a c = vadd a c' -> c = c'.
Proof.
  intros L1 L2 H. apply list_eq_nth; [lia|]. intros i Hi.
  assert (nth i (vadd a c) 0 = nth i (vadd a c') 0) as Q by (rewrite H; reflexivity).
  rewrite !vadd_nth in Q by lia. lia.
Qed.

Lemma vsub_vadd a b : length a = length b -> vsub (vadd a b) a = b.
Proof.
  intros L. apply list_eq_nth; [vlen|].
  intros i Hi. rewrite vsub_nth by vlen. rewrite vadd_nth by lia. lia.
Qed.

Lemma vadd_vsub a g : length a = length g -> vadd a (vsub g a) = g.
Proof.
  intros L. apply list_eq_nth; [vlen|].
  intros i Hi. rewrite vadd_nth by vlen. rewrite vsub_nth by lia. lia.
Qed.

Lemma vadd_zeros shape c : length c = length shape -> vadd (zeros shape) c = c.
Proof.
  intros L. apply list_eq_nth; [vlen|].
  intros i Hi. rewrite vadd_nth by vlen. rewrite zeros_nth. lia.
Qed.

(* a local coordinate is valid iff the global coordinate it names lies in the box *)
Lemma in_local_in_box n b c : wfb n b -> length c = n ->
  in_box b (vadd (boff b) c) = in_local b c.
Proof.
  intros W L. pose proof W as [W1 W2].
  destruct (in_local b c) eqn:E.
  - apply (in_local_spec n) in E as [_ E]; [|assumption].
    apply (in_box_spec n); [assumption|]. split; [vlen|].
    intros i Hi. rewrite vadd_nth by lia. specialize (E i Hi). lia.
  - destruct (in_box b (vadd (boff b) c)) eqn:E2; [|reflexivity].
    apply (in_box_spec n) in E2 as [_ E2]; [|assumption].
    assert (in_local b c = true) as X; [|congruence].
    apply (in_local_spec n); [assumption|]. split; [assumption|].
    intros i Hi. specialize (E2 i Hi). rewrite vadd_nth in E2 by lia. lia.
Qed.

Lemma in_box_in_local n b g : wfb n b -> in_box b g = true ->
  in_local b (vsub g (boff b)) = true /\ vadd (boff b) (vsub g (boff b)) = g.
Proof.
  intros W G. pose proof W as [W1 W2].
  pose proof G as G'. apply (in_box_spec n) in G' as [Lg _]; [|assumption].
  assert (vadd (boff b) (vsub g (boff b)) = g) as V by (apply vadd_vsub; lia).
  split; [|exact V].
  rewrite <- (in_local_in_box n) by (try assumption; vlen).
  rewrite V. exact G.
Qed.

(* ================================================================== coordinates of a shape *)
Lemma upto_spec n i : In i (upto n) <-> 0 <= i < n.
Proof.
  unfold upto. rewrite in_map_iff. split.
  - intros (k & <- & Hk). apply in_seq in Hk. lia.
  - intros H. exists (Z.to_nat i). split; [lia|]. apply in_seq. lia.
Qed.

Lemma coords_spec lens : forall c, In c (coords lens) <-> in_range (zeros lens) lens c = true.
Proof.
  induction lens as [|l lens IH]; intros c.
  - cbn. split.
    + intros [<-|[]]. reflexivity.
    + destruct c; [auto|discriminate].
  - cbn [coords]. rewrite in_flat_map. split.
    + intros (i & Hi & Hc). apply in_map_iff in Hc as (c' & <- & Hc'). apply upto_spec in Hi. apply IH in Hc'.
      cbn. fold (zeros lens). rewrite Hc'. rewrite andb_true_r.
      apply andb_true_intro; split; [apply Z.leb_le|apply Z.ltb_lt]; lia.
    + destruct c as [|i c']; [discriminate|]. cbn. fold (zeros lens). intros H.
      apply andb_prop in H as [H H3]. apply andb_prop in H as [H1 H2].
      apply Z.leb_le in H1. apply Z.ltb_lt in H2.
      exists i. split; [apply upto_spec; lia|]. apply in_map. apply IH. exact H3.
Qed.

(* ================================================================== narrow + copy_ *)
Section CopyFold.
  Context {E : Type} (doff soff : list Z) (src : tensor E).
  Let step := fun (t : tensor E) (c : coord) => tset t (vadd doff c) (src (vadd soff c)).

  Lemma fold_tset_miss cs : forall t x,
    (forall c, In c cs -> vadd doff c <> x) -> fold_left step cs t x = t x.
  Proof.
    induction cs as [|c cs IH]; intros t x H; cbn; [reflexivity|].
    rewrite IH by (intros c' Hc'; apply H; right; exact Hc').
    unfold step, tset. rewrite coord_eqb_neq; [reflexivity|]. apply H. left. reflexivity.
  Qed.

  Lemma fold_tset_hit cs : forall t x v,
    (exists c, In c cs /\ vadd doff c = x) ->
    (forall c, In c cs -> vadd doff c = x -> src (vadd soff c) = v) ->
    fold_left step cs t x = v.
  Proof.
    induction cs as [|c cs IH] using rev_ind; intros t x v (c0 & Hin & Hx) Hv; [destruct Hin|].
    rewrite fold_left_app. cbn. unfold step at 1, tset.
    destruct (coord_eqb (vadd doff c) x) eqn:Q.
    - apply coord_eqb_eq in Q. apply Hv; [apply in_or_app; right; left; reflexivity|exact Q].
    - apply IH.
      + exists c0. split; [|exact Hx]. apply in_app_or in Hin as [Hin|[<-|[]]]; [exact Hin|].
        rewrite Hx, coord_eqb_refl in Q. discriminate.
      + intros c' Hc' Hx'. apply Hv; [apply in_or_app; left; exact Hc'|exact Hx'].
  Qed.
End CopyFold.

Lemma r_lengths (r : region) : length (r_dst r) = length (r_len r) /\ length (r_src r) = length (r_len r).
Proof. unfold r_dst, r_src, r_len. rewrite !map_length. split; reflexivity. Qed.

(* dst[dst_off + c] := src[src_off + c] for every c of the length box ... *)
Lemma copy_region_hit {E} (r : region) (src dst : tensor E) c :
  in_range (zeros (r_len r)) (r_len r) c = true ->
  copy_region r src dst (vadd (r_dst r) c) = src (vadd (r_src r) c).
Proof.
  intros Hc. unfold copy_region. apply fold_tset_hit.
  - exists c. split; [apply coords_spec; exact Hc|reflexivity].
  - intros c' Hc' Hx. apply coords_spec in Hc'.
    destruct (r_lengths r) as [L1 _].
    apply in_lens_spec in Hc as [Lc _]. apply in_lens_spec in Hc' as [Lc' _].
    f_equal. f_equal. apply (vadd_inj (r_dst r)); try lia. exact Hx.
Qed.

(* ... and nothing else changes *)
Lemma copy_region_miss {E} (r : region) (src dst : tensor E) x :
  (forall c, in_range (zeros (r_len r)) (r_len r) c = true -> vadd (r_dst r) c <> x) ->
  copy_region r src dst x = dst x.
Proof.
  intros H. unfold copy_region. apply fold_tset_miss. intros c Hc. apply H. apply coords_spec. exact Hc.
Qed.

(* ================================================================== one (saved, destination) pair *)
Definition writes {E} (db : box) (s : sshard E) (x : coord) : bool :=
  in_local db x && in_box (s_box s) (vadd (boff db) x).

Lemma load_step_spec {E} n db (s : sshard E) (t : tensor E) x : wfb n db -> wfb n (s_box s) ->
  load_step db t s x =
  if writes db s x then s_data s (vsub (vadd (boff db) x) (boff (s_box s))) else t x.
Proof.
  intros Wd Ws. unfold load_step, writes. pose proof Wd as [D1 D2]. pose proof Ws as [S1 S2].
  destruct (overlaps db (s_box s)) eqn:Ov.
  - destruct (in_local db x && in_box (s_box s) (vadd (boff db) x)) eqn:C.
    + apply andb_prop in C as [Hl Hg].
      assert (length x = n) as Lx by (apply (in_local_spec n) in Hl as [Lx _]; assumption).
      assert (in_box db (vadd (boff db) x) = true) as Hd by (rewrite (in_local_in_box n); assumption).
      destruct (region_backward n (s_box s) db Ws Wd _ Hg Hd) as (c & Hc & E1 & E2 & _).
      pose proof (r_dst_length n (s_box s) db Ws Wd) as LD.
      pose proof (r_src_length n (s_box s) db Ws Wd) as LS.
      pose proof (r_len_length n (s_box s) db Ws Wd) as LL.
      pose proof Hc as Hc'. apply in_lens_spec in Hc' as [Lc _]. rewrite LL in Lc.
      assert (x = vadd (r_dst (overlap_region (s_box s) db)) c) as ->.
      { symmetry. apply (vadd_inj (boff db)); [vlen|lia|exact E2]. }
      rewrite copy_region_hit by exact Hc. f_equal.
      rewrite <- E1. symmetry. apply vsub_vadd. vlen.
    + apply copy_region_miss. intros c Hc Hx. subst x.
      destruct (region_forward n (s_box s) db Ws Wd c Hc) as (Eq & G1 & G2 & L1 & L2).
      rewrite L2 in C. rewrite <- Eq in C. rewrite G1 in C. discriminate.
  - destruct (in_local db x && in_box (s_box s) (vadd (boff db) x)) eqn:C; [|reflexivity].
    exfalso. apply andb_prop in C as [Hl Hg].
    assert (length x = n) as Lx by (apply (in_local_spec n) in Hl as [Lx _]; assumption).
    assert (in_box db (vadd (boff db) x) = true) as Hd by (rewrite (in_local_in_box n); assumption).
    exact (overlaps_false_disjoint n db (s_box s) _ Wd Ws Ov Hd Hg).
Qed.

(* ================================================================== all saved shards into one destination *)
Definition box_disjoint (a b : box) : Prop := forall g, ~ (in_box a g = true /\ in_box b g = true).
Definition shards_disjoint {E} (shards : list (sshard E)) : Prop :=
  ForallOrdPairs (fun s s' => box_disjoint (s_box s) (s_box s')) shards.

Lemma load_fold_none {E} n db (shards : list (sshard E)) : forall t x,
  wfb n db -> (forall s, In s shards -> wfb n (s_box s)) ->
  (forall s, In s shards -> writes db s x = false) ->
  fold_left (load_step db) shards t x = t x.
Proof.
  induction shards as [|s0 rest IH]; intros t x Wd Ws Hn; cbn; [reflexivity|].
  rewrite IH; try assumption.
  - rewrite (load_step_spec n) by (try assumption; apply Ws; left; reflexivity).
    rewrite Hn by (left; reflexivity). reflexivity.
  - intros s Hs. apply Ws. right. exact Hs.
  - intros s Hs. apply Hn. right. exact Hs.
Qed.

Lemma load_fold_some {E} n db (shards : list (sshard E)) : forall t x s,
  wfb n db -> (forall s, In s shards -> wfb n (s_box s)) -> shards_disjoint shards ->
  In s shards -> writes db s x = true ->
  fold_left (load_step db) shards t x = s_data s (vsub (vadd (boff db) x) (boff (s_box s))).
Proof.
  induction shards as [|s0 rest IH]; intros t x s Wd Ws Dj Hin Hw; [destruct Hin|].
  cbn. inversion Dj as [|? ? Hall Dj']; subst.
  destruct Hin as [->|Hin].
  - rewrite (load_fold_none n); try assumption.
    + rewrite (load_step_spec n) by (try assumption; apply Ws; left; reflexivity). rewrite Hw. reflexivity.
    + intros s' Hs'. apply Ws. right. exact Hs'.
    + intros s' Hs'. destruct (writes db s' x) eqn:W'; [|reflexivity]. exfalso.
      rewrite Forall_forall in Hall. apply (Hall s' Hs' (vadd (boff db) x)).
      unfold writes in Hw, W'. apply andb_prop in Hw as [_ Hw]. apply andb_prop in W' as [_ W']. split; assumption.
  - apply IH; try assumption. intros s' Hs'. apply Ws. right. exact Hs'.
Qed.

Lemma FOP_perm {A} (R : A -> A -> Prop) l l' :
  (forall a b, R a b -> R b a) -> Permutation l l' -> ForallOrdPairs R l -> ForallOrdPairs R l'.
Proof.
  intros Sym P. induction P as [|x l l' P IH|x y l|l l' l'' P1 IH1 P2 IH2]; intros H.
  - exact H.
  - inversion H as [|? ? Hall H']; subst. constructor; [|apply IH; exact H'].
    rewrite Forall_forall in *. intros z Hz. apply Hall. apply Permutation_in with l'; [apply Permutation_sym; exact P|exact Hz].
  - inversion H as [|? ? Hall H']; subst. inversion H' as [|? ? Hall' H'']; subst.
    inversion Hall as [|? ? Ryx Hall'']; subst.
    constructor; [constructor; [apply Sym; exact Ryx|exact Hall']|]. constructor; assumption.
  - apply IH2. apply IH1. exact H.
Qed.

Lemma box_disjoint_sym a b : box_disjoint a b -> box_disjoint b a.
Proof. intros H g [G1 G2]. apply (H g). split; assumption. Qed.

Lemma shards_disjoint_perm {E} (l l' : list (sshard E)) :
  Permutation l l' -> shards_disjoint l -> shards_disjoint l'.
Proof.
  unfold shards_disjoint. apply FOP_perm. intros a b. apply box_disjoint_sym.
Qed.

(* ---------------------------------------------------------------- reshard_correct *)
Lemma reshard_correct {E} (n : nat) (G : coord -> E) (shards : list (sshard E)) (d : dshard E) :
  (forall s, In s shards -> wfb n (s_box s)) -> wfb n (d_box d) ->
  shards_disjoint shards ->
  (forall s, In s shards -> forall c, in_local (s_box s) c = true -> s_data s c = G (vadd (boff (s_box s)) c)) ->
  forall c, in_local (d_box d) c = true ->
    let g := vadd (boff (d_box d)) c in
    (forall s, In s shards -> in_box (s_box s) g = true ->
       load_dst shards d c = G g /\
       load_dst shards d c = s_data s (vsub g (boff (s_box s))) /\
       (forall s', In s' shards -> in_box (s_box s') g = true -> s' = s)) /\
    ((forall s, In s shards -> in_box (s_box s) g = false) -> load_dst shards d c = d_data d c).
Proof.
  intros Ws Wd Dj HG c Hc g. split.
  - intros s Hs Hg.
    assert (writes (d_box d) s c = true) as Hw by (unfold writes; rewrite Hc; exact Hg).
    assert (load_dst shards d c = s_data s (vsub g (boff (s_box s)))) as L.
    { unfold load_dst. apply (load_fold_some n); assumption. }
    split; [|split; [exact L|]].
    + rewrite L. destruct (in_box_in_local n (s_box s) g (Ws s Hs) Hg) as [Hl V].
      rewrite (HG s Hs _ Hl). rewrite V. reflexivity.
    + intros s' Hs' Hg'.
      destruct (ForallOrdPairs_In Dj s s' Hs Hs') as [Eq|[R|R]]; [symmetry; exact Eq| |];
        exfalso; apply (R g); split; assumption.
  - intros Hn. unfold load_dst. apply (load_fold_none n); try assumption.
    intros s Hs. unfold writes. fold g. rewrite (Hn s Hs). apply andb_false_r.
Qed.

(* dense destination = one box at the origin: local = global coordinates *)
Lemma reshard_dense {E} (n : nat) (G : coord -> E) (shards : list (sshard E)) (shape : list Z) (I : tensor E) :
  (forall s, In s shards -> wfb n (s_box s)) -> length shape = n ->
  shards_disjoint shards ->
  (forall s, In s shards -> forall c, in_local (s_box s) c = true -> s_data s c = G (vadd (boff (s_box s)) c)) ->
  forall c, in_local (dense_box shape) c = true ->
    ((exists s, In s shards /\ in_box (s_box s) c = true) -> load_dst shards (mkD (dense_box shape) I) c = G c) /\
    ((forall s, In s shards -> in_box (s_box s) c = false) -> load_dst shards (mkD (dense_box shape) I) c = I c).
Proof.
  intros Ws Ls Dj HG c Hc.
  assert (wfb n (dense_box shape)) as Wd by (split; cbn; [rewrite zeros_length|]; assumption).
  assert (length c = n) as Lc by (apply (in_local_spec n) in Hc as [Lc _]; assumption).
  assert (vadd (boff (dense_box shape)) c = c) as V by (cbn; apply vadd_zeros; lia).
  destruct (reshard_correct n G shards (mkD (dense_box shape) I) Ws Wd Dj HG c Hc) as [A B].
  cbn [d_box d_data] in A, B. rewrite V in A, B. split.
  - intros (s & Hs & Hg). destruct (A s Hs Hg) as [A1 _]. exact A1.
  - exact B.
Qed.

(* ---------------------------------------------------------------- order independence *)
Lemma load_order_independent {E} (n : nat) (shards shards' : list (sshard E)) (d : dshard E) :
  (forall s, In s shards -> wfb n (s_box s)) -> wfb n (d_box d) ->
  shards_disjoint shards -> Permutation shards shards' ->
  forall x, load_dst shards d x = load_dst shards' d x.
Proof.
  intros Ws Wd Dj P x.
  assert (forall s, In s shards' -> wfb n (s_box s)) as Ws'
    by (intros s Hs; apply Ws; apply Permutation_in with shards'; [apply Permutation_sym; exact P|exact Hs]).
  pose proof (shards_disjoint_perm _ _ P Dj) as Dj'.
  unfold load_dst.
  destruct (existsb (fun s => writes (d_box d) s x) shards) eqn:Ex.
  - apply existsb_exists in Ex as (s & Hs & Hw).
    rewrite (load_fold_some n (d_box d) shards _ x s) by assumption.
    rewrite (load_fold_some n (d_box d) shards' _ x s); try assumption; [reflexivity|].
    apply Permutation_in with shards; assumption.
  - assert (forall s, In s shards -> writes (d_box d) s x = false) as Hn.
    { intros s Hs. destruct (writes (d_box d) s x) eqn:W; [|reflexivity].
      assert (existsb (fun s => writes (d_box d) s x) shards = true) as X; [|congruence].
      apply existsb_exists. exists s. split; assumption. }
    rewrite (load_fold_none n) by assumption.
    rewrite (load_fold_none n); try assumption; [reflexivity|].
    intros s Hs. apply Hn. apply Permutation_in with shards'; [apply Permutation_sym; exact P|exact Hs].
Qed.

(* the merge of the per-rank entries (sorted by offsets) is a permutation of all their shards *)
Lemma insert_shard_perm {E} (s : sshard E) l : Permutation (insert_shard s l) (s :: l).
Proof.
  induction l as [|t l IH]; cbn; [apply Permutation_refl|].
  destruct (lex_leb (boff (s_box s)) (boff (s_box t))); [apply Permutation_refl|].
  eapply Permutation_trans; [apply perm_skip; exact IH|apply perm_swap].
Qed.

Lemma merge_shards_perm {E} (ranks : list (list (sshard E))) : Permutation (concat ranks) (merge_shards ranks).
Proof.
  unfold merge_shards. induction (concat ranks) as [|s l IH]; cbn; [apply Permutation_refl|].
  apply Permutation_sym. eapply Permutation_trans; [apply insert_shard_perm|].
  apply perm_skip. apply Permutation_sym. exact IH.
Qed.

(* ================================================================== the read plan *)
From Coq Require Import Sorted.

Lemma key_eqb_eq a b : key_eqb a b = true <-> a = b.
Proof. exact (coord_eqb_eq a b). Qed.

Lemma regions_for_app {R} k (a b : list (list Z * R)) : regions_for k (a ++ b) = regions_for k a ++ regions_for k b.
Proof. unfold regions_for. rewrite filter_app, map_app. reflexivity. Qed.

Lemma flat_map_ext_in {A B} (f g : A -> list B) l :
  (forall a, In a l -> f a = g a) -> flat_map f l = flat_map g l.
Proof.
  induction l as [|a l IH]; intros H; cbn; [reflexivity|].
  rewrite H by (left; reflexivity). rewrite IH; [reflexivity|]. intros b Hb. apply H. right. exact Hb.
Qed.

Lemma indexed_from_In {A} (l : list A) : forall i j s,
  In (j, s) (indexed_from i l) <-> i <= j /\ nth_error l (Z.to_nat (j - i)) = Some s.
Proof.
  induction l as [|a l IH]; intros i j s; cbn.
  - split; [intros []|]. intros [_ H]. destruct (Z.to_nat (j - i)); discriminate.
  - rewrite IH. split.
    + intros [H|[H1 H2]].
      * inversion H; subst. split; [lia|]. rewrite Z.sub_diag. reflexivity.
      * split; [lia|]. replace (Z.to_nat (j - i)) with (S (Z.to_nat (j - (i + 1)))) by lia. exact H2.
    + intros [H1 H2]. destruct (Z.eq_dec j i) as [->|Ne].
      * left. rewrite Z.sub_diag in H2. cbn in H2. congruence.
      * right. split; [lia|]. replace (Z.to_nat (j - i)) with (S (Z.to_nat (j - (i + 1)))) in H2 by lia. exact H2.
Qed.

Lemma indexed_from_In_snd {A} (l : list A) i j s : In (j, s) (indexed_from i l) -> In s l.
Proof. intros H. apply indexed_from_In in H as [_ H]. apply nth_error_In in H. exact H. Qed.

Lemma indexed_from_snd {A} (l : list A) : forall i, map snd (indexed_from i l) = l.
Proof. induction l as [|a l IH]; intros i; cbn; [reflexivity|]. rewrite IH. reflexivity. Qed.

Lemma indexed_filter_sorted {A} (p : Z * A -> bool) (l : list A) : forall i,
  StronglySorted Z.lt (map fst (filter p (indexed_from i l))) /\
  Forall (fun j => i <= j) (map fst (filter p (indexed_from i l))).
Proof.
  induction l as [|a l IH]; intros i; cbn; [split; constructor|].
  destruct (IH (i + 1)) as [S1 F1].
  assert (Forall (fun j => i <= j) (map fst (filter p (indexed_from (i + 1) l)))) as F2
    by (eapply Forall_impl; [|exact F1]; cbn; intros; lia).
  destruct (p (i, a)); cbn.
  - split; [constructor; [exact S1|]|constructor; [lia|exact F2]].
    eapply Forall_impl; [|exact F1]. cbn; intros; lia.
  - split; assumption.
Qed.

Section Plan.
  Context {E : Type}.
  (* the three key expressions of prepare_read: insertion, membership test, lookup.  The plan is right when they
     are one injective function of (location, byte_range). *)
  Variables kins kmem kget : keyfn.
  Hypothesis Kinj : forall l b l' b', kins l b = kins l' b' -> l = l' /\ b = b'.
  Hypothesis Kmem : forall l b, kmem l b = kins l b.
  Hypothesis Kget : forall l b, kget l b = kins l b.

  Definition skey (s : sshard E) : list Z := kins (s_loc s) (s_br s).

  Lemma skey_NoDup (shards : list (sshard E)) : NoDup (map s_key shards) -> NoDup (map skey shards).
  Proof.
    induction shards as [|s rest IH]; intros ND; cbn in *; [constructor|].
    inversion ND as [|? ? Hnot ND']; subst. constructor; [|apply IH; exact ND'].
    intros Hin. apply Hnot. apply in_map_iff in Hin as (s' & Eq & Hs'). apply in_map_iff. exists s'.
    split; [|exact Hs']. unfold skey in Eq. apply Kinj in Eq as [E1 E2]. unfold s_key. rewrite E1, E2. reflexivity.
  Qed.

  Definition plan_inner (id : Z * box) (shards : list (sshard E)) : list (list Z * (Z * region)) :=
    flat_map (fun s => if overlaps (snd id) (s_box s)
                       then [(skey s, (fst id, overlap_region (s_box s) (snd id)))] else []) shards.

  Lemma plan_inner_other k id shards :
    (forall s, In s shards -> skey s <> k) -> regions_for k (plan_inner id shards) = [].
  Proof.
    induction shards as [|s0 rest IH]; intros H; [reflexivity|].
    unfold plan_inner. cbn [flat_map]. fold (plan_inner id rest).
    rewrite regions_for_app. rewrite IH by (intros s Hs; apply H; right; exact Hs).
    rewrite app_nil_r. destruct (overlaps (snd id) (s_box s0)); [|reflexivity].
    unfold regions_for. cbn. rewrite coord_eqb_neq; [reflexivity|]. apply H. left. reflexivity.
  Qed.

  Lemma plan_inner_own id shards s :
    NoDup (map skey shards) -> In s shards ->
    regions_for (skey s) (plan_inner id shards) =
    if overlaps (snd id) (s_box s) then [(fst id, overlap_region (s_box s) (snd id))] else [].
  Proof.
    induction shards as [|s0 rest IH]; intros ND Hin; [destruct Hin|].
    cbn in ND. inversion ND as [|? ? Hnot ND']; subst.
    unfold plan_inner. cbn [flat_map]. fold (plan_inner id rest). rewrite regions_for_app.
    destruct Hin as [->|Hin].
    - rewrite plan_inner_other.
      + rewrite app_nil_r. destruct (overlaps (snd id) (s_box s)); [|reflexivity].
        unfold regions_for. cbn. unfold key_eqb. rewrite coord_eqb_refl. reflexivity.
      + intros s' Hs' Eq. apply Hnot. rewrite <- Eq. apply in_map. exact Hs'.
    - rewrite IH by assumption.
      assert (skey s0 <> skey s) as Ne by (intros Eq; apply Hnot; rewrite Eq; apply in_map; exact Hin).
      destruct (overlaps (snd id) (s_box s0)); [|reflexivity].
      unfold regions_for at 1. cbn. unfold key_eqb. rewrite coord_eqb_neq by exact Ne. reflexivity.
  Qed.

  Lemma regions_for_keyed (shards : list (sshard E)) dboxes s :
    NoDup (map s_key shards) -> In s shards ->
    regions_for (skey s) (regions_keyed kins shards dboxes) = own_regions (s_box s) dboxes.
  Proof.
    intros ND Hin. apply skey_NoDup in ND. unfold regions_keyed, own_regions. generalize (indexed dboxes) as ids.
    induction ids as [|id ids IH]; [reflexivity|]. cbn [flat_map].
    rewrite regions_for_app, IH. f_equal. apply (plan_inner_own id shards s ND Hin).
  Qed.

  Definition own_req (dboxes : list box) (js : Z * sshard E) : list (Z * sshard E * list (Z * region)) :=
    match own_regions (s_box (snd js)) dboxes with
    | [] => []
    | l => [(fst js, snd js, l)]
    end.

  Lemma read_reqs_full_spec (shards : list (sshard E)) dboxes :
    NoDup (map s_key shards) ->
    read_reqs_full kins kmem kget shards dboxes = flat_map (own_req dboxes) (indexed shards).
  Proof.
    intros ND. unfold read_reqs_full. apply flat_map_ext_in. intros [j s] Hin. cbn [fst snd].
    unfold own_req. cbn [fst snd]. rewrite Kmem, Kget. fold (skey s).
    rewrite regions_for_keyed; [destruct (own_regions (s_box s) dboxes); reflexivity|exact ND|].
    exact (indexed_from_In_snd _ _ _ _ Hin).
  Qed.

  Lemma own_regions_nil_iff sb dboxes :
    own_regions sb dboxes = [] <-> existsb (fun db => overlaps db sb) dboxes = false.
  Proof.
    unfold own_regions, indexed. generalize 0.
    induction dboxes as [|db dbs IH]; intros i; cbn; [tauto|].
    destruct (overlaps db sb); cbn; [split; discriminate|]. apply IH.
  Qed.

  Definition needed (dboxes : list box) (js : Z * sshard E) : bool :=
    existsb (fun db => overlaps db (s_box (snd js))) dboxes.

  Lemma read_plan_spec (shards : list (sshard E)) dboxes :
    NoDup (map s_key shards) ->
    read_plan kins kmem kget shards dboxes = map fst (filter (needed dboxes) (indexed shards)).
  Proof.
    intros ND. unfold read_plan, read_reqs. rewrite map_map. rewrite read_reqs_full_spec by exact ND.
    rewrite (map_ext _ (fun q : Z * sshard E * list (Z * region) => fst (fst q))) by reflexivity.
    generalize (indexed shards) as L. induction L as [|[j s] L IH]; [reflexivity|].
    cbn [flat_map filter]. rewrite map_app, IH. unfold own_req at 1. cbn [fst snd].
    change (needed dboxes (j, s)) with (existsb (fun db => overlaps db (s_box s)) dboxes).
    destruct (own_regions (s_box s) dboxes) as [|r l] eqn:Eo.
    - apply own_regions_nil_iff in Eo. rewrite Eo. reflexivity.
    - destruct (existsb (fun db => overlaps db (s_box s)) dboxes) eqn:Ex; [reflexivity|].
      apply own_regions_nil_iff in Ex. congruence.
  Qed.

  (* each_needed_shard_read_once *)
  Lemma read_plan_once (shards : list (sshard E)) dboxes :
    NoDup (map s_key shards) ->
    StronglySorted Z.lt (read_plan kins kmem kget shards dboxes) /\
    (forall j, In j (read_plan kins kmem kget shards dboxes) <->
       exists s, 0 <= j /\ nth_error shards (Z.to_nat j) = Some s /\
                 exists db, In db dboxes /\ overlaps db (s_box s) = true) /\
    (forall j s rs, In (j, s, rs) (read_reqs_full kins kmem kget shards dboxes) ->
       nth_error shards (Z.to_nat j) = Some s /\ rs = own_regions (s_box s) dboxes).
  Proof.
    intros ND. rewrite read_plan_spec by exact ND. split; [|split].
    - apply indexed_filter_sorted.
    - intros j. rewrite in_map_iff. split.
      + intros ([j' s] & <- & Hf). apply filter_In in Hf as [Hi Hn]. cbn.
        apply indexed_from_In in Hi as [Hj Hnth]. rewrite Z.sub_0_r in Hnth.
        exists s. split; [exact Hj|]. split; [exact Hnth|].
        unfold needed in Hn. cbn in Hn. apply existsb_exists in Hn. exact Hn.
      + intros (s & Hj & Hnth & Hex). exists (j, s). split; [reflexivity|].
        apply filter_In. split.
        * apply indexed_from_In. rewrite Z.sub_0_r. split; assumption.
        * unfold needed. cbn. apply existsb_exists. exact Hex.
    - intros j s rs Hin. rewrite read_reqs_full_spec in Hin by exact ND.
      apply in_flat_map in Hin as ([j' s'] & Hi & Hq). unfold own_req in Hq. cbn [fst snd] in Hq.
      apply indexed_from_In in Hi as [Hj Hnth]. rewrite Z.sub_0_r in Hnth.
      destruct (own_regions (s_box s') dboxes) eqn:Eo; [destruct Hq|].
      destruct Hq as [Hq|[]]. inversion Hq; subst. split; [exact Hnth|symmetry; exact Eo].
  Qed.

  (* ---------------------------------------------------------------- grouped execution = load *)
  Lemma upd_nth_app {A} (pre : list A) t ts f : upd_nth (pre ++ t :: ts) (length pre) f = pre ++ f t :: ts.
  Proof. induction pre as [|x pre IH]; cbn; [reflexivity|]. rewrite IH. reflexivity. Qed.

  Lemma consume_app (src : tensor E) a b ts : consume src (a ++ b) ts = consume src b (consume src a ts).
  Proof. unfold consume. apply fold_left_app. Qed.

  Definition step_all (dboxes : list box) (s : sshard E) (ts : list (tensor E)) : list (tensor E) :=
    map (fun p => load_step (fst p) (snd p) s) (combine dboxes ts).

  Lemma step_all_length dboxes s ts : length ts = length dboxes -> length (step_all dboxes s ts) = length dboxes.
  Proof. intros L. unfold step_all. rewrite map_length, combine_length. lia. Qed.

  Lemma consume_own (s : sshard E) : forall dboxes ts pre, length ts = length dboxes ->
    consume (s_data s)
      (flat_map (fun id => if overlaps (snd id) (s_box s) then [(fst id, overlap_region (s_box s) (snd id))] else [])
                (indexed_from (Z.of_nat (length pre)) dboxes))
      (pre ++ ts) = pre ++ step_all dboxes s ts.
  Proof.
    induction dboxes as [|db dbs IH]; intros [|t ts] pre L; cbn in L; try discriminate.
    - reflexivity.
    - cbn [indexed_from flat_map fst snd]. rewrite consume_app.
      set (t' := load_step db t s).
      assert (consume (s_data s)
                (if overlaps db (s_box s) then [(Z.of_nat (length pre), overlap_region (s_box s) db)] else [])
                (pre ++ t :: ts) = pre ++ t' :: ts) as ->.
      { unfold t', load_step. destruct (overlaps db (s_box s)); cbn; [|reflexivity].
        rewrite Nat2Z.id. apply upd_nth_app. }
      replace (pre ++ t' :: ts) with ((pre ++ [t']) ++ ts) by (rewrite <- app_assoc; reflexivity).
      replace (Z.of_nat (length pre) + 1) with (Z.of_nat (length (pre ++ [t']))) by (rewrite app_length; cbn; lia).
      rewrite IH by lia. rewrite <- app_assoc. reflexivity.
  Qed.

  Lemma consume_own_regions (s : sshard E) dboxes ts : length ts = length dboxes ->
    consume (s_data s) (own_regions (s_box s) dboxes) ts = step_all dboxes s ts.
  Proof. intros L. exact (consume_own s dboxes ts [] L). Qed.

  Lemma grouped_as_steps dboxes : forall (L : list (Z * sshard E)) ts, length ts = length dboxes ->
    fold_left (fun ts q => consume (s_data (snd (fst q))) (snd q) ts) (flat_map (own_req dboxes) L) ts =
    fold_left (fun ts s => step_all dboxes s ts) (map snd L) ts.
  Proof.
    induction L as [|[j s] L IH]; intros ts Len; cbn; [reflexivity|].
    rewrite fold_left_app.
    assert (fold_left (fun ts q => consume (s_data (snd (fst q))) (snd q) ts) (own_req dboxes (j, s)) ts
            = step_all dboxes s ts) as ->.
    { rewrite <- (consume_own_regions s dboxes ts Len). unfold own_req. cbn [fst snd].
      destruct (own_regions (s_box s) dboxes); reflexivity. }
    apply IH. apply step_all_length. exact Len.
  Qed.

  Lemma map_snd_combine {A B} (l : list A) (ts : list B) : length ts = length l -> map snd (combine l ts) = ts.
  Proof.
    revert ts; induction l as [|a l IH]; intros [|t ts] L; cbn in *; try discriminate; [reflexivity|].
    f_equal. apply IH. lia.
  Qed.

  Lemma map_combine_step_all {B} (h : box -> tensor E -> B) dboxes s : forall ts, length ts = length dboxes ->
    map (fun p => h (fst p) (snd p)) (combine dboxes (step_all dboxes s ts)) =
    map (fun p => h (fst p) (load_step (fst p) (snd p) s)) (combine dboxes ts).
  Proof.
    induction dboxes as [|db dbs IH]; intros [|t ts] L; cbn in *; try discriminate; [reflexivity|].
    f_equal. apply IH. lia.
  Qed.

  Lemma steps_as_load dboxes : forall (shards : list (sshard E)) ts, length ts = length dboxes ->
    fold_left (fun ts s => step_all dboxes s ts) shards ts =
    map (fun p => fold_left (load_step (fst p)) shards (snd p)) (combine dboxes ts).
  Proof.
    induction shards as [|s rest IH]; intros ts L; cbn.
    - symmetry. apply map_snd_combine. exact L.
    - rewrite IH by (apply step_all_length; exact L).
      apply (map_combine_step_all (fun b t => fold_left (load_step b) rest t)). exact L.
  Qed.

  Lemma load_grouped_eq_load (shards : list (sshard E)) (dsts : list (dshard E)) :
    NoDup (map s_key shards) -> load_grouped kins kmem kget shards dsts = load shards dsts.
  Proof.
    intros ND. unfold load_grouped. rewrite read_reqs_full_spec by exact ND.
    rewrite grouped_as_steps by (rewrite !map_length; reflexivity).
    unfold indexed. rewrite indexed_from_snd.
    rewrite steps_as_load by (rewrite !map_length; reflexivity).
    unfold load, load_dst. induction dsts as [|d dsts IH]; cbn; [reflexivity|]. f_equal. exact IH.
  Qed.
End Plan.

(* ================================================================== subdivide_shard *)
(* 1-D core: pieces [i*cl, min((i+1)*cl, S)) for i < ceil(S/cl) tile [0, S) *)
Lemma cdiv_bound S cl v : 1 <= cl -> 0 <= v < S -> v / cl < cdiv S cl.
Proof.
  intros Hcl Hv. unfold cdiv.
  replace (S + cl - 1) with ((S - 1) + 1 * cl) by lia. rewrite Z.div_add by lia.
  assert (v / cl <= (S - 1) / cl) by (apply Z.div_le_mono; lia). lia.
Qed.

Lemma piece_1d_cover S cl v : 1 <= cl -> 0 <= v < S ->
  exists i, 0 <= i < cdiv S cl /\ i * cl <= v < Z.min ((i + 1) * cl) S.
Proof.
  intros Hcl Hv. exists (v / cl).
  pose proof (cdiv_bound S cl v Hcl Hv).
  pose proof (Z.div_pos v cl ltac:(lia) ltac:(lia)).
  pose proof (Z.mul_div_le v cl ltac:(lia)).
  pose proof (Z.mul_succ_div_gt v cl ltac:(lia)).
  split; [lia|]. split; [lia|]. apply Z.min_glb_lt; lia.
Qed.

Lemma piece_1d_disjoint S cl i j v : 1 <= cl -> 0 <= i < j ->
  i * cl <= v < Z.min ((i + 1) * cl) S -> j * cl <= v < Z.min ((j + 1) * cl) S -> False.
Proof.
  intros Hcl Hij H1 H2. assert ((i + 1) * cl <= j * cl) by (apply Z.mul_le_mono_nonneg_r; lia). lia.
Qed.

Definition piece (cl : Z) (b : box) (dim : nat) (i : Z) : box :=
  mkBox (upd (boff b) dim (nth dim (boff b) 0 + i * cl))
        (upd (bsz b) dim (Z.min ((i + 1) * cl) (nth dim (bsz b) 0) - i * cl)).

Lemma subdivide_with_pieces cl b dim :
  map snd (subdivide_with cl b dim) = map (piece cl b dim) (upto (cdiv (nth dim (bsz b) 0) cl)).
Proof. unfold subdivide_with. rewrite map_map. reflexivity. Qed.

Lemma piece_wf n cl b dim i : wfb n b -> wfb n (piece cl b dim i).
Proof. intros [W1 W2]. split; cbn; rewrite upd_length; assumption. Qed.

Lemma in_piece_spec n cl b dim i g : wfb n b -> (dim < n)%nat ->
  (in_box (piece cl b dim i) g = true <->
   length g = n /\
   (forall k, (k < n)%nat -> k <> dim ->
      nth k (boff b) 0 <= nth k g 0 < nth k (boff b) 0 + nth k (bsz b) 0) /\
   nth dim (boff b) 0 + i * cl <= nth dim g 0 < nth dim (boff b) 0 + Z.min ((i + 1) * cl) (nth dim (bsz b) 0)).
Proof.
  intros W Hd. pose proof W as [W1 W2].
  rewrite (in_box_spec n) by (apply piece_wf; exact W). cbn [piece boff bsz]. split.
  - intros [L H]. split; [exact L|]. split.
    + intros k Hk Ne. specialize (H k Hk). rewrite !upd_nth_other in H by exact Ne. exact H.
    + specialize (H dim Hd). rewrite !upd_nth_same in H by lia. lia.
  - intros (L & H1 & H2). split; [exact L|]. intros k Hk.
    destruct (Nat.eq_dec k dim) as [->|Ne].
    + rewrite !upd_nth_same by lia. lia.
    + rewrite !upd_nth_other by exact Ne. apply H1; assumption.
Qed.

Lemma FOP_map_upto {A} (R : A -> A -> Prop) (f : Z -> A) N :
  (forall i j, 0 <= i -> i < j -> j < N -> R (f i) (f j)) -> ForallOrdPairs R (map f (upto N)).
Proof.
  intros H. unfold upto. rewrite map_map.
  assert (forall len start, (start + len <= Z.to_nat N)%nat ->
            ForallOrdPairs R (map (fun k => f (Z.of_nat k)) (seq start len))) as X.
  { induction len as [|len IH]; intros start Hb; cbn; constructor.
    - rewrite Forall_forall. intros a Ha. apply in_map_iff in Ha as (k & <- & Hk). apply in_seq in Hk.
      apply H; lia.
    - apply IH. lia. }
  apply X. lia.
Qed.

Lemma subdivide_disjoint_cover n b dim cl :
  wfb n b -> (dim < n)%nat -> 1 <= cl ->
  let ps := map snd (subdivide_with cl b dim) in
  ForallOrdPairs box_disjoint ps /\
  (forall p, In p ps -> wfb n p) /\
  (forall g, in_box b g = true <-> exists p, In p ps /\ in_box p g = true).
Proof.
  intros W Hd Hcl ps. unfold ps. rewrite subdivide_with_pieces.
  set (S := nth dim (bsz b) 0). set (o := nth dim (boff b) 0).
  split; [|split].
  - apply FOP_map_upto. intros i j Hi Hij Hj g [G1 G2].
    apply (in_piece_spec n) in G1 as (_ & _ & G1); try assumption.
    apply (in_piece_spec n) in G2 as (_ & _ & G2); try assumption.
    fold S o in G1, G2.
    apply (piece_1d_disjoint S cl i j (nth dim g 0 - o)); lia.
  - intros p Hp. apply in_map_iff in Hp as (i & <- & _). apply piece_wf. exact W.
  - intros g. split.
    + intros G. pose proof G as G'. apply (in_box_spec n) in G' as [L H]; [|exact W].
      pose proof (H dim Hd) as Hdim. fold S o in Hdim.
      destruct (piece_1d_cover S cl (nth dim g 0 - o) Hcl ltac:(lia)) as (i & Hi & Hv).
      exists (piece cl b dim i). split; [apply in_map; apply upto_spec; exact Hi|].
      apply (in_piece_spec n); try assumption. split; [exact L|]. split.
      * intros k Hk _. apply H. exact Hk.
      * fold S o. lia.
    + intros (p & Hp & G). apply in_map_iff in Hp as (i & <- & Hi). apply upto_spec in Hi.
      apply (in_piece_spec n) in G as (L & H1 & H2); try assumption. fold S o in H2.
      apply (in_box_spec n); [exact W|]. split; [exact L|]. intros k Hk.
      destruct (Nat.eq_dec k dim) as [->|Ne]; [|apply H1; assumption].
      fold S o. assert (0 <= i * cl) by (apply Z.mul_nonneg_nonneg; lia). lia.
Qed.

Lemma chunk_length_pos b dim esize maxb : 1 <= chunk_length b dim esize maxb.
Proof. unfold chunk_length. lia. Qed.

(* each piece is the narrowed view: it holds what the shard holds at the shifted coordinate *)
Lemma write_piece_holds {E} n (G : coord -> E) (t : tensor E) b dim cl i c :
  wfb n b -> (dim < n)%nat -> length c = n ->
  (forall x, length x = n -> t x = G (vadd (boff b) x)) ->
  narrow t dim (i * cl) c = G (vadd (boff (piece cl b dim i)) c).
Proof.
  intros [W1 W2] Hd Lc HG. unfold narrow. rewrite HG by (rewrite upd_length; exact Lc). f_equal.
  cbn [piece boff]. apply list_eq_nth.
  - rewrite !vadd_length_min, !upd_length. reflexivity.
  - rewrite vadd_length_min, upd_length. intros k Hk.
    rewrite !vadd_nth by (rewrite ?upd_length; lia).
    destruct (Nat.eq_dec k dim) as [->|Ne].
    + rewrite !upd_nth_same by lia. lia.
    + rewrite !upd_nth_other by exact Ne. reflexivity.
Qed.

(* ================================================================== global shape *)
Lemma corner_length n b : wfb n b -> length (corner b) = n.
Proof. intros [W1 W2]. unfold corner. rewrite vadd_length; lia. Qed.

Lemma corner_nth n b i : wfb n b -> nth i (corner b) 0 = nth i (boff b) 0 + nth i (bsz b) 0.
Proof. intros [W1 W2]. unfold corner. apply vadd_nth. lia. Qed.

Lemma vmax_gt_length acc c : length (vmax_gt acc c) = length acc.
Proof. revert c; induction acc as [|a acc IH]; intros [|x c]; cbn; auto. Qed.

Lemma vmax_gt_nth acc c i : length acc = length c -> nth i (vmax_gt acc c) 0 = Z.max (nth i acc 0) (nth i c 0).
Proof.
  revert c i; induction acc as [|a acc IH]; intros [|x c] i L; cbn in *; try discriminate.
  - destruct i; reflexivity.
  - destruct i; [|apply IH; lia].
    destruct (x >? a) eqn:Q; [apply Z.gtb_lt in Q; lia|].
    destruct (Z.gtb_spec x a); [discriminate|lia].
Qed.

Lemma gs_fold n (bs : list box) : forall acc, length acc = n -> (forall b, In b bs -> wfb n b) ->
  let r := fold_left (fun acc b => vmax_gt acc (corner b)) bs acc in
  length r = n /\
  forall i, nth i acc 0 <= nth i r 0 /\
            (forall b, In b bs -> nth i (corner b) 0 <= nth i r 0) /\
            (nth i r 0 = nth i acc 0 \/ exists b, In b bs /\ nth i r 0 = nth i (corner b) 0).
Proof.
  induction bs as [|b0 bs IH]; intros acc L W; cbn.
  - split; [exact L|]. intros i. split; [lia|]. split; [intros b []|left; reflexivity].
  - assert (wfb n b0) as W0 by (apply W; left; reflexivity).
    assert (length (vmax_gt acc (corner b0)) = n) as L' by (rewrite vmax_gt_length; exact L).
    destruct (IH (vmax_gt acc (corner b0)) L' (fun b Hb => W b (or_intror Hb))) as [Lr H].
    split; [exact Lr|]. intros i. destruct (H i) as (H1 & H2 & H3).
    rewrite vmax_gt_nth in H1, H3 by (rewrite (corner_length n); assumption).
    split; [lia|]. split.
    + intros b [<-|Hb]; [lia|apply H2; exact Hb].
    + destruct H3 as [H3|(b & Hb & H3)].
      * destruct (Z.max_spec (nth i acc 0) (nth i (corner b0) 0)) as [[_ M]|[_ M]]; rewrite M in H3.
        -- right. exists b0. split; [left; reflexivity|exact H3].
        -- left. exact H3.
      * right. exists b. split; [right; exact Hb|exact H3].
Qed.

(* _get_global_shape = per-dim max(0, max over shards of offset+size) *)
Lemma global_shape_is_corner n (bs : list box) :
  bs <> [] -> (forall b, In b bs -> wfb n b) ->
  exists gs, global_shape bs = Some gs /\ length gs = n /\
    forall i, (i < n)%nat ->
      0 <= nth i gs 0 /\
      (forall b, In b bs -> nth i (boff b) 0 + nth i (bsz b) 0 <= nth i gs 0) /\
      (nth i gs 0 = 0 \/ exists b, In b bs /\ nth i gs 0 = nth i (boff b) 0 + nth i (bsz b) 0).
Proof.
  intros Ne W. destruct bs as [|b0 bs]; [contradiction|]. unfold global_shape.
  assert (length (zeros (bsz b0)) = n) as L0
    by (rewrite zeros_length; destruct (W b0 (or_introl eq_refl)); assumption).
  destruct (gs_fold n (b0 :: bs) (zeros (bsz b0)) L0 W) as [Lr H].
  eexists. split; [reflexivity|]. split; [exact Lr|]. intros i Hi.
  destruct (H i) as (H1 & H2 & H3). rewrite zeros_nth in H1, H3. split; [exact H1|]. split.
  - intros b Hb. rewrite <- (corner_nth n) by (apply W; exact Hb). apply H2. exact Hb.
  - destruct H3 as [H3|(b & Hb & H3)]; [left; exact H3|].
    right. exists b. split; [exact Hb|]. rewrite <- (corner_nth n) by (apply W; exact Hb). exact H3.
Qed.

Lemma all_ge_spec a : forall b, length a = length b ->
  (all_ge a b = true <-> forall i, nth i b 0 <= nth i a 0).
Proof.
  induction a as [|x a IH]; intros [|y b] L; cbn in *; try discriminate.
  - split; [intros _ i; destruct i; lia|reflexivity].
  - rewrite andb_true_iff, IH by lia. split.
    + intros [H1 H2] i. destruct i; [apply Z.leb_le; exact H1|apply H2].
    + intros H. split; [apply Z.leb_le; exact (H O)|intros i; exact (H (S i))].
Qed.

Definition dominated n (bstar b : box) : Prop :=
  wfb n b /\ forall i, nth i (corner b) 0 <= nth i (corner bstar) 0.

Lemma ts_fold_stay n bstar : forall rest, wfb n bstar ->
  (forall b, In b rest -> dominated n bstar b) ->
  fold_left (fun shape b => if all_ge (corner b) shape then corner b else shape) rest (corner bstar) = corner bstar.
Proof.
  induction rest as [|b rest IH]; intros Ws D; cbn; [reflexivity|].
  destruct (D b (or_introl eq_refl)) as [Wb Db].
  destruct (all_ge (corner b) (corner bstar)) eqn:Q.
  - assert (length (corner b) = length (corner bstar)) as LL by (rewrite !(corner_length n); auto).
    rewrite (all_ge_spec _ _ LL) in Q.
    assert (corner b = corner bstar) as ->.
    { apply list_eq_nth; [rewrite !(corner_length n); auto|]. intros i _. specialize (Q i). specialize (Db i). lia. }
    apply IH; [exact Ws|]. intros b' Hb'. apply D. right. exact Hb'.
  - apply IH; [exact Ws|]. intros b' Hb'. apply D. right. exact Hb'.
Qed.

Lemma ts_fold_reach n bstar : forall rest b0, wfb n bstar -> dominated n bstar b0 ->
  (forall b, In b rest -> dominated n bstar b) -> In bstar rest ->
  fold_left (fun shape b => if all_ge (corner b) shape then corner b else shape) rest (corner b0) = corner bstar.
Proof.
  induction rest as [|b rest IH]; intros b0 Ws D0 D Hin; [destruct Hin|]. cbn.
  assert (forall b', In b' rest -> dominated n bstar b') as D' by (intros b' Hb'; apply D; right; exact Hb').
  destruct Hin as [->|Hin].
  - assert (all_ge (corner bstar) (corner b0) = true) as ->.
    { apply all_ge_spec; [destruct D0 as [W0 _]; rewrite !(corner_length n); auto|]. apply D0. }
    apply (ts_fold_stay n); assumption.
  - destruct (all_ge (corner b) (corner b0)).
    + apply IH; try assumption. apply D. left. reflexivity.
    + apply IH; assumption.
Qed.

(* when one shard's corner dominates (always the case for a partition of a box), get_tensor_shape and
   _get_global_shape agree and equal that corner *)
Lemma shapes_agree n (bs : list box) bstar :
  In bstar bs -> (forall b, In b bs -> dominated n bstar b) -> (forall i, 0 <= nth i (corner bstar) 0) ->
  tensor_shape bs = Some (corner bstar) /\ global_shape bs = Some (corner bstar).
Proof.
  intros Hin D Pos. destruct bs as [|b0 bs]; [destruct Hin|].
  assert (wfb n bstar) as Ws by (destruct (D bstar Hin); assumption). split.
  - unfold tensor_shape. f_equal. destruct Hin as [->|Hin].
    + apply (ts_fold_stay n); [exact Ws|]. intros b Hb. apply D. right. exact Hb.
    + apply (ts_fold_reach n); try assumption; [apply D; left; reflexivity|].
      intros b Hb. apply D. right. exact Hb.
  - destruct (global_shape_is_corner n (b0 :: bs)) as (gs & Eg & Lg & H); [discriminate|intros b Hb; apply D; exact Hb|].
    rewrite Eg. f_equal. apply list_eq_nth; [rewrite (corner_length n); auto|].
    intros i Hi. rewrite Lg in Hi. destruct (H i Hi) as (H0 & H1 & H2).
    specialize (H1 bstar Hin). rewrite <- (corner_nth n) in H1 by exact Ws.
    destruct H2 as [H2|(b & Hb & H2)].
    + specialize (Pos i). lia.
    + destruct (D b Hb) as [Wb Db]. rewrite <- (corner_nth n) in H2 by exact Wb. specialize (Db i). lia.
Qed.

Lemma nth_map_pred shape : forall i, (i < length shape)%nat ->
  nth i (map (fun e => e - 1) shape) 0 = nth i shape 0 - 1.
Proof. induction shape as [|e shape IH]; intros [|i] H; cbn in *; try lia. apply IH. lia. Qed.

(* a family of boxes inside [0, shape) that covers the last element has a dominating corner = shape *)
Lemma partition_corner n (bs : list box) shape :
  length shape = n -> (forall b, In b bs -> wfb n b) ->
  (forall b, In b bs -> forall i, (i < n)%nat -> nth i (boff b) 0 + nth i (bsz b) 0 <= nth i shape 0) ->
  (exists b, In b bs /\ in_box b (map (fun e => e - 1) shape) = true) ->
  exists bstar, In bstar bs /\ corner bstar = shape /\ forall b, In b bs -> dominated n bstar b.
Proof.
  intros Ls W Inside (bstar & Hin & Hg). exists bstar. split; [exact Hin|].
  pose proof (W bstar Hin) as Ws.
  apply (in_box_spec n) in Hg as [_ Hg]; [|exact Ws].
  assert (corner bstar = shape) as Ec.
  { apply list_eq_nth; [rewrite (corner_length n); auto|]. intros i Hi. rewrite (corner_length n) in Hi by exact Ws.
    rewrite (corner_nth n) by exact Ws. specialize (Hg i Hi). specialize (Inside bstar Hin i Hi).
    rewrite nth_map_pred in Hg by lia. lia. }
  split; [exact Ec|]. intros b Hb. split; [apply W; exact Hb|]. intros i. rewrite Ec.
  destruct (Nat.lt_ge_cases i n) as [Hi|Hi].
  - rewrite (corner_nth n) by (apply W; exact Hb). apply Inside; assumption.
  - rewrite !nth_overflow; [lia|lia|rewrite (corner_length n); [lia|apply W; exact Hb]].
Qed.

(* ================================================================== a checker for the hypotheses (used by the Examples) *)
Definition wfb_b (n : nat) (b : box) : bool :=
  Nat.eqb (length (boff b)) n && Nat.eqb (length (bsz b)) n.

Fixpoint disjointb (bs : list box) : bool :=
  match bs with
  | [] => true
  | b :: rest => forallb (fun b' => negb (overlaps b b')) rest && disjointb rest
  end.

Lemma wfb_b_sound n bs : forallb (wfb_b n) bs = true -> forall b, In b bs -> wfb n b.
Proof.
  intros H b Hb. rewrite forallb_forall in H. specialize (H b Hb). unfold wfb_b in H.
  apply andb_prop in H as [H1 H2]. apply Nat.eqb_eq in H1, H2. split; assumption.
Qed.

Lemma disjointb_sound n bs : (forall b, In b bs -> wfb n b) -> disjointb bs = true -> ForallOrdPairs box_disjoint bs.
Proof.
  induction bs as [|b rest IH]; intros W H; [constructor|].
  cbn in H. apply andb_prop in H as [H1 H2]. constructor.
  - rewrite Forall_forall. intros b' Hb' g [G1 G2]. rewrite forallb_forall in H1.
    specialize (H1 b' Hb'). apply negb_true_iff in H1.
    exact (overlaps_false_disjoint n b b' g (W b (or_introl eq_refl)) (W b' (or_intror Hb')) H1 G1 G2).
  - apply IH; [|exact H2]. intros b' Hb'. apply W. right. exact Hb'.
Qed.

Lemma shards_disjoint_of_boxes {E} (shards : list (sshard E)) :
  ForallOrdPairs box_disjoint (map s_box shards) -> shards_disjoint shards.
Proof.
  unfold shards_disjoint. induction shards as [|s rest IH]; intros H; [constructor|].
  cbn in H. inversion H as [|? ? Hall H']; subst. constructor; [|apply IH; exact H'].
  rewrite Forall_forall in *. intros s' Hs'. apply Hall. apply in_map. exact Hs'.
Qed.

(* ---------------------------------------------------------------- example data: 5x7, uneven 2x3 grid *)
Definition ex_G (c : coord) : Z := 1 + 7 * nth 0 c 0 + nth 1 c 0.
Definition ex_grid (rows cols : list (Z * Z)) : list box :=
  flat_map (fun r => map (fun c => mkBox [fst r; fst c] [snd r; snd c]) cols) rows.
Definition ex_saved_boxes : list box := ex_grid [(0, 2); (2, 3)] [(0, 3); (3, 1); (4, 3)].
Definition ex_saved : list (sshard Z) :=
  map (fun ib => mkS (snd ib) (fst ib) [] (fun c => ex_G (vadd (boff (snd ib)) c))) (indexed ex_saved_boxes).
Definition ex_dst_boxes : list box := ex_grid [(0, 1); (1, 3); (4, 1)] [(0, 5); (5, 2)].
Definition ex_I (c : coord) : Z := - (1 + 9 * nth 0 c 0 + nth 1 c 0).
Definition ex_dsts : list (dshard Z) := map (fun b => mkD b ex_I) ex_dst_boxes.
Definition ex_dense : dshard Z := mkD (dense_box [4; 9]) ex_I.
