(* C08: proofs about model/Reshard.v.  Strategy: reflect the structural (executable) definitions into
   per-dimension statements over [nth i _ 0]; every n-dimensional fact is then the 1-D interval fact (lia)
   at each dimension. *)
From TS Require Import model.Base model.Reshard.
From Coq Require Import Permutation.

(* ================================================================== lists, vectors *)
Lemma coord_eqb_eq (a b : coord) : coord_eqb a b = true <-> a = b.
Proof.
  unfold coord_eqb. revert b; induction a as [|x a IH]; intros [|y b]; cbn; split; intros H;
    try reflexivity; try discriminate.
  - apply andb_prop in H as [H1 H2]. apply Z.eqb_eq in H1. apply IH in H2. congruence.
  - inversion H; subst. rewrite Z.eqb_refl. cbn. apply IH. reflexivity.
Qed.

Lemma coord_eqb_refl a : coord_eqb a a = true.
Proof. apply coord_eqb_eq. reflexivity. Qed.

Lemma coord_eqb_neq a b : a <> b -> coord_eqb a b = false.
Proof. intros H. destruct (coord_eqb a b) eqn:E; [|reflexivity]. apply coord_eqb_eq in E. contradiction. Qed.

Lemma vadd_length a b : length a = length b -> length (vadd a b) = length a.
Proof. revert b; induction a as [|x a IH]; intros [|y b] H; cbn in *; try discriminate; [reflexivity|]. f_equal. apply IH. lia. Qed.

Lemma vsub_length a b : length a = length b -> length (vsub a b) = length a.
Proof. revert b; induction a as [|x a IH]; intros [|y b] H; cbn in *; try discriminate; [reflexivity|]. f_equal. apply IH. lia. Qed.

Lemma vadd_nth a b i : length a = length b -> nth i (vadd a b) 0 = nth i a 0 + nth i b 0.
Proof.
  revert b i; induction a as [|x a IH]; intros [|y b] i H; cbn in *; try discriminate.
  - destruct i; reflexivity.
  - destruct i; [reflexivity|]. apply IH. lia.
Qed.

Lemma vsub_nth a b i : length a = length b -> nth i (vsub a b) 0 = nth i a 0 - nth i b 0.
Proof.
  revert b i; induction a as [|x a IH]; intros [|y b] i H; cbn in *; try discriminate.
  - destruct i; reflexivity.
  - destruct i; [reflexivity|]. apply IH. lia.
Qed.

Lemma zeros_length l : length (zeros l) = length l.
Proof. apply map_length. Qed.

Lemma zeros_nth l i : nth i (zeros l) 0 = 0.
Proof. unfold zeros. revert i; induction l as [|x l IH]; intros [|i]; cbn; auto. Qed.

Lemma upd_length l k v : length (upd l k v) = length l.
Proof. revert k; induction l as [|x l IH]; intros [|k]; cbn; auto. Qed.

Lemma upd_nth_same l k v : (k < length l)%nat -> nth k (upd l k v) 0 = v.
Proof. revert k; induction l as [|x l IH]; intros [|k] H; cbn in *; try lia; auto. apply IH. lia. Qed.

Lemma upd_nth_other l k v i : i <> k -> nth i (upd l k v) 0 = nth i l 0.
Proof.
  revert k i; induction l as [|x l IH]; intros [|k] [|i] H; cbn; auto; try congruence.
Qed.

Lemma list_eq_nth (a b : list Z) :
  length a = length b -> (forall i, (i < length a)%nat -> nth i a 0 = nth i b 0) -> a = b.
Proof. intros HL H. apply nth_ext with (d := 0) (d' := 0); assumption. Qed.

(* ================================================================== membership, reflected *)
Lemma in_range_spec off sz x :
  in_range off sz x = true <->
  length off = length x /\ length sz = length x /\
  forall i, (i < length x)%nat -> nth i off 0 <= nth i x 0 < nth i off 0 + nth i sz 0.
Proof.
  revert sz x; induction off as [|o off IH]; intros [|s sz] [|v x]; cbn; split; intros H;
    try discriminate; try (destruct H as (H1 & H2 & _); discriminate).
  - split; [reflexivity|]. split; [reflexivity|]. intros i Hi; lia.
  - reflexivity.
  - apply andb_prop in H as [H H3]. apply andb_prop in H as [H1 H2].
    apply IH in H3 as (L1 & L2 & H3). split; [lia|]. split; [lia|].
    intros i Hi. destruct i; cbn; [lia|]. apply H3. lia.
  - destruct H as (L1 & L2 & H3). apply andb_true_intro; split; [apply andb_true_intro; split|].
    + specialize (H3 O ltac:(lia)). cbn in H3. lia.
    + specialize (H3 O ltac:(lia)). cbn in H3. lia.
    + apply IH. split; [lia|]. split; [lia|]. intros i Hi. specialize (H3 (S i) ltac:(lia)). cbn in H3. exact H3.
Qed.

Definition wfb (n : nat) (b : box) : Prop := length (boff b) = n /\ length (bsz b) = n.

Lemma in_box_spec n b g : wfb n b ->
  (in_box b g = true <->
   length g = n /\ forall i, (i < n)%nat -> nth i (boff b) 0 <= nth i g 0 < nth i (boff b) 0 + nth i (bsz b) 0).
Proof.
  intros [H1 H2]. unfold in_box. rewrite in_range_spec. split.
  - intros (L1 & L2 & H). split; [lia|]. intros i Hi. apply H. lia.
  - intros (L & H). split; [lia|]. split; [lia|]. intros i Hi. apply H. lia.
Qed.

Lemma in_local_spec n b c : wfb n b ->
  (in_local b c = true <-> length c = n /\ forall i, (i < n)%nat -> 0 <= nth i c 0 < nth i (bsz b) 0).
Proof.
  intros [H1 H2]. unfold in_local. rewrite in_range_spec. rewrite zeros_length. split.
  - intros (L1 & L2 & H). split; [lia|]. intros i Hi. specialize (H i ltac:(lia)). rewrite zeros_nth in H. lia.
  - intros (L & H). split; [lia|]. split; [lia|]. intros i Hi. rewrite zeros_nth. specialize (H i ltac:(lia)). lia.
Qed.

Lemma in_lens_spec lens c :
  in_range (zeros lens) lens c = true <->
  length c = length lens /\ forall i, (i < length lens)%nat -> 0 <= nth i c 0 < nth i lens 0.
Proof.
  rewrite in_range_spec, zeros_length. split.
  - intros (L1 & L2 & H). split; [lia|]. intros i Hi. specialize (H i ltac:(lia)). rewrite zeros_nth in H. lia.
  - intros (L & H). split; [lia|]. split; [lia|]. intros i Hi. rewrite zeros_nth. specialize (H i ltac:(lia)). lia.
Qed.

(* ================================================================== torch's overlap test, reflected *)
Lemma overlaps_l_spec o1 : forall s1 o2 s2 n,
  length o1 = n -> length s1 = n -> length o2 = n -> length s2 = n ->
  (overlaps_l o1 s1 o2 s2 = true <->
   forall i, (i < n)%nat -> nth i o1 0 < nth i o2 0 + nth i s2 0 /\ nth i o2 0 < nth i o1 0 + nth i s1 0).
Proof.
  induction o1 as [|a o1 IH]; intros [|x s1] [|b o2] [|y s2] n L1 L2 L3 L4; cbn in *; subst n; try discriminate.
  - split; [intros _ i Hi; lia | reflexivity].
  - injection L2 as L2. injection L3 as L3. injection L4 as L4.
    specialize (IH s1 o2 s2 (length o1) eq_refl L2 L3 L4). split.
    + intros H. apply andb_prop in H as [H H3]. apply andb_prop in H as [H1 H2].
      apply negb_true_iff in H1, H2. apply Z.leb_gt in H1, H2.
      intros [|i] Hi; cbn; [lia|]. apply IH; [exact H3|lia].
    + intros H. apply andb_true_intro; split; [apply andb_true_intro; split|].
      * apply negb_true_iff, Z.leb_gt. specialize (H O ltac:(lia)). cbn in H. lia.
      * apply negb_true_iff, Z.leb_gt. specialize (H O ltac:(lia)). cbn in H. lia.
      * apply IH. intros i Hi. specialize (H (S i) ltac:(lia)). cbn in H. exact H.
Qed.

Lemma overlaps_spec n b1 b2 : wfb n b1 -> wfb n b2 ->
  (overlaps b1 b2 = true <->
   forall i, (i < n)%nat -> nth i (boff b1) 0 < nth i (boff b2) 0 + nth i (bsz b2) 0 /\
                            nth i (boff b2) 0 < nth i (boff b1) 0 + nth i (bsz b1) 0).
Proof. intros [A1 A2] [B1 B2]. unfold overlaps. apply overlaps_l_spec; assumption. Qed.

Lemma overlaps_sym n b1 b2 : wfb n b1 -> wfb n b2 -> overlaps b1 b2 = overlaps b2 b1.
Proof.
  intros W1 W2. destruct (overlaps b1 b2) eqn:E1, (overlaps b2 b1) eqn:E2; try reflexivity.
  - rewrite (overlaps_spec n) in E1 by assumption.
    assert (overlaps b2 b1 = true) as X; [|congruence].
    apply (overlaps_spec n); try assumption. intros i Hi. specialize (E1 i Hi). lia.
  - rewrite (overlaps_spec n) in E2 by assumption.
    assert (overlaps b1 b2 = true) as X; [|congruence].
    apply (overlaps_spec n); try assumption. intros i Hi. specialize (E2 i Hi). lia.
Qed.

(* boxes the test calls non-overlapping have no coordinate in common *)
Lemma overlaps_false_disjoint n b1 b2 g : wfb n b1 -> wfb n b2 ->
  overlaps b1 b2 = false -> in_box b1 g = true -> in_box b2 g = true -> False.
Proof.
  intros W1 W2 E G1 G2.
  assert (overlaps b1 b2 = true) as X; [|congruence].
  apply (overlaps_spec n); try assumption.
  apply (in_box_spec n) in G1 as [_ G1]; [|assumption].
  apply (in_box_spec n) in G2 as [_ G2]; [|assumption].
  intros i Hi. specialize (G1 i Hi). specialize (G2 i Hi). lia.
Qed.

(* with positive sizes the test is exactly "the boxes share a coordinate" *)
Lemma overlaps_true_intersect n b1 b2 : wfb n b1 -> wfb n b2 ->
  (forall i, (i < n)%nat -> 0 < nth i (bsz b1) 0) -> (forall i, (i < n)%nat -> 0 < nth i (bsz b2) 0) ->
  overlaps b1 b2 = true -> exists g, in_box b1 g = true /\ in_box b2 g = true.
Proof.
  intros W1 W2 P1 P2 E. rewrite (overlaps_spec n) in E by assumption.
  pose (g := map (fun p => Z.max (fst p) (snd p)) (combine (boff b1) (boff b2))).
  destruct W1 as [A1 A2], W2 as [B1 B2].
  assert (length g = n) as Lg by (unfold g; rewrite map_length, combine_length; lia).
  assert (forall i, (i < n)%nat -> nth i g 0 = Z.max (nth i (boff b1) 0) (nth i (boff b2) 0)) as Hg.
  { intros i Hi. unfold g.
    change 0 with ((fun p : Z * Z => Z.max (fst p) (snd p)) (0, 0)) at 1.
    rewrite map_nth, combine_nth by lia. reflexivity. }
  exists g. split; apply (in_box_spec n); try (split; assumption); (split; [assumption|]);
    intros i Hi; rewrite (Hg i Hi); specialize (E i Hi); specialize (P1 i Hi); specialize (P2 i Hi); lia.
Qed.

(* ================================================================== the overlap region, reflected *)
Lemma region_dim_spec a x b y :
  region_dim a x b y = (Z.max a b - a, Z.max a b - b, Z.min (a + x) (b + y) - Z.max a b).
Proof.
  unfold region_dim. destruct (a >? b) eqn:E.
  - apply Z.gtb_lt in E. f_equal; [f_equal|]; lia.
  - assert (a <= b) by (destruct (Z.gtb_spec a b); [discriminate|lia]). f_equal; [f_equal|]; lia.
Qed.

Lemma overlap_region_l_nth so : forall ss co cs n i,
  length so = n -> length ss = n -> length co = n -> length cs = n -> (i < n)%nat ->
  nth i (overlap_region_l so ss co cs) (0, 0, 0) =
  region_dim (nth i so 0) (nth i ss 0) (nth i co 0) (nth i cs 0).
Proof.
  induction so as [|a so IH]; intros [|x ss] [|b co] [|y cs] n i L1 L2 L3 L4 Hi; cbn in *; subst n;
    try discriminate; try lia.
  destruct i; [reflexivity|]. apply (IH ss co cs (length so)); try lia.
Qed.

Lemma overlap_region_l_length so : forall ss co cs n,
  length so = n -> length ss = n -> length co = n -> length cs = n ->
  length (overlap_region_l so ss co cs) = n.
Proof.
  induction so as [|a so IH]; intros [|x ss] [|b co] [|y cs] n L1 L2 L3 L4; cbn in *; subst n;
    try discriminate; [reflexivity|]. f_equal. apply IH; lia.
Qed.

Section RegionFacts.
  Variables (n : nat) (sv cu : box).
  Hypothesis (Wsv : wfb n sv) (Wcu : wfb n cu).
  Let R := overlap_region sv cu.

  Lemma region_length : length R = n.
  Proof. destruct Wsv, Wcu. apply overlap_region_l_length; assumption. Qed.

  Lemma r_src_length : length (r_src R) = n.
  Proof. unfold r_src. rewrite map_length. apply region_length. Qed.
  Lemma r_dst_length : length (r_dst R) = n.
  Proof. unfold r_dst. rewrite map_length. apply region_length. Qed.
  Lemma r_len_length : length (r_len R) = n.
  Proof. unfold r_len. rewrite map_length. apply region_length. Qed.

  Let a i := nth i (boff sv) 0.
  Let x i := nth i (bsz sv) 0.
  Let b i := nth i (boff cu) 0.
  Let y i := nth i (bsz cu) 0.

  Lemma region_nth i : (i < n)%nat ->
    nth i R (0, 0, 0) = (Z.max (a i) (b i) - a i, Z.max (a i) (b i) - b i,
                         Z.min (a i + x i) (b i + y i) - Z.max (a i) (b i)).
  Proof.
    intros Hi. destruct Wsv, Wcu. unfold R, overlap_region.
    rewrite (overlap_region_l_nth _ _ _ _ n) by assumption. apply region_dim_spec.
  Qed.

  Lemma r_src_nth i : (i < n)%nat -> nth i (r_src R) 0 = Z.max (a i) (b i) - a i.
  Proof.
    intros Hi. unfold r_src.
    change 0 with ((fun t : Z * Z * Z => fst (fst t)) (0, 0, 0)) at 1.
    rewrite map_nth, region_nth by assumption. reflexivity.
  Qed.
  Lemma r_dst_nth i : (i < n)%nat -> nth i (r_dst R) 0 = Z.max (a i) (b i) - b i.
  Proof.
    intros Hi. unfold r_dst.
    change 0 with ((fun t : Z * Z * Z => snd (fst t)) (0, 0, 0)) at 1.
    rewrite map_nth, region_nth by assumption. reflexivity.
  Qed.
  Lemma r_len_nth i : (i < n)%nat ->
    nth i (r_len R) 0 = Z.min (a i + x i) (b i + y i) - Z.max (a i) (b i).
  Proof.
    intros Hi. unfold r_len.
    change 0 with ((@snd (Z * Z) Z) (0, 0, 0)) at 1.
    rewrite map_nth, region_nth by assumption. reflexivity.
  Qed.

  (* forward: inside the length box both narrows name the same global coordinate, inside both boxes *)
  Lemma region_forward c :
    in_range (zeros (r_len R)) (r_len R) c = true ->
    vadd (boff sv) (vadd (r_src R) c) = vadd (boff cu) (vadd (r_dst R) c) /\
    in_box sv (vadd (boff sv) (vadd (r_src R) c)) = true /\
    in_box cu (vadd (boff cu) (vadd (r_dst R) c)) = true /\
    in_local sv (vadd (r_src R) c) = true /\
    in_local cu (vadd (r_dst R) c) = true.
  Proof.
    intros Hc. apply in_lens_spec in Hc as [Lc Hc]. rewrite r_len_length in Lc, Hc.
    pose proof r_src_length as LS. pose proof r_dst_length as LD.
    destruct Wsv as [A1 A2], Wcu as [B1 B2].
    assert (length (vadd (r_src R) c) = n) as L1 by (rewrite vadd_length; lia).
    assert (length (vadd (r_dst R) c) = n) as L2 by (rewrite vadd_length; lia).
    assert (forall i, (i < n)%nat ->
              nth i (vadd (r_src R) c) 0 = Z.max (a i) (b i) - a i + nth i c 0) as S1.
    { intros i Hi. rewrite vadd_nth by lia. rewrite r_src_nth by assumption. reflexivity. }
    assert (forall i, (i < n)%nat ->
              nth i (vadd (r_dst R) c) 0 = Z.max (a i) (b i) - b i + nth i c 0) as S2.
    { intros i Hi. rewrite vadd_nth by lia. rewrite r_dst_nth by assumption. reflexivity. }
    repeat split.
    - apply list_eq_nth; rewrite !vadd_length by lia; [lia|].
      intros i Hi. rewrite (vadd_nth (boff sv)), (vadd_nth (boff cu)) by lia. rewrite S1, S2 by lia. fold (a i) (b i). lia.
    - apply (in_box_spec n); [split; assumption|]. split; [rewrite vadd_length; lia|].
      intros i Hi. rewrite (vadd_nth (boff sv)) by lia. rewrite S1 by assumption.
      specialize (Hc i Hi). rewrite r_len_nth in Hc by assumption. fold (a i) (x i). lia.
    - apply (in_box_spec n); [split; assumption|]. split; [rewrite vadd_length; lia|].
      intros i Hi. rewrite (vadd_nth (boff cu)) by lia. rewrite S2 by assumption.
      specialize (Hc i Hi). rewrite r_len_nth in Hc by assumption. fold (b i) (y i). lia.
    - apply (in_local_spec n); [split; assumption|]. split; [assumption|].
      intros i Hi. rewrite S1 by assumption.
      specialize (Hc i Hi). rewrite r_len_nth in Hc by assumption. fold (x i). lia.
    - apply (in_local_spec n); [split; assumption|]. split; [assumption|].
      intros i Hi. rewrite S2 by assumption.
      specialize (Hc i Hi). rewrite r_len_nth in Hc by assumption. fold (y i). lia.
  Qed.

  (* backward: every global coordinate of the intersection is hit by exactly one c of the length box *)
  Lemma region_backward g :
    in_box sv g = true -> in_box cu g = true ->
    exists c, in_range (zeros (r_len R)) (r_len R) c = true /\
              vadd (boff sv) (vadd (r_src R) c) = g /\
              vadd (boff cu) (vadd (r_dst R) c) = g /\
              forall c', in_range (zeros (r_len R)) (r_len R) c' = true ->
                         (vadd (boff sv) (vadd (r_src R) c') = g \/ vadd (boff cu) (vadd (r_dst R) c') = g) ->
                         c' = c.
  Proof.
    intros G1 G2.
    apply (in_box_spec n) in G1 as [Lg G1]; [|assumption].
    apply (in_box_spec n) in G2 as [_ G2]; [|assumption].
    pose proof r_src_length as LS. pose proof r_dst_length as LD. pose proof r_len_length as LL.
    destruct Wsv as [A1 A2], Wcu as [B1 B2].
    pose (c := vsub (vsub g (boff sv)) (r_src R)).
    assert (length c = n) as Lc by (unfold c; rewrite !vsub_length; rewrite ?vsub_length; lia).
    assert (forall i, (i < n)%nat -> nth i c 0 = nth i g 0 - Z.max (a i) (b i)) as Hcn.
    { intros i Hi. unfold c. rewrite vsub_nth by (rewrite vsub_length; lia).
      rewrite vsub_nth by lia. rewrite r_src_nth by assumption. fold (a i). lia. }
    assert (in_range (zeros (r_len R)) (r_len R) c = true) as Hin.
    { apply in_lens_spec. rewrite LL. split; [assumption|]. intros i Hi.
      rewrite Hcn, r_len_nth by assumption. specialize (G1 i Hi). specialize (G2 i Hi).
      fold (a i) (x i) in G1. fold (b i) (y i) in G2. lia. }
    exists c. split; [exact Hin|].
    assert (vadd (boff sv) (vadd (r_src R) c) = g) as E1.
    { apply list_eq_nth; rewrite !vadd_length by (rewrite ?vadd_length; lia); [lia|].
      intros i Hi. rewrite vadd_nth by (rewrite vadd_length; lia). rewrite vadd_nth by lia.
      rewrite r_src_nth, Hcn by lia. fold (a i). lia. }
    split; [exact E1|]. split.
    { destruct (region_forward c Hin) as (E & _). rewrite <- E. exact E1. }
    intros c' Hin' Hc'.
    assert (vadd (boff sv) (vadd (r_src R) c') = g) as E1'.
    { destruct Hc' as [H|H]; [exact H|]. destruct (region_forward c' Hin') as (E & _). rewrite E. exact H. }
    apply in_lens_spec in Hin' as [Lc' _]. rewrite LL in Lc'.
    apply list_eq_nth; [lia|]. intros i Hi. rewrite Lc' in Hi.
    assert (nth i (vadd (boff sv) (vadd (r_src R) c')) 0 = nth i (vadd (boff sv) (vadd (r_src R) c)) 0) as Q
      by (rewrite E1, E1'; reflexivity).
    rewrite !vadd_nth in Q by (rewrite ?vadd_length; lia). lia.
  Qed.
End RegionFacts.
