(* C17: obligations over the GENERATED dtype tables (coq/gen/DtypeGen.v, regenerated from
   torchsnapshot/serialization.py on every run) and the instantiation of the layout theorems with them.
   [checker generated = true] is established by vm_compute (finite domain) and lifted through the soundness
   lemmas of proofs/DtypeProofs.v. *)
From TS Require Import model.Base model.Dtype model.Layout proofs.DtypeProofs proofs.LayoutProofs gen.DtypeGen.

(* ------------------------------------------------------------------ reflective obligations *)
Lemma gen_bijective : bijective_table all_supported_dtypes dtype_to_string_table = true.
Proof. vm_compute. reflexivity. Qed.

Lemma gen_sizes_match : sizes_match Dtype_ref_sizes all_supported_dtypes dtype_to_element_size_table = true.
Proof. vm_compute. reflexivity. Qed.

Lemma gen_sizes_positive : sizes_positive dtype_to_element_size_table = true.
Proof. vm_compute. reflexivity. Qed.

Lemma gen_bp_subset : bp_subset_of_all buffer_protocol_supported_dtypes all_supported_dtypes = true.
Proof. vm_compute. reflexivity. Qed.

Lemma gen_quant_subset : bp_subset_of_all supported_quantized_dtypes all_supported_dtypes = true.
Proof. vm_compute. reflexivity. Qed.

Lemma gen_bp_quant_disjoint : Dtype_disjoint buffer_protocol_supported_dtypes supported_quantized_dtypes = true.
Proof. vm_compute. reflexivity. Qed.

Lemma gen_strings_canonical : strings_canonical dtype_to_string_table = true.
Proof. vm_compute. reflexivity. Qed.

Lemma gen_string_to_dtype_is_inverse : string_to_dtype_table = Dtype_swap dtype_to_string_table.
Proof. reflexivity. Qed.

(* item size of the buffer tensor_as_memoryview hands out for dtype d:
     if tensor.dtype == torch.bfloat16: via untyped storage under the carrier tensor torch.empty((0), dtype=<carrier>)
     else: numpy + memoryview.cast(<format>)                                                                    *)
Definition C17_carrier (d : pystr) : option Z :=
  if Dtype_str_eqb d Dtype_bfloat16
  then Dtype_get bf16_carrier_dtype dtype_to_element_size_table
  else Some numpy_cast_itemsize.

(* for every buffer-protocol dtype the carrier item size is positive and divides the element size
   (so c * floor(esize * n / c) = esize * n for every n) *)
Definition C17_carrier_ok (d : pystr) : bool :=
  match Dtype_get d dtype_to_element_size_table, C17_carrier d with
  | Some es, Some c => (0 <? c) && (es mod c =? 0)
  | _, _ => false
  end.

Lemma gen_carrier_ok : forallb C17_carrier_ok buffer_protocol_supported_dtypes = true.
Proof. vm_compute. reflexivity. Qed.

Lemma C17_carrier_divides d es c :
  In d buffer_protocol_supported_dtypes ->
  Dtype_get d dtype_to_element_size_table = Some es -> C17_carrier d = Some c ->
  0 < c /\ es mod c = 0.
Proof.
  intros Hd Hes Hc. pose proof gen_carrier_ok as H. rewrite forallb_forall in H. specialize (H d Hd).
  unfold C17_carrier_ok in H. rewrite Hes, Hc in H. apply andb_true_iff in H as [H1 H2].
  apply Z.ltb_lt in H1. apply Z.eqb_eq in H2. split; assumption.
Qed.

(* ------------------------------------------------------------------ table properties *)
Lemma dtype_string_bijective : table_bijection all_supported_dtypes dtype_to_string_table.
Proof. exact (bijective_table_sound _ _ gen_bijective). Qed.

Lemma dtype_strings_canonical d s :
  Dtype_get d dtype_to_string_table = Some s -> s = Dtype_torch_prefix ++ d.
Proof. exact (strings_canonical_sound _ gen_strings_canonical d s). Qed.

Lemma esize_matches_reference :
  table_sizes_match Dtype_ref_sizes all_supported_dtypes dtype_to_element_size_table.
Proof. exact (sizes_match_sound _ _ _ gen_sizes_match). Qed.

Lemma esize_positive d z : Dtype_get d dtype_to_element_size_table = Some z -> 0 < z.
Proof. exact (sizes_positive_sound _ gen_sizes_positive d z). Qed.

Lemma buffer_protocol_subset d :
  In d buffer_protocol_supported_dtypes ->
  In d all_supported_dtypes /\ ~ In d supported_quantized_dtypes /\
  exists z, Dtype_get d dtype_to_element_size_table = Some z /\ 0 < z /\ Dtype_get d Dtype_ref_sizes = Some z.
Proof.
  intros Hd. pose proof (bp_subset_of_all_sound _ _ gen_bp_subset d Hd) as Hall.
  split; [exact Hall|]. split; [exact (Dtype_disjoint_sound _ _ gen_bp_quant_disjoint d Hd)|].
  destruct esize_matches_reference as [Hdom Href]. destruct (Hdom d Hall) as [z Hz].
  exists z. split; [exact Hz|]. split; [exact (esize_positive d z Hz) | exact (Href d z Hz)].
Qed.

Lemma quantized_subset d : In d supported_quantized_dtypes -> In d all_supported_dtypes.
Proof. exact (bp_subset_of_all_sound _ _ gen_quant_subset d). Qed.

(* ------------------------------------------------------------------ layout theorems at the generated tables *)
Section Gen.
  Variable E : Type.
  Variable elem_bytes : E -> list Z.

  Lemma serialized_length_generated d es c (t : tensor E) :
    In d buffer_protocol_supported_dtypes ->
    Dtype_get d dtype_to_element_size_table = Some es ->
    C17_carrier d = Some c ->
    (forall e, length (elem_bytes e) = Z.to_nat es) ->
    wf_layout E t ->
    llen (as_memoryview elem_bytes c t) = es * numel t.
  Proof.
    intros Hd Hes Hc Hlen Hwf. destruct (C17_carrier_divides d es c Hd Hes Hc) as [Hc0 Hdiv].
    exact (serialized_length_divides E es elem_bytes (esize_positive d es Hes) Hlen c t Hc0 Hdiv Hwf).
  Qed.

  Lemma roundtrip_generated d es c (t : tensor E) :
    In d buffer_protocol_supported_dtypes ->
    Dtype_get d dtype_to_element_size_table = Some es ->
    C17_carrier d = Some c ->
    (forall e, length (elem_bytes e) = Z.to_nat es) ->
    wf_layout E t ->
    from_memoryview es (as_memoryview elem_bytes c t) (t_shape t) = Ok (map elem_bytes (elems t)).
  Proof.
    intros Hd Hes Hc Hlen Hwf. destruct (C17_carrier_divides d es c Hd Hes Hc) as [Hc0 Hdiv].
    exact (roundtrip_divides E es elem_bytes (esize_positive d es Hes) Hlen c t Hc0 Hdiv Hwf).
  Qed.
End Gen.

(* ------------------------------------------------------------------ stager: serializer dispatch *)
(* (should_copy_cpu_tensor is translated too, for C09; nothing in C17 depends on its value: tensor_as_memoryview
   makes the tensor contiguous itself) *)
Lemma stage_dispatch :
  stage_kind serializer_BUFFER_PROTOCOL_value = 2 /\ stage_kind serializer_TORCH_SAVE_value = 1.
Proof. vm_compute. split; reflexivity. Qed.

(* ------------------------------------------------------------------ torch_save path (complex, quantized dtypes) *)
(* torch.save / torch.load are not modelled: an oracle pair with the assumed law load (save x) = Some x.
   What is proved is only that the stager/consumer pair applies exactly that pair for the torch_save serializer. *)
Section TorchSave.
  Variable T B : Type.
  Variable save : T -> B.
  Variable load : B -> option T.
  Variable as_mv : T -> B.
  Variable from_mv : B -> option T.
  Hypothesis load_save : forall x, load (save x) = Some x.

  Definition stage (serializer : pystr) (x : T) : option B :=
    if stage_kind serializer =? 1 then Some (save x)
    else if stage_kind serializer =? 2 then Some (as_mv x) else None.

  Definition consume (serializer : pystr) (b : B) : option T :=
    if stage_kind serializer =? 1 then load b
    else if stage_kind serializer =? 2 then from_mv b else None.

  Lemma torch_save_path x :
    match stage serializer_TORCH_SAVE_value x with
    | Some b => consume serializer_TORCH_SAVE_value b = Some x
    | None => False
    end.
  Proof.
    unfold stage, consume. destruct stage_dispatch as [_ H1]. rewrite H1. cbn [Z.eqb Pos.eqb].
    apply load_save.
  Qed.
End TorchSave.
