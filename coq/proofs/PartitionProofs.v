(* C06: proofs about model/Partition.v.  The generated constants enter only through proofs/PartitionInst.v. *)
From TS Require Import model.Base gen.PartitionGen model.Partition proofs.PartitionInst.
From Coq Require Import Permutation Sorting.Sorted.

(* ================================================================== the choice functions *)
Lemma first_min_cons2 x y r :
  first_min (x :: y :: r) = if x <=? nth (first_min (y :: r)) (y :: r) 0 then O else S (first_min (y :: r)).
Proof. reflexivity. Qed.

Lemma first_max_cons2 x y r :
  first_max (x :: y :: r) = if x >=? nth (first_max (y :: r)) (y :: r) 0 then O else S (first_max (y :: r)).
Proof. reflexivity. Qed.

Lemma first_min_spec : forall l, l <> [] ->
  (first_min l < length l)%nat /\ forall q, (q < length l)%nat -> nth (first_min l) l 0 <= nth q l 0.
Proof.
  induction l as [|x r IH]; intro Hne; [congruence|].
  destruct r as [|y r'].
  - split; [cbn; lia|]. intros q Hq. cbn [length] in Hq. assert (q = 0)%nat as -> by lia. cbn. lia.
  - assert (Hr : y :: r' <> []) by discriminate. destruct (IH Hr) as [IHlt IHmin]. clear IH.
    rewrite first_min_cons2.
    destruct (x <=? nth (first_min (y :: r')) (y :: r') 0) eqn:E.
    + split; [cbn [length]; lia|]. intros q Hq. destruct q as [|q]; [cbn [nth]; lia|].
      cbn [length] in Hq. assert (Hq' : (q < length (y :: r'))%nat) by (cbn [length]; lia).
      specialize (IHmin q Hq'). change (nth (S q) (x :: y :: r') 0) with (nth q (y :: r') 0).
      change (nth 0 (x :: y :: r') 0) with x. lia.
    + split; [cbn [length] in *; lia|]. intros q Hq.
      change (nth (S (first_min (y :: r'))) (x :: y :: r') 0) with (nth (first_min (y :: r')) (y :: r') 0).
      destruct q as [|q].
      * change (nth 0 (x :: y :: r') 0) with x. lia.
      * cbn [length] in Hq. assert (Hq' : (q < length (y :: r'))%nat) by (cbn [length]; lia).
        change (nth (S q) (x :: y :: r') 0) with (nth q (y :: r') 0). exact (IHmin q Hq').
Qed.

(* ties go to the smallest index: every earlier entry is strictly larger *)
Lemma first_min_first : forall l q, (q < first_min l)%nat -> nth (first_min l) l 0 < nth q l 0.
Proof.
  induction l as [|x r IH]; intros q Hq; [cbn in Hq; lia|].
  destruct r as [|y r']; [cbn in Hq; lia|].
  rewrite first_min_cons2 in *.
  destruct (x <=? nth (first_min (y :: r')) (y :: r') 0) eqn:E; [lia|].
  change (nth (S (first_min (y :: r'))) (x :: y :: r') 0) with (nth (first_min (y :: r')) (y :: r') 0).
  destruct q as [|q].
  - change (nth 0 (x :: y :: r') 0) with x. lia.
  - change (nth (S q) (x :: y :: r') 0) with (nth q (y :: r') 0). apply IH. lia.
Qed.

Lemma first_max_lt : forall l, l <> [] -> (first_max l < length l)%nat.
Proof.
  induction l as [|x r IH]; intro Hne; [congruence|].
  destruct r as [|y r']; [cbn; lia|].
  rewrite first_max_cons2. assert (Hr : y :: r' <> []) by discriminate. specialize (IH Hr).
  destruct (x >=? nth (first_max (y :: r')) (y :: r') 0); cbn [length] in *; lia.
Qed.

Lemma choose_lt ch l : l <> [] -> (choose ch l < length l)%nat.
Proof.
  intro H. destruct ch; cbn [choose]; [apply first_min_spec; exact H | apply first_max_lt; exact H].
Qed.

(* ================================================================== upd_at *)
Lemma upd_at_length c f : forall l, length (upd_at c f l) = length l.
Proof.
  revert c. induction c as [|c IH]; intros [|x r]; cbn [upd_at length]; try reflexivity.
  rewrite IH. reflexivity.
Qed.

Lemma upd_at_nth_same f : forall c l, (c < length l)%nat -> nth c (upd_at c f l) 0 = f (nth c l 0).
Proof.
  induction c as [|c IH]; intros [|x r] H; cbn [length] in H; try lia; cbn [upd_at nth]; [reflexivity|].
  apply IH. lia.
Qed.

Lemma upd_at_nth_other f : forall c l q, q <> c -> nth q (upd_at c f l) 0 = nth q l 0.
Proof.
  induction c as [|c IH]; intros [|x r] q H; cbn [upd_at]; try reflexivity.
  - destruct q; [congruence | reflexivity].
  - destruct q; [reflexivity|]. cbn [nth]. apply IH. congruence.
Qed.

Lemma upd_at_nonempty c f l : l <> [] -> upd_at c f l <> [].
Proof. destruct l; [congruence|]. destruct c; cbn; discriminate. Qed.

Lemma sumZ_upd_at_add s : forall c l, (c < length l)%nat -> sumZ (upd_at c (fun x => x + s) l) = sumZ l + s.
Proof.
  induction c as [|c IH]; intros [|x r] H; cbn [length] in H; try lia; cbn [upd_at sumZ fold_right].
  - fold (sumZ r). lia.
  - fold (sumZ (upd_at c (fun x0 => x0 + s) r)). fold (sumZ r). rewrite IH by lia. lia.
Qed.

(* ================================================================== the greedy loop: who gets what *)
Lemma greedy_units ch up : forall us sizes, map snd (snd (greedy ch up sizes us)) = us.
Proof.
  induction us as [|u r IH]; intro sizes; cbn [greedy snd map]; [reflexivity|].
  rewrite IH. reflexivity.
Qed.

Lemma greedy_length ch up : forall us sizes, length (fst (greedy ch up sizes us)) = length sizes.
Proof.
  induction us as [|u r IH]; intro sizes; cbn [greedy fst]; [reflexivity|].
  rewrite IH. apply upd_at_length.
Qed.

Lemma greedy_ranks ch up : forall us sizes, sizes <> [] ->
  Forall (fun a => (fst a < length sizes)%nat) (snd (greedy ch up sizes us)).
Proof.
  induction us as [|u r IH]; intros sizes Hne; cbn [greedy snd]; [constructor|].
  constructor.
  - cbn [fst]. apply choose_lt. exact Hne.
  - specialize (IH (upd_at (choose ch sizes) (bump up (u_size u)) sizes) (upd_at_nonempty _ _ _ Hne)).
    rewrite upd_at_length in IH. exact IH.
Qed.

(* the first loop is the greedy loop over the whole-path units, and collects the chunks *)
Definition pass1_units (items : list item) : list wunit :=
  map (fun it => whole_unit (it_loads it)) (filter (fun it => negb (it_sub it)) items).
Definition chunks_of (items : list item) : list load :=
  flat_map it_loads (filter it_sub items).

Lemma pass1_greedy : forall items sizes,
  pass1 sizes items =
  (fst (greedy gen_choice_pass1 gen_update_pass1 sizes (pass1_units items)),
   snd (greedy gen_choice_pass1 gen_update_pass1 sizes (pass1_units items)),
   chunks_of items).
Proof.
  induction items as [|it r IH]; intro sizes; [reflexivity|].
  cbn [pass1]. unfold pass1_units, chunks_of. cbn [filter].
  destruct (it_sub it) eqn:E; cbn [negb].
  - rewrite IH. cbn [fst snd flat_map]. reflexivity.
  - cbn [map greedy]. rewrite IH. cbn [fst snd]. reflexivity.
Qed.

Lemma partitionables_eq items : partitionables items = chunks_of items.
Proof. unfold partitionables. rewrite pass1_greedy. reflexivity. Qed.

(* all units of work, in the order in which the two loops hand them out *)
Definition all_units (items : list item) (ord : list load) : list wunit :=
  pass1_units items ++ map chunk_unit ord.
(* all replicated write loads *)
Definition all_loads (items : list item) : list load := flat_map it_loads items.

Lemma partition_eq sizes items ord :
  partition sizes items ord =
  let g1 := greedy gen_choice_pass1 gen_update_pass1 sizes (pass1_units items) in
  let g2 := greedy gen_choice_pass2 gen_update_pass2 (fst g1) (map chunk_unit ord) in
  (fst g2, snd g1 ++ snd g2).
Proof. unfold partition. rewrite pass1_greedy. reflexivity. Qed.

Lemma partition_units sizes items ord : map snd (snd (partition sizes items ord)) = all_units items ord.
Proof.
  rewrite partition_eq. cbv zeta. cbn [snd]. rewrite map_app, !greedy_units. reflexivity.
Qed.

Lemma partition_length sizes items ord : length (fst (partition sizes items ord)) = length sizes.
Proof. rewrite partition_eq. cbv zeta. cbn [fst]. rewrite !greedy_length. reflexivity. Qed.

Lemma partition_ranks sizes items ord : sizes <> [] ->
  Forall (fun a => (fst a < length sizes)%nat) (snd (partition sizes items ord)).
Proof.
  intro Hne. rewrite partition_eq. cbv zeta. cbn [snd]. apply Forall_app. split.
  - apply greedy_ranks. exact Hne.
  - pose proof (greedy_ranks gen_choice_pass2 gen_update_pass2 (map chunk_unit ord)
                  (fst (greedy gen_choice_pass1 gen_update_pass1 sizes (pass1_units items)))) as H.
    rewrite greedy_length in H. apply H.
    intro E. apply (f_equal (@length Z)) in E. rewrite greedy_length in E. destruct sizes; [congruence | discriminate].
Qed.

(* ================================================================== counting invariant: bucket sums *)
Lemma sumZ_map_add {A} (f g : A -> Z) : forall l,
  sumZ (map (fun r => f r + g r) l) = sumZ (map f l) + sumZ (map g l).
Proof.
  induction l as [|x r IH]; [reflexivity|]. cbn [map sumZ fold_right].
  fold (sumZ (map (fun r0 => f r0 + g r0) r)). fold (sumZ (map f r)). fold (sumZ (map g r)). lia.
Qed.

Lemma sumZ_cons x l : sumZ (x :: l) = x + sumZ l.
Proof. reflexivity. Qed.

Lemma sumZ_app a b : sumZ (a ++ b) = sumZ a + sumZ b.
Proof. induction a as [|x a IH]; [reflexivity|]. cbn [app]. rewrite !sumZ_cons, IH. lia. Qed.

Lemma indicator_sum (c : nat) (x : Z) : forall n a,
  sumZ (map (fun r => if Nat.eqb c r then x else 0) (seq a n)) =
  if (Nat.leb a c && Nat.ltb c (a + n))%bool then x else 0.
Proof.
  induction n as [|n IH]; intro a.
  - cbn [seq map]. replace (a + 0)%nat with a by lia.
    destruct (Nat.leb a c) eqn:E1; destruct (Nat.ltb c a) eqn:E2; try reflexivity.
    apply Nat.leb_le in E1. apply Nat.ltb_lt in E2. lia.
  - cbn [seq map]. rewrite sumZ_cons, IH.
    destruct (Nat.eqb c a) eqn:Eca.
    + apply Nat.eqb_eq in Eca. subst a.
      assert (Nat.leb (S c) c = false) as -> by (apply Nat.leb_gt; lia).
      assert (Nat.leb c c = true) as -> by (apply Nat.leb_le; lia).
      assert (Nat.ltb c (c + S n) = true) as -> by (apply Nat.ltb_lt; lia).
      cbn [andb]. lia.
    + apply Nat.eqb_neq in Eca.
      destruct (Nat.leb (S a) c) eqn:E1; destruct (Nat.leb a c) eqn:E2;
        destruct (Nat.ltb c (S a + n)) eqn:E3; destruct (Nat.ltb c (a + S n)) eqn:E4; cbn [andb]; try lia;
        repeat match goal with
               | H : Nat.leb _ _ = true |- _ => apply Nat.leb_le in H
               | H : Nat.leb _ _ = false |- _ => apply Nat.leb_gt in H
               | H : Nat.ltb _ _ = true |- _ => apply Nat.ltb_lt in H
               | H : Nat.ltb _ _ = false |- _ => apply Nat.ltb_ge in H
               end; lia.
Qed.

Lemma rank_units_cons c u rest r :
  rank_units ((c, u) :: rest) r = if Nat.eqb c r then u :: rank_units rest r else rank_units rest r.
Proof. unfold rank_units. cbn [filter fst]. destruct (Nat.eqb c r); reflexivity. Qed.

(* every weight function: summing, over the ranks, the weights of the units a rank holds counts every
   handed-out unit exactly once *)
Lemma bucket_sum (w : wunit -> Z) (W : nat) : forall asg,
  Forall (fun a => (fst a < W)%nat) asg ->
  sumZ (map (fun r => sumZ (map w (rank_units asg r))) (seq 0 W)) = sumZ (map w (map snd asg)).
Proof.
  induction asg as [|[c u] rest IH]; intro HF.
  - cbn [map]. unfold rank_units. cbn [filter map sumZ fold_right].
    induction (seq 0 W) as [|x l IHl]; [reflexivity|]. cbn [map]. rewrite sumZ_cons, IHl. reflexivity.
  - inversion HF as [|a l Hc HF']; subst. cbn [fst] in Hc. specialize (IH HF').
    cbn [map snd]. rewrite sumZ_cons, <- IH.
    rewrite (map_ext (fun r => sumZ (map w (rank_units ((c, u) :: rest) r)))
                     (fun r => (if Nat.eqb c r then w u else 0) + sumZ (map w (rank_units rest r)))).
    + rewrite sumZ_map_add, indicator_sum.
      assert (Nat.leb 0 c = true) as -> by (apply Nat.leb_le; lia).
      assert (Nat.ltb c (0 + W) = true) as -> by (apply Nat.ltb_lt; lia).
      reflexivity.
    + intro r. rewrite rank_units_cons. destruct (Nat.eqb c r); [cbn [map]; rewrite sumZ_cons; reflexivity | lia].
Qed.

(* membership: a unit is in a rank's result iff it was handed to that rank *)
Lemma in_rank_units asg r u : In u (rank_units asg r) <-> In (r, u) asg.
Proof.
  unfold rank_units. rewrite in_map_iff. split.
  - intros [[c u'] [E H]]. cbn [snd] in E. subst u'. apply filter_In in H. destruct H as [H1 H2].
    cbn [fst] in H2. apply Nat.eqb_eq in H2. subst c. exact H1.
  - intro H. exists (r, u). split; [reflexivity|]. apply filter_In. split; [exact H|]. cbn [fst]. apply Nat.eqb_refl.
Qed.

Lemma nodup_snd_unique {A B} : forall (l : list (A * B)) a a' b,
  NoDup (map snd l) -> In (a, b) l -> In (a', b) l -> a = a'.
Proof.
  induction l as [|[x y] l IH]; intros a a' b ND H1 H2; [destruct H1|].
  cbn [map snd] in ND. inversion ND as [|? ? Hnin ND']; subst.
  destruct H1 as [H1|H1]; destruct H2 as [H2|H2].
  - congruence.
  - inversion H1; subst. exfalso. apply Hnin. apply in_map_iff. exists (a', b). split; [reflexivity | exact H2].
  - inversion H2; subst. exfalso. apply Hnin. apply in_map_iff. exists (a, b). split; [reflexivity | exact H1].
  - exact (IH a a' b ND' H1 H2).
Qed.

Lemma exactly_one_rank (W : nat) asg units u :
  map snd asg = units -> Forall (fun a => (fst a < W)%nat) asg -> NoDup units -> In u units ->
  exists r, (r < W)%nat /\ In u (rank_units asg r) /\
            forall r', In u (rank_units asg r') -> r' = r.
Proof.
  intros Hm HF ND Hin. subst units. apply in_map_iff in Hin. destruct Hin as [[c u'] [E Hin]]. cbn [snd] in E. subst u'.
  exists c. split; [|split].
  - rewrite Forall_forall in HF. exact (HF _ Hin).
  - apply in_rank_units. exact Hin.
  - intros r' H. apply in_rank_units in H. exact (nodup_snd_unique asg r' c u ND H Hin).
Qed.

(* load level: the ranks' lists together are a permutation of the handed-out loads *)
Lemma rank_loads_perm (W : nat) : forall asg,
  Forall (fun a => (fst a < W)%nat) asg ->
  Permutation (concat (partition_result W asg)) (flat_map u_loads (map snd asg)).
Proof.
  unfold partition_result.
  assert (G : forall asg a n, Forall (fun x => (a <= fst x < a + n)%nat) asg ->
              Permutation (concat (map (rank_loads asg) (seq a n))) (flat_map u_loads (map snd asg))).
  { intros asg a n. revert a asg. induction n as [|n IH]; intros a asg HF.
    - cbn [seq map concat]. destruct asg as [|x asg]; [constructor|]. inversion HF; subst. lia.
    - cbn [seq map concat].
      (* split asg into the units of rank a and the others *)
      assert (S1 : Permutation (flat_map u_loads (map snd asg))
                     (rank_loads asg a ++ flat_map u_loads (map snd (filter (fun x => negb (Nat.eqb (fst x) a)) asg)))).
      { clear IH HF. unfold rank_loads, rank_units. induction asg as [|[c u] asg IHa]; [constructor|].
        cbn [map snd flat_map filter fst]. destruct (Nat.eqb c a); cbn [negb map snd flat_map].
        - rewrite <- app_assoc. apply Permutation_app_head. exact IHa.
        - rewrite IHa. rewrite !app_assoc. apply Permutation_app_tail. apply Permutation_app_comm. }
      rewrite S1. apply Permutation_app_head.
      set (asg' := filter (fun x => negb (Nat.eqb (fst x) a)) asg).
      assert (E : map (rank_loads asg) (seq (S a) n) = map (rank_loads asg') (seq (S a) n)).
      { apply map_ext_in. intros r Hr. apply in_seq in Hr. unfold rank_loads, rank_units, asg'. f_equal. f_equal.
        clear HF S1 asg' IH. induction asg as [|[c u] asg IHa]; [reflexivity|]. cbn [filter fst].
        destruct (Nat.eqb c r) eqn:E1; destruct (Nat.eqb c a) eqn:E2; cbn [negb filter fst]; rewrite ?E1.
        - apply Nat.eqb_eq in E1. apply Nat.eqb_eq in E2. lia.
        - f_equal. exact IHa.
        - exact IHa.
        - exact IHa. }
      rewrite E. apply IH. unfold asg'. apply Forall_forall. intros x Hx. apply filter_In in Hx. destruct Hx as [Hx Hne].
      rewrite Forall_forall in HF. specialize (HF x Hx). apply negb_true_iff in Hne. apply Nat.eqb_neq in Hne. lia. }
  intros asg HF. apply G. apply Forall_forall. intros x Hx. rewrite Forall_forall in HF. specialize (HF x Hx). lia.
Qed.

Lemma flat_map_whole_units : forall items,
  flat_map u_loads (pass1_units items) = flat_map it_loads (filter (fun it => negb (it_sub it)) items).
Proof.
  unfold pass1_units. intro items. induction (filter (fun it => negb (it_sub it)) items) as [|it r IH]; [reflexivity|].
  cbn [map flat_map]. rewrite IH. reflexivity.
Qed.

Lemma flat_map_chunk_units : forall ord, flat_map u_loads (map chunk_unit ord) = ord.
Proof. induction ord as [|l r IH]; [reflexivity|]. cbn [map flat_map chunk_unit u_loads app]. rewrite IH. reflexivity. Qed.

Lemma all_loads_split : forall items,
  Permutation (all_loads items)
    (flat_map it_loads (filter (fun it => negb (it_sub it)) items) ++ chunks_of items).
Proof.
  unfold all_loads, chunks_of. induction items as [|it r IH]; [constructor|].
  cbn [flat_map filter]. destruct (it_sub it); cbn [negb flat_map].
  - rewrite IH. rewrite !app_assoc. apply Permutation_app_tail. apply Permutation_app_comm.
  - rewrite <- app_assoc. apply Permutation_app_head. exact IH.
Qed.

Lemma all_units_loads items ord : Permutation ord (partitionables items) ->
  Permutation (flat_map u_loads (all_units items ord)) (all_loads items).
Proof.
  intro HP. unfold all_units. rewrite flat_map_app, flat_map_whole_units, flat_map_chunk_units.
  rewrite all_loads_split. apply Permutation_app_head. rewrite <- partitionables_eq. exact HP.
Qed.

(* ================================================================== load accounting *)
Lemma greedy_final_load ch : forall us sizes r, sizes <> [] ->
  nth r (fst (greedy ch AddSize sizes us)) 0 =
  nth r sizes 0 + sumZ (map u_size (rank_units (snd (greedy ch AddSize sizes us)) r)).
Proof.
  induction us as [|u rest IH]; intros sizes r Hne; cbn [greedy fst snd].
  - unfold rank_units. cbn. lia.
  - rewrite IH by (apply upd_at_nonempty; exact Hne). rewrite rank_units_cons.
    pose proof (choose_lt ch sizes Hne) as Hc.
    destruct (Nat.eqb (choose ch sizes) r) eqn:E.
    + apply Nat.eqb_eq in E. subst r. rewrite upd_at_nth_same by exact Hc. cbn [bump map]. rewrite sumZ_cons. lia.
    + apply Nat.eqb_neq in E. rewrite upd_at_nth_other by congruence. reflexivity.
Qed.

Lemma rank_units_app a b r : rank_units (a ++ b) r = rank_units a r ++ rank_units b r.
Proof. unfold rank_units. rewrite filter_app, map_app. reflexivity. Qed.

Lemma partition_final_load sizes items ord r : sizes <> [] ->
  nth r (fst (partition sizes items ord)) 0 =
  nth r sizes 0 + sumZ (map u_size (rank_units (snd (partition sizes items ord)) r)).
Proof.
  intro Hne. rewrite partition_eq. cbv zeta. cbn [fst snd].
  rewrite update_pass1_adds, update_pass2_adds.
  set (g1 := greedy gen_choice_pass1 AddSize sizes (pass1_units items)).
  assert (Hne1 : fst g1 <> []).
  { intro E. apply (f_equal (@length Z)) in E. unfold g1 in E. rewrite greedy_length in E.
    destruct sizes; [congruence | discriminate]. }
  rewrite greedy_final_load by exact Hne1. unfold g1 at 1. rewrite greedy_final_load by exact Hne.
  fold g1. rewrite rank_units_app, map_app, sumZ_app. lia.
Qed.

(* ================================================================== balance: the greedy bound as an invariant *)
Definition units_nonneg (us : list wunit) : Prop := Forall (fun u => 0 <= u_size u) us.

(* for every rank that received work: its load minus the last unit it received is at most every rank's load *)
Definition bal_inv (sizes : list Z) (asg : list (nat * wunit)) : Prop :=
  forall r s, last_size asg r = Some s ->
  forall q, (q < length sizes)%nat -> nth r sizes 0 - s <= nth q sizes 0.

Lemma last_size_app : forall a b r,
  last_size (a ++ b) r = match last_size b r with Some s => Some s | None => last_size a r end.
Proof.
  induction a as [|[c u] a IH]; intros b r; cbn [app last_size].
  - destruct (last_size b r); reflexivity.
  - rewrite IH. destruct (last_size b r); reflexivity.
Qed.

Lemma bal_inv_step sizes pre u :
  sizes <> [] -> 0 <= u_size u -> bal_inv sizes pre ->
  bal_inv (upd_at (first_min sizes) (fun x => x + u_size u) sizes) (pre ++ [(first_min sizes, u)]).
Proof.
  intros Hne Hu Inv r s Hl q Hq. rewrite upd_at_length in Hq.
  destruct (first_min_spec sizes Hne) as [Hc Hmin].
  rewrite last_size_app in Hl. cbn [last_size] in Hl.
  (* the load of q never decreases *)
  assert (Hq' : nth q sizes 0 <= nth q (upd_at (first_min sizes) (fun x => x + u_size u) sizes) 0).
  { destruct (Nat.eq_dec q (first_min sizes)) as [E|E].
    - subst q. rewrite upd_at_nth_same by exact Hc. lia.
    - rewrite upd_at_nth_other by exact E. lia. }
  destruct (Nat.eqb (first_min sizes) r) eqn:E.
  - apply Nat.eqb_eq in E. subst r. inversion Hl; subst s. rewrite upd_at_nth_same by exact Hc.
    specialize (Hmin q Hq). lia.
  - apply Nat.eqb_neq in E. rewrite upd_at_nth_other by congruence.
    specialize (Inv r s Hl q Hq). lia.
Qed.

Lemma greedy_bal_inv : forall us sizes pre,
  sizes <> [] -> units_nonneg us -> bal_inv sizes pre ->
  bal_inv (fst (greedy ChooseFirstMin AddSize sizes us)) (pre ++ snd (greedy ChooseFirstMin AddSize sizes us)).
Proof.
  induction us as [|u rest IH]; intros sizes pre Hne Hnn Inv; cbn [greedy fst snd].
  - rewrite app_nil_r. exact Inv.
  - inversion Hnn as [|? ? Hu Hrest]; subst. cbn [choose].
    change (bump AddSize (u_size u)) with (fun x => x + u_size u).
    set (sizes' := upd_at (first_min sizes) (fun x => x + u_size u) sizes).
    assert (E : pre ++ (first_min sizes, u) :: snd (greedy ChooseFirstMin AddSize sizes' rest)
                = (pre ++ [(first_min sizes, u)]) ++ snd (greedy ChooseFirstMin AddSize sizes' rest))
      by (rewrite <- app_assoc; reflexivity).
    rewrite E. apply IH.
    + apply upd_at_nonempty. exact Hne.
    + exact Hrest.
    + apply bal_inv_step; assumption.
Qed.

Definition loads_nonneg (ls : list load) : Prop := Forall (fun l => 0 <= l_size l) ls.
Definition items_nonneg (items : list item) : Prop := Forall (fun it => loads_nonneg (it_loads it)) items.

Lemma sumZ_nonneg l : Forall (fun x => 0 <= x) l -> 0 <= sumZ l.
Proof. induction 1 as [|x l Hx _ IH]; [cbn; lia|]. rewrite sumZ_cons. lia. Qed.

Lemma pass1_units_nonneg items : items_nonneg items -> units_nonneg (pass1_units items).
Proof.
  intro H. unfold pass1_units, units_nonneg. apply Forall_forall. intros u Hu. apply in_map_iff in Hu.
  destruct Hu as [it [E Hit]]. subst u. apply filter_In in Hit. destruct Hit as [Hit _].
  unfold items_nonneg in H. rewrite Forall_forall in H. specialize (H it Hit).
  cbn [whole_unit u_size]. apply sumZ_nonneg. apply Forall_forall. intros x Hx. apply in_map_iff in Hx.
  destruct Hx as [l [E Hl]]. subst x. unfold loads_nonneg in H. rewrite Forall_forall in H. exact (H l Hl).
Qed.

Lemma chunk_units_nonneg ord : loads_nonneg ord -> units_nonneg (map chunk_unit ord).
Proof.
  intro H. unfold units_nonneg. apply Forall_forall. intros u Hu. apply in_map_iff in Hu. destruct Hu as [l [E Hl]].
  subst u. unfold loads_nonneg in H. rewrite Forall_forall in H. exact (H l Hl).
Qed.

Lemma chunks_of_nonneg items : items_nonneg items -> loads_nonneg (chunks_of items).
Proof.
  intro H. unfold chunks_of, loads_nonneg. apply Forall_forall. intros l Hl. apply in_flat_map in Hl.
  destruct Hl as [it [Hit Hl]]. apply filter_In in Hit. destruct Hit as [Hit _].
  unfold items_nonneg in H. rewrite Forall_forall in H. specialize (H it Hit).
  unfold loads_nonneg in H. rewrite Forall_forall in H. exact (H l Hl).
Qed.

(* the bound for the two loops of _partition_write_loads, for EVERY list [ord] of non-negative chunks *)
Lemma partition_balance_gen sizes items ord :
  sizes <> [] -> items_nonneg items -> loads_nonneg ord ->
  bal_inv (fst (partition sizes items ord)) (snd (partition sizes items ord)).
Proof.
  intros Hne Hit Hord. rewrite partition_eq. cbv zeta. cbn [fst snd].
  rewrite choice_pass1_first_min, update_pass1_adds, choice_pass2_first_min, update_pass2_adds.
  set (g1 := greedy ChooseFirstMin AddSize sizes (pass1_units items)).
  assert (Hne1 : fst g1 <> []).
  { intro E. apply (f_equal (@length Z)) in E. unfold g1 in E. rewrite greedy_length in E.
    destruct sizes; [congruence | discriminate]. }
  apply greedy_bal_inv.
  - exact Hne1.
  - apply chunk_units_nonneg. exact Hord.
  - pose proof (greedy_bal_inv (pass1_units items) sizes [] Hne (pass1_units_nonneg items Hit)) as H.
    cbn [app] in H. apply H. intros r s Hl. cbn in Hl. discriminate.
Qed.

Lemma partition_balance sizes items ord :
  sizes <> [] -> items_nonneg items -> Permutation ord (partitionables items) ->
  forall r s, last_size (snd (partition sizes items ord)) r = Some s ->
  forall q, (q < length sizes)%nat ->
  nth r (fst (partition sizes items ord)) 0 <= nth q (fst (partition sizes items ord)) 0 + s.
Proof.
  intros Hne Hit HP r s Hl q Hq.
  assert (Hord : loads_nonneg ord).
  { unfold loads_nonneg. apply Forall_forall. intros l Hl'. apply (Permutation_in _ HP) in Hl'.
    rewrite partitionables_eq in Hl'. pose proof (chunks_of_nonneg items Hit) as H.
    unfold loads_nonneg in H. rewrite Forall_forall in H. exact (H l Hl'). }
  pose proof (partition_balance_gen sizes items ord Hne Hit Hord r s Hl q) as H.
  rewrite partition_length in H. specialize (H Hq). lia.
Qed.

(* a rank received work iff last_size says so *)
Lemma last_size_some_iff : forall asg r, (exists s, last_size asg r = Some s) <-> rank_units asg r <> [].
Proof.
  induction asg as [|[c u] asg IH]; intro r.
  - cbn. split; [intros [s H]; discriminate | intro H; congruence].
  - cbn [last_size]. rewrite rank_units_cons. destruct (last_size asg r) eqn:E.
    + split; [|intros _; eexists; reflexivity]. intros _.
      assert (H : rank_units asg r <> []) by (apply IH; eexists; exact E).
      destruct (Nat.eqb c r); [discriminate | exact H].
    + destruct (Nat.eqb c r).
      * split; [intros _; discriminate | intros _; eexists; reflexivity].
      * split; [intros [s H]; discriminate|]. intro H. apply IH in H. destruct H as [s H]. congruence.
Qed.

(* the last unit a rank received is one of its units *)
Lemma last_size_in : forall asg r s, last_size asg r = Some s -> exists u, In u (rank_units asg r) /\ u_size u = s.
Proof.
  induction asg as [|[c u] asg IH]; intros r s H; [discriminate|].
  cbn [last_size] in H. rewrite rank_units_cons. destruct (last_size asg r) eqn:E.
  - inversion H; subst. destruct (IH r s E) as [u' [Hin Hs]]. exists u'. split; [|exact Hs].
    destruct (Nat.eqb c r); [right; exact Hin | exact Hin].
  - destruct (Nat.eqb c r); [|discriminate]. inversion H; subst. exists u. split; [left; reflexivity | reflexivity].
Qed.

(* ================================================================== sorting: Python's sorted(key=offsets) *)
Lemma insert_perm {A} (leb : A -> A -> bool) x : forall l, Permutation (insert leb x l) (x :: l).
Proof.
  induction l as [|y r IH]; [apply Permutation_refl|]. cbn [insert].
  destruct (leb x y); [apply Permutation_refl|].
  apply perm_trans with (y :: x :: r); [apply perm_skip; exact IH | apply perm_swap].
Qed.

Lemma isort_perm {A} (leb : A -> A -> bool) : forall l, Permutation (isort leb l) l.
Proof.
  induction l as [|x r IH]; [constructor|]. unfold isort in *. cbn [fold_right].
  apply perm_trans with (x :: fold_right (insert leb) [] r); [apply insert_perm | apply perm_skip; exact IH].
Qed.

Definition leb_total {A} (leb : A -> A -> bool) : Prop := forall a b, leb a b = false -> leb b a = true.
Definition sorted_by {A} (leb : A -> A -> bool) (l : list A) : Prop := Sorted (fun a b => leb a b = true) l.

Lemma insert_sorted {A} (leb : A -> A -> bool) (T : leb_total leb) x : forall l,
  sorted_by leb l -> sorted_by leb (insert leb x l).
Proof.
  unfold sorted_by. induction l as [|y r IH]; intro S; cbn [insert].
  - constructor; constructor.
  - destruct (leb x y) eqn:E.
    + constructor; [exact S | constructor; exact E].
    + inversion S as [|? ? Sr Hd]; subst. constructor; [apply IH; exact Sr|].
      destruct r as [|z r']; cbn [insert].
      * constructor. apply T. exact E.
      * destruct (leb x z); constructor; [apply T; exact E | inversion Hd; assumption].
Qed.

Lemma isort_sorted {A} (leb : A -> A -> bool) (T : leb_total leb) : forall l, sorted_by leb (isort leb l).
Proof.
  induction l as [|x r IH]; [constructor|]. unfold isort in *. cbn [fold_right]. apply insert_sorted; assumption.
Qed.

Lemma lex_leb_total : leb_total lex_leb.
Proof.
  intro a. induction a as [|x a IH]; intros [|y b] H; cbn [lex_leb] in *; try discriminate; try reflexivity.
  destruct (x <? y) eqn:E1; [discriminate|]. destruct (y <? x) eqn:E2; [reflexivity|]. apply IH. exact H.
Qed.

Lemma chunk_leb_total : leb_total chunk_leb.
Proof. intros a b H. unfold chunk_leb in *. apply lex_leb_total. exact H. Qed.

(* ================================================================== dicts as association lists *)
Lemma memz_In p : forall l, memz p l = true <-> In p l.
Proof.
  induction l as [|x r IH]; cbn [memz In]; [split; [discriminate | tauto]|].
  destruct (p =? x) eqn:E.
  - apply Z.eqb_eq in E. subst. tauto.
  - apply Z.eqb_neq in E. rewrite IH. split; [tauto|]. intros [H|H]; [congruence | exact H].
Qed.

Lemma lookup_dset p q e : forall m, lookup p (dset q e m) = if q =? p then Some e else lookup p m.
Proof.
  induction m as [|[k x] r IH]; cbn [dset lookup]; [reflexivity|].
  destruct (k =? q) eqn:Ekq.
  - apply Z.eqb_eq in Ekq. subst k. cbn [lookup]. destruct (q =? p); reflexivity.
  - cbn [lookup]. rewrite IH. destruct (k =? p) eqn:Ekp; [|reflexivity].
    apply Z.eqb_eq in Ekp. subst k. rewrite (Z.eqb_sym q p), Ekq. reflexivity.
Qed.

Lemma lookup_In p e : forall m, lookup p m = Some e -> In (p, e) m.
Proof.
  induction m as [|[k x] r IH]; cbn [lookup]; [discriminate|]. destruct (k =? p) eqn:E.
  - intro H. inversion H; subst. apply Z.eqb_eq in E. subst. left. reflexivity.
  - intro H. right. apply IH. exact H.
Qed.

Lemma lookup_none p : forall m, lookup p m = None <-> ~ In p (map fst m).
Proof.
  induction m as [|[k x] r IH]; cbn [lookup map fst In]; [tauto|]. destruct (k =? p) eqn:E.
  - apply Z.eqb_eq in E. subst. split; [discriminate | tauto].
  - apply Z.eqb_neq in E. rewrite IH. tauto.
Qed.

Lemma In_lookup p e : forall m, NoDup (map fst m) -> In (p, e) m -> lookup p m = Some e.
Proof.
  induction m as [|[k x] r IH]; intros ND H; [destruct H|]. cbn [map fst] in ND. inversion ND as [|? ? Hn ND']; subst.
  cbn [lookup]. destruct H as [H|H].
  - inversion H; subst. rewrite Z.eqb_refl. reflexivity.
  - destruct (k =? p) eqn:E.
    + apply Z.eqb_eq in E. subst k. exfalso. apply Hn. apply in_map_iff. exists (p, e). split; [reflexivity | exact H].
    + apply IH; assumption.
Qed.

Lemma lookup_app p : forall a b, lookup p (a ++ b) = match lookup p a with Some e => Some e | None => lookup p b end.
Proof.
  induction a as [|[k x] r IH]; intro b; cbn [app lookup]; [reflexivity|]. destruct (k =? p); [reflexivity | apply IH].
Qed.

Lemma dset_In_source p e q x : forall m, In (q, x) (dset p e m) -> (q = p /\ x = e) \/ In (q, x) m.
Proof.
  induction m as [|[k y] r IH]; cbn [dset].
  - intros [H|[]]. inversion H; subst. left. split; reflexivity.
  - destruct (k =? p) eqn:E.
    + apply Z.eqb_eq in E. subst k. intros [H|H]; [inversion H; subst; left; split; reflexivity | right; right; exact H].
    + intros [H|H]; [right; left; exact H|]. destruct (IH H) as [H'|H']; [left; exact H' | right; right; exact H'].
Qed.

Lemma dset_keys_in p e k : forall m, In k (map fst (dset p e m)) <-> k = p \/ In k (map fst m).
Proof.
  induction m as [|[q x] r IH]; cbn [dset map fst In].
  - split; [intros [H|[]]; left; congruence | intros [H|[]]; left; congruence].
  - destruct (q =? p) eqn:E; cbn [map fst In].
    + apply Z.eqb_eq in E. subst q. split; [intros [H|H]; [left; congruence | right; right; exact H] | intros [H|[H|H]]; [left; congruence | left; exact H | right; exact H]].
    + rewrite IH. tauto.
Qed.

Lemma dset_nodup p e : forall m, NoDup (map fst m) -> NoDup (map fst (dset p e m)).
Proof.
  induction m as [|[q x] r IH]; intro ND; cbn [dset].
  - cbn. constructor; [intros [] | constructor].
  - cbn [map fst] in ND. inversion ND as [|? ? Hn ND']; subst. destruct (q =? p) eqn:E; cbn [map fst].
    + constructor; assumption.
    + constructor; [|apply IH; exact ND']. intro H. apply dset_keys_in in H. destruct H as [H|H]; [|exact (Hn H)].
      subst q. rewrite Z.eqb_refl in E. discriminate.
Qed.

Lemma strip_In q x m : In (q, x) (strip_repl m) <-> In (q, x) m /\ is_repl x = false.
Proof.
  unfold strip_repl. rewrite filter_In. cbn [snd]. rewrite negb_true_iff. tauto.
Qed.

Lemma strip_idem m : strip_repl (strip_repl m) = strip_repl m.
Proof.
  unfold strip_repl. induction m as [|[q x] r IH]; [reflexivity|]. cbn [filter snd].
  destruct (is_repl x) eqn:E; cbn [negb]; [exact IH|]. cbn [filter snd]. rewrite E. cbn [negb]. rewrite IH. reflexivity.
Qed.

Lemma strip_nodup m : NoDup (map fst m) -> NoDup (map fst (strip_repl m)).
Proof.
  unfold strip_repl. induction m as [|[q x] r IH]; intro ND; [constructor|]. cbn [map fst] in ND.
  inversion ND as [|? ? Hn ND']; subst. cbn [filter snd]. destruct (negb (is_repl x)); [|apply IH; exact ND'].
  cbn [map fst]. constructor; [|apply IH; exact ND']. intro H. apply Hn. apply in_map_iff in H.
  destruct H as [[k y] [E H]]. cbn [fst] in E. subst k. apply filter_In in H. destruct H as [H _].
  apply in_map_iff. exists (q, y). split; [reflexivity | exact H].
Qed.

(* replacing / adding a replicated entry where no private entry lives does not touch the private entries *)
Lemma strip_dset_repl p e : forall m,
  is_repl e = true -> (forall x, lookup p m = Some x -> is_repl x = true) ->
  strip_repl (dset p e m) = strip_repl m.
Proof.
  unfold strip_repl. induction m as [|[q x] r IH]; intros He Hx; cbn [dset filter snd].
  - rewrite He. reflexivity.
  - cbn [lookup] in Hx. destruct (q =? p) eqn:E; cbn [filter snd].
    + rewrite He. rewrite (Hx x eq_refl). reflexivity.
    + rewrite IH by assumption. reflexivity.
Qed.

(* ================================================================== step 1: merged chunked entries on every rank *)
Section FoldD.
  Variable M : Z -> entry.
  Hypothesis M_repl : forall p, is_repl (M p) = true.

  Definition foldD (G : list Z) (m : manifest) : manifest :=
    fold_left (fun cur p => dset p (M p) cur) G m.

  Lemma foldD_lookup p : forall G m, lookup p (foldD G m) = if memz p G then Some (M p) else lookup p m.
  Proof.
    induction G as [|q G IH]; intro m; cbn [foldD fold_left memz]; [reflexivity|].
    change (fold_left (fun cur p0 => dset p0 (M p0) cur) G (dset q (M q) m)) with (foldD G (dset q (M q) m)).
    rewrite IH, lookup_dset. destruct (memz p G); [destruct (p =? q); reflexivity|].
    rewrite (Z.eqb_sym q p). destruct (p =? q) eqn:E; [|reflexivity]. apply Z.eqb_eq in E. subst. reflexivity.
  Qed.

  Lemma foldD_strip : forall G m,
    (forall p x, In p G -> lookup p m = Some x -> is_repl x = true) ->
    strip_repl (foldD G m) = strip_repl m.
  Proof.
    induction G as [|q G IH]; intros m H; cbn [foldD fold_left]; [reflexivity|].
    change (fold_left (fun cur p0 => dset p0 (M p0) cur) G (dset q (M q) m)) with (foldD G (dset q (M q) m)).
    rewrite IH.
    - apply strip_dset_repl; [apply M_repl|]. intros x Hx. apply (H q x); [left; reflexivity | exact Hx].
    - intros p x Hp Hx. rewrite lookup_dset in Hx. destruct (q =? p) eqn:E.
      + inversion Hx; subst. apply M_repl.
      + apply (H p x); [right; exact Hp | exact Hx].
  Qed.

  Lemma foldD_nodup : forall G m, NoDup (map fst m) -> NoDup (map fst (foldD G m)).
  Proof.
    induction G as [|q G IH]; intros m ND; cbn [foldD fold_left]; [exact ND|].
    apply IH. apply dset_nodup. exact ND.
  Qed.

  Lemma foldD_In_source q x : forall G m, In (q, x) (foldD G m) -> (In q G /\ x = M q) \/ In (q, x) m.
  Proof.
    induction G as [|p G IH]; intros m H; cbn [foldD fold_left] in H; [right; exact H|].
    apply IH in H. destruct H as [[H1 H2]|H]; [left; split; [right; exact H1 | exact H2]|].
    apply dset_In_source in H. destruct H as [[H1 H2]|H]; [left; subst; split; [left; reflexivity | reflexivity] | right; exact H].
  Qed.

  Lemma fold_map_commute : forall G (l : list manifest),
    fold_left (fun cur p => map (dset p (M p)) cur) G l = map (foldD G) l.
  Proof.
    induction G as [|q G IH]; intro l; cbn [fold_left foldD].
    - rewrite map_id. reflexivity.
    - rewrite IH, map_map. reflexivity.
  Qed.
End FoldD.

Lemma merged_repl ms p : is_repl (merged_entry ms p) = true.
Proof. reflexivity. Qed.

Lemma step1_eq ms : step1 ms = map (foldD (merged_entry ms) (group_paths ms)) ms.
Proof. unfold step1. apply fold_map_commute. Qed.

Lemma dedupz_In x : forall l seen, In x (dedupz l seen) <-> In x l /\ ~ In x seen.
Proof.
  induction l as [|y r IH]; intro seen; cbn [dedupz In]; [tauto|].
  destruct (memz y seen) eqn:E.
  - apply memz_In in E. rewrite IH. split; [tauto|]. intros [[H|H] Hn]; [subst; tauto | tauto].
  - assert (Hn : ~ In y seen) by (intro H; apply memz_In in H; congruence).
    cbn [In]. rewrite IH. cbn [In]. split.
    + intros [H|[H1 H2]]; [subst; tauto | tauto].
    + intros [[H|H] Hs]; [left; exact H|]. destruct (Z.eq_dec y x) as [E'|E']; [left; exact E' | right; tauto].
Qed.

Lemma group_paths_In ms p :
  In p (group_paths ms) <-> exists m e, In m ms /\ In (p, e) m /\ is_repl_chunked e = true.
Proof.
  unfold group_paths. rewrite dedupz_In, in_flat_map. split.
  - intros [[m [Hm H]] _]. apply in_map_iff in H. destruct H as [[q e] [E H]]. cbn [fst] in E. subst q.
    apply filter_In in H. destruct H as [H1 H2]. exists m, e. tauto.
  - intros [m [e [Hm [H1 H2]]]]. split; [|tauto]. exists m. split; [exact Hm|]. apply in_map_iff.
    exists (p, e). split; [reflexivity|]. apply filter_In. tauto.
Qed.

Lemma is_repl_chunked_repl e : is_repl_chunked e = true -> is_repl e = true.
Proof. destruct e; cbn; [tauto | discriminate]. Qed.

(* ================================================================== collection of the replicated entries *)
Lemma list_eqb_Z_eq : forall a b, list_eqb Z.eqb a b = true -> a = b.
Proof.
  induction a as [|x a IH]; intros [|y b] H; cbn [list_eqb] in H; try discriminate; [reflexivity|].
  apply andb_true_iff in H. destruct H as [H1 H2]. apply Z.eqb_eq in H1. subst. f_equal. apply IH. exact H2.
Qed.

Lemma list_eqb_Z_refl : forall a, list_eqb Z.eqb a a = true.
Proof. induction a as [|x a IH]; [reflexivity|]. cbn [list_eqb]. rewrite Z.eqb_refl, IH. reflexivity. Qed.

Lemma chunk_eqb_eq a b : chunk_eqb a b = true -> a = b.
Proof.
  destruct a as [oa ia]; destruct b as [ob ib]. unfold chunk_eqb. cbn [fst snd]. intro H.
  apply andb_true_iff in H. destruct H as [H1 H2]. apply list_eqb_Z_eq in H1. apply Z.eqb_eq in H2. subst. reflexivity.
Qed.

Lemma chunk_eqb_refl a : chunk_eqb a a = true.
Proof. destruct a. unfold chunk_eqb. cbn [fst snd]. rewrite list_eqb_Z_refl, Z.eqb_refl. reflexivity. Qed.

Lemma chunks_eqb_eq : forall a b, list_eqb chunk_eqb a b = true -> a = b.
Proof.
  induction a as [|x a IH]; intros [|y b] H; cbn [list_eqb] in H; try discriminate; [reflexivity|].
  apply andb_true_iff in H. destruct H as [H1 H2]. apply chunk_eqb_eq in H1. subst. f_equal. apply IH. exact H2.
Qed.

Lemma chunks_eqb_refl : forall a, list_eqb chunk_eqb a a = true.
Proof. induction a as [|x a IH]; [reflexivity|]. cbn [list_eqb]. rewrite chunk_eqb_refl, IH. reflexivity. Qed.

Lemma entry_eqb_eq a b : entry_eqb a b = true -> a = b.
Proof.
  destruct a as [r m cs|r i]; destruct b as [r' m' cs'|r' i']; cbn [entry_eqb]; try discriminate; intro H.
  - apply andb_true_iff in H. destruct H as [H H3]. apply andb_true_iff in H. destruct H as [H1 H2].
    apply eqb_prop in H1. apply Z.eqb_eq in H2. apply chunks_eqb_eq in H3. subst. reflexivity.
  - apply andb_true_iff in H. destruct H as [H1 H2]. apply eqb_prop in H1. apply Z.eqb_eq in H2. subst. reflexivity.
Qed.

Lemma entry_eqb_refl a : entry_eqb a a = true.
Proof.
  destruct a as [r m cs|r i]; cbn [entry_eqb].
  - rewrite eqb_reflx, Z.eqb_refl, chunks_eqb_refl. reflexivity.
  - rewrite eqb_reflx, Z.eqb_refl. reflexivity.
Qed.

Lemma collect_keeps p e : forall kvs acc out,
  collect kvs acc = Some out -> lookup p acc = Some e -> lookup p out = Some e.
Proof.
  induction kvs as [|[q x] r IH]; intros acc out H Hl; cbn [collect] in H; [inversion H; subst; exact Hl|].
  destruct (is_repl x); [|exact (IH acc out H Hl)].
  destruct (lookup q acc) as [e'|] eqn:E.
  - destruct (entry_eqb e' x); [exact (IH acc out H Hl) | discriminate].
  - apply (IH (acc ++ [(q, x)]) out H). rewrite lookup_app, Hl. reflexivity.
Qed.

Lemma collect_agrees p e : forall kvs acc out,
  collect kvs acc = Some out -> In (p, e) kvs -> is_repl e = true -> lookup p out = Some e.
Proof.
  induction kvs as [|[q x] r IH]; intros acc out H Hin He; [destruct Hin|]. cbn [collect] in H.
  destruct Hin as [Hin|Hin].
  - inversion Hin; subst q x. rewrite He in H. destruct (lookup p acc) as [e'|] eqn:E.
    + destruct (entry_eqb e' e) eqn:Eq; [|discriminate]. apply entry_eqb_eq in Eq. subst e'.
      exact (collect_keeps p e r acc out H E).
    + apply (collect_keeps p e r (acc ++ [(p, e)]) out H). rewrite lookup_app, E. cbn [lookup]. rewrite Z.eqb_refl. reflexivity.
  - destruct (is_repl x); [|exact (IH acc out H Hin He)].
    destruct (lookup q acc) as [e'|] eqn:E.
    + destruct (entry_eqb e' x); [exact (IH acc out H Hin He) | discriminate].
    + exact (IH _ out H Hin He).
Qed.

Lemma collect_source q x : forall kvs acc out,
  collect kvs acc = Some out -> In (q, x) out -> In (q, x) acc \/ (In (q, x) kvs /\ is_repl x = true).
Proof.
  induction kvs as [|[k y] r IH]; intros acc out H Hin; cbn [collect] in H; [inversion H; subst; left; exact Hin|].
  destruct (is_repl y) eqn:Ey.
  - destruct (lookup k acc) as [e'|] eqn:E.
    + destruct (entry_eqb e' y); [|discriminate]. destruct (IH acc out H Hin) as [H'|[H' H'']]; [left; exact H' | right; split; [right; exact H' | exact H'']].
    + destruct (IH _ out H Hin) as [H'|[H' H'']].
      * apply in_app_or in H'. destruct H' as [H'|[H'|[]]]; [left; exact H'|]. inversion H'; subst. right. split; [left; reflexivity | exact Ey].
      * right. split; [right; exact H' | exact H''].
  - destruct (IH acc out H Hin) as [H'|[H' H'']]; [left; exact H' | right; split; [right; exact H' | exact H'']].
Qed.

Lemma nodup_snoc {A} (x : A) : forall l, NoDup l -> ~ In x l -> NoDup (l ++ [x]).
Proof.
  induction l as [|y l IH]; intros ND Hn; cbn [app]; [constructor; [intros [] | constructor]|].
  inversion ND as [|? ? Hy ND']; subst. constructor.
  - intro H. apply in_app_or in H. destruct H as [H|[H|[]]]; [exact (Hy H) | subst; apply Hn; left; reflexivity].
  - apply IH; [exact ND' | intro H; apply Hn; right; exact H].
Qed.

Lemma collect_nodup : forall kvs acc out,
  NoDup (map fst acc) -> collect kvs acc = Some out -> NoDup (map fst out).
Proof.
  induction kvs as [|[k y] r IH]; intros acc out ND H; cbn [collect] in H; [inversion H; subst; exact ND|].
  destruct (is_repl y); [|exact (IH acc out ND H)].
  destruct (lookup k acc) as [e'|] eqn:E.
  - destruct (entry_eqb e' y); [exact (IH acc out ND H) | discriminate].
  - apply (IH _ out) in H; [exact H|]. rewrite map_app. cbn [map fst].
    apply lookup_none in E. apply nodup_snoc; assumption.
Qed.

(* ================================================================== re-insertion under rank 0 *)
Lemma lookup_add_reps p : forall reps m, NoDup (map fst reps) ->
  lookup p (add_reps reps m) = match lookup p reps with Some e => Some e | None => lookup p m end.
Proof.
  unfold add_reps. induction reps as [|[q e] r IH]; intros m ND; cbn [fold_left lookup fst snd]; [reflexivity|].
  cbn [map fst] in ND. inversion ND as [|? ? Hn ND']; subst. rewrite IH by exact ND'. rewrite lookup_dset.
  destruct (q =? p) eqn:E; [|reflexivity]. apply Z.eqb_eq in E. subst q.
  apply lookup_none in Hn. rewrite Hn. reflexivity.
Qed.

Lemma strip_add_reps : forall reps m,
  (forall q e, In (q, e) reps -> is_repl e = true) ->
  (forall q e x, In (q, e) reps -> lookup q m = Some x -> is_repl x = true) ->
  strip_repl (add_reps reps m) = strip_repl m.
Proof.
  unfold add_reps. induction reps as [|[q e] r IH]; intros m H1 H2; cbn [fold_left fst snd]; [reflexivity|].
  rewrite IH.
  - apply strip_dset_repl; [apply (H1 q e); left; reflexivity|]. intros x Hx. apply (H2 q e x); [left; reflexivity | exact Hx].
  - intros q' e' H. apply (H1 q' e'). right. exact H.
  - intros q' e' x H Hx. rewrite lookup_dset in Hx. destruct (q =? q') eqn:E.
    + injection Hx as Hxe. rewrite <- Hxe. apply (H1 q e). left. reflexivity.
    + apply (H2 q' e' x); [right; exact H | exact Hx].
Qed.

Lemma add_reps_nodup : forall reps m, NoDup (map fst m) -> NoDup (map fst (add_reps reps m)).
Proof.
  unfold add_reps. induction reps as [|[q e] r IH]; intros m ND; cbn [fold_left fst snd]; [exact ND|].
  apply IH. apply dset_nodup. exact ND.
Qed.

Lemma map_ranks_length f : forall ms k, length (map_ranks f k ms) = length ms.
Proof. induction ms as [|m t IH]; intro k; cbn [map_ranks length]; [reflexivity|]. rewrite IH. reflexivity. Qed.

Lemma map_ranks_nth f : forall ms k r, (r < length ms)%nat ->
  nth r (map_ranks f k ms) [] = f (k + r)%nat (nth r ms []).
Proof.
  induction ms as [|m t IH]; intros k r H; cbn [length] in H; [lia|]. cbn [map_ranks].
  destruct r as [|r]; cbn [nth]; [replace (k + 0)%nat with k by lia; reflexivity|].
  rewrite IH by lia. f_equal. lia.
Qed.

(* ================================================================== consolidation: the theorem *)
Definition keys_distinct (ms : list manifest) : Prop := Forall (fun m => NoDup (map fst m)) ms.
(* a path is replicated on every rank where it appears, or on none *)
Definition consistent (ms : list manifest) : Prop :=
  forall m m' p e e', In m ms -> In m' ms -> In (p, e) m -> In (p, e') m' -> is_repl e = is_repl e'.
Definition all_repl_chunks (ms : list manifest) (p : Z) : list chunk := flat_map (repl_chunks_at p) ms.

Lemma consolidate_complete : forall ms ms',
  ms <> [] -> keys_distinct ms -> consistent ms -> consolidate ms = Some ms' ->
  length ms' = length ms /\
  (forall r, strip_repl (nth r ms' []) = strip_repl (nth r ms [])) /\
  (forall r, (1 <= r)%nat -> nth r ms' [] = strip_repl (nth r ms [])) /\
  NoDup (map fst (nth 0 ms' [])) /\
  (forall p, In p (group_paths ms) ->
     (exists meta cs, lookup p (nth 0 ms' []) = Some (EChunked true meta cs) /\
                      Permutation cs (all_repl_chunks ms p) /\ sorted_by chunk_leb cs) /\
     (forall r, (1 <= r)%nat -> ~ In p (map fst (nth r ms' [])))) /\
  (forall m p e, In m ms -> In (p, e) m -> is_repl e = true -> ~ In p (group_paths ms) ->
     lookup p (nth 0 ms' []) = Some e).
Proof.
  intros ms ms' Hne KD CO H.
  destruct ms as [|m0 rest] eqn:Ems; [congruence|]. rewrite <- Ems in *.
  unfold consolidate, consolidate_with in H. rewrite dedup_default_on in H. rewrite step1_eq in H.
  set (M := merged_entry ms) in *. set (G := group_paths ms) in *. set (D := foldD M G) in *.
  destruct (collect (concat (map D ms)) []) as [reps|] eqn:EC; [|discriminate].
  injection H as H.
  assert (Mrepl : forall p, is_repl (M p) = true) by (intro; reflexivity).
  (* group paths never hold a private entry *)
  assert (Gpriv : forall m, In m ms -> forall p x, In p G -> lookup p m = Some x -> is_repl x = true).
  { intros m Hm p x Hp Hx. apply group_paths_In in Hp. destruct Hp as [mg [eg [Hmg [Hin Hrc]]]].
    apply lookup_In in Hx. rewrite (CO m mg p x eg Hm Hmg Hx Hin). apply is_repl_chunked_repl. exact Hrc. }
  assert (Dstrip : forall m, In m ms -> strip_repl (D m) = strip_repl m).
  { intros m Hm. apply foldD_strip; [exact Mrepl | exact (Gpriv m Hm)]. }
  assert (RepsND : NoDup (map fst reps)) by (apply (collect_nodup (concat (map D ms)) [] reps); [constructor | exact EC]).
  (* where the collected entries come from *)
  assert (RepsSrc : forall q e, In (q, e) reps -> is_repl e = true /\
            ((In q G /\ e = M q) \/ exists m, In m ms /\ In (q, e) m)).
  { intros q e Hin. destruct (collect_source q e _ [] reps EC Hin) as [[]|[Hc He]]. split; [exact He|].
    apply in_concat in Hc. destruct Hc as [l [Hl Hq]]. apply in_map_iff in Hl. destruct Hl as [m [El Hm]]. subst l.
    destruct (foldD_In_source M q e G m Hq) as [Hs|Hs]; [left; exact Hs | right; exists m; tauto]. }
  (* a collected entry never sits on a private key of any rank *)
  assert (RepsPriv : forall m, In m ms -> forall q e x, In (q, e) reps -> lookup q (strip_repl (D m)) = Some x -> is_repl x = true).
  { intros m Hm q e x Hin Hx. apply lookup_In in Hx. rewrite (Dstrip m Hm) in Hx. apply strip_In in Hx.
    destruct Hx as [Hx Hpriv]. destruct (RepsSrc q e Hin) as [He [[Hg _]|[m2 [Hm2 Hin2]]]].
    - apply group_paths_In in Hg. destruct Hg as [mg [eg [Hmg [Hing Hrc]]]].
      rewrite (CO m mg q x eg Hm Hmg Hx Hing). apply is_repl_chunked_repl. exact Hrc.
    - rewrite (CO m m2 q x e Hm Hm2 Hx Hin2). exact He. }
  assert (Hm0 : In m0 ms) by (rewrite Ems; left; reflexivity).
  assert (Hlen : length ms' = length ms).
  { rewrite <- H. rewrite map_ranks_length, map_length. reflexivity. }
  assert (Hnth : forall r, (r < length ms)%nat ->
            nth r ms' [] = if gets_reps true r then add_reps reps (strip_repl (D (nth r ms []))) else strip_repl (D (nth r ms []))).
  { intros r Hr. rewrite <- H. rewrite map_ranks_nth by (rewrite map_length; exact Hr). cbn [Nat.add].
    replace (nth r (map D ms) []) with (D (nth r ms [])); [reflexivity|].
    rewrite <- (map_nth D ms [] r). apply nth_indep. rewrite map_length. exact Hr. }
  assert (Hnth0 : nth 0 ms' [] = add_reps reps (strip_repl (D m0))).
  { rewrite Hnth by (rewrite Ems; cbn [length]; lia). rewrite Ems. reflexivity. }
  assert (HnthS : forall r, (1 <= r)%nat -> nth r ms' [] = strip_repl (nth r ms [])).
  { intros r Hr. destruct (Nat.lt_ge_cases r (length ms)) as [Hlt|Hge].
    - rewrite Hnth by exact Hlt. destruct r as [|r]; [lia|]. cbn [gets_reps Nat.eqb negb andb].
      apply Dstrip. apply nth_In. exact Hlt.
    - rewrite !nth_overflow by lia. reflexivity. }
  assert (Hlook0 : forall p, lookup p (nth 0 ms' []) =
                     match lookup p reps with Some e => Some e | None => lookup p (strip_repl (D m0)) end).
  { intro p. rewrite Hnth0. apply lookup_add_reps. exact RepsND. }
  split; [exact Hlen|]. split; [|split; [exact HnthS|split; [|split]]].
  - (* private entries untouched *)
    intro r. destruct r as [|r].
    + rewrite Hnth0. replace (nth 0 ms []) with m0 by (rewrite Ems; reflexivity). rewrite strip_add_reps.
      * rewrite strip_idem. apply Dstrip. exact Hm0.
      * intros q e Hin. exact (proj1 (RepsSrc q e Hin)).
      * intros q e x Hin Hx. exact (RepsPriv m0 Hm0 q e x Hin Hx).
    + rewrite HnthS by lia. apply strip_idem.
  - (* keys of rank 0 stay distinct *)
    rewrite Hnth0. apply add_reps_nodup. apply strip_nodup. apply foldD_nodup.
    unfold keys_distinct in KD. rewrite Forall_forall in KD. exact (KD m0 Hm0).
  - (* merged chunked entries *)
    intros p Hp. split.
    + assert (HinC : In (p, M p) (concat (map D ms))).
      { apply in_concat. exists (D m0). split; [apply in_map; exact Hm0|]. apply lookup_In.
        unfold D. rewrite foldD_lookup by exact Mrepl. assert (memz p G = true) as -> by (apply memz_In; exact Hp). reflexivity. }
      pose proof (collect_agrees p (M p) _ [] reps EC HinC (Mrepl p)) as HL.
      unfold M, merged_entry in HL. rewrite merge_chunks_eq in HL. unfold all_repl_chunks.
      eexists. eexists. split; [rewrite Hlook0, HL; reflexivity|]. split.
      * apply isort_perm.
      * apply isort_sorted. exact chunk_leb_total.
    + intros r Hr Hin. rewrite (HnthS r Hr) in Hin. apply in_map_iff in Hin. destruct Hin as [[q x] [E Hin]].
      cbn [fst] in E. subst q. apply strip_In in Hin. destruct Hin as [Hin Hpriv].
      destruct (Nat.lt_ge_cases r (length ms)) as [Hlt|Hge]; [|rewrite nth_overflow in Hin by lia; destruct Hin].
      assert (Hmr : In (nth r ms []) ms) by (apply nth_In; exact Hlt).
      apply group_paths_In in Hp. destruct Hp as [mg [eg [Hmg [Hing Hrc]]]].
      rewrite (CO _ mg p x eg Hmr Hmg Hin Hing) in Hpriv. rewrite (is_repl_chunked_repl eg Hrc) in Hpriv. discriminate.
  - (* every other replicated entry ends under rank 0 *)
    intros m p e Hm Hin He Hng.
    assert (KDm : NoDup (map fst m)) by (unfold keys_distinct in KD; rewrite Forall_forall in KD; exact (KD m Hm)).
    assert (HinC : In (p, e) (concat (map D ms))).
    { apply in_concat. exists (D m). split; [apply in_map; exact Hm|]. apply lookup_In.
      unfold D. rewrite foldD_lookup by exact Mrepl.
      assert (memz p G = false) as -> by (destruct (memz p G) eqn:E; [apply memz_In in E; contradiction | reflexivity]).
      apply In_lookup; assumption. }
    rewrite Hlook0, (collect_agrees p e _ [] reps EC HinC He). reflexivity.
Qed.

(* ================================================================== _calculate_replicated_entries *)
Lemma countz_cons p q l : countz p (q :: l) = (if q =? p then 1 else 0) + countz p l.
Proof. unfold countz. cbn [fold_right]. destruct (q =? p); lia. Qed.

Lemma countz_app p : forall a b, countz p (a ++ b) = countz p a + countz p b.
Proof. induction a as [|x a IH]; intro b; [reflexivity|]. cbn [app]. rewrite !countz_cons, IH. lia. Qed.

Lemma countz_notin p : forall l, ~ In p l -> countz p l = 0.
Proof.
  induction l as [|x l IH]; intro H; [reflexivity|]. rewrite countz_cons, IH by (intro; apply H; right; assumption).
  destruct (x =? p) eqn:E; [|reflexivity]. apply Z.eqb_eq in E. exfalso. apply H. left. exact E.
Qed.

Lemma countz_nodup p : forall l, NoDup l -> countz p l = if memz p l then 1 else 0.
Proof.
  induction l as [|x l IH]; intro ND; [reflexivity|]. inversion ND as [|? ? Hn ND']; subst.
  rewrite countz_cons. cbn [memz]. rewrite (Z.eqb_sym p x). destruct (x =? p) eqn:E.
  - apply Z.eqb_eq in E. subst. rewrite countz_notin by exact Hn. reflexivity.
  - rewrite IH by exact ND'. lia.
Qed.

Lemma count_all_iff p : forall lists, Forall (fun l => NoDup l) lists ->
  0 <= countz p (concat lists) <= zlen lists /\
  (countz p (concat lists) = zlen lists <-> forall l, In l lists -> In p l).
Proof.
  induction lists as [|l t IH]; intro F.
  - cbn. split; [lia|]. split; [intros _ l []|reflexivity].
  - inversion F as [|? ? NDl Ft]; subst. destruct (IH Ft) as [Hb Hi]. cbn [concat]. rewrite countz_app.
    unfold zlen in *. cbn [length]. rewrite Nat2Z.inj_succ. rewrite (countz_nodup p l NDl).
    destruct (memz p l) eqn:E.
    + apply memz_In in E. split; [lia|]. split.
      * intros H l' [H'|H']; [subst; exact E|]. apply Hi; [lia | exact H'].
      * intro H. assert (countz p (concat t) = Z.of_nat (length t)) by (apply Hi; intros l' Hl'; apply H; right; exact Hl'). lia.
    + split; [lia|]. split; [lia|]. intro H. exfalso. assert (In p l) by (apply H; left; reflexivity).
      apply memz_In in H0. congruence.
Qed.

Lemma rp_filter_iff p lists : Forall (fun l => NoDup l) lists ->
  (In p (rp_filter lists) <-> lists <> [] /\ forall l, In l lists -> In p l).
Proof.
  intro F. destruct lists as [|l0 t]; [cbn; split; [intros [] | intros [H _]; congruence]|].
  unfold rp_filter. rewrite filter_In, count_test_iff. destruct (count_all_iff p (l0 :: t) F) as [_ Hi]. rewrite Hi. split.
  - intros [_ H]. split; [discriminate | exact H].
  - intros [_ H]. split; [apply H; left; reflexivity | exact H].
Qed.

Lemma rp_matched_iff fm globs sharded keys p :
  In p (rp_matched fm globs sharded keys) <->
  In p keys /\ (exists g, In g globs /\ fm p g = true) /\ sharded p = false.
Proof.
  unfold rp_matched. rewrite filter_In, andb_true_iff, existsb_exists, negb_true_iff. tauto.
Qed.

Lemma replicated_paths_iff fm globs (ranks : list (list Z * (Z -> bool))) p :
  Forall (fun ks => NoDup (fst ks)) ranks ->
  (In p (replicated_paths fm globs ranks) <->
   ranks <> [] /\ forall ks, In ks ranks ->
     In p (fst ks) /\ (exists g, In g globs /\ fm p g = true) /\ snd ks p = false).
Proof.
  intro F. unfold replicated_paths. rewrite rp_filter_iff.
  - split.
    + intros [Hne H]. split; [intro E; apply Hne; rewrite E; reflexivity|]. intros ks Hks.
      apply rp_matched_iff. apply H. apply in_map_iff. exists ks. split; [reflexivity | exact Hks].
    + intros [Hne H]. split; [intro E; apply Hne; destruct ranks; [reflexivity | discriminate]|].
      intros l Hl. apply in_map_iff in Hl. destruct Hl as [ks [E Hks]]. subst l. apply rp_matched_iff. apply H. exact Hks.
  - apply Forall_forall. intros l Hl. apply in_map_iff in Hl. destruct Hl as [ks [E Hks]]. subst l.
    unfold rp_matched. apply NoDup_filter. rewrite Forall_forall in F. exact (F ks Hks).
Qed.
(* ================================================================== rank-local selection keeps exactly the assigned chunks *)
Definition chunks_at (p : Z) (m : manifest) : list chunk :=
  match lookup p m with Some (EChunked _ _ cs) => cs | _ => [] end.
Definition pick (cs : list chunk) (i : Z) : chunk := nth (Z.to_nat i) cs ([], -1).
Definition idxs_of (p : Z) (ps : list (Z * Z)) : list Z := map snd (filter (fun pi => fst pi =? p) ps).

Lemma chunks_at_dset_same p e m : chunks_at p (dset p e m) = match e with EChunked _ _ cs => cs | _ => [] end.
Proof. unfold chunks_at. rewrite lookup_dset, Z.eqb_refl. reflexivity. Qed.

Lemma chunks_at_dset_other p q e m : (q =? p) = false -> chunks_at p (dset q e m) = chunks_at p m.
Proof. intro H. unfold chunks_at. rewrite lookup_dset, H. reflexivity. Qed.

Lemma sel_step_chunks entries p rp meta cs st q i :
  lookup p entries = Some (EChunked rp meta cs) ->
  chunks_at p (fst (sel_step entries st (q, i))) =
  if q =? p then chunks_at p (fst st) ++ [pick cs i] else chunks_at p (fst st).
Proof.
  intro He. unfold sel_step. cbn [fst snd]. destruct (q =? p) eqn:E.
  - apply Z.eqb_eq in E. subst q. rewrite He. cbn [fst].
    unfold chunks_at at 2. destruct (lookup p (fst st)) as [[r m cs'|r j]|]; rewrite chunks_at_dset_same; reflexivity.
  - destruct (lookup q entries) as [[r m cs'|r j]|]; cbn [fst]; [|apply chunks_at_dset_other; exact E|reflexivity].
    destruct (lookup q (fst st)) as [[r2 m2 cs2|r2 j2]|]; apply chunks_at_dset_other; exact E.
Qed.

Lemma select_fold_chunks entries p rp meta cs :
  lookup p entries = Some (EChunked rp meta cs) -> forall ps st,
  chunks_at p (fst (fold_left (sel_step entries) ps st)) = chunks_at p (fst st) ++ map (pick cs) (idxs_of p ps).
Proof.
  intro He. induction ps as [|[q i] ps IH]; intro st; cbn [fold_left].
  - unfold idxs_of. cbn. rewrite app_nil_r. reflexivity.
  - rewrite IH, (sel_step_chunks entries p rp meta cs st q i He). unfold idxs_of. cbn [filter fst].
    destruct (q =? p); [cbn [map snd]; rewrite <- app_assoc; reflexivity | reflexivity].
Qed.

Lemma selected_chunks_eq entries rl p rp meta cs :
  lookup p entries = Some (EChunked rp meta cs) ->
  selected_chunks entries rl p = map (pick cs) (idxs_of p (sorted_pairs rl)).
Proof.
  intro He. change (selected_chunks entries rl p) with (chunks_at p (fst (select entries rl))).
  unfold select. rewrite (select_fold_chunks entries p rp meta cs He). reflexivity.
Qed.

Lemma perm_filter {A} (f : A -> bool) : forall l l', Permutation l l' -> Permutation (filter f l) (filter f l').
Proof.
  induction 1 as [|x l l' _ IH|x y l|l l' l'' _ IH1 _ IH2]; cbn [filter].
  - constructor.
  - destruct (f x); [apply perm_skip|]; exact IH.
  - destruct (f x); destruct (f y); try apply Permutation_refl. apply perm_swap.
  - exact (perm_trans IH1 IH2).
Qed.

Lemma perm_flat_map {A B} (f g : A -> list B) : forall l,
  (forall x, Permutation (f x) (g x)) -> Permutation (flat_map f l) (flat_map g l).
Proof.
  intros l H. induction l as [|x l IH]; [constructor|]. cbn [flat_map]. apply Permutation_app; [apply H | exact IH].
Qed.

Lemma idxs_of_pairs p : forall rl,
  idxs_of p (map (fun l => (l_path l, l_idx l)) rl) = map l_idx (filter (fun l => l_path l =? p) rl).
Proof.
  unfold idxs_of. induction rl as [|l rl IH]; [reflexivity|]. cbn [map filter fst].
  destruct (l_path l =? p); [cbn [map snd]; rewrite IH; reflexivity | exact IH].
Qed.

Lemma idxs_sorted_perm p rl :
  Permutation (idxs_of p (sorted_pairs rl)) (map l_idx (filter (fun l => l_path l =? p) rl)).
Proof.
  rewrite <- idxs_of_pairs. unfold idxs_of, sorted_pairs. apply Permutation_map. apply perm_filter. apply isort_perm.
Qed.

Lemma flat_map_filter_concat {A R} (h : R -> list A) (f : A -> bool) (g : A -> Z) : forall (L : list R),
  flat_map (fun r => map g (filter f (h r))) L = map g (filter f (concat (map h L))).
Proof.
  induction L as [|r L IH]; [reflexivity|]. cbn [flat_map map concat]. rewrite IH.
  rewrite <- map_app. f_equal. clear IH. induction (h r) as [|x l IHl]; [reflexivity|]. cbn [filter app].
  destruct (f x); [cbn [app]; rewrite IHl; reflexivity | exact IHl].
Qed.

Lemma map_nth_seq {A} (d : A) : forall l, map (fun i => nth i l d) (seq 0 (length l)) = l.
Proof.
  induction l as [|x l IH]; [reflexivity|]. cbn [length seq map nth]. f_equal.
  rewrite <- seq_shift, map_map. exact IH.
Qed.

Lemma selected_chunks_complete sizes items ord entries p rp meta cs :
  sizes <> [] -> Permutation ord (partitionables items) ->
  lookup p entries = Some (EChunked rp meta cs) ->
  map l_idx (filter (fun l => l_path l =? p) (all_loads items)) = map Z.of_nat (seq 0 (length cs)) ->
  Permutation
    (flat_map (fun r => selected_chunks entries (rank_loads (snd (partition sizes items ord)) r) p) (seq 0 (length sizes)))
    cs.
Proof.
  intros Hne HP He Hidx. set (asg := snd (partition sizes items ord)).
  rewrite (flat_map_ext _ (fun r => map (pick cs) (idxs_of p (sorted_pairs (rank_loads asg r))))).
  2:{ intro r. apply (selected_chunks_eq _ _ p rp meta cs He). }
  assert (E : flat_map (fun r => map (pick cs) (idxs_of p (sorted_pairs (rank_loads asg r)))) (seq 0 (length sizes))
              = map (pick cs) (flat_map (fun r => idxs_of p (sorted_pairs (rank_loads asg r))) (seq 0 (length sizes)))).
  { induction (seq 0 (length sizes)) as [|r l IH]; [reflexivity|]. cbn [flat_map]. rewrite map_app, IH. reflexivity. }
  rewrite E. clear E.
  assert (P1 : Permutation (flat_map (fun r => idxs_of p (sorted_pairs (rank_loads asg r))) (seq 0 (length sizes)))
                 (map Z.of_nat (seq 0 (length cs)))).
  { rewrite (perm_flat_map _ (fun r => map l_idx (filter (fun l => l_path l =? p) (rank_loads asg r)))).
    2:{ intro r. apply idxs_sorted_perm. }
    rewrite <- Hidx. rewrite flat_map_filter_concat.
    apply Permutation_map. apply perm_filter.
    fold (partition_result (length sizes) asg).
    rewrite (rank_loads_perm (length sizes) asg (partition_ranks sizes items ord Hne)).
    unfold asg. rewrite partition_units. exact (all_units_loads items ord HP). }
  rewrite (Permutation_map (pick cs) P1). rewrite map_map. unfold pick.
  rewrite (map_ext _ (fun i => nth i cs ([], -1))) by (intro i; rewrite Nat2Z.id; reflexivity).
  rewrite map_nth_seq. apply Permutation_refl.
Qed.

(* ================================================================== the statements of props/C06.v *)
Lemma assigned_exactly_once : forall (sizes : list Z) (items : list item) (ord : list load),
  sizes <> [] -> Permutation ord (partitionables items) ->
  let W := length sizes in
  let asg := snd (partition sizes items ord) in
  map snd asg = all_units items ord /\
  Forall (fun a => (fst a < W)%nat) asg /\
  (forall w : wunit -> Z,
     sumZ (map (fun r => sumZ (map w (rank_units asg r))) (seq 0 W)) = sumZ (map w (all_units items ord))) /\
  (forall u, NoDup (all_units items ord) -> In u (all_units items ord) ->
     exists r, (r < W)%nat /\ In u (rank_units asg r) /\ forall r', In u (rank_units asg r') -> r' = r) /\
  Permutation (concat (partition_result W asg)) (all_loads items).
Proof.
  intros sizes items ord Hne HP W asg.
  pose proof (partition_units sizes items ord) as HU.
  pose proof (partition_ranks sizes items ord Hne) as HR.
  split; [exact HU|]. split; [exact HR|]. split; [|split].
  - intro w. unfold asg, W. rewrite (bucket_sum w (length sizes) _ HR), HU. reflexivity.
  - intros u ND Hin. exact (exactly_one_rank W asg (all_units items ord) u HU HR ND Hin).
  - unfold asg, W. rewrite (rank_loads_perm (length sizes) _ HR), HU. exact (all_units_loads items ord HP).
Qed.

Lemma balance_two_pass : forall (sizes : list Z) (items : list item) (ord : list load),
  sizes <> [] -> items_nonneg items -> Permutation ord (partitionables items) ->
  let final := fst (partition sizes items ord) in
  let asg := snd (partition sizes items ord) in
  forall r s, last_size asg r = Some s ->
  (exists u, In u (rank_units asg r) /\ u_size u = s) /\
  forall q, (q < length sizes)%nat -> nth r final 0 <= nth q final 0 + s.
Proof.
  intros sizes items ord Hne Hit HP final asg r s Hl. split.
  - exact (last_size_in asg r s Hl).
  - exact (partition_balance sizes items ord Hne Hit HP r s Hl).
Qed.

(* ================================================================== consolidation does not raise on partitioned entries *)
Lemma collect_total : forall kvs acc,
  (forall p e e', In (p, e) acc -> In (p, e') kvs -> is_repl e' = true -> e = e') ->
  (forall p e e', In (p, e) kvs -> In (p, e') kvs -> is_repl e = true -> is_repl e' = true -> e = e') ->
  exists out, collect kvs acc = Some out.
Proof.
  induction kvs as [|[q x] r IH]; intros acc H1 H2; cbn [collect]; [eexists; reflexivity|].
  assert (H2' : forall p e e', In (p, e) r -> In (p, e') r -> is_repl e = true -> is_repl e' = true -> e = e').
  { intros p e e' Ha Hb. apply (H2 p e e'); right; assumption. }
  destruct (is_repl x) eqn:Ex.
  - destruct (lookup q acc) as [e'|] eqn:El.
    + apply lookup_In in El. rewrite (H1 q e' x El (or_introl eq_refl) Ex), entry_eqb_refl.
      apply IH; [|exact H2']. intros p e e'' Ha Hb. apply (H1 p e e'' Ha). right. exact Hb.
    + apply IH; [|exact H2']. intros p e e'' Ha Hb Hr. apply in_app_or in Ha. destruct Ha as [Ha|[Ha|[]]].
      * apply (H1 p e e'' Ha); [right; exact Hb | exact Hr].
      * inversion Ha; subst. apply (H2 p e e''); [left; reflexivity | right; exact Hb | exact Ex | exact Hr].
  - apply IH; [|exact H2']. intros p e e'' Ha Hb. apply (H1 p e e'' Ha). right. exact Hb.
Qed.

Lemma consolidate_no_error : forall ms,
  keys_distinct ms ->
  (forall m m' p e e', In m ms -> In m' ms -> In (p, e) m -> In (p, e') m' ->
     is_repl e = true -> is_repl e' = true -> ~ In p (group_paths ms) -> e = e') ->
  exists ms', consolidate ms = Some ms'.
Proof.
  intros ms KD HA. unfold consolidate, consolidate_with. rewrite step1_eq.
  set (M := merged_entry ms). set (G := group_paths ms). set (D := foldD M G).
  assert (Mrepl : forall p, is_repl (M p) = true) by (intro; reflexivity).
  assert (Src : forall p e, In (p, e) (concat (map D ms)) ->
            (In p G /\ e = M p) \/ (~ In p G /\ exists m, In m ms /\ In (p, e) m)).
  { intros p e H. apply in_concat in H. destruct H as [l [Hl Hp]]. apply in_map_iff in Hl. destruct Hl as [m [E Hm]]. subst l.
    assert (ND : NoDup (map fst (D m))).
    { apply foldD_nodup. unfold keys_distinct in KD. rewrite Forall_forall in KD. exact (KD m Hm). }
    pose proof (In_lookup p e (D m) ND Hp) as HL. unfold D in HL. rewrite foldD_lookup in HL by exact Mrepl.
    destruct (memz p G) eqn:Eg.
    - left. apply memz_In in Eg. split; [exact Eg | congruence].
    - right. split; [intro Hg; apply memz_In in Hg; congruence|]. exists m. split; [exact Hm | apply lookup_In; exact HL]. }
  destruct (collect_total (concat (map D ms)) []) as [reps Hr].
  - intros p e e' [].
  - intros p e e' Ha Hb Hra Hrb. destruct (Src p e Ha) as [[Hg He]|[Hng [m [Hm Hin]]]];
      destruct (Src p e' Hb) as [[Hg' He']|[Hng' [m' [Hm' Hin']]]]; try congruence; try contradiction.
    exact (HA m m' p e e' Hm Hm' Hin Hin' Hra Hrb Hng).
  - rewrite Hr. eexists. reflexivity.
Qed.
