(* C06: proofs about model/Partition.v.  The generated constants enter only through proofs/PartitionInst.v. *)
From TS Require Import model.Base gen.PartitionGen model.Partition proofs.PartitionInst.
From Coq Require Import Permutation Sorting.Sorted.

(* ================================================================== the choice functions *)
Lemma first_min_cons2 x y r :
  first_min (x :: y :: r) = if x <=? nth (first_min (y :: r)) (y :: r) 0 then O else S (first_min (y :: r)).
Proof. reflexivity. Qed.

Lemma first_max_cons2 x y r :
  first_max (x :: y :: r) = if x >=? nth (first_max (y :: r)) (y :: r) 0 then O else S (first_max (y :: r)).
Proof. reflexivity. Qed.

Lemma first_min_spec : forall l, l <> [] ->
  (first_min l < length l)%nat /\ forall q, (q < length l)%nat -> nth (first_min l) l 0 <= nth q l 0.
Proof.
  induction l as [|x r IH]; intro Hne; [congruence|].
  destruct r as [|y r'].
  - split; [cbn; lia|]. intros q Hq. cbn [length] in Hq. assert (q = 0)%nat as -> by lia. cbn. lia.
  - assert (Hr : y :: r' <> []) by discriminate. destruct (IH Hr) as [IHlt IHmin]. clear IH.
    rewrite first_min_cons2.
    destruct (x <=? nth (first_min (y :: r')) (y :: r') 0) eqn:E.
    + split; [cbn [length]; lia|]. intros q Hq. destruct q as [|q]; [cbn [nth]; lia|].
      cbn [length] in Hq. assert (Hq' : (q < length (y :: r'))%nat) by (cbn [length]; lia).
      specialize (IHmin q Hq'). change (nth (S q) (x :: y :: r') 0) with (nth q (y :: r') 0).
      change (nth 0 (x :: y :: r') 0) with x. lia.
    + split; [cbn [length] in *; lia|]. intros q Hq.
      change (nth (S (first_min (y :: r'))) (x :: y :: r') 0) with (nth (first_min (y :: r')) (y :: r') 0).
      destruct q as [|q].
      * change (nth 0 (x :: y :: r') 0) with x. lia.
      * cbn [length] in Hq. assert (Hq' : (q < length (y :: r'))%nat) by (cbn [length]; lia).
        change (nth (S q) (x :: y :: r') 0) with (nth q (y :: r') 0). exact (IHmin q Hq').
Qed.

(* ties go to the smallest index: every earlier entry is strictly larger *)
Lemma first_min_first : forall l q, (q < first_min l)%nat -> nth (first_min l) l 0 < nth q l 0.
Proof.
  induction l as [|x r IH]; intros q Hq; [cbn in Hq; lia|].
  destruct r as [|y r']; [cbn in Hq; lia|].
  rewrite first_min_cons2 in *.
  destruct (x <=? nth (first_min (y :: r')) (y :: r') 0) eqn:E; [lia|].
  change (nth (S (first_min (y :: r'))) (x :: y :: r') 0) with (nth (first_min (y :: r')) (y :: r') 0).
  destruct q as [|q].
  - change (nth 0 (x :: y :: r') 0) with x. lia.
  - change (nth (S q) (x :: y :: r') 0) with (nth q (y :: r') 0). apply IH. lia.
Qed.

Lemma first_max_lt : forall l, l <> [] -> (first_max l < length l)%nat.
Proof.
  induction l as [|x r IH]; intro Hne; [congruence|].
  destruct r as [|y r']; [cbn; lia|].
  rewrite first_max_cons2. assert (Hr : y :: r' <> []) by discriminate. specialize (IH Hr).
  destruct (x >=? nth (first_max (y :: r')) (y :: r') 0); cbn [length] in *; lia.
Qed.

Lemma choose_lt ch l : l <> [] -> (choose ch l < length l)%nat.
Proof.
  intro H. destruct ch; cbn [choose]; [apply first_min_spec; exact H | apply first_max_lt; exact H].
Qed.

(* ================================================================== upd_at *)
Lemma upd_at_length c f : forall l, length (upd_at c f l) = length l.
Proof.
  revert c. induction c as [|c IH]; intros [|x r]; cbn [upd_at length]; try reflexivity.
  rewrite IH. reflexivity.
Qed.

Lemma upd_at_nth_same f : forall c l, (c < length l)%nat -> nth c (upd_at c f l) 0 = f (nth c l 0).
Proof.
  induction c as [|c IH]; intros [|x r] H; cbn [length] in H; try lia; cbn [upd_at nth]; [reflexivity|].
  apply IH. lia.
Qed.

Lemma upd_at_nth_other f : forall c l q, q <> c -> nth q (upd_at c f l) 0 = nth q l 0.
Proof.
  induction c as [|c IH]; intros [|x r] q H; cbn [upd_at]; try reflexivity.
  - destruct q; [congruence | reflexivity].
  - destruct q; [reflexivity|]. cbn [nth]. apply IH. congruence.
Qed.

Lemma upd_at_nonempty c f l : l <> [] -> upd_at c f l <> [].
Proof. destruct l; [congruence|]. destruct c; cbn; discriminate. Qed.

Lemma sumZ_upd_at_add s : forall c l, (c < length l)%nat -> sumZ (upd_at c (fun x => x + s) l) = sumZ l + s.
Proof.
  induction c as [|c IH]; intros [|x r] H; cbn [length] in H; try lia; cbn [upd_at sumZ fold_right].
  - fold (sumZ r). lia.
  - fold (sumZ (upd_at c (fun x0 => x0 + s) r)). fold (sumZ r). rewrite IH by lia. lia.
Qed.

(* ================================================================== the greedy loop: who gets what *)
Lemma greedy_units ch up : forall us sizes, map snd (snd (greedy ch up sizes us)) = us.
Proof.
  induction us as [|u r IH]; intro sizes; cbn [greedy snd map]; [reflexivity|].
  rewrite IH. reflexivity.
Qed.

Lemma greedy_length ch up : forall us sizes, length (fst (greedy ch up sizes us)) = length sizes.
Proof.
  induction us as [|u r IH]; intro sizes; cbn [greedy fst]; [reflexivity|].
  rewrite IH. apply upd_at_length.
Qed.

Lemma greedy_ranks ch up : forall us sizes, sizes <> [] ->
  Forall (fun a => (fst a < length sizes)%nat) (snd (greedy ch up sizes us)).
Proof.
  induction us as [|u r IH]; intros sizes Hne; cbn [greedy snd]; [constructor|].
  constructor.
  - cbn [fst]. apply choose_lt. exact Hne.
  - specialize (IH (upd_at (choose ch sizes) (bump up (u_size u)) sizes) (upd_at_nonempty _ _ _ Hne)).
    rewrite upd_at_length in IH. exact IH.
Qed.

(* the first loop is the greedy loop over the whole-path units, and collects the chunks *)
Definition pass1_units (items : list item) : list wunit :=
  map (fun it => whole_unit (it_loads it)) (filter (fun it => negb (it_sub it)) items).
Definition chunks_of (items : list item) : list load :=
  flat_map it_loads (filter it_sub items).

Lemma pass1_greedy : forall items sizes,
  pass1 sizes items =
  (fst (greedy gen_choice_pass1 gen_update_pass1 sizes (pass1_units items)),
   snd (greedy gen_choice_pass1 gen_update_pass1 sizes (pass1_units items)),
   chunks_of items).
Proof.
  induction items as [|it r IH]; intro sizes; [reflexivity|].
  cbn [pass1]. unfold pass1_units, chunks_of. cbn [filter].
  destruct (it_sub it) eqn:E; cbn [negb].
  - rewrite IH. cbn [fst snd flat_map]. reflexivity.
  - cbn [map greedy]. rewrite IH. cbn [fst snd]. reflexivity.
Qed.

Lemma partitionables_eq items : partitionables items = chunks_of items.
Proof. unfold partitionables. rewrite pass1_greedy. reflexivity. Qed.

(* all units of work, in the order in which the two loops hand them out *)
Definition all_units (items : list item) (ord : list load) : list wunit :=
  pass1_units items ++ map chunk_unit ord.
(* all replicated write loads *)
Definition all_loads (items : list item) : list load := flat_map it_loads items.

Lemma partition_eq sizes items ord :
  partition sizes items ord =
  let g1 := greedy gen_choice_pass1 gen_update_pass1 sizes (pass1_units items) in
  let g2 := greedy gen_choice_pass2 gen_update_pass2 (fst g1) (map chunk_unit ord) in
  (fst g2, snd g1 ++ snd g2).
Proof. unfold partition. rewrite pass1_greedy. reflexivity. Qed.

Lemma partition_units sizes items ord : map snd (snd (partition sizes items ord)) = all_units items ord.
Proof.
  rewrite partition_eq. cbv zeta. cbn [snd]. rewrite map_app, !greedy_units. reflexivity.
Qed.

Lemma partition_length sizes items ord : length (fst (partition sizes items ord)) = length sizes.
Proof. rewrite partition_eq. cbv zeta. cbn [fst]. rewrite !greedy_length. reflexivity. Qed.

Lemma partition_ranks sizes items ord : sizes <> [] ->
  Forall (fun a => (fst a < length sizes)%nat) (snd (partition sizes items ord)).
Proof.
  intro Hne. rewrite partition_eq. cbv zeta. cbn [snd]. apply Forall_app. split.
  - apply greedy_ranks. exact Hne.
  - pose proof (greedy_ranks gen_choice_pass2 gen_update_pass2 (map chunk_unit ord)
                  (fst (greedy gen_choice_pass1 gen_update_pass1 sizes (pass1_units items)))) as H.
    rewrite greedy_length in H. apply H.
    intro E. apply (f_equal (@length Z)) in E. rewrite greedy_length in E. destruct sizes; [congruence | discriminate].
Qed.

(* ================================================================== counting invariant: bucket sums *)
Lemma sumZ_map_add {A} (f g : A -> Z) : forall l,
  sumZ (map (fun r => f r + g r) l) = sumZ (map f l) + sumZ (map g l).
Proof.
  induction l as [|x r IH]; [reflexivity|]. cbn [map sumZ fold_right].
  fold (sumZ (map (fun r0 => f r0 + g r0) r)). fold (sumZ (map f r)). fold (sumZ (map g r)). lia.
Qed.

Lemma sumZ_cons x l : sumZ (x :: l) = x + sumZ l.
Proof. reflexivity. Qed.

Lemma sumZ_app a b : sumZ (a ++ b) = sumZ a + sumZ b.
Proof. induction a as [|x a IH]; [reflexivity|]. cbn [app]. rewrite !sumZ_cons, IH. lia. Qed.

Lemma indicator_sum (c : nat) (x : Z) : forall n a,
  sumZ (map (fun r => if Nat.eqb c r then x else 0) (seq a n)) =
  if (Nat.leb a c && Nat.ltb c (a + n))%bool then x else 0.
Proof.
  induction n as [|n IH]; intro a.
  - cbn [seq map]. replace (a + 0)%nat with a by lia.
    destruct (Nat.leb a c) eqn:E1; destruct (Nat.ltb c a) eqn:E2; try reflexivity.
    apply Nat.leb_le in E1. apply Nat.ltb_lt in E2. lia.
  - cbn [seq map]. rewrite sumZ_cons, IH.
    destruct (Nat.eqb c a) eqn:Eca.
    + apply Nat.eqb_eq in Eca. subst a.
      assert (Nat.leb (S c) c = false) as -> by (apply Nat.leb_gt; lia).
      assert (Nat.leb c c = true) as -> by (apply Nat.leb_le; lia).
      assert (Nat.ltb c (c + S n) = true) as -> by (apply Nat.ltb_lt; lia).
      cbn [andb]. lia.
    + apply Nat.eqb_neq in Eca.
      destruct (Nat.leb (S a) c) eqn:E1; destruct (Nat.leb a c) eqn:E2;
        destruct (Nat.ltb c (S a + n)) eqn:E3; destruct (Nat.ltb c (a + S n)) eqn:E4; cbn [andb]; try lia;
        repeat match goal with
               | H : Nat.leb _ _ = true |- _ => apply Nat.leb_le in H
               | H : Nat.leb _ _ = false |- _ => apply Nat.leb_gt in H
               | H : Nat.ltb _ _ = true |- _ => apply Nat.ltb_lt in H
               | H : Nat.ltb _ _ = false |- _ => apply Nat.ltb_ge in H
               end; lia.
Qed.

Lemma rank_units_cons c u rest r :
  rank_units ((c, u) :: rest) r = if Nat.eqb c r then u :: rank_units rest r else rank_units rest r.
Proof. unfold rank_units. cbn [filter fst]. destruct (Nat.eqb c r); reflexivity. Qed.

(* every weight function: summing, over the ranks, the weights of the units a rank holds counts every
   handed-out unit exactly once *)
Lemma bucket_sum (w : wunit -> Z) (W : nat) : forall asg,
  Forall (fun a => (fst a < W)%nat) asg ->
  sumZ (map (fun r => sumZ (map w (rank_units asg r))) (seq 0 W)) = sumZ (map w (map snd asg)).
Proof.
  induction asg as [|[c u] rest IH]; intro HF.
  - cbn [map]. unfold rank_units. cbn [filter map sumZ fold_right].
    induction (seq 0 W) as [|x l IHl]; [reflexivity|]. cbn [map]. rewrite sumZ_cons, IHl. reflexivity.
  - inversion HF as [|a l Hc HF']; subst. cbn [fst] in Hc. specialize (IH HF').
    cbn [map snd]. rewrite sumZ_cons, <- IH.
    rewrite (map_ext (fun r => sumZ (map w (rank_units ((c, u) :: rest) r)))
                     (fun r => (if Nat.eqb c r then w u else 0) + sumZ (map w (rank_units rest r)))).
    + rewrite sumZ_map_add, indicator_sum.
      assert (Nat.leb 0 c = true) as -> by (apply Nat.leb_le; lia).
      assert (Nat.ltb c (0 + W) = true) as -> by (apply Nat.ltb_lt; lia).
      reflexivity.
    + intro r. rewrite rank_units_cons. destruct (Nat.eqb c r); [cbn [map]; rewrite sumZ_cons; reflexivity | lia].
Qed.

(* membership: a unit is in a rank's result iff it was handed to that rank *)
Lemma in_rank_units asg r u : In u (rank_units asg r) <-> In (r, u) asg.
Proof.
  unfold rank_units. rewrite in_map_iff. split.
  - intros [[c u'] [E H]]. cbn [snd] in E. subst u'. apply filter_In in H. destruct H as [H1 H2].
    cbn [fst] in H2. apply Nat.eqb_eq in H2. subst c. exact H1.
  - intro H. exists (r, u). split; [reflexivity|]. apply filter_In. split; [exact H|]. cbn [fst]. apply Nat.eqb_refl.
Qed.

Lemma nodup_snd_unique {A B} : forall (l : list (A * B)) a a' b,
  NoDup (map snd l) -> In (a, b) l -> In (a', b) l -> a = a'.
Proof.
  induction l as [|[x y] l IH]; intros a a' b ND H1 H2; [destruct H1|].
  cbn [map snd] in ND. inversion ND as [|? ? Hnin ND']; subst.
  destruct H1 as [H1|H1]; destruct H2 as [H2|H2].
  - congruence.
  - inversion H1; subst. exfalso. apply Hnin. apply in_map_iff. exists (a', b). split; [reflexivity | exact H2].
  - inversion H2; subst. exfalso. apply Hnin. apply in_map_iff. exists (a, b). split; [reflexivity | exact H1].
  - exact (IH a a' b ND' H1 H2).
Qed.

Lemma exactly_one_rank (W : nat) asg units u :
  map snd asg = units -> Forall (fun a => (fst a < W)%nat) asg -> NoDup units -> In u units ->
  exists r, (r < W)%nat /\ In u (rank_units asg r) /\
            forall r', In u (rank_units asg r') -> r' = r.
Proof.
  intros Hm HF ND Hin. subst units. apply in_map_iff in Hin. destruct Hin as [[c u'] [E Hin]]. cbn [snd] in E. subst u'.
  exists c. split; [|split].
  - rewrite Forall_forall in HF. exact (HF _ Hin).
  - apply in_rank_units. exact Hin.
  - intros r' H. apply in_rank_units in H. exact (nodup_snd_unique asg r' c u ND H Hin).
Qed.

(* load level: the ranks' lists together are a permutation of the handed-out loads *)
Lemma rank_loads_perm (W : nat) : forall asg,
  Forall (fun a => (fst a < W)%nat) asg ->
  Permutation (concat (partition_result W asg)) (flat_map u_loads (map snd asg)).
Proof.
  unfold partition_result.
  assert (G : forall asg a n, Forall (fun x => (a <= fst x < a + n)%nat) asg ->
              Permutation (concat (map (rank_loads asg) (seq a n))) (flat_map u_loads (map snd asg))).
  { intros asg a n. revert a asg. induction n as [|n IH]; intros a asg HF.
    - cbn [seq map concat]. destruct asg as [|x asg]; [constructor|]. inversion HF; subst. lia.
    - cbn [seq map concat].
      (* split asg into the units of rank a and the others *)
      assert (S1 : Permutation (flat_map u_loads (map snd asg))
                     (rank_loads asg a ++ flat_map u_loads (map snd (filter (fun x => negb (Nat.eqb (fst x) a)) asg)))).
      { clear IH HF. unfold rank_loads, rank_units. induction asg as [|[c u] asg IHa]; [constructor|].
        cbn [map snd flat_map filter fst]. destruct (Nat.eqb c a); cbn [negb map snd flat_map].
        - rewrite <- app_assoc. apply Permutation_app_head. exact IHa.
        - rewrite IHa. rewrite !app_assoc. apply Permutation_app_tail. apply Permutation_app_comm. }
      rewrite S1. apply Permutation_app_head.
      set (asg' := filter (fun x => negb (Nat.eqb (fst x) a)) asg).
      assert (E : map (rank_loads asg) (seq (S a) n) = map (rank_loads asg') (seq (S a) n)).
      { apply map_ext_in. intros r Hr. apply in_seq in Hr. unfold rank_loads, rank_units, asg'. f_equal. f_equal.
        clear HF S1 asg' IH. induction asg as [|[c u] asg IHa]; [reflexivity|]. cbn [filter fst].
        destruct (Nat.eqb c r) eqn:E1; destruct (Nat.eqb c a) eqn:E2; cbn [negb filter fst]; rewrite ?E1.
        - apply Nat.eqb_eq in E1. apply Nat.eqb_eq in E2. lia.
        - f_equal. exact IHa.
        - exact IHa.
        - exact IHa. }
      rewrite E. apply IH. unfold asg'. apply Forall_forall. intros x Hx. apply filter_In in Hx. destruct Hx as [Hx Hne].
      rewrite Forall_forall in HF. specialize (HF x Hx). apply negb_true_iff in Hne. apply Nat.eqb_neq in Hne. lia. }
  intros asg HF. apply G. apply Forall_forall. intros x Hx. rewrite Forall_forall in HF. specialize (HF x Hx). lia.
Qed.

Lemma flat_map_whole_units : forall items,
  flat_map u_loads (pass1_units items) = flat_map it_loads (filter (fun it => negb (it_sub it)) items).
Proof.
  unfold pass1_units. intro items. induction (filter (fun it => negb (it_sub it)) items) as [|it r IH]; [reflexivity|].
  cbn [map flat_map]. rewrite IH. reflexivity.
Qed.

Lemma flat_map_chunk_units : forall ord, flat_map u_loads (map chunk_unit ord) = ord.
Proof. induction ord as [|l r IH]; [reflexivity|]. cbn [map flat_map chunk_unit u_loads app]. rewrite IH. reflexivity. Qed.

Lemma all_loads_split : forall items,
  Permutation (all_loads items)
    (flat_map it_loads (filter (fun it => negb (it_sub it)) items) ++ chunks_of items).
Proof.
  unfold all_loads, chunks_of. induction items as [|it r IH]; [constructor|].
  cbn [flat_map filter]. destruct (it_sub it); cbn [negb flat_map].
  - rewrite IH. rewrite !app_assoc. apply Permutation_app_tail. apply Permutation_app_comm.
  - rewrite <- app_assoc. apply Permutation_app_head. exact IH.
Qed.

Lemma all_units_loads items ord : Permutation ord (partitionables items) ->
  Permutation (flat_map u_loads (all_units items ord)) (all_loads items).
Proof.
  intro HP. unfold all_units. rewrite flat_map_app, flat_map_whole_units, flat_map_chunk_units.
  rewrite all_loads_split. apply Permutation_app_head. rewrite <- partitionables_eq. exact HP.
Qed.

(* ================================================================== load accounting *)
Lemma greedy_final_load ch : forall us sizes r, sizes <> [] ->
  nth r (fst (greedy ch AddSize sizes us)) 0 =
  nth r sizes 0 + sumZ (map u_size (rank_units (snd (greedy ch AddSize sizes us)) r)).
Proof.
  induction us as [|u rest IH]; intros sizes r Hne; cbn [greedy fst snd].
  - unfold rank_units. cbn. lia.
  - rewrite IH by (apply upd_at_nonempty; exact Hne). rewrite rank_units_cons.
    pose proof (choose_lt ch sizes Hne) as Hc.
    destruct (Nat.eqb (choose ch sizes) r) eqn:E.
    + apply Nat.eqb_eq in E. subst r. rewrite upd_at_nth_same by exact Hc. cbn [bump map]. rewrite sumZ_cons. lia.
    + apply Nat.eqb_neq in E. rewrite upd_at_nth_other by congruence. reflexivity.
Qed.

Lemma rank_units_app a b r : rank_units (a ++ b) r = rank_units a r ++ rank_units b r.
Proof. unfold rank_units. rewrite filter_app, map_app. reflexivity. Qed.

Lemma partition_final_load sizes items ord r : sizes <> [] ->
  nth r (fst (partition sizes items ord)) 0 =
  nth r sizes 0 + sumZ (map u_size (rank_units (snd (partition sizes items ord)) r)).
Proof.
  intro Hne. rewrite partition_eq. cbv zeta. cbn [fst snd].
  rewrite update_pass1_adds, update_pass2_adds.
  set (g1 := greedy gen_choice_pass1 AddSize sizes (pass1_units items)).
  assert (Hne1 : fst g1 <> []).
  { intro E. apply (f_equal (@length Z)) in E. unfold g1 in E. rewrite greedy_length in E.
    destruct sizes; [congruence | discriminate]. }
  rewrite greedy_final_load by exact Hne1. unfold g1 at 1. rewrite greedy_final_load by exact Hne.
  fold g1. rewrite rank_units_app, map_app, sumZ_app. lia.
Qed.

(* ================================================================== balance: the greedy bound as an invariant *)
Definition units_nonneg (us : list wunit) : Prop := Forall (fun u => 0 <= u_size u) us.

(* for every rank that received work: its load minus the last unit it received is at most every rank's load *)
Definition bal_inv (sizes : list Z) (asg : list (nat * wunit)) : Prop :=
  forall r s, last_size asg r = Some s ->
  forall q, (q < length sizes)%nat -> nth r sizes 0 - s <= nth q sizes 0.

Lemma last_size_app : forall a b r,
  last_size (a ++ b) r = match last_size b r with Some s => Some s | None => last_size a r end.
Proof.
  induction a as [|[c u] a IH]; intros b r; cbn [app last_size].
  - destruct (last_size b r); reflexivity.
  - rewrite IH. destruct (last_size b r); reflexivity.
Qed.

Lemma bal_inv_step sizes pre u :
  sizes <> [] -> 0 <= u_size u -> bal_inv sizes pre ->
  bal_inv (upd_at (first_min sizes) (fun x => x + u_size u) sizes) (pre ++ [(first_min sizes, u)]).
Proof.
  intros Hne Hu Inv r s Hl q Hq. rewrite upd_at_length in Hq.
  destruct (first_min_spec sizes Hne) as [Hc Hmin].
  rewrite last_size_app in Hl. cbn [last_size] in Hl.
  (* the load of q never decreases *)
  assert (Hq' : nth q sizes 0 <= nth q (upd_at (first_min sizes) (fun x => x + u_size u) sizes) 0).
  { destruct (Nat.eq_dec q (first_min sizes)) as [E|E].
    - subst q. rewrite upd_at_nth_same by exact Hc. lia.
    - rewrite upd_at_nth_other by exact E. lia. }
  destruct (Nat.eqb (first_min sizes) r) eqn:E.
  - apply Nat.eqb_eq in E. subst r. inversion Hl; subst s. rewrite upd_at_nth_same by exact Hc.
    specialize (Hmin q Hq). lia.
  - apply Nat.eqb_neq in E. rewrite upd_at_nth_other by congruence.
    specialize (Inv r s Hl q Hq). lia.
Qed.

Lemma greedy_bal_inv : forall us sizes pre,
  sizes <> [] -> units_nonneg us -> bal_inv sizes pre ->
  bal_inv (fst (greedy ChooseFirstMin AddSize sizes us)) (pre ++ snd (greedy ChooseFirstMin AddSize sizes us)).
Proof.
  induction us as [|u rest IH]; intros sizes pre Hne Hnn Inv; cbn [greedy fst snd].
  - rewrite app_nil_r. exact Inv.
  - inversion Hnn as [|? ? Hu Hrest]; subst. cbn [choose].
    change (bump AddSize (u_size u)) with (fun x => x + u_size u).
    set (sizes' := upd_at (first_min sizes) (fun x => x + u_size u) sizes).
    assert (E : pre ++ (first_min sizes, u) :: snd (greedy ChooseFirstMin AddSize sizes' rest)
                = (pre ++ [(first_min sizes, u)]) ++ snd (greedy ChooseFirstMin AddSize sizes' rest))
      by (rewrite <- app_assoc; reflexivity).
    rewrite E. apply IH.
    + apply upd_at_nonempty. exact Hne.
    + exact Hrest.
    + apply bal_inv_step; assumption.
Qed.

Definition loads_nonneg (ls : list load) : Prop := Forall (fun l => 0 <= l_size l) ls.
Definition items_nonneg (items : list item) : Prop := Forall (fun it => loads_nonneg (it_loads it)) items.

Lemma sumZ_nonneg l : Forall (fun x => 0 <= x) l -> 0 <= sumZ l.
Proof. induction 1 as [|x l Hx _ IH]; [cbn; lia|]. rewrite sumZ_cons. lia. Qed.

Lemma pass1_units_nonneg items : items_nonneg items -> units_nonneg (pass1_units items).
Proof.
  intro H. unfold pass1_units, units_nonneg. apply Forall_forall. intros u Hu. apply in_map_iff in Hu.
  destruct Hu as [it [E Hit]]. subst u. apply filter_In in Hit. destruct Hit as [Hit _].
  unfold items_nonneg in H. rewrite Forall_forall in H. specialize (H it Hit).
  cbn [whole_unit u_size]. apply sumZ_nonneg. apply Forall_forall. intros x Hx. apply in_map_iff in Hx.
  destruct Hx as [l [E Hl]]. subst x. unfold loads_nonneg in H. rewrite Forall_forall in H. exact (H l Hl).
Qed.

Lemma chunk_units_nonneg ord : loads_nonneg ord -> units_nonneg (map chunk_unit ord).
Proof.
  intro H. unfold units_nonneg. apply Forall_forall. intros u Hu. apply in_map_iff in Hu. destruct Hu as [l [E Hl]].
  subst u. unfold loads_nonneg in H. rewrite Forall_forall in H. exact (H l Hl).
Qed.

Lemma chunks_of_nonneg items : items_nonneg items -> loads_nonneg (chunks_of items).
Proof.
  intro H. unfold chunks_of, loads_nonneg. apply Forall_forall. intros l Hl. apply in_flat_map in Hl.
  destruct Hl as [it [Hit Hl]]. apply filter_In in Hit. destruct Hit as [Hit _].
  unfold items_nonneg in H. rewrite Forall_forall in H. specialize (H it Hit).
  unfold loads_nonneg in H. rewrite Forall_forall in H. exact (H l Hl).
Qed.

(* the bound for the two loops of _partition_write_loads, for EVERY list [ord] of non-negative chunks *)
Lemma partition_balance_gen sizes items ord :
  sizes <> [] -> items_nonneg items -> loads_nonneg ord ->
  bal_inv (fst (partition sizes items ord)) (snd (partition sizes items ord)).
Proof.
  intros Hne Hit Hord. rewrite partition_eq. cbv zeta. cbn [fst snd].
  rewrite choice_pass1_first_min, update_pass1_adds, choice_pass2_first_min, update_pass2_adds.
  set (g1 := greedy ChooseFirstMin AddSize sizes (pass1_units items)).
  assert (Hne1 : fst g1 <> []).
  { intro E. apply (f_equal (@length Z)) in E. unfold g1 in E. rewrite greedy_length in E.
    destruct sizes; [congruence | discriminate]. }
  apply greedy_bal_inv.
  - exact Hne1.
  - apply chunk_units_nonneg. exact Hord.
  - pose proof (greedy_bal_inv (pass1_units items) sizes [] Hne (pass1_units_nonneg items Hit)) as H.
    cbn [app] in H. apply H. intros r s Hl. cbn in Hl. discriminate.
Qed.

Lemma partition_balance sizes items ord :
  sizes <> [] -> items_nonneg items -> Permutation ord (partitionables items) ->
  forall r s, last_size (snd (partition sizes items ord)) r = Some s ->
  forall q, (q < length sizes)%nat ->
  nth r (fst (partition sizes items ord)) 0 <= nth q (fst (partition sizes items ord)) 0 + s.
Proof.
  intros Hne Hit HP r s Hl q Hq.
  assert (Hord : loads_nonneg ord).
  { unfold loads_nonneg. apply Forall_forall. intros l Hl'. apply (Permutation_in _ HP) in Hl'.
    rewrite partitionables_eq in Hl'. pose proof (chunks_of_nonneg items Hit) as H.
    unfold loads_nonneg in H. rewrite Forall_forall in H. exact (H l Hl'). }
  pose proof (partition_balance_gen sizes items ord Hne Hit Hord r s Hl q) as H.
  rewrite partition_length in H. specialize (H Hq). lia.
Qed.

(* a rank received work iff last_size says so *)
Lemma last_size_some_iff : forall asg r, (exists s, last_size asg r = Some s) <-> rank_units asg r <> [].
Proof.
  induction asg as [|[c u] asg IH]; intro r.
  - cbn. split; [intros [s H]; discriminate | intro H; congruence].
  - cbn [last_size]. rewrite rank_units_cons. destruct (last_size asg r) eqn:E.
    + split; [|intros _; eexists; reflexivity]. intros _.
      assert (H : rank_units asg r <> []) by (apply IH; eexists; exact E).
      destruct (Nat.eqb c r); [discriminate | exact H].
    + destruct (Nat.eqb c r).
      * split; [intros _; discriminate | intros _; eexists; reflexivity].
      * split; [intros [s H]; discriminate|]. intro H. apply IH in H. destruct H as [s H]. congruence.
Qed.

(* the last unit a rank received is one of its units *)
Lemma last_size_in : forall asg r s, last_size asg r = Some s -> exists u, In u (rank_units asg r) /\ u_size u = s.
Proof.
  induction asg as [|[c u] asg IH]; intros r s H; [discriminate|].
  cbn [last_size] in H. rewrite rank_units_cons. destruct (last_size asg r) eqn:E.
  - inversion H; subst. destruct (IH r s E) as [u' [Hin Hs]]. exists u'. split; [|exact Hs].
    destruct (Nat.eqb c r); [right; exact Hin | exact Hin].
  - destruct (Nat.eqb c r); [|discriminate]. inversion H; subst. exists u. split; [left; reflexivity | reflexivity].
Qed.
