(* C07: the decision fragments generated from /repo's manifest_ops.py (gen/ManifestOpsGen.v, rewritten on every
   run) equal what the hand model model/ManifestOps.v uses.  A change of the rank test of get_manifest_for_rank, of
   the keep-condition of _get_manifest_for_new_rank, or of the key expressions of _remove_entry /
   handle_sharded_tensor_elasticity changes the generated term and breaks one of these obligations. *)
From TS Require Import model.Base model.Flatten model.ManifestOps gen.ManifestOpsGen.
From Coq Require Import ZifyBool.

(* if rank < metadata.world_size *)
Theorem is_existing_rank_gen_is_model : forall W r, is_existing_rank_gen W r = is_existing_rank W r.
Proof. intros W r. unfold is_existing_rank_gen, is_existing_rank. lia. Qed.

(* if is_container_entry(entry) or is_fully_replicated_entry(entry): continue *)
Theorem keep_for_new_rank_gen_is_model : forall e,
  keep_for_new_rank_gen (is_container e) (is_replicated e) = keep_for_new_rank e.
Proof. intro e. reflexivity. Qed.

(* _remove_entry compares str(k) with unquote(key) *)
Theorem removed_key_gen_is_model : forall ks tok, rk_current ks tok = Some (remove_key ks (removed_key_gen tok)).
Proof. intros ks tok. reflexivity. Qed.

(* handle_sharded_tensor_elasticity appends unquote(key) to a dict parent's keys *)
Theorem elastic_key_gen_is_model : forall W g m p ord ks,
  mget m p = None ->
  mget (mset m p (MShard (merged_shards W g p))) (norm_path (removelast p)) = Some (MCont (EDict ord ks)) ->
  elastic_add W g (Some m) p =
  Some (mset (mset m p (MShard (merged_shards W g p))) (norm_path (removelast p))
             (MCont (EDict ord (ks ++ [KStr (elastic_key_gen (last p []))])))).
Proof.
  intros W g m p ord ks H1 H2. unfold elastic_add, elastic_add_with. rewrite H1. cbv zeta. rewrite H2. reflexivity.
Qed.
