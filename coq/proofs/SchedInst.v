(* Instantiation obligations: what the proofs need to know about the guards and updates that the translator
   generated from scheduler.py (coq/gen/SchedGen.v).  Everything else in SchedProofs.v depends only on
   these lemmas.  If an edit to scheduler.py changes the meaning of a guard, a lemma here stops checking. *)
From TS Require Import model.Base gen.SchedGen.
From Coq Require Import ZifyBool.

(* --- write pipeline ------------------------------------------------------ *)
Lemma stage_admit_sound a b c cost rem :
  gen_stage_admit a b c cost rem = true -> a + b + c = 0 \/ cost <= rem.
Proof. unfold gen_stage_admit. lia. Qed.

Lemma stage_admit_when_idle a b c cost rem :
  a + b + c = 0 -> gen_stage_admit a b c cost rem = true.
Proof. unfold gen_stage_admit. lia. Qed.

Lemma stage_admit_rem_eq rem cost : gen_stage_admit_rem rem cost = rem - cost.
Proof. unfold gen_stage_admit_rem. lia. Qed.

Lemma stage_done_rem_eq rem cost bsz : gen_stage_done_rem rem cost bsz = rem + cost - bsz.
Proof. unfold gen_stage_done_rem. lia. Qed.

Lemma io_done_rem_eq rem bsz : gen_io_done_rem rem bsz = rem + bsz.
Proof. unfold gen_io_done_rem. lia. Qed.

Lemma io_full_iff n K : gen_io_full n K = true <-> K <= n.
Proof. unfold gen_io_full. lia. Qed.

Lemma io_full_false n K : gen_io_full n K = false -> n < K.
Proof. unfold gen_io_full. lia. Qed.

Lemma after_completion_dispatches_io : In DIo gen_write_after_completion.
Proof. vm_compute. tauto. Qed.

Lemma after_completion_dispatches_staging : In DStaging gen_write_after_completion.
Proof. vm_compute. tauto. Qed.

Lemma phase1_exit_iff a b : 0 <= a -> 0 <= b -> (gen_write_phase1_continue a b = false <-> a = 0 /\ b = 0).
Proof. unfold gen_write_phase1_continue. lia. Qed.

(* --- PendingIOWork.complete is the same transition once nothing is left to stage *)
Lemma complete_io_done_rem_eq rem bsz : gen_complete_io_done_rem rem bsz = gen_io_done_rem rem bsz.
Proof. unfold gen_complete_io_done_rem, gen_io_done_rem. lia. Qed.

Lemma complete_io_full_eq n K : gen_complete_io_full n K = gen_io_full n K.
Proof. unfold gen_complete_io_full, gen_io_full. reflexivity. Qed.

Lemma phase2_exit_iff a b : 0 <= a -> 0 <= b -> (gen_write_phase2_continue a b = false <-> a = 0 /\ b = 0).
Proof. unfold gen_write_phase2_continue. lia. Qed.

(* --- read pipeline -------------------------------------------------------- *)
Lemma read_admit_sound a c cost rem :
  gen_read_admit a c cost rem = true -> a + c = 0 \/ cost <= rem.
Proof. unfold gen_read_admit. lia. Qed.

Lemma read_admit_when_idle a c cost rem : a + c = 0 -> gen_read_admit a c cost rem = true.
Proof. unfold gen_read_admit. lia. Qed.

Lemma read_admit_rem_eq rem cost : gen_read_admit_rem rem cost = rem - cost.
Proof. unfold gen_read_admit_rem. lia. Qed.

Lemma read_done_rem_eq rem cost : gen_read_done_rem rem cost = rem + cost.
Proof. unfold gen_read_done_rem. lia. Qed.

Lemma read_full_iff n K : gen_read_full n K = true <-> K <= n.
Proof. unfold gen_read_full. lia. Qed.

Lemma read_exit_iff a b c : 0 <= a -> 0 <= b -> 0 <= c ->
  (gen_read_continue a b c = false <-> a = 0 /\ b = 0 /\ c = 0).
Proof. unfold gen_read_continue. lia. Qed.

(* --- automatic budget ----------------------------------------------------- *)
Lemma auto_budget_eq avail lws cap : gen_auto_budget avail lws cap = Z.min (avail / lws) cap.
Proof. unfold gen_auto_budget. reflexivity. Qed.

Lemma multiplier_is_fraction : 0 < gen_multiplier_num <= gen_multiplier_den.
Proof. vm_compute. split; [reflexivity | discriminate]. Qed.

Lemma budget_cap_positive : 0 < gen_budget_cap.
Proof. vm_compute. reflexivity. Qed.

Lemma override_verbatim v : gen_override_budget v = v.
Proof. reflexivity. Qed.

Lemma after_completion_order : gen_write_after_completion = [DIo; DStaging].
Proof. reflexivity. Qed.
