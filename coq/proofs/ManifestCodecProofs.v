(* C14 layer 3: from_yaml_obj inverts dataclasses.asdict for every entry kind (up to `readable`). *)
From TS Require Import model.Base model.Codec model.Json model.ManifestCodec proofs.CodecProofs proofs.JsonProofs.

Lemma mapM_map {A B} (f : A -> option B) (g : B -> A) :
  (forall x, f (g x) = Some x) -> forall l, mapM f (map g l) = Some l.
Proof.
  intros H. induction l as [|x l IH]; [reflexivity|].
  cbn [map mapM]. rewrite H. cbn [bind]. rewrite IH. reflexivity.
Qed.

Lemma get_ints_j : forall l, get_ints (j_ints l) = Some l.
Proof. intros l. unfold get_ints, j_ints. cbn [get_arr bind]. apply mapM_map. reflexivity. Qed.

Lemma get_opt_ints_j : forall o, get_opt_ints (Some (j_opt_ints o)) = Some o.
Proof.
  intros [l|]; [|reflexivity]. unfold j_opt_ints.
  change (get_opt_ints (Some (j_ints l))) with (bind (get_ints (j_ints l)) (fun l0 => Some (Some l0))).
  rewrite get_ints_j. reflexivity.
Qed.

Lemma get_key_j : forall k, get_key (j_key k) = Some k.
Proof. destruct k; reflexivity. Qed.

Lemma keys_of_yaml_j : forall ks, keys_of_yaml (JArr (map j_key ks)) = Some ks.
Proof. intros ks. unfold keys_of_yaml. cbn [get_arr bind]. apply mapM_map. exact get_key_j. Qed.

Lemma dim_map_of_yaml_j : forall dm, dim_map_of_yaml (JArr (map j_ints dm)) = Some dm.
Proof. intros dm. unfold dim_map_of_yaml. cbn [get_arr bind]. apply mapM_map. exact get_ints_j. Qed.

Opaque get_ints j_ints get_opt_ints j_opt_ints.

Lemma tensor_of_yaml_j : forall t, tensor_of_yaml (j_tensor t) = Some t.
Proof.
  intros [loc ser dt shp r br]. unfold tensor_of_yaml, j_tensor.
  cbn -[get_ints j_ints get_opt_ints j_opt_ints].
  rewrite get_ints_j. cbn -[get_opt_ints j_opt_ints]. rewrite get_opt_ints_j. reflexivity.
Qed.

Opaque tensor_of_yaml j_tensor.

Lemma shard_of_yaml_j : forall s, shard_of_yaml (j_shard s) = Some s.
Proof.
  intros [offs szs t]. unfold shard_of_yaml, j_shard.
  cbn -[get_ints j_ints tensor_of_yaml j_tensor].
  rewrite !get_ints_j. cbn -[tensor_of_yaml j_tensor]. rewrite tensor_of_yaml_j. reflexivity.
Qed.

Lemma shards_of_yaml_j : forall l, shards_of_yaml (JArr (map j_shard l)) = Some l.
Proof. intros l. unfold shards_of_yaml. cbn [get_arr bind]. apply mapM_map. exact shard_of_yaml_j. Qed.

(* nested induction for NestedList *)
Fixpoint mesh_ind' (P : mesh -> Prop) (HI : forall z, P (MInt z)) (HL : forall l, Forall P l -> P (MList l))
  (m : mesh) : P m :=
  match m with
  | MInt z => HI z
  | MList l => HL l ((fix go (l : list mesh) : Forall P l :=
                        match l with
                        | [] => Forall_nil P
                        | x :: xs => Forall_cons x (mesh_ind' P HI HL x) (go xs)
                        end) l)
  end.

Lemma mesh_of_yaml_j : forall m, mesh_of_yaml (j_mesh m) = Some m.
Proof.
  induction m as [z | l IH] using mesh_ind'; [reflexivity|].
  cbn [j_mesh mesh_of_yaml].
  match goal with |- match ?X with _ => _ end = _ => assert (HX : X = Some l) end.
  { induction l as [|x xs IHl]; [reflexivity|].
    inversion IH as [|? ? Hx Hxs]; subst. rewrite Hx. rewrite (IHl Hxs). reflexivity. }
  rewrite HX. reflexivity.
Qed.

Opaque shards_of_yaml keys_of_yaml dim_map_of_yaml mesh_of_yaml j_mesh.

(* Layer 3: every entry kind, every field value *)
Theorem entry_of_yaml_of_entry : forall e, entry_of_yaml (yaml_of_entry e) = Some (drop_readable e).
Proof.
  intros [ | ks | ks | k sv r rd | t | shs | dt shp chs r | shs m dm | loc ser ot r].
  - reflexivity.
  - unfold entry_of_yaml, yaml_of_entry. cbn -[keys_of_yaml]. rewrite keys_of_yaml_j. reflexivity.
  - unfold entry_of_yaml, yaml_of_entry. cbn -[keys_of_yaml]. rewrite keys_of_yaml_j. reflexivity.
  - destruct k; reflexivity.
  - destruct t as [loc ser dt shp r br]. Transparent j_tensor. unfold entry_of_yaml, yaml_of_entry, j_tensor. Opaque j_tensor.
    cbn -[tensor_of_yaml get_ints j_ints get_opt_ints j_opt_ints].
    change (JObj _) with (j_tensor (mkTensor loc ser dt shp r br)). rewrite tensor_of_yaml_j. reflexivity.
  - unfold entry_of_yaml, yaml_of_entry. cbn -[shards_of_yaml]. rewrite shards_of_yaml_j. reflexivity.
  - unfold entry_of_yaml, yaml_of_entry. cbn -[shards_of_yaml get_ints j_ints].
    rewrite get_ints_j. cbn -[shards_of_yaml]. rewrite shards_of_yaml_j. reflexivity.
  - unfold entry_of_yaml, yaml_of_entry. cbn -[shards_of_yaml mesh_of_yaml j_mesh dim_map_of_yaml j_ints].
    rewrite shards_of_yaml_j. cbn -[mesh_of_yaml j_mesh dim_map_of_yaml j_ints]. rewrite mesh_of_yaml_j.
    cbn -[dim_map_of_yaml j_ints]. rewrite dim_map_of_yaml_j. reflexivity.
  - reflexivity.
Qed.

(* get_value does not look at `readable` *)
Theorem get_value_preserved : forall e e', entry_of_yaml (yaml_of_entry e) = Some e' ->
  entry_get_value e' = entry_get_value e.
Proof.
  intros e e' H. rewrite entry_of_yaml_of_entry in H. inversion H; subst. destruct e; reflexivity.
Qed.

(* value -> from_object -> asdict -> from_yaml_obj -> get_value *)
Theorem from_object_get_value : forall v repr e', pvalue_ok v ->
  entry_of_yaml (yaml_of_entry (from_object v repr)) = Some e' -> entry_get_value e' = Some v.
Proof.
  intros v repr e' Hv H. rewrite (get_value_preserved _ _ H). unfold from_object, entry_get_value.
  apply get_value_serialize. exact Hv.
Qed.

(* the dispatch loop sees a known type name on everything asdict produced *)
Lemma yaml_of_entry_shape : forall e, exists f t,
  yaml_of_entry e = JObj f /\ lookup s_type f = Some t /\ type_known t = true.
Proof.
  intros [ | ks | ks | k sv r rd | t | shs | dt shp chs r | shs m dm | loc ser ot r];
    try (eexists; eexists; split; [reflexivity | split; reflexivity]).
  - destruct k; eexists; eexists; (split; [reflexivity | split; reflexivity]).
  - Transparent j_tensor. eexists; eexists; split; [reflexivity | split; reflexivity].
Qed.

Lemma manifest_of_yaml_j : forall l,
  manifest_of_yaml (map (fun pe => (fst pe, yaml_of_entry (snd pe))) l)
  = Some (map (fun pe => (fst pe, drop_readable (snd pe))) l).
Proof.
  induction l as [|[p e] l IH]; [reflexivity|].
  cbn [map fst snd manifest_of_yaml].
  destruct (yaml_of_entry_shape e) as (f & t & Hf & Ht & Hk).
  assert (Hg : get_obj (yaml_of_entry e) = Some f) by (rewrite Hf; reflexivity).
  rewrite Hg. cbn [bind]. rewrite Ht. cbn [bind]. rewrite Hk.
  rewrite entry_of_yaml_of_entry. cbn [bind]. rewrite IH. reflexivity.
Qed.

Theorem md_of_yaml_of_md : forall md, md_of_yaml (yaml_of_md md) = Some (drop_readable_md md).
Proof.
  intros [ver ws man]. unfold md_of_yaml, yaml_of_md.
  cbn -[manifest_of_yaml]. rewrite manifest_of_yaml_j. reflexivity.
Qed.

(* ================================================================== well-formedness of what asdict produces *)
Transparent get_ints j_ints get_opt_ints j_opt_ints tensor_of_yaml j_tensor shards_of_yaml keys_of_yaml
  dim_map_of_yaml mesh_of_yaml j_mesh.

Lemma wf_j_obj_eq : forall l,
  wf_j (JObj l) = nodup_str (map fst l) && forallb (fun kv => str_ok (fst kv) && wf_j (snd kv)) l.
Proof.
  intros l. cbn [wf_j]. f_equal. induction l as [|[k x] xs IH]; [reflexivity|].
  cbn [forallb fst snd]. rewrite IH. reflexivity.
Qed.

Lemma wf_j_arr_map : forall (A : Type) (f : A -> jvalue) l,
  wf_j (JArr (map f l)) = forallb (fun x => wf_j (f x)) l.
Proof.
  intros A f l. induction l as [|x xs IH]; [reflexivity|].
  cbn [map forallb]. rewrite <- IH. reflexivity.
Qed.

Ltac andb_split := repeat match goal with |- (_ && _) = true => apply andb_true_intro; split end.
Ltac andb_hyp H :=
  repeat match type of H with
         | (_ && _) = true => let H1 := fresh H in apply andb_true_iff in H; destruct H as [H1 H]
         end.

Lemma wf_j_ints : forall l, wf_j (j_ints l) = true.
Proof. intros l. unfold j_ints. rewrite wf_j_arr_map. apply forallb_forall. reflexivity. Qed.

Lemma wf_j_opt_ints : forall o, wf_j (j_opt_ints o) = true.
Proof. intros [l|]; [apply wf_j_ints | reflexivity]. Qed.

Lemma forallb_app_true : forall (A : Type) (p : A -> bool) a b, forallb p (a ++ b) = true -> forallb p a = true /\ forallb p b = true.
Proof. intros A p a b H. rewrite forallb_app in H. apply andb_true_iff in H. exact H. Qed.

Lemma wf_j_tensor : forall t, forallb str_ok (tensor_strs t) = true -> wf_j (j_tensor t) = true.
Proof.
  intros [loc ser dt shp r br] H. unfold tensor_strs in H. cbn [forallb t_location t_serializer t_dtype] in H.
  andb_hyp H. unfold j_tensor. rewrite wf_j_obj_eq.
  cbn [map fst snd forallb t_location t_serializer t_dtype t_shape t_replicated t_byte_range].
  andb_split; try reflexivity; try assumption; auto using wf_j_ints, wf_j_opt_ints.
Qed.

Lemma wf_j_shard : forall s, forallb str_ok (shard_strs s) = true -> wf_j (j_shard s) = true.
Proof.
  intros [offs szs t] H. unfold shard_strs in H. cbn [sh_tensor] in H.
  unfold j_shard. rewrite wf_j_obj_eq. cbn [map fst snd forallb sh_offsets sh_sizes sh_tensor].
  andb_split; try reflexivity; auto using wf_j_ints, wf_j_tensor.
Qed.

Lemma wf_j_shards : forall l, forallb str_ok (flat_map shard_strs l) = true -> wf_j (JArr (map j_shard l)) = true.
Proof.
  intros l H. rewrite wf_j_arr_map. induction l as [|s l IH]; [reflexivity|].
  cbn [flat_map] in H. apply forallb_app_true in H. destruct H as [H1 H2].
  cbn [forallb]. rewrite wf_j_shard by assumption. apply IH. exact H2.
Qed.

Lemma wf_j_keys : forall ks, forallb str_ok (flat_map key_strs ks) = true -> wf_j (JArr (map j_key ks)) = true.
Proof.
  intros l H. rewrite wf_j_arr_map. induction l as [|k l IH]; [reflexivity|].
  cbn [flat_map] in H. apply forallb_app_true in H. destruct H as [H1 H2].
  cbn [forallb]. rewrite IH by assumption. rewrite andb_true_r.
  destruct k as [z|s|b]; try reflexivity. cbn [key_strs forallb] in H1. andb_hyp H1. exact H0.
Qed.

Lemma wf_j_mesh : forall m, wf_j (j_mesh m) = true.
Proof.
  induction m as [z | l IH] using mesh_ind'; [reflexivity|].
  cbn [j_mesh wf_j]. induction l as [|x xs IHl]; [reflexivity|].
  inversion IH as [|? ? Hx Hxs]; subst. rewrite Hx. apply IHl. exact Hxs.
Qed.

Lemma wf_j_dim_map : forall dm, wf_j (JArr (map j_ints dm)) = true.
Proof. intros dm. rewrite wf_j_arr_map. apply forallb_forall. intros x _. apply wf_j_ints. Qed.

Lemma wf_j_entry : forall e, entry_ok e = true -> wf_j (yaml_of_entry e) = true.
Proof.
  unfold entry_ok.
  intros [ | ks | ks | k sv r rd | t | shs | dt shp chs r | shs m dm | loc ser ot r] H; cbn [entry_strs] in H.
  - reflexivity.
  - unfold yaml_of_entry. rewrite wf_j_obj_eq. cbn [map fst snd forallb].
    andb_split; try reflexivity. apply wf_j_keys. exact H.
  - unfold yaml_of_entry. rewrite wf_j_obj_eq. cbn [map fst snd forallb].
    andb_split; try reflexivity. apply wf_j_keys. exact H.
  - cbn [forallb] in H. apply andb_true_iff in H. destruct H as [H1 H2].
    unfold yaml_of_entry. rewrite wf_j_obj_eq. cbn [map fst snd forallb].
    andb_split; try reflexivity; try assumption.
    + destruct k; reflexivity.
    + destruct rd as [s|]; [|reflexivity]. cbn [forallb] in H2. andb_hyp H2. exact H0.
  - apply wf_j_tensor. exact H.
  - unfold yaml_of_entry. rewrite wf_j_obj_eq. cbn [map fst snd forallb].
    andb_split; try reflexivity. apply wf_j_shards. exact H.
  - cbn [forallb] in H. apply andb_true_iff in H. destruct H as [H1 H2].
    unfold yaml_of_entry. rewrite wf_j_obj_eq. cbn [map fst snd forallb].
    andb_split; try reflexivity; try assumption; auto using wf_j_ints, wf_j_shards.
  - unfold yaml_of_entry. rewrite wf_j_obj_eq. cbn [map fst snd forallb].
    andb_split; try reflexivity; auto using wf_j_shards, wf_j_mesh, wf_j_dim_map.
  - cbn [forallb] in H. andb_hyp H.
    unfold yaml_of_entry. rewrite wf_j_obj_eq. cbn [map fst snd forallb].
    andb_split; try reflexivity; assumption.
Qed.

Lemma forallb_map' : forall (A B : Type) (p : B -> bool) (f : A -> B) l,
  forallb p (map f l) = forallb (fun x => p (f x)) l.
Proof. intros A B p f l. induction l as [|x xs IH]; [reflexivity|]. cbn [map forallb]. rewrite IH. reflexivity. Qed.

Lemma wf_j_md : forall md, md_ok md = true -> wf_j (yaml_of_md md) = true.
Proof.
  intros [ver ws man] H. unfold md_ok in H. cbn [md_version md_manifest] in H.
  apply andb_true_iff in H. destruct H as [H H3]. apply andb_true_iff in H. destruct H as [H1 H2].
  unfold yaml_of_md. rewrite wf_j_obj_eq. cbn [map fst snd forallb md_version md_world_size md_manifest].
  andb_split; try reflexivity; try assumption.
  rewrite wf_j_obj_eq. rewrite map_map. cbn [fst]. andb_split.
  - erewrite map_ext; [exact H2|]. intros [p e]; reflexivity.
  - rewrite forallb_map'. cbn [fst snd].
    apply forallb_forall. intros [p e] Hin. rewrite forallb_forall in H3. specialize (H3 _ Hin). cbn [fst snd] in *.
    apply andb_true_iff in H3. destruct H3 as [Hp He]. rewrite Hp. rewrite wf_j_entry by assumption. reflexivity.
Qed.

(* Layer 6: SnapshotMetadata.from_yaml (to_yaml md) = md up to `readable`, whatever the YAML fallback does *)
Theorem metadata_roundtrip : forall (yaml_oracle : list Z -> option metadata) md, md_ok md = true ->
  from_yaml yaml_oracle (to_yaml md) = Some (drop_readable_md md).
Proof.
  intros yaml_oracle md H. unfold from_yaml, to_yaml.
  rewrite parse_print by (apply wf_j_md; exact H). apply md_of_yaml_of_md.
Qed.

(* the text is also injective on well-formed metadata up to `readable` (no two manifests share a document) *)
Corollary to_yaml_injective : forall md1 md2, md_ok md1 = true -> md_ok md2 = true ->
  to_yaml md1 = to_yaml md2 -> drop_readable_md md1 = drop_readable_md md2.
Proof.
  intros md1 md2 H1 H2 E.
  pose proof (metadata_roundtrip (fun _ => None) md1 H1) as R1.
  pose proof (metadata_roundtrip (fun _ => None) md2 H2) as R2.
  rewrite E in R1. congruence.
Qed.

(* ================================================================== truncated documents
   SnapshotMetadata.from_yaml falls back to the legacy YAML loader when json.loads raises.  The loader is not
   modelled: it is a Section variable, and the only thing assumed about it is that it rejects strict prefixes of
   printed metadata (tested by the harness on every prefix it samples). *)
Section YamlFallback.
  Variable yaml_oracle : list Z -> option metadata.
  Hypothesis yaml_rejects : forall md p, md_ok md = true -> sprefix p (to_yaml md) -> yaml_oracle p = None.

  Theorem from_yaml_rejects_strict_prefix : forall md p,
    md_ok md = true -> sprefix p (to_yaml md) -> from_yaml yaml_oracle p = None.
  Proof.
    intros md p Hok Hp. unfold from_yaml.
    rewrite (strict_prefix_rejected (yaml_of_md md) p).
    - apply (yaml_rejects md p Hok Hp).
    - apply wf_j_md. exact Hok.
    - intros z. unfold yaml_of_md. discriminate.
    - exact Hp.
  Qed.
End YamlFallback.
