(* C01: per-run obligations over gen/GlueGen.v (translator/gen_glue.py): the glue of snapshot.py as it is in the source now
   wires flatten / prepare_write / the partitioner / the batchers / the manifest view / prepare_read / inflate /
   load_state_dict together such that take followed by restore hands every stateful the state dict its state_dict()
   returned; the manifest lists every leaf and container once; read_object finds the leaf stored for a path.
   The components are used through the laws stated as section hypotheses (each named after the property that proves
   it); [world1] (model/GlueGenObs.v) satisfies all of them. *)
From TS Require Import model.Base model.Flatten model.FlattenPy model.StoragePath gen.FlattenGen gen.FlattenRecGen
  model.FlattenGenObs model.Dispatch gen.DispatchGen model.Glue gen.GlueGen model.GlueGenObs
  proofs.FlattenProofs proofs.FlattenInst proofs.InflatePieces proofs.FlattenRecInst proofs.InflateInst
  proofs.StoragePathProofs proofs.DispatchInst.
From Coq Require Import Permutation.

(* ================================================================== generic *)
Lemma py_for_fold : forall {S X} (l : list X) (body : S -> X -> option S) (f : S -> X -> S) st,
  (forall st x, In x l -> body st x = Some (f st x)) -> py_for l st body = Some (fold_left f l st).
Proof.
  intros S X l body f. induction l as [|x l IH]; intros st H; [reflexivity|].
  cbn [py_for fold_left]. rewrite (H st x (or_introl eq_refl)). apply IH. intros st' y Hy. apply H. right. exact Hy.
Qed.

Lemma if_some : forall {A} (c : bool) (a b : A), (if c then Some a else Some b) = Some (if c then a else b).
Proof. intros A c a b. destruct c; reflexivity. Qed.

Lemma sdict_update_nil : forall {V} (d : sdict V), sdict_update d [] = d.
Proof. reflexivity. Qed.

Lemma in_sdict_keys : forall {V} (d : sdict V) k v, In (k, v) d -> In k (map fst d).
Proof. intros V d k v H. apply (in_map fst) in H. exact H. Qed.

Lemma NoDup_keys_eq : forall {V} (d : sdict V) p a b, NoDup (map fst d) -> In (p, a) d -> In (p, b) d -> a = b.
Proof.
  intros V d p a b N Ha Hb. apply (sdict_get_in p a d N) in Ha. apply (sdict_get_in p b d N) in Hb. congruence.
Qed.

Lemma sdict_mem_in : forall {V} k (d : sdict V), sdict_mem k d = true <-> In k (map fst d).
Proof.
  intros V k d. unfold sdict_mem. destruct (sdict_get k d) eqn:E.
  - split; [intros _|reflexivity]. apply sdict_get_some_in in E. exact (in_sdict_keys _ _ _ E).
  - split; [discriminate|]. intro H. apply sdict_get_none in E. contradiction.
Qed.

Lemma sdict_mem_false : forall {V} k (d : sdict V), sdict_mem k d = false <-> ~ In k (map fst d).
Proof.
  intros V k d. split; intro H.
  - intro K. apply sdict_mem_in in K. congruence.
  - destruct (sdict_mem k d) eqn:E; [|reflexivity]. apply sdict_mem_in in E. contradiction.
Qed.

Lemma sdict_del_present : forall {V} k (d : sdict V), In k (map fst d) -> exists d', sdict_del k d = Some d'.
Proof.
  intros V k d. induction d as [|[k' v] d IH]; cbn [map In fst sdict_del]; intro H; [contradiction|].
  destruct (str_eqb k' k) eqn:E; [eexists; reflexivity|].
  destruct H as [H|H]; [subst; rewrite str_eqb_refl in E; discriminate|].
  destruct (IH H) as [d' Hd]. rewrite Hd. eexists. reflexivity.
Qed.

(* a fold of dict.update over blocks whose keys are pairwise distinct is concatenation *)
Lemma fold_update_blocks : forall {V} (B : pystr -> sdict V) (l : list pystr) (d : sdict V),
  NoDup (map fst (d ++ concat (map B l))) ->
  fold_left (fun d k => sdict_update d (B k)) l d = d ++ concat (map B l).
Proof.
  intros V B l. induction l as [|k l IH]; intros d N; cbn [fold_left map concat].
  - rewrite app_nil_r. reflexivity.
  - cbn [map concat] in N. rewrite app_assoc in N.
    rewrite sdict_update_nodup.
    + rewrite IH; [rewrite app_assoc; reflexivity | exact N].
    + rewrite map_app in N. apply NoDup_app_l in N. exact N.
Qed.

Lemma NoDup_app_intro : forall {A} (a b : list A), NoDup a -> NoDup b -> (forall x, In x a -> In x b -> False) -> NoDup (a ++ b).
Proof.
  intros A a b Na Nb D. induction a as [|x a IH]; [exact Nb|]. cbn [app]. inversion Na as [|? ? Hx Na']; subst.
  constructor.
  - intro H. apply in_app_or in H. destruct H as [H|H]; [contradiction | exact (D x (or_introl eq_refl) H)].
  - apply IH; [exact Na'|]. intros y Hy. apply D. right. exact Hy.
Qed.

Lemma NoDup_concat_blocks : forall {X A} (B : X -> list A) (l : list X),
  NoDup l -> (forall k, In k l -> NoDup (B k)) ->
  (forall k k' x, In k l -> In k' l -> In x (B k) -> In x (B k') -> k = k') ->
  NoDup (concat (map B l)).
Proof.
  intros X A B l. induction l as [|k l IH]; intros N H1 H2; cbn [map concat]; [constructor|].
  inversion N as [|? ? Hk N']; subst. apply NoDup_app_intro.
  - apply H1. left. reflexivity.
  - apply IH; [exact N' | intros; apply H1; right; assumption | intros k1 k2 x a b; apply H2; right; assumption].
  - intros x Hx Hc. apply in_concat in Hc. destruct Hc as [blk [Hb Hxb]]. apply in_map_iff in Hb. destruct Hb as [k' [E Hk']].
    subst blk. assert (k = k') by (apply (H2 k k' x); [left; reflexivity | right; exact Hk' | exact Hx | exact Hxb]).
    subst k'. contradiction.
Qed.

(* ---- sorted(set(..)) *)
Lemma dedup_in : forall x l, In x (dedup l) <-> In x l.
Proof.
  intros x l. induction l as [|y l IH]; cbn [dedup]; [tauto|].
  destruct (str_memb y l) eqn:E.
  - rewrite IH. cbn [In]. split; [tauto|]. intros [H|H]; [subst; apply str_memb_in; exact E | exact H].
  - cbn [In]. rewrite IH. tauto.
Qed.

Lemma dedup_NoDup : forall l, NoDup (dedup l).
Proof.
  induction l as [|y l IH]; cbn [dedup]; [constructor|].
  destruct (str_memb y l) eqn:E; [exact IH|]. constructor; [|exact IH].
  intro H. apply (proj1 (dedup_in y l)) in H. apply (proj2 (str_memb_in y l)) in H. rewrite H in E. discriminate E.
Qed.

Lemma insert_str_perm : forall {X} (x : pystr * X) l, Permutation (insert_str x l) (x :: l).
Proof.
  intros X x l. induction l as [|y l IH]; cbn [insert_str]; [apply Permutation_refl|].
  destruct (str_ltb (fst y) (fst x)); [|apply Permutation_refl].
  apply (perm_trans (l' := y :: x :: l)); [apply perm_skip, IH | apply perm_swap].
Qed.

Lemma py_sorted_str_perm : forall {X} (f : X -> pystr) l, Permutation (py_sorted_str f l) l.
Proof.
  intros X f l. unfold py_sorted_str.
  assert (P : Permutation (fold_right insert_str [] (map (fun x => (f x, x)) l)) (map (fun x => (f x, x)) l)).
  { induction l as [|x l IH]; cbn [map fold_right]; [constructor|].
    apply (perm_trans (insert_str_perm _ _)). apply perm_skip. exact IH. }
  apply (Permutation_map snd) in P. rewrite map_map in P. cbn [snd] in P. rewrite map_id in P. exact P.
Qed.

(* ================================================================== _pop_rng_state, _gather_keys *)
Definition no_rng (A : sdict stateful) : Prop := forall k s, In (k, s) A -> sf_is_rng s = false.

Lemma flat_map_nil_all : forall {A B} (f : A -> list B) l, (forall x, In x l -> f x = []) -> flat_map f l = [].
Proof.
  intros A B f l H. induction l as [|x l IH]; [reflexivity|]. cbn [flat_map]. rewrite (H x (or_introl eq_refl)).
  apply IH. intros y Hy. apply H. right. exact Hy.
Qed.

Lemma pop_rng_state_none : forall W A, no_rng A -> pop_rng_state_gen W A = Some (None, A).
Proof.
  intros W A H. unfold pop_rng_state_gen. cbv zeta. rewrite flat_map_nil_all; [reflexivity|].
  intros [k s] Hin. cbn [fst snd]. rewrite (H k s Hin). reflexivity.
Qed.

(* ---- at most one RNGState: _pop_rng_state returns it and removes it from the copy of app_state *)
Definition is_rng_item (kv : pystr * stateful) : bool := sf_is_rng (snd kv).
Definition rng_item (A : sdict stateful) : option (pystr * stateful) := hd_error (filter is_rng_item A).
Definition non_rng (A : sdict stateful) : sdict stateful := filter (fun kv => negb (is_rng_item kv)) A.
Definition rng_at_most_one (A : sdict stateful) : Prop :=
  forall k s k' s', In (k, s) A -> In (k', s') A -> sf_is_rng s = true -> sf_is_rng s' = true -> k = k'.

Lemma filter_none_id : forall {X} (f : X -> bool) l, filter f l = [] -> filter (fun x => negb (f x)) l = l.
Proof.
  intros X f l. induction l as [|x l IH]; cbn [filter]; intro H; [reflexivity|].
  destruct (f x); [discriminate|]. cbn [negb]. rewrite IH; [reflexivity | exact H].
Qed.

Lemma rng_filter_short : forall A, NoDup (map fst A) -> rng_at_most_one A ->
  filter is_rng_item A = [] \/ exists k s, filter is_rng_item A = [(k, s)].
Proof.
  intros A. induction A as [|[k s] A IH]; intros N U; [left; reflexivity|]. cbn [filter].
  change (is_rng_item (k, s)) with (sf_is_rng s).
  cbn [map fst] in N. inversion N as [|? ? Hk N']; subst.
  assert (U' : rng_at_most_one A) by (intros a b c d H1 H2; apply U; right; assumption).
  destruct (sf_is_rng s) eqn:R; [|exact (IH N' U')].
  right. exists k, s. f_equal. destruct (filter is_rng_item A) as [|[k' s'] r] eqn:F; [reflexivity|].
  exfalso. assert (Hin : In (k', s') (filter is_rng_item A)) by (rewrite F; left; reflexivity).
  apply filter_In in Hin. destruct Hin as [Hin Hr]. unfold is_rng_item in Hr. cbn [snd] in Hr.
  assert (k = k') by (apply (U k s k' s'); [left; reflexivity | right; exact Hin | exact R | exact Hr]).
  subst k'. apply Hk. exact (in_sdict_keys _ _ _ Hin).
Qed.

Lemma sdict_del_rng : forall A k s, NoDup (map fst A) -> filter is_rng_item A = [(k, s)] -> sdict_del k A = Some (non_rng A).
Proof.
  intros A k s. induction A as [|[k' s'] A IH]; intros N F; [discriminate|].
  cbn [filter] in F. change (is_rng_item (k', s')) with (sf_is_rng s') in F. cbn [map fst] in N. inversion N as [|? ? Hk N']; subst.
  unfold non_rng. cbn [filter sdict_del]. change (is_rng_item (k', s')) with (sf_is_rng s').
  destruct (sf_is_rng s') eqn:R.
  - inversion F; subst. rewrite str_eqb_refl. cbn [negb]. rewrite (filter_none_id is_rng_item A H2). reflexivity.
  - cbn [negb]. assert (Hin : In (k, s) A).
    { assert (H : In (k, s) (filter is_rng_item A)) by (rewrite F; left; reflexivity). apply filter_In in H. exact (proj1 H). }
    destruct (str_eqb k' k) eqn:E; [apply str_eqb_eq in E; subst; exfalso; apply Hk; exact (in_sdict_keys _ _ _ Hin)|].
    fold (non_rng A). rewrite (IH N' F). reflexivity.
Qed.

Lemma pop_rng_state_spec : forall W A, NoDup (map fst A) -> rng_at_most_one A ->
  pop_rng_state_gen W A = Some (rng_item A, non_rng A).
Proof.
  intros W A N U. unfold pop_rng_state_gen. cbv zeta.
  assert (E : flat_map (fun it : pystr * stateful => if sf_is_rng (snd it) then [(fst it, snd it)] else []) (sdict_items A) = filter is_rng_item A).
  { unfold sdict_items. clear N U. induction A as [|[k s] A IH]; [reflexivity|]. cbn [flat_map filter fst snd]. change (is_rng_item (k, s)) with (sf_is_rng s).
    rewrite IH. destruct (sf_is_rng s); reflexivity. }
  rewrite E. unfold rng_item, non_rng. destruct (rng_filter_short A N U) as [F|[k [s F]]]; rewrite F.
  - cbn. rewrite (filter_none_id is_rng_item A F). reflexivity.
  - cbn [sdict_of_list sdict_update fold_left fst snd sdict_set length Z.of_nat]. change (Z.of_nat 1 >? 1) with false. change (Z.of_nat 1 =? 1) with true.
    cbv beta iota. unfold sdict_items. cbn [py_index0 obind fst snd hd_error]. rewrite (sdict_del_rng A k s N F). reflexivity.
Qed.

Lemma non_rng_in : forall A k s, In (k, s) (non_rng A) <-> In (k, s) A /\ sf_is_rng s = false.
Proof.
  intros A k s. unfold non_rng. rewrite filter_In. unfold is_rng_item. cbn [snd]. destruct (sf_is_rng s); cbn [negb]; intuition discriminate.
Qed.

Lemma non_rng_no_rng : forall A, no_rng (non_rng A).
Proof. intros A k s H. apply non_rng_in in H. exact (proj2 H). Qed.

Lemma non_rng_nodup : forall A, NoDup (map fst A) -> NoDup (map fst (non_rng A)).
Proof. intros A N. unfold non_rng. apply NoDup_map_filter. exact N. Qed.

Lemma rng_item_in : forall A k s, rng_item A = Some (k, s) -> In (k, s) A /\ sf_is_rng s = true.
Proof.
  intros A k s H. unfold rng_item in H. destruct (filter is_rng_item A) as [|x r] eqn:F; [discriminate|]. cbn [hd_error] in H. inversion H; subst x.
  assert (Hin : In (k, s) (filter is_rng_item A)) by (rewrite F; left; reflexivity). apply filter_In in Hin. exact Hin.
Qed.

Lemma rng_item_none : forall A, rng_item A = None -> non_rng A = A.
Proof.
  intros A H. unfold rng_item in H. destruct (filter is_rng_item A) eqn:F; [|discriminate]. exact (filter_none_id is_rng_item A F).
Qed.

Section Keys.
  Variable W : world.
  Hypothesis C12_all_gather_has_own : forall (A : Type) (x : A), In x (w_all_gather W A x).

  Lemma gather_keys_spec : forall keys, exists gk, gather_keys_gen W keys = Some gk /\ NoDup gk /\ (forall k, In k keys -> In k gk).
  Proof.
    intro keys. unfold gather_keys_gen. eexists. split; [reflexivity|]. split.
    - apply (Permutation_NoDup (l := py_set (concat (w_all_gather W (list pystr) keys)))).
      + apply Permutation_sym, py_sorted_str_perm.
      + apply dedup_NoDup.
    - intros k Hk. apply (Permutation_in k (Permutation_sym (py_sorted_str_perm (fun s => s) _))).
      unfold py_set. apply dedup_in. apply in_concat. exists keys. split; [apply C12_all_gather_has_own | exact Hk].
  Qed.
End Keys.

(* ================================================================== the paths flatten produces *)
Lemma flatten_s_head : forall o k p,
  In p (map fst (fst (flatten_s o k)) ++ map fst (snd (flatten_s o k))) -> split_head p = encode k.
Proof.
  intros o k p H.
  assert (SJ : forall q, In q (all_paths o [encode k]) -> split_head (join q) = encode k).
  { intros q Hq. pose proof (split_join_path o k q Hq) as E. apply all_paths_prefix in Hq. destruct Hq as [r Er].
    unfold split_head. rewrite E, Er. reflexivity. }
  unfold flatten_s in H. cbn [fst snd] in H. rewrite !map_map in H. cbn [fst] in H.
  apply in_app_or in H. destruct H as [H|H]; apply in_map_iff in H; destruct H as [[q x] [E Hq]]; cbn [fst] in E; subst p; apply SJ.
  - exact (in_mpaths _ _ _ _ Hq).
  - exact (in_lpaths _ _ _ _ Hq).
Qed.

Definition blkM (A : sdict stateful) (k : pystr) : sdict mentry :=
  match sdict_get k A with Some s => lift_conts (fst (flatten_s (sf_state s) k)) | None => [] end.
Definition blkF (A : sdict stateful) (k : pystr) : sdict obj :=
  match sdict_get k A with Some s => snd (flatten_s (sf_state s) k) | None => [] end.

Lemma map_fst_lift_conts : forall m, map fst (lift_conts m) = map fst m.
Proof. intro m. unfold lift_conts. rewrite map_map. reflexivity. Qed.

Lemma blk_heads : forall A k p, In p (map fst (blkM A k) ++ map fst (blkF A k)) -> split_head p = encode k.
Proof.
  intros A k p. unfold blkM, blkF. destruct (sdict_get k A) as [s|]; [|intros []].
  rewrite map_fst_lift_conts. apply flatten_s_head.
Qed.

Lemma blk_nodup : forall A k, NoDup (map fst (blkM A k) ++ map fst (blkF A k)).
Proof.
  intros A k. unfold blkM, blkF. destruct (sdict_get k A) as [s|]; [|constructor].
  rewrite map_fst_lift_conts. apply flatten_s_paths_nodup.
Qed.

Lemma map_fst_concat : forall {X K V} (B : X -> list (K * V)) l, map fst (concat (map B l)) = concat (map (fun k => map fst (B k)) l).
Proof. intros X K V B l. induction l as [|x l IH]; [reflexivity|]. cbn [map concat]. rewrite map_app, IH. reflexivity. Qed.

(* all paths of all statefuls (containers and leaves together) are pairwise distinct *)
Lemma all_blocks_nodup : forall A gk, NoDup gk ->
  NoDup (map fst (concat (map (blkM A) gk)) ++ map fst (concat (map (blkF A) gk))).
Proof.
  intros A gk N. rewrite (map_fst_concat (blkM A)), (map_fst_concat (blkF A)). apply NoDup_app_intro.
  - apply NoDup_concat_blocks; [exact N | intros k _; exact (NoDup_app_l _ _ (blk_nodup A k)) |].
    intros k k' x _ _ H1 H2. apply encode_inj. rewrite <- (blk_heads A k x), <- (blk_heads A k' x); [reflexivity | |]; apply in_or_app; left; assumption.
  - apply NoDup_concat_blocks; [exact N | intros k _; exact (NoDup_app_r _ _ (blk_nodup A k)) |].
    intros k k' x _ _ H1 H2. apply encode_inj. rewrite <- (blk_heads A k x), <- (blk_heads A k' x); [reflexivity | |]; apply in_or_app; right; assumption.
  - intros x H1 H2. apply in_concat in H1. destruct H1 as [b1 [Hb1 Hx1]]. apply in_map_iff in Hb1. destruct Hb1 as [k1 [E1 _]]. subst b1.
    apply in_concat in H2. destruct H2 as [b2 [Hb2 Hx2]]. apply in_map_iff in Hb2. destruct Hb2 as [k2 [E2 _]]. subst b2.
    assert (k1 = k2).
    { apply encode_inj. rewrite <- (blk_heads A k1 x), <- (blk_heads A k2 x); [reflexivity | |]; apply in_or_app; [right | left]; assumption. }
    subst k2. exact (NoDup_app_disjoint _ _ x (blk_nodup A k1) Hx1 Hx2).
Qed.

Lemma fold_left_pair : forall {X S T} (f : S -> X -> S) (g : T -> X -> T) l s t,
  fold_left (fun st x => (f (fst st) x, g (snd st) x)) l (s, t) = (fold_left f l s, fold_left g l t).
Proof. intros X S T f g l. induction l as [|x l IH]; intros s t; [reflexivity|]. cbn [fold_left fst snd]. apply IH. Qed.

(* ================================================================== the prepare_write loop of _take_impl *)
Section WriteLoop.
  Variable W : world.
  Variables (RP : list pystr) (is_async : bool) (custom : option Z).

  Definition wcall_of (it : pystr * obj) : wcall :=
    mkWcall (snd it) (fst it) (w_rank W) (str_memb (fst it) RP) is_async
            (match custom with Some f => Some (f, fst it) | None => None end).
  Definition inl (it : pystr * obj) : bool := w_should_inline W (snd it).
  Definition loc_of (it : pystr * obj) : pystr :=
    g_storage_path (w_is_sharded W (snd it)) (str_memb (fst it) RP) (w_rank W) (fst it).
  Definition wr_of (it : pystr * obj) : wreq := mkWreq (loc_of it) (snd it) is_async (wc_custom (wcall_of it)).
  Definition ent_of (it : pystr * obj) : mentry :=
    if inl it then MLeaf (LPrim (snd it) (str_memb (fst it) RP)) else MLeaf (LObj (loc_of it) None (str_memb (fst it) RP)).

  Lemma prepare_write_m_of : forall it,
    prepare_write_m W (wcall_of it) = (ent_of it, if inl it then [] else [wr_of it]).
  Proof. intro it. unfold prepare_write_m, ent_of, inl, wr_of, loc_of, wcall_of. cbn [wc_obj wc_replicated wc_rank wc_path wc_async wc_custom]. destruct (w_should_inline W (snd it)); reflexivity. Qed.

  Lemma ent_of_prim : forall it, is_primitive_entry (ent_of it) = inl it.
  Proof. intro it. unfold ent_of. destruct (inl it); reflexivity. Qed.

  Definition fxw (x : effects) (l : list (pystr * obj)) : effects :=
    mkFx (fx_loads x) (fx_writes x ++ map wcall_of l) (fx_preps x) (fx_done x).
  Definition OEs (l : list (pystr * obj)) : sdict mentry := map (fun it => (fst it, ent_of it)) (filter (fun it => negb (inl it)) l).
  Definition PEs (l : list (pystr * obj)) : sdict mentry := map (fun it => (fst it, ent_of it)) (filter inl l).
  Definition L2Ws (l : list (pystr * obj)) : sdict (list wreq) := map (fun it => (fst it, [wr_of it])) (filter (fun it => negb (inl it)) l).

  Definition wstep (st : sdict mentry * sdict (list wreq) * sdict mentry * effects) (it : pystr * obj) :=
    let '(oe, l2w, pe, x) := st in
    let r := prepare_write_fx W (wcall_of it) x in
    if is_primitive_entry (fst (fst r)) then (oe, l2w, sdict_set (fst it) (fst (fst r)) pe, snd r)
    else (sdict_set (fst it) (fst (fst r)) oe, sdict_set (fst it) (snd (fst r)) l2w, pe, snd r).

  Lemma filter_keys_sub : forall (f : pystr * obj -> bool) {V} (g : pystr * obj -> V) l k,
    In k (map fst (map (fun it => (fst it, g it)) (filter f l))) -> In k (map fst l).
  Proof.
    intros f V g l k H. rewrite map_map in H. cbn [fst] in H. apply in_map_iff in H. destruct H as [it [E H]].
    apply filter_In in H. subst k. apply in_map. exact (proj1 H).
  Qed.

  Lemma wloop_spec : forall l pre x, NoDup (map fst (pre ++ l)) ->
    fold_left wstep l (OEs pre, L2Ws pre, PEs pre, fxw x pre) = (OEs (pre ++ l), L2Ws (pre ++ l), PEs (pre ++ l), fxw x (pre ++ l)).
  Proof.
    induction l as [|it l IH]; intros pre x N; [rewrite app_nil_r; reflexivity|].
    cbn [fold_left]. replace (pre ++ it :: l) with ((pre ++ [it]) ++ l) in * by (rewrite <- app_assoc; reflexivity).
    rewrite <- (IH (pre ++ [it]) x N). f_equal.
    assert (Nk : ~ In (fst it) (map fst pre)).
    { rewrite !map_app in N. apply NoDup_app_l in N. cbn [map] in N. apply NoDup_remove_2 in N. rewrite app_nil_r in N. exact N. }
    unfold wstep. unfold prepare_write_fx. cbn [fst snd]. rewrite prepare_write_m_of. cbn [fst snd]. rewrite ent_of_prim.
    unfold OEs, L2Ws, PEs, fxw. rewrite !filter_app, !map_app. cbn [filter]. cbn [fx_loads fx_writes fx_preps fx_done].
    destruct (inl it) eqn:I; cbn [negb map app fst snd]; rewrite !app_nil_r.
    - rewrite sdict_set_absent; [|intro K; apply Nk; exact (filter_keys_sub _ _ _ _ K)]. rewrite <- app_assoc. reflexivity.
    - rewrite !sdict_set_absent; try (intro K; apply Nk; exact (filter_keys_sub _ _ _ _ K)). rewrite <- app_assoc. reflexivity.
  Qed.

  Lemma wloop_spec0 : forall l x, NoDup (map fst l) ->
    fold_left wstep l ([], [], [], x) = (OEs l, L2Ws l, PEs l, fxw x l).
  Proof.
    intros l [a b c d] N. pose proof (wloop_spec l [] (mkFx a b c d) N) as E. unfold fxw at 1 in E.
    cbn [map fx_loads fx_writes fx_preps fx_done] in E. rewrite app_nil_r in E. exact E.
  Qed.

  Lemma OEs_in : forall l p e, In (p, e) (OEs l) <-> exists it, In it l /\ inl it = false /\ p = fst it /\ e = ent_of it.
  Proof.
    intros l p e. unfold OEs. rewrite in_map_iff. split.
    - intros [it [E H]]. apply filter_In in H. destruct H as [H1 H2]. inversion E; subst. exists it. repeat split; [exact H1 | destruct (inl it); [discriminate | reflexivity]].
    - intros [it [H1 [H2 [E1 E2]]]]. subst. exists it. split; [reflexivity|]. apply filter_In. split; [exact H1 | rewrite H2; reflexivity].
  Qed.

  Lemma PEs_in : forall l p e, In (p, e) (PEs l) <-> exists it, In it l /\ inl it = true /\ p = fst it /\ e = ent_of it.
  Proof.
    intros l p e. unfold PEs. rewrite in_map_iff. split.
    - intros [it [E H]]. apply filter_In in H. destruct H as [H1 H2]. inversion E; subst. exists it. repeat split; assumption.
    - intros [it [H1 [H2 [E1 E2]]]]. subst. exists it. split; [reflexivity|]. apply filter_In. split; assumption.
  Qed.
End WriteLoop.

(* ================================================================== _gather_manifest *)
Definition global_of (ms : list (sdict mentry)) : sdict mentry :=
  fold_left (fun g (rm : Z * sdict mentry) =>
               fold_left (fun g (kv : pystr * mentry) => sdict_set (os_join (str_of_Z (fst rm)) (fst kv)) (snd kv) g) (snd rm) g)
            (enumerate ms) [].

Lemma gather_manifest_spec : forall W m,
  gather_manifest_gen W m = option_map global_of (w_consolidate W (w_all_gather W _ m)).
Proof.
  intros W m. unfold gather_manifest_gen. destruct (w_consolidate W (w_all_gather W (sdict mentry) m)) as [ms|]; [|reflexivity].
  cbn [obind option_map].
  rewrite (py_for_fold _ _ (fun g (rm : Z * sdict mentry) =>
               fold_left (fun g (kv : pystr * mentry) => sdict_set (os_join (str_of_Z (fst rm)) (fst kv)) (snd kv) g) (snd rm) g)).
  - reflexivity.
  - intros g rm _. rewrite (py_for_fold _ _ (fun g (kv : pystr * mentry) => sdict_set (os_join (str_of_Z (fst rm)) (fst kv)) (snd kv) g)); reflexivity.
Qed.

(* ================================================================== list / dict helpers for take *)
Lemma NoDup_map_filter : forall {A B} (g : A -> B) (f : A -> bool) l, NoDup (map g l) -> NoDup (map g (filter f l)).
Proof.
  intros A B g f l. induction l as [|x l IH]; cbn [map filter]; intro N; [constructor|].
  inversion N as [|? ? Hx N']; subst. destruct (f x); [|exact (IH N')]. cbn [map]. constructor; [|exact (IH N')].
  intro H. apply Hx. apply in_map_iff in H. destruct H as [y [E Hy]]. apply filter_In in Hy. rewrite <- E. apply in_map. exact (proj1 Hy).
Qed.

Lemma filter_split_perm : forall {A} (f : A -> bool) l, Permutation (filter f l ++ filter (fun x => negb (f x)) l) l.
Proof.
  intros A f l. induction l as [|x l IH]; [constructor|]. cbn [filter]. destruct (f x); cbn [negb app].
  - apply perm_skip. exact IH.
  - apply Permutation_sym. apply (perm_trans (l' := x :: filter f l ++ filter (fun x => negb (f x)) l)).
    + apply perm_skip. apply Permutation_sym. exact IH.
    + apply Permutation_middle.
Qed.

Lemma combine_fst_snd : forall {A B} (l : list (A * B)), combine (map fst l) (map snd l) = l.
Proof. intros A B l. induction l as [|[a b] l IH]; [reflexivity|]. cbn [map combine fst snd]. rewrite IH. reflexivity. Qed.

Lemma combine_keys : forall {A B C} (d : list (A * B)) (vs : list C), length vs = length d -> map fst (combine (map fst d) vs) = map fst d.
Proof.
  intros A B C d. induction d as [|[a b] d IH]; intros vs L; [reflexivity|]. destruct vs as [|v vs]; [discriminate|].
  cbn [map combine fst]. rewrite IH; [reflexivity | cbn [length] in L; congruence].
Qed.

Lemma combine_forall2_in1 : forall {A B C} (R : B -> C -> Prop) (d : list (A * B)) vs p e,
  Forall2 R (map snd d) vs -> In (p, e) d -> exists e', In (p, e') (combine (map fst d) vs) /\ R e e'.
Proof.
  intros A B C R d. induction d as [|[a b] d IH]; intros vs p e F H; [contradiction|].
  cbn [map fst snd] in F. inversion F as [|? v ? vs' Hr F']; subst. cbn [map combine fst]. destruct H as [H|H].
  - inversion H; subst. exists v. split; [left; reflexivity | exact Hr].
  - destruct (IH vs' p e F' H) as [e' [H1 H2]]. exists e'. split; [right; exact H1 | exact H2].
Qed.

Lemma combine_forall2_in2 : forall {A B C} (R : B -> C -> Prop) (d : list (A * B)) vs p e',
  Forall2 R (map snd d) vs -> In (p, e') (combine (map fst d) vs) -> exists e, In (p, e) d /\ R e e'.
Proof.
  intros A B C R d. induction d as [|[a b] d IH]; intros vs p e' F H; [contradiction|].
  cbn [map fst snd] in F. inversion F as [|? v ? vs' Hr F']; subst. cbn [map combine fst] in H. destruct H as [H|H].
  - inversion H; subst. exists b. split; [left; reflexivity | exact Hr].
  - destruct (IH vs' p e' F' H) as [e [H1 H2]]. exists e. split; [right; exact H1 | exact H2].
Qed.

Lemma Forall2_len : forall {A B} (R : A -> B -> Prop) l l', Forall2 R l l' -> length l = length l'.
Proof. intros A B R l l' F. induction F; [reflexivity | cbn [length]; congruence]. Qed.

Lemma Forall2_refl_in : forall {A} (R : A -> A -> Prop) l, (forall x, In x l -> R x x) -> Forall2 R l l.
Proof. intros A R l. induction l as [|x l IH]; intro H; constructor; [apply H; left; reflexivity | apply IH; intros y Hy; apply H; right; exact Hy]. Qed.

Lemma py_dict_kw2_disjoint : forall {V} (a b : sdict V), NoDup (map fst a ++ map fst b) -> py_dict_kw2 a b = Some (a ++ b).
Proof.
  intros V a b N. unfold py_dict_kw2.
  assert (E : existsb (fun k => sdict_mem k a) (sdict_keys b) = false).
  { destruct (existsb (fun k => sdict_mem k a) (sdict_keys b)) eqn:E; [|reflexivity]. apply existsb_exists in E. destruct E as [k [Hk Hm]].
    apply sdict_mem_in in Hm. exfalso. exact (NoDup_app_disjoint _ _ k N Hm Hk). }
  rewrite E. rewrite (sdict_update_nodup a []) by (cbn [app]; exact (NoDup_app_l _ _ N)). cbn [app].
  rewrite sdict_update_nodup; [reflexivity | rewrite map_app; exact N].
Qed.

Lemma NoDup_map_inj_in : forall {A B} (g : A -> B) (k : A -> pystr) l,
  NoDup (map k l) -> (forall x y, In x l -> In y l -> g x = g y -> k x = k y) -> NoDup (map g l).
Proof.
  intros A B g k l. induction l as [|x l IH]; intros N H; cbn [map]; [constructor|].
  cbn [map] in N. inversion N as [|? ? Hx N']; subst. constructor.
  - intro K. apply in_map_iff in K. destruct K as [y [E Hy]]. apply Hx. rewrite <- (H y x (or_intror Hy) (or_introl eq_refl) E). apply in_map. exact Hy.
  - apply IH; [exact N'|]. intros a b Ha Hb. apply H; right; assumption.
Qed.

Lemma flat_map_singletons : forall {A B} (g : A -> B) l, flat_map (fun w : list B => map (fun x => x) w) (map (fun it => [g it]) l) = map g l.
Proof. intros A B g l. induction l as [|x l IH]; [reflexivity|]. cbn [map flat_map app]. rewrite IH. reflexivity. Qed.

(* C05 (known finding): an empty app_state key makes the logical paths absolute *)
Definition nonempty_keys (A : sdict stateful) : Prop := forall k a, In (k, a) A -> k <> [].

Lemma head_not_slash : forall p h, split_head p = h -> h <> [] -> starts_slash p = false.
Proof.
  intros p h E Hh. destruct p as [|c r]; [reflexivity|]. unfold starts_slash. destruct (c =? 47) eqn:C; [|reflexivity].
  exfalso. apply Hh. rewrite <- E. unfold split_head. cbn [split]. rewrite C. reflexivity.
Qed.

Lemma blocks_relative : forall A gk, nonempty_keys A ->
  forall p, In p (map fst (concat (map (blkM A) gk)) ++ map fst (concat (map (blkF A) gk))) -> starts_slash p = false.
Proof.
  intros A gk NE p H.
  assert (exists k, In p (map fst (blkM A k) ++ map fst (blkF A k))) as [k Hk].
  { apply in_app_or in H. destruct H as [H|H]; apply in_map_iff in H; destruct H as [[q y] [E H]]; cbn [fst] in E; subst q;
      apply in_concat in H; destruct H as [b [Hb Hx]]; apply in_map_iff in Hb; destruct Hb as [k [E _]]; subst b; exists k; apply in_or_app;
      [left | right]; apply (in_map fst) in Hx; exact Hx. }
  apply (head_not_slash p (encode k)); [exact (blk_heads A k p Hk)|].
  intro E. apply encode_nil in E. subst k. unfold blkM, blkF in Hk. destruct (sdict_get [] A) as [a|] eqn:G; [|destruct Hk].
  apply sdict_get_some_in in G. exact (NE [] a G eq_refl).
Qed.

(* C05: the storage locations of distinct leaves are distinct *)
Definition locations_distinct (W : world) (A : sdict stateful) : Prop :=
  forall k a k' a' p o p' o' r r', In (k, a) A -> In (k', a') A ->
    In (p, o) (snd (flatten_s (sf_state a) k)) -> In (p', o') (snd (flatten_s (sf_state a') k')) ->
    g_storage_path (w_is_sharded W o) r (w_rank W) p = g_storage_path (w_is_sharded W o') r' (w_rank W) p' -> p = p'.

Lemma blocks_locations : forall W A gk, locations_distinct W A ->
  forall it it' r r', In it (concat (map (blkF A) gk)) -> In it' (concat (map (blkF A) gk)) ->
    g_storage_path (w_is_sharded W (snd it)) r (w_rank W) (fst it) = g_storage_path (w_is_sharded W (snd it')) r' (w_rank W) (fst it') ->
    fst it = fst it'.
Proof.
  intros W A gk LD [p o] [p' o'] r r' H1 H2. cbn [fst snd].
  apply in_concat in H1. destruct H1 as [b1 [Hb1 Hx1]]. apply in_map_iff in Hb1. destruct Hb1 as [k1 [E1 _]]. subst b1.
  apply in_concat in H2. destruct H2 as [b2 [Hb2 Hx2]]. apply in_map_iff in Hb2. destruct Hb2 as [k2 [E2 _]]. subst b2.
  unfold blkF in Hx1, Hx2. destruct (sdict_get k1 A) as [a1|] eqn:G1; [|contradiction]. destruct (sdict_get k2 A) as [a2|] eqn:G2; [|contradiction].
  apply sdict_get_some_in in G1. apply sdict_get_some_in in G2. exact (LD k1 a1 k2 a2 p o p' o' r r' G1 G2 Hx1 Hx2).
Qed.

(* take's own load_state_dict call: the RNG state is re-applied after the state_dict() calls of the other statefuls *)
Definition rng_loads (A : sdict stateful) : list load_ev :=
  match rng_item A with Some (k, s) => [mkLoad (sf_id s) (sf_state s) None] | None => [] end.

(* the blocks of the statefuls other than the RNGState are those of the application state minus the RNG key *)
Lemma blocks_without_rng : forall A kr sr gk, NoDup (map fst A) -> rng_at_most_one A -> In (kr, sr) A -> sf_is_rng sr = true ->
  concat (map (blkM (non_rng A)) gk) = concat (map (blkM A) (filter (fun k => negb (str_eqb k kr)) gk)) /\
  concat (map (blkF (non_rng A)) gk) = concat (map (blkF A) (filter (fun k => negb (str_eqb k kr)) gk)).
Proof.
  intros A kr sr gk NA U HA HR.
  assert (G : forall k, sdict_get k (non_rng A) = if str_eqb k kr then None else sdict_get k A).
  { intro k. destruct (str_eqb k kr) eqn:E.
    - apply str_eqb_eq in E. subst k. apply sdict_get_none. intro K. apply in_map_iff in K. destruct K as [[q s'] [Eq K]]. cbn [fst] in Eq. subst q.
      apply non_rng_in in K. destruct K as [K1 K2]. rewrite (NoDup_keys_eq A kr s' sr NA K1 HA) in K2. congruence.
    - destruct (sdict_get k A) as [s|] eqn:GA.
      + apply sdict_get_some_in in GA. apply sdict_get_in; [exact (non_rng_nodup A NA)|]. apply non_rng_in. split; [exact GA|].
        destruct (sf_is_rng s) eqn:R; [|reflexivity]. exfalso. rewrite (U k s kr sr GA HA R HR) in E. rewrite str_eqb_refl in E. discriminate.
      + apply sdict_get_none. apply sdict_get_none in GA. intro K. apply GA. apply in_map_iff in K. destruct K as [[q s'] [Eq K]].
        apply non_rng_in in K. apply in_map_iff. exists (q, s'). split; [exact Eq | exact (proj1 K)]. }
  induction gk as [|k gk [IH1 IH2]]; [split; reflexivity|]. cbn [map concat filter].
  unfold blkM at 1, blkF at 1. rewrite (G k). destruct (str_eqb k kr) eqn:E; cbn [negb app map concat].
  - split; assumption.
  - rewrite IH1, IH2. unfold blkM at 2, blkF at 2. split; reflexivity.
Qed.

(* ================================================================== take *)
Definition leaf_serves (W : world) (st : store) (l : lentry) (o : obj) : Prop :=
  match l with LPrim v _ => v = o | _ => w_read W st l = Some o end.

(* what restore needs of the manifest view [v] of a snapshot whose storage is [st]: the container entries MC and, for
   every leaf of F, an entry through which the leaf is read back *)
Definition good_view (W : world) (MC : sdict mentry) (F : sdict obj) (st : store) (v : sdict mentry) : Prop :=
  NoDup (map fst v) /\
  (forall p e, In (p, MCont e) v <-> In (p, MCont e) MC) /\
  (forall p l, In (p, MLeaf l) v -> exists o, In (p, o) F /\ leaf_serves W st l o) /\
  (forall p o, In (p, o) F -> exists l, In (p, MLeaf l) v).

Section Take.
  Variable W : world.
  Hypothesis C12_all_gather_has_own : forall (A : Type) (x : A), In x (w_all_gather W A x).
  Hypothesis C06_partition_keeps : forall es ws, NoDup (map fst es) -> map fst ws = map fst es ->
    exists es' ws', w_partition W es ws = Some (es', ws') /\ Permutation es' es /\ Permutation ws' ws.

  Definition stored_as (wrs wrs' : list wreq) (e e' : mentry) : Prop :=
    match e with
    | MLeaf (LObj loc None r) =>
        exists l', e' = MLeaf l' /\ (forall v r', l' <> LPrim v r') /\
                   forall o a c, In (mkWreq loc o a c) wrs -> w_read W (map (fun w => (wr_path w, wr_obj w)) wrs') l' = Some o
    | _ => e' = e
    end.
  Hypothesis C17_store_exact : forall st loc o r, NoDup (map fst st) -> In (loc, o) st -> w_read W st (LObj loc None r) = Some o.
  Hypothesis C01_batch_write_exact : forall es wrs, NoDup (map wr_path wrs) ->
    Forall2 (stored_as wrs (snd (w_batch_write W es wrs))) es (fst (w_batch_write W es wrs)).
  Hypothesis C06_consolidate_total : forall m, NoDup (map fst m) -> exists ms, w_consolidate W (w_all_gather W _ m) = Some ms.
  Hypothesis C07_view_same_world : forall m ms, NoDup (map fst m) -> (forall p, In p (map fst m) -> starts_slash p = false) ->
    w_consolidate W (w_all_gather W _ m) = Some ms ->
    let v := w_manifest_for_rank W (mkMeta (w_world_size W) (global_of ms)) (w_rank W) in
    NoDup (map fst (fst v)) /\ (forall p e, In (p, e) (fst v) <-> In (p, e) m) /\ snd v = [].

  Lemma take_tail_good : forall A gk repl is_async custom xt,
    NoDup gk ->
    (forall it it' r r', In it (concat (map (blkF A) gk)) -> In it' (concat (map (blkF A) gk)) ->
       g_storage_path (w_is_sharded W (snd it)) r (w_rank W) (fst it) = g_storage_path (w_is_sharded W (snd it')) r' (w_rank W) (fst it') ->
       fst it = fst it') ->
    (forall p, In p (map fst (concat (map (blkM A) gk)) ++ map fst (concat (map (blkF A) gk))) -> starts_slash p = false) ->
    exists st md x',
      take_impl_tail_gen W repl [] is_async custom (concat (map (blkM A) gk)) (concat (map (blkF A) gk)) xt = Some ((st, md), x') /\
      md_world_size md = w_world_size W /\
      good_view W (concat (map (blkM A) gk)) (concat (map (blkF A) gk)) st (fst (w_manifest_for_rank W md (w_rank W))) /\
      snd (w_manifest_for_rank W md (w_rank W)) = [] /\
      fx_loads x' = fx_loads xt /\
      fx_writes x' = fx_writes xt ++ map (wcall_of W (w_calc_replicated W (concat (map (blkF A) gk)) repl) is_async custom) (concat (map (blkF A) gk)) /\
      exists M1 ms, w_consolidate W (w_all_gather W _ M1) = Some ms /\ md_manifest md = global_of ms /\ NoDup (map fst M1) /\
                    (forall p, In p (map fst M1) -> starts_slash p = false) /\
                    (forall p e, In (p, e) (fst (w_manifest_for_rank W md (w_rank W))) <-> In (p, e) M1).
  Proof.
    intros A gk repl is_async custom xt Ngk Hloc Hrel.
    unfold take_impl_tail_gen.
    set (M0 := concat (map (blkM A) gk)) in *. set (F0 := concat (map (blkF A) gk)) in *.
    pose proof (all_blocks_nodup A gk Ngk) as NMF. fold M0 F0 in NMF.
    cbv beta iota delta [obind].
    set (RP := w_calc_replicated W F0 repl).
    rewrite (py_for_fold _ _ (wstep W RP is_async custom)).
    2:{ intros [[[oe l2w] pe] fx] it _. unfold wstep. cbv zeta. fold RP.
        change (wcall_of W RP is_async custom it) with
          (mkWcall (snd it) (fst it) (w_rank W) (str_memb (fst it) RP) is_async
                   (match custom with Some f => Some (f, fst it) | None => None end)).
        destruct (is_primitive_entry _); reflexivity. }
    unfold sdict_items.
    assert (NF : NoDup (map fst F0)) by exact (NoDup_app_r _ _ NMF).
    rewrite (wloop_spec0 W RP is_async custom F0 xt NF). cbv beta iota.
    set (OE := OEs W RP F0). set (PE := PEs W RP F0). set (LW := L2Ws W RP is_async custom F0).
    set (nf := filter (fun it => negb (inl W it)) F0).
    assert (KO : map fst OE = map fst nf) by (unfold OE, OEs; rewrite map_map; reflexivity).
    assert (KL : map fst LW = map fst nf) by (unfold LW, L2Ws; rewrite map_map; reflexivity).
    assert (KP : map fst PE = map fst (filter (inl W) F0)) by (unfold PE, PEs; rewrite map_map; reflexivity).
    assert (NO : NoDup (map fst OE)) by (rewrite KO; apply NoDup_map_filter; exact NF).
    destruct (C06_partition_keeps OE LW NO (eq_trans KL (eq_sym KO))) as (es' & ws' & EP & PEs' & PWs').
    rewrite EP. cbv beta iota. cbn [fst snd].
    set (WR := flat_map (fun v_wrs : list wreq => map (fun v_wr : wreq => v_wr) v_wrs) (sdict_values ws')).
    assert (PWR : Permutation WR (map (wr_of W RP is_async custom) nf)).
    { unfold WR, sdict_values. apply (perm_trans (l' := flat_map (fun v_wrs : list wreq => map (fun v_wr : wreq => v_wr) v_wrs) (map snd LW))).
      - apply Permutation_flat_map. apply Permutation_map. exact PWs'.
      - unfold LW, L2Ws. rewrite map_map. cbn [snd]. rewrite flat_map_singletons. apply Permutation_refl. }
    assert (NWR : NoDup (map wr_path WR)).
    { apply (Permutation_NoDup (l := map wr_path (map (wr_of W RP is_async custom) nf))); [apply Permutation_map, Permutation_sym, PWR|].
      rewrite map_map. cbn [wr_path wr_of].
      apply (NoDup_map_inj_in _ fst); [apply NoDup_map_filter; exact NF|].
      intros a b Ha Hb E. apply filter_In in Ha. apply filter_In in Hb. exact (Hloc a b _ _ (proj1 Ha) (proj1 Hb) E). }
    match goal with |- context [if ?c then Some ?a else Some ?b] => set (J := if c then Some a else Some b) end.
    assert (EJ : exists ents WR', J = Some (WR', sdict_with_values es' ents) /\ Forall2 (stored_as WR WR') (sdict_values es') ents).
    { unfold J. destruct (w_batching_disabled W); cbn [negb].
      - exists (sdict_values es'), WR. split; [unfold sdict_with_values, sdict_values; rewrite combine_fst_snd; reflexivity|].
        apply Forall2_refl_in. intros e _. destruct e as [c|[v r|loc [rg|] r]]; cbn [stored_as]; try reflexivity.
        exists (LObj loc None r). split; [reflexivity|]. split; [intros v r'; discriminate|].
        intros o a c Hin. apply C17_store_exact; [rewrite map_map; exact NWR|].
        apply in_map_iff. exists (mkWreq loc o a c). split; [reflexivity | exact Hin].
      - eexists. eexists. split; [reflexivity|]. apply C01_batch_write_exact. exact NWR. }
    destruct EJ as (ents & WR' & EJ & F2). rewrite EJ. cbv beta iota. clear EJ J.
    set (OE2 := sdict_with_values es' ents).
    assert (LE : length ents = length es').
    { apply Forall2_len in F2. unfold sdict_values in F2. rewrite map_length in F2. symmetry. exact F2. }
    assert (KO2 : map fst OE2 = map fst es') by (unfold OE2, sdict_with_values; apply combine_keys; exact LE).
    assert (PK : Permutation (map fst PE ++ map fst OE2) (map fst F0)).
    { rewrite KP, KO2. apply (perm_trans (l' := map fst (filter (inl W) F0) ++ map fst nf)).
      - apply Permutation_app_head. rewrite <- KO. apply Permutation_map. exact PEs'.
      - rewrite <- map_app. apply Permutation_map. apply filter_split_perm. }
    rewrite (py_dict_kw2_disjoint PE OE2) by (apply (Permutation_NoDup (Permutation_sym PK)); exact NF).
    set (M1 := sdict_update M0 (PE ++ OE2)).
    assert (NM1a : NoDup (map fst (M0 ++ PE ++ OE2))).
    { rewrite map_app. apply (Permutation_NoDup (l := map fst M0 ++ map fst F0)); [|exact NMF].
      apply Permutation_app_head. rewrite map_app. apply Permutation_sym. exact PK. }
    assert (EM1 : M1 = M0 ++ PE ++ OE2) by (unfold M1; apply sdict_update_nodup; exact NM1a).
    assert (NM1 : NoDup (map fst M1)) by (rewrite EM1; exact NM1a).
    rewrite gather_manifest_spec. destruct (C06_consolidate_total M1 NM1) as [ms EC].
    match goal with |- context [w_consolidate W ?a] => replace (w_consolidate W a) with (Some ms) by (symmetry; exact EC) end.
    cbn [option_map].
    eexists. eexists. eexists. split; [reflexivity|]. split; [reflexivity|].
    assert (RelM1 : forall p, In p (map fst M1) -> starts_slash p = false).
    { intros p H. apply Hrel. fold M0 F0. rewrite EM1, map_app in H. apply in_app_or in H. apply in_or_app. destruct H as [H|H]; [left; exact H|].
      right. rewrite map_app in H. exact (Permutation_in _ PK H). }
    destruct (C07_view_same_world M1 ms NM1 RelM1 EC) as (V1 & V2 & V3).
    set (v := fst (w_manifest_for_rank W (mkMeta (w_world_size W) (global_of ms)) (w_rank W))) in *.
    split; [|split; [exact V3 | split; [reflexivity | split; [reflexivity|]]]].
    2:{ exists M1, ms. split; [exact EC|]. split; [reflexivity|]. split; [exact NM1|]. split; [exact RelM1 | exact V2]. }
    unfold good_view. split; [exact V1|].
    assert (InM1 : forall p e, In (p, e) v <-> In (p, e) M0 \/ In (p, e) PE \/ In (p, e) OE2).
    { intros p e. rewrite V2, EM1, !in_app_iff. tauto. }
    assert (M0c : forall p e, In (p, e) M0 -> exists c, e = MCont c).
    { intros p e H. unfold M0 in H. apply in_concat in H. destruct H as [b [Hb Hx]]. apply in_map_iff in Hb. destruct Hb as [k [E _]]. subst b.
      unfold blkM in Hx. destruct (sdict_get k A); [|contradiction]. unfold lift_conts in Hx. apply in_map_iff in Hx.
      destruct Hx as [[q c] [E _]]. inversion E. eexists. reflexivity. }
    assert (PEl : forall p e, In (p, e) PE -> exists it, In it F0 /\ inl W it = true /\ p = fst it /\ e = MLeaf (LPrim (snd it) (str_memb (fst it) RP))).
    { intros p e H. apply PEs_in in H. destruct H as [it [H1 [H2 [H3 H4]]]]. exists it. repeat split; try assumption.
      subst e. unfold ent_of. rewrite H2. reflexivity. }
    assert (OEl : forall p e', In (p, e') OE2 -> exists it l', In it F0 /\ inl W it = false /\ p = fst it /\ e' = MLeaf l' /\
               (forall v r', l' <> LPrim v r') /\ w_read W (map (fun w => (wr_path w, wr_obj w)) WR') l' = Some (snd it)).
    { intros p e' H. destruct (combine_forall2_in2 _ es' ents p e' F2 H) as [e [He Hs]].
      apply (Permutation_in _ PEs') in He. apply OEs_in in He. destruct He as [it [H1 [H2 [H3 H4]]]].
      subst e. unfold ent_of in Hs. rewrite H2 in Hs. cbn [stored_as] in Hs. destruct Hs as [l' [E [NP Hr]]].
      exists it, l'. repeat split; try assumption. apply (Hr (snd it) is_async (wc_custom (wcall_of W RP is_async custom it))).
      apply (Permutation_in _ (Permutation_sym PWR)). apply in_map_iff. exists it. split; [reflexivity|].
      apply filter_In. split; [exact H1 | rewrite H2; reflexivity]. }
    assert (OEr : forall it, In it F0 -> inl W it = false -> exists l', In (fst it, MLeaf l') OE2).
    { intros it H1 H2. assert (He : In (fst it, ent_of W RP it) es').
      { apply (Permutation_in _ (Permutation_sym PEs')). apply OEs_in. exists it. auto. }
      destruct (combine_forall2_in1 _ es' ents _ _ F2 He) as [e' [H3 H4]]. unfold ent_of in H4. rewrite H2 in H4.
      cbn [stored_as] in H4. destruct H4 as [l' [E _]]. exists l'. subst e'. exact H3. }
    split; [|split].
    - intros p e. rewrite InM1. split; [|tauto]. intros [H|[H|H]]; [exact H | |].
      + destruct (PEl _ _ H) as [it [_ [_ [_ E]]]]. discriminate.
      + destruct (OEl _ _ H) as [it [l' [_ [_ [_ [E _]]]]]]. discriminate.
    - intros p l H. apply InM1 in H. destruct H as [H|[H|H]].
      + destruct (M0c _ _ H) as [c E]. discriminate.
      + destruct (PEl _ _ H) as [it [H1 [H2 [H3 E]]]]. inversion E; subst. exists (snd it). split; [destruct it; exact H1 | reflexivity].
      + destruct (OEl _ _ H) as [it [l' [H1 [H2 [H3 [E [NP Hr]]]]]]]. inversion E; subst l'. subst p. exists (snd it).
        split; [destruct it; exact H1|]. unfold leaf_serves, exec_write_m. cbn [app].
        destruct l as [v0 r0|loc rg r0]; [exfalso; exact (NP v0 r0 eq_refl) | exact Hr].
    - intros p o H. destruct (inl W (p, o)) eqn:I.
      + exists (LPrim o (str_memb p RP)). apply InM1. right. left. apply PEs_in. exists (p, o). repeat split; try assumption.
        unfold ent_of. rewrite I. reflexivity.
      + destruct (OEr (p, o) H I) as [l' H1]. exists l'. apply InM1. right. right. exact H1.
  Qed.

  (* _take_impl: the RNGState (at most one) is flattened first and re-applied after the loop over the other statefuls *)
  Lemma take_good : forall A repl is_async custom x path,
    NoDup (map fst A) -> rng_at_most_one A -> nonempty_keys A -> locations_distinct W A ->
    exists gk st md x',
      NoDup gk /\ (forall k, In k (map fst A) -> In k gk) /\
      take_impl_gen W path A repl [] is_async custom x = Some ((st, md), x') /\
      md_world_size md = w_world_size W /\
      good_view W (concat (map (blkM A) gk)) (concat (map (blkF A) gk)) st (fst (w_manifest_for_rank W md (w_rank W))) /\
      snd (w_manifest_for_rank W md (w_rank W)) = [] /\
      fx_loads x' = fx_loads x ++ rng_loads A /\
      fx_writes x' = fx_writes x ++ map (wcall_of W (w_calc_replicated W (concat (map (blkF A) gk)) repl) is_async custom) (concat (map (blkF A) gk)) /\
      exists M1 ms, w_consolidate W (w_all_gather W _ M1) = Some ms /\ md_manifest md = global_of ms /\ NoDup (map fst M1) /\
                    (forall p, In p (map fst M1) -> starts_slash p = false) /\
                    (forall p e, In (p, e) (fst (w_manifest_for_rank W md (w_rank W))) <-> In (p, e) M1).
  Proof.
    intros A repl is_async custom x path NA U NE LD.
    unfold take_impl_gen. rewrite (pop_rng_state_spec W A NA U). cbn [obind fst snd].
    destruct (gather_keys_spec W C12_all_gather_has_own (sdict_keys (non_rng A))) as (gk' & GK & Ngk' & KA').
    assert (LOOP : forall dm df,
      py_for gk' (dm, df) (fun st it =>
        let '(v_manifest, v_flattened) := st in
        if sdict_mem it (non_rng A) then
          t <- sdict_get it (non_rng A) ;; t2 <- flatten_run_gen (sf_state t) it ;;
          Some (sdict_update v_manifest (lift_conts (fst t2)), sdict_update v_flattened (snd t2))
        else Some (v_manifest, v_flattened))
      = Some (fold_left (fun d k => sdict_update d (blkM (non_rng A) k)) gk' dm, fold_left (fun d k => sdict_update d (blkF (non_rng A) k)) gk' df)).
    { intros dm df. rewrite (py_for_fold _ _ (fun st k => (sdict_update (fst st) (blkM (non_rng A) k), sdict_update (snd st) (blkF (non_rng A) k)))).
      - rewrite (fold_left_pair (fun d k => sdict_update d (blkM (non_rng A) k)) (fun d k => sdict_update d (blkF (non_rng A) k)) gk' dm df). reflexivity.
      - intros [m f] k _. cbn [fst snd]. unfold blkM, blkF. destruct (sdict_mem k (non_rng A)) eqn:E.
        + unfold sdict_mem in E. destruct (sdict_get k (non_rng A)) as [s|]; [|discriminate]. cbn [obind].
          rewrite flatten_run_gen_correct. cbn [obind fst snd]. reflexivity.
        + unfold sdict_mem in E. destruct (sdict_get k (non_rng A)) as [s|]; [discriminate|]. reflexivity. }
    destruct (rng_item A) as [[kr sr]|] eqn:RI.
    - (* an RNGState under key kr *)
      destruct (rng_item_in A kr sr RI) as [HA HR]. cbn [fst snd].
      rewrite flatten_run_gen_correct. cbn [obind fst snd]. rewrite GK. cbn [obind].
      set (gk := kr :: filter (fun k => negb (str_eqb k kr)) gk').
      assert (Ngk : NoDup gk).
      { unfold gk. constructor; [|apply NoDup_filter; exact Ngk']. intro K. apply filter_In in K. destruct K as [_ K]. rewrite str_eqb_refl in K. discriminate. }
      assert (KA : forall k, In k (map fst A) -> In k gk).
      { intros k Hk. unfold gk. destruct (str_eqb k kr) eqn:E; [apply str_eqb_eq in E; left; symmetry; exact E|]. right. apply filter_In.
        split; [|rewrite E; reflexivity]. apply KA'. apply in_map_iff in Hk. destruct Hk as [[q s] [Eq Hq]]. cbn [fst] in Eq. subst q.
        apply in_map_iff. exists (k, s). split; [reflexivity|]. apply non_rng_in. split; [exact Hq|].
        destruct (sf_is_rng s) eqn:R; [|reflexivity]. exfalso. rewrite (U k s kr sr Hq HA R HR) in E. rewrite str_eqb_refl in E. discriminate. }
      destruct (blocks_without_rng A kr sr gk' NA U HA HR) as [BM BF].
      pose proof (all_blocks_nodup A gk Ngk) as NMF.
      assert (EBM : blkM A kr = lift_conts (fst (flatten_s (sf_state sr) kr))) by (unfold blkM; rewrite (sdict_get_in kr sr A NA HA); reflexivity).
      assert (EBF : blkF A kr = snd (flatten_s (sf_state sr) kr)) by (unfold blkF; rewrite (sdict_get_in kr sr A NA HA); reflexivity).
      assert (EM : concat (map (blkM A) gk) = lift_conts (fst (flatten_s (sf_state sr) kr)) ++ concat (map (blkM (non_rng A)) gk'))
        by (unfold gk; cbn [map concat]; rewrite EBM, BM; reflexivity).
      assert (EF : concat (map (blkF A) gk) = snd (flatten_s (sf_state sr) kr) ++ concat (map (blkF (non_rng A)) gk'))
        by (unfold gk; cbn [map concat]; rewrite EBF, BF; reflexivity).
      assert (EMM : fold_left (fun d k => sdict_update d (blkM (non_rng A) k)) gk' (sdict_update [] (lift_conts (fst (flatten_s (sf_state sr) kr))))
                    = concat (map (blkM A) gk)).
      { rewrite (sdict_update_nodup (lift_conts (fst (flatten_s (sf_state sr) kr))) [])
          by (cbn [app]; rewrite <- EBM; exact (NoDup_app_l _ _ (blk_nodup A kr))).
        cbn [app]. rewrite (fold_update_blocks (blkM (non_rng A)) gk') by (rewrite <- EM; exact (NoDup_app_l _ _ NMF)). symmetry. exact EM. }
      assert (EFF : fold_left (fun d k => sdict_update d (blkF (non_rng A) k)) gk' (sdict_update [] (snd (flatten_s (sf_state sr) kr)))
                    = concat (map (blkF A) gk)).
      { rewrite (sdict_update_nodup (snd (flatten_s (sf_state sr) kr)) [])
          by (cbn [app]; rewrite <- EBF; exact (NoDup_app_r _ _ (blk_nodup A kr))).
        cbn [app]. rewrite (fold_update_blocks (blkF (non_rng A)) gk') by (rewrite <- EF; exact (NoDup_app_r _ _ NMF)). symmetry. exact EF. }
      match goal with |- context [py_for gk' (?dm, ?df) ?b] => replace (py_for gk' (dm, df) b) with
        (Some (concat (map (blkM A) gk), concat (map (blkF A) gk)))
        by (symmetry; rewrite <- EMM, <- EFF; exact (LOOP dm df)) end.
      cbn [obind].
      destruct (take_tail_good A gk repl is_async custom (fx_load x sr (sf_state sr) None) Ngk (blocks_locations W A gk LD) (blocks_relative A gk NE))
        as (st & md & x' & ET & WS & GV & MG & L1 & W1 & HM1).
      exists gk, st, md, x'. split; [exact Ngk|]. split; [exact KA|]. split; [exact ET|]. split; [exact WS|]. split; [exact GV|]. split; [exact MG|].
      split; [|split; [exact W1 | exact HM1]]. rewrite L1. unfold rng_loads. rewrite RI. reflexivity.
    - (* no RNGState *)
      rewrite (rng_item_none A RI) in *. rewrite GK. cbn [obind].
      pose proof (all_blocks_nodup A gk' Ngk') as NMF.
      assert (EMM : fold_left (fun d k => sdict_update d (blkM A k)) gk' [] = concat (map (blkM A) gk'))
        by (rewrite (fold_update_blocks (blkM A) gk' []) by (cbn [app]; exact (NoDup_app_l _ _ NMF)); reflexivity).
      assert (EFF : fold_left (fun d k => sdict_update d (blkF A k)) gk' [] = concat (map (blkF A) gk'))
        by (rewrite (fold_update_blocks (blkF A) gk' []) by (cbn [app]; exact (NoDup_app_r _ _ NMF)); reflexivity).
      match goal with |- context [py_for gk' (?dm, ?df) ?b] => replace (py_for gk' (dm, df) b) with
        (Some (concat (map (blkM A) gk'), concat (map (blkF A) gk')))
        by (symmetry; rewrite <- EMM, <- EFF; exact (LOOP dm df)) end.
      cbn [obind].
      destruct (take_tail_good A gk' repl is_async custom x Ngk' (blocks_locations W A gk' LD) (blocks_relative A gk' NE))
        as (st & md & x' & ET & WS & GV & MG & L1 & W1 & HM1).
      exists gk', st, md, x'. split; [exact Ngk'|]. split; [exact KA'|]. split; [exact ET|]. split; [exact WS|]. split; [exact GV|]. split; [exact MG|].
      split; [|split; [exact W1 | exact HM1]]. rewrite L1. unfold rng_loads. rewrite RI, app_nil_r. reflexivity.
  Qed.
End Take.

(* ================================================================== restore: helpers *)
Lemma sdict_del_absent : forall {V} k (d : sdict V), ~ In k (map fst d) -> sdict_del k d = None.
Proof.
  intros V k d. induction d as [|[k' v] d IH]; cbn [map In fst sdict_del]; intro H; [reflexivity|].
  destruct (str_eqb k' k) eqn:E; [apply str_eqb_eq in E; subst; exfalso; apply H; left; reflexivity|].
  rewrite IH; [reflexivity | intro K; apply H; right; exact K].
Qed.

Lemma sdict_del_get_other : forall {V} k q (d d' : sdict V), sdict_del k d = Some d' -> q <> k -> sdict_get q d' = sdict_get q d.
Proof.
  intros V k q d. induction d as [|[k' v] d IH]; cbn [sdict_del]; intros d' H Hq; [discriminate|].
  destruct (str_eqb k' k) eqn:E.
  - inversion H; subst. apply str_eqb_eq in E. subst k'. cbn [sdict_get].
    destruct (str_eqb k q) eqn:E2; [apply str_eqb_eq in E2; subst; contradiction | reflexivity].
  - destruct (sdict_del k d) as [d0|]; [|discriminate]. cbn [option_map] in H. inversion H; subst. cbn [sdict_get].
    destruct (str_eqb k' q); [reflexivity | exact (IH d0 eq_refl Hq)].
Qed.

Lemma lentry_eqb_eq : forall a b, lentry_eqb a b = true -> a = b.
Proof.
  intros [v r|la ra pa] [v' r'|lb rb pb]; cbn [lentry_eqb]; intro H; try discriminate.
  apply andb_prop in H. destruct H as [H H3]. apply andb_prop in H. destruct H as [H1 H2].
  apply str_eqb_eq in H1. apply Bool.eqb_prop in H2. subst.
  destruct ra as [[x y]|], rb as [[x' y']|]; try discriminate; [|reflexivity].
  apply andb_prop in H3. destruct H3 as [Hx Hy]. apply Z.eqb_eq in Hx. apply Z.eqb_eq in Hy. subst. reflexivity.
Qed.

Lemma lentry_eqb_refl : forall loc rg r, lentry_eqb (LObj loc rg r) (LObj loc rg r) = true.
Proof.
  intros loc rg r. cbn [lentry_eqb]. rewrite str_eqb_refl, Bool.eqb_reflx. cbn [andb].
  destruct rg as [[x y]|]; [rewrite !Z.eqb_refl|]; reflexivity.
Qed.

Lemma assoc_lentry_some : forall {A} l (d : list (lentry * A)) a, assoc_lentry l d = Some a -> In (l, a) d.
Proof.
  intros A l d. induction d as [|[l' a'] d IH]; cbn [assoc_lentry]; intros a H; [discriminate|].
  destruct (lentry_eqb l' l) eqn:E; [inversion H; subst; apply lentry_eqb_eq in E; subst; left; reflexivity | right; exact (IH a H)].
Qed.

Lemma assoc_lentry_in : forall {A} loc rg r (d : list (lentry * A)) a, In (LObj loc rg r, a) d -> exists a', assoc_lentry (LObj loc rg r) d = Some a'.
Proof.
  intros A loc rg r d. induction d as [|[l' a'] d IH]; cbn [assoc_lentry]; intros a H; [contradiction|].
  destruct (lentry_eqb l' (LObj loc rg r)) eqn:E; [eexists; reflexivity|].
  destruct H as [H|H]; [inversion H; subst; rewrite lentry_eqb_refl in E; discriminate | exact (IH a H)].
Qed.

Lemma flat_map_single : forall {A B} (g : A -> B) l, flat_map (fun x => [g x]) l = map g l.
Proof. intros A B g l. induction l as [|x l IH]; [reflexivity|]. cbn [flat_map map app]. rewrite IH. reflexivity. Qed.

Lemma NoDup_flat_map_keys : forall {V U} (g : pystr * V -> sdict U) (l : sdict V),
  (forall it, g it = [] \/ exists v, g it = [(fst it, v)]) -> NoDup (map fst l) -> NoDup (map fst (flat_map g l)).
Proof.
  intros V U g l Hg. induction l as [|it l IH]; cbn [map flat_map]; intro N; [constructor|].
  inversion N as [|? ? Hx N']; subst. destruct (Hg it) as [E|[v E]]; rewrite E; cbn [app map fst]; [exact (IH N')|].
  constructor; [|exact (IH N')]. intro K. apply Hx. apply in_map_iff in K. destruct K as [[q u] [E1 K]]. cbn [fst] in E1. subst q.
  apply in_flat_map in K. destruct K as [it' [H1 H2]]. destruct (Hg it') as [E'|[v' E']]; rewrite E' in H2; [contradiction|].
  destruct H2 as [H2|[]]. inversion H2. apply in_map. exact H1.
Qed.

Lemma conts_of_in : forall (d : sdict mentry) p e, In (p, e) (conts_of d) <-> In (p, MCont e) d.
Proof.
  intros d p e. unfold conts_of. rewrite in_flat_map. split.
  - intros [[q x] [H1 H2]]. cbn [fst snd] in H2. destruct x as [c|l]; [|contradiction]. destruct H2 as [H2|[]]. inversion H2; subst. exact H1.
  - intro H. exists (p, MCont e). split; [exact H | left; reflexivity].
Qed.


(* ================================================================== the loop of _get_state_dict_for_manifest *)
Definition gstep (st : sdict obj * sdict mentry * list rreq * sdict fut * effects) (it : pystr * mentry) :=
  let '(fl, ce, rr, futs, x) := st in
  match snd it with
  | MCont _ => (fl, sdict_set (fst it) (snd it) ce, rr, futs, x)
  | MLeaf l =>
      let out := sdict_get (fst it) fl in
      let fl' := match sdict_del (fst it) fl with Some d => d | None => fl end in
      let x' := mkFx (fx_loads x) (fx_writes x) (fx_preps x ++ [(snd it, out)]) (fx_done x) in
      match l with
      | LPrim v r => (fl', ce, rr ++ [], sdict_set (fst it) (mkFut l None) futs, x')
      | _ => (fl', ce, rr ++ [l], sdict_set (fst it) (mkFut l out) futs, x')
      end
  end.

Definition ce_of (it : pystr * mentry) : sdict mentry := match snd it with MCont _ => [it] | MLeaf _ => [] end.
Definition rr_of (it : pystr * mentry) : list rreq := match snd it with MLeaf (LObj a b c) => [LObj a b c] | _ => [] end.
Definition fut_of (tf : sdict obj) (it : pystr * mentry) : sdict fut :=
  match snd it with
  | MLeaf (LPrim v r) => [(fst it, mkFut (LPrim v r) None)]
  | MLeaf l => [(fst it, mkFut l (sdict_get (fst it) tf))]
  | MCont _ => []
  end.
Definition prep_of (tf : sdict obj) (it : pystr * mentry) : list (mentry * option obj) :=
  match snd it with MLeaf _ => [(snd it, sdict_get (fst it) tf)] | MCont _ => [] end.

Lemma flat_map_keys_sub : forall {V} (g : pystr * mentry -> sdict V) l k,
  (forall it q v, In (q, v) (g it) -> q = fst it) -> In k (map fst (flat_map g l)) -> In k (map fst l).
Proof.
  intros V g l k Hg H. apply in_map_iff in H. destruct H as [[q v] [E H]]. cbn [fst] in E. subst q.
  apply in_flat_map in H. destruct H as [it [H1 H2]]. apply Hg in H2. subst k. apply in_map. exact H1.
Qed.

Lemma gloop_spec : forall tf l pre fl x,
  NoDup (map fst (pre ++ l)) ->
  (forall q, ~ In q (map fst pre) -> sdict_get q fl = sdict_get q tf) ->
  exists fl',
    fold_left gstep l (fl, flat_map ce_of pre, flat_map rr_of pre, flat_map (fut_of tf) pre,
                       mkFx (fx_loads x) (fx_writes x) (fx_preps x ++ flat_map (prep_of tf) pre) (fx_done x)) =
    (fl', flat_map ce_of (pre ++ l), flat_map rr_of (pre ++ l), flat_map (fut_of tf) (pre ++ l),
     mkFx (fx_loads x) (fx_writes x) (fx_preps x ++ flat_map (prep_of tf) (pre ++ l)) (fx_done x)).
Proof.
  intros tf l. induction l as [|it l IH]; intros pre fl x N Hfl; [exists fl; rewrite app_nil_r; reflexivity|].
  cbn [fold_left]. replace (pre ++ it :: l) with ((pre ++ [it]) ++ l) in * by (rewrite <- app_assoc; reflexivity).
  assert (Nk : ~ In (fst it) (map fst pre)).
  { rewrite !map_app in N. apply NoDup_app_l in N. cbn [map] in N. apply NoDup_remove_2 in N. rewrite app_nil_r in N. exact N. }
  assert (Eout : sdict_get (fst it) fl = sdict_get (fst it) tf) by (apply Hfl; exact Nk).
  assert (Kce : ~ In (fst it) (map fst (flat_map ce_of pre))).
  { intro K. apply Nk. apply (flat_map_keys_sub ce_of pre); [|exact K]. intros i q v H. unfold ce_of in H. destruct (snd i); [|contradiction].
    destruct H as [H|[]]. subst i. reflexivity. }
  assert (Kfu : ~ In (fst it) (map fst (flat_map (fut_of tf) pre))).
  { intro K. apply Nk. apply (flat_map_keys_sub (fut_of tf) pre); [|exact K]. intros i q v H. unfold fut_of in H.
    destruct (snd i) as [c|[v0 r0|a b c]]; [contradiction | |]; destruct H as [H|[]]; inversion H; reflexivity. }
  assert (Hfl' : forall fl1, (forall q, q <> fst it -> sdict_get q fl1 = sdict_get q fl) ->
                 forall q, ~ In q (map fst (pre ++ [it])) -> sdict_get q fl1 = sdict_get q tf).
  { intros fl1 H1 q Hq. rewrite map_app in Hq. cbn [map] in Hq. rewrite H1; [apply Hfl|]; intro K; apply Hq; apply in_or_app; [left; exact K | right; left; symmetry; exact K]. }
  destruct it as [p e]. cbn [fst snd] in *. destruct e as [c|lf].
  - destruct (IH (pre ++ [(p, MCont c)]) fl x N) as [fl' E].
    { apply Hfl'. intros; reflexivity. }
    exists fl'. rewrite <- E. f_equal. unfold gstep. cbn [fst snd]. rewrite !flat_map_app. cbn [flat_map ce_of rr_of fut_of prep_of fst snd]. rewrite !app_nil_r.
    rewrite sdict_set_absent by exact Kce. reflexivity.
  - set (fl1 := match sdict_del p fl with Some d => d | None => fl end).
    assert (H1 : forall q, q <> p -> sdict_get q fl1 = sdict_get q fl).
    { intros q Hq. unfold fl1. destruct (sdict_del p fl) eqn:D; [exact (sdict_del_get_other p q fl _ D Hq) | reflexivity]. }
    destruct (IH (pre ++ [(p, MLeaf lf)]) fl1 x N (Hfl' fl1 H1)) as [fl' E].
    exists fl'. rewrite <- E. f_equal. unfold gstep. cbn [fst snd]. fold fl1. rewrite !flat_map_app. cbn [flat_map ce_of rr_of fut_of prep_of fst snd].
    rewrite !app_nil_r. cbn [fx_loads fx_writes fx_preps fx_done]. rewrite Eout.
    destruct lf as [v r|a b c0]; rewrite sdict_set_absent by exact Kfu; rewrite <- ?app_assoc, ?app_nil_r; reflexivity.
Qed.

Section Restore.
  Variable W : world.
  Hypothesis C16_batch_read_same : forall rs r, In r (w_batch_read W rs) <-> In r rs.
  Hypothesis C07_elasticity_noop : forall m rq, w_elasticity W m [] rq = m.

  (* everything the read executor has delivered so far was read from the snapshot's storage *)
  Definition done_ok (st : store) (x : effects) : Prop := forall l r, In (l, r) (fx_done x) -> r = w_read W st l.

  Lemma gsd_spec : forall MC F st key m tf rep mb x o,
    good_view W MC F st m -> NoDup (map fst F) -> wf_obj o -> done_ok st x ->
    (forall p e, split_head p = encode key -> (In (p, MCont e) MC <-> In (p, e) (fst (flatten_s o key)))) ->
    (forall p y, split_head p = encode key -> (In (p, y) F <-> In (p, y) (snd (flatten_s o key)))) ->
    exists x', get_state_dict_for_manifest_gen W key m tf st rep mb x = Some (o, x') /\
               fx_loads x' = fx_loads x /\ fx_writes x' = fx_writes x /\ done_ok st x' /\
               fx_preps x' = fx_preps x ++ flat_map (prep_of tf) m.
  Proof.
    intros MC F st key m tf rep mb x o GV NF WF DK HM HF. destruct GV as (Nm & G2 & G3 & G4).
    unfold get_state_dict_for_manifest_gen.
    rewrite (py_for_fold _ _ gstep).
    2:{ intros [[[[fl ce] rr] futs] fx] [p e] _. cbn [fst snd]. destruct e as [c|lf]; cbn [is_container_entry_m]; [reflexivity|].
        unfold prepare_read_fx, prepare_read_m. 
        destruct (sdict_mem p fl) eqn:M.
        - apply sdict_mem_in in M. destruct (sdict_del_present p fl M) as [d D].
          destruct lf as [v r|a b c]; cbn [obind fst snd]; rewrite D; cbn [obind]; unfold gstep; cbn [fst snd]; rewrite D; reflexivity.
        - apply sdict_mem_false in M. pose proof (sdict_del_absent p fl M) as D.
          destruct lf as [v r|a b c]; cbn [obind fst snd]; unfold gstep; cbn [fst snd]; rewrite D; reflexivity. }
    unfold sdict_items. destruct x as [xl xw xp xd].
    destruct (gloop_spec tf m [] tf (mkFx xl xw xp xd)) as [fl' E]; [exact Nm | intros; reflexivity |].
    cbn [flat_map app fx_loads fx_writes fx_preps fx_done] in E. rewrite app_nil_r in E. rewrite E. clear E.
    cbv beta iota delta [obind].
    set (CE := flat_map ce_of m). set (RR := flat_map rr_of m). set (FU := flat_map (fut_of tf) m).
    rewrite if_some. cbv beta iota.
    match goal with |- context [exec_read_fx W _ _ (if ?c then ?a else ?b) _ _] => set (RR' := if c then a else b) end.
    assert (HRR : forall r, In r RR' <-> In r RR)
      by (intro r; unfold RR'; match goal with |- context [if ?c then _ else _] => destruct c end; first [apply C16_batch_read_same | tauto]).
    set (B := match mb with Some b => b | None => w_memory_budget W end).
    replace (match mb with Some v => Some v | None => Some (w_memory_budget W) end) with (Some B) by (unfold B; destruct mb; reflexivity).
    cbv beta iota.
    set (x1 := exec_read_fx W (mkFx xl xw (xp ++ flat_map (prep_of tf) m) xd) st RR' B (if rep then 0 else w_rank W)).
    assert (DK1 : done_ok st x1).
    { intros l r H. unfold x1, exec_read_fx in H. cbn [fx_done] in H. apply in_app_or in H. destruct H as [H|H]; [exact (DK l r H)|].
      apply in_map_iff in H. destruct H as [r0 [E _]]. inversion E. reflexivity. }
    assert (CEin : forall p e, In (p, e) CE <-> In (p, e) m /\ exists c, e = MCont c).
    { intros p e. unfold CE. rewrite in_flat_map. split.
      - intros [[q y] [H1 H2]]. unfold ce_of in H2. cbn [snd] in H2. destruct y as [c|l]; [|contradiction]. destruct H2 as [H2|[]]. inversion H2; subst.
        split; [exact H1 | eexists; reflexivity].
      - intros [H [c Ec]]. subst e. exists (p, MCont c). split; [exact H | left; reflexivity]. }
    assert (FOBJ : forall p l o', In (p, MLeaf l) m -> leaf_serves W st l o' ->
              exists f, In (p, f) FU /\ fut_obj x1 f = o').
    { intros p l o' Hm Hs. destruct l as [v r|a b c].
      - exists (mkFut (LPrim v r) None). split; [|exact Hs]. unfold FU. apply in_flat_map. exists (p, MLeaf (LPrim v r)). split; [exact Hm | left; reflexivity].
      - exists (mkFut (LObj a b c) (sdict_get p tf)). split.
        + unfold FU. apply in_flat_map. exists (p, MLeaf (LObj a b c)). split; [exact Hm | left; reflexivity].
        + unfold fut_obj. cbn [f_entry]. cbn [leaf_serves] in Hs.
          assert (Hin : In (LObj a b c, w_read W st (LObj a b c)) (fx_done x1)).
          { unfold x1, exec_read_fx. cbn [fx_done]. apply in_or_app. right. apply in_map_iff. exists (LObj a b c). split; [reflexivity|].
            apply HRR. unfold RR. apply in_flat_map. exists (p, MLeaf (LObj a b c)). split; [exact Hm | left; reflexivity]. }
          destruct (assoc_lentry_in a b c _ _ Hin) as [a' Ea]. rewrite Ea. apply assoc_lentry_some in Ea. apply DK1 in Ea. rewrite Ea, Hs. reflexivity. }
    assert (FUin : forall p f, In (p, f) FU -> exists l, In (p, MLeaf l) m /\ f_entry f = l).
    { intros p f H. unfold FU in H. apply in_flat_map in H. destruct H as [[q e] [H1 H2]]. unfold fut_of in H2. cbn [fst snd] in H2.
      destruct e as [c|[v r|a b c]]; [contradiction | |]; destruct H2 as [H2|[]]; inversion H2; subst; eexists; split; try exact H1; reflexivity. }
    assert (NFU : NoDup (map fst FU)).
    { apply NoDup_flat_map_keys; [|exact Nm]. intros [q e]. unfold fut_of. cbn [fst snd]. destruct e as [c|[v r|a b c]]; [left; reflexivity | right; eexists; reflexivity | right; eexists; reflexivity]. }
    assert (EI : inflate_m CE (sdict_of_list (flat_map (fun it : pystr * fut => [(fst it, fut_obj x1 (snd it))]) FU)) key = Some o).
    { rewrite flat_map_single. set (FO := map (fun it : pystr * fut => (fst it, fut_obj x1 (snd it))) FU).
      assert (KFO : map fst FO = map fst FU) by (unfold FO; rewrite map_map; reflexivity).
      rewrite sdict_of_list_nodup by (rewrite KFO; exact NFU).
      unfold inflate_m.
      assert (EX : existsb (fun kv : pystr * mentry => negb (is_container_entry_m (snd kv)) && str_eqb (split_head (fst kv)) (encode_gen key)) CE = false).
      { destruct (existsb _ CE) eqn:EX; [|reflexivity]. apply existsb_exists in EX. destruct EX as [[q e] [H1 H2]].
        apply CEin in H1. destruct H1 as [_ [c Ec]]. subst e. discriminate H2. }
      rewrite EX. cbn [andb].
      apply (generated_inflate_flatten_embedded o key (fst (flatten_s o key)) (snd (flatten_s o key))).
      - exact WF.
      - rewrite flatten_run_gen_correct. destruct (flatten_s o key); reflexivity.
      - unfold conts_of. apply NoDup_flat_map_keys.
        + intros [q e]. cbn [fst snd]. destruct e; [right; eexists; reflexivity | left; reflexivity].
        + unfold CE. apply NoDup_flat_map_keys; [|exact Nm]. intros [q e]. unfold ce_of. cbn [fst snd]. destruct e; [right; eexists; reflexivity | left; reflexivity].
      - rewrite KFO. exact NFU.
      - intros p e HP. rewrite encode_gen_is_encode in HP. rewrite conts_of_in, CEin, <- (HM p e HP), <- G2. split; [tauto|]. intro H. split; [exact H | eexists; reflexivity].
      - intros p y HP. rewrite encode_gen_is_encode in HP. rewrite <- (HF p y HP). split.
        + intro H. unfold FO in H. apply in_map_iff in H. destruct H as [[q f] [E H]]. cbn [fst snd] in E. inversion E; subst q y. clear E.
          destruct (FUin p f H) as [l [Hm El]]. destruct (G3 p l Hm) as [o' [HoF Hs]].
          destruct (FOBJ p l o' Hm Hs) as [f' [Hf' Eo]]. rewrite (NoDup_keys_eq FU p f f' NFU H Hf'). rewrite Eo. exact HoF.
        + intro H. destruct (G4 p y H) as [l Hm]. destruct (G3 p l Hm) as [o' [HoF Hs]].
          rewrite (NoDup_keys_eq F p y o' NF H HoF). destruct (FOBJ p l o' Hm Hs) as [f [Hf Eo]].
          unfold FO. apply in_map_iff. exists (p, f). cbn [fst snd]. rewrite Eo. split; [reflexivity | exact Hf]. }
    rewrite EI. exists x1. split; [reflexivity|]. split; [reflexivity|]. split; [reflexivity|]. split; [exact DK1 | reflexivity].
  Qed.

  Definition strict_of (t : stateful) (strict : bool) : option bool := if sf_is_module t then Some strict else None.

  (* the in-place targets _load_stateful offers: the tensors of the target's own state dict, by logical path *)
  Definition tensor_targets (t : stateful) (key : pystr) : sdict obj :=
    sdict_of_list (flat_map (fun it : pystr * obj => if w_is_tensor W (snd it) then [(fst it, snd it)] else [])
                            (snd (flatten_s (sf_state t) key))).

  Lemma load_stateful_spec : forall MC F snap key t strict mb x o,
    good_view W MC F (snap_store snap) (fst (w_manifest_for_rank W (snap_metadata snap) (w_rank W))) ->
    snd (w_manifest_for_rank W (snap_metadata snap) (w_rank W)) = [] ->
    NoDup (map fst F) -> wf_obj o -> done_ok (snap_store snap) x ->
    (forall p e, split_head p = encode key -> (In (p, MCont e) MC <-> In (p, e) (fst (flatten_s o key)))) ->
    (forall p y, split_head p = encode key -> (In (p, y) F <-> In (p, y) (snd (flatten_s o key)))) ->
    exists x', load_stateful_gen W snap key (Some t) strict (snap_store snap) mb x = Some x' /\
               fx_loads x' = fx_loads x ++ [mkLoad (sf_id t) o (strict_of t strict)] /\
               fx_writes x' = fx_writes x /\ done_ok (snap_store snap) x' /\
               fx_preps x' = fx_preps x ++ flat_map (prep_of (tensor_targets t key)) (fst (w_manifest_for_rank W (snap_metadata snap) (w_rank W))).
  Proof.
    intros MC F snap key t strict mb x o GV MG NF WF DK HM HF.
    unfold load_stateful_gen. rewrite flatten_run_gen_correct. cbv beta iota delta [obind]. cbn [fst snd].
    rewrite MG, C07_elasticity_noop.
    match goal with |- context [get_state_dict_for_manifest_gen W key ?m ?tf ?st ?rep mb x] =>
      destruct (gsd_spec MC F st key m tf rep mb x o GV NF WF DK HM HF) as (x1 & E1 & L1 & W1 & D1 & P1) end.
    rewrite E1. cbn [fst snd]. unfold strict_of.
    destruct (sf_is_module t); eexists; (split; [reflexivity|]); unfold fx_load; cbn [fx_loads fx_writes fx_preps fx_done];
      rewrite L1; (split; [reflexivity|]); (split; [exact W1|]); (split; [exact D1|]); rewrite P1; unfold sdict_items, tensor_targets; reflexivity.
  Qed.
End Restore.

(* ================================================================== read_object *)
Lemma py_split1_app : forall a b, slash_free a -> py_split1 (a ++ 47 :: b) = Some (a, b).
Proof.
  intros a b H. induction a as [|c a IH]; cbn [app py_split1].
  - change (47 =? 47) with true. reflexivity.
  - destruct (c =? 47) eqn:E; [apply Z.eqb_eq in E; subst; exfalso; apply H; left; reflexivity|].
    rewrite IH; [reflexivity | intro K; apply H; right; exact K].
Qed.

Lemma str_of_Z_slash_free : forall z, slash_free (str_of_Z z).
Proof.
  intros z K. apply str_of_Z_chars in K. destruct K as [K|K]; [|discriminate].
  unfold is_digit in K. lia.
Qed.

Section ReadObject.
  Variable W : world.
  Hypothesis C16_batch_read_same : forall rs r, In r (w_batch_read W rs) <-> In r rs.

  Theorem read_object_spec : forall MC F snap p o out mb x,
    good_view W MC F (snap_store snap) (fst (w_manifest_for_rank W (snap_metadata snap) (w_rank W))) ->
    snd (w_manifest_for_rank W (snap_metadata snap) (w_rank W)) = [] ->
    NoDup (map fst F) -> done_ok W (snap_store snap) x -> In (p, o) F ->
    exists x', read_object_gen W snap (str_of_Z (w_rank W) ++ 47 :: p) out mb x = Some (o, x').
  Proof.
    intros MC F snap p o out mb x (Nv & G2 & G3 & G4) MG NF DK HF.
    unfold read_object_gen. rewrite (py_split1_app _ _ (str_of_Z_slash_free (w_rank W))). cbn [obind fst snd].
    rewrite parse_int_str_of_Z. cbn [obind]. rewrite MG.
    set (v := fst (w_manifest_for_rank W (snap_metadata snap) (w_rank W))) in *.
    destruct (G4 p o HF) as [l Hl]. pose proof (sdict_get_in p (MLeaf l) v Nv Hl) as GL.
    assert (Mv : sdict_mem p v = true) by (unfold sdict_mem; rewrite GL; reflexivity).
    rewrite Mv. cbn [sdict_mem sdict_get negb andb]. unfold py_get_or. cbn [sdict_get]. rewrite GL. cbn [obind].
    destruct (G3 p l Hl) as [o' [Ho' Hs]]. rewrite (NoDup_keys_eq F p o o' NF HF Ho'). clear HF.
    destruct l as [v0 r0|a b c].
    - cbn [is_primitive_entry entry_get_value obind]. cbn [leaf_serves] in Hs. subst v0. eexists. reflexivity.
    - cbn [is_primitive_entry]. unfold prepare_read_fx, prepare_read_m. cbn [obind fst snd]. cbn [leaf_serves] in Hs.
      assert (FIN : forall X0 RR' B r, done_ok W (snap_store snap) X0 -> In (LObj a b c) RR' ->
                exists x', Some (fut_obj (exec_read_fx W X0 (snap_store snap) RR' B r) (mkFut (LObj a b c) out),
                                 exec_read_fx W X0 (snap_store snap) RR' B r) = Some (o', x')).
      { intros X0 RR' B r DK0 HRR. set (X1 := exec_read_fx W X0 (snap_store snap) RR' B r). exists X1. f_equal. f_equal.
        unfold fut_obj. cbn [f_entry].
        assert (DK1 : done_ok W (snap_store snap) X1).
        { intros l r1 H. unfold X1, exec_read_fx in H. cbn [fx_done] in H. apply in_app_or in H. destruct H as [H|H]; [exact (DK0 l r1 H)|].
          apply in_map_iff in H. destruct H as [r2 [E _]]. inversion E. reflexivity. }
        assert (Hin : In (LObj a b c, w_read W (snap_store snap) (LObj a b c)) (fx_done X1)).
        { unfold X1, exec_read_fx. cbn [fx_done]. apply in_or_app. right. apply in_map_iff. exists (LObj a b c). split; [reflexivity | exact HRR]. }
        destruct (assoc_lentry_in a b c _ _ Hin) as [a' Ea]. rewrite Ea. apply assoc_lentry_some in Ea. apply DK1 in Ea. rewrite Ea, Hs. reflexivity. }
      assert (DK0 : done_ok W (snap_store snap) (mkFx (fx_loads x) (fx_writes x) (fx_preps x ++ [(MLeaf (LObj a b c), out)]) (fx_done x)))
        by (intros l r H; exact (DK l r H)).
      destruct (negb (w_batching_disabled W) && is_none mb); cbn [obind]; apply FIN; try exact DK0; [apply C16_batch_read_same|]; left; reflexivity.
  Qed.

  (* a path that is not in the rank's view raises *)
  Theorem read_object_unknown : forall snap p out mb x,
    snd (w_manifest_for_rank W (snap_metadata snap) (w_rank W)) = [] ->
    ~ In p (map fst (fst (w_manifest_for_rank W (snap_metadata snap) (w_rank W)))) ->
    read_object_gen W snap (str_of_Z (w_rank W) ++ 47 :: p) out mb x = None.
  Proof.
    intros snap p out mb x MG H. unfold read_object_gen. rewrite (py_split1_app _ _ (str_of_Z_slash_free (w_rank W))). cbn [obind fst snd].
    rewrite parse_int_str_of_Z. cbn [obind]. rewrite MG. apply sdict_mem_false in H. rewrite H. reflexivity.
  Qed.
End ReadObject.

(* ================================================================== take, then restore *)
(* the load_state_dict calls restore makes for the targets T, in the order of the (sorted) global keys *)
Definition expected_loads (A T : sdict stateful) (strict : bool) (gk : list pystr) : list load_ev :=
  flat_map (fun k => match sdict_get k T, sdict_get k A with
                     | Some t, Some a => [mkLoad (sf_id t) (sf_state a) (strict_of t strict)]
                     | _, _ => []
                     end) gk.

(* the prepare_read calls of restore: for every requested stateful, every leaf entry of the rank's manifest view, with the
   tensor the stateful's own state dict holds at that logical path as in-place target *)
Definition expected_preps (W : world) (T : sdict stateful) (view : sdict mentry) (gk : list pystr) : list (mentry * option obj) :=
  flat_map (fun k => match sdict_get k T with
                     | Some t => flat_map (prep_of (tensor_targets W t k)) view
                     | None => []
                     end) gk.

(* ... and, last, the RNGState of the targets (if any): restore loads it after every other stateful *)
Definition rng_restore_load (A T : sdict stateful) (strict : bool) : list load_ev :=
  match rng_item T with
  | Some (k, t) => match sdict_get k A with Some a => [mkLoad (sf_id t) (sf_state a) (strict_of t strict)] | None => [] end
  | None => []
  end.
Definition all_expected_loads (A T : sdict stateful) (strict : bool) (gk : list pystr) : list load_ev :=
  expected_loads A (non_rng T) strict gk ++ rng_restore_load A T strict.
Definition all_expected_preps (W : world) (T : sdict stateful) (view : sdict mentry) (gk : list pystr) : list (mentry * option obj) :=
  expected_preps W (non_rng T) view gk ++
  match rng_item T with Some (k, t) => flat_map (prep_of (tensor_targets W t k)) view | None => [] end.

Definition wf_app (A : sdict stateful) : Prop := forall k a, In (k, a) A -> wf_obj (sf_state a).

Lemma blocks_key : forall A gk k a, NoDup (map fst A) -> In (k, a) A -> In k gk ->
  (forall p e, split_head p = encode k -> (In (p, MCont e) (concat (map (blkM A) gk)) <-> In (p, e) (fst (flatten_s (sf_state a) k)))) /\
  (forall p y, split_head p = encode k -> (In (p, y) (concat (map (blkF A) gk)) <-> In (p, y) (snd (flatten_s (sf_state a) k)))).
Proof.
  intros A gk k a NA HA Hk. pose proof (sdict_get_in k a A NA HA) as G.
  assert (BM : blkM A k = lift_conts (fst (flatten_s (sf_state a) k))) by (unfold blkM; rewrite G; reflexivity).
  assert (BF : blkF A k = snd (flatten_s (sf_state a) k)) by (unfold blkF; rewrite G; reflexivity).
  split; intros p y HP; split; intro H.
  - apply in_concat in H. destruct H as [b [Hb Hx]]. apply in_map_iff in Hb. destruct Hb as [k' [E _]]. subst b.
    assert (k' = k). { apply encode_inj. rewrite <- HP. symmetry. apply (blk_heads A k' p). apply in_or_app. left. apply (in_map fst) in Hx. exact Hx. }
    subst k'. rewrite BM in Hx. unfold lift_conts in Hx. apply in_map_iff in Hx. destruct Hx as [[q c] [E Hq]]. inversion E; subst. exact Hq.
  - apply in_concat. exists (blkM A k). split; [apply in_map; exact Hk|]. rewrite BM. unfold lift_conts. apply in_map_iff. exists (p, y). split; [reflexivity | exact H].
  - apply in_concat in H. destruct H as [b [Hb Hx]]. apply in_map_iff in Hb. destruct Hb as [k' [E _]]. subst b.
    assert (k' = k). { apply encode_inj. rewrite <- HP. symmetry. apply (blk_heads A k' p). apply in_or_app. right. apply (in_map fst) in Hx. exact Hx. }
    subst k'. rewrite BF in Hx. exact Hx.
  - apply in_concat. exists (blkF A k). split; [apply in_map; exact Hk|]. rewrite BF. exact H.
Qed.

Section TakeRestore.
  Variable W : world.
  Hypothesis C12_all_gather_has_own : forall (A : Type) (x : A), In x (w_all_gather W A x).
  Hypothesis C06_partition_keeps : forall es ws, NoDup (map fst es) -> map fst ws = map fst es ->
    exists es' ws', w_partition W es ws = Some (es', ws') /\ Permutation es' es /\ Permutation ws' ws.
  Hypothesis C17_store_exact : forall st loc o r, NoDup (map fst st) -> In (loc, o) st -> w_read W st (LObj loc None r) = Some o.
  Hypothesis C01_batch_write_exact : forall es wrs, NoDup (map wr_path wrs) ->
    Forall2 (stored_as W wrs (snd (w_batch_write W es wrs))) es (fst (w_batch_write W es wrs)).
  Hypothesis C06_consolidate_total : forall m, NoDup (map fst m) -> exists ms, w_consolidate W (w_all_gather W _ m) = Some ms.
  Hypothesis C07_view_same_world : forall m ms, NoDup (map fst m) -> (forall p, In p (map fst m) -> starts_slash p = false) ->
    w_consolidate W (w_all_gather W _ m) = Some ms ->
    let v := w_manifest_for_rank W (mkMeta (w_world_size W) (global_of ms)) (w_rank W) in
    NoDup (map fst (fst v)) /\ (forall p e, In (p, e) (fst v) <-> In (p, e) m) /\ snd v = [].
  Hypothesis C16_batch_read_same : forall rs r, In r (w_batch_read W rs) <-> In r rs.
  Hypothesis C07_elasticity_noop : forall m rq, w_elasticity W m [] rq = m.

  Lemma restore_loop : forall A gk snap T strict mb
      (body : effects -> pystr -> option effects),
    NoDup (map fst A) -> wf_app A -> (forall k, In k (map fst A) -> In k gk) ->
    good_view W (concat (map (blkM A) gk)) (concat (map (blkF A) gk)) (snap_store snap) (fst (w_manifest_for_rank W (snap_metadata snap) (w_rank W))) ->
    snd (w_manifest_for_rank W (snap_metadata snap) (w_rank W)) = [] ->
    NoDup (map fst (concat (map (blkF A) gk))) ->
    (forall k t, In (k, t) T -> exists a, In (k, a) A) -> NoDup (map fst T) ->
    (forall fx k, body fx k = obind (load_stateful_gen W snap k (sdict_get k T) strict (snap_store snap) mb fx) Some) ->
    forall l x, done_ok W (snap_store snap) x ->
    exists x', py_for l x body = Some x' /\ done_ok W (snap_store snap) x' /\
               fx_loads x' = fx_loads x ++ expected_loads A T strict l /\
               fx_preps x' = fx_preps x ++ expected_preps W T (fst (w_manifest_for_rank W (snap_metadata snap) (w_rank W))) l.
  Proof.
    intros A gk snap T strict mb body NA WA KA GV MG NF TA NT HB.
    induction l as [|k l IH]; intros x DK.
    - exists x. split; [reflexivity|]. split; [exact DK|]. unfold expected_loads, expected_preps. cbn [flat_map]. rewrite !app_nil_r. split; reflexivity.
    - cbn [py_for]. rewrite HB. unfold expected_loads, expected_preps. cbn [flat_map]. fold (expected_loads A T strict l).
      fold (expected_preps W T (fst (w_manifest_for_rank W (snap_metadata snap) (w_rank W))) l).
      destruct (sdict_get k T) as [t|] eqn:GT.
      + apply sdict_get_some_in in GT. destruct (TA k t GT) as [a HA]. rewrite (sdict_get_in k a A NA HA).
        destruct (blocks_key A gk k a NA HA (KA k (in_sdict_keys _ _ _ HA))) as [HM HF].
        destruct (load_stateful_spec W C16_batch_read_same C07_elasticity_noop _ _ snap k t strict mb x (sf_state a) GV MG NF (WA k a HA) DK HM HF)
          as (x1 & E1 & L1 & _ & D1 & P1).
        rewrite E1. cbn [obind]. destruct (IH x1 D1) as (x2 & E2 & D2 & L2 & P2). exists x2. split; [exact E2|]. split; [exact D2|].
        rewrite L2, L1, P2, P1, <- !app_assoc. split; reflexivity.
      + unfold load_stateful_gen. cbn [obind]. destruct (IH x DK) as (x2 & E2 & D2 & L2 & P2). exists x2. split; [exact E2|]. split; [exact D2|].
        cbn [app]. split; [exact L2 | exact P2].
  Qed.

  Lemma take_ok : forall A repl is_async custom path,
    NoDup (map fst A) -> rng_at_most_one A -> nonempty_keys A -> locations_distinct W A ->
    exists gkA st md x1,
      NoDup gkA /\ (forall k, In k (map fst A) -> In k gkA) /\
      take_impl_gen W path A repl [] is_async custom fx0 = Some ((st, md), x1) /\
      good_view W (concat (map (blkM A) gkA)) (concat (map (blkF A) gkA)) st (fst (w_manifest_for_rank W md (w_rank W))) /\
      snd (w_manifest_for_rank W md (w_rank W)) = [] /\
      fx_loads x1 = rng_loads A /\
      fx_writes x1 = map (wcall_of W (w_calc_replicated W (concat (map (blkF A) gkA)) repl) is_async custom) (concat (map (blkF A) gkA)) /\
      exists M1 ms, w_consolidate W (w_all_gather W _ M1) = Some ms /\ md_manifest md = global_of ms /\ NoDup (map fst M1) /\
                    (forall p, In p (map fst M1) -> starts_slash p = false) /\
                    (forall p e, In (p, e) (fst (w_manifest_for_rank W md (w_rank W))) <-> In (p, e) M1).
  Proof.
    intros A repl is_async custom path NA U NE LD.
    destruct (take_good W C12_all_gather_has_own C06_partition_keeps C17_store_exact C01_batch_write_exact C06_consolidate_total C07_view_same_world
                A repl is_async custom fx0 path NA U NE LD) as (gkA & st & md & x1 & NgA & KA & ET & _ & GV & MG & L1 & W1 & HM1).
    exists gkA, st, md, x1. repeat (split; [assumption|]). exact HM1.
  Qed.

  (* (a) take, then restore of any subset of the statefuls; at most one RNGState on either side *)
  Theorem take_restore : forall A repl is_async custom path T strict,
    NoDup (map fst A) -> rng_at_most_one A -> wf_app A -> nonempty_keys A -> locations_distinct W A ->
    NoDup (map fst T) -> rng_at_most_one T -> (forall k t, In (k, t) T -> exists a, In (k, a) A) ->
    exists st md x1 gkA gk x2,
      NoDup gkA /\ (forall k, In k (map fst A) -> In k gkA) /\
      take_impl_gen W path A repl [] is_async custom fx0 = Some ((st, md), x1) /\
      fx_loads x1 = rng_loads A /\
      fx_writes x1 = map (wcall_of W (w_calc_replicated W (concat (map (blkF A) gkA)) repl) is_async custom) (concat (map (blkF A) gkA)) /\
      gather_keys_gen W (sdict_keys (non_rng T)) = Some gk /\ NoDup gk /\ (forall k, In k (map fst (non_rng T)) -> In k gk) /\
      restore_gen W (mkSnap md st) T strict fx0 = Some x2 /\
      fx_loads x2 = all_expected_loads A T strict gk /\
      fx_preps x2 = all_expected_preps W T (fst (w_manifest_for_rank W md (w_rank W))) gk.
  Proof.
    intros A repl is_async custom path T strict NA UA WA NE LD NT UT TA.
    destruct (take_ok A repl is_async custom path NA UA NE LD) as (gkA & st & md & x1 & NgA & KA & ET & GV & MG & L1 & W1 & _).
    destruct (gather_keys_spec W C12_all_gather_has_own (sdict_keys (non_rng T))) as (gk & GT & NgT & KT).
    exists st, md, x1, gkA, gk.
    pose proof (all_blocks_nodup A gkA NgA) as NMF.
    assert (TA' : forall k t, In (k, t) (non_rng T) -> exists a, In (k, a) A) by (intros k t H; apply non_rng_in in H; exact (TA k t (proj1 H))).
    destruct (restore_loop A gkA (mkSnap md st) (non_rng T) strict (Some (w_memory_budget W))
                (fun fx k => obind (load_stateful_gen W (mkSnap md st) k (sdict_get k (non_rng T)) strict st (Some (w_memory_budget W)) fx) Some)
                NA WA KA GV MG (NoDup_app_r _ _ NMF) TA' (non_rng_nodup T NT) (fun fx k => eq_refl) gk fx0) as (x2 & E2 & D2 & L2 & P2).
    { intros l r []. }
    assert (FIN : exists x3, restore_gen W (mkSnap md st) T strict fx0 = Some x3 /\
                             fx_loads x3 = all_expected_loads A T strict gk /\
                             fx_preps x3 = all_expected_preps W T (fst (w_manifest_for_rank W md (w_rank W))) gk).
    { unfold restore_gen. rewrite (pop_rng_state_spec W T NT UT). cbn [obind fst snd snap_store]. rewrite GT. cbn [obind].
      match goal with |- context [py_for gk fx0 ?b] => replace (py_for gk fx0 b) with (Some x2) by (rewrite <- E2; reflexivity) end.
      cbn [obind]. unfold all_expected_loads, all_expected_preps, rng_restore_load.
      destruct (rng_item T) as [[kT tT]|] eqn:RI.
      - destruct (rng_item_in T kT tT RI) as [HT _]. destruct (TA kT tT HT) as [a HA]. cbn [fst snd].
        destruct (blocks_key A gkA kT a NA HA (KA kT (in_sdict_keys _ _ _ HA))) as [HM HF].
        destruct (load_stateful_spec W C16_batch_read_same C07_elasticity_noop _ _ (mkSnap md st) kT tT strict (Some (w_memory_budget W)) x2 (sf_state a)
                    GV MG (NoDup_app_r _ _ NMF) (WA kT a HA) D2 HM HF) as (x3 & E3 & L3 & _ & _ & P3).
        cbn [snap_store] in E3. rewrite E3. cbn [obind]. exists x3. split; [reflexivity|].
        rewrite (sdict_get_in kT a A NA HA). cbn [snap_metadata] in P3. rewrite L3, L2, P3, P2. cbn [app fx_loads fx_preps fx0]. split; reflexivity.
      - exists x2. split; [reflexivity|]. rewrite L2, P2, !app_nil_r. cbn [app fx_loads fx_preps fx0]. split; reflexivity. }
    destruct FIN as (x3 & E3 & L3 & P3). exists x3.
    split; [exact NgA|]. split; [exact KA|]. split; [exact ET|]. split; [exact L1|]. split; [exact W1|]. split; [exact GT|].
    split; [exact NgT|]. split; [exact KT|]. split; [exact E3|]. split; [exact L3 | exact P3].
  Qed.

  Lemma blocks_in : forall A gk, NoDup (map fst A) -> (forall k, In k (map fst A) -> In k gk) ->
    (forall p e, In (p, MCont e) (concat (map (blkM A) gk)) <-> exists k a, In (k, a) A /\ In (p, e) (fst (flatten_s (sf_state a) k))) /\
    (forall p o, In (p, o) (concat (map (blkF A) gk)) <-> exists k a, In (k, a) A /\ In (p, o) (snd (flatten_s (sf_state a) k))).
  Proof.
    intros A gk NA KA. split; intros p y; split.
    - intro H. apply in_concat in H. destruct H as [b [Hb Hx]]. apply in_map_iff in Hb. destruct Hb as [k [E _]]. subst b.
      unfold blkM in Hx. destruct (sdict_get k A) as [a|] eqn:G; [|contradiction]. apply sdict_get_some_in in G. exists k, a. split; [exact G|].
      unfold lift_conts in Hx. apply in_map_iff in Hx. destruct Hx as [[q c] [E Hq]]. inversion E; subst. exact Hq.
    - intros [k [a [HA H]]]. apply in_concat. exists (blkM A k). split; [apply in_map; apply KA; exact (in_sdict_keys _ _ _ HA)|].
      unfold blkM. rewrite (sdict_get_in k a A NA HA). unfold lift_conts. apply in_map_iff. exists (p, y). split; [reflexivity | exact H].
    - intro H. apply in_concat in H. destruct H as [b [Hb Hx]]. apply in_map_iff in Hb. destruct Hb as [k [E _]]. subst b.
      unfold blkF in Hx. destruct (sdict_get k A) as [a|] eqn:G; [|contradiction]. apply sdict_get_some_in in G. exists k, a. split; [exact G | exact Hx].
    - intros [k [a [HA H]]]. apply in_concat. exists (blkF A k). split; [apply in_map; apply KA; exact (in_sdict_keys _ _ _ HA)|].
      unfold blkF. rewrite (sdict_get_in k a A NA HA). exact H.
  Qed.

  (* (b) the manifest take wrote, as the rank sees it: every container entry of flatten, and exactly one entry per leaf *)
  Theorem take_manifest : forall A repl is_async custom path,
    NoDup (map fst A) -> rng_at_most_one A -> nonempty_keys A -> locations_distinct W A ->
    exists st md x1,
      take_impl_gen W path A repl [] is_async custom fx0 = Some ((st, md), x1) /\
      let v := fst (w_manifest_for_rank W md (w_rank W)) in
      NoDup (map fst v) /\
      (forall p e, In (p, MCont e) v <-> exists k a, In (k, a) A /\ In (p, e) (fst (flatten_s (sf_state a) k))) /\
      (forall k a p o, In (k, a) A -> In (p, o) (snd (flatten_s (sf_state a) k)) -> exists l, In (p, MLeaf l) v) /\
      (forall p l, In (p, MLeaf l) v -> exists k a o, In (k, a) A /\ In (p, o) (snd (flatten_s (sf_state a) k)) /\ leaf_serves W st l o) /\
      exists M1 ms, w_consolidate W (w_all_gather W _ M1) = Some ms /\ md_manifest md = global_of ms /\ NoDup (map fst M1) /\
                    (forall p, In p (map fst M1) -> starts_slash p = false) /\ (forall p e, In (p, e) v <-> In (p, e) M1).
  Proof.
    intros A repl is_async custom path NA RA NE LD.
    destruct (take_ok A repl is_async custom path NA RA NE LD) as (gkA & st & md & x1 & NgA & KA & ET & (V1 & G2 & G3 & G4) & MG & L1 & W1 & HM1).
    destruct (blocks_in A gkA NA KA) as [BM BF].
    exists st, md, x1. split; [exact ET|]. cbv zeta. split; [exact V1|]. split; [|split; [|split; [|exact HM1]]].
    - intros p e. rewrite G2. apply BM.
    - intros k a p o HA Ho. apply (G4 p o). apply BF. exists k, a. auto.
    - intros p l H. destruct (G3 p l H) as [o [Ho Hs]]. apply BF in Ho. destruct Ho as [k [a [HA Ho]]]. exists k, a, o. auto.
  Qed.

  (* (c) read_object of the path of a leaf *)
  Theorem take_read_object : forall A repl is_async custom path out mb,
    NoDup (map fst A) -> rng_at_most_one A -> nonempty_keys A -> locations_distinct W A ->
    exists st md x1,
      take_impl_gen W path A repl [] is_async custom fx0 = Some ((st, md), x1) /\
      (forall k a p o, In (k, a) A -> In (p, o) (snd (flatten_s (sf_state a) k)) ->
         exists x', read_object_gen W (mkSnap md st) (str_of_Z (w_rank W) ++ 47 :: p) out mb fx0 = Some (o, x')) /\
      (forall p, ~ In p (map fst (fst (w_manifest_for_rank W md (w_rank W)))) ->
         read_object_gen W (mkSnap md st) (str_of_Z (w_rank W) ++ 47 :: p) out mb fx0 = None).
  Proof.
    intros A repl is_async custom path out mb NA RA NE LD.
    destruct (take_ok A repl is_async custom path NA RA NE LD) as (gkA & st & md & x1 & NgA & KA & ET & GV & MG & L1 & W1 & HM1).
    destruct (blocks_in A gkA NA KA) as [BM BF]. pose proof (all_blocks_nodup A gkA NgA) as NMF.
    exists st, md, x1. split; [exact ET|]. split.
    - intros k a p o HA Ho.
      apply (read_object_spec W C16_batch_read_same _ _ (mkSnap md st) p o out mb fx0 GV MG (NoDup_app_r _ _ NMF)); [intros l r [] |].
      apply BF. exists k, a. auto.
    - intros p H. exact (read_object_unknown W (mkSnap md st) p out mb fx0 MG H).
  Qed.
End TakeRestore.

(* ================================================================== world1 satisfies every law *)
Section World1.
  Variables (nobatch : bool) (table : list (pystr * pystr)).
  Let W1 := world1 nobatch table.

  Lemma w1_all_gather : forall (A : Type) (x : A), In x (w_all_gather W1 A x).
  Proof. intros A x. left. reflexivity. Qed.

  Lemma w1_partition : forall es ws, NoDup (map fst es) -> map fst ws = map fst es ->
    exists es' ws', w_partition W1 es ws = Some (es', ws') /\ Permutation es' es /\ Permutation ws' ws.
  Proof. intros es ws _ _. exists es, ws. split; [reflexivity|]. split; apply Permutation_refl. Qed.

  Lemma w1_store_exact : forall st loc o r, NoDup (map fst st) -> In (loc, o) st -> w_read W1 st (LObj loc None r) = Some o.
  Proof. intros st loc o r N H. cbn [W1 world1 w_read]. exact (sdict_get_in loc o st N H). Qed.

  Lemma w1_batch_write : forall es wrs, NoDup (map wr_path wrs) ->
    Forall2 (stored_as W1 wrs (snd (w_batch_write W1 es wrs))) es (fst (w_batch_write W1 es wrs)).
  Proof.
    intros es wrs N. cbn [W1 world1 w_batch_write fst snd]. apply Forall2_refl_in. intros e _.
    destruct e as [c|[v r|loc [rg|] r]]; cbn [stored_as]; try reflexivity.
    exists (LObj loc None r). split; [reflexivity|]. split; [intros v r'; discriminate|].
    intros o a c Hin. apply w1_store_exact; [rewrite map_map; exact N|].
    apply in_map_iff. exists (mkWreq loc o a c). split; [reflexivity | exact Hin].
  Qed.

  Lemma w1_consolidate : forall m, NoDup (map fst m) -> exists ms, w_consolidate W1 (w_all_gather W1 _ m) = Some ms.
  Proof. intros m _. eexists. reflexivity. Qed.

  Lemma os_join_rank0 : forall p, starts_slash p = false -> os_join (str_of_Z 0) p = 48 :: 47 :: p.
  Proof. intros p H. unfold os_join. rewrite H. reflexivity. Qed.

  Lemma fold_set_map : forall {V} (f : pystr -> pystr) (m g : sdict V),
    fold_left (fun g kv => sdict_set (f (fst kv)) (snd kv) g) m g = sdict_update g (map (fun kv => (f (fst kv), snd kv)) m).
  Proof. intros V f m. induction m as [|kv m IH]; intro g; [reflexivity|]. cbn [fold_left map]. rewrite IH. reflexivity. Qed.

  Lemma global_of_one : forall m, NoDup (map fst m) -> (forall p, In p (map fst m) -> starts_slash p = false) ->
    global_of [m] = map (fun kv => (48 :: 47 :: fst kv, snd kv)) m.
  Proof.
    intros m N R. unfold global_of, enumerate. cbn [length seq map combine fold_left fst snd].
    change (Z.of_nat 0) with 0. rewrite (fold_set_map (os_join (str_of_Z 0)) m []).
    assert (E : map (fun kv : pystr * mentry => (os_join (str_of_Z 0) (fst kv), snd kv)) m = map (fun kv => (48 :: 47 :: fst kv, snd kv)) m).
    { apply map_ext_in. intros kv H. rewrite os_join_rank0; [reflexivity|]. apply R. apply in_map. exact H. }
    rewrite E. apply sdict_update_nodup. cbn [app]. rewrite map_map. cbn [fst].
    rewrite <- (map_map fst (fun k => 48 :: 47 :: k)). apply NoDup_map_inj; [|exact N]. intros a b H. inversion H. reflexivity.
  Qed.

  Lemma view1_global : forall m ws, (forall p, In p (map fst m) -> starts_slash p = false) ->
    view1 (mkMeta ws (map (fun kv => (48 :: 47 :: fst kv, snd kv)) m)) 0 = m.
  Proof.
    intros m ws R. unfold view1. cbn [md_manifest]. induction m as [|[p e] m IH]; [reflexivity|].
    cbn [map flat_map fst snd py_split1]. change (48 =? 47) with false. cbn [py_split1].
    assert (E47 : (47 =? 47) = true) by reflexivity. rewrite E47.
    change (parse_int [48]) with (Some 0). change (0 =? 0) with true. cbn [app]. rewrite IH; [reflexivity|].
    intros q H. apply R. right. exact H.
  Qed.

  Lemma w1_view : forall m ms, NoDup (map fst m) -> (forall p, In p (map fst m) -> starts_slash p = false) ->
    w_consolidate W1 (w_all_gather W1 _ m) = Some ms ->
    let v := w_manifest_for_rank W1 (mkMeta (w_world_size W1) (global_of ms)) (w_rank W1) in
    NoDup (map fst (fst v)) /\ (forall p e, In (p, e) (fst v) <-> In (p, e) m) /\ snd v = [].
  Proof.
    intros m ms N R E. cbn [W1 world1 w_consolidate w_all_gather] in E. inversion E; subst ms. clear E.
    cbn [W1 world1 w_manifest_for_rank w_world_size w_rank fst snd]. rewrite (global_of_one m N R), (view1_global m 1 R).
    split; [exact N|]. split; [tauto | reflexivity].
  Qed.

  Lemma w1_batch_read : forall rs r, In r (w_batch_read W1 rs) <-> In r rs.
  Proof. intros; cbn [W1 world1 w_batch_read]; tauto. Qed.

  Lemma w1_elasticity : forall m rq, w_elasticity W1 m [] rq = m.
  Proof. reflexivity. Qed.

  (* C05 for the one-rank world: "replicated/<path>" and "0/<path>" never collide for relative paths *)
  Lemma w1_locations : forall A, nonempty_keys A -> locations_distinct W1 A.
  Proof.
    intros A NE k a k' a' p o p' o' r r' HA HA' Hp Hp' E.
    assert (R : forall k a p o, In (k, a) A -> In (p, o) (snd (flatten_s (sf_state a) k)) -> starts_slash p = false).
    { intros k0 a0 p0 o0 H0 H1. apply (head_not_slash p0 (encode k0)).
      - apply (flatten_s_head (sf_state a0) k0). apply in_or_app. right. apply (in_map fst) in H1. exact H1.
      - intro K. apply encode_nil in K. subst k0. exact (NE [] a0 H0 eq_refl). }
    pose proof (R k a p o HA Hp) as S. pose proof (R k' a' p' o' HA' Hp') as S'.
    cbn [W1 world1 w_is_sharded w_rank] in E. rewrite !g_storage_path_eq in E. unfold storage_path, prefix_of, os_join in E.
    rewrite S, S' in E. destruct r, r'; cbn in E; inversion E; reflexivity.
  Qed.
End World1.


(* ================================================================== the theorems in the one-rank world, no law left as a hypothesis *)
Theorem take_restore_one_rank : forall nobatch table A repl is_async custom path T strict,
  let W := world1 nobatch table in
  NoDup (map fst A) -> rng_at_most_one A -> wf_app A -> nonempty_keys A ->
  NoDup (map fst T) -> rng_at_most_one T -> (forall k t, In (k, t) T -> exists a, In (k, a) A) ->
  exists st md x1 gkA gk x2,
    NoDup gkA /\ (forall k, In k (map fst A) -> In k gkA) /\
    take_impl_gen W path A repl [] is_async custom fx0 = Some ((st, md), x1) /\
    fx_loads x1 = rng_loads A /\
    fx_writes x1 = map (wcall_of W (w_calc_replicated W (concat (map (blkF A) gkA)) repl) is_async custom) (concat (map (blkF A) gkA)) /\
    gather_keys_gen W (sdict_keys (non_rng T)) = Some gk /\ NoDup gk /\ (forall k, In k (map fst (non_rng T)) -> In k gk) /\
    restore_gen W (mkSnap md st) T strict fx0 = Some x2 /\
    fx_loads x2 = all_expected_loads A T strict gk /\
    fx_preps x2 = all_expected_preps W T (fst (w_manifest_for_rank W md (w_rank W))) gk.
Proof.
  intros nobatch table A repl is_async custom path T strict W NA RA WA NE NT RT TA.
  exact (take_restore W (w1_all_gather nobatch table) (w1_partition nobatch table) (w1_store_exact nobatch table)
           (w1_batch_write nobatch table) (w1_consolidate nobatch table) (w1_view nobatch table) (w1_batch_read nobatch table)
           (w1_elasticity nobatch table) A repl is_async custom path T strict NA RA WA NE (w1_locations nobatch table A NE) NT RT TA).
Qed.

(* what the closed form of the loads says: exactly the requested statefuls are loaded, each with the state dict its
   counterpart returned at take time (the RNGState, if any, last) *)
Lemma all_expected_loads_in : forall A T strict gk ev, NoDup (map fst A) -> NoDup (map fst T) -> rng_at_most_one T ->
  (forall k, In k (map fst (non_rng T)) -> In k gk) -> (forall k t, In (k, t) T -> exists a, In (k, a) A) ->
  (In ev (all_expected_loads A T strict gk) <->
   exists k t a, In (k, t) T /\ In (k, a) A /\ ev = mkLoad (sf_id t) (sf_state a) (strict_of t strict)).
Proof.
  intros A T strict gk ev NA NT UT KT TA. unfold all_expected_loads, rng_restore_load. rewrite in_app_iff. split.
  - intros [H|H].
    + unfold expected_loads in H. apply in_flat_map in H. destruct H as [k [Hk H]].
      destruct (sdict_get k (non_rng T)) as [t|] eqn:GT; [|contradiction]. destruct (sdict_get k A) as [a|] eqn:GA; [|contradiction].
      destruct H as [H|[]]. exists k, t, a. apply sdict_get_some_in in GT. apply non_rng_in in GT.
      split; [exact (proj1 GT)|]. split; [exact (sdict_get_some_in _ _ _ GA) | symmetry; exact H].
    + destruct (rng_item T) as [[k t]|] eqn:RI; [|contradiction]. destruct (sdict_get k A) as [a|] eqn:GA; [|contradiction].
      destruct H as [H|[]]. exists k, t, a. split; [exact (proj1 (rng_item_in T k t RI))|]. split; [exact (sdict_get_some_in _ _ _ GA) | symmetry; exact H].
  - intros [k [t [a [HT [HA E]]]]]. destruct (sf_is_rng t) eqn:R.
    + right. destruct (rng_item T) as [[k' t']|] eqn:RI.
      * destruct (rng_item_in T k' t' RI) as [HT' R']. assert (k' = k) by (apply (UT k' t' k t HT' HT R' R)). subst k'.
        rewrite (NoDup_keys_eq T k t' t NT HT' HT). rewrite (sdict_get_in k a A NA HA). left. symmetry. exact E.
      * exfalso. unfold rng_item in RI. destruct (filter is_rng_item T) eqn:F; [|discriminate].
        assert (Hin : In (k, t) (filter is_rng_item T)) by (apply filter_In; split; [exact HT | exact R]). rewrite F in Hin. exact Hin.
    + left. unfold expected_loads. apply in_flat_map. exists k.
      assert (HT' : In (k, t) (non_rng T)) by (apply non_rng_in; split; assumption).
      split; [apply KT; exact (in_sdict_keys _ _ _ HT')|].
      rewrite (sdict_get_in k t (non_rng T) (non_rng_nodup T NT) HT'), (sdict_get_in k a A NA HA). left. symmetry. exact E.
Qed.

Theorem take_manifest_one_rank : forall nobatch table A repl is_async custom path,
  let W := world1 nobatch table in
  NoDup (map fst A) -> rng_at_most_one A -> nonempty_keys A ->
  exists st md x1,
    take_impl_gen W path A repl [] is_async custom fx0 = Some ((st, md), x1) /\
    let v := view1 md 0 in
    NoDup (map fst (md_manifest md)) /\
    (forall q e, In (q, e) (md_manifest md) <-> exists p, q = g_manifest_path 0 p /\ In (p, e) v) /\
    NoDup (map fst v) /\
    (forall p e, In (p, MCont e) v <-> exists k a, In (k, a) A /\ In (p, e) (fst (flatten_s (sf_state a) k))) /\
    (forall k a p o, In (k, a) A -> In (p, o) (snd (flatten_s (sf_state a) k)) -> exists l, In (p, MLeaf l) v) /\
    (forall p l, In (p, MLeaf l) v -> exists k a o, In (k, a) A /\ In (p, o) (snd (flatten_s (sf_state a) k)) /\ leaf_serves W st l o).
Proof.
  intros nobatch table A repl is_async custom path W NA RA NE.
  destruct (take_manifest W (w1_all_gather nobatch table) (w1_partition nobatch table) (w1_store_exact nobatch table)
              (w1_batch_write nobatch table) (w1_consolidate nobatch table) (w1_view nobatch table)
              A repl is_async custom path NA RA NE (w1_locations nobatch table A NE))
    as (st & md & x1 & ET & V1 & G2 & G4 & G3 & M1 & ms & EC & EG & NM1 & RM1 & VM1).
  exists st, md, x1. split; [exact ET|]. cbv zeta.
  cbn [W world1 w_consolidate w_all_gather] in EC. inversion EC; subst ms. clear EC.
  pose proof (eq_trans EG (global_of_one M1 NM1 RM1)) as EG2. clear EG. rename EG2 into EG.
  change (fst (w_manifest_for_rank W md (w_rank W))) with (view1 md 0) in *.
  split; [|split; [|split; [exact V1 | split; [exact G2 | split; [exact G4 | exact G3]]]]].
  - rewrite EG, map_map. cbn [fst]. rewrite <- (map_map fst (fun k => 48 :: 47 :: k)). apply NoDup_map_inj; [|exact NM1]. intros a b H. inversion H. reflexivity.
  - intros q e. rewrite EG, in_map_iff. unfold g_manifest_path. split.
    + intros [[p e'] [E H]]. cbn [fst snd] in E. inversion E; subst. exists p. split; [|apply VM1; exact H].
      rewrite os_join_rank0; [reflexivity|]. apply RM1. exact (in_sdict_keys _ _ _ H).
    + intros [p [E H]]. apply VM1 in H. exists (p, e). cbn [fst snd]. split; [|exact H]. subst q.
      rewrite os_join_rank0; [reflexivity|]. apply RM1. exact (in_sdict_keys _ _ _ H).
Qed.

Theorem take_read_object_one_rank : forall nobatch table A repl is_async custom path out mb,
  let W := world1 nobatch table in
  NoDup (map fst A) -> rng_at_most_one A -> nonempty_keys A ->
  exists st md x1,
    take_impl_gen W path A repl [] is_async custom fx0 = Some ((st, md), x1) /\
    (forall k a p o, In (k, a) A -> In (p, o) (snd (flatten_s (sf_state a) k)) ->
       exists x', read_object_gen W (mkSnap md st) (str_of_Z 0 ++ 47 :: p) out mb fx0 = Some (o, x')) /\
    (forall p, ~ In p (map fst (view1 md 0)) -> read_object_gen W (mkSnap md st) (str_of_Z 0 ++ 47 :: p) out mb fx0 = None).
Proof.
  intros nobatch table A repl is_async custom path out mb W NA RA NE.
  exact (take_read_object W (w1_all_gather nobatch table) (w1_partition nobatch table) (w1_store_exact nobatch table)
           (w1_batch_write nobatch table) (w1_consolidate nobatch table) (w1_view nobatch table) (w1_batch_read nobatch table)
           A repl is_async custom path out mb NA RA NE (w1_locations nobatch table A NE)).
Qed.
