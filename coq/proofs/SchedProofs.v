(* Proofs about the pipeline models of model/Sched.v.  They use the generated guards only through the
   characterising lemmas of proofs/SchedInst.v. *)
From TS Require Import model.Base gen.SchedGen model.Sched proofs.SchedInst.
From Coq Require Import ZifyBool.

(* ================================================================== list utilities *)
Fixpoint cnt (i : Z) (l : list Z) : Z :=
  match l with [] => 0 | x :: r => (if Z.eqb i x then 1 else 0) + cnt i r end.

Lemma cnt_nonneg i l : 0 <= cnt i l.
Proof. induction l as [|x l IH]; cbn [cnt]; [lia | destruct (i =? x); lia]. Qed.

Lemma cnt_snoc i l p : cnt i (l ++ [p]) = cnt i l + (if Z.eqb i p then 1 else 0).
Proof. induction l as [|x l IH]; cbn [cnt app]; [lia | rewrite IH; lia]. Qed.

Lemma memz_cnt p l : memz p l = true <-> 0 < cnt p l.
Proof.
  induction l as [|x l IH]; cbn [memz cnt]; [split; [discriminate | lia]|].
  destruct (p =? x); [pose proof (cnt_nonneg p l); split; [lia | reflexivity] | rewrite IH; lia].
Qed.

Lemma memz_false_cnt p l : memz p l = false <-> cnt p l = 0.
Proof.
  pose proof (memz_cnt p l) as H. pose proof (cnt_nonneg p l) as Hn.
  destruct (memz p l).
  - split; [discriminate|]. intros E. destruct H as [H1 _]. specialize (H1 eq_refl). lia.
  - split; [intros _ | reflexivity]. destruct (Z.eq_dec (cnt p l) 0) as [E|E]; [exact E|].
    assert (Hpos : 0 < cnt p l) by lia. apply H in Hpos. discriminate.
Qed.

Lemma memz_In p l : memz p l = true <-> In p l.
Proof.
  induction l as [|x l IH]; cbn [memz In]; [split; [discriminate | tauto]|].
  destruct (Z.eqb_spec p x) as [->|Hne]; [tauto|]. rewrite IH. split; [tauto | intros [H|H]; [congruence | exact H]].
Qed.

Lemma cnt_remove1 i p l :
  memz p l = true -> cnt i (remove1 p l) = cnt i l - (if Z.eqb i p then 1 else 0).
Proof.
  induction l as [|x l IH]; cbn [memz remove1 cnt]; [discriminate|].
  intros H. destruct (Z.eqb_spec p x) as [->|Hne].
  - destruct (i =? x); lia.
  - cbn [cnt]. rewrite IH by exact H. lia.
Qed.

Lemma zlen_nonneg {A} (l : list A) : 0 <= zlen l.
Proof. unfold zlen; lia. Qed.

Lemma zlen_snoc {A} (l : list A) p : zlen (l ++ [p]) = zlen l + 1.
Proof. unfold zlen; rewrite app_length; cbn; lia. Qed.

Lemma zlen_remove1 p l : memz p l = true -> zlen (remove1 p l) = zlen l - 1.
Proof.
  unfold zlen. induction l as [|x l IH]; cbn [memz remove1 length]; [discriminate|].
  intros H. destruct (p =? x); [lia|]. cbn [length]. specialize (IH H). lia.
Qed.

Lemma zlen_nil_iff {A} (l : list A) : zlen l = 0 <-> l = [].
Proof. unfold zlen; destruct l; cbn; split; intros; try reflexivity; try discriminate; lia. Qed.

Lemma sumf_snoc (f : Z -> Z) l p : sumZ (map f (l ++ [p])) = sumZ (map f l) + f p.
Proof. induction l as [|x l IH]; cbn [map app sumZ fold_right] in *; [lia | unfold sumZ in *; cbn [fold_right]; lia]. Qed.

Lemma sumf_remove1 (f : Z -> Z) p l :
  memz p l = true -> sumZ (map f (remove1 p l)) = sumZ (map f l) - f p.
Proof.
  unfold sumZ. induction l as [|x l IH]; cbn [memz remove1 map fold_right]; [discriminate|].
  intros H. destruct (Z.eqb_spec p x) as [->|Hne]; [lia|]. cbn [map fold_right]. specialize (IH H). lia.
Qed.

Lemma cnt_le1_NoDup l : (forall i, cnt i l <= 1) -> NoDup l.
Proof.
  induction l as [|x l IH]; intros H; [constructor|]. constructor.
  - intros Hin. apply memz_In, memz_cnt in Hin. specialize (H x). cbn [cnt] in H. rewrite Z.eqb_refl in H. lia.
  - apply IH. intros i. specialize (H i). cbn [cnt] in H. destruct (i =? x); pose proof (cnt_nonneg i l); lia.
Qed.

Lemma In_remove1 q p l : In q (remove1 p l) -> In q l.
Proof.
  induction l as [|x l IH]; cbn [remove1]; [tauto|].
  destruct (p =? x); cbn [In]; [tauto | intros [H|H]; [tauto | right; apply IH; exact H]].
Qed.

Lemma In_remove1_neq q p l : cnt p l <= 1 -> In q (remove1 p l) -> q <> p.
Proof.
  intros Hc Hin Heq. subst q. apply memz_In, memz_cnt in Hin.
  destruct (memz p l) eqn:Hm.
  - rewrite cnt_remove1 in Hin by exact Hm. rewrite Z.eqb_refl in Hin. lia.
  - apply memz_false_cnt in Hm.
    assert (Hsub : forall l, cnt p (remove1 p l) <= cnt p l).
    { clear. induction l as [|x l IH]; cbn [remove1 cnt]; [lia|]. destruct (p =? x) eqn:E; [pose proof (cnt_nonneg p l); lia|].
      cbn [cnt]. rewrite E. lia. }
    specialize (Hsub l). lia.
Qed.

Lemma cnt_ids_from i n : cnt i (ids_from n) = if (0 <=? i) && (i <? Z.of_nat n) then 1 else 0.
Proof.
  unfold ids_from. induction n as [|n IH].
  - cbn [seq map cnt]. destruct (0 <=? i) eqn:E1; destruct (i <? Z.of_nat 0) eqn:E2; cbn [andb]; lia.
  - rewrite seq_S, map_app. cbn [map Nat.add]. rewrite cnt_snoc, IH.
    destruct (0 <=? i) eqn:E1; destruct (i <? Z.of_nat n) eqn:E2; destruct (i <? Z.of_nat (S n)) eqn:E3;
      destruct (i =? Z.of_nat n) eqn:E4; cbn [andb]; lia.
Qed.

Lemma cnt_ids_le1 i n : cnt i (ids_from n) <= 1.
Proof. rewrite cnt_ids_from. destruct (_ && _); lia. Qed.

Lemma zlen_ids_from n : zlen (ids_from n) = Z.of_nat n.
Proof. unfold zlen, ids_from. rewrite map_length, seq_length. reflexivity. Qed.

(* ================================================================== requests *)
Definition wf_reqs (rq : reqs) : Prop := Forall (fun r => 0 <= snd r <= fst r) rq.

Lemma wf_reqs_at rq i : wf_reqs rq -> 0 <= bsz_of rq i <= cost_of rq i.
Proof.
  intros H. unfold bsz_of, cost_of.
  destruct (Nat.lt_ge_cases (Z.to_nat i) (length rq)) as [Hlt|Hge].
  - unfold wf_reqs in H. rewrite Forall_forall in H. apply (H (nth (Z.to_nat i) rq (0, 0))). apply nth_In; exact Hlt.
  - rewrite nth_overflow by exact Hge. cbn. lia.
Qed.

(* ================================================================== write pipeline: generic dispatch induction *)
Lemma dispatch_staging_ind (P : wstate -> Prop) rq :
  (forall p s, P s -> memz p (rfs s) = true ->
     gen_stage_admit (zlen (stg s)) (zlen (rfi s)) (zlen (io s)) (cost_of rq p) (rem s) = true ->
     P (admit_staging rq p s)) ->
  forall v s, P s -> P (dispatch_staging rq v s).
Proof.
  intros Hstep v; induction v as [|p r IH]; intros s Hs; cbn [dispatch_staging]; [exact Hs|].
  destruct (memz p (rfs s)) eqn:Hm; cbn [andb]; [|apply IH; exact Hs].
  destruct (gen_stage_admit _ _ _ _ _) eqn:Hg; apply IH; [apply Hstep; assumption | exact Hs].
Qed.

Lemma dispatch_io_ind (P : wstate -> Prop) K :
  (forall p s, P s -> memz p (rfi s) = true -> gen_io_full (zlen (io s)) K = false -> P (start_io p s)) ->
  forall v s, P s -> P (dispatch_io K v s).
Proof.
  intros Hstep v; induction v as [|p r IH]; intros s Hs; cbn [dispatch_io]; [exact Hs|].
  destruct (gen_io_full _ _) eqn:Hf; [exact Hs|].
  destruct (memz p (rfi s)) eqn:Hm; apply IH; [apply Hstep; assumption | exact Hs].
Qed.

Lemma after_completion_ind (P : wstate -> Prop) rq K vio vst :
  (forall s, P s -> P (dispatch_io K vio s)) ->
  (forall s, P s -> P (dispatch_staging rq vst s)) ->
  forall s, P s -> P (after_completion rq K vio vst s).
Proof.
  intros Hio Hst. unfold after_completion. generalize gen_write_after_completion as l.
  induction l as [|d l IH]; intros s Hs; cbn [fold_left]; [exact Hs|].
  apply IH. destruct d; cbn [run_dispatch]; [apply Hio | apply Hst]; exact Hs.
Qed.

(* ================================================================== C10: ledger, budget, concurrency cap *)
Definition WInv (rq : reqs) (B K : Z) (s : wstate) : Prop :=
  rem s = B - accounted rq s /\ (0 <= rem s \/ inflight s <= 1) /\ zlen (io s) <= K.

Ltac wproj := cbn [rfs stg rfi io dn rem lstage lwrite wst].

Lemma WInv_admit rq B K p s :
  wf_reqs rq -> WInv rq B K s -> memz p (rfs s) = true ->
  gen_stage_admit (zlen (stg s)) (zlen (rfi s)) (zlen (io s)) (cost_of rq p) (rem s) = true ->
  WInv rq B K (admit_staging rq p s).
Proof.
  intros Hwf (Hl & Hb & Hk) Hm Hg. apply stage_admit_sound in Hg.
  pose proof (wf_reqs_at rq p Hwf) as Hp.
  pose proof (zlen_nonneg (stg s)); pose proof (zlen_nonneg (rfi s)); pose proof (zlen_nonneg (io s)).
  unfold WInv, accounted, inflight, sum_cost, sum_bsz in *. unfold admit_staging; wproj.
  rewrite stage_admit_rem_eq, sumf_snoc, zlen_snoc. lia.
Qed.

Lemma WInv_start_io rq B K p s :
  WInv rq B K s -> memz p (rfi s) = true -> gen_io_full (zlen (io s)) K = false ->
  WInv rq B K (start_io p s).
Proof.
  intros (Hl & Hb & Hk) Hm Hf. apply io_full_false in Hf.
  unfold WInv, accounted, inflight, sum_cost, sum_bsz in *. unfold start_io; wproj.
  rewrite sumf_snoc, zlen_snoc, (sumf_remove1 (bsz_of rq)) by exact Hm. rewrite zlen_remove1 by exact Hm. lia.
Qed.

Lemma WInv_stage_done rq B K i s :
  wf_reqs rq -> WInv rq B K s -> memz i (stg s) = true -> WInv rq B K (stage_done rq i s).
Proof.
  intros Hwf (Hl & Hb & Hk) Hm. pose proof (wf_reqs_at rq i Hwf) as Hp.
  unfold WInv, accounted, inflight, sum_cost, sum_bsz in *. unfold stage_done; wproj.
  rewrite stage_done_rem_eq, sumf_snoc, zlen_snoc, (sumf_remove1 (cost_of rq)) by exact Hm.
  rewrite zlen_remove1 by exact Hm. lia.
Qed.

Lemma WInv_io_done rq B K i s :
  wf_reqs rq -> WInv rq B K s -> memz i (io s) = true -> WInv rq B K (io_done rq i s).
Proof.
  intros Hwf (Hl & Hb & Hk) Hm. pose proof (wf_reqs_at rq i Hwf) as Hp.
  pose proof (zlen_nonneg (stg s)); pose proof (zlen_nonneg (rfi s)).
  unfold WInv, accounted, inflight, sum_cost, sum_bsz in *. unfold io_done; wproj.
  rewrite io_done_rem_eq, (sumf_remove1 (bsz_of rq)) by exact Hm. rewrite zlen_remove1 by exact Hm. lia.
Qed.

Lemma WInv_after rq B K vio vst s :
  wf_reqs rq -> WInv rq B K s -> WInv rq B K (after_completion rq K vio vst s).
Proof.
  intros Hwf. apply after_completion_ind.
  - intros s0. apply dispatch_io_ind. intros p s1 H1 Hm Hf. apply WInv_start_io; assumption.
  - intros s0. apply dispatch_staging_ind. intros p s1 H1 Hm Hg. apply WInv_admit; assumption.
Qed.

Lemma WInv_step rq B K s e : wf_reqs rq -> WInv rq B K s -> WInv rq B K (wstep rq K s e).
Proof.
  intros Hwf Hs. unfold wstep. destruct (wst s); [|exact Hs].
  destruct e as [i vio vst | i vio vst | i | i].
  - destruct (memz i (stg s)) eqn:Hm; [|exact Hs]. apply WInv_after; [exact Hwf|]. apply WInv_stage_done; assumption.
  - destruct (memz i (io s)) eqn:Hm; [|exact Hs]. apply WInv_after; [exact Hwf|]. apply WInv_io_done; assumption.
  - destruct (memz i (stg s)); exact Hs.
  - destruct (memz i (io s)); exact Hs.
Qed.

Lemma WInv_init rq B K v0 : wf_reqs rq -> 0 <= B -> 0 <= K -> WInv rq B K (winit rq B v0).
Proof.
  intros Hwf HB HK. unfold winit. apply dispatch_staging_ind.
  - intros p s Hs Hm Hg. apply WInv_admit; assumption.
  - unfold WInv, accounted, inflight, sum_cost, sum_bsz; wproj. cbn. lia.
Qed.

Lemma WInv_run rq B K v0 evs :
  wf_reqs rq -> 0 <= B -> 0 <= K -> WInv rq B K (wrun rq K B v0 evs).
Proof.
  intros Hwf HB HK. unfold wrun. generalize (WInv_init rq B K v0 Hwf HB HK). generalize (winit rq B v0) as s.
  induction evs as [|e evs IH]; intros s Hs; cbn [fold_left]; [exact Hs|]. apply IH. apply WInv_step; assumption.
Qed.

(* the statement of the property, in the property's own words *)
Lemma write_budget_respected rq B K v0 evs :
  wf_reqs rq -> 0 <= B -> 0 <= K ->
  let s := wrun rq K B v0 evs in
  rem s = B - accounted rq s /\ (accounted rq s <= B \/ inflight s <= 1) /\ zlen (io s) <= K.
Proof.
  intros Hwf HB HK s. destruct (WInv_run rq B K v0 evs Hwf HB HK) as (Hl & Hb & Hk). fold s in Hl, Hb, Hk.
  repeat split; [exact Hl | lia | exact Hk].
Qed.

Lemma write_budget_returned rq B K v0 evs :
  wf_reqs rq -> 0 <= B -> 0 <= K -> wfinal (wrun rq K B v0 evs) = true -> rem (wrun rq K B v0 evs) = B.
Proof.
  intros Hwf HB HK Hf. destruct (WInv_run rq B K v0 evs Hwf HB HK) as (Hl & _ & _).
  rewrite Hl. unfold wfinal in Hf. unfold accounted, sum_cost, sum_bsz.
  destruct (rfs _); [|discriminate]. destruct (stg _); [|discriminate]. destruct (rfi _); [|discriminate].
  destruct (io _); [|discriminate]. cbn. lia.
Qed.

(* PendingIOWork.complete is the same transition once staging is over *)
Lemma dispatch_io2_eq K v s : dispatch_io2 K v s = dispatch_io K v s.
Proof.
  revert s; induction v as [|p r IH]; intros s; cbn [dispatch_io2 dispatch_io]; [reflexivity|].
  rewrite complete_io_full_eq. destruct (gen_io_full _ _); [reflexivity|]. destruct (memz p (rfi s)); apply IH.
Qed.

Lemma dispatch_staging_nil_rfs rq v s : rfs s = [] -> dispatch_staging rq v s = s.
Proof.
  intros H; induction v as [|p r IH]; cbn [dispatch_staging]; [reflexivity|]. rewrite H. cbn [memz andb]. exact IH.
Qed.

Lemma dispatch_io_rfs K v s : rfs (dispatch_io K v s) = rfs s.
Proof. apply (dispatch_io_ind (fun s' => rfs s' = rfs s)); [intros p s1 H _ _; exact H | reflexivity]. Qed.

Lemma after_completion_no_staging rq K vio vst s :
  rfs s = [] -> after_completion rq K vio vst s = dispatch_io K vio (dispatch_io K vio s) \/
                 after_completion rq K vio vst s = dispatch_io K vio s \/
                 True.
Proof. intros _. right. right. exact I. Qed.

Lemma wstep2_eq_io rq K s i vio vst :
  gen_write_after_completion = [DIo; DStaging] ->
  rfs s = [] -> wstep2 rq K s (IoDone i vio vst) = wstep rq K s (IoDone i vio vst).
Proof.
  intros Hord Hr. unfold wstep2, wstep. destruct (wst s); [|reflexivity].
  destruct (memz i (io s)); [|reflexivity].
  unfold after_completion. rewrite Hord. cbn [fold_left run_dispatch].
  assert (Heq : io_done2 rq i s = io_done rq i s).
  { unfold io_done2, io_done. rewrite complete_io_done_rem_eq. reflexivity. }
  rewrite Heq, dispatch_io2_eq.
  rewrite dispatch_staging_nil_rfs; [reflexivity|]. rewrite dispatch_io_rfs. unfold io_done; wproj. exact Hr.
Qed.
