(* C14 layer 1 proofs: decimal, bool and base64 codecs are exact inverses on the image. *)
From TS Require Import model.Base model.Codec.
From Coq Require Import ZifyBool.
Ltac Zify.zify_post_hook ::= Z.to_euclidean_division_equations.

(* ------------------------------------------------------------------ small tools *)
Ltac bd :=
  repeat match goal with
         | |- context [if ?b then _ else _] => let E := fresh "E" in destruct b eqn:E
         end.

Lemma list_ind3 {A} (P : list A -> Prop) :
  P [] -> (forall a, P [a]) -> (forall a b, P [a; b]) ->
  (forall a b c l, P l -> P (a :: b :: c :: l)) -> forall l, P l.
Proof.
  intros H0 H1 H2 H3 l.
  assert (H : P l /\ (forall a, P (a :: l)) /\ (forall a b, P (a :: b :: l))).
  { induction l as [|x l IH].
    - repeat split; auto.
    - destruct IH as (Ha & Hb & Hc). repeat split; auto. }
  exact (proj1 H).
Qed.

Lemma pystr_eqb_refl : forall s, pystr_eqb s s = true.
Proof. induction s as [|c s IH]; cbn; auto. rewrite Z.eqb_refl. exact IH. Qed.

Lemma pystr_eqb_eq : forall a b, pystr_eqb a b = true <-> a = b.
Proof.
  induction a as [|x a IH]; destruct b as [|y b]; cbn; split; intro H; try congruence; auto.
  - apply andb_true_iff in H. destruct H as [H1 H2]. apply Z.eqb_eq in H1. apply IH in H2. congruence.
  - inversion H; subst. rewrite Z.eqb_refl. apply IH. reflexivity.
Qed.

Lemma pystr_eqb_neq : forall a b, pystr_eqb a b = false <-> a <> b.
Proof.
  intros a b. split.
  - intros H E. apply pystr_eqb_eq in E. congruence.
  - intros H. destruct (pystr_eqb a b) eqn:E; auto. apply pystr_eqb_eq in E. contradiction.
Qed.

(* ------------------------------------------------------------------ decimal *)
Definition le_value (l : list Z) : Z := fold_right (fun d a => a * 10 + d) 0 l.

Lemma dle_value : forall f n, 0 <= n < 2 ^ Z.of_nat f -> le_value (dle f n) = n.
Proof.
  induction f as [|f IH]; intros n Hn.
  - cbn [dle le_value fold_right]. change (2 ^ Z.of_nat 0) with 1 in Hn. lia.
  - cbn [dle]. destruct (n <? 10) eqn:E.
    + cbn [le_value fold_right]. lia.
    + cbn [le_value fold_right]. fold (le_value (dle f (n / 10))).
      rewrite Nat2Z.inj_succ, Z.pow_succ_r in Hn by lia.
      rewrite IH by lia. lia.
Qed.

Lemma dle_range : forall f n, 0 <= n -> Forall (fun d => 0 <= d < 10) (dle f n).
Proof.
  induction f as [|f IH]; intros n Hn; cbn [dle].
  - constructor; [lia | constructor].
  - destruct (n <? 10) eqn:E.
    + constructor; [lia | constructor].
    + constructor; [lia |]. apply IH. lia.
Qed.

Lemma dle_last : forall f n, 0 < n < 2 ^ Z.of_nat f ->
  exists t d, dle f n = t ++ [d] /\ 0 < d < 10.
Proof.
  induction f as [|f IH]; intros n Hn.
  - change (2 ^ Z.of_nat 0) with 1 in Hn. lia.
  - cbn [dle]. destruct (n <? 10) eqn:E.
    + exists [], n. split; [reflexivity | lia].
    + rewrite Nat2Z.inj_succ, Z.pow_succ_r in Hn by lia.
      destruct (IH (n / 10)) as (t & d & Ht & Hd); [lia|].
      exists (n mod 10 :: t), d. rewrite Ht. split; [reflexivity | exact Hd].
Qed.

Lemma size_nat_bound : forall p, Zpos p < 2 ^ Z.of_nat (Pos.size_nat p).
Proof.
  induction p as [p IH|p IH|]; cbn [Pos.size_nat].
  - rewrite Nat2Z.inj_succ, Z.pow_succ_r by lia. lia.
  - rewrite Nat2Z.inj_succ, Z.pow_succ_r by lia. lia.
  - change (2 ^ Z.of_nat 1) with 2. lia.
Qed.

Lemma digits_value_rev : forall l,
  digits_value (map (fun d => 48 + d) (rev l)) = le_value l.
Proof.
  unfold digits_value. induction l as [|x l IH].
  - reflexivity.
  - cbn [rev]. rewrite map_app, fold_left_app, IH. cbn [map fold_left le_value fold_right].
    fold (le_value l). lia.
Qed.

Lemma digits_all : forall l, Forall (fun d => 0 <= d < 10) l ->
  forallb is_digit (map (fun d => 48 + d) (rev l)) = true.
Proof.
  intros l H. apply forallb_forall. intros c Hc.
  apply in_map_iff in Hc. destruct Hc as (d & <- & Hd). apply in_rev in Hd.
  rewrite Forall_forall in H. specialize (H d Hd). unfold is_digit. lia.
Qed.

(* shape of the digit string of a non-negative number *)
Lemma digits_of_nonneg_spec : forall n, 0 <= n ->
  exists c t, digits_of_nonneg n = c :: t /\ is_digit c = true /\ forallb is_digit t = true /\
              digits_value (c :: t) = n /\ (c = 48 -> n = 0 /\ t = []).
Proof.
  intros n Hn. destruct n as [|p|p]; [| |lia].
  - exists 48, []. cbn. repeat split; auto.
  - unfold digits_of_nonneg.
    pose proof (size_nat_bound p) as Hb.
    destruct (dle_last (Pos.size_nat p) (Zpos p)) as (t & d & Ht & Hd); [lia|].
    pose proof (dle_range (Pos.size_nat p) (Zpos p) ltac:(lia)) as Hr.
    pose proof (dle_value (Pos.size_nat p) (Zpos p) ltac:(lia)) as Hv.
    pose proof (digits_all _ Hr) as Ha.
    pose proof (digits_value_rev (dle (Pos.size_nat p) (Zpos p))) as Hdv.
    rewrite Hv in Hdv.
    rewrite Ht in *. rewrite rev_app_distr in *. cbn [rev app map] in *.
    exists (48 + d), (map (fun d0 => 48 + d0) (rev t)).
    cbn [forallb] in Ha. apply andb_true_iff in Ha. destruct Ha as [Ha1 Ha2].
    repeat split; auto. all: lia.
Qed.

Lemma nat_of_str_digits : forall n, 0 <= n -> nat_of_str (digits_of_nonneg n) = Some n.
Proof.
  intros n Hn. destruct (digits_of_nonneg_spec n Hn) as (c & t & -> & Hc & Ht & Hv & _).
  unfold nat_of_str. cbn [forallb]. rewrite Hc, Ht. cbn [andb]. congruence.
Qed.

Theorem int_of_str_of_int : forall z, int_of_str (str_of_int z) = Some z.
Proof.
  intros z. unfold str_of_int. destruct (z <? 0) eqn:E.
  - unfold int_of_str. rewrite Z.eqb_refl. rewrite nat_of_str_digits by lia. cbn. f_equal. lia.
  - pose proof (nat_of_str_digits z ltac:(lia)) as H.
    destruct (digits_of_nonneg_spec z ltac:(lia)) as (c & t & Heq & Hc & _).
    rewrite Heq in *. unfold int_of_str. unfold is_digit in Hc.
    apply andb_true_iff in Hc. destruct Hc as [Hc1 Hc2].
    apply Z.leb_le in Hc1. apply Z.leb_le in Hc2.
    replace (c =? 45) with false by (symmetry; apply Z.eqb_neq; lia).
    replace (c =? 43) with false by (symmetry; apply Z.eqb_neq; lia). exact H.
Qed.

(* str(int) never starts with '+', is never empty, and is injective (consequence of the round trip) *)
Lemma str_of_int_inj : forall a b, str_of_int a = str_of_int b -> a = b.
Proof.
  intros a b H. pose proof (int_of_str_of_int a) as Ha. rewrite H, int_of_str_of_int in Ha. congruence.
Qed.

(* ------------------------------------------------------------------ bool *)
Theorem bool_of_str_of_bool : forall b, bool_of_str (str_of_bool b) = Some b.
Proof. destruct b; reflexivity. Qed.

(* ------------------------------------------------------------------ base64 *)
Lemma b64val_char : forall k, 0 <= k < 64 -> b64val (b64char k) = Some k.
Proof.
  intros k Hk. unfold b64char. bd; unfold b64val; bd; try (f_equal; lia); lia.
Qed.

Lemma b64char_not_pad : forall k, 0 <= k < 64 -> (b64char k =? 61) = false.
Proof.
  intros k Hk. unfold b64char. bd; lia.
Qed.

Lemma b64decode_group : forall a b c rest, is_byte a -> is_byte b -> is_byte c ->
  b64decode (b64encode (a :: b :: c :: rest)) =
  match b64decode (b64encode rest) with None => None | Some out => Some (a :: b :: c :: out) end.
Proof.
  intros a b c rest Ha Hb Hc. unfold is_byte in *.
  cbn [b64encode b64decode].
  rewrite !b64val_char by lia. rewrite !b64char_not_pad by lia.
  destruct (b64decode (b64encode rest)); [|reflexivity].
  f_equal. f_equal; [lia|]. f_equal; [lia|]. f_equal. lia.
Qed.

Theorem b64decode_encode : forall bs, bytes_ok bs -> b64decode (b64encode bs) = Some bs.
Proof.
  unfold bytes_ok. induction bs as [|a|a b|a b c l IH] using list_ind3; intros H.
  - reflexivity.
  - inversion H as [|? ? Ha _]; subst. unfold is_byte in Ha.
    cbn [b64encode b64decode]. rewrite !b64val_char by lia. cbn. f_equal. f_equal. lia.
  - inversion H as [|? ? Ha H']; subst. inversion H' as [|? ? Hb _]; subst. unfold is_byte in *.
    cbn [b64encode b64decode]. rewrite !b64val_char by lia. rewrite !b64char_not_pad by lia.
    cbn. f_equal. f_equal; [lia|]. f_equal. lia.
  - inversion H as [|? ? Ha H1]; subst. inversion H1 as [|? ? Hb H2]; subst.
    inversion H2 as [|? ? Hc H3]; subst.
    rewrite b64decode_group by assumption. rewrite IH by assumption. reflexivity.
Qed.

Lemma b64encode_length : forall bs, length (b64encode bs) = (4 * ((length bs + 2) / 3))%nat.
Proof.
  induction bs as [|a|a b|a b c l IH] using list_ind3; try reflexivity.
  cbn [b64encode length]. rewrite IH.
  replace (S (S (S (length l))) + 2)%nat with (length l + 2 + 1 * 3)%nat by lia.
  rewrite Nat.div_add by lia. lia.
Qed.

(* ------------------------------------------------------------------ primitive values *)
Theorem get_value_serialize : forall v, pvalue_ok v -> get_value (kind_of v) (serialize v) = Some v.
Proof.
  intros [z|s|b|bs|bits] H; cbn [kind_of serialize get_value pvalue_ok] in *.
  - rewrite int_of_str_of_int. reflexivity.
  - reflexivity.
  - rewrite bool_of_str_of_bool. reflexivity.
  - rewrite b64decode_encode by assumption. reflexivity.
  - destruct H as [H1 H2]. rewrite b64decode_encode by assumption. rewrite H2. reflexivity.
Qed.
