(* Per-run obligations of C08 over the terms generated from the source by translator/gen_reshard.py
   (gen/ReshardGen.v) and translator/gen_chunk.py (gen/ChunkGen.v): each generated definition equals (or refines)
   the hand-written definition of model/Reshard.v that the property theorems were proved for.  Arithmetic and
   comparisons are compared semantically (case analysis + lia), so that an equivalent rewrite of the source
   (a >= b for not a < b, a renamed local, b + a for a + b) still checks; a change of meaning does not. *)
From TS Require Import model.Base model.Reshard proofs.ReshardProofs gen.ChunkGen gen.ReshardGen model.ReshardGenObs.

(* case analysis on every integer comparison in the goal *)
Ltac zcases :=
  repeat match goal with
         | |- context [?a >? ?b] => destruct (Z.gtb_spec a b)
         | |- context [?a <? ?b] => destruct (Z.ltb_spec a b)
         | |- context [?a <=? ?b] => destruct (Z.leb_spec a b)
         | |- context [?a >=? ?b] => destruct (Z.geb_spec a b)
         | |- context [?a =? ?b] => destruct (Z.eqb_spec a b)
         end.

Lemma tuple4_eq (a a' b b' c c' d d' : Z) :
  a = a' -> b = b' -> c = c' -> d = d' -> (a, b, c, d) = (a', b', c', d').
Proof. congruence. Qed.

Lemma fold_left_ext {A B} (f g : A -> B -> A) : (forall a b, f a b = g a b) ->
  forall l a, fold_left f l a = fold_left g l a.
Proof. intros H l; induction l as [|b l IH]; intros a; cbn; [reflexivity|]. rewrite H. apply IH. Qed.

Lemma fold_left_ext_in {A B} (f g : A -> B -> A) (l : list B) :
  (forall a b, In b l -> f a b = g a b) -> forall a, fold_left f l a = fold_left g l a.
Proof.
  induction l as [|b l IH]; intros H a; cbn; [reflexivity|].
  rewrite H by (left; reflexivity). apply IH. intros a' b' Hb'. apply H. right. exact Hb'.
Qed.

Lemma fold_left_map {A B C} (f : A -> C -> A) (h : B -> C) (l : list B) :
  forall a, fold_left f (map h l) a = fold_left (fun a b => f a (h b)) l a.
Proof. induction l as [|b l IH]; intros a; cbn; [reflexivity|]. apply IH. Qed.

Lemma map_flat_map {A B C} (f : B -> C) (g : A -> list B) (l : list A) :
  map f (flat_map g l) = flat_map (fun x => map f (g x)) l.
Proof. induction l as [|a l IH]; cbn; [reflexivity|]. rewrite map_app, IH. reflexivity. Qed.

Lemma box_eta (b : box) : mkBox (boff b) (bsz b) = b.
Proof. destruct b; reflexivity. Qed.

(* ================================================================== 1. the overlap region *)
(* the generated loop (body, order of the zipped lists, order of the components of the appended tuple) computes the
   hand-written region, with the dimension numbers 0, 1, 2, ... in front *)
Lemma g_overlap_region_eq (sv cu : box) : g_overlap_region sv cu = with_dims (overlap_region sv cu).
Proof.
  destruct sv as [so ss], cu as [co cs].
  unfold g_overlap_region, overlap_region, with_dims, indexed. cbn [boff bsz]. generalize 0 as k.
  revert ss co cs. induction so as [|a so IH]; intros [|x ss] [|b co] [|y cs] k; try reflexivity.
  cbn [zip4 indexed_from map overlap_region_l fst snd]. f_equal; [|apply IH].
  rewrite region_dim_spec. unfold g_region_body. cbv zeta. cbn [fst snd].
  zcases; apply tuple4_eq; lia.
Qed.

Lemma with_dims_drop (r : region) : drop_dims (with_dims r) = r /\ dims_of (with_dims r) = map fst (indexed r).
Proof.
  unfold with_dims, drop_dims, dims_of, indexed. rewrite !map_map. cbn [fst snd]. generalize 0 as k.
  induction r as [|[[a b] c] r IH]; intros k; cbn; [split; reflexivity|].
  destruct (IH (k + 1)) as [I1 I2]. rewrite I1, I2. split; reflexivity.
Qed.

(* ================================================================== 2. get_views / tensor_copy *)
(* the generated loop narrows the source view by (dim, 2nd component, length) and the destination view by
   (dim, 3rd component, length) *)
Definition vstep (st : view * view) (x : Z * Z * Z * Z) : view * view :=
  (vnarrow (fst st) (fst (fst (fst x))) (snd (fst (fst x))) (snd x),
   vnarrow (snd st) (fst (fst (fst x))) (snd (fst x)) (snd x)).

Lemma g_get_views_fold (r : region4) (sv dv : view) : g_get_views r sv dv = fold_left vstep r (sv, dv).
Proof.
  unfold g_get_views. cbv zeta.
  rewrite (fold_left_ext _ vstep) by (intros [s d] [[[dm a] b] c]; reflexivity).
  symmetry. apply surjective_pairing.
Qed.

Lemma upd_app (p : list Z) x l v : upd (p ++ x :: l) (length p) v = p ++ v :: l.
Proof. induction p as [|y p IH]; cbn; [reflexivity|]. rewrite IH. reflexivity. Qed.

Lemma nth_app_mid (p : list Z) x l : nth (length p) (p ++ x :: l) 0 = x.
Proof. induction p as [|y p IH]; cbn; [reflexivity|]. exact IH. Qed.

(* narrowing dimension k, k+1, ... in turn fills in the offset and extent vectors from position k on *)
Lemma views_fold (R : region) : forall po ph qo qh zs sh zd dh,
  length zs = length R -> length sh = length R -> length zd = length R -> length dh = length R ->
  length ph = length po -> length qo = length po -> length qh = length po ->
  fold_left vstep
    (map (fun ir => (fst ir, fst (fst (snd ir)), snd (fst (snd ir)), snd (snd ir)))
         (indexed_from (Z.of_nat (length po)) R))
    ((po ++ zs, ph ++ sh), (qo ++ zd, qh ++ dh))
  = ((po ++ vadd zs (r_src R), ph ++ r_len R), (qo ++ vadd zd (r_dst R), qh ++ r_len R)).
Proof.
  induction R as [|[[a b] c] R IH]; intros po ph qo qh zs sh zd dh L1 L2 L3 L4 L5 L6 L7.
  - destruct zs, sh, zd, dh; try discriminate. reflexivity.
  - destruct zs as [|z zs], sh as [|h sh], zd as [|z' zd], dh as [|h' dh]; try discriminate.
    cbn [indexed_from map fold_left]. unfold vstep at 2. cbn [fst snd]. unfold vnarrow. cbn [fst snd].
    rewrite Nat2Z.id. rewrite (upd_app po), (nth_app_mid po).
    replace (upd (ph ++ h :: sh) (length po) c) with (ph ++ c :: sh) by (rewrite <- L5; symmetry; apply upd_app).
    replace (nth (length po) (qo ++ z' :: zd) 0) with z' by (rewrite <- L6; symmetry; apply nth_app_mid).
    replace (upd (qo ++ z' :: zd) (length po) (z' + b)) with (qo ++ (z' + b) :: zd)
      by (rewrite <- L6; symmetry; apply upd_app).
    replace (upd (qh ++ h' :: dh) (length po) c) with (qh ++ c :: dh) by (rewrite <- L7; symmetry; apply upd_app).
    replace (po ++ (z + a) :: zs) with ((po ++ [z + a]) ++ zs) by (rewrite <- app_assoc; reflexivity).
    replace (ph ++ c :: sh) with ((ph ++ [c]) ++ sh) by (rewrite <- app_assoc; reflexivity).
    replace (qo ++ (z' + b) :: zd) with ((qo ++ [z' + b]) ++ zd) by (rewrite <- app_assoc; reflexivity).
    replace (qh ++ c :: dh) with ((qh ++ [c]) ++ dh) by (rewrite <- app_assoc; reflexivity).
    replace (Z.of_nat (length po) + 1) with (Z.of_nat (length (po ++ [z + a]))) by (rewrite app_length; cbn; lia).
    cbn in L1, L2, L3, L4.
    rewrite IH by (rewrite ?app_length; cbn; lia).
    unfold r_src, r_dst, r_len. cbn [map vadd fst snd]. rewrite <- !app_assoc. reflexivity.
Qed.

Lemma g_get_views_region (R : region) (ss ds : list Z) :
  length ss = length R -> length ds = length R ->
  g_get_views (with_dims R) (full_view ss) (full_view ds) = ((r_src R, r_len R), (r_dst R, r_len R)).
Proof.
  intros Ls Ld. rewrite g_get_views_fold. unfold with_dims, indexed, full_view.
  pose proof (views_fold R [] [] [] [] (zeros ss) ss (zeros ds) ds) as H. cbn [length app Z.of_nat] in H.
  eapply eq_trans; [apply H; rewrite ?zeros_length; auto|].
  destruct (r_lengths R) as [D S]. unfold r_len in D, S. rewrite map_length in D, S.
  rewrite !vadd_zeros by (rewrite ?S, ?D; lia). reflexivity.
Qed.

(* the generated consumer step = narrow both tensors by the region and copy (the hand model's copy_region) *)
Lemma g_consume_one_eq {E} (R : region) (ss ds : list Z) (src dst : tensor E) :
  length ss = length R -> length ds = length R ->
  g_consume_one (with_dims R) ss ds src dst = copy_region R src dst.
Proof.
  intros Ls Ld. unfold g_consume_one. cbv zeta. rewrite g_get_views_region by assumption. reflexivity.
Qed.

(* ================================================================== 3. prepare_read *)
(* the three key expressions are one injective function of (location, byte_range_tuple) *)
Lemma g_key_insert_inj : forall l b l' b', g_key_insert l b = g_key_insert l' b' -> l = l' /\ b = b'.
Proof.
  intros l b l' b' H. unfold g_key_insert in H. cbn in H.
  first [ injection H; intros; subst; split; reflexivity
        | apply app_inj_tail in H; destruct H; subst; split; reflexivity ].
Qed.

Lemma g_key_member_eq : forall l b, g_key_member l b = g_key_insert l b.
Proof. intros l b. unfold g_key_member, g_key_insert. first [ reflexivity | cbn; reflexivity ]. Qed.

Lemma g_key_lookup_eq : forall l b, g_key_lookup l b = g_key_insert l b.
Proof. intros l b. unfold g_key_lookup, g_key_insert. first [ reflexivity | cbn; reflexivity ]. Qed.

(* the hand-written plan with dims attached to every region *)
Definition lift_reg (ir : Z * region) : Z * region4 := (fst ir, with_dims (snd ir)).
Definition lift_keyed (kr : list Z * (Z * region)) : list Z * (Z * region4) := (fst kr, lift_reg (snd kr)).
Definition lift_req {E} (q : Z * sshard E * list (Z * region)) : greq E :=
  (s_loc (snd (fst q)), s_br (snd (fst q)), (fst (fst q), snd (fst q), map lift_reg (snd q))).

(* first loop: the nest itertools.product(local_shards, entry.shards), the skip condition, the key, the argument
   order (saved, current) of the region call, the destination tensor *)
Lemma g_regions_keyed_eq {E} (shards : list (sshard E)) (dboxes : list box) :
  g_regions_keyed shards (indexed dboxes) = map lift_keyed (regions_keyed g_key_insert shards dboxes).
Proof.
  unfold g_regions_keyed, regions_keyed. rewrite map_flat_map. apply flat_map_ext. intros id.
  rewrite map_flat_map. apply flat_map_ext. intros s. cbv zeta. rewrite box_eta.
  destruct (overlaps (snd id) (s_box s)); cbn [negb map]; [|reflexivity].
  rewrite g_overlap_region_eq. reflexivity.
Qed.

Lemma regions_for_lift k (rs : list (list Z * (Z * region))) :
  regions_for k (map lift_keyed rs) = map lift_reg (regions_for k rs).
Proof.
  induction rs as [|kr rs IH]; [reflexivity|].
  unfold regions_for in *. cbn [map filter lift_keyed fst].
  destruct (key_eqb (fst kr) k); cbn [map snd]; rewrite IH; reflexivity.
Qed.

Lemma key_mem_regions_for {R} k (rs : list (list Z * R)) :
  key_mem k rs = match regions_for k rs with [] => false | _ => true end.
Proof.
  unfold key_mem, regions_for. induction rs as [|kr rs IH]; cbn; [reflexivity|].
  destruct (key_eqb (fst kr) k); cbn; [reflexivity|exact IH].
Qed.

(* second loop: membership test, lookup, and the fields of the ReadReq (path, byte_range, entry) *)
Lemma g_read_reqs_eq {E} (shards : list (sshard E)) (dboxes : list box) :
  g_read_reqs shards (g_regions_keyed shards (indexed dboxes))
  = map lift_req (read_reqs_full g_key_insert g_key_member g_key_lookup shards dboxes).
Proof.
  unfold g_read_reqs, read_reqs_full. rewrite g_regions_keyed_eq. cbv zeta. rewrite map_flat_map.
  apply flat_map_ext. intros js. rewrite key_mem_regions_for, !regions_for_lift.
  destruct (regions_for (g_key_member (s_loc (snd js)) (s_br (snd js))) (regions_keyed g_key_insert shards dboxes));
    reflexivity.
Qed.

Lemma g_validate_shape_true a b : g_validate_shape a b = true.
Proof. unfold g_validate_shape. repeat match goal with |- context [if ?c then _ else _] => destruct c end; reflexivity. Qed.

(* ================================================================== 4. executing the generated plan *)
Lemma fetch_own {E} (shards : list (sshard E)) (s : sshard E) :
  NoDup (map s_key shards) -> In s shards -> fetch shards (s_loc s) (s_br s) = Some s.
Proof.
  unfold fetch. change (s_loc s :: s_br s) with (s_key s).
  induction shards as [|s0 rest IH]; intros ND Hin; [destruct Hin|].
  cbn in ND. inversion ND as [|? ? Hnot ND']; subst. cbn [find].
  destruct Hin as [->|Hin].
  - unfold key_eqb. rewrite coord_eqb_refl. reflexivity.
  - destruct (key_eqb (s_key s0) (s_key s)) eqn:Q; [|apply IH; assumption].
    apply key_eqb_eq in Q. exfalso. apply Hnot. rewrite Q. apply in_map. exact Hin.
Qed.

Lemma own_regions_In (sb : box) (dboxes : list box) i r :
  In (i, r) (own_regions sb dboxes) ->
  exists db, nth_error dboxes (Z.to_nat i) = Some db /\ r = overlap_region sb db.
Proof.
  unfold own_regions, indexed. intros H. apply in_flat_map in H as ([i' db] & Hi & Hr). cbn [fst snd] in Hr.
  destruct (overlaps db sb); [|destruct Hr]. destruct Hr as [Hr|[]]. inversion Hr; subst.
  apply indexed_from_In in Hi as [_ Hi]. rewrite Z.sub_0_r in Hi. exists db. split; [exact Hi|reflexivity].
Qed.

Lemma upd_nth_ext {A} (f g : A -> A) : (forall x, f x = g x) -> forall l k, upd_nth l k f = upd_nth l k g.
Proof.
  intros H l; induction l as [|x l IH]; intros [|k]; cbn; try reflexivity; [rewrite H|rewrite IH]; reflexivity.
Qed.

(* a consumer of the generated plan (generated get_views + copy on every region) does what the hand model's
   consumer does *)
Lemma consume_g_eq {E} (n : nat) (s : sshard E) (data : tensor E) (dboxes : list box) (ts : list (tensor E)) :
  wfb n (s_box s) -> (forall db, In db dboxes -> wfb n db) ->
  consume_g s data (map lift_reg (own_regions (s_box s) dboxes)) dboxes ts
  = consume data (own_regions (s_box s) dboxes) ts.
Proof.
  intros Ws Wd. unfold consume_g, consume. rewrite fold_left_map. apply fold_left_ext_in.
  intros ts' [i r] Hin. cbn [lift_reg fst snd]. apply upd_nth_ext. intros dst.
  apply own_regions_In in Hin as (db & Hnth & ->).
  rewrite (nth_error_nth _ _ _ Hnth).
  assert (wfb n db) as Wdb by (apply Wd; eapply nth_error_In; exact Hnth).
  pose proof (region_length n (s_box s) db Ws Wdb) as LR.
  destruct Ws as [_ S2], Wdb as [_ D2].
  apply g_consume_one_eq; lia.
Qed.

Lemma g_global_shape_nonempty (bs : list box) : bs <> [] -> exists gs, g_global_shape bs = Some gs.
Proof. destruct bs; [contradiction|]. intros _. eexists. reflexivity. Qed.

(* prepare_read as generated, followed by its consumers, computes [load] *)
Lemma load_gen_eq {E} (n : nat) (shards : list (sshard E)) (out_shape : list Z) (dsts : list (dshard E)) :
  shards <> [] -> (forall s, In s shards -> wfb n (s_box s)) -> (forall d, In d dsts -> wfb n (d_box d)) ->
  NoDup (map s_key shards) ->
  load_gen shards out_shape dsts = Some (load shards dsts).
Proof.
  intros Ne Ws Wd ND. unfold load_gen, g_prepare_read.
  destruct (g_global_shape_nonempty (map s_box shards)) as [gs ->]; [destruct shards; [contradiction|discriminate]|].
  rewrite g_validate_shape_true. cbn [option_map]. f_equal.
  rewrite g_read_reqs_eq.
  rewrite <- (load_grouped_eq_load g_key_insert g_key_member g_key_lookup g_key_insert_inj g_key_member_eq g_key_lookup_eq
                shards dsts ND).
  unfold load_grouped. rewrite fold_left_map. apply fold_left_ext_in.
  intros ts [[j s] rs] Hin.
  destruct (read_plan_once g_key_insert g_key_member g_key_lookup g_key_insert_inj g_key_member_eq g_key_lookup_eq
              shards (map d_box dsts) ND) as (_ & _ & H3).
  destruct (H3 j s rs Hin) as [Hnth ->]. apply nth_error_In in Hnth.
  unfold exec_req, lift_req. cbn [fst snd]. rewrite (fetch_own shards s ND Hnth).
  apply (consume_g_eq n); [apply Ws; exact Hnth|].
  intros db Hdb. apply in_map_iff in Hdb as (d & <- & Hd). apply Wd. exact Hd.
Qed.

Lemma read_plan_gen_eq {E} (shards : list (sshard E)) (out_shape : list Z) (dboxes : list box) :
  shards <> [] ->
  read_plan_gen shards out_shape dboxes = Some (read_plan g_key_insert g_key_member g_key_lookup shards dboxes).
Proof.
  intros Ne. unfold read_plan_gen, g_prepare_read.
  destruct (g_global_shape_nonempty (map s_box shards)) as [gs ->]; [destruct shards; [contradiction|discriminate]|].
  rewrite g_validate_shape_true. cbn [option_map]. f_equal. rewrite g_read_reqs_eq.
  unfold read_plan, read_reqs. rewrite !map_map. reflexivity.
Qed.

(* ================================================================== 5. the two global-shape computations *)
Lemma g_gs_row_eq : forall acc offs szs, g_gs_row acc offs szs = vmax_gt acc (vadd offs szs).
Proof.
  induction acc as [|a acc IH]; intros [|o offs] [|s szs]; try reflexivity.
  cbn [g_gs_row vadd vmax_gt]. apply f_equal2; [|apply IH].
  unfold g_gs_step. zcases; lia.
Qed.

Lemma g_gs_init_eq sz off : g_gs_init sz off = zeros sz.
Proof. unfold g_gs_init, zeros. apply map_ext. intros; first [reflexivity | lia]. Qed.

Lemma g_global_shape_eq (bs : list box) : g_global_shape bs = global_shape bs.
Proof.
  unfold g_global_shape, global_shape. destruct bs as [|b0 bs']; [reflexivity|]. f_equal.
  rewrite g_gs_init_eq. apply fold_left_ext. intros acc b. apply g_gs_row_eq.
Qed.

Lemma g_ts_sum_eq : forall sz off,
  map (fun p : Z * Z => snd p + fst p) (combine sz off) = vadd off sz.
Proof. induction sz as [|s sz IH]; intros [|o off]; try reflexivity. cbn. apply f_equal2; [reflexivity|apply IH]. Qed.

Lemma g_ts_init_eq sz off : g_ts_init sz off = vadd off sz.
Proof.
  rewrite <- g_ts_sum_eq. unfold g_ts_init. apply map_ext. intros [x y]. cbv zeta. cbn [fst snd]. lia.
Qed.

Lemma g_ts_candidate_eq sz off : g_ts_candidate sz off = vadd off sz.
Proof.
  rewrite <- g_ts_sum_eq. unfold g_ts_candidate. apply map_ext. intros [x y]. cbv zeta. cbn [fst snd]. lia.
Qed.

Lemma g_ts_accept_eq : forall c s, g_ts_accept c s = all_ge c s.
Proof.
  unfold g_ts_accept. induction c as [|x c IH]; intros [|y s]; try reflexivity.
  cbn [combine forallb all_ge]. rewrite IH. apply f_equal2; [|reflexivity]. cbv zeta. cbn [fst snd].
  zcases; first [reflexivity | lia].
Qed.

Lemma g_tensor_shape_eq (bs : list box) : g_tensor_shape bs = tensor_shape bs.
Proof.
  unfold g_tensor_shape, tensor_shape. destruct bs as [|b0 rest]; [reflexivity|]. f_equal.
  rewrite g_ts_init_eq. apply fold_left_ext. intros shape b.
  unfold g_ts_step. rewrite g_ts_candidate_eq, g_ts_accept_eq. reflexivity.
Qed.

Lemma g_dense_box_eq shape : g_dense_box shape = dense_box shape.
Proof.
  unfold g_dense_box, dense_box, zeros. f_equal; first [reflexivity | apply map_ext; intros; lia].
Qed.

(* ================================================================== 6. subdivide_shard *)
(* Reshard.subdivide / chunk_length are the arithmetic translated by translator/gen_chunk.py (gen/ChunkGen.v:
   g_sub_slice_sz, g_sub_chunk_length, g_sub_n_chunks, g_sub_start, g_sub_length) *)
Lemma map_ext_in_upto {A} (f g : Z -> A) n m : n = m -> (forall i, f i = g i) -> map f (upto n) = map g (upto m).
Proof. intros -> H. apply map_ext. exact H. Qed.

Lemma chunk_length_gen (b : box) (dim : nat) (esize maxb : Z) :
  g_sub_chunk_length maxb (g_sub_slice_sz (prodZ (bsz b)) (nth dim (bsz b) 0) esize) = chunk_length b dim esize maxb.
Proof. unfold g_sub_chunk_length, g_sub_slice_sz, chunk_length. first [reflexivity | f_equal; lia | lia]. Qed.

(* one piece: the narrow starts at [start] and has the length recorded in the piece's sizes; offsets and sizes are
   the shard's with position [dim] moved by [start] / set to [length] *)
Lemma quad_eq {A B C D} (a a' : A) (b b' : B) (c c' : C) (d d' : D) :
  a = a' -> b = b' -> c = c' -> d = d' -> ((a, b), (c, d)) = ((a', b'), (c', d')).
Proof. congruence. Qed.

Lemma upd_val_eq (l : list Z) k v v' : v = v' -> upd l k v = upd l k v'.
Proof. intros ->. reflexivity. Qed.

Lemma g_sub_piece_eq (offs szs : list Z) (dim : nat) (start len : Z) :
  g_sub_piece offs szs dim start len = ((start, len), (upd offs dim (nth dim offs 0 + start), upd szs dim len)).
Proof.
  unfold g_sub_piece. cbv zeta.
  apply quad_eq; first [ reflexivity | lia | apply upd_val_eq; lia ].
Qed.

Lemma subdivide_g_eq (b : box) (dim : nat) (esize maxb : Z) : subdivide_g b dim esize maxb = subdivide b dim esize maxb.
Proof.
  unfold subdivide_g, subdivide, subdivide_with. cbv zeta. rewrite chunk_length_gen.
  apply map_ext_in_upto; [unfold g_sub_n_chunks; first [reflexivity | f_equal; lia]|]. intros i. rewrite g_sub_piece_eq. cbn [fst snd].
  unfold g_sub_start, g_sub_length.
  first [ reflexivity | repeat f_equal; lia ].
Qed.

Lemma write_shards_g_eq {E} dim esize maxb (locals : list (dshard E)) :
  write_shards_g dim esize maxb locals = write_shards dim esize maxb locals.
Proof. unfold write_shards_g, write_shards. apply flat_map_ext. intros d. rewrite subdivide_g_eq. reflexivity. Qed.

(* ================================================================== 7. the property, over the generated terms *)
(* the generated load (generated plan, generated views) of pairwise-disjoint saved shards holding G: every
   destination element covered by a saved shard receives G there, from the only saved shard containing it; every
   other element keeps its initial value *)
Lemma generated_reshard_correct {E} (n : nat) (G : coord -> E) (shards : list (sshard E)) (out_shape : list Z)
                                (dsts : list (dshard E)) :
  shards <> [] -> (forall s, In s shards -> wfb n (s_box s)) -> (forall d, In d dsts -> wfb n (d_box d)) ->
  NoDup (map s_key shards) -> shards_disjoint shards ->
  (forall s, In s shards -> forall c, in_local (s_box s) c = true -> s_data s c = G (vadd (boff (s_box s)) c)) ->
  exists ts, load_gen shards out_shape dsts = Some ts /\ length ts = length dsts /\
    forall k d t, nth_error dsts k = Some d -> nth_error ts k = Some t ->
    forall c, in_local (d_box d) c = true ->
      let g := vadd (boff (d_box d)) c in
      (forall s, In s shards -> in_box (s_box s) g = true ->
         t c = G g /\ t c = s_data s (vsub g (boff (s_box s))) /\
         (forall s', In s' shards -> in_box (s_box s') g = true -> s' = s)) /\
      ((forall s, In s shards -> in_box (s_box s) g = false) -> t c = d_data d c).
Proof.
  intros Ne Ws Wd ND Dj HG. exists (load shards dsts). split; [apply (load_gen_eq n); assumption|].
  split; [unfold load; apply map_length|].
  intros k d t Hd Ht c Hc. unfold load in Ht. rewrite nth_error_map, Hd in Ht. cbn in Ht. inversion Ht; subst t.
  apply (reshard_correct n G shards d Ws (Wd d (nth_error_In _ _ Hd)) Dj HG c Hc).
Qed.
