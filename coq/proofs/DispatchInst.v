(* Per-run obligations over gen/DispatchGen.v (translator/gen_dispatch.py): the routing code and the location
   strings as they are in the source now agree with the models the C01 / C05 / C18 theorems speak about. *)
From TS Require Import model.Base model.Flatten model.StoragePath model.Dispatch gen.DispatchGen.

(* ---------------------------------------------------------------- locations (C05) *)
Lemma g_storage_path_eq sh rp rank lp : g_storage_path sh rp rank lp = storage_path sh rp rank lp.
Proof. unfold g_storage_path, storage_path, prefix_of. destruct sh, rp; reflexivity. Qed.

Lemma g_chunk_location_eq sp offs : g_chunk_location sp offs = chunk_location sp offs.
Proof. reflexivity. Qed.

Lemma g_shard_location_eq sp offs : g_shard_location sp offs = chunk_location sp offs.
Proof. reflexivity. Qed.

Lemma g_slab_location_eq u : g_slab_location u = slab_location u.
Proof. reflexivity. Qed.

Lemma g_manifest_path_eq r lp : g_manifest_path r lp = manifest_path r lp.
Proof. reflexivity. Qed.

(* the location of an item computed with the generated functions: pieces of a sharded object take the shard form,
   pieces of a chunked tensor the chunk form *)
Definition g_location_of (a : litem) : pystr :=
  let sp := g_storage_path (li_sharded a) (li_replicated a) (li_rank a) (join (li_path a)) in
  match li_offs a with
  | None => sp
  | Some offs => if li_sharded a then g_shard_location sp offs else g_chunk_location sp offs
  end.

Lemma g_location_of_eq a : g_location_of a = location_of a.
Proof.
  unfold g_location_of, location_of, item_storage_path. rewrite g_storage_path_eq.
  destruct (li_offs a) as [offs|]; [|reflexivity].
  destruct (li_sharded a); [apply g_shard_location_eq | apply g_chunk_location_eq].
Qed.

(* is_sharded as coded: ShardedTensor, or a DTensor with a Shard placement *)
Lemma g_is_sharded_spec st dt sp :
  g_is_sharded st dt sp = (st || (dt && sp)).
Proof. destruct st, dt, sp; reflexivity. Qed.

(* ---------------------------------------------------------------- routing (C01, C18) *)
Definition kind_of_oclass (o : oclass) (nbytes knob : Z) : wkind * bool :=
  let '(i, s, d, t) := oflags o in g_write_kind i s d t nbytes knob.

Lemma write_routing o nbytes knob : fst (kind_of_oclass o nbytes knob) = wanted_wkind o nbytes knob.
Proof.
  destruct o; unfold kind_of_oclass, oflags, g_write_kind, wanted_wkind; cbn [fst];
    try reflexivity.
  destruct (nbytes >? knob); reflexivity.
Qed.

(* `entry.replicated = replicated` is executed for every object that is not a ShardedTensor / DTensor
   (their entries carry no such flag) *)
Lemma write_sets_replicated o nbytes knob :
  snd (kind_of_oclass o nbytes knob) = match o with OShardedTensor | ODTensor => false | _ => true end.
Proof.
  destruct o; unfold kind_of_oclass, oflags, g_write_kind; cbn [snd]; try reflexivity.
  destruct (nbytes >? knob); reflexivity.
Qed.

(* an entry written by preparer k is read by the inverse preparer; the buffer limit (memory budget of read_object)
   reaches exactly the two preparers that can tile: TensorIOPreparer and ChunkedTensorIOPreparer *)
Definition limit_reaches (k : wkind) : bool := match k with WChunked | WTensor => true | _ => false end.

Lemma read_routing k : g_read_kind (entry_class_of k) = Some (reader_of k, limit_reaches k).
Proof. destruct k; vm_compute; reflexivity. Qed.

(* container entries and the abstract base are not readable objects: prepare_read raises *)
Lemma read_routing_none c :
  g_read_kind c = None <-> In c [EEntry; EList; EDict; EOrderedDict].
Proof.
  destruct c; vm_compute; split; intros H; try discriminate; try tauto;
    repeat (destruct H as [H|H]; [discriminate H|]); try contradiction.
Qed.

(* every entry class has a base chain that ends at Entry within the fuel of is_a *)
Lemma hierarchy_rooted c : is_a g_entry_parent c EEntry = true.
Proof. destruct c; vm_compute; reflexivity. Qed.

(* take then restore routes every object class back through the matching reader *)
Lemma routing_roundtrip o nbytes knob :
  g_read_kind (entry_class_of (fst (kind_of_oclass o nbytes knob)))
  = Some (reader_of (wanted_wkind o nbytes knob), limit_reaches (wanted_wkind o nbytes knob)).
Proof. rewrite write_routing. apply read_routing. Qed.

(* ---------------------------------------------------------------- the async flag reaches the stager (C09) *)
Lemma async_flag_reaches_stager : forallb (fun b => b) g_async_flag_hops = true.
Proof. vm_compute. reflexivity. Qed.

(* ---------------------------------------------------------------- Snapshot.read_object wiring (C18) *)
Lemma read_object_wiring :
  g_ro_limit_is_budget = true /\
  (forall d, g_ro_batches d true = false) /\
  (forall d, g_ro_batches d false = negb d) /\
  (forall b cap, 0 < b -> g_ro_exec_budget (Some b) cap = b) /\
  (forall cap, g_ro_exec_budget None cap = cap).
Proof.
  split; [reflexivity|]. split; [intros d; destruct d; reflexivity|]. split; [intros d; destruct d; reflexivity|].
  split; [|reflexivity]. intros b cap Hb. unfold g_ro_exec_budget. destruct (b =? 0) eqn:E; [lia | reflexivity].
Qed.

(* ---------------------------------------------------------------- the memory budget reaches the schedulers (C10) *)
Lemma budget_reaches_schedulers : forallb (fun b => b) g_budget_hops = true.
Proof. vm_compute. reflexivity. Qed.
