(* C16 (part 1): proofs about chunking, subdivision and tiling. *)
From TS Require Import model.Base model.Chunk.
From Coq Require Import ZifyBool.

(* ------------------------------------------------------------------ arithmetic *)
Lemma cdiv_pos a b : 0 < a -> 0 < b -> 0 < cdiv a b.
Proof.
  intros Ha Hb. unfold cdiv.
  assert (1 <= (a + b - 1) / b); [|lia].
  apply Z.div_le_lower_bound; lia.
Qed.

Lemma cdiv_mul_ge a b : 0 < b -> a <= cdiv a b * b.
Proof.
  intros Hb. unfold cdiv.
  pose proof (Z.div_mod (a + b - 1) b ltac:(lia)) as H.
  pose proof (Z.mod_pos_bound (a + b - 1) b Hb) as H2. nia.
Qed.

Lemma cdiv_mul_lt a b : 0 < b -> (cdiv a b - 1) * b < a.
Proof.
  intros Hb. unfold cdiv.
  pose proof (Z.div_mod (a + b - 1) b ltac:(lia)) as H.
  pose proof (Z.mod_pos_bound (a + b - 1) b Hb) as H2. nia.
Qed.

Lemma cdiv_zero b : 0 < b -> cdiv 0 b = 0.
Proof. intros Hb. unfold cdiv. apply Z.div_small. lia. Qed.

Lemma sumZ_app a b : sumZ (a ++ b) = sumZ a + sumZ b.
Proof. unfold sumZ. induction a as [|x a IH]; cbn [app fold_right]; lia. Qed.

Lemma sumZ_repeat0 n : sumZ (repeat 0 n) = 0.
Proof. unfold sumZ. induction n as [|n IH]; cbn [repeat fold_right]; lia. Qed.

Lemma sumZ_nonneg l : Forall (fun x => 0 <= x) l -> 0 <= sumZ l.
Proof. unfold sumZ. induction 1; cbn [fold_right]; lia. Qed.

Lemma prodZ_nonneg l : Forall (fun x => 0 <= x) l -> 0 <= prodZ l.
Proof. unfold prodZ. induction 1; cbn [fold_right]; nia. Qed.

Lemma prodZ_pos l : Forall (fun x => 0 < x) l -> 0 < prodZ l.
Proof. unfold prodZ. induction 1; cbn [fold_right]; nia. Qed.

Lemma Forall_pos_nonneg l : Forall (fun x : Z => 0 < x) l -> Forall (fun x => 0 <= x) l.
Proof. apply Forall_impl; intros; lia. Qed.

(* ------------------------------------------------------------------ torch.chunk *)
Lemma chunk_lens_done fuel rem cs : rem <= 0 -> chunk_lens fuel rem cs = [].
Proof.
  intros H. destruct fuel as [|f]; [reflexivity|]. cbn [chunk_lens].
  destruct (rem <=? 0) eqn:E; [reflexivity | lia].
Qed.

Lemma chunk_lens_sum fuel : forall rem cs,
  0 < cs -> 0 <= rem <= Z.of_nat fuel -> sumZ (chunk_lens fuel rem cs) = rem.
Proof.
  induction fuel as [|f IH]; intros rem cs Hcs Hrem.
  - cbn. lia.
  - cbn [chunk_lens]. destruct (rem <=? 0) eqn:E.
    + cbn. lia.
    + change (sumZ (Z.min cs rem :: chunk_lens f (rem - cs) cs))
        with (Z.min cs rem + sumZ (chunk_lens f (rem - cs) cs)).
      destruct (Z.le_gt_cases (rem - cs) 0) as [Hle | Hgt].
      * rewrite chunk_lens_done by lia. cbn. lia.
      * rewrite IH by lia. lia.
Qed.

Lemma chunk_lens_all_pos fuel : forall rem cs,
  0 < cs -> Forall (fun l => 0 < l) (chunk_lens fuel rem cs).
Proof.
  induction fuel as [|f IH]; intros rem cs Hcs; [constructor|].
  cbn [chunk_lens]. destruct (rem <=? 0) eqn:E; [constructor|].
  constructor; [lia | apply IH; assumption].
Qed.

Lemma Forall_repeat {A} (P : A -> Prop) x n : P x -> Forall P (repeat x n).
Proof. intros H. induction n; cbn; constructor; assumption. Qed.

(* what the rest of the development uses about torch.chunk: for n >= 1 and d >= 0 it succeeds, the
   piece lengths are non-negative and sum to d, and every piece is non-empty when d > 0 *)
Lemma torch_chunk_spec d n :
  1 <= n -> 0 <= d ->
  exists lens, torch_chunk d n = Some lens /\ sumZ lens = d /\
               Forall (fun l => 0 <= l) lens /\ (0 < d -> Forall (fun l => 0 < l) lens) /\ lens <> [].
Proof.
  intros Hn Hd. unfold torch_chunk.
  destruct (n <=? 0) eqn:En; [lia|].
  destruct (d <=? 0) eqn:Ed.
  - exists (repeat 0 (Z.to_nat n)). repeat split.
    + rewrite sumZ_repeat0. lia.
    + apply Forall_repeat. lia.
    + intros; lia.
    + destruct (Z.to_nat n) eqn:E; [lia | discriminate].
  - assert (Hcs : 0 < cdiv d n) by (apply cdiv_pos; lia).
    exists (chunk_lens (Z.to_nat d) d (cdiv d n)). repeat split.
    + apply chunk_lens_sum; lia.
    + apply Forall_pos_nonneg, chunk_lens_all_pos; assumption.
    + intros _. apply chunk_lens_all_pos; assumption.
    + destruct (Z.to_nat d) eqn:E; [lia|]. cbn [chunk_lens].
      destruct (d <=? 0) eqn:E2; [lia | discriminate].
Qed.

Lemma torch_chunk_zero_chunks d : torch_chunk d 0 = None.
Proof. reflexivity. Qed.

(* ------------------------------------------------------------------ set_nth / boxes *)
Lemma set_nth_length i v l : length (set_nth i v l) = length l.
Proof. revert i; induction l as [|x l IH]; intros [|i]; cbn; auto. Qed.

Lemma nth_set_nth_same i v l : (i < length l)%nat -> nth i (set_nth i v l) 0 = v.
Proof. revert i; induction l as [|x l IH]; intros [|i] H; cbn in *; try lia; auto. apply IH; lia. Qed.

Lemma nth_set_nth_other i j v l : i <> j -> nth j (set_nth i v l) 0 = nth j l 0.
Proof.
  revert i j; induction l as [|x l IH]; intros [|i] [|j] H; cbn; try reflexivity; try lia.
  apply IH; lia.
Qed.

Lemma set_nth_same i l : set_nth i (nth i l 0) l = l.
Proof. revert i; induction l as [|x l IH]; intros [|i]; cbn; try reflexivity. f_equal. apply IH. Qed.

Lemma prodZ_set_nth i v l : (i < length l)%nat -> prodZ (set_nth i v l) = v * prodZ (set_nth i 1 l).
Proof.
  unfold prodZ. revert i; induction l as [|x l IH]; intros [|i] H; cbn [set_nth fold_right length] in *; try lia.
  rewrite IH by lia. lia.
Qed.

(* inside a box whose dim-th coordinate is [c, c+l)  <->  the other coordinates fit and c <= x < c+l *)
Definition others_ok (idx offs sizes : list Z) (dim : nat) : bool :=
  in_boxb idx (set_nth dim (nth dim idx 0) offs) (set_nth dim 1 sizes).

Lemma in_boxb_set_nth dim : forall idx offs sizes c l,
  (dim < length offs)%nat -> length sizes = length offs ->
  in_boxb idx (set_nth dim c offs) (set_nth dim l sizes)
  = others_ok idx offs sizes dim && (c <=? nth dim idx 0) && (nth dim idx 0 <? c + l).
Proof.
  unfold others_ok.
  induction dim as [|dim IH]; intros idx offs sizes c l Hd Hl.
  - destruct offs as [|o offs]; [cbn in Hd; lia|]. destruct sizes as [|s sizes]; [discriminate|].
    destruct idx as [|x idx]; cbn [set_nth in_boxb nth]; [reflexivity|].
    destruct (in_boxb idx offs sizes); lia.
  - destruct offs as [|o offs]; [cbn in Hd; lia|]. destruct sizes as [|s sizes]; [discriminate|].
    destruct idx as [|x idx]; cbn [set_nth in_boxb nth]; [reflexivity|].
    cbn in Hd, Hl. rewrite (IH idx offs sizes c l) by lia.
    destruct ((o <=? x) && (x <? o + s)); cbn [andb]; reflexivity.
Qed.

Lemma in_boxb_split dim idx offs sizes :
  (dim < length offs)%nat -> length sizes = length offs ->
  in_boxb idx offs sizes
  = others_ok idx offs sizes dim && (nth dim offs 0 <=? nth dim idx 0)
    && (nth dim idx 0 <? nth dim offs 0 + nth dim sizes 0).
Proof.
  intros Hd Hl. rewrite <- in_boxb_set_nth by assumption. rewrite !set_nth_same. reflexivity.
Qed.

(* one-dimensional fact: consecutive intervals of lengths lens starting at cur contain x exactly once
   when cur <= x < cur + sum, and never otherwise *)
Lemma count_1d x : forall lens cur,
  Forall (fun l => 0 <= l) lens ->
  length (filter (fun p : box => (nth 0 (fst p) 0 <=? x) && (x <? nth 0 (fst p) 0 + nth 0 (snd p) 0))
                 (boxes_along 0 [0] [0] cur lens))
  = if (cur <=? x) && (x <? cur + sumZ lens) then 1%nat else 0%nat.
Proof.
  induction lens as [|l lens IH]; intros cur Hnn.
  - cbn. destruct (cur <=? x) eqn:E1; destruct (x <? cur + 0) eqn:E2; cbn; try reflexivity; lia.
  - inversion Hnn as [|? ? Hl Hnn']; subst.
    cbn [boxes_along filter set_nth fst snd nth].
    change (sumZ (l :: lens)) with (l + sumZ lens).
    pose proof (sumZ_nonneg lens Hnn') as Hs.
    destruct ((cur <=? x) && (x <? cur + l)) eqn:E.
    + cbn [length]. rewrite IH by assumption.
      destruct ((cur + l <=? x) && (x <? cur + l + sumZ lens)) eqn:E2; [lia|].
      destruct ((cur <=? x) && (x <? cur + (l + sumZ lens))) eqn:E3; [reflexivity | lia].
    + rewrite IH by assumption.
      destruct ((cur + l <=? x) && (x <? cur + l + sumZ lens)) eqn:E2;
        destruct ((cur <=? x) && (x <? cur + (l + sumZ lens))) eqn:E3; try reflexivity; lia.
Qed.

Lemma count_along dim idx offs sizes : forall lens cur,
  (dim < length offs)%nat -> length sizes = length offs ->
  Forall (fun l => 0 <= l) lens ->
  length (filter (in_piece idx) (boxes_along dim offs sizes cur lens))
  = if others_ok idx offs sizes dim && (cur <=? nth dim idx 0) && (nth dim idx 0 <? cur + sumZ lens)
    then 1%nat else 0%nat.
Proof.
  intros lens cur Hd Hl Hnn. revert cur.
  induction Hnn as [|l lens Hl0 Hnn IH]; intros cur.
  - cbn [boxes_along filter length]. change (sumZ []) with 0.
    destruct (others_ok idx offs sizes dim); cbn [andb]; [|reflexivity].
    destruct (cur <=? nth dim idx 0) eqn:E1; destruct (nth dim idx 0 <? cur + 0) eqn:E2; cbn; try reflexivity; lia.
  - cbn [boxes_along filter]. unfold in_piece at 1. cbn [fst snd].
    rewrite in_boxb_set_nth by assumption.
    change (sumZ (l :: lens)) with (l + sumZ lens).
    pose proof (sumZ_nonneg lens Hnn) as Hs.
    destruct (others_ok idx offs sizes dim) eqn:Eo; cbn [andb].
    + destruct ((cur <=? nth dim idx 0) && (nth dim idx 0 <? cur + l)) eqn:E.
      * cbn [length]. rewrite IH. rewrite ?Eo. cbn [andb].
        destruct ((cur + l <=? nth dim idx 0) && (nth dim idx 0 <? cur + l + sumZ lens)) eqn:E2; [lia|].
        destruct ((cur <=? nth dim idx 0) && (nth dim idx 0 <? cur + (l + sumZ lens))) eqn:E3; [reflexivity | lia].
      * rewrite IH. rewrite ?Eo. cbn [andb].
        destruct ((cur + l <=? nth dim idx 0) && (nth dim idx 0 <? cur + l + sumZ lens)) eqn:E2;
          destruct ((cur <=? nth dim idx 0) && (nth dim idx 0 <? cur + (l + sumZ lens))) eqn:E3; try reflexivity; lia.
    + rewrite IH. rewrite ?Eo. reflexivity.
Qed.

Lemma bytes_along dim offs sizes esize : forall lens cur,
  (dim < length sizes)%nat ->
  sumZ (map (fun p : box => esize * prodZ (snd p)) (boxes_along dim offs sizes cur lens))
  = esize * (sumZ lens * prodZ (set_nth dim 1 sizes)).
Proof.
  intros lens cur Hd. revert cur. induction lens as [|l lens IH]; intros cur.
  - cbn. lia.
  - cbn [boxes_along map snd].
    change (sumZ (?a :: ?r)) with (a + sumZ r). rewrite IH.
    rewrite prodZ_set_nth by assumption.
    change (sumZ (l :: lens)) with (l + sumZ lens). lia.
Qed.

(* ------------------------------------------------------------------ the partition predicate *)
(* [pieces] is an exact partition of the box (offs, sizes) along dimension dim:
   1. structure: the pieces are  boxes_along dim offs sizes base lens : consecutive along dim starting at
      the box's own offset, every other coordinate (offset and size) copied unchanged;
   2. the piece lengths along dim sum to the extent, are non-negative, and are all positive when the
      extent is positive;
   3. exact cover: every index vector lies in exactly one piece if it lies in the box and in none otherwise;
   4. byte lengths (esize * product of the recorded sizes) add up to the byte length of the whole box. *)
Definition partition_along (dim : nat) (offs sizes : list Z) (esize : Z) (pieces : list box) : Prop :=
  exists lens,
    pieces = boxes_along dim offs sizes (nth dim offs 0) lens
    /\ sumZ lens = nth dim sizes 0
    /\ Forall (fun l => 0 <= l) lens
    /\ (0 < nth dim sizes 0 -> Forall (fun l => 0 < l) lens)
    /\ (forall idx, length (filter (in_piece idx) pieces)
                    = if in_boxb idx offs sizes then 1%nat else 0%nat)
    /\ sumZ (map (fun p : box => esize * prodZ (snd p)) pieces) = esize * prodZ sizes.

Lemma partition_along_intro dim offs sizes esize lens :
  (dim < length offs)%nat -> length sizes = length offs ->
  sumZ lens = nth dim sizes 0 ->
  Forall (fun l => 0 <= l) lens ->
  (0 < nth dim sizes 0 -> Forall (fun l => 0 < l) lens) ->
  partition_along dim offs sizes esize (boxes_along dim offs sizes (nth dim offs 0) lens).
Proof.
  intros Hd Hl Hsum Hnn Hpos. exists lens. repeat split; try assumption.
  - intros idx. rewrite count_along by assumption.
    rewrite (in_boxb_split dim idx offs sizes) by assumption. rewrite Hsum. reflexivity.
  - rewrite bytes_along by lia. rewrite Hsum.
    rewrite <- (prodZ_set_nth dim (nth dim sizes 0) sizes) by lia. rewrite set_nth_same. reflexivity.
Qed.

(* ------------------------------------------------------------------ chunk_tensor *)
Lemma nth_zeros (sh : list Z) dim : nth dim (map (fun _ : Z => 0) sh) 0 = 0.
Proof. revert dim; induction sh as [|x sh IH]; intros [|dim]; cbn; auto. Qed.

Lemma shape1_pos shape : Forall (fun s => 0 < s) shape -> Forall (fun s => 0 < s) (shape1 shape).
Proof. destruct shape; cbn [shape1]; intros H; [repeat constructor; lia | assumption]. Qed.

Lemma Forall_nth_Z (P : Z -> Prop) l i : Forall P l -> (i < length l)%nat -> P (nth i l 0).
Proof. intros H Hi. rewrite Forall_forall in H. apply H. apply nth_In. assumption. Qed.

(* every chunk threshold >= 1, every element size, every shape without a zero extent (0-d included),
   every chunking dim of the (reshaped) tensor *)
Lemma chunk_partition shape dim esize csz :
  1 <= csz -> 0 < esize -> Forall (fun s => 0 < s) shape -> (dim < length (shape1 shape))%nat ->
  exists pieces, chunk_tensor shape dim esize csz = Some pieces /\
                 partition_along dim (map (fun _ => 0) (shape1 shape)) (shape1 shape) esize pieces.
Proof.
  intros Hc He Hsh Hd. unfold chunk_tensor.
  set (sh := shape1 shape) in *.
  assert (Hshp : Forall (fun s => 0 < s) sh) by (apply shape1_pos; assumption).
  destruct (csz <=? 0) eqn:E1; [lia|].
  destruct (length sh <=? dim)%nat eqn:E2; [apply Nat.leb_le in E2; lia|].
  pose proof (prodZ_pos sh Hshp) as Hp.
  assert (Hn : 1 <= cdiv (prodZ sh * esize) csz) by (pose proof (cdiv_pos (prodZ sh * esize) csz); nia).
  pose proof (Forall_nth_Z _ sh dim Hshp Hd) as Hext. cbv beta in Hext.
  destruct (torch_chunk_spec (nth dim sh 0) _ Hn ltac:(lia)) as (lens & Heq & Hsum & Hnn & Hpos & _).
  rewrite Heq. eexists; split; [reflexivity|].
  pose proof (partition_along_intro dim (map (fun _ => 0) sh) sh esize lens) as P.
  rewrite nth_zeros in P. apply P; try assumption.
  - rewrite map_length. assumption.
  - rewrite map_length. reflexivity.
Qed.

(* a tensor with no elements: n_chunks = 0 and torch.chunk raises *)
Lemma chunk_zero_elements shape dim esize csz :
  1 <= csz -> prodZ (shape1 shape) = 0 -> chunk_tensor shape dim esize csz = None.
Proof.
  intros Hc Hz. unfold chunk_tensor. rewrite Hz.
  destruct (csz <=? 0); [reflexivity|]. destruct (length (shape1 shape) <=? dim)%nat; [reflexivity|].
  cbn [Z.mul]. rewrite cdiv_zero by lia. reflexivity.
Qed.

(* ------------------------------------------------------------------ subdivide_shard *)
Lemma subdivide_closed_form dim offs sizes base cl sd : forall k i0,
  0 < cl ->
  (forall i, (i0 <= i)%nat -> (S i < i0 + k)%nat -> (Z.of_nat i + 1) * cl <= sd) ->
  map (fun i => (set_nth dim (base + i * cl) offs,
                 set_nth dim (Z.min ((i + 1) * cl) sd - i * cl) sizes)) (map Z.of_nat (seq i0 k))
  = boxes_along dim offs sizes (base + Z.of_nat i0 * cl)
      (map (fun i => Z.min ((i + 1) * cl) sd - i * cl) (map Z.of_nat (seq i0 k))).
Proof.
  induction k as [|k IH]; intros i0 Hcl Hfull; [reflexivity|].
  cbn [seq map boxes_along]. f_equal.
  destruct k as [|k']; [reflexivity|].
  rewrite (IH (S i0)); [|assumption|intros i H1 H2; apply Hfull; lia].
  f_equal. pose proof (Hfull i0 ltac:(lia) ltac:(lia)). lia.
Qed.

Lemma subdivide_lens_sum cl sd : forall k i0,
  0 < cl -> (0 < k)%nat -> Z.of_nat i0 * cl <= sd ->
  (forall i, (i0 <= i)%nat -> (S i < i0 + k)%nat -> (Z.of_nat i + 1) * cl <= sd) ->
  sumZ (map (fun i => Z.min ((i + 1) * cl) sd - i * cl) (map Z.of_nat (seq i0 k)))
  = Z.min (Z.of_nat (i0 + k) * cl) sd - Z.of_nat i0 * cl.
Proof.
  induction k as [|k IH]; intros i0 Hcl Hk Hi0 Hfull; [lia|].
  cbn [seq map]. change (sumZ (?a :: ?r)) with (a + sumZ r).
  destruct k as [|k'].
  - cbn [seq map]. change (sumZ []) with 0. replace (Z.of_nat (i0 + 1)) with (Z.of_nat i0 + 1) by lia. lia.
  - pose proof (Hfull i0 ltac:(lia) ltac:(lia)) as Hf.
    rewrite (IH (S i0)); try lia.
    intros i H1 H2; apply Hfull; lia.
Qed.

Lemma subdivide_lens_pos cl sd k :
  0 < cl -> (forall i, (i < k)%nat -> Z.of_nat i * cl < sd) ->
  Forall (fun l => 0 < l) (map (fun i => Z.min ((i + 1) * cl) sd - i * cl) (map Z.of_nat (seq 0 k))).
Proof.
  intros Hcl H. rewrite Forall_forall. intros l Hin.
  rewrite map_map in Hin. apply in_map_iff in Hin as (i & <- & Hi). apply in_seq in Hi.
  pose proof (H i ltac:(lia)). nia.
Qed.

(* every max_shard_sz_bytes >= 1, every element size, every shard without a zero extent, every dim *)
Lemma subdivide_partition offs sizes dim esize maxsz :
  1 <= maxsz -> 0 < esize -> Forall (fun s => 0 < s) sizes ->
  length offs = length sizes -> (dim < length sizes)%nat ->
  exists pieces, subdivide_shard offs sizes dim esize maxsz = Some pieces /\
                 partition_along dim offs sizes esize pieces.
Proof.
  intros Hm He Hsz Hlen Hd. unfold subdivide_shard.
  destruct (maxsz <=? 0) eqn:E1; [lia|].
  destruct (length sizes <=? dim)%nat eqn:E2; [apply Nat.leb_le in E2; lia|].
  pose proof (Forall_nth_Z _ sizes dim Hsz Hd) as Hsd. cbv beta in Hsd.
  set (sd := nth dim sizes 0) in *.
  destruct (sd =? 0) eqn:E3; [lia|].
  assert (Hslice : 0 < prodZ sizes / sd * esize).
  { rewrite <- (set_nth_same dim sizes) at 1. fold sd. rewrite prodZ_set_nth by assumption.
    rewrite (Z.mul_comm sd), Z.div_mul by lia.
    assert (0 < prodZ (set_nth dim 1 sizes)); [|nia].
    apply prodZ_pos. rewrite Forall_forall in *. intros x Hx.
    apply (In_nth _ _ 0) in Hx as (j & Hj & <-). rewrite set_nth_length in Hj.
    destruct (Nat.eq_dec dim j) as [->|Hne].
    - rewrite nth_set_nth_same by assumption. lia.
    - rewrite nth_set_nth_other by assumption. apply Hsz. apply nth_In. assumption. }
  set (slice_sz := prodZ sizes / sd * esize) in *.
  destruct (slice_sz =? 0) eqn:E4; [lia|].
  set (cl := Z.max (maxsz / slice_sz) 1).
  assert (Hcl : 0 < cl) by lia.
  set (n := cdiv sd cl).
  assert (Hn : 0 < n) by (apply cdiv_pos; lia).
  pose proof (cdiv_mul_ge sd cl Hcl) as Hge. pose proof (cdiv_mul_lt sd cl Hcl) as Hlt. fold n in Hge, Hlt.
  eexists; split; [reflexivity|].
  unfold zrange.
  assert (Hfull : forall i, (0 <= i)%nat -> (S i < 0 + Z.to_nat n)%nat -> (Z.of_nat i + 1) * cl <= sd) by (intros; nia).
  rewrite (subdivide_closed_form dim offs sizes (nth dim offs 0) cl sd (Z.to_nat n) 0%nat Hcl Hfull).
  replace (nth dim offs 0 + Z.of_nat 0 * cl) with (nth dim offs 0) by lia.
  apply partition_along_intro; try lia.
  - rewrite (subdivide_lens_sum cl sd (Z.to_nat n) 0%nat Hcl ltac:(lia) ltac:(lia) Hfull).
    fold sd. replace (Z.of_nat (0 + Z.to_nat n)) with n by lia. lia.
  - apply Forall_pos_nonneg. apply subdivide_lens_pos; [assumption|]. intros i Hi. nia.
  - intros _. apply subdivide_lens_pos; [assumption|]. intros i Hi. nia.
Qed.

(* the division-by-zero branches: an empty shard is an error, not an empty plan *)
Lemma subdivide_empty_extent offs sizes dim esize maxsz :
  nth dim sizes 0 = 0 -> subdivide_shard offs sizes dim esize maxsz = None.
Proof.
  intros H. unfold subdivide_shard. destruct (maxsz <=? 0); [reflexivity|].
  destruct (length sizes <=? dim)%nat; [reflexivity|]. rewrite H. reflexivity.
Qed.

Lemma subdivide_empty_slice offs sizes dim esize maxsz :
  prodZ sizes / nth dim sizes 0 * esize = 0 -> subdivide_shard offs sizes dim esize maxsz = None.
Proof.
  intros H. unfold subdivide_shard. destruct (maxsz <=? 0); [reflexivity|].
  destruct (length sizes <=? dim)%nat; [reflexivity|]. destruct (nth dim sizes 0 =? 0); [reflexivity|].
  rewrite H. reflexivity.
Qed.

(* ------------------------------------------------------------------ tiles *)
(* ranges rs are consecutive: the first starts at cur, each starts where the previous one ended,
   lo <= hi, and the last one ends at fin *)
Fixpoint consecutive (cur : Z) (rs : list (Z * Z)) (fin : Z) : Prop :=
  match rs with
  | [] => cur = fin
  | (lo, hi) :: r => lo = cur /\ lo <= hi /\ consecutive hi r fin
  end.

Definition tile_range (t : tile_t) : Z * Z := (fst (fst t), snd (fst t)).
Definition tile_shape (t : tile_t) : list Z := snd t.

Lemma tile_ranges_spec esize rest : forall lens cur,
  0 <= esize -> 0 <= prodZ rest -> Forall (fun l => 0 <= l) lens ->
  consecutive cur (map tile_range (tile_ranges esize rest cur lens)) (cur + esize * (sumZ lens * prodZ rest))
  /\ Forall (fun t => snd (tile_range t) - fst (tile_range t) = esize * prodZ (tile_shape t))
            (tile_ranges esize rest cur lens)
  /\ map tile_shape (tile_ranges esize rest cur lens) = map (fun l => l :: rest) lens.
Proof.
  intros lens cur He Hr Hnn. revert cur. induction Hnn as [|l lens Hl Hnn IH]; intros cur.
  - cbn. repeat split; [lia | constructor].
  - cbn [tile_ranges map]. destruct (IH (cur + l * prodZ rest * esize)) as (H1 & H2 & H3).
    split; [|split].
    + cbn [consecutive tile_range fst snd]. split; [reflexivity|]. split; [nia|].
      change (sumZ (l :: lens)) with (l + sumZ lens).
      replace (cur + esize * ((l + sumZ lens) * prodZ rest))
        with (cur + l * prodZ rest * esize + esize * (sumZ lens * prodZ rest)) by lia.
      exact H1.
    + constructor; [|exact H2]. unfold tile_range, tile_shape. cbn [fst snd].
      change (prodZ (l :: rest)) with (l * prodZ rest). lia.
    + cbn [tile_shape snd]. f_equal. exact H3.
Qed.

Lemma tile_ranges_nonempty esize rest : forall lens cur,
  0 < esize -> 0 < prodZ rest -> Forall (fun l => 0 < l) lens ->
  Forall (fun t => fst (tile_range t) < snd (tile_range t)) (tile_ranges esize rest cur lens).
Proof.
  intros lens cur He Hr Hp. revert cur. induction Hp as [|l lens Hl Hp IH]; intros cur; cbn [tile_ranges]; constructor.
  - unfold tile_range. cbn [fst snd]. nia.
  - apply IH.
Qed.

(* every limit >= 1, element size > 0, shape with non-negative extents; the non-flattenable case needs
   at least one dimension.  The tiles' byte ranges run consecutively from base to base + total size,
   each is as long as its recorded chunk shape says, chunk shapes are (l :: rest) with the l's summing to
   the chunked extent, and no tile is empty when the tensor is not. *)
Lemma tile_partition shape flat esize limit base :
  1 <= limit -> 0 < esize -> Forall (fun s => 0 <= s) shape -> (flat = false -> shape <> []) ->
  exists tiles lens,
    tile shape flat esize limit base = Some tiles
    /\ consecutive base (map tile_range tiles) (base + esize * prodZ shape)
    /\ Forall (fun t => snd (tile_range t) - fst (tile_range t) = esize * prodZ (tile_shape t)) tiles
    /\ map tile_shape tiles = map (fun l => l :: (if flat then [] else tl shape)) lens
    /\ sumZ lens = (if flat then prodZ shape else hd 0 shape)
    /\ tiles <> []
    /\ (0 < prodZ shape -> Forall (fun t => fst (tile_range t) < snd (tile_range t)) tiles).
Proof.
  intros Hl He Hsh Hnf. unfold tile.
  destruct (limit <=? 0) eqn:E1; [lia|].
  assert (Hn : 1 <= Z.max (cdiv (esize * prodZ shape) limit) 1) by lia.
  pose proof (prodZ_nonneg shape Hsh) as Hp.
  destruct flat.
  - destruct (torch_chunk_spec (prodZ shape) _ Hn Hp) as (lens & Heq & Hsum & Hnn & Hpos & Hne).
    rewrite Heq. exists (tile_ranges esize [] base lens), lens.
    destruct (tile_ranges_spec esize [] lens base ltac:(lia) ltac:(cbn; lia) Hnn) as (H1 & H2 & H3).
    change (prodZ []) with 1 in H1. rewrite Z.mul_1_r, Hsum in H1.
    repeat split; try assumption.
    + destruct lens; [congruence | discriminate].
    + intros Hpp. apply tile_ranges_nonempty; [lia | cbn; lia | auto].
  - destruct shape as [|d rest]; [exfalso; apply Hnf; reflexivity|].
    inversion Hsh as [|? ? Hd Hrest]; subst.
    pose proof (prodZ_nonneg rest Hrest) as Hpr.
    destruct (torch_chunk_spec d _ Hn Hd) as (lens & Heq & Hsum & Hnn & Hpos & Hne).
    rewrite Heq. exists (tile_ranges esize rest base lens), lens.
    destruct (tile_ranges_spec esize rest lens base ltac:(lia) Hpr Hnn) as (H1 & H2 & H3).
    rewrite Hsum in H1. change (prodZ (d :: rest)) with (d * prodZ rest).
    repeat split; try assumption.
    + destruct lens; [congruence | discriminate].
    + intros Hpp. apply tile_ranges_nonempty; [lia | nia | apply Hpos; nia].
Qed.

(* reading the tiles one after the other yields exactly the bytes [base, fin) of the stored object,
   whatever its length (a short object yields the same short prefix either way) *)
Lemma slice_app {A} (d : list A) a b c : 0 <= a <= b -> b <= c -> slice d a b ++ slice d b c = slice d a c.
Proof.
  intros Hab Hbc. unfold slice.
  replace (Z.to_nat (c - a)) with (Z.to_nat (b - a) + Z.to_nat (c - b))%nat by lia.
  assert (Hplus : forall (l : list A) n m, firstn (n + m) l = firstn n l ++ firstn m (skipn n l)).
  { induction l as [|x l IH]; intros n m.
    - rewrite skipn_nil, !firstn_nil. reflexivity.
    - destruct n as [|n]; [reflexivity|]. cbn. f_equal. apply IH. }
  assert (Hskip : forall (l : list A) n m, skipn m (skipn n l) = skipn (n + m) l).
  { induction l as [|x l IH]; intros n m.
    - rewrite !skipn_nil. reflexivity.
    - destruct n as [|n]; [reflexivity|]. cbn. apply IH. }
  rewrite Hplus. f_equal. rewrite Hskip. do 2 f_equal. lia.
Qed.

Lemma slice_empty {A} (d : list A) a : slice d a a = [].
Proof. unfold slice. rewrite Z.sub_diag. reflexivity. Qed.

Lemma consecutive_le cur rs fin : consecutive cur rs fin -> cur <= fin.
Proof.
  revert cur; induction rs as [|[lo hi] rs IH]; intros cur H; cbn in H; [lia|].
  destruct H as (-> & Hle & H). apply IH in H. lia.
Qed.

Lemma consecutive_concat {A} (d : list A) rs : forall cur fin,
  0 <= cur -> consecutive cur rs fin ->
  concat (map (fun r => slice d (fst r) (snd r)) rs) = slice d cur fin.
Proof.
  induction rs as [|[lo hi] rs IH]; intros cur fin H0 H; cbn in H.
  - subst. cbn. rewrite slice_empty. reflexivity.
  - destruct H as (-> & Hle & H). cbn [map concat fst snd].
    rewrite (IH hi fin) by (assumption || lia).
    apply slice_app; [lia|]. apply consecutive_le in H. assumption.
Qed.
