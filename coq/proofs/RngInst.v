(* C19, per-run obligations: the skeletons translated from snapshot.py on THIS run satisfy the ordering condition
   whose soundness is proved in RngProofs.v, and no function reachable from take / async_take / restore draws torch
   randomness. *)
From TS Require Import model.Base model.Rng gen.RngGen proofs.RngProofs.

Lemma take_skel_ordered : rng_ordered gen_take_skel = true.
Proof. vm_compute. reflexivity. Qed.
Lemma take_skel_ordered_take : rng_ordered_take gen_take_skel = true.
Proof. vm_compute. reflexivity. Qed.
Lemma async_take_skel_ordered : rng_ordered gen_async_take_skel = true.
Proof. vm_compute. reflexivity. Qed.
Lemma async_take_skel_ordered_take : rng_ordered_take gen_async_take_skel = true.
Proof. vm_compute. reflexivity. Qed.
Lemma restore_skel_ordered : rng_ordered gen_restore_skel = true.
Proof. vm_compute. reflexivity. Qed.
Lemma restore_skel_ordered_restore : rng_ordered_restore gen_restore_skel = true.
Proof. vm_compute. reflexivity. Qed.

Lemma take_draws_no_torch_rng : gen_take_draws_torch_rng = false.
Proof. vm_compute. reflexivity. Qed.
Lemma restore_draws_no_torch_rng : gen_restore_draws_torch_rng = false.
Proof. vm_compute. reflexivity. Qed.

(* _pop_rng_state deletes the RNGState key: it must work on a copy so that the caller's dict keeps its structure *)
Lemma take_copies_app_state : gen_take_copies_app_state = true.
Proof. vm_compute. reflexivity. Qed.
Lemma restore_copies_app_state : gen_restore_copies_app_state = true.
Proof. vm_compute. reflexivity. Qed.
