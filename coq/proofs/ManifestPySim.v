(* C07: the abstraction from the Python-object level of model/ManifestPy.v (strings, dicts of entry addresses, a heap)
   to the hand model model/ManifestOps.v (paths as token lists, entries as values), and the lemmas that relate the
   vocabulary of the two levels.  Nothing here depends on the generated file. *)
From TS Require Import model.Base model.Flatten model.ManifestOps proofs.FlattenProofs proofs.ManifestOpsProofs
  model.Dispatch model.ManifestPy proofs.ManifestPyFrame.
From Coq Require Import Permutation.

(* ================================================================== 1. split / join on strings *)
Lemma split_nonnil : forall s, split s <> [].
Proof.
  induction s as [|c s IH]; cbn [split]; [discriminate|].
  destruct (c =? 47); [discriminate|]. destruct (split s); discriminate.
Qed.

Lemma join_cons : forall (t : token) (r : list token), r <> [] -> join (t :: r) = t ++ 47 :: join r.
Proof. intros t r H. destruct r; [contradiction | reflexivity]. Qed.

Lemma join_split : forall s, join (split s) = s.
Proof.
  induction s as [|c s IH]; cbn [split]; [reflexivity|].
  destruct (c =? 47) eqn:E.
  - apply Z.eqb_eq in E. subst c. rewrite join_cons by apply split_nonnil. rewrite IH. reflexivity.
  - pose proof (split_nonnil s) as N. destruct (split s) as [|t ts]; [contradiction|].
    destruct ts as [|t2 ts].
    + cbn [join] in *. subst. reflexivity.
    + rewrite join_cons by discriminate. rewrite join_cons in IH by discriminate. cbn [app]. rewrite IH. reflexivity.
Qed.

Lemma split_inj : forall a b, split a = split b -> a = b.
Proof. intros a b H. rewrite <- (join_split a), <- (join_split b), H. reflexivity. Qed.

Lemma split_tokens_slash_free : forall s, Forall slash_free (split s).
Proof.
  induction s as [|c s IH]; cbn [split].
  - constructor; [intros []|constructor].
  - destruct (c =? 47) eqn:E.
    + constructor; [intros []|exact IH].
    + destruct (split s) as [|t ts]; [constructor; [|constructor]|].
      * intros [H|[]]. subst. discriminate.
      * inversion IH; subst. constructor; [|assumption].
        intros [H|H]; [subst; discriminate | contradiction].
Qed.

Lemma path_eqb_split : forall a b, path_eqb (split a) (split b) = str_eqb a b.
Proof.
  intros a b. destruct (str_eqb a b) eqn:E.
  - apply str_eqb_eq in E. subst. apply path_eqb_refl.
  - apply path_eqb_neq. intro H. apply split_inj in H. apply str_eqb_neq in E. contradiction.
Qed.

Lemma Forall_removelast {A} (P : A -> Prop) (l : list A) : Forall P l -> Forall P (removelast l).
Proof.
  induction l as [|x l IH]; intro H; [constructor|]. cbn [removelast]. destruct l; [constructor|].
  inversion H; subst. constructor; [assumption | apply IH; assumption].
Qed.

(* the parent path of a logical path, as the code computes it:  "/".join(tokens[:-1]) *)
Lemma split_join_parent : forall s, removelast (split s) <> [] -> split (join (removelast (split s))) = removelast (split s).
Proof. intros s H. apply split_join; [exact H | apply Forall_removelast; apply split_tokens_slash_free]. Qed.

Lemma split_join_tail : forall s, tl (split s) <> [] -> split (join (tl (split s))) = tl (split s).
Proof.
  intros s H. apply split_join; [exact H|]. pose proof (split_tokens_slash_free s) as F.
  destruct (split s); [constructor | inversion F; assumption].
Qed.

Lemma join_nil_iff : forall q : path, join q = [] <-> (q = [] \/ q = [[]]).
Proof.
  intro q. split.
  - destruct q as [|t [|t2 r]]; cbn [join]; intro H; [left; reflexivity | right; subst; reflexivity|].
    destruct t; discriminate.
  - intros [->| ->]; reflexivity.
Qed.

Lemma str_eqb_sym' : forall a b, str_eqb a b = str_eqb b a.
Proof.
  intros a b. destruct (str_eqb a b) eqn:E.
  - apply str_eqb_eq in E. subst. symmetry. apply str_eqb_refl.
  - symmetry. apply str_eqb_neq. apply str_eqb_neq in E. congruence.
Qed.

(* ------------------------------------------------------------------ NoDup helpers *)
Lemma NoDup_snoc {A} (l : list A) (x : A) : NoDup l -> ~ In x l -> NoDup (l ++ [x]).
Proof.
  intros N Hx. induction l as [|y l IH]; cbn [app]; [constructor; [intros []|constructor]|].
  inversion N; subst. constructor.
  - intro K. apply in_app_or in K. destruct K as [K|[K|[]]]; [contradiction|]. subst. apply Hx. left. reflexivity.
  - apply IH; [assumption|]. intro K. apply Hx. right. exact K.
Qed.

(* ================================================================== 2. dicts *)
Section Dict.
  Context {A : Type}.
  Implicit Types d : pdict A.

  Lemma dget_dset : forall d k v k', dget (dset d k v) k' = if str_eqb k k' then Some v else dget d k'.
  Proof.
    induction d as [|[q v'] r IH]; intros k v k'; cbn [dset dget]; [reflexivity|].
    destruct (str_eqb q k) eqn:E1; cbn [dget].
    - apply str_eqb_eq in E1. subst q. destruct (str_eqb k k'); reflexivity.
    - destruct (str_eqb q k') eqn:E2.
      + destruct (str_eqb k k') eqn:E3; [|reflexivity].
        apply str_eqb_eq in E2. apply str_eqb_eq in E3. subst. rewrite str_eqb_refl in E1. discriminate.
      + apply IH.
  Qed.

  Lemma dget_none_iff : forall d k, dget d k = None <-> ~ In k (dkeys d).
  Proof.
    induction d as [|[q v] r IH]; intro k; cbn [dget dkeys map fst In]; [split; [tauto | reflexivity]|].
    destruct (str_eqb q k) eqn:E.
    - apply str_eqb_eq in E. subst. split; [discriminate | tauto].
    - apply str_eqb_neq in E. fold (dkeys r). rewrite IH. tauto.
  Qed.

  Lemma dget_some_in : forall d k v, dget d k = Some v -> In (k, v) d.
  Proof.
    induction d as [|[q v'] r IH]; intros k v H; cbn [dget] in H; [discriminate|].
    destruct (str_eqb q k) eqn:E.
    - apply str_eqb_eq in E. injection H as <-. subst. left. reflexivity.
    - right. apply IH. exact H.
  Qed.

  Lemma dget_in : forall d k v, NoDup (dkeys d) -> In (k, v) d -> dget d k = Some v.
  Proof.
    induction d as [|[q v'] r IH]; intros k v N Hin; [destruct Hin|]. cbn [dget].
    cbn [dkeys map fst] in N. inversion N as [|? ? Hn N']; subst. destruct Hin as [E|Hin].
    - injection E as -> ->. rewrite str_eqb_refl. reflexivity.
    - destruct (str_eqb q k) eqn:E.
      + apply str_eqb_eq in E. subst. exfalso. apply Hn. apply in_map_iff. exists (k, v). split; [reflexivity | exact Hin].
      + apply IH; assumption.
  Qed.

  Lemma dset_absent : forall d k v, dget d k = None -> dset d k v = d ++ [(k, v)].
  Proof.
    induction d as [|[q v'] r IH]; intros k v H; cbn [dset dget app] in *; [reflexivity|].
    destruct (str_eqb q k); [discriminate|]. rewrite IH by exact H. reflexivity.
  Qed.

  Lemma dkeys_dset : forall d k v, dkeys (dset d k v) = if dhas d k then dkeys d else dkeys d ++ [k].
  Proof.
    unfold dhas. induction d as [|[q v'] r IH]; intros k v; cbn [dset dget dkeys map fst app]; [reflexivity|].
    destruct (str_eqb q k) eqn:E; cbn [map fst]; [reflexivity|].
    fold (dkeys (dset r k v)). rewrite IH. fold (dkeys r). destruct (dget r k); reflexivity.
  Qed.

  Lemma dset_nodup : forall d k v, NoDup (dkeys d) -> NoDup (dkeys (dset d k v)).
  Proof.
    intros d k v N. rewrite dkeys_dset. unfold dhas. destruct (dget d k) eqn:E; [exact N|].
    apply dget_none_iff in E. apply NoDup_snoc; assumption.
  Qed.
End Dict.


(* ================================================================== 3. the heap *)
Lemma hget_upd_same : forall h a f, (a < length h)%nat -> hget (upd_nth h a f) a = f (hget h a).
Proof.
  unfold hget. induction h as [|x h IH]; intros a f H; [cbn in H; lia|].
  destruct a; cbn [upd_nth nth]; [reflexivity|]. apply IH. cbn in H. lia.
Qed.

Lemma hget_upd_other : forall h a f b, b <> a -> hget (upd_nth h a f) b = hget h b.
Proof.
  unfold hget. induction h as [|x h IH]; intros a f b H; [destruct a; reflexivity|].
  destruct a, b; cbn [upd_nth nth]; try reflexivity; [contradiction | apply IH; congruence].
Qed.

Lemma hget_app_old : forall h l a, (a < length h)%nat -> hget (h ++ l) a = hget h a.
Proof. intros. unfold hget. apply app_nth1. assumption. Qed.

Lemma hget_app_new : forall h e, hget (h ++ [e]) (length h) = e.
Proof. intros. unfold hget. rewrite app_nth2 by lia. rewrite Nat.sub_diag. reflexivity. Qed.

Lemma hget_firstn : forall n h1 h2 a, firstn n h1 = firstn n h2 -> (a < n)%nat -> hget h1 a = hget h2 a.
Proof.
  unfold hget. induction n as [|n IH]; intros h1 h2 a H Ha; [lia|].
  destruct h1 as [|x h1], h2 as [|y h2]; cbn [firstn] in H; try discriminate.
  - reflexivity.
  - injection H as -> H. destruct a; cbn [nth]; [reflexivity | apply (IH h1 h2); [exact H | lia]].
Qed.

(* ================================================================== 4. the abstraction *)
(* an entry object as the hand model sees it (model/ManifestOps.v [mentry]); Entry itself and DTensorEntry are
   outside the hand model: [modelledE] *)
Definition absE (e : pentry) : mentry :=
  match pe_cls e with
  | Dispatch.EList => MCont Flatten.EList
  | Dispatch.EDict => MCont (Flatten.EDict false (pe_keys e))
  | EOrderedDict => MCont (Flatten.EDict true (pe_keys e))
  | ESharded => MShard (pe_shards e)
  | ETensor | EChunked | EObject | EPrimitive => if pe_repl e then MRepl (pe_id e) else MPriv (pe_id e)
  | EEntry | EDTensor => MPriv (pe_id e)
  end.
Definition modelledE (e : pentry) : bool :=
  match pe_cls e with EEntry | EDTensor => false | _ => true end.
Definition is_dict_cls (c : eclass) : bool :=
  match c with Dispatch.EDict | EOrderedDict => true | _ => false end.

Definition absD (h : heap) (d : pdict addr) : man := map (fun ka => (split (fst ka), absE (hget h (snd ka)))) d.

(* the rank prefix of a global path "<rank>/<logical path>": int(tokens.pop(0)); -1 when int() raises *)
Definition rank_of (s : pystr) : Z := match parse_int (hd [] (split s)) with Some z => z | None => -1 end.
Definition absG (h : heap) (md : pmeta) : gman :=
  map (fun ka => (rank_of (fst ka), tl (split (fst ka)), absE (hget h (snd ka)))) (pm_manifest md).

Lemma absD_paths : forall h d, map fst (absD h d) = map split (dkeys d).
Proof. intros. unfold absD, dkeys. rewrite !map_map. reflexivity. Qed.

Lemma NoDup_map_split : forall l : list pystr, NoDup (map split l) <-> NoDup l.
Proof.
  intro l. split.
  - apply NoDup_map_inv.
  - intro N. induction l as [|x l IH]; cbn [map]; [constructor|]. inversion N; subst. constructor; [|apply IH; assumption].
    intro K. apply in_map_iff in K. destruct K as (y & E & Hy). apply split_inj in E. subst. contradiction.
Qed.

Lemma absD_nodup : forall h d, NoDup (map fst (absD h d)) <-> NoDup (dkeys d).
Proof. intros. rewrite absD_paths. apply NoDup_map_split. Qed.

Lemma mget_absD : forall h d s, mget (absD h d) (split s) = option_map (fun a => absE (hget h a)) (dget d s).
Proof.
  induction d as [|[q a] r IH]; intro s; cbn [absD map mget dget fst snd]; [reflexivity|].
  rewrite path_eqb_split. destruct (str_eqb q s); [reflexivity | apply IH].
Qed.

Lemma absD_dset : forall h d s a, absD h (dset d s a) = mset (absD h d) (split s) (absE (hget h a)).
Proof.
  induction d as [|[q b] r IH]; intros s a; cbn [absD map mset dset fst snd]; [reflexivity|].
  rewrite path_eqb_split. destruct (str_eqb q s); cbn [map fst snd]; [reflexivity|]. f_equal. apply IH.
Qed.

Lemma absD_ddel : forall h d s, absD h (ddel d s) = mdel (absD h d) (split s).
Proof.
  induction d as [|[q b] r IH]; intro s; cbn [absD map mdel ddel fst snd]; [reflexivity|].
  rewrite path_eqb_split. destruct (str_eqb q s); cbn [map fst snd]; [reflexivity|]. f_equal. apply IH.
Qed.

Lemma absD_app : forall h d1 d2, absD h (d1 ++ d2) = absD h d1 ++ absD h d2.
Proof. intros. unfold absD. apply map_app. Qed.

Lemma absD_ext : forall h h' d, (forall k a, In (k, a) d -> absE (hget h' a) = absE (hget h a)) -> absD h' d = absD h d.
Proof.
  intros h h' d H. unfold absD. apply map_ext_in. intros [k a] Hin. cbn [fst snd]. f_equal. apply (H k a Hin).
Qed.

Lemma dhas_absD : forall h d s, dhas d s = match mget (absD h d) (split s) with Some _ => true | None => false end.
Proof. intros. rewrite mget_absD. unfold dhas. destruct (dget d s); reflexivity. Qed.

(* ------------------------------------------------------------------ a dict of objects in good standing *)
Record dict_ok (h : heap) (d : pdict addr) : Prop := {
  ok_keys : NoDup (dkeys d);
  ok_in : forall q a, dget d q = Some a -> (a < length h)%nat /\ modelledE (hget h a) = true;
  ok_uniq : forall q1 q2 a, dget d q1 = Some a -> dget d q2 = Some a ->
                            is_dict_cls (pe_cls (hget h a)) = true -> q1 = q2 }.

(* a heap that differs from h only in the keys of dict objects (and may be longer) *)
Definition same_classes (h h' : heap) : Prop :=
  (length h <= length h')%nat /\
  forall a, (a < length h)%nat ->
    pe_cls (hget h' a) = pe_cls (hget h a) /\ (is_dict_cls (pe_cls (hget h a)) = false -> hget h' a = hget h a).

Lemma same_classes_refl : forall h, same_classes h h.
Proof. intro h. split; [lia | intros; split; reflexivity]. Qed.
Lemma same_classes_trans : forall h1 h2 h3, same_classes h1 h2 -> same_classes h2 h3 -> same_classes h1 h3.
Proof.
  intros h1 h2 h3 [L1 C1] [L2 C2]. split; [lia|]. intros a Ha. destruct (C1 a Ha) as [X1 Y1].
  assert (Ha2 : (a < length h2)%nat) by lia. destruct (C2 a Ha2) as [X2 Y2]. split; [congruence|].
  intro N. rewrite Y2 by (rewrite X1; exact N). apply Y1. exact N.
Qed.
Lemma same_classes_app : forall h l, same_classes h (h ++ l).
Proof.
  intros h l. split; [rewrite app_length; lia|]. intros a Ha. rewrite hget_app_old by exact Ha. split; reflexivity.
Qed.

Lemma modelledE_cls : forall e e', pe_cls e' = pe_cls e -> modelledE e' = modelledE e.
Proof. intros e e' H. unfold modelledE. rewrite H. reflexivity. Qed.

Lemma dict_ok_same_classes : forall h h' d, dict_ok h d -> same_classes h h' -> dict_ok h' d.
Proof.
  intros h h' d [K I U] [L C]. split; [exact K | |].
  - intros q a E. destruct (I q a E) as [Ha Hm]. split; [lia|]. rewrite (modelledE_cls (hget h a)); [exact Hm | apply C; exact Ha].
  - intros q1 q2 a E1 E2 Hc. destruct (I q1 a E1) as [Ha _]. rewrite (proj1 (C a Ha)) in Hc. exact (U q1 q2 a E1 E2 Hc).
Qed.

Lemma dict_ok_dset_nondict : forall h d k a, dict_ok h d -> (a < length h)%nat -> modelledE (hget h a) = true ->
  is_dict_cls (pe_cls (hget h a)) = false -> dict_ok h (dset d k a).
Proof.
  intros h d k a [K I U] Ha Hm Hc. split; [apply dset_nodup; exact K | |].
  - intros q b E. rewrite dget_dset in E. destruct (str_eqb k q); [injection E as <-; split; assumption | exact (I q b E)].
  - intros q1 q2 b E1 E2 Hb. rewrite dget_dset in E1, E2.
    destruct (str_eqb k q1) eqn:X1; [injection E1 as <-; congruence|].
    destruct (str_eqb k q2) eqn:X2; [injection E2 as <-; congruence|]. exact (U q1 q2 b E1 E2 Hb).
Qed.

Lemma dget_ddel : forall {A} (d : pdict A) k k', NoDup (dkeys d) ->
  dget (ddel d k) k' = if str_eqb k k' then None else dget d k'.
Proof.
  induction d as [|[q v] r IH]; intros k k' N; cbn [ddel dget]; [destruct (str_eqb k k'); reflexivity|].
  cbn [dkeys map fst] in N. inversion N as [|? ? Hn N']; subst. destruct (str_eqb q k) eqn:E1.
  - apply str_eqb_eq in E1. subst q. destruct (str_eqb k k') eqn:E2; [|reflexivity].
    apply str_eqb_eq in E2. subst k'. apply dget_none_iff. exact Hn.
  - cbn [dget]. destruct (str_eqb q k') eqn:E2.
    + destruct (str_eqb k k') eqn:E3; [|reflexivity]. apply str_eqb_eq in E2. apply str_eqb_eq in E3. subst.
      rewrite str_eqb_refl in E1. discriminate.
    + apply IH. exact N'.
Qed.

Lemma dkeys_ddel_incl : forall {A} (d : pdict A) k x, In x (dkeys (ddel d k)) -> In x (dkeys d).
Proof.
  induction d as [|[q v] r IH]; intros k x H; cbn [ddel dkeys map fst] in *; [exact H|].
  destruct (str_eqb q k); [right; exact H|]. cbn [map fst In] in H. destruct H as [H|H]; [left; exact H | right; exact (IH k x H)].
Qed.

Lemma ddel_nodup : forall {A} (d : pdict A) k, NoDup (dkeys d) -> NoDup (dkeys (ddel d k)).
Proof.
  induction d as [|[q v] r IH]; intros k N; cbn [ddel dkeys map fst] in *; [constructor|].
  inversion N; subst. destruct (str_eqb q k); [assumption|]. cbn [map fst]. constructor; [|apply IH; assumption].
  intro K. apply dkeys_ddel_incl in K. contradiction.
Qed.

Lemma dict_ok_ddel : forall h d k, dict_ok h d -> dict_ok h (ddel d k).
Proof.
  intros h d k [K I U]. split; [apply ddel_nodup; exact K | |].
  - intros q a E. rewrite dget_ddel in E by exact K. destruct (str_eqb k q); [discriminate | exact (I q a E)].
  - intros q1 q2 a E1 E2 Hc. rewrite dget_ddel in E1, E2 by exact K.
    destruct (str_eqb k q1); [discriminate|]. destruct (str_eqb k q2); [discriminate|]. exact (U q1 q2 a E1 E2 Hc).
Qed.

(* a write to the keys of the dict object at path P of d *)
Lemma absD_write : forall h d P a f, dict_ok h d -> dget d P = Some a ->
  is_dict_cls (pe_cls (hget h a)) = true ->
  absD (upd_nth h a f) d = mset (absD h d) (split P) (absE (f (hget h a))).
Proof.
  intros h d P a f [K I U] E Hc. destruct (I P a E) as [Ha _].
  assert (G : forall d0, NoDup (dkeys d0) -> (forall q b, In (q, b) d0 -> dget d q = Some b) -> In P (dkeys d0) ->
              absD (upd_nth h a f) d0 = mset (absD h d0) (split P) (absE (f (hget h a)))).
  { induction d0 as [|[q b] r IH]; intros N Hsub Hin; [destruct Hin|].
    cbn [absD map mset fst snd]. rewrite path_eqb_split. cbn [dkeys map fst] in N. inversion N as [|? ? Hn N']; subst.
    destruct (str_eqb q P) eqn:X.
    - apply str_eqb_eq in X. subst q. assert (b = a) by (specialize (Hsub P b (or_introl eq_refl)); congruence). subst b.
      rewrite hget_upd_same by exact Ha. f_equal. apply absD_ext. intros k c Hk.
      assert (c <> a).
      { intro; subst c. assert (k = P) by (apply (U k P a); [apply Hsub; right; exact Hk | exact E | exact Hc]). subst k.
        apply Hn. apply in_map_iff. exists (P, a). split; [reflexivity | exact Hk]. }
      rewrite hget_upd_other by assumption. reflexivity.
    - assert (b <> a).
      { intro; subst b. assert (q = P) by (apply (U q P a); [apply Hsub; left; reflexivity | exact E | exact Hc]).
        subst q. rewrite str_eqb_refl in X. discriminate. }
      rewrite hget_upd_other by assumption. f_equal. apply IH; [exact N' | intros; apply Hsub; right; assumption|].
      destruct Hin as [Hin|Hin]; [cbn in Hin; subst q; rewrite str_eqb_refl in X; discriminate | exact Hin]. }
  apply G; [exact K | intros q b Hin; apply dget_in; assumption|].
  apply dget_some_in in E. apply in_map_iff. exists (P, a). split; [reflexivity | exact E].
Qed.

Lemma same_classes_write : forall h a f, (forall e, pe_cls (f e) = pe_cls e) -> is_dict_cls (pe_cls (hget h a)) = true ->
  same_classes h (upd_nth h a f).
Proof.
  intros h a f Hf Hd. split; [rewrite upd_nth_length; lia|]. intros b Hb.
  destruct (Nat.eq_dec b a) as [->|N].
  - rewrite hget_upd_same by exact Hb. split; [apply Hf | congruence].
  - rewrite hget_upd_other by exact N. split; reflexivity.
Qed.

(* absD only looks at the objects the dict refers to *)
Lemma absD_same_nondict : forall h h' d, same_classes h h' ->
  (forall k a, In (k, a) d -> (a < length h)%nat /\ is_dict_cls (pe_cls (hget h a)) = false) -> absD h' d = absD h d.
Proof.
  intros h h' d [L C] H. apply absD_ext. intros k a Hin. destruct (H k a Hin) as [Ha Hn]. rewrite (proj2 (C a Ha) Hn). reflexivity.
Qed.

(* ================================================================== 5. running computations *)
Lemma run_lift : forall {A} (o : option A) h, lift o h = (o, h).
Proof. intros A [a|] h; reflexivity. Qed.

Lemma run_bind : forall {A B} (c : M A) (f : A -> M B) h,
  bind c f h = match c h with (Some a, h') => f a h' | (None, h') => (None, h') end.
Proof. reflexivity. Qed.

Lemma run_dget_m : forall {A} (d : pdict A) k h, dget_m d k h = (dget d k, h).
Proof. intros. apply run_lift. Qed.

Lemma run_pop_last : forall l h, l <> [] -> pop_last l h = (Some (last l [], removelast l), h).
Proof. intros l h H. destruct l; [contradiction | reflexivity]. Qed.

Lemma norm_index_in : forall n i, 0 <= i < Z.of_nat n -> norm_index n i = Some (Z.to_nat i).
Proof.
  intros n i H. unfold norm_index. destruct (0 <=? i) eqn:E1; [|lia]. destruct (i <? Z.of_nat n) eqn:E2; [reflexivity | lia].
Qed.

Lemma run_list_get : forall {A} (l : list A) i h d, 0 <= i < Z.of_nat (length l) ->
  list_get l i h = (Some (nth (Z.to_nat i) l d), h).
Proof.
  intros A l i h d H. unfold list_get. rewrite norm_index_in by exact H.
  rewrite (nth_error_nth' l d) by lia. reflexivity.
Qed.

Lemma mset_same : forall m p e, mget m p = Some e -> mset m p e = m.
Proof.
  induction m as [|[q e'] r IH]; intros p e H; cbn [mget mset] in *; [discriminate|].
  destruct (path_eqb q p); [injection H as ->; reflexivity | rewrite IH by exact H; reflexivity].
Qed.

(* a loop whose body never raises, breaks or touches the heap is a fold *)
Lemma for_each_pure : forall {X S} (l : list X) (body : X -> S -> M (loop S)) (step : S -> X -> S) s h,
  (forall x s h, body x s h = (Some (LNext (step s x)), h)) ->
  for_each l body s h = (Some (fold_left step l s), h).
Proof.
  induction l as [|x l IH]; intros body step s h H; cbn [for_each fold_left]; [reflexivity|].
  rewrite run_bind, H. apply IH. exact H.
Qed.

Lemma for_each_pure_in : forall {X S} (l : list X) (body : X -> S -> M (loop S)) (step : S -> X -> S) s h,
  (forall x s h, In x l -> body x s h = (Some (LNext (step s x)), h)) ->
  for_each l body s h = (Some (fold_left step l s), h).
Proof.
  induction l as [|x l IH]; intros body step s h H; cbn [for_each fold_left]; [reflexivity|].
  rewrite run_bind, H by (left; reflexivity). apply IH. intros. apply H. right. assumption.
Qed.

Lemma upd_nth_ext : forall h a (f g : pentry -> pentry), f (hget h a) = g (hget h a) -> upd_nth h a f = upd_nth h a g.
Proof.
  unfold hget. induction h as [|x h IH]; intros a f g H; [destruct a; reflexivity|].
  destruct a; cbn [upd_nth nth] in *; [rewrite H; reflexivity | rewrite (IH a f g H); reflexivity].
Qed.

(* ================================================================== 6. lists of dicts; copy.deepcopy *)
Lemma nth_upd_same : forall {A} (l : list A) k f d, (k < length l)%nat -> nth k (upd_nth l k f) d = f (nth k l d).
Proof.
  induction l as [|x l IH]; intros k f d H; [cbn in H; lia|].
  destruct k; cbn [upd_nth nth]; [reflexivity|]. apply IH. cbn in H. lia.
Qed.
Lemma nth_upd_other : forall {A} (l : list A) k f r d, r <> k -> nth r (upd_nth l k f) d = nth r l d.
Proof.
  induction l as [|x l IH]; intros k f r d H; [destruct k; reflexivity|].
  destruct k, r; cbn [upd_nth nth]; try reflexivity; [contradiction | apply IH; congruence].
Qed.

Lemma first_occ_spec : forall l seen a, In a (first_occ seen l) <-> (In a l /\ ~ In a seen).
Proof.
  induction l as [|x l IH]; intros seen a; cbn [first_occ In]; [tauto|].
  destruct (existsb (Nat.eqb x) seen) eqn:E.
  - apply existsb_exists in E. destruct E as (y & Hy & Exy). apply Nat.eqb_eq in Exy. subst y. rewrite IH. split.
    + intros [H1 H2]. tauto.
    + intros [[->|H1] H2]; [contradiction | tauto].
  - assert (N : ~ In x seen).
    { intro K. assert (X : existsb (Nat.eqb x) seen = true) by (apply existsb_exists; exists x; split; [exact K | apply Nat.eqb_refl]). congruence. }
    cbn [In]. rewrite IH. cbn [In]. split.
    + intros [->|[H1 H2]]; [tauto|]. split; [tauto|]. intro K. apply H2. right. exact K.
    + intros [[->|H1] H2]; [left; reflexivity|]. destruct (Nat.eq_dec x a) as [->|Nx]; [left; reflexivity|].
      right. split; [exact H1|]. intros [K|K]; [contradiction | contradiction].
Qed.

Lemma index_of_nth : forall l a, In a l -> (index_of a l < length l)%nat /\ nth (index_of a l) l O = a.
Proof.
  induction l as [|x l IH]; intros a H; [destruct H|]. cbn [index_of]. destruct (Nat.eqb x a) eqn:E.
  - apply Nat.eqb_eq in E. subst. cbn. split; [lia | reflexivity].
  - apply Nat.eqb_neq in E. destruct H as [H|H]; [contradiction|]. destruct (IH a H) as [H1 H2]. cbn [length nth]. split; [lia | exact H2].
Qed.

Lemma index_of_inj : forall l a b, In a l -> In b l -> index_of a l = index_of b l -> a = b.
Proof.
  intros l a b Ha Hb E. destruct (index_of_nth l a Ha) as [_ Na]. destruct (index_of_nth l b Hb) as [_ Nb]. congruence.
Qed.

Definition new_addr (ds : list (pdict addr)) (h : heap) (a : addr) : addr :=
  (length h + index_of a (first_occ [] (all_addrs ds)))%nat.

Lemma run_deepcopy_dicts : forall ds h,
  deepcopy_dicts ds h = (Some (map (map (fun ka => (fst ka, new_addr ds h (snd ka)))) ds),
                         h ++ map (hget h) (first_occ [] (all_addrs ds))).
Proof. reflexivity. Qed.

Lemma in_all_addrs : forall ds d k a, In d ds -> In (k, a) d -> In a (all_addrs ds).
Proof.
  intros ds d k a Hd Hk. unfold all_addrs. apply in_flat_map. exists d. split; [exact Hd|].
  apply in_map_iff. exists (k, a). split; [reflexivity | exact Hk].
Qed.

Lemma new_addr_spec : forall ds h a, In a (all_addrs ds) ->
  let h' := h ++ map (hget h) (first_occ [] (all_addrs ds)) in
  (length h <= new_addr ds h a < length h')%nat /\ hget h' (new_addr ds h a) = hget h a.
Proof.
  intros ds h a Ha h'. assert (Ho : In a (first_occ [] (all_addrs ds))) by (apply first_occ_spec; split; [exact Ha | intros []]).
  destruct (index_of_nth _ a Ho) as [I1 I2]. unfold new_addr, h'. rewrite app_length, map_length. split; [lia|].
  unfold hget at 1. rewrite app_nth2 by lia. replace (length h + _ - length h)%nat with (index_of a (first_occ [] (all_addrs ds))) by lia.
  rewrite (nth_indep _ dflt_entry (hget h O)) by (rewrite map_length; exact I1).
  rewrite map_nth. rewrite I2. reflexivity.
Qed.

Lemma new_addr_inj : forall ds h a b, In a (all_addrs ds) -> In b (all_addrs ds) -> new_addr ds h a = new_addr ds h b -> a = b.
Proof.
  intros ds h a b Ha Hb E. unfold new_addr in E.
  apply (index_of_inj (first_occ [] (all_addrs ds))); [apply first_occ_spec; split; [exact Ha | intros []] | apply first_occ_spec; split; [exact Hb | intros []] | lia].
Qed.

(* a dict whose objects are pairwise distinct, in the heap and modelled, is in good standing *)
Lemma dict_ok_of_nodup : forall h d, NoDup (dkeys d) -> NoDup (map snd d) ->
  (forall k a, In (k, a) d -> (a < length h)%nat /\ modelledE (hget h a) = true) -> dict_ok h d.
Proof.
  intros h d K N I. split; [exact K | intros q a E; apply (I q a); apply dget_some_in; exact E|].
  intros q1 q2 a E1 E2 _. apply dget_some_in in E1. apply dget_some_in in E2.
  clear K I. induction d as [|[k b] r IH]; [destruct E1|]. cbn [map snd] in N. inversion N as [|? ? Hn N']; subst.
  destruct E1 as [E1|E1], E2 as [E2|E2].
  - congruence.
  - injection E1 as -> ->. exfalso. apply Hn. apply in_map_iff. exists (q2, a). split; [reflexivity | exact E2].
  - injection E2 as -> ->. exfalso. apply Hn. apply in_map_iff. exists (q1, a). split; [reflexivity | exact E1].
  - exact (IH N' E1 E2).
Qed.

Lemma run_list_set : forall {A} (l : list A) i v h, 0 <= i < Z.of_nat (length l) ->
  list_set l i v h = (Some (upd_nth l (Z.to_nat i) (fun _ => v)), h).
Proof. intros A l i v h H. unfold list_set. rewrite norm_index_in by exact H. reflexivity. Qed.

(* ================================================================== 7. _get_rank_to_manifest: what the grouping loop computes *)
Definition rtm_spec (items : pdict addr) (r : Z) : pdict addr :=
  flat_map (fun ka => if rank_of (fst ka) =? r then [(join (tl (split (fst ka))), snd ka)] else []) items.

Definition absItems (h : heap) (items : pdict addr) : gman :=
  map (fun ka => (rank_of (fst ka), tl (split (fst ka)), absE (hget h (snd ka)))) items.

Lemma absD_rtm_spec : forall h items r, (forall k a, In (k, a) items -> tl (split k) <> []) ->
  absD h (rtm_spec items r) = rank_manifest (absItems h items) r.
Proof.
  induction items as [|[s a] items IH]; intros r H; [reflexivity|].
  unfold rtm_spec, rank_manifest, absItems in *. cbn [flat_map map fst snd grank gpath gentry].
  rewrite absD_app. rewrite IH by (intros k b Hk; apply (H k b); right; exact Hk). f_equal.
  destruct (rank_of s =? r); [|reflexivity]. cbn [absD map fst snd]. rewrite split_join_tail; [reflexivity|].
  apply (H s a). left. reflexivity.
Qed.

Lemma rtm_spec_sub : forall items r k a, In (k, a) (rtm_spec items r) -> exists s, In (s, a) items.
Proof.
  intros items r k a H. unfold rtm_spec in H. apply in_flat_map in H. destruct H as ([s b] & Hin & Hk). cbn [fst snd] in Hk.
  destruct (rank_of s =? r); [|destruct Hk]. destruct Hk as [Hk|[]]. injection Hk as <- <-. exists s. exact Hin.
Qed.

Lemma rtm_spec_addrs_nodup : forall items r, NoDup (map snd items) -> NoDup (map snd (rtm_spec items r)).
Proof.
  induction items as [|[s a] items IH]; intros r N; [constructor|]. cbn [map snd] in N. inversion N as [|? ? Hn N']; subst.
  unfold rtm_spec. cbn [flat_map fst snd]. fold (rtm_spec items r). destruct (rank_of s =? r); [|apply IH; exact N'].
  cbn [app map snd]. constructor; [|apply IH; exact N'].
  intro K. apply in_map_iff in K. destruct K as ([k b] & E & Hk). cbn [snd] in E. subst b.
  destruct (rtm_spec_sub _ _ _ _ Hk) as (s' & Hs'). apply Hn. apply in_map_iff. exists (s', a). split; [reflexivity | exact Hs'].
Qed.

(* ================================================================== 8. invariants of the simulation *)
(* the metadata object: its entries are pairwise distinct objects of the heap, all of classes the hand model knows *)
Definition meta_ok (md : pmeta) (h : heap) : Prop :=
  NoDup (map snd (pm_manifest md)) /\
  forall k a, In (k, a) (pm_manifest md) -> (a < length h)%nat /\ modelledE (hget h a) = true.

(* rank_to_manifest after the deep copy *)
Record rtm_ok (W : Z) (g : gman) (h : heap) (rtm : list (pdict addr)) : Prop := {
  rt_len : length rtm = Z.to_nat W;
  rt_abs : forall r, 0 <= r < W -> absD h (nth (Z.to_nat r) rtm []) = rank_manifest g r;
  rt_ok : forall r, 0 <= r < W -> dict_ok h (nth (Z.to_nat r) rtm []) }.

(* merged_sd_entries *)
Record merged_ok (W : Z) (g : gman) (h : heap) (mg : pdict addr) : Prop := {
  mg_keys : NoDup (dkeys mg);
  mg_has : forall s, dhas mg s = merged_has W g (split s);
  mg_val : forall s a, dget mg s = Some a ->
             (a < length h)%nat /\ hget h a = mk_sharded (merged_shards W g (split s)) }.

Lemma dict_ok_nondict_facts : forall h d k a, dict_ok h d -> In (k, a) d -> (a < length h)%nat.
Proof. intros h d k a OK Hin. apply (ok_in _ _ OK k a). apply dget_in; [apply (ok_keys _ _ OK) | exact Hin]. Qed.

Lemma absD_same_classes_leaf : forall h h' d, dict_ok h d -> same_classes h h' ->
  (forall k a, In (k, a) d -> is_dict_cls (pe_cls (hget h a)) = false) -> absD h' d = absD h d.
Proof.
  intros h h' d OK SC H. apply (absD_same_nondict h h' d SC). intros k a Hin. split; [exact (dict_ok_nondict_facts h d k a OK Hin) | exact (H k a Hin)].
Qed.

Lemma NoDup_map_inj_in : forall {A B} (f : A -> B) (l : list A),
  (forall x y, In x l -> In y l -> f x = f y -> x = y) -> NoDup l -> NoDup (map f l).
Proof.
  intros A B f l Hinj N. induction l as [|x l IH]; cbn [map]; [constructor|]. inversion N; subst. constructor.
  - intro K. apply in_map_iff in K. destruct K as (y & E & Hy). assert (y = x) by (apply Hinj; [right; exact Hy | left; reflexivity | exact E]).
    subst. contradiction.
  - apply IH; [|assumption]. intros a b Ha Hb. apply Hinj; right; assumption.
Qed.

Lemma py_range_length : forall n, length (py_range n) = Z.to_nat n.
Proof. intro n. unfold py_range. rewrite map_length, seq_length. reflexivity. Qed.

(* ================================================================== 9. grouping the sharded entries by logical path *)
Section Groups.
  Variable sel : addr -> bool.                      (* which entries are collected (isinstance(entry, ShardedTensorEntry)) *)

  Definition groups_step (g : pdict (list addr)) (ka : pystr * addr) : pdict (list addr) :=
    if sel (snd ka) then dd_append g (fst ka) (snd ka) else g.
  Definition groups_of (ds : list (pdict addr)) (g0 : pdict (list addr)) : pdict (list addr) :=
    fold_left (fun g d => fold_left groups_step d g) ds g0.
  Definition pick (d : pdict addr) (s : pystr) : list addr :=
    match dget d s with Some a => if sel a then [a] else [] | None => [] end.

  Lemma dd_get_append : forall (g : pdict (list addr)) k a s,
    dd_get (dd_append g k a) s = if str_eqb k s then dd_get g s ++ [a] else dd_get g s.
  Proof.
    intros g k a s. unfold dd_append, dd_get at 1. rewrite dget_dset. destruct (str_eqb k s) eqn:E; [|reflexivity].
    apply str_eqb_eq in E. subst. reflexivity.
  Qed.

  Lemma dhas_append : forall (g : pdict (list addr)) k a s, dhas (dd_append g k a) s = str_eqb k s || dhas g s.
  Proof. intros. unfold dd_append, dhas. rewrite dget_dset. destruct (str_eqb k s); reflexivity. Qed.

  Lemma groups_one : forall d g s, NoDup (dkeys d) ->
    dd_get (fold_left groups_step d g) s = dd_get g s ++ pick d s /\
    dhas (fold_left groups_step d g) s = dhas g s || match pick d s with [] => false | _ => true end.
  Proof.
    unfold pick. induction d as [|[k a] d IH]; intros g s N; cbn [fold_left dget].
    - rewrite app_nil_r, orb_false_r. split; reflexivity.
    - cbn [dkeys map fst] in N. inversion N as [|? ? Hn N']; subst. destruct (IH (groups_step g (k, a)) s N') as [I1 I2].
      rewrite I1, I2. unfold groups_step. cbn [fst snd]. destruct (str_eqb k s) eqn:E.
      + apply str_eqb_eq in E. subst k. assert (X : dget d s = None) by (apply dget_none_iff; exact Hn). rewrite X.
        destruct (sel a); [rewrite dd_get_append, dhas_append, str_eqb_refl | ]; rewrite ?app_nil_r, ?orb_false_r; cbn [orb];
          split; try reflexivity. rewrite orb_true_r. reflexivity.
      + destruct (sel a); [rewrite dd_get_append, dhas_append, E|]; split; reflexivity.
  Qed.

  Lemma groups_one_keys : forall d g, NoDup (dkeys g) -> NoDup (dkeys (fold_left groups_step d g)).
  Proof.
    induction d as [|[k a] d IH]; intros g N; cbn [fold_left]; [exact N|]. apply IH. unfold groups_step. cbn [fst snd].
    destruct (sel a); [apply dset_nodup; exact N | exact N].
  Qed.

  Lemma groups_spec : forall ds g s, (forall d, In d ds -> NoDup (dkeys d)) ->
    dd_get (groups_of ds g) s = dd_get g s ++ flat_map (fun d => pick d s) ds /\
    dhas (groups_of ds g) s = dhas g s || existsb (fun d => match pick d s with [] => false | _ => true end) ds.
  Proof.
    unfold groups_of. induction ds as [|d ds IH]; intros g s N; cbn [fold_left flat_map existsb].
    - rewrite app_nil_r, orb_false_r. split; reflexivity.
    - destruct (IH (fold_left groups_step d g) s (fun d' H => N d' (or_intror H))) as [I1 I2].
      destruct (groups_one d g s (N d (or_introl eq_refl))) as [J1 J2]. rewrite I1, I2, J1, J2, app_assoc, orb_assoc. split; reflexivity.
  Qed.

  Lemma groups_keys : forall ds g, NoDup (dkeys g) -> NoDup (dkeys (groups_of ds g)).
  Proof.
    unfold groups_of. induction ds as [|d ds IH]; intros g N; cbn [fold_left]; [exact N|]. apply IH. apply groups_one_keys. exact N.
  Qed.

  Lemma groups_members : forall ds s a, (forall d, In d ds -> NoDup (dkeys d)) -> In a (dd_get (groups_of ds []) s) ->
    exists d, In d ds /\ dget d s = Some a /\ sel a = true.
  Proof.
    intros ds s a N H. rewrite (proj1 (groups_spec ds [] s N)) in H. cbn [dd_get dget app] in H.
    apply in_flat_map in H. destruct H as (d & Hd & Hp). exists d. split; [exact Hd|]. unfold pick in Hp.
    destruct (dget d s) as [b|]; [|destruct Hp]. destruct (sel b) eqn:E; [|destruct Hp]. destruct Hp as [<-|[]]. split; [reflexivity | exact E].
  Qed.
End Groups.

Lemma run_concat_attr : forall {Y} has att (f : pentry -> list Y) l h,
  (forall a, In a l -> has (pe_cls (hget h a)) att = true) ->
  concat_mapM (fun e => attr_of has att f e) l h = (Some (flat_map (fun a => f (hget h a)) l), h).
Proof.
  intros Y has att f. induction l as [|a l IH]; intros h H; cbn [concat_mapM flat_map]; [reflexivity|].
  rewrite run_bind. unfold attr_of at 1. rewrite (H a (or_introl eq_refl)). rewrite run_bind, IH by (intros; apply H; right; assumption).
  reflexivity.
Qed.

Lemma list_as_map_nth : forall {A} (l : list A) d n, length l = n -> l = map (fun i => nth i l d) (seq 0 n).
Proof.
  intros A l d n <-. induction l as [|x l IH]; [reflexivity|]. cbn [length seq map nth]. f_equal.
  rewrite <- seq_shift, map_map. exact IH.
Qed.

Lemma rtm_as_ranks : forall (rtm : list (pdict addr)) W, length rtm = Z.to_nat W ->
  rtm = map (fun r => nth (Z.to_nat r) rtm []) (ranks W).
Proof.
  intros rtm W L. unfold ranks. rewrite map_map. rewrite (list_as_map_nth rtm [] (Z.to_nat W) L) at 1.
  apply map_ext. intro i. rewrite Nat2Z.id. reflexivity.
Qed.

Lemma flat_map_ext_in' : forall {A B} (f g : A -> list B) l, (forall a, In a l -> f a = g a) -> flat_map f l = flat_map g l.
Proof.
  intros A B f g. induction l as [|x l IH]; intro H; [reflexivity|]. cbn [flat_map]. rewrite (H x (or_introl eq_refl)).
  rewrite IH by (intros; apply H; right; assumption). reflexivity.
Qed.

Lemma dhas_dset : forall {A} (d : pdict A) k v s, dhas (dset d k v) s = str_eqb k s || dhas d s.
Proof. intros. unfold dhas. rewrite dget_dset. destruct (str_eqb k s); reflexivity. Qed.
Lemma dhas_cons : forall {A} (d : pdict A) k v s, dhas ((k, v) :: d) s = str_eqb k s || dhas d s.
Proof. intros. unfold dhas. cbn [dget]. destruct (str_eqb k s); reflexivity. Qed.

Lemma for_each_pure_at : forall {X S} (l : list X) (body : X -> S -> M (loop S)) (step : S -> X -> S) s h,
  (forall x s, In x l -> body x s h = (Some (LNext (step s x)), h)) ->
  for_each l body s h = (Some (fold_left step l s), h).
Proof.
  induction l as [|x l IH]; intros body step s h H; cbn [for_each fold_left]; [reflexivity|].
  rewrite run_bind, H by (left; reflexivity). apply IH. intros. apply H. right. assumption.
Qed.

Lemma existsb_map' : forall {A B} (f : B -> bool) (g : A -> B) l, existsb f (map g l) = existsb (fun x => f (g x)) l.
Proof. intros A B f g. induction l as [|x l IH]; [reflexivity|]. cbn [map existsb]. rewrite IH. reflexivity. Qed.

Lemma existsb_ext_in : forall {A} (f g : A -> bool) l, (forall x, In x l -> f x = g x) -> existsb f l = existsb g l.
Proof.
  intros A f g. induction l as [|x l IH]; intro H; [reflexivity|]. cbn [existsb]. rewrite (H x (or_introl eq_refl)).
  rewrite IH by (intros; apply H; right; assumption). reflexivity.
Qed.

Lemma flat_map_flat_map : forall {A B C} (f : B -> list C) (g : A -> list B) l,
  flat_map f (flat_map g l) = flat_map (fun x => flat_map f (g x)) l.
Proof.
  intros A B C f g. induction l as [|x l IH]; [reflexivity|]. cbn [flat_map]. rewrite flat_map_app, IH. reflexivity.
Qed.

Lemma flat_map_map : forall {A B C} (f : B -> list C) (g : A -> B) l, flat_map f (map g l) = flat_map (fun x => f (g x)) l.
Proof. intros A B C f g. induction l as [|x l IH]; [reflexivity|]. cbn [map flat_map]. rewrite IH. reflexivity. Qed.

Lemma in_rtm_nth : forall W (rtm : list (pdict addr)) d, length rtm = Z.to_nat W -> In d rtm ->
  exists r, 0 <= r < W /\ d = nth (Z.to_nat r) rtm [].
Proof.
  intros W rtm d L H. apply (In_nth _ _ []) in H. destruct H as (n & Hn & E). exists (Z.of_nat n).
  assert (Hn' : (n < Z.to_nat W)%nat) by (rewrite <- L; exact Hn). split; [lia|].
  rewrite Nat2Z.id. symmetry. exact E.
Qed.

Lemma dhas_nil : forall {A} s, @dhas A [] s = false.
Proof. reflexivity. Qed.
Lemma dd_get_nil : forall {A} s, @dd_get A [] s = [].
Proof. reflexivity. Qed.

(* ================================================================== 10. the two loops of _get_manifest_for_existing_rank *)
Lemma fold_left_id : forall {A B} (l : list B) (s : A), fold_left (fun s _ => s) l s = s.
Proof. intros A B. induction l as [|x l IH]; intro s; [reflexivity | apply IH]. Qed.

Lemma replicated_not_dict : forall e, is_replicated (absE e) = true -> is_dict_cls (pe_cls e) = false.
Proof. intros e H. unfold absE, is_dict_cls in *. destruct (pe_cls e); try reflexivity; discriminate. Qed.

Definition repl_step (h : heap) (l : pdict addr) (ka : pystr * addr) : pdict addr :=
  if is_replicated (absE (hget h (snd ka))) then dset l (fst ka) (snd ka) else l.

Lemma absD_repl_fold : forall h d0 l,
  absD h (fold_left (repl_step h) d0 l) = add_replicated (absD h d0) (absD h l).
Proof.
  unfold add_replicated. induction d0 as [|[k a] d0 IH]; intro l; [reflexivity|].
  cbn [fold_left]. rewrite IH. change (absD h ((k, a) :: d0)) with ((split k, absE (hget h a)) :: absD h d0).
  cbn [fold_left fst snd]. f_equal. unfold repl_step. cbn [fst snd].
  destruct (is_replicated (absE (hget h a))); [rewrite absD_dset|]; reflexivity.
Qed.

Lemma dict_ok_repl_fold : forall h d0 l, dict_ok h l ->
  (forall k a, In (k, a) d0 -> (a < length h)%nat /\ modelledE (hget h a) = true) -> dict_ok h (fold_left (repl_step h) d0 l).
Proof.
  induction d0 as [|[k a] d0 IH]; intros l OK H; cbn [fold_left]; [exact OK|]. apply IH; [|intros; apply (H k0 a0); right; assumption].
  unfold repl_step. cbn [fst snd]. destruct (is_replicated (absE (hget h a))) eqn:E; [|exact OK].
  destruct (H k a (or_introl eq_refl)) as [B1 B2]. apply dict_ok_dset_nondict; [exact OK | exact B1 | exact B2 | apply replicated_not_dict; exact E].
Qed.

(* for k, v in d.items(): d[k] = f(k, v)   (only values change: the loop runs over the dict it updates) *)
Definition upd_step (f : pystr -> addr -> option addr) (l : pdict addr) (ka : pystr * addr) : pdict addr :=
  match f (fst ka) (snd ka) with Some t => dset l (fst ka) t | None => l end.

Lemma dset_middle : forall {A} (pre post : pdict A) k v t, ~ In k (dkeys pre) ->
  dset (pre ++ (k, v) :: post) k t = pre ++ (k, t) :: post.
Proof.
  induction pre as [|[q w] pre IH]; intros post k v t H; cbn [app dset].
  - rewrite str_eqb_refl. reflexivity.
  - cbn [dkeys map fst In] in H. destruct (str_eqb q k) eqn:E; [apply str_eqb_eq in E; subst; tauto|].
    rewrite IH by tauto. reflexivity.
Qed.

Lemma upd_fold_map : forall f post pre, NoDup (dkeys (pre ++ post)) ->
  fold_left (upd_step f) post (pre ++ post) =
  pre ++ map (fun ka => (fst ka, match f (fst ka) (snd ka) with Some t => t | None => snd ka end)) post.
Proof.
  intros f. induction post as [|[k a] post IH]; intros pre N; cbn [fold_left map]; [reflexivity|].
  assert (NP : ~ In k (dkeys pre)).
  { unfold dkeys in N. rewrite map_app in N. cbn [map fst] in N. apply NoDup_remove_2 in N. intro K. apply N. apply in_or_app. left. exact K. }
  unfold upd_step at 2. cbn [fst snd]. destruct (f k a) as [t|].
  - rewrite dset_middle by exact NP. change (pre ++ (k, t) :: post) with (pre ++ [(k, t)] ++ post). rewrite app_assoc.
    rewrite IH; [rewrite <- app_assoc; reflexivity|]. unfold dkeys in *. rewrite !map_app in *. cbn [map fst] in *. rewrite <- app_assoc. exact N.
  - change (pre ++ (k, a) :: post) with (pre ++ [(k, a)] ++ post). rewrite app_assoc.
    rewrite IH; [rewrite <- app_assoc; reflexivity|]. unfold dkeys in *. rewrite !map_app in *. cbn [map fst] in *. rewrite <- app_assoc. exact N.
Qed.

Lemma dict_ok_upd_fold : forall h f post l, dict_ok h l ->
  (forall k a t, In (k, a) post -> f k a = Some t ->
     (t < length h)%nat /\ modelledE (hget h t) = true /\ is_dict_cls (pe_cls (hget h t)) = false) ->
  dict_ok h (fold_left (upd_step f) post l).
Proof.
  intros h f. induction post as [|[k a] post IH]; intros l OK H; cbn [fold_left]; [exact OK|].
  apply IH; [|intros; apply (H k0 a0 t); [right; assumption | assumption]].
  unfold upd_step. cbn [fst snd]. destruct (f k a) as [t|] eqn:E; [|exact OK].
  destruct (H k a t (or_introl eq_refl) E) as (B1 & B2 & B3). apply dict_ok_dset_nondict; assumption.
Qed.

(* ================================================================== 11. the invariants survive allocation and key writes *)
Lemma rtm_ok_ext : forall W g h ext rtm, rtm_ok W g h rtm -> rtm_ok W g (h ++ ext) rtm.
Proof.
  intros W g h ext rtm [RL RA RO]. split; [exact RL | |].
  - intros r Hr. rewrite <- (RA r Hr). apply absD_ext. intros k a Hin. rewrite hget_app_old; [reflexivity|].
    exact (dict_ok_nondict_facts h _ k a (RO r Hr) Hin).
  - intros r Hr. apply (dict_ok_same_classes h); [apply RO; exact Hr | apply same_classes_app].
Qed.

Lemma merged_ok_same_classes : forall W g h h' mg, merged_ok W g h mg -> same_classes h h' -> merged_ok W g h' mg.
Proof.
  intros W g h h' mg [MK MH MV] [L C]. split; [exact MK | exact MH|]. intros s a E. destruct (MV s a E) as [B1 B2]. split; [lia|].
  rewrite <- B2. apply (proj2 (C a B1)). rewrite B2. reflexivity.
Qed.

Definition view_ok (W : Z) (g : gman) (h : heap) (v mg : pdict addr) (m : man) : Prop :=
  absD h v = m /\ dict_ok h v /\ merged_ok W g h mg.

(* ================================================================== 12. handle_sharded_tensor_elasticity: helpers *)
Lemma dget_middle : forall {A} (pre post : pdict A) k v, ~ In k (dkeys pre) -> dget (pre ++ (k, v) :: post) k = Some v.
Proof.
  induction pre as [|[q w] pre IH]; intros post k v H; cbn [app dget]; [rewrite str_eqb_refl; reflexivity|].
  cbn [dkeys map fst In] in H. destruct (str_eqb q k) eqn:E; [apply str_eqb_eq in E; subst; tauto | apply IH; tauto].
Qed.
Lemma ddel_middle : forall {A} (pre post : pdict A) k v, ~ In k (dkeys pre) -> ddel (pre ++ (k, v) :: post) k = pre ++ post.
Proof.
  induction pre as [|[q w] pre IH]; intros post k v H; cbn [app ddel]; [rewrite str_eqb_refl; reflexivity|].
  cbn [dkeys map fst In] in H. destruct (str_eqb q k) eqn:E; [apply str_eqb_eq in E; subst; tauto|]. rewrite IH by tauto. reflexivity.
Qed.

(* for k in list(d.keys()): if drop(k, d[k]): del d[k] *)
Lemma del_loop : forall (body : pystr -> pdict addr -> M (loop (pdict addr))) (drop : pystr -> addr -> bool) (P : addr -> Prop) h,
  (forall k l a, dget l k = Some a -> P a -> body k l h = (Some (LNext (if drop k a then ddel l k else l)), h)) ->
  forall rest pre, NoDup (dkeys (pre ++ rest)) -> (forall k a, In (k, a) rest -> P a) ->
    for_each (dkeys rest) body (pre ++ rest) h =
    (Some (pre ++ filter (fun ka => negb (drop (fst ka) (snd ka))) rest), h).
Proof.
  intros body drop P h Hb. induction rest as [|[k a] rest IH]; intros pre N HP; cbn [dkeys map fst for_each filter]; [reflexivity|].
  assert (NP : ~ In k (dkeys pre)).
  { unfold dkeys in N. rewrite map_app in N. cbn [map fst] in N. apply NoDup_remove_2 in N. intro K. apply N. apply in_or_app. left. exact K. }
  rewrite run_bind, (Hb k _ a (dget_middle pre rest k a NP) (HP k a (or_introl eq_refl))). cbn [fst snd]. fold (dkeys rest).
  assert (HP' : forall k0 a0, In (k0, a0) rest -> P a0) by (intros; apply (HP k0 a0); right; assumption).
  destruct (drop k a); cbn [negb].
  - rewrite ddel_middle by exact NP. apply IH; [|exact HP']. unfold dkeys in *. rewrite !map_app in *. cbn [map fst] in N. apply NoDup_remove_1 in N. exact N.
  - change (pre ++ (k, a) :: rest) with (pre ++ [(k, a)] ++ rest). rewrite app_assoc, IH; [rewrite <- app_assoc; reflexivity | | exact HP'].
    unfold dkeys in *. rewrite !map_app in *. cbn [map fst] in *. rewrite <- app_assoc. exact N.
Qed.

Lemma absD_filter : forall h (f : pystr * addr -> bool) (f' : path * mentry -> bool) d,
  (forall ka, In ka d -> f ka = f' (split (fst ka), absE (hget h (snd ka)))) ->
  absD h (filter f d) = filter f' (absD h d).
Proof.
  intros h f f'. induction d as [|ka d IH]; intro H; [reflexivity|]. cbn [filter absD map]. fold (absD h d).
  rewrite <- (H ka (or_introl eq_refl)). destruct (f ka); cbn [absD map]; fold (absD h (filter f d));
    rewrite IH by (intros; apply H; right; assumption); reflexivity.
Qed.

Lemma dkeys_filter_incl : forall {A} (f : pystr * A -> bool) (d : pdict A) k, In k (dkeys (filter f d)) -> In k (dkeys d).
Proof.
  intros A f d k H. unfold dkeys in *. apply in_map_iff in H. destruct H as (ka & E & Hin). apply filter_In in Hin.
  apply in_map_iff. exists ka. split; [exact E | exact (proj1 Hin)].
Qed.

Lemma filter_keys_nodup : forall {A} (f : pystr * A -> bool) (d : pdict A), NoDup (dkeys d) -> NoDup (dkeys (filter f d)).
Proof.
  intros A f. induction d as [|[k v] d IH]; intro N; [constructor|]. cbn [dkeys map fst] in N. inversion N; subst.
  cbn [filter]. destruct (f (k, v)); [|apply IH; assumption]. cbn [dkeys map fst]. constructor; [|apply IH; assumption].
  intro K. apply dkeys_filter_incl in K. contradiction.
Qed.

Lemma dict_ok_filter : forall h (f : pystr * addr -> bool) d, dict_ok h d -> dict_ok h (filter f d).
Proof.
  intros h f d [K I U].
  assert (G : forall q a, dget (filter f d) q = Some a -> dget d q = Some a).
  { intros q a E. apply dget_some_in in E. apply filter_In in E. apply dget_in; [exact K | exact (proj1 E)]. }
  split; [apply filter_keys_nodup; exact K | intros q a E; exact (I q a (G q a E))|].
  intros q1 q2 a E1 E2 Hc. exact (U q1 q2 a (G _ _ E1) (G _ _ E2) Hc).
Qed.

Lemma str_memb_split : forall s l, str_memb s l = path_memb (split s) (map split l).
Proof.
  intros s. induction l as [|x l IH]; [reflexivity|]. cbn [str_memb map]. unfold path_memb in *. cbn [existsb]. rewrite IH, path_eqb_split. reflexivity.
Qed.

Lemma split_join_norm : forall s, split (join (removelast (split s))) = norm_path (removelast (split s)).
Proof.
  intro s. destruct (removelast (split s)) as [|t q] eqn:E; [reflexivity|].
  rewrite <- E. rewrite split_join_parent by (rewrite E; discriminate). rewrite E. reflexivity.
Qed.

Lemma filter_map_split : forall (f : path -> bool) (f' : pystr -> bool) l, (forall s, f (split s) = f' s) ->
  filter f (map split l) = map split (filter f' l).
Proof.
  intros f f' l H. induction l as [|x l IH]; [reflexivity|]. cbn [map filter]. rewrite H. destruct (f' x); cbn [map]; rewrite IH; reflexivity.
Qed.
