(* C11: every request is staged / written (read / consumed) exactly once, the pipelines cannot get stuck,
   they terminate after exactly 2n completions, and a failed operation makes them raise. *)
From TS Require Import model.Base gen.SchedGen model.Sched proofs.SchedInst proofs.SchedProofs.
From Coq Require Import ZifyBool.

Ltac wproj := cbn [rfs stg rfi io dn rem lstage lwrite wst].
Ltac rproj := cbn [pend rio cons rdn rrem lread lcons rst].

(* ================================================================== write pipeline: bookkeeping by counting *)
Definition WCnt (n : nat) (s : wstate) : Prop := forall i,
  cnt i (rfs s) + cnt i (stg s) + cnt i (rfi s) + cnt i (io s) + cnt i (dn s) = cnt i (ids_from n) /\
  cnt i (lstage s) = cnt i (stg s) + cnt i (rfi s) + cnt i (io s) + cnt i (dn s) /\
  cnt i (lwrite s) = cnt i (io s) + cnt i (dn s).

Lemma WCnt_admit n rq p s : WCnt n s -> memz p (rfs s) = true -> WCnt n (admit_staging rq p s).
Proof.
  intros H Hm i. specialize (H i). unfold admit_staging; wproj.
  rewrite !cnt_snoc, cnt_remove1 by exact Hm. lia.
Qed.

Lemma WCnt_start_io n p s : WCnt n s -> memz p (rfi s) = true -> WCnt n (start_io p s).
Proof.
  intros H Hm i. specialize (H i). unfold start_io; wproj.
  rewrite !cnt_snoc, cnt_remove1 by exact Hm. lia.
Qed.

Lemma WCnt_stage_done n rq j s : WCnt n s -> memz j (stg s) = true -> WCnt n (stage_done rq j s).
Proof.
  intros H Hm i. specialize (H i). unfold stage_done; wproj.
  rewrite !cnt_snoc, cnt_remove1 by exact Hm. lia.
Qed.

Lemma WCnt_io_done n rq j s : WCnt n s -> memz j (io s) = true -> WCnt n (io_done rq j s).
Proof.
  intros H Hm i. specialize (H i). unfold io_done; wproj.
  rewrite !cnt_snoc, cnt_remove1 by exact Hm. lia.
Qed.

Lemma WCnt_after n rq K vio vst s : WCnt n s -> WCnt n (after_completion rq K vio vst s).
Proof.
  apply after_completion_ind.
  - intros s0. apply dispatch_io_ind. intros p s1 H1 Hm _. apply WCnt_start_io; assumption.
  - intros s0. apply dispatch_staging_ind. intros p s1 H1 Hm _. apply WCnt_admit; assumption.
Qed.

Lemma WCnt_step n rq K s e : WCnt n s -> WCnt n (wstep rq K s e).
Proof.
  intros Hs. unfold wstep. destruct (wst s); [|exact Hs].
  destruct e as [i vio vst | i vio vst | i | i].
  - destruct (memz i (stg s)) eqn:Hm; [|exact Hs]. apply WCnt_after. apply WCnt_stage_done; assumption.
  - destruct (memz i (io s)) eqn:Hm; [|exact Hs]. apply WCnt_after. apply WCnt_io_done; assumption.
  - destruct (memz i (stg s)); exact Hs.
  - destruct (memz i (io s)); exact Hs.
Qed.

Lemma WCnt_init rq B v0 : WCnt (length rq) (winit rq B v0).
Proof.
  unfold winit. apply dispatch_staging_ind.
  - intros p s Hs Hm _. apply WCnt_admit; assumption.
  - intros i; wproj. cbn [cnt]. lia.
Qed.

Lemma WCnt_run rq K B v0 evs : WCnt (length rq) (wrun rq K B v0 evs).
Proof.
  unfold wrun. generalize (WCnt_init rq B v0). generalize (winit rq B v0) as s.
  induction evs as [|e evs IH]; intros s Hs; cbn [fold_left]; [exact Hs|]. apply IH. apply WCnt_step; exact Hs.
Qed.

(* every list is duplicate free; no id is in two stages *)
Lemma WCnt_le1 n s i : WCnt n s ->
  cnt i (rfs s) <= 1 /\ cnt i (stg s) <= 1 /\ cnt i (rfi s) <= 1 /\ cnt i (io s) <= 1 /\ cnt i (dn s) <= 1.
Proof.
  intros H. destruct (H i) as (H1 & _ & _). pose proof (cnt_ids_le1 i n).
  pose proof (cnt_nonneg i (rfs s)); pose proof (cnt_nonneg i (stg s)); pose proof (cnt_nonneg i (rfi s));
  pose proof (cnt_nonneg i (io s)); pose proof (cnt_nonneg i (dn s)). lia.
Qed.

Lemma final_lists s : wfinal s = true -> rfs s = [] /\ stg s = [] /\ rfi s = [] /\ io s = [].
Proof.
  unfold wfinal. destruct (rfs s); [|discriminate]. destruct (stg s); [|discriminate].
  destruct (rfi s); [|discriminate]. destruct (io s); [|discriminate]. tauto.
Qed.

(* exactly once: in a final state every request id was handed to stage_buffer once, to storage.write once,
   and completed once; nothing else was *)
Lemma write_exactly_once rq K B v0 evs i :
  wfinal (wrun rq K B v0 evs) = true ->
  let s := wrun rq K B v0 evs in
  cnt i (lstage s) = cnt i (ids_from (length rq)) /\
  cnt i (lwrite s) = cnt i (ids_from (length rq)) /\
  cnt i (dn s) = cnt i (ids_from (length rq)).
Proof.
  intros Hf s. destruct (WCnt_run rq K B v0 evs i) as (H1 & H2 & H3). fold s in H1, H2, H3.
  apply final_lists in Hf. fold s in Hf. destruct Hf as (Ha & Hb & Hc & Hd).
  rewrite Ha, Hb, Hc, Hd in *. cbn [cnt] in *. lia.
Qed.

(* never more than once, in ANY reachable state (also after a failure) *)
Lemma write_at_most_once rq K B v0 evs i :
  let s := wrun rq K B v0 evs in cnt i (lstage s) <= 1 /\ cnt i (lwrite s) <= 1.
Proof.
  intros s. pose proof (WCnt_run rq K B v0 evs) as H. fold s in H. destruct (H i) as (H1 & H2 & H3).
  pose proof (cnt_ids_le1 i (length rq)).
  pose proof (cnt_nonneg i (rfs s)); pose proof (cnt_nonneg i (stg s)); pose proof (cnt_nonneg i (rfi s));
  pose proof (cnt_nonneg i (io s)); pose proof (cnt_nonneg i (dn s)). lia.
Qed.

(* ================================================================== progress *)
Definition covers (v l : list Z) : Prop := forall p, In p l -> In p v.

Definition P1 (K : Z) (s : wstate) : Prop := rfi s = [] \/ K <= zlen (io s).
Definition P2 (s : wstate) : Prop := rfs s = [] \/ 0 < inflight s.

Lemma nil_of_no_members (l : list Z) : (forall p, In p l -> False) -> l = [].
Proof. destruct l as [|x l]; [reflexivity|]. intros H. exfalso. apply (H x). left; reflexivity. Qed.

Lemma dispatch_io_P1 K v : forall s,
  (forall i, cnt i (rfi s) <= 1) -> covers v (rfi s) -> P1 K (dispatch_io K v s).
Proof.
  induction v as [|p r IH]; intros s Hnd Hcov; cbn [dispatch_io].
  - left. apply nil_of_no_members. intros q Hq. exact (Hcov q Hq).
  - destruct (gen_io_full (zlen (io s)) K) eqn:Hf; [right; apply io_full_iff; exact Hf|].
    destruct (memz p (rfi s)) eqn:Hm.
    + apply IH; unfold start_io; wproj.
      * intros i. rewrite cnt_remove1 by exact Hm. specialize (Hnd i). destruct (i =? p); lia.
      * intros q Hq. pose proof (In_remove1_neq q p (rfi s) (Hnd p) Hq) as Hne.
        apply In_remove1 in Hq. destruct (Hcov q Hq) as [Heq|Hin]; [congruence | exact Hin].
    + apply IH; [exact Hnd|]. intros q Hq. destruct (Hcov q Hq) as [Heq|Hin]; [|exact Hin].
      subst q. apply memz_In in Hq. congruence.
Qed.

Lemma inflight_nonneg s : 0 <= inflight s.
Proof. unfold inflight. pose proof (zlen_nonneg (stg s)); pose proof (zlen_nonneg (rfi s)); pose proof (zlen_nonneg (io s)). lia. Qed.

Lemma dispatch_staging_inflight_mono rq v s : inflight s <= inflight (dispatch_staging rq v s).
Proof.
  apply (dispatch_staging_ind (fun s' => inflight s <= inflight s')); [|lia].
  intros p s1 H _ _. unfold inflight in *. unfold admit_staging; wproj. rewrite zlen_snoc. lia.
Qed.

Lemma dispatch_staging_P2 rq v : forall s,
  (forall i, cnt i (rfs s) <= 1) -> covers v (rfs s) -> P2 (dispatch_staging rq v s).
Proof.
  induction v as [|p r IH]; intros s Hnd Hcov; cbn [dispatch_staging].
  - left. apply nil_of_no_members. intros q Hq. exact (Hcov q Hq).
  - destruct (memz p (rfs s)) eqn:Hm; cbn [andb].
    + destruct (gen_stage_admit _ _ _ _ _) eqn:Hg.
      * right. pose proof (dispatch_staging_inflight_mono rq r (admit_staging rq p s)) as Hmono.
        assert (0 < inflight (admit_staging rq p s)).
        { unfold inflight, admit_staging; wproj. rewrite zlen_snoc.
          pose proof (zlen_nonneg (stg s)); pose proof (zlen_nonneg (rfi s)); pose proof (zlen_nonneg (io s)). lia. }
        lia.
      * right. pose proof (dispatch_staging_inflight_mono rq r s) as Hmono.
        assert (0 < inflight s).
        { pose proof (inflight_nonneg s) as Hn. destruct (Z.eq_dec (inflight s) 0) as [E|E]; [|lia].
          unfold inflight in E. rewrite (stage_admit_when_idle _ _ _ _ _ E) in Hg. discriminate. }
        lia.
    + apply IH; [exact Hnd|]. intros q Hq. destruct (Hcov q Hq) as [Heq|Hin]; [|exact Hin].
      subst q. apply memz_In in Hq. congruence.
Qed.

(* dispatch_io does not change rfs or the number of requests in flight; dispatch_staging does not touch rfi/io *)
Lemma dispatch_io_keeps K v s :
  rfs (dispatch_io K v s) = rfs s /\ inflight (dispatch_io K v s) = inflight s.
Proof.
  apply (dispatch_io_ind (fun s' => rfs s' = rfs s /\ inflight s' = inflight s)); [|tauto].
  intros p s1 (H1 & H2) Hm _. unfold inflight in *. unfold start_io; wproj.
  rewrite zlen_snoc, zlen_remove1 by exact Hm. split; [exact H1 | lia].
Qed.

Lemma dispatch_staging_keeps rq v s :
  rfi (dispatch_staging rq v s) = rfi s /\ io (dispatch_staging rq v s) = io s.
Proof.
  apply (dispatch_staging_ind (fun s' => rfi s' = rfi s /\ io s' = io s)); [|tauto].
  intros p s1 (H1 & H2) _ _. unfold admit_staging; wproj. tauto.
Qed.

Lemma after_completion_progress n rq K vio vst s :
  WCnt n s -> covers vio (rfi s) -> covers vst (rfs s) ->
  P1 K (after_completion rq K vio vst s) /\ P2 (after_completion rq K vio vst s).
Proof.
  intros Hc Hvio Hvst. unfold after_completion.
  pose proof after_completion_dispatches_io as Hio. pose proof after_completion_dispatches_staging as Hst.
  revert Hio Hst. generalize gen_write_after_completion as l.
  (* generalised: either the dispatch still has to come, or the fact already holds *)
  assert (Hgen : forall l s0, WCnt n s0 ->
            (In DIo l \/ P1 K s0) -> (In DStaging l \/ P2 s0) ->
            covers vio (rfi s0) \/ P1 K s0 -> covers vst (rfs s0) \/ P2 s0 ->
            P1 K (fold_left (fun s d => run_dispatch rq K vio vst d s) l s0) /\
            P2 (fold_left (fun s d => run_dispatch rq K vio vst d s) l s0)).
  { clear. induction l as [|d l IH]; intros s0 Hc H1 H2 Hcv1 Hcv2; cbn [fold_left].
    - split; [destruct H1 as [[]|H]; exact H | destruct H2 as [[]|H]; exact H].
    - destruct d; cbn [run_dispatch].
      + (* dispatch_io: establishes P1, keeps P2 *)
        assert (HP1 : P1 K (dispatch_io K vio s0)).
        { destruct Hcv1 as [Hcv|HP].
          - apply dispatch_io_P1; [|exact Hcv]. intros i. pose proof (WCnt_le1 n s0 i Hc). tauto.
          - apply (dispatch_io_ind (fun s' => P1 K s')); [|exact HP].
            intros p s1 HP1 Hm Hf. unfold P1 in *. destruct HP1 as [E|E].
            + rewrite E in Hm. discriminate.
            + apply io_full_false in Hf. lia. }
        destruct (dispatch_io_keeps K vio s0) as (Hk1 & Hk2).
        assert (HP2 : covers vst (rfs (dispatch_io K vio s0)) \/ P2 (dispatch_io K vio s0)).
        { destruct Hcv2 as [Hcv|HP]; [left; rewrite Hk1; exact Hcv|]. right. unfold P2 in *. rewrite Hk1, Hk2. exact HP. }
        apply IH.
        * apply (dispatch_io_ind (WCnt n)); [|exact Hc]. intros p s1 H Hm _. apply WCnt_start_io; assumption.
        * right; exact HP1.
        * destruct H2 as [[Hd|Hin]|HP]; [discriminate | left; exact Hin |].
          right. unfold P2 in *. rewrite Hk1, Hk2. exact HP.
        * right; exact HP1.
        * exact HP2.
      + (* dispatch_staging: establishes P2, keeps P1 *)
        assert (HP2 : P2 (dispatch_staging rq vst s0)).
        { destruct Hcv2 as [Hcv|HP].
          - apply dispatch_staging_P2; [|exact Hcv]. intros i. pose proof (WCnt_le1 n s0 i Hc). tauto.
          - apply (dispatch_staging_ind (fun s' => P2 s')); [|exact HP].
            intros p s1 _ _ _. right. unfold inflight, admit_staging; wproj. rewrite zlen_snoc.
            pose proof (zlen_nonneg (stg s1)); pose proof (zlen_nonneg (rfi s1)); pose proof (zlen_nonneg (io s1)). lia. }
        destruct (dispatch_staging_keeps rq vst s0) as (Hk1 & Hk2).
        assert (HP1 : covers vio (rfi (dispatch_staging rq vst s0)) \/ P1 K (dispatch_staging rq vst s0)).
        { destruct Hcv1 as [Hcv|HP]; [left; rewrite Hk1; exact Hcv|]. right. unfold P1 in *. rewrite Hk1, Hk2. exact HP. }
        apply IH.
        * apply (dispatch_staging_ind (WCnt n)); [|exact Hc]. intros p s1 H Hm _. apply WCnt_admit; assumption.
        * destruct H1 as [[Hd|Hin]|HP]; [discriminate | left; exact Hin |].
          right. unfold P1 in *. rewrite Hk1, Hk2. exact HP.
        * right; exact HP2.
        * exact HP1.
        * right; exact HP2. }
  intros l Hio Hst. apply Hgen; [exact Hc | left; exact Hio | left; exact Hst | left; exact Hvio | left; exact Hvst].
Qed.

(* valid events: the completed task is in flight and the visit orders enumerate the whole sets *)
Definition wvalid (s : wstate) (e : wevent) : Prop :=
  match e with
  | StageDone i vio vst => memz i (stg s) = true /\ covers vio (rfi s ++ [i]) /\ covers vst (rfs s)
  | IoDone i vio vst => memz i (io s) = true /\ covers vio (rfi s) /\ covers vst (rfs s)
  | StageFail i => memz i (stg s) = true
  | IoFail i => memz i (io s) = true
  end.

Definition is_failure (e : wevent) : bool :=
  match e with StageFail _ | IoFail _ => true | _ => false end.

Fixpoint wvalid_evs (rq : reqs) (K : Z) (s : wstate) (evs : list wevent) : Prop :=
  match evs with
  | [] => True
  | e :: r => wvalid s e /\ is_failure e = false /\ wvalid_evs rq K (wstep rq K s e) r
  end.

Definition WLive (K : Z) (s : wstate) : Prop := wst s = Running /\ P1 K s /\ P2 s.

Lemma after_completion_running rq K vio vst s : wst (after_completion rq K vio vst s) = wst s.
Proof.
  apply (after_completion_ind (fun s' => wst s' = wst s)); [| |reflexivity].
  - intros s0 H0. apply (dispatch_io_ind (fun s' => wst s' = wst s)); [|exact H0]. intros p s1 H _ _. exact H.
  - intros s0 H0. apply (dispatch_staging_ind (fun s' => wst s' = wst s)); [|exact H0]. intros p s1 H _ _. exact H.
Qed.

Lemma WLive_step n rq K s e :
  WCnt n s -> WLive K s -> wvalid s e -> is_failure e = false -> WLive K (wstep rq K s e).
Proof.
  intros Hc (Hr & _ & _) Hv Hnf. unfold wstep. rewrite Hr.
  destruct e as [i vio vst | i vio vst | i | i]; cbn in Hnf; try discriminate.
  - destruct Hv as (Hm & Hvio & Hvst). rewrite Hm.
    destruct (after_completion_progress n rq K vio vst (stage_done rq i s)) as (H1 & H2).
    + apply WCnt_stage_done; assumption.
    + unfold stage_done; wproj. exact Hvio.
    + unfold stage_done; wproj. exact Hvst.
    + split; [rewrite after_completion_running; unfold stage_done; wproj; exact Hr | tauto].
  - destruct Hv as (Hm & Hvio & Hvst). rewrite Hm.
    destruct (after_completion_progress n rq K vio vst (io_done rq i s)) as (H1 & H2).
    + apply WCnt_io_done; assumption.
    + unfold io_done; wproj. exact Hvio.
    + unfold io_done; wproj. exact Hvst.
    + split; [rewrite after_completion_running; unfold io_done; wproj; exact Hr | tauto].
Qed.

Lemma WLive_init rq K B v0 : covers v0 (ids_from (length rq)) -> WLive K (winit rq B v0).
Proof.
  intros Hcov. unfold winit.
  set (s0 := {| rfs := ids_from (length rq); stg := []; rfi := []; io := []; dn := []; rem := B;
                lstage := []; lwrite := []; wst := Running |}).
  split; [|split].
  - apply (dispatch_staging_ind (fun s' => wst s' = Running)); [intros p s1 H _ _; exact H | reflexivity].
  - destruct (dispatch_staging_keeps rq v0 s0) as (H1 & _). left. rewrite H1. reflexivity.
  - apply dispatch_staging_P2; [|exact Hcov]. intros i. unfold s0; wproj. apply cnt_ids_le1.
Qed.

Lemma WLive_run rq K B v0 evs :
  covers v0 (ids_from (length rq)) -> wvalid_evs rq K (winit rq B v0) evs -> WLive K (wrun rq K B v0 evs).
Proof.
  intros Hcov. unfold wrun. pose proof (WLive_init rq K B v0 Hcov) as Hl. pose proof (WCnt_init rq B v0) as Hc.
  revert Hl Hc. generalize (winit rq B v0) as s.
  induction evs as [|e evs IH]; intros s Hl Hc Hv; cbn [fold_left]; [exact Hl|].
  cbn [wvalid_evs] in Hv. destruct Hv as (Hv1 & Hnf & Hv2).
  apply IH; [eapply WLive_step; eassumption | apply WCnt_step; exact Hc | exact Hv2].
Qed.

(* asyncio.wait never receives an empty set: in a reachable state that is not final some staging or write
   operation is in flight *)
Lemma write_progress rq K B v0 evs :
  1 <= K -> covers v0 (ids_from (length rq)) -> wvalid_evs rq K (winit rq B v0) evs ->
  let s := wrun rq K B v0 evs in wfinal s = false -> stg s <> [] \/ io s <> [].
Proof.
  intros HK Hcov Hv s Hnf. destruct (WLive_run rq K B v0 evs Hcov Hv) as (_ & H1 & H2). fold s in H1, H2.
  assert (Hio : K <= zlen (io s) -> io s <> []).
  { intros Hle E. rewrite E in Hle. unfold zlen in Hle. cbn in Hle. lia. }
  destruct (stg s) as [|a l] eqn:Es; [|left; discriminate]. right.
  destruct H1 as [E1|E1]; [|apply Hio; exact E1].
  destruct H2 as [E2|E2].
  - unfold wfinal in Hnf. rewrite E2, Es, E1 in Hnf. destruct (io s); [discriminate | discriminate].
  - unfold inflight in E2. rewrite Es, E1 in E2. unfold zlen at 1 2 in E2. cbn in E2.
    intros E. rewrite E in E2. unfold zlen in E2. cbn in E2. lia.
Qed.

(* ================================================================== termination *)
Lemma measure_admit rq p s : memz p (rfs s) = true -> wmeasure (admit_staging rq p s) = wmeasure s.
Proof. intros Hm. unfold wmeasure, admit_staging; wproj. rewrite zlen_snoc, zlen_remove1 by exact Hm. lia. Qed.

Lemma measure_start_io p s : memz p (rfi s) = true -> wmeasure (start_io p s) = wmeasure s.
Proof. intros Hm. unfold wmeasure, start_io; wproj. rewrite zlen_snoc, zlen_remove1 by exact Hm. lia. Qed.

Lemma measure_after rq K vio vst s : wmeasure (after_completion rq K vio vst s) = wmeasure s.
Proof.
  apply (after_completion_ind (fun s' => wmeasure s' = wmeasure s)); [| |reflexivity].
  - intros s0 H0. apply (dispatch_io_ind (fun s' => wmeasure s' = wmeasure s)); [|exact H0].
    intros p s1 H Hm _. rewrite measure_start_io by exact Hm. exact H.
  - intros s0 H0. apply (dispatch_staging_ind (fun s' => wmeasure s' = wmeasure s)); [|exact H0].
    intros p s1 H Hm _. rewrite measure_admit by exact Hm. exact H.
Qed.

Lemma measure_step rq K s e :
  wst s = Running -> wvalid s e -> is_failure e = false -> wmeasure (wstep rq K s e) = wmeasure s - 1.
Proof.
  intros Hr Hv Hnf. unfold wstep. rewrite Hr.
  destruct e as [i vio vst | i vio vst | i | i]; cbn in Hnf; try discriminate.
  - destruct Hv as (Hm & _). rewrite Hm, measure_after. unfold wmeasure, stage_done; wproj.
    rewrite zlen_snoc, zlen_remove1 by exact Hm. lia.
  - destruct Hv as (Hm & _). rewrite Hm, measure_after. unfold wmeasure, io_done; wproj.
    rewrite zlen_remove1 by exact Hm. lia.
Qed.

Lemma measure_init rq B v0 : wmeasure (winit rq B v0) = 2 * Z.of_nat (length rq).
Proof.
  unfold winit.
  apply (dispatch_staging_ind (fun s' => wmeasure s' = 2 * Z.of_nat (length rq))).
  - intros p s1 H Hm _. rewrite measure_admit by exact Hm. exact H.
  - unfold wmeasure; wproj. rewrite zlen_ids_from. unfold zlen. cbn. lia.
Qed.

Lemma measure_run rq K B v0 evs :
  covers v0 (ids_from (length rq)) -> wvalid_evs rq K (winit rq B v0) evs ->
  wmeasure (wrun rq K B v0 evs) = 2 * Z.of_nat (length rq) - Z.of_nat (length evs).
Proof.
  intros Hcov Hv. unfold wrun.
  pose proof (measure_init rq B v0) as Hm. pose proof (WLive_init rq K B v0 Hcov) as Hl. pose proof (WCnt_init rq B v0) as Hc.
  revert Hm Hl Hc Hv. generalize (winit rq B v0) as s. generalize (2 * Z.of_nat (length rq)) as m.
  induction evs as [|e evs IH]; intros m s Hm Hl Hc Hv; cbn [fold_left length]; [lia|].
  cbn [wvalid_evs] in Hv. destruct Hv as (Hv1 & Hnf & Hv2).
  rewrite (IH (m - 1)); [lia | | | | exact Hv2].
  - rewrite measure_step; [lia | exact (proj1 Hl) | exact Hv1 | exact Hnf].
  - eapply WLive_step; eassumption.
  - apply WCnt_step; exact Hc.
Qed.

Lemma measure_zero_final s : wmeasure s = 0 <-> wfinal s = true.
Proof.
  unfold wmeasure, wfinal.
  pose proof (zlen_nonneg (rfs s)); pose proof (zlen_nonneg (stg s)); pose proof (zlen_nonneg (rfi s)); pose proof (zlen_nonneg (io s)).
  split.
  - intros E. assert (zlen (rfs s) = 0 /\ zlen (stg s) = 0 /\ zlen (rfi s) = 0 /\ zlen (io s) = 0) as (A & B0 & C & D) by lia.
    apply zlen_nil_iff in A, B0, C, D. rewrite A, B0, C, D. reflexivity.
  - destruct (rfs s); [|discriminate]. destruct (stg s); [|discriminate]. destruct (rfi s); [|discriminate].
    destruct (io s); [|discriminate]. intros _. unfold zlen. cbn. lia.
Qed.

(* the pipeline is done after exactly 2n completions, never earlier, and cannot accept more *)
Lemma write_terminates rq K B v0 evs :
  covers v0 (ids_from (length rq)) -> wvalid_evs rq K (winit rq B v0) evs ->
  (wfinal (wrun rq K B v0 evs) = true <-> length evs = (2 * length rq)%nat) /\ (length evs <= 2 * length rq)%nat.
Proof.
  intros Hcov Hv. pose proof (measure_run rq K B v0 evs Hcov Hv) as Hm.
  pose proof (measure_zero_final (wrun rq K B v0 evs)) as Hz.
  assert (0 <= wmeasure (wrun rq K B v0 evs)).
  { unfold wmeasure. set (s := wrun rq K B v0 evs).
    pose proof (zlen_nonneg (rfs s)); pose proof (zlen_nonneg (stg s)); pose proof (zlen_nonneg (rfi s)); pose proof (zlen_nonneg (io s)). lia. }
  split; [|lia]. rewrite <- Hz. lia.
Qed.

(* ================================================================== failures *)
Lemma raised_absorbing rq K evs s : wst s = Raised -> fold_left (wstep rq K) evs s = s.
Proof.
  intros Hr. induction evs as [|e evs IH]; cbn [fold_left]; [reflexivity|].
  assert (wstep rq K s e = s) as -> by (unfold wstep; rewrite Hr; reflexivity). exact IH.
Qed.

Lemma failure_raises rq K s e :
  wst s = Running -> wvalid s e -> is_failure e = true -> wst (wstep rq K s e) = Raised.
Proof.
  intros Hr Hv Hf. unfold wstep. rewrite Hr. destruct e as [i vio vst | i vio vst | i | i]; cbn in Hf; try discriminate.
  - cbn in Hv. rewrite Hv. reflexivity.
  - cbn in Hv. rewrite Hv. reflexivity.
Qed.

(* once an operation has failed the pipeline never reports success, whatever happens afterwards *)
Lemma failure_never_success rq K s e evs :
  wst s = Running -> wvalid s e -> is_failure e = true ->
  wst (fold_left (wstep rq K) evs (wstep rq K s e)) = Raised.
Proof.
  intros Hr Hv Hf. pose proof (failure_raises rq K s e Hr Hv Hf) as H.
  rewrite raised_absorbing by exact H. exact H.
Qed.
