(* C13: proofs about the commit barrier model (coq/model/Barrier.v). *)
From TS Require Import model.Base model.Barrier.
From Coq Require Import Arith PeanoNat.

Arguments st_get : simpl never.
Arguments st_set : simpl never.
Arguments kz : simpl never.

(* ------------------------------------------------------------------ store *)
Lemma key_eqb_true a b : key_eqb a b = true <-> a = b.
Proof.
  destruct a as [a1 a2], b as [b1 b2]. unfold key_eqb. cbn [fst snd].
  rewrite andb_true_iff, !Z.eqb_eq. split.
  - intros [H1 H2]. subst. reflexivity.
  - intros H. inversion H. split; reflexivity.
Qed.

Lemma st_get_set st k v k' :
  st_get (st_set st k v) k' = if key_eqb k k' then Some v else st_get st k'.
Proof. reflexivity. Qed.

Definition KK (st : store) (x : inst) (r : nat) : option value := st_get st (kz x r).
Arguments KK : simpl never.

Lemma kz_eqb x x' r r' : i_prefix x' = i_prefix x -> key_eqb (kz x r) (kz x' r') = Nat.eqb r r'.
Proof.
  intros Hp. unfold key_eqb, kz. cbn [fst snd]. rewrite Hp, Z.eqb_refl. cbn [andb].
  destruct (Nat.eqb_spec r r') as [E|E].
  - subst. apply Z.eqb_refl.
  - apply Z.eqb_neq. lia.
Qed.

Lemma KK_set st x r v x' r' : i_prefix x' = i_prefix x ->
  KK (st_set st (kz x r) v) x' r' = if Nat.eqb r r' then Some v else KK st x' r'.
Proof. intros Hp. unfold KK. rewrite st_get_set, (kz_eqb x x' r r' Hp). reflexivity. Qed.

Lemma KK_other_prefix st x r v y r' : i_prefix y <> i_prefix x ->
  KK (st_set st (kz x r) v) y r' = KK st y r'.
Proof.
  intros Hp. unfold KK. rewrite st_get_set.
  destruct (key_eqb (kz x r) (kz y r')) eqn:E; [|reflexivity].
  apply key_eqb_true in E. unfold kz in E. inversion E. congruence.
Qed.

Lemma KK_prefix st x y r : i_prefix x = i_prefix y -> KK st x r = KK st y r.
Proof. intros H. unfold KK, kz. rewrite H. reflexivity. Qed.

Lemma st_has_true st x r : st_has st (kz x r) = true <-> KK st x r <> None.
Proof. unfold st_has, KK. destruct (st_get st (kz x r)); split; intros; congruence. Qed.

(* ------------------------------------------------------------------ faults *)
Definition io_fault (x : inst) : Prop := exists f, (f < i_W x)%nat /\ iofails x f = true.
Definition has_fault (x : inst) : Prop := io_fault x \/ i_metafail x = true.

Definition bad_pc (p : pc) : bool :=
  match p with PErrReport | PHandler | PRaised => true | _ => false end.

(* ------------------------------------------------------------------ the invariant of one instance *)
Definition leader_ok (st : store) (x : inst) : Prop :=
  match i_pcs x 0%nat with
  | PIo => KK st x 0 = None /\ i_meta x = false
  | PArrive => KK st x 0 = None /\ i_meta x = false /\ i_iodone x 0%nat = true
  | PGet k => KK st x 0 = None /\ i_meta x = false /\ (1 <= k < i_W x)%nat /\
              (forall j, (j < k)%nat -> i_iodone x j = true) /\
              (forall j, (1 <= j < i_W x)%nat -> KK st x j <> None)
  | PErrReport => KK st x 0 = None /\ i_meta x = false
  | PMeta => KK st x 0 = None /\ i_meta x = false /\ (forall j, (j < i_W x)%nat -> i_iodone x j = true)
  | PDepart => KK st x 0 = None /\ i_meta x = true /\ i_metafail x = false /\
               (forall j, (j < i_W x)%nat -> i_iodone x j = true)
  | PDone => KK st x 0 = Some VOk /\ i_meta x = true /\ i_metafail x = false /\
             (forall j, (j < i_W x)%nat -> i_iodone x j = true)
  | PHandler => KK st x 0 <> Some VOk /\ i_meta x = false
  | PRaised => KK st x 0 = Some VErr /\ i_meta x = false
  | PDepartGet => False
  end.

Definition peer_ok_v (p : pc) (Kr K0 : option value) (d : bool) : Prop :=
  match p with
  | PIo => Kr = None
  | PArrive => Kr = None /\ d = true
  | PDepart => Kr = Some VOk /\ d = true
  | PDepartGet => Kr = Some VOk /\ d = true /\ K0 <> None
  | PHandler => Kr = None \/ (Kr = Some VOk /\ d = true)
  | PRaised => Kr = Some VErr
  | PDone => Kr = Some VOk /\ d = true /\ K0 = Some VOk
  | PGet _ | PErrReport | PMeta => False
  end.

Definition peer_ok (st : store) (x : inst) (r : nat) : Prop :=
  peer_ok_v (i_pcs x r) (KK st x r) (KK st x 0) (i_iodone x r).

Record Inv (st : store) (x : inst) : Prop := {
  inv_leader : leader_ok st x;
  inv_peer : forall r, (1 <= r < i_W x)%nat -> peer_ok st x r;
  inv_io : forall r, i_iodone x r = true -> iofails x r = false;
  inv_err_key : forall r, KK st x r = Some VErr -> has_fault x;
  inv_err_pc : forall r, (r < i_W x)%nat -> bad_pc (i_pcs x r) = true -> has_fault x }.

(* the invariant reads the store only through the keys of its own prefix *)
Lemma Inv_ext st st' x : (forall r, KK st' x r = KK st x r) -> Inv st x -> Inv st' x.
Proof.
  intros E [HL HP HIO HK HPC]. split.
  - unfold leader_ok in *. destruct (i_pcs x 0%nat); rewrite ?E; try exact HL.
    destruct HL as (A & B & C & D & F). repeat split; try assumption; try lia.
    intros j Hj. rewrite E. exact (F j Hj).
  - intros r Hr. unfold peer_ok. rewrite !E. exact (HP r Hr).
  - exact HIO.
  - intros r. rewrite E. exact (HK r).
  - exact HPC.
Qed.

Lemma Inv_init st sp : (forall r, st_get st (sp_prefix sp, r) = None) -> Inv st (mk_inst sp).
Proof.
  intros F. assert (FK : forall r, KK st (mk_inst sp) r = None) by (intros r; apply F).
  split.
  - unfold leader_ok. cbn. split; [apply FK|reflexivity].
  - intros r _. unfold peer_ok. cbn. apply FK.
  - cbn. discriminate.
  - intros r. rewrite FK. discriminate.
  - cbn. discriminate.
Qed.

(* ------------------------------------------------------------------ frame facts about one step *)
Lemma istep_frame st x r st' x' o : istep st x r = Some (st', x', o) ->
  i_prefix x' = i_prefix x /\ i_W x' = i_W x /\ i_iofail x' = i_iofail x /\ i_metafail x' = i_metafail x /\
  (r < i_W x)%nat /\
  (forall y q, i_prefix y <> i_prefix x -> KK st' y q = KK st y q).
Proof.
  unfold istep. destruct (r <? i_W x)%nat eqn:Hr; cbn [negb]; [|discriminate].
  apply Nat.ltb_lt in Hr.
  destruct (i_pcs x r) eqn:Hpc.
  all: repeat match goal with
       | |- context [if ?c then _ else _] => destruct c eqn:?
       | |- context [match st_get ?a ?b with _ => _ end] => destruct (st_get a b) as [[|]|]
       end.
  all: intros H; inversion H; subst; clear H.
  all: repeat split; try reflexivity; try assumption; try (cbn; assumption).
  all: intros y q Hy; try reflexivity; apply KK_other_prefix; assumption.
Qed.

Lemma iofails_frame x x' r : i_iofail x' = i_iofail x -> iofails x' r = iofails x r.
Proof. unfold iofails. intros ->. reflexivity. Qed.

Lemma has_fault_frame x x' : i_W x' = i_W x -> i_iofail x' = i_iofail x -> i_metafail x' = i_metafail x ->
  has_fault x -> has_fault x'.
Proof.
  intros HW HF HM [[f [Hf1 Hf2]]|H].
  - left. exists f. rewrite HW. split; [assumption|]. rewrite (iofails_frame x x' f HF). assumption.
  - right. congruence.
Qed.

(* ------------------------------------------------------------------ preservation of the invariant by one step *)
Ltac istep_cases Hs :=
  repeat match type of Hs with
  | context [if ?c then _ else _] => destruct c eqn:?
  | context [match st_get ?a ?b with _ => _ end] => destruct (st_get a b) as [[|]|] eqn:?
  end;
  try discriminate Hs; inversion Hs; subst; clear Hs.

Lemma peer_ok_v_K0 p Kr K0 K0' d :
  K0 <> Some VOk -> K0' <> None -> peer_ok_v p Kr K0 d -> peer_ok_v p Kr K0' d.
Proof. destruct p; cbn; intuition congruence. Qed.

Lemma leader_ok_mono st x st' x' :
  i_pcs x' 0%nat = i_pcs x 0%nat -> i_meta x' = i_meta x -> i_metafail x' = i_metafail x -> i_W x' = i_W x ->
  KK st' x' 0 = KK st x 0 ->
  (forall j, i_iodone x j = true -> i_iodone x' j = true) ->
  (forall j, KK st x j <> None -> KK st' x' j <> None) ->
  leader_ok st x -> leader_ok st' x'.
Proof.
  intros Hpc Hm Hmf HW HK0 Hio HK. unfold leader_ok. rewrite Hpc, Hm, Hmf, HW, HK0.
  destruct (i_pcs x 0%nat); try tauto.
  all: intros H; decompose [and] H; clear H; repeat split; auto; try lia.
Qed.

Lemma has_fault_io x r : (r < i_W x)%nat -> iofails x r = true -> has_fault x.
Proof. intros H1 H2. left. exists r. split; assumption. Qed.

(* the parts of the invariant that do not distinguish leader and peers *)
Lemma istep_inv_misc st x r st' x' o : Inv st x -> istep st x r = Some (st', x', o) ->
  (forall q, i_iodone x' q = true -> iofails x' q = false) /\
  (forall q, KK st' x' q = Some VErr -> has_fault x') /\
  (forall q, (q < i_W x')%nat -> bad_pc (i_pcs x' q) = true -> has_fault x').
Proof.
  intros [HL HP HIO HK HPC] Hs.
  pose proof (istep_frame _ _ _ _ _ _ Hs) as (Fp & FW & FF & FM & Hr & _).
  assert (HF : has_fault x -> has_fault x') by (apply has_fault_frame; assumption).
  assert (HKx : forall s q, KK s x' q = KK s x q) by (intros s q; apply KK_prefix; assumption).
  unfold istep in Hs. destruct (r <? i_W x)%nat eqn:E; cbn [negb] in Hs; [|discriminate]. clear E.
  destruct (i_pcs x r) eqn:Hpc; istep_cases Hs.
  all: split; [|split].
  (* io *)
  all: try (intros q; unfold iofails; cbn [i_iodone i_iofail set_pc set_iodone set_meta]; fold (iofails x q);
            try (destruct (Nat.eqb_spec q r); [subst; intros _; assumption|]); apply HIO).
  (* error keys *)
  all: try (intros q; rewrite HKx; try rewrite (KK_set st x _ _ x q eq_refl);
            try (destruct (Nat.eqb q _); [discriminate|]); intros Hq; apply HF; exact (HK q Hq)).
  (* error keys after a set *)
  all: try (intros q; rewrite HKx, (KK_set st x _ _ x q eq_refl); destruct (Nat.eqb _ q);
            [first [discriminate | intros _; apply HF, (HPC r Hr); rewrite Hpc; reflexivity]
            |intros Hq; apply HF; exact (HK q Hq)]).
  (* error pcs *)
  all: intros q Hq; cbn [i_pcs set_pc set_iodone set_meta]; destruct (Nat.eqb_spec q r);
       [subst q; intros Hb;
        first [ discriminate Hb
              | apply HF, (has_fault_io x r Hr); assumption
              | apply HF, (HPC r Hr); rewrite Hpc; reflexivity
              | apply HF; right; assumption
              | apply HF; eapply HK; unfold KK; eassumption ]
       |intros Hb; apply HF, (HPC q); [rewrite <- FW; exact Hq|exact Hb]].
Qed.

Lemma all_present_true st x : all_present st x (peers (i_W x)) = true ->
  forall j, (1 <= j < i_W x)%nat -> KK st x j <> None.
Proof.
  unfold all_present, peers. rewrite forallb_forall. intros H j Hj.
  apply st_has_true. apply H. apply in_seq. lia.
Qed.

Lemma peer_ok_v_iodone p K0 d : peer_ok_v p (Some VOk) K0 d -> d = true.
Proof. destruct p; cbn; intuition congruence. Qed.

(* leader step, leader clause *)
Lemma leader_step_leader st x st' x' o : Inv st x -> istep st x 0 = Some (st', x', o) -> leader_ok st' x'.
Proof.
  intros [HL HP HIO HK HPC] Hs.
  pose proof (istep_frame _ _ _ _ _ _ Hs) as (Fp & FW & FF & FM & Hr & _).
  assert (HKx : forall s q, KK s x' q = KK s x q) by (intros s q; apply KK_prefix; assumption).
  unfold istep in Hs. destruct (0 <? i_W x)%nat eqn:E; cbn [negb] in Hs; [|discriminate]. clear E.
  cbn [Nat.eqb] in Hs.
  assert (Hget : forall k, (1 <= k < i_W x)%nat -> st_get st (kz x k) = Some VOk -> i_iodone x k = true).
  { intros k Hk Hg. specialize (HP k Hk). unfold peer_ok in HP. unfold KK in HP at 1. rewrite Hg in HP.
    exact (peer_ok_v_iodone _ _ _ HP). }
  unfold leader_ok in HL.
  destruct (i_pcs x 0%nat) eqn:Hpc; istep_cases Hs; try contradiction.
  all: unfold leader_ok; rewrite ?HKx; try rewrite (KK_set st x _ _ x 0%nat eq_refl);
       cbn [i_pcs i_meta i_metafail i_W i_iodone set_pc set_iodone set_meta Nat.eqb].
  all: try (decompose [and] HL; clear HL).
  all: try match goal with H : (_ <? _)%nat = true |- _ => apply Nat.ltb_lt in H end.
  all: try match goal with H : (_ <? _)%nat = false |- _ => apply Nat.ltb_ge in H end.
  all: try match goal with H : all_present _ _ _ = true |- _ => pose proof (all_present_true _ _ H) end.
  all: repeat split; auto; try congruence; try lia.
  all: try (intros j Hj; assert (j = 0)%nat by lia; subst; assumption).
  all: try (intros j Hj; rewrite HKx; auto; fail).
  all: match goal with D : forall j, (j < ?k)%nat -> _ |- forall j, _ -> _ =>
         intros j Hj; destruct (Nat.eq_dec j k); [subst; apply Hget; [lia|assumption]|apply D; lia] end.
Qed.

(* leader step, peer clause *)
Lemma leader_step_peer st x st' x' o r : Inv st x -> istep st x 0 = Some (st', x', o) ->
  (1 <= r < i_W x)%nat -> peer_ok st' x' r.
Proof.
  intros [HL HP HIO HK HPC] Hs Hr1.
  pose proof (istep_frame _ _ _ _ _ _ Hs) as (Fp & FW & FF & FM & Hr & _).
  assert (HKx : forall s q, KK s x' q = KK s x q) by (intros s q; apply KK_prefix; assumption).
  specialize (HP r Hr1). unfold peer_ok in *.
  destruct r as [|n]; [lia|].
  unfold istep in Hs. destruct (0 <? i_W x)%nat eqn:E; cbn [negb] in Hs; [|discriminate]. clear E.
  cbn [Nat.eqb] in Hs.
  unfold leader_ok in HL.
  destruct (i_pcs x 0%nat) eqn:Hpc; istep_cases Hs; try contradiction.
  all: rewrite ?HKx; try rewrite !(KK_set _ x _ _ x _ eq_refl);
       cbn [i_pcs i_iodone set_pc set_iodone set_meta Nat.eqb]; try exact HP.
  all: refine (peer_ok_v_K0 _ _ _ _ _ _ _ HP); intuition congruence.
Qed.

(* peer step, leader clause *)
Lemma peer_step_leader st x st' x' o n : Inv st x -> istep st x (S n) = Some (st', x', o) -> leader_ok st' x'.
Proof.
  intros [HL HP HIO HK HPC] Hs.
  pose proof (istep_frame _ _ _ _ _ _ Hs) as (Fp & FW & FF & FM & Hr & _).
  assert (HKx : forall s q, KK s x' q = KK s x q) by (intros s q; apply KK_prefix; assumption).
  assert (HPr := HP (S n) ltac:(lia)). unfold peer_ok in HPr.
  unfold istep in Hs. destruct (S n <? i_W x)%nat eqn:E; cbn [negb] in Hs; [|discriminate]. clear E.
  cbn [Nat.eqb] in Hs.
  destruct (i_pcs x (S n)) eqn:Hpc; istep_cases Hs; try contradiction.
  all: refine (leader_ok_mono _ x _ _ _ _ _ _ _ _ _ HL); try reflexivity.
  all: try (rewrite HKx; try rewrite (KK_set _ x _ _ x _ eq_refl); reflexivity).
  all: try (intros j; cbn [i_iodone set_pc set_iodone set_meta]; try destruct (Nat.eqb j (S n)); auto; fail).
  all: intros j; rewrite HKx; try rewrite (KK_set _ x _ _ x _ eq_refl); try destruct (Nat.eqb _ j); auto; discriminate.
Qed.

Lemma eqb_0S n : Nat.eqb 0 (S n) = false. Proof. reflexivity. Qed.
Lemma eqb_S0 n : Nat.eqb (S n) 0 = false. Proof. reflexivity. Qed.

(* peer step, peer clause *)
Lemma peer_step_peer st x st' x' o n r : Inv st x -> istep st x (S n) = Some (st', x', o) ->
  (1 <= r < i_W x)%nat -> peer_ok st' x' r.
Proof.
  intros [HL HP HIO HK HPC] Hs Hr1.
  pose proof (istep_frame _ _ _ _ _ _ Hs) as (Fp & FW & FF & FM & Hr & _).
  assert (HKx : forall s q, KK s x' q = KK s x q) by (intros s q; apply KK_prefix; assumption).
  assert (HPr := HP (S n) ltac:(lia)). specialize (HP r Hr1). unfold peer_ok in *.
  unfold istep in Hs. destruct (S n <? i_W x)%nat eqn:E; cbn [negb] in Hs; [|discriminate]. clear E.
  cbn [Nat.eqb] in Hs.
  destruct (i_pcs x (S n)) eqn:Hpc; istep_cases Hs; try contradiction.
  all: rewrite ?HKx; try rewrite !(KK_set _ x _ _ x _ eq_refl); rewrite ?eqb_S0;
       cbn [i_pcs i_iodone set_pc set_iodone set_meta].
  all: destruct (Nat.eqb_spec r (S n)) as [Er|Er]; [subst r; rewrite ?Nat.eqb_refl|
         try (destruct (Nat.eqb_spec (S n) r); [congruence|]); exact HP].
  all: try match goal with H : st_has _ _ = true |- _ => apply st_has_true in H end.
  all: unfold KK in *; cbn [peer_ok_v] in *; intuition congruence.
Qed.

Lemma istep_inv st x r st' x' o : Inv st x -> istep st x r = Some (st', x', o) -> Inv st' x'.
Proof.
  intros HI Hs.
  pose proof (istep_frame _ _ _ _ _ _ Hs) as (Fp & FW & FF & FM & Hr & _).
  destruct (istep_inv_misc _ _ _ _ _ _ HI Hs) as (A & B & C).
  split; auto.
  - destruct r; [eapply leader_step_leader|eapply peer_step_leader]; eauto.
  - intros q Hq. rewrite FW in Hq.
    destruct r; [eapply leader_step_peer|eapply peer_step_peer]; eauto.
Qed.

(* ------------------------------------------------------------------ what the invariant says in one state *)
Lemma inv_commit st x : Inv st x -> i_meta x = true ->
  forall r, (r < i_W x)%nat -> i_iodone x r = true /\ iofails x r = false.
Proof.
  intros [HL _ HIO _ _] Hm.
  assert (H : forall j, (j < i_W x)%nat -> i_iodone x j = true).
  { unfold leader_ok in HL. destruct (i_pcs x 0%nat); try (decompose [and] HL; congruence); tauto. }
  intros r Hr. split; [|apply HIO]; apply H; exact Hr.
Qed.

Lemma inv_leader_key_ok st x : Inv st x -> KK st x 0 = Some VOk -> i_pcs x 0%nat = PDone /\ i_meta x = true.
Proof.
  intros [HL _ _ _ _] HK. unfold leader_ok in HL. rewrite HK in HL.
  destruct (i_pcs x 0%nat); try (decompose [and] HL; congruence); try tauto.
Qed.

Lemma inv_done_meta st x r : Inv st x -> (r < i_W x)%nat -> i_pcs x r = PDone -> i_meta x = true.
Proof.
  intros HI Hr Hpc. destruct r as [|n].
  - destruct HI as [HL _ _ _ _]. unfold leader_ok in HL. rewrite Hpc in HL. tauto.
  - pose proof (inv_peer _ _ HI (S n) ltac:(lia)) as HP. unfold peer_ok in HP. rewrite Hpc in HP.
    cbn [peer_ok_v] in HP. destruct HP as (_ & _ & HK). exact (proj2 (inv_leader_key_ok _ _ HI HK)).
Qed.

Lemma inv_meta_no_fault st x : Inv st x -> i_meta x = true -> ~ has_fault x.
Proof.
  intros HI Hm [[f [Hf1 Hf2]]|Hmf].
  - destruct (inv_commit _ _ HI Hm f Hf1) as [_ H]. congruence.
  - destruct HI as [HL _ _ _ _]. unfold leader_ok in HL.
    destruct (i_pcs x 0%nat); try (decompose [and] HL; congruence); tauto.
Qed.

Lemma inv_fault_no_done st x : Inv st x -> has_fault x -> forall r, (r < i_W x)%nat -> i_pcs x r <> PDone.
Proof.
  intros HI HF r Hr Hpc. exact (inv_meta_no_fault _ _ HI (inv_done_meta _ _ _ HI Hr Hpc) HF).
Qed.

Lemma inv_fault_no_meta st x : Inv st x -> has_fault x -> i_meta x = false.
Proof.
  intros HI HF. destruct (i_meta x) eqn:E; [|reflexivity]. destruct (inv_meta_no_fault _ _ HI E HF).
Qed.

Lemma inv_nofault_no_raise st x : Inv st x -> ~ has_fault x -> forall r, (r < i_W x)%nat -> bad_pc (i_pcs x r) = false.
Proof.
  intros HI HF r Hr. destruct (bad_pc (i_pcs x r)) eqn:E; [|reflexivity].
  destruct (HF (inv_err_pc _ _ HI r Hr E)).
Qed.

(* ------------------------------------------------------------------ deadlock freedom of one instance *)
Lemma all_present_false st x : all_present st x (peers (i_W x)) = false ->
  exists j, (1 <= j < i_W x)%nat /\ KK st x j = None.
Proof.
  unfold all_present, peers. intros H.
  assert (E : existsb (fun r => negb (st_has st (kz x r))) (seq 1 (i_W x - 1)) = true).
  { clear -H. induction (seq 1 (i_W x - 1)) as [|a l IH]; cbn in *; [discriminate|].
    destruct (st_has st (kz x a)); cbn in *; auto. }
  apply existsb_exists in E. destruct E as [j [Hj1 Hj2]]. apply in_seq in Hj1.
  exists j. split; [lia|]. unfold st_has in Hj2. unfold KK. destruct (st_get st (kz x j)); [discriminate|reflexivity].
Qed.

Lemma inv_deadlock_free st x r : Inv st x -> (r < i_W x)%nat -> terminated (i_pcs x r) = false ->
  exists r', (r' < i_W x)%nat /\ istep st x r' <> None.
Proof.
  intros HI Hr Ht.
  assert (HW : (0 < i_W x)%nat) by lia.
  assert (Hstep : forall q, (q < i_W x)%nat -> istep st x q =
            (let p := i_prefix x in
             match i_pcs x q with
             | PIo => if iofails x q then Some (st, set_pc x q PHandler, OIo false)
                      else Some (st, set_iodone (set_pc x q PArrive) q, OIo true)
             | PArrive => if Nat.eqb q 0 then
                   if all_present st x (peers (i_W x))
                   then Some (st, set_pc x q (if (1 <? i_W x)%nat then PGet 1 else PMeta), OWait p (peers (i_W x)))
                   else None
                 else Some (st_set st (kz x q) VOk, set_pc x q PDepart, OSet p q VOk)
             | PGet k => match st_get st (kz x k) with
                 | None => None
                 | Some VOk => Some (st, set_pc x q (if (S k <? i_W x)%nat then PGet (S k) else PMeta), OGet p k VOk)
                 | Some VErr => Some (st, set_pc x q PErrReport, OGet p k VErr) end
             | PErrReport => Some (st_set st (kz x q) VErr, set_pc x q PHandler, OSet p q VErr)
             | PMeta => if i_metafail x then Some (st, set_pc x q PHandler, OMeta false)
                        else Some (st, set_meta (set_pc x q PDepart), OMeta true)
             | PDepart => if Nat.eqb q 0 then Some (st_set st (kz x 0) VOk, set_pc x q PDone, OSet p 0%nat VOk)
                 else if st_has st (kz x 0) then Some (st, set_pc x q PDepartGet, OWait p [0%nat]) else None
             | PDepartGet => match st_get st (kz x 0) with
                 | None => None
                 | Some VOk => Some (st, set_pc x q PDone, OGet p 0%nat VOk)
                 | Some VErr => Some (st, set_pc x q PHandler, OGet p 0%nat VErr) end
             | PHandler => Some (st_set st (kz x q) VErr, set_pc x q PRaised, OSet p q VErr)
             | PDone | PRaised => None
             end)).
  { intros q Hq. unfold istep. apply Nat.ltb_lt in Hq. rewrite Hq. reflexivity. }
  (* a peer that is not terminated and not waiting can step; so can one that waits for a present leader key *)
  assert (Hpeer : forall n, (S n < i_W x)%nat -> terminated (i_pcs x (S n)) = false ->
                  KK st x 0 <> None \/ (i_pcs x (S n) <> PDepart /\ i_pcs x (S n) <> PDepartGet) ->
                  istep st x (S n) <> None).
  { intros n Hn Htn Hc. rewrite (Hstep _ Hn). cbv zeta. rewrite eqb_S0.
    pose proof (inv_peer _ _ HI (S n) ltac:(lia)) as HP. unfold peer_ok in HP.
    destruct (i_pcs x (S n)) eqn:Hpc; cbn [peer_ok_v terminated] in *; try contradiction; try discriminate.
    - destruct (iofails x (S n)); discriminate.
    - destruct Hc as [Hc|[Hc _]]; [|congruence]. apply st_has_true in Hc. rewrite Hc. discriminate.
    - destruct HP as (_ & _ & HK0). unfold KK in HK0. destruct (st_get st (kz x 0)) as [[|]|]; congruence. }
  pose proof (inv_leader _ _ HI) as HL. unfold leader_ok in HL.
  destruct (i_pcs x 0%nat) eqn:Hpc0.
  - exists 0%nat. split; [assumption|]. rewrite (Hstep _ HW), Hpc0. cbv zeta. destruct (iofails x 0); discriminate.
  - (* leader waits for the peers *)
    destruct (all_present st x (peers (i_W x))) eqn:Hall.
    + exists 0%nat. split; [assumption|]. rewrite (Hstep _ HW), Hpc0. cbv zeta. rewrite Nat.eqb_refl, ?Hall. discriminate.
    + destruct (all_present_false _ _ Hall) as [j [Hj HKj]]. destruct j as [|n]; [lia|].
      exists (S n). split; [lia|]. apply Hpeer; [lia| |].
      * pose proof (inv_peer _ _ HI (S n) Hj) as HP. unfold peer_ok in HP. rewrite HKj in HP.
        destruct (i_pcs x (S n)); cbn in *; try reflexivity; intuition congruence.
      * right. pose proof (inv_peer _ _ HI (S n) Hj) as HP. unfold peer_ok in HP. rewrite HKj in HP.
        destruct (i_pcs x (S n)); cbn in *; intuition congruence.
  - exists 0%nat. split; [assumption|]. rewrite (Hstep _ HW), Hpc0. cbv zeta.
    destruct HL as (_ & _ & Hk & _ & HKs). specialize (HKs k Hk). unfold KK in HKs.
    destruct (st_get st (kz x k)) as [[|]|]; congruence.
  - exists 0%nat. split; [assumption|]. rewrite (Hstep _ HW), Hpc0. discriminate.
  - exists 0%nat. split; [assumption|]. rewrite (Hstep _ HW), Hpc0. cbv zeta. destruct (i_metafail x); discriminate.
  - exists 0%nat. split; [assumption|]. rewrite (Hstep _ HW), Hpc0. cbv zeta. rewrite Nat.eqb_refl. discriminate.
  - contradiction.
  - exists 0%nat. split; [assumption|]. rewrite (Hstep _ HW), Hpc0. discriminate.
  - (* leader Done: its key is present *)
    destruct r as [|n]; [rewrite Hpc0 in Ht; discriminate|].
    exists (S n). split; [assumption|]. apply Hpeer; auto. left. destruct HL as [HK _]. congruence.
  - destruct r as [|n]; [rewrite Hpc0 in Ht; discriminate|].
    exists (S n). split; [assumption|]. apply Hpeer; auto. left. destruct HL as [HK _]. congruence.
Qed.

(* ------------------------------------------------------------------ lists of instances *)
Lemma nth_error_upd {A} (l : list A) n x m :
  nth_error (upd l n x) m =
  if Nat.eqb n m then (match nth_error l n with Some _ => Some x | None => None end) else nth_error l m.
Proof.
  revert n m. induction l as [|a l IH]; intros n m.
  - cbn. destruct (Nat.eqb n m); destruct n, m; reflexivity.
  - destruct n as [|n], m as [|m]; cbn; try reflexivity. apply IH.
Qed.

Lemma length_upd {A} (l : list A) n x : length (upd l n x) = length l.
Proof. revert n. induction l as [|a l IH]; intros [|n]; cbn; auto. Qed.

Lemma map_upd_same {A B} (f : A -> B) (l : list A) n x x' :
  nth_error l n = Some x -> f x' = f x -> map f (upd l n x') = map f l.
Proof.
  revert n. induction l as [|a l IH]; intros [|n] Hn Hf; cbn in *; try discriminate.
  - inversion Hn. subst. rewrite Hf. reflexivity.
  - rewrite (IH n Hn Hf). reflexivity.
Qed.

Lemma NoDup_map_nth {A B} (f : A -> B) (l : list A) i j x y :
  NoDup (map f l) -> nth_error l i = Some x -> nth_error l j = Some y -> f x = f y -> i = j.
Proof.
  intros ND Hi Hj Hf. rewrite NoDup_nth_error in ND. apply ND.
  - rewrite map_length. apply nth_error_Some. congruence.
  - rewrite !nth_error_map, Hi, Hj. cbn. rewrite Hf. reflexivity.
Qed.

(* ------------------------------------------------------------------ the job: all instances at once *)
Definition GInv (s : gstate) : Prop :=
  NoDup (map i_prefix (g_insts s)) /\
  forall i x, nth_error (g_insts s) i = Some x -> Inv (g_store s) x.

Lemma gstep_cases s c :
  (fst (gstep s c) = s /\ snd (gstep s c) = None /\
   (forall x, nth_error (g_insts s) (fst c) = Some x -> istep (g_store s) x (snd c) = None)) \/
  (exists x st' x' o, nth_error (g_insts s) (fst c) = Some x /\ istep (g_store s) x (snd c) = Some (st', x', o) /\
     gstep s c = ({| g_store := st'; g_insts := upd (g_insts s) (fst c) x' |}, Some o)).
Proof.
  unfold gstep. destruct (nth_error (g_insts s) (fst c)) as [x|] eqn:Hn.
  - destruct (istep (g_store s) x (snd c)) as [[[st' x'] o]|] eqn:Hs.
    + right. exists x, st', x', o. auto.
    + left. repeat split; auto. intros y Hy. inversion Hy. subst. assumption.
  - left. repeat split; auto. discriminate.
Qed.

Lemma gstep_inv s c : GInv s -> GInv (fst (gstep s c)).
Proof.
  intros [ND HI]. destruct (gstep_cases s c) as [(E & _ & _)|(x & st' & x' & o & Hn & Hs & E)].
  - rewrite E. split; assumption.
  - rewrite E. unfold GInv. cbn [fst g_store g_insts].
    pose proof (istep_frame _ _ _ _ _ _ Hs) as (Fp & FW & FF & FM & Hr & Hother).
    split.
    + rewrite (map_upd_same i_prefix _ _ x x' Hn Fp). exact ND.
    + intros i y Hy. rewrite nth_error_upd, Hn in Hy. destruct (Nat.eqb_spec (fst c) i) as [Ei|Ei].
      * inversion Hy. subst y. exact (istep_inv _ _ _ _ _ _ (HI _ _ Hn) Hs).
      * apply (Inv_ext (g_store s)); [|exact (HI _ _ Hy)].
        intros r. apply Hother. intros Hp. apply Ei. symmetry.
        exact (NoDup_map_nth i_prefix _ _ _ _ _ ND Hy Hn Hp).
Qed.

Lemma grun_inv s sch : GInv s -> GInv (grun s sch).
Proof. revert s. induction sch as [|c sch IH]; intros s H; cbn; [exact H|]. apply IH, gstep_inv, H. Qed.

(* freshness: the store holds no key of any prefix used by the history *)
Definition fresh (st0 : store) (h : list spec) : Prop :=
  forall sp, In sp h -> forall r, st_get st0 (sp_prefix sp, r) = None.
Definition distinct_prefixes (h : list spec) : Prop := NoDup (map sp_prefix h).

Lemma ginit_inv st0 h : fresh st0 h -> distinct_prefixes h -> GInv (ginit st0 h).
Proof.
  intros HF HD. split.
  - cbn. rewrite map_map. exact HD.
  - intros i x Hx. cbn in Hx. rewrite nth_error_map in Hx.
    destruct (nth_error h i) as [sp|] eqn:Hsp; [|discriminate]. inversion Hx. subst x.
    apply Inv_init. apply HF. eapply nth_error_In. eassumption.
Qed.

Lemma reach_inv st0 h sch i x : fresh st0 h -> distinct_prefixes h ->
  nth_error (g_insts (grun (ginit st0 h) sch)) i = Some x -> Inv (g_store (grun (ginit st0 h) sch)) x.
Proof. intros HF HD Hx. exact (proj2 (grun_inv _ sch (ginit_inv _ _ HF HD)) i x Hx). Qed.

(* static fields of an instance never change: the i-th instance is always the i-th snapshot of the history *)
Definition same_static (x y : inst) : Prop :=
  i_prefix y = i_prefix x /\ i_W y = i_W x /\ i_iofail y = i_iofail x /\ i_metafail y = i_metafail x.

Lemma gstep_static s c i x : nth_error (g_insts s) i = Some x ->
  exists y, nth_error (g_insts (fst (gstep s c))) i = Some y /\ same_static x y.
Proof.
  intros Hx. destruct (gstep_cases s c) as [(E & _ & _)|(x0 & st' & x' & o & Hn & Hs & E)].
  - rewrite E. exists x. repeat split; auto.
  - rewrite E. cbn [fst g_insts]. rewrite nth_error_upd, Hn.
    pose proof (istep_frame _ _ _ _ _ _ Hs) as (Fp & FW & FF & FM & _ & _).
    destruct (Nat.eqb_spec (fst c) i) as [Ei|Ei].
    + subst i. rewrite Hn in Hx. inversion Hx. subst x0. exists x'. repeat split; auto.
    + exists x. repeat split; auto.
Qed.

Lemma grun_static s sch i x : nth_error (g_insts s) i = Some x ->
  exists y, nth_error (g_insts (grun s sch)) i = Some y /\ same_static x y.
Proof.
  revert s x. induction sch as [|c sch IH]; intros s x Hx; cbn.
  - exists x. repeat split; auto.
  - destruct (gstep_static s c i x Hx) as (y & Hy & S1).
    destruct (IH _ _ Hy) as (z & Hz & S2). exists z. split; [assumption|].
    unfold same_static in *. intuition congruence.
Qed.

Lemma grun_length s sch : length (g_insts (grun s sch)) = length (g_insts s).
Proof.
  revert s. induction sch as [|c sch IH]; intros s; cbn; [reflexivity|]. rewrite IH.
  destruct (gstep_cases s c) as [(E & _ & _)|(x0 & st' & x' & o & Hn & Hs & E)]; rewrite E; [reflexivity|].
  cbn. apply length_upd.
Qed.

Lemma reach_static st0 h sch i sp : nth_error h i = Some sp ->
  exists x, nth_error (g_insts (grun (ginit st0 h) sch)) i = Some x /\
            i_prefix x = sp_prefix sp /\ i_W x = sp_W sp /\ i_iofail x = sp_iofail sp /\ i_metafail x = sp_metafail sp.
Proof.
  intros Hsp. assert (H0 : nth_error (g_insts (ginit st0 h)) i = Some (mk_inst sp)).
  { cbn. rewrite nth_error_map, Hsp. reflexivity. }
  destruct (grun_static _ sch _ _ H0) as (y & Hy & S1 & S2 & S3 & S4). exists y. cbn in *. auto.
Qed.

(* ------------------------------------------------------------------ independence of instances *)
(* a step of instance j changes no key of another prefix and no other instance *)
Lemma gstep_independent s j r i x : NoDup (map i_prefix (g_insts s)) ->
  nth_error (g_insts s) i = Some x -> i <> j ->
  nth_error (g_insts (fst (gstep s (j, r)))) i = Some x /\
  forall q, st_get (g_store (fst (gstep s (j, r)))) (i_prefix x, q) = st_get (g_store s) (i_prefix x, q).
Proof.
  intros ND Hx Hij. destruct (gstep_cases s (j, r)) as [(E & _ & _)|(x0 & st' & x' & o & Hn & Hs & E)].
  - rewrite E. auto.
  - rewrite E. cbn [fst snd g_insts g_store] in *. split.
    + rewrite nth_error_upd. destruct (Nat.eqb_spec j i); [congruence|assumption].
    + intros q. assert (Hp : i_prefix x <> i_prefix x0).
      { intros Hp. apply Hij. exact (NoDup_map_nth i_prefix _ _ _ _ _ ND Hx Hn Hp). }
      revert Hs. clear -Hp. unfold istep. destruct (negb (r <? i_W x0)%nat); [discriminate|].
      destruct (i_pcs x0 r); intros Hs; istep_cases Hs; try reflexivity.
      all: rewrite st_get_set; match goal with |- (if ?c then _ else _) = _ => destruct c eqn:Ek end; try reflexivity.
      all: apply key_eqb_true in Ek; unfold kz in Ek; inversion Ek; congruence.
Qed.

(* ------------------------------------------------------------------ property-level statements *)
Lemma no_fault_not_has_fault x : no_fault x -> ~ has_fault x.
Proof. intros [H1 H2] [[f [Hf1 Hf2]]|H]; [rewrite (H1 f Hf1) in Hf2|]; congruence. Qed.

Lemma commit_after_all_arrive st0 h sch i x : fresh st0 h -> distinct_prefixes h ->
  nth_error (g_insts (grun (ginit st0 h) sch)) i = Some x ->
  i_meta x = true -> forall r, (r < i_W x)%nat -> i_iodone x r = true /\ iofails x r = false.
Proof. intros HF HD Hx. exact (inv_commit _ _ (reach_inv _ _ _ _ _ HF HD Hx)). Qed.

Lemma depart_after_commit st0 h sch i x : fresh st0 h -> distinct_prefixes h ->
  nth_error (g_insts (grun (ginit st0 h) sch)) i = Some x ->
  forall r, (r < i_W x)%nat -> i_pcs x r = PDone -> i_meta x = true.
Proof. intros HF HD Hx r. exact (inv_done_meta _ _ r (reach_inv _ _ _ _ _ HF HD Hx)). Qed.

Lemma error_reaches_everyone st0 h sch i x : fresh st0 h -> distinct_prefixes h ->
  nth_error (g_insts (grun (ginit st0 h) sch)) i = Some x ->
  has_fault x ->
  (forall r, (r < i_W x)%nat -> i_pcs x r <> PDone) /\
  (forall r, (r < i_W x)%nat -> terminated (i_pcs x r) = true -> i_pcs x r = PRaised) /\
  i_meta x = false.
Proof.
  intros HF HD Hx Hf. pose proof (reach_inv _ _ _ _ _ HF HD Hx) as HI.
  pose proof (inv_fault_no_done _ _ HI Hf) as ND. split; [exact ND|]. split.
  - intros r Hr Ht. specialize (ND r Hr). destruct (i_pcs x r); try discriminate; congruence.
  - exact (inv_fault_no_meta _ _ HI Hf).
Qed.

Lemma no_fault_no_raise st0 h sch i x : fresh st0 h -> distinct_prefixes h ->
  nth_error (g_insts (grun (ginit st0 h) sch)) i = Some x ->
  no_fault x -> forall r, (r < i_W x)%nat -> i_pcs x r <> PRaised.
Proof.
  intros HF HD Hx Hn r Hr Hp.
  pose proof (inv_nofault_no_raise _ _ (reach_inv _ _ _ _ _ HF HD Hx) (no_fault_not_has_fault _ Hn) r Hr) as H.
  rewrite Hp in H. discriminate.
Qed.

Lemma deadlock_free st0 h sch i x r : fresh st0 h -> distinct_prefixes h ->
  nth_error (g_insts (grun (ginit st0 h) sch)) i = Some x ->
  (r < i_W x)%nat -> terminated (i_pcs x r) = false ->
  exists r', (r' < i_W x)%nat /\ enabled (grun (ginit st0 h) sch) (i, r') = true.
Proof.
  intros HF HD Hx Hr Ht.
  destruct (inv_deadlock_free _ _ r (reach_inv _ _ _ _ _ HF HD Hx) Hr Ht) as (r' & Hr' & Hs).
  exists r'. split; [assumption|]. unfold enabled, gstep. cbn [fst snd]. rewrite Hx.
  destruct (istep (g_store (grun (ginit st0 h) sch)) x r') as [[[a b] c]|]; [reflexivity|congruence].
Qed.

(* a complete schedule: one after which no rank of instance i can take a step *)
Lemma complete_schedule_outcomes st0 h sch i x : fresh st0 h -> distinct_prefixes h ->
  nth_error (g_insts (grun (ginit st0 h) sch)) i = Some x ->
  quiescent_inst (grun (ginit st0 h) sch) i ->
  (no_fault x -> (forall r, (r < i_W x)%nat -> i_pcs x r = PDone) /\ ((0 < i_W x)%nat -> i_meta x = true)) /\
  (has_fault x -> (forall r, (r < i_W x)%nat -> i_pcs x r = PRaised) /\ i_meta x = false).
Proof.
  intros HF HD Hx Hq.
  assert (HT : forall r, (r < i_W x)%nat -> terminated (i_pcs x r) = true).
  { intros r Hr. destruct (terminated (i_pcs x r)) eqn:Ht; [reflexivity|].
    destruct (deadlock_free _ _ _ _ _ r HF HD Hx Hr Ht) as (r' & _ & He).
    unfold enabled in He. rewrite (Hq r') in He. discriminate. }
  split.
  - intros Hn.
    assert (HDn : forall r, (r < i_W x)%nat -> i_pcs x r = PDone).
    { intros r Hr. pose proof (no_fault_no_raise _ _ _ _ _ HF HD Hx Hn r Hr) as H1. specialize (HT r Hr).
      destruct (i_pcs x r); try discriminate; congruence. }
    split; [exact HDn|]. intros HW. exact (depart_after_commit _ _ _ _ _ HF HD Hx 0%nat HW (HDn _ HW)).
  - intros Hf. destruct (error_reaches_everyone _ _ _ _ _ HF HD Hx Hf) as (_ & H2 & H3).
    split; [|exact H3]. intros r Hr. apply H2; auto.
Qed.

(* independence, as a statement about whole runs: a schedule made only of steps of other instances
   changes neither instance i nor any key under its prefix *)
Lemma instances_independent s sch i x : NoDup (map i_prefix (g_insts s)) ->
  nth_error (g_insts s) i = Some x -> Forall (fun c => fst c <> i) sch ->
  nth_error (g_insts (grun s sch)) i = Some x /\
  forall q, st_get (g_store (grun s sch)) (i_prefix x, q) = st_get (g_store s) (i_prefix x, q).
Proof.
  revert s. induction sch as [|[j r] sch IH]; intros s ND Hx HFa; cbn [grun].
  - auto.
  - inversion HFa as [|c l Hc Hl]. subst. cbn in Hc.
    destruct (gstep_independent s j r i x ND Hx (fun E => Hc (eq_sym E))) as [H1 H2].
    assert (ND' : NoDup (map i_prefix (g_insts (fst (gstep s (j, r)))))).
    { destruct (gstep_cases s (j, r)) as [(E & _ & _)|(x0 & st' & x' & o & Hn & Hs & E)]; rewrite E; [exact ND|].
      cbn [fst snd g_insts] in *. pose proof (istep_frame _ _ _ _ _ _ Hs) as (Fp & _).
      rewrite (map_upd_same i_prefix _ _ x0 x' Hn Fp). exact ND. }
    destruct (IH _ ND' H1 Hl) as [H3 H4]. split; [exact H3|]. intros q. rewrite H4. apply H2.
Qed.

(* a step that is not enabled leaves the state unchanged *)
Lemma disabled_step_is_noop s c : enabled s c = false -> fst (gstep s c) = s.
Proof.
  unfold enabled. destruct (gstep_cases s c) as [(E & _ & _)|(x0 & st' & x' & o & _ & _ & E)]; [auto|].
  rewrite E. discriminate.
Qed.

(* ------------------------------------------------------------------ termination under round-robin *)
Lemma istep_measure st x r st' x' o : istep st x r = Some (st', x', o) ->
  (forall q, q <> r -> i_pcs x' q = i_pcs x q) /\
  (pc_measure (i_W x) (i_pcs x' r) < pc_measure (i_W x) (i_pcs x r))%nat.
Proof.
  intros Hs. unfold istep in Hs. destruct (r <? i_W x)%nat eqn:E; cbn [negb] in Hs; [|discriminate]. clear E.
  destruct (i_pcs x r) eqn:Hpc; istep_cases Hs.
  all: repeat match goal with H : (_ <? _)%nat = true |- _ => apply Nat.ltb_lt in H
                         | H : (_ <? _)%nat = false |- _ => apply Nat.ltb_ge in H end.
  all: split; [intros q Hq; cbn [i_pcs set_pc set_iodone set_meta];
               destruct (Nat.eqb_spec q r); [contradiction|reflexivity]|].
  all: cbn [i_pcs set_pc set_iodone set_meta]; rewrite Nat.eqb_refl; cbn [pc_measure]; lia.
Qed.

Lemma list_sum_map_le {A} (f g : A -> nat) l : (forall q, In q l -> (f q <= g q)%nat) ->
  (list_sum (map f l) <= list_sum (map g l))%nat.
Proof.
  unfold list_sum. induction l as [|a l IH]; intros H; cbn [map fold_right]; [lia|].
  pose proof (H a (or_introl eq_refl)). specialize (IH (fun q Hq => H q (or_intror Hq))). lia.
Qed.

Lemma list_sum_map_lt {A} (f g : A -> nat) l r : (forall q, In q l -> (f q <= g q)%nat) ->
  In r l -> (f r < g r)%nat -> (list_sum (map f l) < list_sum (map g l))%nat.
Proof.
  induction l as [|a l IH]; intros H Hin Hlt; [destruct Hin|].
  pose proof (H a (or_introl eq_refl)).
  pose proof (list_sum_map_le f g l (fun q Hq => H q (or_intror Hq))).
  unfold list_sum in *; cbn [map fold_right].
  destruct Hin as [->|Hin]; [lia|]. specialize (IH (fun q Hq => H q (or_intror Hq)) Hin Hlt). lia.
Qed.

Lemma inst_measure_step st x r st' x' o : istep st x r = Some (st', x', o) ->
  (inst_measure x' < inst_measure x)%nat.
Proof.
  intros Hs. pose proof (istep_frame _ _ _ _ _ _ Hs) as (_ & FW & _ & _ & Hr & _).
  destruct (istep_measure _ _ _ _ _ _ Hs) as [Hoth Hlt].
  unfold inst_measure. rewrite FW. apply (list_sum_map_lt _ _ _ r).
  - intros q _. destruct (Nat.eq_dec q r) as [->|Hq]; [lia|]. rewrite (Hoth q Hq). lia.
  - apply in_seq. lia.
  - exact Hlt.
Qed.

Lemma list_sum_upd_lt {A} (f : A -> nat) l i x x' : nth_error l i = Some x -> (f x' < f x)%nat ->
  (list_sum (map f (upd l i x')) < list_sum (map f l))%nat.
Proof.
  unfold list_sum. revert i. induction l as [|a l IH]; intros [|i] Hn Hlt; cbn [nth_error upd map fold_right] in *; try discriminate.
  - inversion Hn. subst. lia.
  - specialize (IH i Hn Hlt). lia.
Qed.

Lemma gstep_measure_lt s c : enabled s c = true -> (gmeasure (fst (gstep s c)) < gmeasure s)%nat.
Proof.
  unfold enabled. destruct (gstep_cases s c) as [(_ & E & _)|(x & st' & x' & o & Hn & Hs & E)].
  - rewrite E. discriminate.
  - intros _. rewrite E. unfold gmeasure. cbn [fst g_insts].
    apply (list_sum_upd_lt inst_measure _ _ x x' Hn). exact (inst_measure_step _ _ _ _ _ _ Hs).
Qed.

Lemma gstep_measure_le s c : (gmeasure (fst (gstep s c)) <= gmeasure s)%nat.
Proof.
  destruct (enabled s c) eqn:E.
  - pose proof (gstep_measure_lt s c E). lia.
  - rewrite (disabled_step_is_noop s c E). lia.
Qed.

Lemma grun_measure_le s sch : (gmeasure (grun s sch) <= gmeasure s)%nat.
Proof.
  revert s. induction sch as [|c sch IH]; intros s; cbn; [lia|].
  pose proof (IH (fst (gstep s c))). pose proof (gstep_measure_le s c). lia.
Qed.

Lemma grun_app s a b : grun s (a ++ b) = grun (grun s a) b.
Proof. revert s. induction a as [|c a IH]; intros s; cbn; [reflexivity|apply IH]. Qed.

Lemma gstep_all_choices s c : all_choices (fst (gstep s c)) = all_choices s.
Proof.
  unfold all_choices. destruct (gstep_cases s c) as [(E & _ & _)|(x & st' & x' & o & Hn & Hs & E)]; rewrite E; [reflexivity|].
  cbn [fst g_insts]. pose proof (istep_frame _ _ _ _ _ _ Hs) as (_ & FW & _).
  rewrite (map_upd_same i_W _ _ x x' Hn FW). reflexivity.
Qed.

Lemma grun_all_choices s sch : all_choices (grun s sch) = all_choices s.
Proof.
  revert s. induction sch as [|c sch IH]; intros s; cbn; [reflexivity|]. rewrite IH. apply gstep_all_choices.
Qed.

Lemma in_choices_from i0 ws i w r : nth_error ws i = Some w -> (r < w)%nat -> In ((i0 + i)%nat, r) (choices_from i0 ws).
Proof.
  revert i0 i. induction ws as [|a ws IH]; intros i0 [|i] Hn Hr; cbn in *; try discriminate.
  - inversion Hn. subst. apply in_or_app. left. rewrite Nat.add_0_r. apply in_map. apply in_seq. lia.
  - apply in_or_app. right. replace (i0 + S i)%nat with (S i0 + i)%nat by lia. apply IH; assumption.
Qed.

(* a step outside all_choices is never enabled *)
Lemma enabled_in_all_choices s c : enabled s c = true -> In c (all_choices s).
Proof.
  unfold enabled. destruct (gstep_cases s c) as [(_ & E & _)|(x & st' & x' & o & Hn & Hs & E)].
  - rewrite E. discriminate.
  - intros _. pose proof (istep_frame _ _ _ _ _ _ Hs) as (_ & _ & _ & _ & Hr & _).
    destruct c as [i r]. cbn [fst snd] in *. unfold all_choices.
    apply (in_choices_from 0 _ i (i_W x) r); [|exact Hr]. rewrite nth_error_map, Hn. reflexivity.
Qed.

Lemma run_round s l :
  (gmeasure (grun s l) < gmeasure s)%nat \/ (grun s l = s /\ forall c, In c l -> enabled s c = false).
Proof.
  revert s. induction l as [|c l IH]; intros s; cbn [grun].
  - right. split; [reflexivity|]. intros c [].
  - destruct (enabled s c) eqn:E.
    + left. pose proof (gstep_measure_lt s c E). pose proof (grun_measure_le (fst (gstep s c)) l). lia.
    + rewrite (disabled_step_is_noop s c E). destruct (IH s) as [H|[H1 H2]]; [left; exact H|].
      right. split; [exact H1|]. intros c' [<-|Hc']; auto.
Qed.

Lemma quiet_stays s sch : (forall c, enabled s c = false) -> grun s sch = s.
Proof.
  intros H. induction sch as [|c sch IH]; cbn; [reflexivity|]. rewrite (disabled_step_is_noop s c (H c)). exact IH.
Qed.

Lemma rounds_of_quiesce n : forall s, (gmeasure s < n)%nat ->
  forall c, enabled (grun s (rounds_of (all_choices s) n)) c = false.
Proof.
  induction n as [|n IH]; intros s Hm c; [lia|]. cbn [rounds_of]. rewrite grun_app.
  destruct (run_round s (all_choices s)) as [Hlt|[He Hq]].
  - remember (grun s (all_choices s)) as s' eqn:Es.
    assert (Ea : all_choices s = all_choices s') by (rewrite Es; symmetry; apply grun_all_choices).
    rewrite Ea. apply IH. lia.
  - assert (Hall : forall c', enabled s c' = false).
    { intros c'. destruct (enabled s c') eqn:E; [|reflexivity].
      rewrite (Hq c' (enabled_in_all_choices s c' E)) in E. discriminate. }
    rewrite He, (quiet_stays s _ Hall). apply Hall.
Qed.

Lemma rounds_quiesce s : forall c, enabled (grun s (rounds s (S (gmeasure s)))) c = false.
Proof. unfold rounds. apply rounds_of_quiesce. lia. Qed.

(* any schedule, continued fairly (round-robin) for long enough, ends with the outcomes the property demands *)
Lemma fair_completion_outcomes st0 h sch i x : fresh st0 h -> distinct_prefixes h ->
  let s := grun (ginit st0 h) sch in
  nth_error (g_insts (grun s (rounds s (S (gmeasure s))))) i = Some x ->
  (no_fault x -> (forall r, (r < i_W x)%nat -> i_pcs x r = PDone) /\ ((0 < i_W x)%nat -> i_meta x = true)) /\
  (has_fault x -> (forall r, (r < i_W x)%nat -> i_pcs x r = PRaised) /\ i_meta x = false).
Proof.
  intros HF HD s Hx. subst s. rewrite <- grun_app in Hx.
  apply (complete_schedule_outcomes st0 h _ i x HF HD Hx).
  intros r. rewrite grun_app.
  pose proof (rounds_quiesce (grun (ginit st0 h) sch) (i, r)) as H. unfold enabled in H.
  destruct (snd (gstep _ (i, r))); [discriminate|reflexivity].
Qed.
