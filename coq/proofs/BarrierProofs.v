(* C13: proofs about the commit barrier model (coq/model/Barrier.v). *)
From TS Require Import model.Base model.Barrier.
From Coq Require Import Arith PeanoNat.

Arguments st_get : simpl never.
Arguments st_set : simpl never.
Arguments kz : simpl never.

(* ------------------------------------------------------------------ store *)
Lemma key_eqb_true a b : key_eqb a b = true <-> a = b.
Proof.
  destruct a as [a1 a2], b as [b1 b2]. unfold key_eqb. cbn [fst snd].
  rewrite andb_true_iff, !Z.eqb_eq. split.
  - intros [H1 H2]. subst. reflexivity.
  - intros H. inversion H. split; reflexivity.
Qed.

Lemma st_get_set st k v k' :
  st_get (st_set st k v) k' = if key_eqb k k' then Some v else st_get st k'.
Proof. reflexivity. Qed.

Definition KK (st : store) (x : inst) (r : nat) : option value := st_get st (kz x r).
Arguments KK : simpl never.

Lemma kz_eqb x x' r r' : i_prefix x' = i_prefix x -> key_eqb (kz x r) (kz x' r') = Nat.eqb r r'.
Proof.
  intros Hp. unfold key_eqb, kz. cbn [fst snd]. rewrite Hp, Z.eqb_refl. cbn [andb].
  destruct (Nat.eqb_spec r r') as [E|E].
  - subst. apply Z.eqb_refl.
  - apply Z.eqb_neq. lia.
Qed.

Lemma KK_set st x r v x' r' : i_prefix x' = i_prefix x ->
  KK (st_set st (kz x r) v) x' r' = if Nat.eqb r r' then Some v else KK st x' r'.
Proof. intros Hp. unfold KK. rewrite st_get_set, (kz_eqb x x' r r' Hp). reflexivity. Qed.

Lemma KK_other_prefix st x r v y r' : i_prefix y <> i_prefix x ->
  KK (st_set st (kz x r) v) y r' = KK st y r'.
Proof.
  intros Hp. unfold KK. rewrite st_get_set.
  destruct (key_eqb (kz x r) (kz y r')) eqn:E; [|reflexivity].
  apply key_eqb_true in E. unfold kz in E. inversion E. congruence.
Qed.

Lemma KK_prefix st x y r : i_prefix x = i_prefix y -> KK st x r = KK st y r.
Proof. intros H. unfold KK, kz. rewrite H. reflexivity. Qed.

Lemma st_has_true st x r : st_has st (kz x r) = true <-> KK st x r <> None.
Proof. unfold st_has, KK. destruct (st_get st (kz x r)); split; intros; congruence. Qed.

(* ------------------------------------------------------------------ faults, absences, timeouts *)
Definition io_fault (x : inst) : Prop := exists f, (f < i_W x)%nat /\ iofails x f = true.
Definition has_fault (x : inst) : Prop := io_fault x \/ i_metafail x = true.
Definition has_absent (x : inst) : Prop := exists a, (a < i_W x)%nat /\ absent x a = true.
Definition timed_out (x : inst) : Prop := exists r, (r < i_W x)%nat /\ i_tmo x r = true.
(* what can make a rank raise: a fault of the plan, or a timeout step *)
Definition cause (x : inst) : Prop := has_fault x \/ timed_out x.
(* what excludes the commit for ever: a fault of the plan, an absent rank, or a timeout of the LEADER (in arrive) *)
Definition global_cause (x : inst) : Prop := has_fault x \/ has_absent x \/ i_tmo x 0%nat = true.

Definition bad_pc (p : pc) : bool :=
  match p with PErrReport | PHandler | PRaised => true | _ => false end.
Definition raised_pc (p : pc) : bool :=
  match p with PHandler | PRaised => true | _ => false end.

(* ------------------------------------------------------------------ the invariant of one instance *)
Definition leader_ok (st : store) (x : inst) : Prop :=
  match i_pcs x 0%nat with
  | PIo => KK st x 0 = None /\ i_meta x = false
  | PArrive => KK st x 0 = None /\ i_meta x = false /\ i_iodone x 0%nat = true
  | PGet k => KK st x 0 = None /\ i_meta x = false /\ (1 <= k < i_W x)%nat /\
              (forall j, (j < k)%nat -> i_iodone x j = true) /\
              (forall j, (1 <= j < i_W x)%nat -> KK st x j <> None)
  | PErrReport => KK st x 0 = None /\ i_meta x = false
  | PMeta => KK st x 0 = None /\ i_meta x = false /\ (forall j, (j < i_W x)%nat -> i_iodone x j = true)
  | PDepart => KK st x 0 = None /\ i_meta x = true /\ i_metafail x = false /\
               (forall j, (j < i_W x)%nat -> i_iodone x j = true)
  | PDone => KK st x 0 = Some VOk /\ i_meta x = true /\ i_metafail x = false /\
             (forall j, (j < i_W x)%nat -> i_iodone x j = true)
  | PHandler => KK st x 0 <> Some VOk /\ i_meta x = false
  | PRaised => KK st x 0 = Some VErr /\ i_meta x = false
  | PAbsent => KK st x 0 = None /\ i_meta x = false
  | PDepartGet => False
  end.

Definition peer_ok_v (p : pc) (Kr K0 : option value) (d : bool) : Prop :=
  match p with
  | PIo => Kr = None /\ d = false
  | PArrive => Kr = None /\ d = true
  | PDepart => Kr = Some VOk /\ d = true
  | PDepartGet => Kr = Some VOk /\ d = true /\ K0 <> None
  | PHandler => (Kr = None /\ d = false) \/ (Kr = Some VOk /\ d = true)
  | PRaised => Kr = Some VErr
  | PDone => Kr = Some VOk /\ d = true /\ K0 = Some VOk
  | PAbsent => Kr = None /\ d = false
  | PGet _ | PErrReport | PMeta => False
  end.

Definition peer_ok (st : store) (x : inst) (r : nat) : Prop :=
  peer_ok_v (i_pcs x r) (KK st x r) (KK st x 0) (i_iodone x r).

Record Inv (st : store) (x : inst) : Prop := {
  inv_leader : leader_ok st x;
  inv_peer : forall r, (1 <= r < i_W x)%nat -> peer_ok st x r;
  inv_io : forall r, i_iodone x r = true -> iofails x r = false;
  inv_err_key : forall r, KK st x r = Some VErr -> cause x;
  inv_err_pc : forall r, (r < i_W x)%nat -> bad_pc (i_pcs x r) = true -> cause x;
  (* a rank is PAbsent exactly when the plan says so; an absent rank's I/O is never done *)
  inv_absent : forall r, (r < i_W x)%nat ->
     (i_pcs x r = PAbsent <-> absent x r = true) /\ (i_pcs x r = PAbsent -> i_iodone x r = false);
  (* a rank whose wait timed out is in the handler or has raised *)
  inv_tmo : forall r, i_tmo x r = true -> (r < i_W x)%nat /\ raised_pc (i_pcs x r) = true;
  (* why a PEER raises: its own timeout, or the leader has raised (the peer read the leader's error key), or
     its own I/O failed *)
  inv_peer_cause : forall r, (1 <= r < i_W x)%nat -> bad_pc (i_pcs x r) = true ->
     i_tmo x r = true \/ bad_pc (i_pcs x 0%nat) = true \/ (i_iodone x r = false /\ iofails x r = true) }.

(* the invariant reads the store only through the keys of its own prefix *)
Lemma Inv_ext st st' x : (forall r, KK st' x r = KK st x r) -> Inv st x -> Inv st' x.
Proof.
  intros E [HL HP HIO HK HPC HA HT HC]. split.
  - unfold leader_ok in *. destruct (i_pcs x 0%nat); rewrite ?E; try exact HL.
    destruct HL as (A & B & C & D & F). repeat split; try assumption; try lia.
    intros j Hj. rewrite E. exact (F j Hj).
  - intros r Hr. unfold peer_ok. rewrite !E. exact (HP r Hr).
  - exact HIO.
  - intros r. rewrite E. exact (HK r).
  - exact HPC.
  - exact HA.
  - exact HT.
  - exact HC.
Qed.

Lemma Inv_init st sp : (forall r, st_get st (sp_prefix sp, r) = None) -> Inv st (mk_inst sp).
Proof.
  intros F. assert (FK : forall r, KK st (mk_inst sp) r = None) by (intros r; apply F).
  split.
  - unfold leader_ok. cbn [i_pcs mk_inst i_meta]. destruct (existsb (Nat.eqb 0) (sp_absent sp)); (split; [apply FK|reflexivity]).
  - intros r _. unfold peer_ok. cbn [i_pcs mk_inst i_iodone]. rewrite FK.
    destruct (existsb (Nat.eqb r) (sp_absent sp)); cbn; auto.
  - cbn. discriminate.
  - intros r. rewrite FK. discriminate.
  - intros r _. cbn [i_pcs mk_inst]. destruct (existsb (Nat.eqb r) (sp_absent sp)); discriminate.
  - intros r _. unfold absent. cbn [i_pcs mk_inst i_absent i_iodone].
    destruct (existsb (Nat.eqb r) (sp_absent sp)); repeat split; auto; discriminate.
  - cbn. discriminate.
  - intros r _. cbn [i_pcs mk_inst]. destruct (existsb (Nat.eqb r) (sp_absent sp)); discriminate.
Qed.

(* ------------------------------------------------------------------ frame facts about one step *)
Lemma istep_frame st x r st' x' o : istep st x r = Some (st', x', o) ->
  i_prefix x' = i_prefix x /\ i_W x' = i_W x /\ i_iofail x' = i_iofail x /\ i_metafail x' = i_metafail x /\
  (r < i_W x)%nat /\
  (forall y q, i_prefix y <> i_prefix x -> KK st' y q = KK st y q).
Proof.
  unfold istep. destruct (r <? i_W x)%nat eqn:Hr; cbn [negb]; [|discriminate].
  apply Nat.ltb_lt in Hr.
  destruct (i_pcs x r) eqn:Hpc.
  all: repeat match goal with
       | |- context [if ?c then _ else _] => destruct c eqn:?
       | |- context [match st_get ?a ?b with _ => _ end] => destruct (st_get a b) as [[|]|]
       end.
  all: intros H; inversion H; subst; clear H.
  all: repeat split; try reflexivity; try assumption; try (cbn; assumption).
  all: intros y q Hy; try reflexivity; apply KK_other_prefix; assumption.
Qed.

Lemma istep_frame2 st x r st' x' o : istep st x r = Some (st', x', o) ->
  i_absent x' = i_absent x /\ i_tmo x' = i_tmo x.
Proof.
  unfold istep. destruct (r <? i_W x)%nat eqn:Hr; cbn [negb]; [|discriminate].
  destruct (i_pcs x r) eqn:Hpc.
  all: repeat match goal with
       | |- context [if ?c then _ else _] => destruct c eqn:?
       | |- context [match st_get ?a ?b with _ => _ end] => destruct (st_get a b) as [[|]|]
       end.
  all: intros H; inversion H; subst; clear H.
  all: split; reflexivity.
Qed.

(* a timeout step: who, where, and what it does *)
Lemma itimeout_spec st x r st' x' o : itimeout st x r = Some (st', x', o) ->
  (r < i_W x)%nat /\ st' = st /\ x' = set_tmo (set_pc x r PHandler) r /\
  ((r = 0%nat /\ i_pcs x r = PArrive /\ o = OTimeout (i_prefix x) (peers (i_W x))) \/
   (r <> 0%nat /\ i_pcs x r = PDepart /\ o = OTimeout (i_prefix x) [0%nat])).
Proof.
  unfold itimeout. destruct (r <? i_W x)%nat eqn:Hr; cbn [negb]; [|discriminate].
  apply Nat.ltb_lt in Hr.
  destruct (i_pcs x r) eqn:Hpc; try discriminate.
  all: destruct (Nat.eqb_spec r 0); try discriminate.
  all: intros H; inversion H; subst; clear H; repeat split; auto.
Qed.

Lemma itimeout_frame st x r st' x' o : itimeout st x r = Some (st', x', o) ->
  i_prefix x' = i_prefix x /\ i_W x' = i_W x /\ i_iofail x' = i_iofail x /\ i_metafail x' = i_metafail x /\
  (r < i_W x)%nat /\
  (forall y q, i_prefix y <> i_prefix x -> KK st' y q = KK st y q).
Proof.
  intros H. destruct (itimeout_spec _ _ _ _ _ _ H) as (Hr & -> & -> & _).
  repeat split; auto.
Qed.

Lemma iact_frame k st x r st' x' o : iact k st x r = Some (st', x', o) ->
  i_prefix x' = i_prefix x /\ i_W x' = i_W x /\ i_iofail x' = i_iofail x /\ i_metafail x' = i_metafail x /\
  (r < i_W x)%nat /\
  (forall y q, i_prefix y <> i_prefix x -> KK st' y q = KK st y q).
Proof. destruct k; [apply istep_frame|apply itimeout_frame]. Qed.

Lemma iact_absent k st x r st' x' o : iact k st x r = Some (st', x', o) -> i_absent x' = i_absent x.
Proof.
  destruct k; cbn [iact]; intros H.
  - exact (proj1 (istep_frame2 _ _ _ _ _ _ H)).
  - destruct (itimeout_spec _ _ _ _ _ _ H) as (_ & _ & -> & _). reflexivity.
Qed.

Lemma iofails_frame x x' r : i_iofail x' = i_iofail x -> iofails x' r = iofails x r.
Proof. unfold iofails. intros ->. reflexivity. Qed.

Lemma absent_frame x x' r : i_absent x' = i_absent x -> absent x' r = absent x r.
Proof. unfold absent. intros ->. reflexivity. Qed.

Lemma has_fault_frame x x' : i_W x' = i_W x -> i_iofail x' = i_iofail x -> i_metafail x' = i_metafail x ->
  has_fault x -> has_fault x'.
Proof.
  intros HW HF HM [[f [Hf1 Hf2]]|H].
  - left. exists f. rewrite HW. split; [assumption|]. rewrite (iofails_frame x x' f HF). assumption.
  - right. congruence.
Qed.

Lemma timed_out_mono x x' : i_W x' = i_W x -> (forall q, i_tmo x q = true -> i_tmo x' q = true) ->
  timed_out x -> timed_out x'.
Proof. intros HW HT [q [Hq1 Hq2]]. exists q. rewrite HW. auto. Qed.

Lemma cause_frame x x' : i_W x' = i_W x -> i_iofail x' = i_iofail x -> i_metafail x' = i_metafail x ->
  (forall q, i_tmo x q = true -> i_tmo x' q = true) -> cause x -> cause x'.
Proof.
  intros HW HF HM HT [H|H]; [left; apply (has_fault_frame x x'); assumption|right; apply (timed_out_mono x x'); assumption].
Qed.

(* ------------------------------------------------------------------ preservation of the invariant by one step *)
Ltac istep_cases Hs :=
  repeat match type of Hs with
  | context [if ?c then _ else _] => destruct c eqn:?
  | context [match st_get ?a ?b with _ => _ end] => destruct (st_get a b) as [[|]|] eqn:?
  end;
  try discriminate Hs; inversion Hs; subst; clear Hs.

Lemma peer_ok_v_K0 p Kr K0 K0' d :
  K0 <> Some VOk -> K0' <> None -> peer_ok_v p Kr K0 d -> peer_ok_v p Kr K0' d.
Proof. destruct p; cbn; intuition congruence. Qed.

Lemma leader_ok_mono st x st' x' :
  i_pcs x' 0%nat = i_pcs x 0%nat -> i_meta x' = i_meta x -> i_metafail x' = i_metafail x -> i_W x' = i_W x ->
  KK st' x' 0 = KK st x 0 ->
  (forall j, i_iodone x j = true -> i_iodone x' j = true) ->
  (forall j, KK st x j <> None -> KK st' x' j <> None) ->
  leader_ok st x -> leader_ok st' x'.
Proof.
  intros Hpc Hm Hmf HW HK0 Hio HK. unfold leader_ok. rewrite Hpc, Hm, Hmf, HW, HK0.
  destruct (i_pcs x 0%nat); try tauto.
  all: intros H; decompose [and] H; clear H; repeat split; auto; try lia.
Qed.

Lemma cause_io x r : (r < i_W x)%nat -> iofails x r = true -> cause x.
Proof. intros H1 H2. left. left. exists r. split; assumption. Qed.

(* the parts of the invariant that do not distinguish leader and peers *)
Lemma istep_inv_misc st x r st' x' o : Inv st x -> istep st x r = Some (st', x', o) ->
  (forall q, i_iodone x' q = true -> iofails x' q = false) /\
  (forall q, KK st' x' q = Some VErr -> cause x') /\
  (forall q, (q < i_W x')%nat -> bad_pc (i_pcs x' q) = true -> cause x').
Proof.
  intros [HL HP HIO HK HPC _ _ _] Hs.
  pose proof (istep_frame _ _ _ _ _ _ Hs) as (Fp & FW & FF & FM & Hr & _).
  pose proof (istep_frame2 _ _ _ _ _ _ Hs) as (_ & FT).
  assert (HF : cause x -> cause x') by (apply cause_frame; try assumption; rewrite FT; auto).
  assert (HKx : forall s q, KK s x' q = KK s x q) by (intros s q; apply KK_prefix; assumption).
  unfold istep in Hs. destruct (r <? i_W x)%nat eqn:E; cbn [negb] in Hs; [|discriminate]. clear E.
  destruct (i_pcs x r) eqn:Hpc; istep_cases Hs.
  all: split; [|split].
  (* io *)
  all: try (intros q; unfold iofails; cbn [i_iodone i_iofail set_pc set_iodone set_meta]; fold (iofails x q);
            try (destruct (Nat.eqb_spec q r); [subst; intros _; assumption|]); apply HIO).
  (* error keys *)
  all: try (intros q; rewrite HKx; try rewrite (KK_set st x _ _ x q eq_refl);
            try (destruct (Nat.eqb q _); [discriminate|]); intros Hq; apply HF; exact (HK q Hq)).
  (* error keys after a set *)
  all: try (intros q; rewrite HKx, (KK_set st x _ _ x q eq_refl); destruct (Nat.eqb _ q);
            [first [discriminate | intros _; apply HF, (HPC r Hr); rewrite Hpc; reflexivity]
            |intros Hq; apply HF; exact (HK q Hq)]).
  (* error pcs *)
  all: intros q Hq; cbn [i_pcs set_pc set_iodone set_meta]; destruct (Nat.eqb_spec q r);
       [subst q; intros Hb;
        first [ discriminate Hb
              | apply HF, (cause_io x r Hr); assumption
              | apply HF, (HPC r Hr); rewrite Hpc; reflexivity
              | apply HF; left; right; assumption
              | apply HF; eapply HK; unfold KK; eassumption ]
       |intros Hb; apply HF, (HPC q); [rewrite <- FW; exact Hq|exact Hb]].
Qed.

Lemma all_present_true st x : all_present st x (peers (i_W x)) = true ->
  forall j, (1 <= j < i_W x)%nat -> KK st x j <> None.
Proof.
  unfold all_present, peers. rewrite forallb_forall. intros H j Hj.
  apply st_has_true. apply H. apply in_seq. lia.
Qed.

Lemma peer_ok_v_iodone p K0 d : peer_ok_v p (Some VOk) K0 d -> d = true.
Proof. destruct p; cbn; intuition congruence. Qed.

(* leader step, leader clause *)
Lemma leader_step_leader st x st' x' o : Inv st x -> istep st x 0 = Some (st', x', o) -> leader_ok st' x'.
Proof.
  intros [HL HP HIO HK HPC _ _ _] Hs.
  pose proof (istep_frame _ _ _ _ _ _ Hs) as (Fp & FW & FF & FM & Hr & _).
  assert (HKx : forall s q, KK s x' q = KK s x q) by (intros s q; apply KK_prefix; assumption).
  unfold istep in Hs. destruct (0 <? i_W x)%nat eqn:E; cbn [negb] in Hs; [|discriminate]. clear E.
  cbn [Nat.eqb] in Hs.
  assert (Hget : forall k, (1 <= k < i_W x)%nat -> st_get st (kz x k) = Some VOk -> i_iodone x k = true).
  { intros k Hk Hg. specialize (HP k Hk). unfold peer_ok in HP. unfold KK in HP at 1. rewrite Hg in HP.
    exact (peer_ok_v_iodone _ _ _ HP). }
  unfold leader_ok in HL.
  destruct (i_pcs x 0%nat) eqn:Hpc; istep_cases Hs; try contradiction.
  all: unfold leader_ok; rewrite ?HKx; try rewrite (KK_set st x _ _ x 0%nat eq_refl);
       cbn [i_pcs i_meta i_metafail i_W i_iodone set_pc set_iodone set_meta Nat.eqb].
  all: try (decompose [and] HL; clear HL).
  all: try match goal with H : (_ <? _)%nat = true |- _ => apply Nat.ltb_lt in H end.
  all: try match goal with H : (_ <? _)%nat = false |- _ => apply Nat.ltb_ge in H end.
  all: try match goal with H : all_present _ _ _ = true |- _ => pose proof (all_present_true _ _ H) end.
  all: repeat split; auto; try congruence; try lia.
  all: try (intros j Hj; assert (j = 0)%nat by lia; subst; assumption).
  all: try (intros j Hj; rewrite HKx; auto; fail).
  all: match goal with D : forall j, (j < ?k)%nat -> _ |- forall j, _ -> _ =>
         intros j Hj; destruct (Nat.eq_dec j k); [subst; apply Hget; [lia|assumption]|apply D; lia] end.
Qed.

(* leader step, peer clause *)
Lemma leader_step_peer st x st' x' o r : Inv st x -> istep st x 0 = Some (st', x', o) ->
  (1 <= r < i_W x)%nat -> peer_ok st' x' r.
Proof.
  intros [HL HP HIO HK HPC _ _ _] Hs Hr1.
  pose proof (istep_frame _ _ _ _ _ _ Hs) as (Fp & FW & FF & FM & Hr & _).
  assert (HKx : forall s q, KK s x' q = KK s x q) by (intros s q; apply KK_prefix; assumption).
  specialize (HP r Hr1). unfold peer_ok in *.
  destruct r as [|n]; [lia|].
  unfold istep in Hs. destruct (0 <? i_W x)%nat eqn:E; cbn [negb] in Hs; [|discriminate]. clear E.
  cbn [Nat.eqb] in Hs.
  unfold leader_ok in HL.
  destruct (i_pcs x 0%nat) eqn:Hpc; istep_cases Hs; try contradiction.
  all: rewrite ?HKx; try rewrite !(KK_set _ x _ _ x _ eq_refl);
       cbn [i_pcs i_iodone set_pc set_iodone set_meta Nat.eqb]; try exact HP.
  all: refine (peer_ok_v_K0 _ _ _ _ _ _ _ HP); intuition congruence.
Qed.

(* peer step, leader clause *)
Lemma peer_step_leader st x st' x' o n : Inv st x -> istep st x (S n) = Some (st', x', o) -> leader_ok st' x'.
Proof.
  intros [HL HP HIO HK HPC _ _ _] Hs.
  pose proof (istep_frame _ _ _ _ _ _ Hs) as (Fp & FW & FF & FM & Hr & _).
  assert (HKx : forall s q, KK s x' q = KK s x q) by (intros s q; apply KK_prefix; assumption).
  assert (HPr := HP (S n) ltac:(lia)). unfold peer_ok in HPr.
  unfold istep in Hs. destruct (S n <? i_W x)%nat eqn:E; cbn [negb] in Hs; [|discriminate]. clear E.
  cbn [Nat.eqb] in Hs.
  destruct (i_pcs x (S n)) eqn:Hpc; istep_cases Hs; try contradiction.
  all: refine (leader_ok_mono _ x _ _ _ _ _ _ _ _ _ HL); try reflexivity.
  all: try (rewrite HKx; try rewrite (KK_set _ x _ _ x _ eq_refl); reflexivity).
  all: try (intros j; cbn [i_iodone set_pc set_iodone set_meta]; try destruct (Nat.eqb j (S n)); auto; fail).
  all: intros j; rewrite HKx; try rewrite (KK_set _ x _ _ x _ eq_refl); try destruct (Nat.eqb _ j); auto; discriminate.
Qed.

Lemma eqb_0S n : Nat.eqb 0 (S n) = false. Proof. reflexivity. Qed.
Lemma eqb_S0 n : Nat.eqb (S n) 0 = false. Proof. reflexivity. Qed.

(* peer step, peer clause *)
Lemma peer_step_peer st x st' x' o n r : Inv st x -> istep st x (S n) = Some (st', x', o) ->
  (1 <= r < i_W x)%nat -> peer_ok st' x' r.
Proof.
  intros [HL HP HIO HK HPC _ _ _] Hs Hr1.
  pose proof (istep_frame _ _ _ _ _ _ Hs) as (Fp & FW & FF & FM & Hr & _).
  assert (HKx : forall s q, KK s x' q = KK s x q) by (intros s q; apply KK_prefix; assumption).
  assert (HPr := HP (S n) ltac:(lia)). specialize (HP r Hr1). unfold peer_ok in *.
  unfold istep in Hs. destruct (S n <? i_W x)%nat eqn:E; cbn [negb] in Hs; [|discriminate]. clear E.
  cbn [Nat.eqb] in Hs.
  destruct (i_pcs x (S n)) eqn:Hpc; istep_cases Hs; try contradiction.
  all: rewrite ?HKx; try rewrite !(KK_set _ x _ _ x _ eq_refl); rewrite ?eqb_S0;
       cbn [i_pcs i_iodone set_pc set_iodone set_meta].
  all: destruct (Nat.eqb_spec r (S n)) as [Er|Er]; [subst r; rewrite ?Nat.eqb_refl|
         try (destruct (Nat.eqb_spec (S n) r); [congruence|]); exact HP].
  all: try match goal with H : st_has _ _ = true |- _ => apply st_has_true in H end.
  all: unfold KK in *; cbn [peer_ok_v] in *; intuition congruence.
Qed.

Lemma eqb_0S_gen r : (1 <= r)%nat -> Nat.eqb 0 r = false.
Proof. intros H. apply Nat.eqb_neq. lia. Qed.

(* ------------------------------------------------------------------ the clauses about absence, timeouts and the
   reason why a peer raises *)
Lemma istep_shape st x r st' x' o : istep st x r = Some (st', x', o) ->
  (forall q, q <> r -> i_pcs x' q = i_pcs x q) /\
  i_pcs x r <> PAbsent /\ i_pcs x' r <> PAbsent /\
  (bad_pc (i_pcs x r) = true -> bad_pc (i_pcs x' r) = true) /\
  (raised_pc (i_pcs x r) = true -> raised_pc (i_pcs x' r) = true) /\
  (forall q, q <> r -> i_iodone x' q = i_iodone x q) /\
  (i_pcs x r <> PIo -> i_iodone x' r = i_iodone x r).
Proof.
  intros Hs. unfold istep in Hs. destruct (r <? i_W x)%nat eqn:E; cbn [negb] in Hs; [|discriminate]. clear E.
  destruct (i_pcs x r) eqn:Hpc; istep_cases Hs.
  all: cbn [i_pcs i_iodone set_pc set_iodone set_meta]; rewrite ?Nat.eqb_refl.
  all: repeat split; try discriminate; try congruence; try reflexivity.
  all: try (intros q Hq; destruct (Nat.eqb_spec q r); [contradiction|reflexivity]).
  all: try (destruct (_ <? _)%nat; discriminate).
Qed.

Lemma leader_key_err_bad st x : leader_ok st x -> KK st x 0 = Some VErr -> bad_pc (i_pcs x 0%nat) = true.
Proof.
  unfold leader_ok. intros HL HK. rewrite HK in HL.
  destruct (i_pcs x 0%nat); try reflexivity; try (decompose [and] HL; congruence); tauto.
Qed.

Lemma istep_inv_new st x r st' x' o : Inv st x -> istep st x r = Some (st', x', o) ->
  (forall q, (q < i_W x')%nat ->
     (i_pcs x' q = PAbsent <-> absent x' q = true) /\ (i_pcs x' q = PAbsent -> i_iodone x' q = false)) /\
  (forall q, i_tmo x' q = true -> (q < i_W x')%nat /\ raised_pc (i_pcs x' q) = true) /\
  (forall q, (1 <= q < i_W x')%nat -> bad_pc (i_pcs x' q) = true ->
     i_tmo x' q = true \/ bad_pc (i_pcs x' 0%nat) = true \/ (i_iodone x' q = false /\ iofails x' q = true)).
Proof.
  intros [HL HP HIO HK HPC HA HT HC] Hs.
  pose proof (istep_frame _ _ _ _ _ _ Hs) as (Fp & FW & FF & FM & Hr & _).
  pose proof (istep_frame2 _ _ _ _ _ _ Hs) as (FA & FT).
  destruct (istep_shape _ _ _ _ _ _ Hs) as (Soth & Snab & Snab' & Sbad & Srai & Sio & Sio').
  rewrite FW, FT. split; [|split].
  - intros q Hq. rewrite (absent_frame x x' q FA). destruct (HA q Hq) as [A1 A2].
    destruct (Nat.eq_dec q r) as [->|Hqr].
    + split; [split; [intros H; contradiction|intros H; apply A1 in H; contradiction]|intros H; contradiction].
    + rewrite (Soth q Hqr), (Sio q Hqr). split; assumption.
  - intros q Hq. destruct (HT q Hq) as [T1 T2]. split; [exact T1|].
    destruct (Nat.eq_dec q r) as [->|Hqr]; [apply Srai; exact T2|rewrite (Soth q Hqr); exact T2].
  - intros q Hq Hb. rewrite (iofails_frame x x' q FF).
    assert (B0 : bad_pc (i_pcs x 0%nat) = true -> bad_pc (i_pcs x' 0%nat) = true).
    { destruct (Nat.eq_dec 0 r) as [<-|H0r]; [exact Sbad|rewrite (Soth 0%nat H0r); auto]. }
    destruct (Nat.eq_dec q r) as [->|Hqr].
    2:{ rewrite (Soth q Hqr) in Hb. rewrite (Sio q Hqr).
        destruct (HC q Hq Hb) as [H|[H|H]]; auto. }
    (* the peer r itself *)
    destruct (bad_pc (i_pcs x r)) eqn:Hbo.
    { (* it was already in the error path *)
      assert (Hn : i_pcs x r <> PIo) by (intros E; rewrite E in Hbo; discriminate).
      rewrite (Sio' Hn). destruct (HC r Hq Hbo) as [H|[H|H]]; auto. }
    (* it enters the error path with this step *)
    assert (HPr := HP r Hq). unfold peer_ok in HPr.
    assert (Hr0 : Nat.eqb r 0 = false) by (apply Nat.eqb_neq; lia).
    unfold istep in Hs. destruct (r <? i_W x)%nat eqn:E; cbn [negb] in Hs; [|discriminate]. clear E.
    rewrite Hr0 in Hs.
    destruct (i_pcs x r) eqn:Hpc; cbn [peer_ok_v bad_pc] in *; try contradiction; try discriminate.
    + (* PIo *) destruct (iofails x r) eqn:Hio.
      * inversion Hs; subst. right; right. cbn [i_iodone set_pc]. split; [tauto|reflexivity].
      * inversion Hs; subst. cbn [i_pcs set_pc set_iodone] in Hb. rewrite Nat.eqb_refl in Hb. discriminate.
    + (* PArrive *) inversion Hs; subst. cbn [i_pcs set_pc] in Hb. rewrite Nat.eqb_refl in Hb. discriminate.
    + (* PDepart *) destruct (st_has st (kz x 0)); [|discriminate]. inversion Hs; subst.
      cbn [i_pcs set_pc] in Hb. rewrite Nat.eqb_refl in Hb. discriminate.
    + (* PDepartGet *) destruct (st_get st (kz x 0)) as [[|]|] eqn:Hg; [| |discriminate].
      * inversion Hs; subst. cbn [i_pcs set_pc] in Hb. rewrite Nat.eqb_refl in Hb. discriminate.
      * inversion Hs; subst. right; left. cbn [i_pcs set_pc]. rewrite (eqb_0S_gen r) by lia.
        apply (leader_key_err_bad _ x HL). exact Hg.
Qed.

(* ------------------------------------------------------------------ the timeout step preserves the invariant *)
Lemma itimeout_inv st x r st' x' o : Inv st x -> itimeout st x r = Some (st', x', o) -> Inv st' x'.
Proof.
  intros [HL HP HIO HK HPC HA HT HC] Hs.
  destruct (itimeout_spec _ _ _ _ _ _ Hs) as (Hr & -> & -> & Hsite).
  assert (HKx : forall q, KK st (set_tmo (set_pc x r PHandler) r) q = KK st x q) by (intros q; apply KK_prefix; reflexivity).
  assert (HF : cause x -> cause (set_tmo (set_pc x r PHandler) r)).
  { apply cause_frame; try reflexivity. intros q Hq. cbn [i_tmo set_tmo set_pc]. destruct (Nat.eqb q r); auto. }
  assert (Hnew : cause (set_tmo (set_pc x r PHandler) r)).
  { right. exists r. split; [exact Hr|]. cbn [i_tmo set_tmo]. rewrite Nat.eqb_refl. reflexivity. }
  split.
  - (* leader *)
    unfold leader_ok in *. rewrite !HKx. cbn [i_pcs i_meta i_metafail i_W i_iodone set_tmo set_pc].
    destruct Hsite as [(-> & Hpc & _)|(Hr0 & Hpc & _)].
    + rewrite Hpc in HL. cbn [Nat.eqb]. destruct HL as (A & B & _). split; [congruence|exact B].
    + rewrite (proj2 (Nat.eqb_neq 0 r) (fun E => Hr0 (eq_sym E))).
      destruct (i_pcs x 0%nat); try exact HL.
  - (* peers *)
    intros q Hq. cbn [i_W set_tmo set_pc] in Hq. specialize (HP q Hq). unfold peer_ok in *. rewrite !HKx.
    cbn [i_pcs i_iodone set_tmo set_pc]. destruct (Nat.eqb_spec q r) as [->|Hqr]; [|exact HP].
    destruct Hsite as [(-> & _)|(_ & Hpc & _)]; [lia|]. rewrite Hpc in HP. cbn [peer_ok_v] in *. right. exact HP.
  - exact HIO.
  - intros q. rewrite HKx. intros Hq. apply HF. exact (HK q Hq).
  - intros q Hq. cbn [i_pcs i_W set_tmo set_pc] in *. destruct (Nat.eqb q r); [intros _; exact Hnew|].
    intros Hb. apply HF. exact (HPC q Hq Hb).
  - intros q Hq. cbn [i_pcs i_W i_iodone set_tmo set_pc] in *.
    change (absent (set_tmo (set_pc x r PHandler) r) q) with (absent x q).
    destruct (HA q Hq) as [A1 A2]. destruct (Nat.eqb_spec q r) as [->|Hqr]; [|split; assumption].
    split; [split; [discriminate|]|discriminate].
    intros Hab. apply A1 in Hab. destruct Hsite as [(_ & Hpc & _)|(_ & Hpc & _)]; congruence.
  - intros q. cbn [i_pcs i_W i_tmo set_tmo set_pc]. destruct (Nat.eqb_spec q r) as [->|Hqr].
    + intros _. split; [exact Hr|reflexivity].
    + exact (HT q).
  - intros q Hq. cbn [i_pcs i_W i_tmo i_iodone set_tmo set_pc] in *.
    change (iofails (set_tmo (set_pc x r PHandler) r) q) with (iofails x q).
    destruct (Nat.eqb_spec q r) as [->|Hqr]; [intros _; left; reflexivity|].
    intros Hb. destruct (HC q Hq Hb) as [H|[H|H]]; auto.
    right; left. destruct (Nat.eqb 0 r); [reflexivity|exact H].
Qed.

Lemma istep_inv st x r st' x' o : Inv st x -> istep st x r = Some (st', x', o) -> Inv st' x'.
Proof.
  intros HI Hs.
  pose proof (istep_frame _ _ _ _ _ _ Hs) as (Fp & FW & FF & FM & Hr & _).
  destruct (istep_inv_misc _ _ _ _ _ _ HI Hs) as (A & B & C).
  destruct (istep_inv_new _ _ _ _ _ _ HI Hs) as (D & E & F).
  split; auto.
  - destruct r; [eapply leader_step_leader|eapply peer_step_leader]; eauto.
  - intros q Hq. rewrite FW in Hq.
    destruct r; [eapply leader_step_peer|eapply peer_step_peer]; eauto.
Qed.

Lemma iact_inv k st x r st' x' o : Inv st x -> iact k st x r = Some (st', x', o) -> Inv st' x'.
Proof. destruct k; [apply istep_inv|apply itimeout_inv]. Qed.

(* ------------------------------------------------------------------ what the invariant says in one state *)
Lemma inv_commit st x : Inv st x -> i_meta x = true ->
  forall r, (r < i_W x)%nat -> i_iodone x r = true /\ iofails x r = false.
Proof.
  intros HI Hm. pose proof (inv_leader _ _ HI) as HL. pose proof (inv_io _ _ HI) as HIO.
  assert (H : forall j, (j < i_W x)%nat -> i_iodone x j = true).
  { unfold leader_ok in HL. destruct (i_pcs x 0%nat); try (decompose [and] HL; congruence); tauto. }
  intros r Hr. split; [|apply HIO]; apply H; exact Hr.
Qed.

Lemma inv_meta_leader_pc st x : Inv st x -> i_meta x = true -> i_pcs x 0%nat = PDepart \/ i_pcs x 0%nat = PDone.
Proof.
  intros HI Hm. pose proof (inv_leader _ _ HI) as HL. unfold leader_ok in HL.
  destruct (i_pcs x 0%nat); try (decompose [and] HL; congruence); tauto.
Qed.

Lemma inv_leader_key_ok st x : Inv st x -> KK st x 0 = Some VOk -> i_pcs x 0%nat = PDone /\ i_meta x = true.
Proof.
  intros HI HK. pose proof (inv_leader _ _ HI) as HL. unfold leader_ok in HL. rewrite HK in HL.
  destruct (i_pcs x 0%nat); try (decompose [and] HL; congruence); try tauto.
Qed.

Lemma inv_done_meta st x r : Inv st x -> (r < i_W x)%nat -> i_pcs x r = PDone -> i_meta x = true.
Proof.
  intros HI Hr Hpc. destruct r as [|n].
  - pose proof (inv_leader _ _ HI) as HL. unfold leader_ok in HL. rewrite Hpc in HL. tauto.
  - pose proof (inv_peer _ _ HI (S n) ltac:(lia)) as HP. unfold peer_ok in HP. rewrite Hpc in HP.
    cbn [peer_ok_v] in HP. destruct HP as (_ & _ & HK). exact (proj2 (inv_leader_key_ok _ _ HI HK)).
Qed.

Lemma inv_meta_no_fault st x : Inv st x -> i_meta x = true -> ~ has_fault x.
Proof.
  intros HI Hm [[f [Hf1 Hf2]]|Hmf].
  - destruct (inv_commit _ _ HI Hm f Hf1) as [_ H]. congruence.
  - pose proof (inv_leader _ _ HI) as HL. unfold leader_ok in HL.
    destruct (i_pcs x 0%nat); try (decompose [and] HL; congruence); tauto.
Qed.

Lemma inv_meta_no_absent st x : Inv st x -> i_meta x = true -> ~ has_absent x.
Proof.
  intros HI Hm [a [Ha1 Ha2]]. destruct (inv_absent _ _ HI a Ha1) as [A1 A2].
  apply A1 in Ha2. apply A2 in Ha2. destruct (inv_commit _ _ HI Hm a Ha1) as [H _]. congruence.
Qed.

Lemma inv_meta_leader_no_timeout st x : Inv st x -> i_meta x = true -> i_tmo x 0%nat = false.
Proof.
  intros HI Hm. destruct (i_tmo x 0%nat) eqn:E; [|reflexivity].
  destruct (inv_tmo _ _ HI 0%nat E) as [_ H]. destruct (inv_meta_leader_pc _ _ HI Hm) as [P|P]; rewrite P in H; discriminate.
Qed.

Lemma inv_meta_no_global_cause st x : Inv st x -> i_meta x = true -> ~ global_cause x.
Proof.
  intros HI Hm [H|[H|H]].
  - exact (inv_meta_no_fault _ _ HI Hm H).
  - exact (inv_meta_no_absent _ _ HI Hm H).
  - rewrite (inv_meta_leader_no_timeout _ _ HI Hm) in H. discriminate.
Qed.

Lemma inv_global_no_meta st x : Inv st x -> global_cause x -> i_meta x = false.
Proof.
  intros HI HG. destruct (i_meta x) eqn:E; [|reflexivity]. destruct (inv_meta_no_global_cause _ _ HI E HG).
Qed.

Lemma inv_global_no_done st x : Inv st x -> global_cause x -> forall r, (r < i_W x)%nat -> i_pcs x r <> PDone.
Proof.
  intros HI HG r Hr Hpc. exact (inv_meta_no_global_cause _ _ HI (inv_done_meta _ _ _ HI Hr Hpc) HG).
Qed.

Lemma inv_nocause_no_raise st x : Inv st x -> ~ cause x -> forall r, (r < i_W x)%nat -> bad_pc (i_pcs x r) = false.
Proof.
  intros HI HF r Hr. destruct (bad_pc (i_pcs x r)) eqn:E; [|reflexivity].
  destruct (HF (inv_err_pc _ _ HI r Hr E)).
Qed.

(* after the commit the only way to raise is a peer's own timeout in depart *)
Lemma inv_after_commit st x : Inv st x -> i_meta x = true ->
  forall r, (r < i_W x)%nat -> bad_pc (i_pcs x r) = true -> r <> 0%nat /\ i_tmo x r = true.
Proof.
  intros HI Hm r Hr Hb.
  assert (H0 : bad_pc (i_pcs x 0%nat) = false).
  { destruct (inv_meta_leader_pc _ _ HI Hm) as [P|P]; rewrite P; reflexivity. }
  destruct r as [|n]; [congruence|]. split; [discriminate|].
  destruct (inv_peer_cause _ _ HI (S n) ltac:(lia) Hb) as [H|[H|[H _]]]; [exact H|congruence|].
  destruct (inv_commit _ _ HI Hm (S n) Hr) as [H' _]. congruence.
Qed.

(* a rank that timed out never succeeds; once it has run its handler its error key is set *)
Lemma inv_timed_out_rank st x r : Inv st x -> i_tmo x r = true ->
  (r < i_W x)%nat /\ (i_pcs x r = PHandler \/ i_pcs x r = PRaised) /\ (i_pcs x r = PRaised -> KK st x r = Some VErr).
Proof.
  intros HI Ht. destruct (inv_tmo _ _ HI r Ht) as [Hr Hp]. split; [exact Hr|]. split.
  - destruct (i_pcs x r); try discriminate; auto.
  - intros Hpc. destruct r as [|n].
    + pose proof (inv_leader _ _ HI) as HL. unfold leader_ok in HL. rewrite Hpc in HL. tauto.
    + pose proof (inv_peer _ _ HI (S n) ltac:(lia)) as HP. unfold peer_ok in HP. rewrite Hpc in HP. exact HP.
Qed.

(* the LEADER absent: nobody ever writes the leader's key, so no error text reaches anybody: every rank that
   raises does so through its own timeout or because its own I/O failed *)
Lemma inv_absent_leader st x : Inv st x -> (0 < i_W x)%nat -> absent x 0 = true ->
  forall r, (r < i_W x)%nat -> bad_pc (i_pcs x r) = true -> i_tmo x r = true \/ iofails x r = true.
Proof.
  intros HI HW Ha r Hr Hb. destruct (inv_absent _ _ HI 0%nat HW) as [A1 _]. apply A1 in Ha.
  destruct r as [|n]; [rewrite Ha in Hb; discriminate|].
  destruct (inv_peer_cause _ _ HI (S n) ltac:(lia) Hb) as [H|[H|[_ H]]]; auto.
  rewrite Ha in H. discriminate.
Qed.

(* ------------------------------------------------------------------ deadlock freedom of one instance *)
Lemma all_present_false st x : all_present st x (peers (i_W x)) = false ->
  exists j, (1 <= j < i_W x)%nat /\ KK st x j = None.
Proof.
  unfold all_present, peers. intros H.
  assert (E : existsb (fun r => negb (st_has st (kz x r))) (seq 1 (i_W x - 1)) = true).
  { clear -H. induction (seq 1 (i_W x - 1)) as [|a l IH]; cbn in *; [discriminate|].
    destruct (st_has st (kz x a)); cbn in *; auto. }
  apply existsb_exists in E. destruct E as [j [Hj1 Hj2]]. apply in_seq in Hj1.
  exists j. split; [lia|]. unfold st_has in Hj2. unfold KK. destruct (st_get st (kz x j)); [discriminate|reflexivity].
Qed.

Lemma istep_unfold st x q : (q < i_W x)%nat -> istep st x q =
            (let p := i_prefix x in
             match i_pcs x q with
             | PIo => if iofails x q then Some (st, set_pc x q PHandler, OIo false)
                      else Some (st, set_iodone (set_pc x q PArrive) q, OIo true)
             | PArrive => if Nat.eqb q 0 then
                   if all_present st x (peers (i_W x))
                   then Some (st, set_pc x q (if (1 <? i_W x)%nat then PGet 1 else PMeta), OWait p (peers (i_W x)))
                   else None
                 else Some (st_set st (kz x q) VOk, set_pc x q PDepart, OSet p q VOk)
             | PGet k => match st_get st (kz x k) with
                 | None => None
                 | Some VOk => Some (st, set_pc x q (if (S k <? i_W x)%nat then PGet (S k) else PMeta), OGet p k VOk)
                 | Some VErr => Some (st, set_pc x q PErrReport, OGet p k VErr) end
             | PErrReport => Some (st_set st (kz x q) VErr, set_pc x q PHandler, OSet p q VErr)
             | PMeta => if i_metafail x then Some (st, set_pc x q PHandler, OMeta false)
                        else Some (st, set_meta (set_pc x q PDepart), OMeta true)
             | PDepart => if Nat.eqb q 0 then Some (st_set st (kz x 0) VOk, set_pc x q PDone, OSet p 0%nat VOk)
                 else if st_has st (kz x 0) then Some (st, set_pc x q PDepartGet, OWait p [0%nat]) else None
             | PDepartGet => match st_get st (kz x 0) with
                 | None => None
                 | Some VOk => Some (st, set_pc x q PDone, OGet p 0%nat VOk)
                 | Some VErr => Some (st, set_pc x q PHandler, OGet p 0%nat VErr) end
             | PHandler => Some (st_set st (kz x q) VErr, set_pc x q PRaised, OSet p q VErr)
             | PDone | PRaised | PAbsent => None
             end).
Proof. intros Hq. unfold istep. apply Nat.ltb_lt in Hq. rewrite Hq. reflexivity. Qed.

Lemma itimeout_unfold st x q : (q < i_W x)%nat -> itimeout st x q =
  match i_pcs x q with
  | PArrive => if Nat.eqb q 0 then Some (st, set_tmo (set_pc x q PHandler) q, OTimeout (i_prefix x) (peers (i_W x))) else None
  | PDepart => if Nat.eqb q 0 then None else Some (st, set_tmo (set_pc x q PHandler) q, OTimeout (i_prefix x) [0%nat])
  | _ => None
  end.
Proof. intros Hq. unfold itimeout. apply Nat.ltb_lt in Hq. rewrite Hq. reflexivity. Qed.

(* with timeouts NO live rank is ever stuck: every rank whose background thread exists and has not finished can
   itself take a normal step or, when it stands at a store.wait, its timeout step - whatever the other ranks do,
   whether or not they exist *)
Lemma inv_rank_never_stuck st x r : Inv st x -> (r < i_W x)%nat -> live (i_pcs x r) = true ->
  istep st x r <> None \/ itimeout st x r <> None.
Proof.
  intros HI Hr Hl. rewrite (istep_unfold st x r Hr), (itimeout_unfold st x r Hr). cbv zeta.
  destruct r as [|n].
  - pose proof (inv_leader _ _ HI) as HL. unfold leader_ok in HL. cbn [Nat.eqb].
    destruct (i_pcs x 0%nat) eqn:Hpc; cbn [live] in Hl; try discriminate; try contradiction.
    + left. destruct (iofails x 0); discriminate.
    + right. discriminate.
    + left. destruct HL as (_ & _ & Hk & _ & HKs). specialize (HKs k Hk). unfold KK in HKs.
      destruct (st_get st (kz x k)) as [[|]|]; congruence.
    + left. discriminate.
    + left. destruct (i_metafail x); discriminate.
    + left. discriminate.
    + left. discriminate.
  - pose proof (inv_peer _ _ HI (S n) ltac:(lia)) as HP. unfold peer_ok in HP. rewrite eqb_S0.
    destruct (i_pcs x (S n)) eqn:Hpc; cbn [live peer_ok_v] in *; try discriminate; try contradiction.
    + left. destruct (iofails x (S n)); discriminate.
    + left. discriminate.
    + right. discriminate.
    + left. destruct HP as (_ & _ & HK0). unfold KK in HK0. destruct (st_get st (kz x 0)) as [[|]|]; congruence.
    + left. discriminate.
Qed.

(* without timeouts: if nobody is absent, then while some rank is live some rank can take a NORMAL step *)
Lemma inv_deadlock_free st x r : Inv st x -> (forall q, (q < i_W x)%nat -> absent x q = false) ->
  (r < i_W x)%nat -> live (i_pcs x r) = true ->
  exists r', (r' < i_W x)%nat /\ istep st x r' <> None.
Proof.
  intros HI HNA Hr Ht.
  assert (HW : (0 < i_W x)%nat) by lia.
  assert (Hna : forall q, (q < i_W x)%nat -> i_pcs x q <> PAbsent).
  { intros q Hq E. destruct (inv_absent _ _ HI q Hq) as [[A1 _] _]. apply A1 in E. rewrite (HNA q Hq) in E. discriminate. }
  pose proof (istep_unfold st x) as Hstep.
  (* a peer that is live and not waiting can step; so can one that waits for a present leader key *)
  assert (Hpeer : forall n, (S n < i_W x)%nat -> live (i_pcs x (S n)) = true ->
                  KK st x 0 <> None \/ (i_pcs x (S n) <> PDepart /\ i_pcs x (S n) <> PDepartGet) ->
                  istep st x (S n) <> None).
  { intros n Hn Htn Hc. rewrite (Hstep _ Hn). cbv zeta. rewrite eqb_S0.
    pose proof (inv_peer _ _ HI (S n) ltac:(lia)) as HP. unfold peer_ok in HP.
    destruct (i_pcs x (S n)) eqn:Hpc; cbn [peer_ok_v live] in *; try contradiction; try discriminate.
    - destruct (iofails x (S n)); discriminate.
    - destruct Hc as [Hc|[Hc _]]; [|congruence]. apply st_has_true in Hc. rewrite Hc. discriminate.
    - destruct HP as (_ & _ & HK0). unfold KK in HK0. destruct (st_get st (kz x 0)) as [[|]|]; congruence. }
  pose proof (inv_leader _ _ HI) as HL. unfold leader_ok in HL.
  destruct (i_pcs x 0%nat) eqn:Hpc0.
  - exists 0%nat. split; [assumption|]. rewrite (Hstep _ HW), Hpc0. cbv zeta. destruct (iofails x 0); discriminate.
  - (* leader waits for the peers *)
    destruct (all_present st x (peers (i_W x))) eqn:Hall.
    + exists 0%nat. split; [assumption|]. rewrite (Hstep _ HW), Hpc0. cbv zeta. rewrite Nat.eqb_refl, ?Hall. discriminate.
    + destruct (all_present_false _ _ Hall) as [j [Hj HKj]]. destruct j as [|n]; [lia|].
      pose proof (Hna (S n) ltac:(lia)) as Hnaj.
      exists (S n). split; [lia|]. apply Hpeer; [lia| |].
      * pose proof (inv_peer _ _ HI (S n) Hj) as HP. unfold peer_ok in HP. rewrite HKj in HP.
        destruct (i_pcs x (S n)); cbn in *; try reflexivity; try congruence; intuition congruence.
      * right. pose proof (inv_peer _ _ HI (S n) Hj) as HP. unfold peer_ok in HP. rewrite HKj in HP.
        destruct (i_pcs x (S n)); cbn in *; intuition congruence.
  - exists 0%nat. split; [assumption|]. rewrite (Hstep _ HW), Hpc0. cbv zeta.
    destruct HL as (_ & _ & Hk & _ & HKs). specialize (HKs k Hk). unfold KK in HKs.
    destruct (st_get st (kz x k)) as [[|]|]; congruence.
  - exists 0%nat. split; [assumption|]. rewrite (Hstep _ HW), Hpc0. discriminate.
  - exists 0%nat. split; [assumption|]. rewrite (Hstep _ HW), Hpc0. cbv zeta. destruct (i_metafail x); discriminate.
  - exists 0%nat. split; [assumption|]. rewrite (Hstep _ HW), Hpc0. cbv zeta. rewrite Nat.eqb_refl. discriminate.
  - contradiction.
  - exists 0%nat. split; [assumption|]. rewrite (Hstep _ HW), Hpc0. discriminate.
  - (* leader Done: its key is present *)
    destruct r as [|n]; [rewrite Hpc0 in Ht; discriminate|].
    exists (S n). split; [assumption|]. apply Hpeer; auto. left. destruct HL as [HK _]. congruence.
  - destruct r as [|n]; [rewrite Hpc0 in Ht; discriminate|].
    exists (S n). split; [assumption|]. apply Hpeer; auto. left. destruct HL as [HK _]. congruence.
  - destruct (Hna 0%nat HW Hpc0).
Qed.

(* ------------------------------------------------------------------ lists of instances *)
Lemma nth_error_upd {A} (l : list A) n x m :
  nth_error (upd l n x) m =
  if Nat.eqb n m then (match nth_error l n with Some _ => Some x | None => None end) else nth_error l m.
Proof.
  revert n m. induction l as [|a l IH]; intros n m.
  - cbn. destruct (Nat.eqb n m); destruct n, m; reflexivity.
  - destruct n as [|n], m as [|m]; cbn; try reflexivity. apply IH.
Qed.

Lemma length_upd {A} (l : list A) n x : length (upd l n x) = length l.
Proof. revert n. induction l as [|a l IH]; intros [|n]; cbn; auto. Qed.

Lemma map_upd_same {A B} (f : A -> B) (l : list A) n x x' :
  nth_error l n = Some x -> f x' = f x -> map f (upd l n x') = map f l.
Proof.
  revert n. induction l as [|a l IH]; intros [|n] Hn Hf; cbn in *; try discriminate.
  - inversion Hn. subst. rewrite Hf. reflexivity.
  - rewrite (IH n Hn Hf). reflexivity.
Qed.

Lemma NoDup_map_nth {A B} (f : A -> B) (l : list A) i j x y :
  NoDup (map f l) -> nth_error l i = Some x -> nth_error l j = Some y -> f x = f y -> i = j.
Proof.
  intros ND Hi Hj Hf. rewrite NoDup_nth_error in ND. apply ND.
  - rewrite map_length. apply nth_error_Some. congruence.
  - rewrite !nth_error_map, Hi, Hj. cbn. rewrite Hf. reflexivity.
Qed.

(* ------------------------------------------------------------------ the job: all instances at once *)
Definition GInv (s : gstate) : Prop :=
  NoDup (map i_prefix (g_insts s)) /\
  forall i x, nth_error (g_insts s) i = Some x -> Inv (g_store s) x.

Lemma gstep_cases s c :
  (fst (gstep s c) = s /\ snd (gstep s c) = None /\
   (forall x, nth_error (g_insts s) (c_inst c) = Some x -> iact (c_kind c) (g_store s) x (c_rank c) = None)) \/
  (exists x st' x' o, nth_error (g_insts s) (c_inst c) = Some x /\
     iact (c_kind c) (g_store s) x (c_rank c) = Some (st', x', o) /\
     gstep s c = ({| g_store := st'; g_insts := upd (g_insts s) (c_inst c) x' |}, Some o)).
Proof.
  unfold gstep. destruct (nth_error (g_insts s) (c_inst c)) as [x|] eqn:Hn.
  - destruct (iact (c_kind c) (g_store s) x (c_rank c)) as [[[st' x'] o]|] eqn:Hs.
    + right. exists x, st', x', o. auto.
    + left. repeat split; auto. intros y Hy. inversion Hy. subst. assumption.
  - left. repeat split; auto. discriminate.
Qed.

Lemma gstep_inv s c : GInv s -> GInv (fst (gstep s c)).
Proof.
  intros [ND HI]. destruct (gstep_cases s c) as [(E & _ & _)|(x & st' & x' & o & Hn & Hs & E)].
  - rewrite E. split; assumption.
  - rewrite E. unfold GInv. cbn [fst g_store g_insts].
    pose proof (iact_frame _ _ _ _ _ _ _ Hs) as (Fp & FW & FF & FM & Hr & Hother).
    split.
    + rewrite (map_upd_same i_prefix _ _ x x' Hn Fp). exact ND.
    + intros i y Hy. rewrite nth_error_upd, Hn in Hy. destruct (Nat.eqb_spec (c_inst c) i) as [Ei|Ei].
      * inversion Hy. subst y. exact (iact_inv _ _ _ _ _ _ _ (HI _ _ Hn) Hs).
      * apply (Inv_ext (g_store s)); [|exact (HI _ _ Hy)].
        intros r. apply Hother. intros Hp. apply Ei. symmetry.
        exact (NoDup_map_nth i_prefix _ _ _ _ _ ND Hy Hn Hp).
Qed.

Lemma grun_inv s sch : GInv s -> GInv (grun s sch).
Proof. revert s. induction sch as [|c sch IH]; intros s H; cbn; [exact H|]. apply IH, gstep_inv, H. Qed.

(* freshness: the store holds no key of any prefix used by the history *)
Definition fresh (st0 : store) (h : list spec) : Prop :=
  forall sp, In sp h -> forall r, st_get st0 (sp_prefix sp, r) = None.
Definition distinct_prefixes (h : list spec) : Prop := NoDup (map sp_prefix h).

Lemma ginit_inv st0 h : fresh st0 h -> distinct_prefixes h -> GInv (ginit st0 h).
Proof.
  intros HF HD. split.
  - cbn. rewrite map_map. exact HD.
  - intros i x Hx. cbn in Hx. rewrite nth_error_map in Hx.
    destruct (nth_error h i) as [sp|] eqn:Hsp; [|discriminate]. inversion Hx. subst x.
    apply Inv_init. apply HF. eapply nth_error_In. eassumption.
Qed.

Lemma reach_inv st0 h sch i x : fresh st0 h -> distinct_prefixes h ->
  nth_error (g_insts (grun (ginit st0 h) sch)) i = Some x -> Inv (g_store (grun (ginit st0 h) sch)) x.
Proof. intros HF HD Hx. exact (proj2 (grun_inv _ sch (ginit_inv _ _ HF HD)) i x Hx). Qed.

(* static fields of an instance never change: the i-th instance is always the i-th snapshot of the history *)
Definition same_static (x y : inst) : Prop :=
  i_prefix y = i_prefix x /\ i_W y = i_W x /\ i_iofail y = i_iofail x /\ i_metafail y = i_metafail x /\
  i_absent y = i_absent x.

Lemma gstep_static s c i x : nth_error (g_insts s) i = Some x ->
  exists y, nth_error (g_insts (fst (gstep s c))) i = Some y /\ same_static x y.
Proof.
  intros Hx. destruct (gstep_cases s c) as [(E & _ & _)|(x0 & st' & x' & o & Hn & Hs & E)].
  - rewrite E. exists x. repeat split; auto.
  - rewrite E. cbn [fst g_insts]. rewrite nth_error_upd, Hn.
    pose proof (iact_frame _ _ _ _ _ _ _ Hs) as (Fp & FW & FF & FM & _ & _).
    pose proof (iact_absent _ _ _ _ _ _ _ Hs) as FA.
    destruct (Nat.eqb_spec (c_inst c) i) as [Ei|Ei].
    + subst i. rewrite Hn in Hx. inversion Hx. subst x0. exists x'. repeat split; auto.
    + exists x. repeat split; auto.
Qed.

Lemma grun_static s sch i x : nth_error (g_insts s) i = Some x ->
  exists y, nth_error (g_insts (grun s sch)) i = Some y /\ same_static x y.
Proof.
  revert s x. induction sch as [|c sch IH]; intros s x Hx; cbn.
  - exists x. repeat split; auto.
  - destruct (gstep_static s c i x Hx) as (y & Hy & S1).
    destruct (IH _ _ Hy) as (z & Hz & S2). exists z. split; [assumption|].
    unfold same_static in *. intuition congruence.
Qed.

Lemma grun_length s sch : length (g_insts (grun s sch)) = length (g_insts s).
Proof.
  revert s. induction sch as [|c sch IH]; intros s; cbn; [reflexivity|]. rewrite IH.
  destruct (gstep_cases s c) as [(E & _ & _)|(x0 & st' & x' & o & Hn & Hs & E)]; rewrite E; [reflexivity|].
  cbn. apply length_upd.
Qed.

Lemma reach_static st0 h sch i sp : nth_error h i = Some sp ->
  exists x, nth_error (g_insts (grun (ginit st0 h) sch)) i = Some x /\
            i_prefix x = sp_prefix sp /\ i_W x = sp_W sp /\ i_iofail x = sp_iofail sp /\ i_metafail x = sp_metafail sp /\
            i_absent x = sp_absent sp.
Proof.
  intros Hsp. assert (H0 : nth_error (g_insts (ginit st0 h)) i = Some (mk_inst sp)).
  { cbn. rewrite nth_error_map, Hsp. reflexivity. }
  destruct (grun_static _ sch _ _ H0) as (y & Hy & S1 & S2 & S3 & S4 & S5). exists y. cbn in *. auto 6.
Qed.

(* ------------------------------------------------------------------ independence of instances *)
Lemma iact_other_keys k st x r st' x' o : iact k st x r = Some (st', x', o) ->
  forall p q, p <> i_prefix x -> st_get st' (p, q) = st_get st (p, q).
Proof.
  destruct k; cbn [iact]; intros Hs p q Hp.
  - revert Hs. unfold istep. destruct (negb (r <? i_W x)%nat); [discriminate|].
    destruct (i_pcs x r); intros Hs; istep_cases Hs; try reflexivity.
    all: rewrite st_get_set; match goal with |- (if ?c then _ else _) = _ => destruct c eqn:Ek end; try reflexivity.
    all: apply key_eqb_true in Ek; unfold kz in Ek; inversion Ek; congruence.
  - destruct (itimeout_spec _ _ _ _ _ _ Hs) as (_ & -> & _). reflexivity.
Qed.

(* a step (normal or timeout) of instance j changes no key of another prefix and no other instance *)
Lemma gstep_independent s c i x : NoDup (map i_prefix (g_insts s)) ->
  nth_error (g_insts s) i = Some x -> i <> c_inst c ->
  nth_error (g_insts (fst (gstep s c))) i = Some x /\
  forall q, st_get (g_store (fst (gstep s c))) (i_prefix x, q) = st_get (g_store s) (i_prefix x, q).
Proof.
  intros ND Hx Hij. destruct (gstep_cases s c) as [(E & _ & _)|(x0 & st' & x' & o & Hn & Hs & E)].
  - rewrite E. auto.
  - rewrite E. cbn [fst snd g_insts g_store] in *. split.
    + rewrite nth_error_upd. destruct (Nat.eqb_spec (c_inst c) i); [congruence|assumption].
    + intros q. assert (Hp : i_prefix x <> i_prefix x0).
      { intros Hp. apply Hij. exact (NoDup_map_nth i_prefix _ _ _ _ _ ND Hx Hn Hp). }
      exact (iact_other_keys _ _ _ _ _ _ _ Hs _ q Hp).
Qed.

(* ------------------------------------------------------------------ property-level statements *)
Lemma no_fault_not_has_fault x : no_fault x -> ~ has_fault x.
Proof. intros [H1 H2] [[f [Hf1 Hf2]]|H]; [rewrite (H1 f Hf1) in Hf2|]; congruence. Qed.

Lemma no_absent_not_has_absent x : no_absent x -> ~ has_absent x.
Proof. intros H [a [Ha1 Ha2]]. rewrite (H a Ha1) in Ha2. discriminate. Qed.

Lemma no_timeout_not_timed_out x : no_timeout x -> ~ timed_out x.
Proof. intros H [a [Ha1 Ha2]]. rewrite (H a Ha1) in Ha2. discriminate. Qed.

Lemma has_fault_global x : has_fault x -> global_cause x.
Proof. intros H. left. exact H. Qed.

Lemma commit_after_all_arrive st0 h sch i x : fresh st0 h -> distinct_prefixes h ->
  nth_error (g_insts (grun (ginit st0 h) sch)) i = Some x ->
  i_meta x = true -> forall r, (r < i_W x)%nat -> i_iodone x r = true /\ iofails x r = false.
Proof. intros HF HD Hx. exact (inv_commit _ _ (reach_inv _ _ _ _ _ HF HD Hx)). Qed.

Lemma depart_after_commit st0 h sch i x : fresh st0 h -> distinct_prefixes h ->
  nth_error (g_insts (grun (ginit st0 h) sch)) i = Some x ->
  forall r, (r < i_W x)%nat -> i_pcs x r = PDone -> i_meta x = true.
Proof. intros HF HD Hx r. exact (inv_done_meta _ _ r (reach_inv _ _ _ _ _ HF HD Hx)). Qed.

(* a fault of the plan, an absent rank or a timeout of the leader: nobody succeeds, nothing is committed *)
Lemma error_reaches_everyone_gen st0 h sch i x : fresh st0 h -> distinct_prefixes h ->
  nth_error (g_insts (grun (ginit st0 h) sch)) i = Some x ->
  global_cause x ->
  (forall r, (r < i_W x)%nat -> i_pcs x r <> PDone) /\
  (forall r, (r < i_W x)%nat -> terminated (i_pcs x r) = true -> i_pcs x r = PRaised) /\
  i_meta x = false.
Proof.
  intros HF HD Hx Hf. pose proof (reach_inv _ _ _ _ _ HF HD Hx) as HI.
  pose proof (inv_global_no_done _ _ HI Hf) as ND. split; [exact ND|]. split.
  - intros r Hr Ht. specialize (ND r Hr). destruct (i_pcs x r); try discriminate; congruence.
  - exact (inv_global_no_meta _ _ HI Hf).
Qed.

Lemma error_reaches_everyone st0 h sch i x : fresh st0 h -> distinct_prefixes h ->
  nth_error (g_insts (grun (ginit st0 h) sch)) i = Some x ->
  has_fault x ->
  (forall r, (r < i_W x)%nat -> i_pcs x r <> PDone) /\
  (forall r, (r < i_W x)%nat -> terminated (i_pcs x r) = true -> i_pcs x r = PRaised) /\
  i_meta x = false.
Proof. intros HF HD Hx Hf. exact (error_reaches_everyone_gen _ _ _ _ _ HF HD Hx (has_fault_global _ Hf)). Qed.

(* a rank raises only if the plan has a fault or some rank of the snapshot took a timeout step
   (an absent rank alone makes nobody raise: its peers block until they time out) *)
Lemma no_cause_no_raise st0 h sch i x : fresh st0 h -> distinct_prefixes h ->
  nth_error (g_insts (grun (ginit st0 h) sch)) i = Some x ->
  no_fault x -> no_timeout x -> forall r, (r < i_W x)%nat -> i_pcs x r <> PRaised.
Proof.
  intros HF HD Hx Hn Ht r Hr Hp.
  assert (HC : ~ cause x).
  { intros [H|H]; [exact (no_fault_not_has_fault _ Hn H)|exact (no_timeout_not_timed_out _ Ht H)]. }
  pose proof (inv_nocause_no_raise _ _ (reach_inv _ _ _ _ _ HF HD Hx) HC r Hr) as H.
  rewrite Hp in H. discriminate.
Qed.

Lemma raise_has_cause st0 h sch i x : fresh st0 h -> distinct_prefixes h ->
  nth_error (g_insts (grun (ginit st0 h) sch)) i = Some x ->
  forall r, (r < i_W x)%nat -> i_pcs x r = PRaised -> has_fault x \/ timed_out x.
Proof.
  intros HF HD Hx r Hr Hp. apply (inv_err_pc _ _ (reach_inv _ _ _ _ _ HF HD Hx) r Hr). rewrite Hp. reflexivity.
Qed.

(* after the commit: the leader never raises, and a peer raises only through its own timeout in depart *)
Lemma after_commit_only_own_timeout st0 h sch i x : fresh st0 h -> distinct_prefixes h ->
  nth_error (g_insts (grun (ginit st0 h) sch)) i = Some x ->
  i_meta x = true ->
  (i_pcs x 0%nat = PDepart \/ i_pcs x 0%nat = PDone) /\
  forall r, (r < i_W x)%nat -> i_pcs x r = PRaised -> r <> 0%nat /\ i_tmo x r = true.
Proof.
  intros HF HD Hx Hm. pose proof (reach_inv _ _ _ _ _ HF HD Hx) as HI. split.
  - exact (inv_meta_leader_pc _ _ HI Hm).
  - intros r Hr Hp. apply (inv_after_commit _ _ HI Hm r Hr). rewrite Hp. reflexivity.
Qed.

Lemma enabled_iact s i r k x : nth_error (g_insts s) i = Some x ->
  enabled s (i, r, k) = match iact k (g_store s) x r with Some _ => true | None => false end.
Proof.
  intros Hx. unfold enabled, gstep, c_inst, c_rank, c_kind. cbn [fst snd]. rewrite Hx.
  destruct (iact k (g_store s) x r) as [[[a b] c]|]; reflexivity.
Qed.

(* with timeouts no live rank is ever stuck *)
Lemma rank_never_stuck st0 h sch i x r : fresh st0 h -> distinct_prefixes h ->
  nth_error (g_insts (grun (ginit st0 h) sch)) i = Some x ->
  (r < i_W x)%nat -> live (i_pcs x r) = true ->
  enabled (grun (ginit st0 h) sch) (i, r, KStep) = true \/ enabled (grun (ginit st0 h) sch) (i, r, KTimeout) = true.
Proof.
  intros HF HD Hx Hr Hl. rewrite !(enabled_iact _ _ _ _ _ Hx). cbn [iact].
  destruct (inv_rank_never_stuck _ _ r (reach_inv _ _ _ _ _ HF HD Hx) Hr Hl) as [H|H]; [left|right].
  - destruct (istep _ x r); [reflexivity|congruence].
  - destruct (itimeout _ x r); [reflexivity|congruence].
Qed.

(* without timeouts, if every rank takes part *)
Lemma deadlock_free st0 h sch i x r : fresh st0 h -> distinct_prefixes h ->
  nth_error (g_insts (grun (ginit st0 h) sch)) i = Some x ->
  no_absent x ->
  (r < i_W x)%nat -> live (i_pcs x r) = true ->
  exists r', (r' < i_W x)%nat /\ enabled (grun (ginit st0 h) sch) (i, r', KStep) = true.
Proof.
  intros HF HD Hx HNA Hr Ht.
  destruct (inv_deadlock_free _ _ r (reach_inv _ _ _ _ _ HF HD Hx) HNA Hr Ht) as (r' & Hr' & Hs).
  exists r'. split; [assumption|]. rewrite (enabled_iact _ _ _ _ _ Hx). cbn [iact].
  destruct (istep (g_store (grun (ginit st0 h) sch)) x r') as [[[a b] c]|]; [reflexivity|congruence].
Qed.

Lemma not_live_cases p : live p = false -> p = PDone \/ p = PRaised \/ p = PAbsent.
Proof. destruct p; cbn; intros H; try discriminate; auto. Qed.

(* a complete schedule without (further) timeouts: one after which no rank of instance i can take a normal step *)
Lemma complete_schedule_outcomes st0 h sch i x : fresh st0 h -> distinct_prefixes h ->
  nth_error (g_insts (grun (ginit st0 h) sch)) i = Some x ->
  quiescent_inst (grun (ginit st0 h) sch) i ->
  (no_absent x -> forall r, (r < i_W x)%nat -> terminated (i_pcs x r) = true) /\
  (no_fault x -> no_absent x -> no_timeout x ->
     (forall r, (r < i_W x)%nat -> i_pcs x r = PDone) /\ ((0 < i_W x)%nat -> i_meta x = true)) /\
  (has_fault x \/ i_tmo x 0%nat = true -> no_absent x ->
     (forall r, (r < i_W x)%nat -> i_pcs x r = PRaised) /\ i_meta x = false).
Proof.
  intros HF HD Hx Hq.
  assert (HT : no_absent x -> forall r, (r < i_W x)%nat -> terminated (i_pcs x r) = true).
  { intros HNA r Hr. destruct (live (i_pcs x r)) eqn:Ht.
    - destruct (deadlock_free _ _ _ _ _ r HF HD Hx HNA Hr Ht) as (r' & _ & He).
      unfold enabled in He. rewrite (Hq r') in He. discriminate.
    - destruct (not_live_cases _ Ht) as [E|[E|E]]; try (rewrite E; reflexivity).
      destruct (inv_absent _ _ (reach_inv _ _ _ _ _ HF HD Hx) r Hr) as [[A1 _] _]. apply A1 in E.
      rewrite (HNA r Hr) in E. discriminate. }
  split; [exact HT|]. split.
  - intros Hn HNA Hnt.
    assert (HDn : forall r, (r < i_W x)%nat -> i_pcs x r = PDone).
    { intros r Hr. pose proof (no_cause_no_raise _ _ _ _ _ HF HD Hx Hn Hnt r Hr) as H1. specialize (HT HNA r Hr).
      destruct (i_pcs x r); try discriminate; congruence. }
    split; [exact HDn|]. intros HW. exact (depart_after_commit _ _ _ _ _ HF HD Hx 0%nat HW (HDn _ HW)).
  - intros Hf HNA.
    assert (HG : global_cause x) by (destruct Hf as [H|H]; [left; exact H|right; right; exact H]).
    destruct (error_reaches_everyone_gen _ _ _ _ _ HF HD Hx HG) as (_ & H2 & H3).
    split; [|exact H3]. intros r Hr. apply H2; auto.
Qed.

(* a state in which no rank of instance i can take ANY step, normal or timeout: every background thread that exists
   has finished - whatever the plan, absent ranks included *)
Definition quiescent_all (s : gstate) (i : nat) : Prop :=
  forall r k, snd (gstep s (i, r, k)) = None.

Lemma all_quiescent_outcomes st0 h sch i x : fresh st0 h -> distinct_prefixes h ->
  nth_error (g_insts (grun (ginit st0 h) sch)) i = Some x ->
  quiescent_all (grun (ginit st0 h) sch) i ->
  (forall r, (r < i_W x)%nat -> i_pcs x r = PDone \/ i_pcs x r = PRaised \/ i_pcs x r = PAbsent) /\
  (global_cause x -> (forall r, (r < i_W x)%nat -> i_pcs x r = PRaised \/ i_pcs x r = PAbsent) /\ i_meta x = false) /\
  (no_fault x -> no_absent x -> no_timeout x ->
     (forall r, (r < i_W x)%nat -> i_pcs x r = PDone) /\ ((0 < i_W x)%nat -> i_meta x = true)).
Proof.
  intros HF HD Hx Hq.
  assert (HT : forall r, (r < i_W x)%nat -> i_pcs x r = PDone \/ i_pcs x r = PRaised \/ i_pcs x r = PAbsent).
  { intros r Hr. destruct (live (i_pcs x r)) eqn:Hl; [|exact (not_live_cases _ Hl)].
    destruct (rank_never_stuck _ _ _ _ _ r HF HD Hx Hr Hl) as [He|He]; unfold enabled in He; rewrite Hq in He; discriminate. }
  split; [exact HT|]. split.
  - intros HG. destruct (error_reaches_everyone_gen _ _ _ _ _ HF HD Hx HG) as (H1 & _ & H3).
    split; [|exact H3]. intros r Hr. destruct (HT r Hr) as [E|E]; [destruct (H1 r Hr E)|exact E].
  - intros Hn HNA Hnt.
    assert (Hq' : quiescent_inst (grun (ginit st0 h) sch) i) by (intros r; apply Hq).
    exact (proj1 (proj2 (complete_schedule_outcomes _ _ _ _ _ HF HD Hx Hq')) Hn HNA Hnt).
Qed.

(* independence, as a statement about whole runs: a schedule made only of steps of other instances
   changes neither instance i nor any key under its prefix *)
Lemma instances_independent s sch i x : NoDup (map i_prefix (g_insts s)) ->
  nth_error (g_insts s) i = Some x -> Forall (fun c => c_inst c <> i) sch ->
  nth_error (g_insts (grun s sch)) i = Some x /\
  forall q, st_get (g_store (grun s sch)) (i_prefix x, q) = st_get (g_store s) (i_prefix x, q).
Proof.
  revert s. induction sch as [|c sch IH]; intros s ND Hx HFa; cbn [grun].
  - auto.
  - inversion HFa as [|c' l Hc Hl]. subst.
    destruct (gstep_independent s c i x ND Hx (fun E => Hc (eq_sym E))) as [H1 H2].
    assert (ND' : NoDup (map i_prefix (g_insts (fst (gstep s c))))).
    { destruct (gstep_cases s c) as [(E & _ & _)|(x0 & st' & x' & o & Hn & Hs & E)]; rewrite E; [exact ND|].
      cbn [fst snd g_insts] in *. pose proof (iact_frame _ _ _ _ _ _ _ Hs) as (Fp & _).
      rewrite (map_upd_same i_prefix _ _ x0 x' Hn Fp). exact ND. }
    destruct (IH _ ND' H1 Hl) as [H3 H4]. split; [exact H3|]. intros q. rewrite H4. apply H2.
Qed.

(* a step that is not enabled leaves the state unchanged *)
Lemma disabled_step_is_noop s c : enabled s c = false -> fst (gstep s c) = s.
Proof.
  unfold enabled. destruct (gstep_cases s c) as [(E & _ & _)|(x0 & st' & x' & o & _ & _ & E)]; [auto|].
  rewrite E. discriminate.
Qed.

(* ------------------------------------------------------------------ the history variable i_tmo *)
(* a timeout step of rank r of instance i: what it does *)
Lemma timeout_step_effect s i r : enabled s (i, r, KTimeout) = true ->
  exists x, nth_error (g_insts s) i = Some x /\ (r < i_W x)%nat /\
    ((r = 0%nat /\ i_pcs x r = PArrive /\ snd (gstep s (i, r, KTimeout)) = Some (OTimeout (i_prefix x) (peers (i_W x)))) \/
     (r <> 0%nat /\ i_pcs x r = PDepart /\ snd (gstep s (i, r, KTimeout)) = Some (OTimeout (i_prefix x) [0%nat]))) /\
    fst (gstep s (i, r, KTimeout)) =
      {| g_store := g_store s; g_insts := upd (g_insts s) i (set_tmo (set_pc x r PHandler) r) |}.
Proof.
  unfold enabled. destruct (gstep_cases s (i, r, KTimeout)) as [(_ & E & _)|(x & st' & x' & o & Hn & Hs & E)].
  - rewrite E. discriminate.
  - intros _. unfold c_inst, c_rank, c_kind in *. cbn [fst snd iact] in *.
    destruct (itimeout_spec _ _ _ _ _ _ Hs) as (Hr & -> & -> & Hsite).
    exists x. split; [exact Hn|]. split; [exact Hr|]. rewrite E. cbn [fst snd]. split; [|reflexivity].
    destruct Hsite as [(A & B & C)|(A & B & C)]; [left|right]; rewrite C; auto.
Qed.

Lemma gstep_tmo_mono s c i x r : nth_error (g_insts s) i = Some x -> i_tmo x r = true ->
  exists y, nth_error (g_insts (fst (gstep s c))) i = Some y /\ i_tmo y r = true.
Proof.
  intros Hx Ht. destruct (gstep_cases s c) as [(E & _ & _)|(x0 & st' & x' & o & Hn & Hs & E)].
  - rewrite E. exists x. auto.
  - rewrite E. cbn [fst g_insts]. rewrite nth_error_upd, Hn.
    destruct (Nat.eqb_spec (c_inst c) i) as [Ei|Ei]; [|exists x; auto].
    subst i. rewrite Hn in Hx. inversion Hx. subst x0. exists x'. split; [reflexivity|].
    destruct (c_kind c); cbn [iact] in Hs.
    + rewrite (proj2 (istep_frame2 _ _ _ _ _ _ Hs)). exact Ht.
    + destruct (itimeout_spec _ _ _ _ _ _ Hs) as (_ & _ & -> & _). cbn [i_tmo set_tmo set_pc].
      destruct (Nat.eqb r (c_rank c)); auto.
Qed.

Lemma grun_tmo_mono s sch i x r : nth_error (g_insts s) i = Some x -> i_tmo x r = true ->
  exists y, nth_error (g_insts (grun s sch)) i = Some y /\ i_tmo y r = true.
Proof.
  revert s x. induction sch as [|c sch IH]; intros s x Hx Ht; cbn [grun]; [exists x; auto|].
  destruct (gstep_tmo_mono s c i x r Hx Ht) as (y & Hy & Hty). exact (IH _ _ Hy Hty).
Qed.

(* a schedule without timeout choices sets no flag *)
Lemma gstep_no_timeout_flag s c : is_timeout c = false ->
  (forall i x, nth_error (g_insts s) i = Some x -> forall r, i_tmo x r = false) ->
  (forall i x, nth_error (g_insts (fst (gstep s c))) i = Some x -> forall r, i_tmo x r = false).
Proof.
  intros Hc H. destruct (gstep_cases s c) as [(E & _ & _)|(x0 & st' & x' & o & Hn & Hs & E)]; rewrite E; [exact H|].
  cbn [fst g_insts]. intros i x Hx r. rewrite nth_error_upd, Hn in Hx.
  destruct (Nat.eqb_spec (c_inst c) i) as [Ei|Ei]; [|exact (H _ _ Hx r)].
  inversion Hx. subst x'. unfold is_timeout in Hc. destruct (c_kind c); [|discriminate]. cbn [iact] in Hs.
  rewrite (proj2 (istep_frame2 _ _ _ _ _ _ Hs)). exact (H _ _ Hn r).
Qed.

Lemma timeout_free_schedule st0 h sch i x : Forall (fun c => is_timeout c = false) sch ->
  nth_error (g_insts (grun (ginit st0 h) sch)) i = Some x -> forall r, i_tmo x r = false.
Proof.
  intros HFa. assert (H0 : forall i x, nth_error (g_insts (ginit st0 h)) i = Some x -> forall r, i_tmo x r = false).
  { intros j y Hy r. cbn in Hy. rewrite nth_error_map in Hy. destruct (nth_error h j); [|discriminate].
    inversion Hy. reflexivity. }
  revert H0. generalize (ginit st0 h). induction sch as [|c sch IH]; intros s H0; cbn [grun].
  - intros Hx. exact (H0 _ _ Hx).
  - inversion HFa as [|c' l Hc Hl]. subst. apply (IH Hl). apply gstep_no_timeout_flag; assumption.
Qed.

(* what a timeout step of rank r does, and what follows in EVERY continuation: r stands at a store.wait; the wait
   raises (operation OTimeout, store unchanged); r's next step is report_error (its key is set to an error text) and
   leaves r Raised; in every later state r is in the handler or Raised - never Done - and once Raised its key holds
   the error *)
Lemma timeout_raises_and_reports st0 h sch i r : fresh st0 h -> distinct_prefixes h ->
  let s := grun (ginit st0 h) sch in
  enabled s (i, r, KTimeout) = true ->
  let s1 := fst (gstep s (i, r, KTimeout)) in
  (exists x, nth_error (g_insts s) i = Some x /\ (r < i_W x)%nat /\ g_store s1 = g_store s /\
     ((r = 0%nat /\ i_pcs x r = PArrive /\ snd (gstep s (i, r, KTimeout)) = Some (OTimeout (i_prefix x) (peers (i_W x)))) \/
      (r <> 0%nat /\ i_pcs x r = PDepart /\ snd (gstep s (i, r, KTimeout)) = Some (OTimeout (i_prefix x) [0%nat]))) /\
     snd (gstep s1 (i, r, KStep)) = Some (OSet (i_prefix x) r VErr)) /\
  (forall sch2 y, nth_error (g_insts (grun s1 sch2)) i = Some y ->
     i_tmo y r = true /\ (i_pcs y r = PHandler \/ i_pcs y r = PRaised) /\ i_pcs y r <> PDone /\
     (i_pcs y r = PRaised -> st_get (g_store (grun s1 sch2)) (kz y r) = Some VErr)).
Proof.
  intros HF HD s He s1.
  destruct (timeout_step_effect s i r He) as (x & Hx & Hr & Hsite & Es1).
  assert (Hx1 : nth_error (g_insts s1) i = Some (set_tmo (set_pc x r PHandler) r)).
  { unfold s1. rewrite Es1. cbn [g_insts]. rewrite nth_error_upd, Nat.eqb_refl, Hx. reflexivity. }
  split.
  - exists x. split; [exact Hx|]. split; [exact Hr|]. split; [unfold s1; rewrite Es1; reflexivity|].
    split; [exact Hsite|].
    unfold gstep, c_inst, c_rank, c_kind. cbn [fst snd]. rewrite Hx1. cbn [iact].
    rewrite istep_unfold by exact Hr. cbn [i_pcs set_tmo set_pc]. rewrite Nat.eqb_refl. reflexivity.
  - intros sch2 y Hy.
    assert (Hreach : grun s1 sch2 = grun (ginit st0 h) (sch ++ (i, r, KTimeout) :: sch2)).
    { unfold s1, s. clear. revert sch2. generalize (ginit st0 h). induction sch as [|c sch IH]; intros g sch2; cbn [grun app]; [reflexivity|].
      apply IH. }
    assert (Ht1 : i_tmo (set_tmo (set_pc x r PHandler) r) r = true) by (cbn [i_tmo set_tmo]; rewrite Nat.eqb_refl; reflexivity).
    destruct (grun_tmo_mono s1 sch2 i _ r Hx1 Ht1) as (y' & Hy' & Hty). rewrite Hy in Hy'. inversion Hy'. subst y'.
    rewrite Hreach in Hy. pose proof (reach_inv _ _ _ _ _ HF HD Hy) as HI. rewrite <- Hreach in HI.
    destruct (inv_timed_out_rank _ _ r HI Hty) as (_ & Hp & Hk).
    split; [exact Hty|]. split; [exact Hp|]. split; [destruct Hp as [E|E]; rewrite E; discriminate|exact Hk].
Qed.

(* an ABSENT rank (it raised inside async_take; it has no background thread and sets no key): nobody succeeds and
   nothing is committed, whoever is absent; without a fault in the plan a rank can raise only after some timeout
   step.  LEADER absent vs PEER absent: if the leader is absent nobody ever writes the leader's key, so no error
   text can reach anybody - EVERY peer that raises does so through its own timeout (or its own I/O failure); if a
   peer is absent the leader's timeout is enough, the other peers may read the leader's error key (example in
   props/C13.v). *)
Lemma absent_rank_means_nobody_succeeds st0 h sch i x : fresh st0 h -> distinct_prefixes h ->
  nth_error (g_insts (grun (ginit st0 h) sch)) i = Some x ->
  has_absent x ->
  (forall r, (r < i_W x)%nat -> i_pcs x r <> PDone) /\
  i_meta x = false /\
  (forall r, (r < i_W x)%nat -> absent x r = true -> i_pcs x r = PAbsent /\ st_get (g_store (grun (ginit st0 h) sch)) (kz x r) = None) /\
  (no_fault x -> forall r, (r < i_W x)%nat -> i_pcs x r = PRaised -> timed_out x) /\
  (absent x 0 = true -> forall r, (r < i_W x)%nat -> i_pcs x r = PRaised -> i_tmo x r = true \/ iofails x r = true).
Proof.
  intros HF HD Hx Ha. pose proof (reach_inv _ _ _ _ _ HF HD Hx) as HI.
  assert (HG : global_cause x) by (right; left; exact Ha).
  split; [exact (inv_global_no_done _ _ HI HG)|]. split; [exact (inv_global_no_meta _ _ HI HG)|]. split; [|split].
  - intros r Hr Hab. destruct (inv_absent _ _ HI r Hr) as [[_ A1] _]. specialize (A1 Hab). split; [exact A1|].
    destruct r as [|n].
    + pose proof (inv_leader _ _ HI) as HL. unfold leader_ok in HL. rewrite A1 in HL. exact (proj1 HL).
    + pose proof (inv_peer _ _ HI (S n) ltac:(lia)) as HP. unfold peer_ok in HP. rewrite A1 in HP. exact (proj1 HP).
  - intros Hn r Hr Hp. destruct (raise_has_cause _ _ _ _ _ HF HD Hx r Hr Hp) as [H|H]; [|exact H].
    destruct (no_fault_not_has_fault _ Hn H).
  - intros H0 r Hr Hp. apply (inv_absent_leader _ _ HI ltac:(lia) H0 r Hr). rewrite Hp. reflexivity.
Qed.

(* ------------------------------------------------------------------ termination *)
Lemma iact_measure k st x r st' x' o : iact k st x r = Some (st', x', o) ->
  (forall q, q <> r -> i_pcs x' q = i_pcs x q) /\
  (pc_measure (i_W x) (i_pcs x' r) < pc_measure (i_W x) (i_pcs x r))%nat.
Proof.
  destruct k; cbn [iact]; intros Hs.
  - unfold istep in Hs. destruct (r <? i_W x)%nat eqn:E; cbn [negb] in Hs; [|discriminate]. clear E.
    destruct (i_pcs x r) eqn:Hpc; istep_cases Hs.
    all: repeat match goal with H : (_ <? _)%nat = true |- _ => apply Nat.ltb_lt in H
                           | H : (_ <? _)%nat = false |- _ => apply Nat.ltb_ge in H end.
    all: split; [intros q Hq; cbn [i_pcs set_pc set_iodone set_meta];
                 destruct (Nat.eqb_spec q r); [contradiction|reflexivity]|].
    all: cbn [i_pcs set_pc set_iodone set_meta]; rewrite Nat.eqb_refl; cbn [pc_measure]; lia.
  - destruct (itimeout_spec _ _ _ _ _ _ Hs) as (Hr & _ & -> & Hsite). cbn [i_pcs set_tmo set_pc]. split.
    + intros q Hq. destruct (Nat.eqb_spec q r); [contradiction|reflexivity].
    + rewrite Nat.eqb_refl. destruct Hsite as [(_ & -> & _)|(_ & -> & _)]; cbn [pc_measure]; lia.
Qed.

Lemma list_sum_map_le {A} (f g : A -> nat) l : (forall q, In q l -> (f q <= g q)%nat) ->
  (list_sum (map f l) <= list_sum (map g l))%nat.
Proof.
  unfold list_sum. induction l as [|a l IH]; intros H; cbn [map fold_right]; [lia|].
  pose proof (H a (or_introl eq_refl)). specialize (IH (fun q Hq => H q (or_intror Hq))). lia.
Qed.

Lemma list_sum_map_lt {A} (f g : A -> nat) l r : (forall q, In q l -> (f q <= g q)%nat) ->
  In r l -> (f r < g r)%nat -> (list_sum (map f l) < list_sum (map g l))%nat.
Proof.
  induction l as [|a l IH]; intros H Hin Hlt; [destruct Hin|].
  pose proof (H a (or_introl eq_refl)).
  pose proof (list_sum_map_le f g l (fun q Hq => H q (or_intror Hq))).
  unfold list_sum in *; cbn [map fold_right].
  destruct Hin as [->|Hin]; [lia|]. specialize (IH (fun q Hq => H q (or_intror Hq)) Hin Hlt). lia.
Qed.

Lemma inst_measure_step k st x r st' x' o : iact k st x r = Some (st', x', o) ->
  (inst_measure x' < inst_measure x)%nat.
Proof.
  intros Hs. pose proof (iact_frame _ _ _ _ _ _ _ Hs) as (_ & FW & _ & _ & Hr & _).
  destruct (iact_measure _ _ _ _ _ _ _ Hs) as [Hoth Hlt].
  unfold inst_measure. rewrite FW. apply (list_sum_map_lt _ _ _ r).
  - intros q _. destruct (Nat.eq_dec q r) as [->|Hq]; [lia|]. rewrite (Hoth q Hq). lia.
  - apply in_seq. lia.
  - exact Hlt.
Qed.

Lemma list_sum_upd_lt {A} (f : A -> nat) l i x x' : nth_error l i = Some x -> (f x' < f x)%nat ->
  (list_sum (map f (upd l i x')) < list_sum (map f l))%nat.
Proof.
  unfold list_sum. revert i. induction l as [|a l IH]; intros [|i] Hn Hlt; cbn [nth_error upd map fold_right] in *; try discriminate.
  - inversion Hn. subst. lia.
  - specialize (IH i Hn Hlt). lia.
Qed.

(* every enabled choice - normal step or timeout - strictly decreases the measure *)
Lemma gstep_measure_lt s c : enabled s c = true -> (gmeasure (fst (gstep s c)) < gmeasure s)%nat.
Proof.
  unfold enabled. destruct (gstep_cases s c) as [(_ & E & _)|(x & st' & x' & o & Hn & Hs & E)].
  - rewrite E. discriminate.
  - intros _. rewrite E. unfold gmeasure. cbn [fst g_insts].
    apply (list_sum_upd_lt inst_measure _ _ x x' Hn). exact (inst_measure_step _ _ _ _ _ _ _ Hs).
Qed.

Lemma gstep_measure_le s c : (gmeasure (fst (gstep s c)) <= gmeasure s)%nat.
Proof.
  destruct (enabled s c) eqn:E.
  - pose proof (gstep_measure_lt s c E). lia.
  - rewrite (disabled_step_is_noop s c E). lia.
Qed.

Lemma grun_measure_le s sch : (gmeasure (grun s sch) <= gmeasure s)%nat.
Proof.
  revert s. induction sch as [|c sch IH]; intros s; cbn; [lia|].
  pose proof (IH (fst (gstep s c))). pose proof (gstep_measure_le s c). lia.
Qed.

Lemma grun_app s a b : grun s (a ++ b) = grun (grun s a) b.
Proof. revert s. induction a as [|c a IH]; intros s; cbn; [reflexivity|apply IH]. Qed.

(* a schedule every choice of which is enabled when it is taken *)
Fixpoint effective (s : gstate) (sch : list choice) : bool :=
  match sch with
  | [] => true
  | c :: t => enabled s c && effective (fst (gstep s c)) t
  end.

(* no infinite executions: from any state, a schedule of enabled choices (normal steps and timeouts, any instances,
   any order) has at most gmeasure s elements *)
Lemma effective_bounded s sch : effective s sch = true -> (length sch + gmeasure (grun s sch) <= gmeasure s)%nat.
Proof.
  revert s. induction sch as [|c sch IH]; intros s H; cbn [effective grun length] in *; [lia|].
  apply andb_true_iff in H. destruct H as [H1 H2]. specialize (IH _ H2). pose proof (gstep_measure_lt s c H1). lia.
Qed.

Lemma in_choices_from i0 ws i w r : nth_error ws i = Some w -> (r < w)%nat -> In ((i0 + i)%nat, r, KStep) (choices_from i0 ws).
Proof.
  revert i0 i. induction ws as [|a ws IH]; intros i0 [|i] Hn Hr; cbn in *; try discriminate.
  - inversion Hn. subst. apply in_or_app. left. rewrite Nat.add_0_r.
    apply (in_map (fun r => (i0, r, KStep))). apply in_seq. lia.
  - apply in_or_app. right. replace (i0 + S i)%nat with (S i0 + i)%nat by lia. apply IH; assumption.
Qed.

(* an enabled normal step is in all_choices, an enabled choice of any kind in all_choices_t *)
Lemma enabled_in_all_choices s i r k : enabled s (i, r, k) = true -> In (i, r, KStep) (all_choices s).
Proof.
  unfold enabled. destruct (gstep_cases s (i, r, k)) as [(_ & E & _)|(x & st' & x' & o & Hn & Hs & E)].
  - rewrite E. discriminate.
  - intros _. pose proof (iact_frame _ _ _ _ _ _ _ Hs) as (_ & _ & _ & _ & Hr & _).
    unfold c_inst, c_rank in *. cbn [fst snd] in *. unfold all_choices.
    apply (in_choices_from 0 _ i (i_W x) r); [|exact Hr]. rewrite nth_error_map, Hn. reflexivity.
Qed.

Lemma in_with_timeouts l i r k : In (i, r, KStep) l -> In (i, r, k) (with_timeouts l).
Proof.
  intros H. unfold with_timeouts. apply in_flat_map. exists (i, r, KStep). split; [exact H|].
  destruct k; cbn; auto.
Qed.

Lemma run_round s l :
  (gmeasure (grun s l) < gmeasure s)%nat \/ (grun s l = s /\ forall c, In c l -> enabled s c = false).
Proof.
  revert s. induction l as [|c l IH]; intros s; cbn [grun].
  - right. split; [reflexivity|]. intros c [].
  - destruct (enabled s c) eqn:E.
    + left. pose proof (gstep_measure_lt s c E). pose proof (grun_measure_le (fst (gstep s c)) l). lia.
    + rewrite (disabled_step_is_noop s c E). destruct (IH s) as [H|[H1 H2]]; [left; exact H|].
      right. split; [exact H1|]. intros c' [<-|Hc']; auto.
Qed.

Lemma rounds_of_fixpoint s l n : grun s l = s -> grun s (rounds_of l n) = s.
Proof. intros H. induction n as [|n IH]; cbn [rounds_of]; [reflexivity|]. rewrite grun_app, H. exact IH. Qed.

(* round-robin over ANY fixed list of choices: after more rounds than the measure, no choice of the list is enabled *)
Lemma rounds_of_quiesce l n : forall s, (gmeasure s < n)%nat ->
  forall c, In c l -> enabled (grun s (rounds_of l n)) c = false.
Proof.
  induction n as [|n IH]; intros s Hm c Hc; [lia|]. cbn [rounds_of]. rewrite grun_app.
  destruct (run_round s l) as [Hlt|[He Hq]].
  - apply IH; [lia|exact Hc].
  - rewrite He, (rounds_of_fixpoint s l n He). exact (Hq c Hc).
Qed.

Lemma all_choices_grun s sch : all_choices (grun s sch) = all_choices s.
Proof.
  revert s. induction sch as [|c sch IH]; intros s; cbn [grun]; [reflexivity|]. rewrite IH.
  unfold all_choices. destruct (gstep_cases s c) as [(E & _ & _)|(x & st' & x' & o & Hn & Hs & E)]; rewrite E; [reflexivity|].
  cbn [fst g_insts]. pose proof (iact_frame _ _ _ _ _ _ _ Hs) as (_ & FW & _).
  rewrite (map_upd_same i_W _ _ x x' Hn FW). reflexivity.
Qed.

(* normal steps only: after gmeasure s + 1 round-robin rounds no NORMAL step is enabled *)
Lemma rounds_quiesce s : forall i r, enabled (grun s (rounds s (S (gmeasure s)))) (i, r, KStep) = false.
Proof.
  intros i r. destruct (enabled (grun s (rounds s (S (gmeasure s)))) (i, r, KStep)) eqn:E; [|reflexivity].
  pose proof (enabled_in_all_choices _ _ _ _ E) as Hin. unfold rounds in Hin. rewrite all_choices_grun in Hin.
  unfold rounds in E. rewrite (rounds_of_quiesce (all_choices s) (S (gmeasure s)) s ltac:(lia) _ Hin) in E. discriminate.
Qed.

(* normal steps and fair timeouts: after gmeasure s + 1 rounds NOTHING is enabled *)
Lemma rounds_t_quiesce s : forall c, enabled (grun s (rounds_t s (S (gmeasure s)))) c = false.
Proof.
  intros [[i r] k]. destruct (enabled (grun s (rounds_t s (S (gmeasure s)))) (i, r, k)) eqn:E; [|reflexivity].
  pose proof (enabled_in_all_choices _ _ _ _ E) as Hin. unfold rounds_t in Hin. rewrite all_choices_grun in Hin.
  pose proof (in_with_timeouts _ i r k Hin) as Hin'.
  unfold rounds_t in E. unfold all_choices_t in E.
  rewrite (rounds_of_quiesce (with_timeouts (all_choices s)) (S (gmeasure s)) s ltac:(lia) _ Hin') in E. discriminate.
Qed.

(* any schedule (timeouts included), continued by round-robin over the NORMAL steps for long enough *)
Lemma fair_completion_outcomes st0 h sch i x : fresh st0 h -> distinct_prefixes h ->
  let s := grun (ginit st0 h) sch in
  nth_error (g_insts (grun s (rounds s (S (gmeasure s))))) i = Some x ->
  (no_absent x -> forall r, (r < i_W x)%nat -> terminated (i_pcs x r) = true) /\
  (no_fault x -> no_absent x -> no_timeout x ->
     (forall r, (r < i_W x)%nat -> i_pcs x r = PDone) /\ ((0 < i_W x)%nat -> i_meta x = true)) /\
  (has_fault x \/ i_tmo x 0%nat = true -> no_absent x ->
     (forall r, (r < i_W x)%nat -> i_pcs x r = PRaised) /\ i_meta x = false).
Proof.
  intros HF HD s Hx. subst s. rewrite <- grun_app in Hx.
  apply (complete_schedule_outcomes st0 h _ i x HF HD Hx).
  intros r. rewrite grun_app.
  pose proof (rounds_quiesce (grun (ginit st0 h) sch) i r) as H. unfold enabled in H.
  destruct (snd (gstep _ (i, r, KStep))); [discriminate|reflexivity].
Qed.

(* any schedule, continued by round-robin with fair timeouts: every background thread that exists finishes - no
   assumption about faults or participation *)
Lemma fair_timeout_completion_outcomes st0 h sch i x : fresh st0 h -> distinct_prefixes h ->
  let s := grun (ginit st0 h) sch in
  nth_error (g_insts (grun s (rounds_t s (S (gmeasure s))))) i = Some x ->
  (forall r, (r < i_W x)%nat -> i_pcs x r = PDone \/ i_pcs x r = PRaised \/ i_pcs x r = PAbsent) /\
  (global_cause x -> (forall r, (r < i_W x)%nat -> i_pcs x r = PRaised \/ i_pcs x r = PAbsent) /\ i_meta x = false) /\
  (no_fault x -> no_absent x -> no_timeout x ->
     (forall r, (r < i_W x)%nat -> i_pcs x r = PDone) /\ ((0 < i_W x)%nat -> i_meta x = true)).
Proof.
  intros HF HD s Hx. subst s. rewrite <- grun_app in Hx.
  apply (all_quiescent_outcomes st0 h _ i x HF HD Hx).
  intros r k. rewrite grun_app.
  pose proof (rounds_t_quiesce (grun (ginit st0 h) sch) (i, r, k)) as H. unfold enabled in H.
  destruct (snd (gstep _ (i, r, k))); [discriminate|reflexivity].
Qed.

(* the wait sites of the model's skeleton are exactly the places where the timeout step is enabled *)
Lemma model_wait_sites : wait_sites model_skeleton =
  [(RLeader, PhArrive, KPeers, WTimeoutArg); (RPeer, PhDepart, KLeader, WTimeoutArg)].
Proof. reflexivity. Qed.

Lemma timeout_enabled_iff_wait_site st x r : (r < i_W x)%nat ->
  (itimeout st x r <> None <->
   exists ro ph t w, site_of r (i_pcs x r) = Some (ro, ph) /\ In (ro, ph, t, w) (wait_sites model_skeleton)).
Proof.
  intros Hr. rewrite (itimeout_unfold st x r Hr), model_wait_sites. split.
  - intros H. destruct (i_pcs x r); cbn [site_of]; try congruence; destruct (Nat.eqb r 0); try congruence.
    + exists RLeader, PhArrive, KPeers, WTimeoutArg. split; [reflexivity|left; reflexivity].
    + exists RPeer, PhDepart, KLeader, WTimeoutArg. split; [reflexivity|right; left; reflexivity].
  - intros (ro & ph & t & w & Hs & Hin). destruct (i_pcs x r); cbn [site_of] in Hs; try discriminate;
      destruct (Nat.eqb r 0); try discriminate.
Qed.
