(* C07: frame reasoning for the computations of model/ManifestPy.v.
   [hoare n c Q]: started in a heap with at least n objects, c leaves the first n objects untouched, never shrinks the
   heap, and its result (when it does not raise) satisfies Q.
   [fresh n x]: every entry address held by the value x is >= n (a type-directed predicate: addresses, dicts of
   addresses, lists, tuples; values without addresses are trivially fresh).
   The tactic [hoare_auto] walks a generated definition statement by statement; it needs no knowledge of what the
   function computes, only that every heap write goes through an address it got from a fresh value - which is
   exactly what copy.deepcopy in _get_rank_to_manifest provides. *)
From TS Require Import model.Base model.Flatten model.ManifestOps model.Dispatch model.ManifestPy.

(* ------------------------------------------------------------------ fresh *)
Class Fresh (A : Type) := fresh : nat -> A -> Prop.
Class Triv (A : Type) {F : Fresh A} := triv : forall n (a : A), fresh n a.

#[export] Instance fresh_addr : Fresh addr := fun n a => (n <= a)%nat.
#[export] Instance fresh_Z : Fresh Z := fun _ _ => True.
#[export] Instance fresh_bool : Fresh bool := fun _ _ => True.
#[export] Instance fresh_unit : Fresh unit := fun _ _ => True.
#[export] Instance fresh_key : Fresh key := fun _ _ => True.
#[export] Instance fresh_list {A} {F : Fresh A} : Fresh (list A) := fun n l => Forall (fresh n) l.
#[export] Instance fresh_prod {A B} {FA : Fresh A} {FB : Fresh B} : Fresh (A * B) :=
  fun n p => fresh n (fst p) /\ fresh n (snd p).
#[export] Instance fresh_loop {S} {F : Fresh S} : Fresh (loop S) :=
  fun n c => match c with LNext s => fresh n s | LBreak s => fresh n s end.
#[export] Instance fresh_meta : Fresh pmeta := fun n md => fresh n (pm_manifest md).

#[export] Instance triv_Z : Triv Z. Proof. intros n a; exact I. Qed.
#[export] Instance triv_bool : Triv bool. Proof. intros n a; exact I. Qed.
#[export] Instance triv_unit : Triv unit. Proof. intros n a; exact I. Qed.
#[export] Instance triv_key : Triv key. Proof. intros n a; exact I. Qed.
#[export] Instance triv_list {A} {F : Fresh A} {T : Triv A} : Triv (list A).
Proof. intros n l. induction l; constructor; [apply triv | assumption]. Qed.
#[export] Instance triv_prod {A B} {FA : Fresh A} {FB : Fresh B} {TA : Triv A} {TB : Triv B} : Triv (A * B).
Proof. intros n [a b]; split; apply triv. Qed.

Create HintDb fresh.
Create HintDb hoare.
#[export] Hint Extern 1 (fresh _ _) => solve [apply triv] : fresh.

Lemma fresh_pair {A B} {FA : Fresh A} {FB : Fresh B} n (a : A) (b : B) : fresh n a -> fresh n b -> fresh n (a, b).
Proof. intros; split; assumption. Qed.
Lemma fresh_LNext {S} {F : Fresh S} n (s : S) : fresh n s -> fresh n (LNext s).
Proof. intro H; exact H. Qed.
Lemma fresh_LBreak {S} {F : Fresh S} n (s : S) : fresh n s -> fresh n (LBreak s).
Proof. intro H; exact H. Qed.
Lemma fresh_nil {A} {F : Fresh A} n : fresh n (@nil A).
Proof. constructor. Qed.
Lemma fresh_cons {A} {F : Fresh A} n (a : A) l : fresh n a -> fresh n l -> fresh n (a :: l).
Proof. intros; constructor; assumption. Qed.
Lemma fresh_app {A} {F : Fresh A} n (l1 l2 : list A) : fresh n l1 -> fresh n l2 -> fresh n (l1 ++ l2).
Proof. intros H1 H2. apply Forall_app. split; assumption. Qed.
Lemma fresh_in {A} {F : Fresh A} n (l : list A) x : fresh n l -> In x l -> fresh n x.
Proof. intros H Hin. exact (proj1 (Forall_forall _ _) H x Hin). Qed.
Lemma fresh_map_const_nil {A X} {F : Fresh A} n (l : list X) : fresh n (map (fun _ => @nil A) l).
Proof. induction l; constructor; [constructor | assumption]. Qed.
Lemma fresh_filter {A} {F : Fresh A} n (f : A -> bool) l : fresh n l -> fresh n (filter f l).
Proof.
  intro H. apply Forall_forall. intros x Hx. apply filter_In in Hx. exact (fresh_in n l x H (proj1 Hx)).
Qed.
Lemma fresh_pm_manifest n md : fresh n md -> fresh n (pm_manifest md).
Proof. intro H; exact H. Qed.

Lemma fresh_dget {A} {F : Fresh A} n (d : pdict A) k a : fresh n d -> dget d k = Some a -> fresh n a.
Proof.
  induction d as [|[q v] r IH]; intros H E; [discriminate|]. inversion H as [|? ? [_ Hv] Hr]; subst.
  cbn [dget] in E. destruct (str_eqb q k); [injection E as <-; exact Hv | exact (IH Hr E)].
Qed.
Lemma fresh_dset {A} {F : Fresh A} n (d : pdict A) k v : fresh n d -> fresh n v -> fresh n (dset d k v).
Proof.
  induction d as [|[q v'] r IH]; intros H Hv; cbn [dset].
  - constructor; [split; [apply triv | exact Hv] | constructor].
  - inversion H as [|? ? Hq Hr]; subst. destruct (str_eqb q k).
    + constructor; [split; [apply triv | exact Hv] | exact Hr].
    + constructor; [exact Hq | exact (IH Hr Hv)].
Qed.
Lemma fresh_ddel {A} {F : Fresh A} n (d : pdict A) k : fresh n d -> fresh n (ddel d k).
Proof.
  induction d as [|[q v] r IH]; intro H; cbn [ddel]; [constructor|].
  inversion H as [|? ? Hq Hr]; subst. destruct (str_eqb q k); [exact Hr | constructor; [exact Hq | exact (IH Hr)]].
Qed.
Lemma fresh_dupdate {A} {F : Fresh A} n (d1 d2 : pdict A) : fresh n d1 -> fresh n d2 -> fresh n (dupdate d1 d2).
Proof.
  unfold dupdate. revert d1. induction d2 as [|[q v] r IH]; intros d1 H1 H2; cbn [fold_left]; [exact H1|].
  inversion H2 as [|? ? [_ Hv] Hr]; subst. apply IH; [apply fresh_dset; assumption | exact Hr].
Qed.
Lemma fresh_dd_get {A} {F : Fresh A} n (d : pdict (list A)) k : fresh n d -> fresh n (dd_get d k).
Proof.
  intro H. unfold dd_get. destruct (dget d k) as [l|] eqn:E; [exact (fresh_dget n d k l H E) | constructor].
Qed.
Lemma fresh_dd_append {A} {F : Fresh A} n (d : pdict (list A)) k v : fresh n d -> fresh n v -> fresh n (dd_append d k v).
Proof.
  intros H Hv. unfold dd_append. apply fresh_dset; [exact H|].
  apply fresh_app; [apply fresh_dd_get; exact H | constructor; [exact Hv | constructor]].
Qed.
Lemma fresh_dd_update n (d : pdict (list Z)) k s : fresh n d -> fresh n (dd_update d k s).
Proof. intro H. unfold dd_update. apply fresh_dset; [exact H | apply triv]. Qed.
Lemma fresh_enumerate {A} {F : Fresh A} n (l : list A) : fresh n l -> fresh n (enumerate l).
Proof.
  unfold enumerate. generalize (map Z.of_nat (seq 0 (length l))) as ix.
  induction l as [|x l IH]; intros ix H; destruct ix as [|i ix]; cbn [combine]; try constructor.
  - inversion H; subst. split; [exact I | assumption].
  - inversion H; subst. apply IH. assumption.
Qed.

#[export] Hint Resolve fresh_pair fresh_LNext fresh_LBreak fresh_nil fresh_cons fresh_app fresh_map_const_nil fresh_filter
  fresh_pm_manifest fresh_dset fresh_ddel fresh_dupdate fresh_dd_get fresh_dd_append fresh_dd_update fresh_enumerate : fresh.

(* ------------------------------------------------------------------ hoare *)
Definition hoare {A} (n : nat) (c : M A) (Q : A -> Prop) : Prop :=
  forall h, (n <= length h)%nat ->
    firstn n (snd (c h)) = firstn n h /\ (length h <= length (snd (c h)))%nat /\
    forall a, fst (c h) = Some a -> Q a.

Lemma hoare_ret {A} n (a : A) (Q : A -> Prop) : Q a -> hoare n (ret a) Q.
Proof. intros H h Hn. cbn. split; [reflexivity|]. split; [lia|]. intros b E; injection E as <-; exact H. Qed.

Lemma hoare_raise {A} n (Q : A -> Prop) : hoare n raise Q.
Proof. intros h Hn. cbn. split; [reflexivity|]. split; [lia|]. intros b E; discriminate. Qed.

Lemma hoare_lift {A} n (o : option A) (Q : A -> Prop) : (forall a, o = Some a -> Q a) -> hoare n (lift o) Q.
Proof. intro H. destruct o; [apply hoare_ret; apply H; reflexivity | apply hoare_raise]. Qed.

Lemma hoare_bind {A B} n (c : M A) (f : A -> M B) (P : A -> Prop) (Q : B -> Prop) :
  hoare n c P -> (forall a, P a -> hoare n (f a) Q) -> hoare n (bind c f) Q.
Proof.
  intros Hc Hf h Hn. unfold bind. specialize (Hc h Hn). destruct (c h) as [[a|] h1]; cbn [fst snd] in *.
  - destruct Hc as (F1 & L1 & Q1). assert (Hn1 : (n <= length h1)%nat) by lia.
    specialize (Hf a (Q1 a eq_refl) h1 Hn1). destruct (f a h1) as [r h2]; cbn [fst snd] in *.
    destruct Hf as (F2 & L2 & Q2). split; [congruence|]. split; [lia | exact Q2].
  - destruct Hc as (F1 & L1 & _). split; [exact F1|]. split; [exact L1|]. intros b E; discriminate.
Qed.

Lemma hoare_bind_fresh {A B} {F : Fresh A} n k (c : M A) (f : A -> M B) (Q : B -> Prop) :
  hoare n c (fresh k) -> (forall a, fresh k a -> hoare n (f a) Q) -> hoare n (bind c f) Q.
Proof. apply hoare_bind. Qed.

Lemma hoare_conseq {A} n (c : M A) (P Q : A -> Prop) : hoare n c P -> (forall a, P a -> Q a) -> hoare n c Q.
Proof.
  intros Hc H h Hn. destruct (Hc h Hn) as (F1 & L1 & Q1). split; [exact F1|]. split; [exact L1|].
  intros a E. apply H. apply Q1. exact E.
Qed.

(* the values are fresh w.r.t. k, the frame is n: k = n where the heap is written, k = 0 (every value is fresh) where a
   piece of code only reads *)
Lemma hoare_for_each {X S} {FX : Fresh X} {FS : Fresh S} n k (l : list X) (body : X -> S -> M (loop S)) (s : S) :
  (forall x s, fresh k x -> fresh k s -> hoare n (body x s) (fresh k)) ->
  fresh k l -> fresh k s -> hoare n (for_each l body s) (fresh k).
Proof.
  intro Hb. revert s. induction l as [|x l IH]; intros s Hl Hs; cbn [for_each].
  - apply hoare_ret. exact Hs.
  - inversion Hl as [|? ? Hx Hl']; subst. eapply hoare_bind; [apply Hb; assumption|].
    intros [s'|s'] Hs'; [apply IH; assumption | apply hoare_ret; exact Hs'].
Qed.

Lemma hoare_concat_mapM {X Y} {FX : Fresh X} {FY : Fresh Y} {T : Triv Y} n k (f : X -> M (list Y)) (l : list X) :
  (forall x, fresh k x -> hoare n (f x) (fresh k)) -> fresh k l -> hoare n (concat_mapM f l) (fresh k).
Proof.
  intros Hf. induction l as [|x l IH]; intro Hl; cbn [concat_mapM].
  - apply hoare_ret. constructor.
  - inversion Hl; subst. eapply hoare_bind; [apply Hf; assumption|]. intros ys _.
    eapply hoare_bind; [apply IH; assumption|]. intros zs _. apply hoare_ret. apply triv.
Qed.

(* --- primitives that do not touch the heap *)
Lemma hoare_pure {A} n (c : M A) (Q : A -> Prop) :
  (forall h, snd (c h) = h) -> (forall h a, fst (c h) = Some a -> Q a) -> hoare n c Q.
Proof. intros H1 H2 h Hn. rewrite H1. split; [reflexivity|]. split; [lia|]. apply H2. Qed.

Lemma hoare_dget_m {A} {F : Fresh A} n k (d : pdict A) key : fresh k d -> hoare n (dget_m d key) (fresh k).
Proof. intro H. apply hoare_lift. intros a E. exact (fresh_dget k d key a H E). Qed.

Lemma hoare_ddel_m {A} {F : Fresh A} n k (d : pdict A) key : fresh k d -> hoare n (ddel_m d key) (fresh k).
Proof. intro H. unfold ddel_m. destruct (dhas d key); [apply hoare_ret; apply fresh_ddel; exact H | apply hoare_raise]. Qed.

Lemma hoare_list_get {A} {F : Fresh A} n k (l : list A) i : fresh k l -> hoare n (list_get l i) (fresh k).
Proof.
  intro H. unfold list_get. destruct (norm_index (length l) i) as [j|]; [|apply hoare_raise].
  apply hoare_lift. intros a E. apply nth_error_In in E. exact (fresh_in k l a H E).
Qed.

Lemma fresh_upd_nth {A} {F : Fresh A} n (l : list A) k v : fresh n l -> fresh n v -> fresh n (upd_nth l k (fun _ => v)).
Proof.
  revert k. induction l as [|x l IH]; intros k Hl Hv; destruct k; cbn [upd_nth]; try constructor; inversion Hl; subst; auto.
  apply IH; assumption.
Qed.

Lemma hoare_list_set {A} {F : Fresh A} n k (l : list A) i v : fresh k l -> fresh k v -> hoare n (list_set l i v) (fresh k).
Proof.
  intros H Hv. unfold list_set. destruct (norm_index (length l) i) as [j|]; [|apply hoare_raise].
  apply hoare_ret. apply fresh_upd_nth; assumption.
Qed.

Lemma hoare_pop_first n k l : hoare n (pop_first l) (fresh k).
Proof. destruct l; [apply hoare_raise | apply hoare_ret; apply triv]. Qed.
Lemma hoare_pop_last n k l : hoare n (pop_last l) (fresh k).
Proof. destruct l; [apply hoare_raise | apply hoare_ret; apply triv]. Qed.
Lemma hoare_py_int n k s : hoare n (py_int s) (fresh k).
Proof. apply hoare_lift. intros; apply triv. Qed.

Lemma hoare_isinstance_of n k parent e cs : hoare n (isinstance_of parent e cs) (fresh k).
Proof. apply hoare_pure; [reflexivity | intros; apply triv]. Qed.
Lemma hoare_hasattr_of n k has e a : hoare n (hasattr_of has e a) (fresh k).
Proof. apply hoare_pure; [reflexivity | intros; apply triv]. Qed.
Lemma hoare_attr_of {A} {F : Fresh A} {T : Triv A} n k has a (f : pentry -> A) e : hoare n (attr_of has a f e) (fresh k).
Proof.
  apply hoare_pure; [intro h; unfold attr_of; destruct (has _ a); reflexivity | intros; apply triv].
Qed.
Lemma hoare_get_replicated_ranks_of n k has e : hoare n (get_replicated_ranks_of has e) (fresh k).
Proof.
  unfold get_replicated_ranks_of. eapply hoare_bind; [apply (hoare_attr_of n k has AMesh pe_mesh e)|]. intros m _.
  eapply hoare_bind; [apply (hoare_attr_of n k has ADimMap pe_dim_map e)|]. intros dm _. apply hoare_ret. apply triv.
Qed.

(* --- heap writes: only at addresses that are fresh w.r.t. the frame *)
Lemma upd_nth_length {A} (l : list A) k f : length (upd_nth l k f) = length l.
Proof. revert k. induction l as [|x l IH]; intro k; destruct k; cbn [upd_nth length]; auto. Qed.

Lemma firstn_upd_nth {A} (l : list A) k f n : (n <= k)%nat -> firstn n (upd_nth l k f) = firstn n l.
Proof.
  revert k n. induction l as [|x l IH]; intros k n H; [destruct k; reflexivity|].
  destruct k; cbn [upd_nth].
  - assert (n = O) by lia. subst. reflexivity.
  - destruct n; [reflexivity|]. cbn [firstn]. f_equal. apply IH. lia.
Qed.

Lemma hoare_keys_remove n k has e key : fresh n e -> hoare n (keys_remove has e key) (fresh k).
Proof.
  intros He h Hn. unfold keys_remove. destruct (has (pe_cls (hget h e)) AKeys && _); cbn [fst snd].
  - split; [apply firstn_upd_nth; exact He|]. split; [rewrite upd_nth_length; lia | intros; exact I].
  - split; [reflexivity|]. split; [lia | intros ? E; discriminate].
Qed.
Lemma hoare_keys_append n k has e key : fresh n e -> hoare n (keys_append has e key) (fresh k).
Proof.
  intros He h Hn. unfold keys_append. destruct (has (pe_cls (hget h e)) AKeys); cbn [fst snd].
  - split; [apply firstn_upd_nth; exact He|]. split; [rewrite upd_nth_length; lia | intros; exact I].
  - split; [reflexivity|]. split; [lia | intros ? E; discriminate].
Qed.

(* --- allocation: the new objects lie beyond the frame *)
Lemma firstn_app_le {A} (l1 l2 : list A) n : (n <= length l1)%nat -> firstn n (l1 ++ l2) = firstn n l1.
Proof. intro H. rewrite firstn_app. replace (n - length l1)%nat with O by lia. cbn. apply app_nil_r. Qed.

Lemma hoare_new_entry n k e : (k <= n)%nat -> hoare n (new_entry e) (fresh k).
Proof.
  intros Hk h Hn. unfold new_entry; cbn [fst snd]. split; [apply firstn_app_le; exact Hn|].
  split; [rewrite app_length; lia|]. intros a E. injection E as <-. unfold fresh, fresh_addr. lia.
Qed.

Lemma hoare_deepcopy_dicts n k ds : (k <= n)%nat -> hoare n (deepcopy_dicts ds) (fresh k).
Proof.
  intros Hk h Hn. unfold deepcopy_dicts; cbn [fst snd]. split; [apply firstn_app_le; exact Hn|].
  split; [rewrite app_length; lia|]. intros a E. injection E as <-.
  apply Forall_forall. intros d Hd. apply in_map_iff in Hd. destruct Hd as (d0 & <- & _).
  apply Forall_forall. intros ka Hka. apply in_map_iff in Hka. destruct Hka as (ka0 & <- & _).
  split; [apply triv | cbn [snd]; unfold fresh, fresh_addr; lia].
Qed.

Lemma hoare_deepcopy_dict n k d : (k <= n)%nat -> hoare n (deepcopy_dict d) (fresh k).
Proof.
  intro Hk. unfold deepcopy_dict. eapply hoare_bind; [apply (hoare_deepcopy_dicts n k); exact Hk|]. intros ds Hds.
  destruct ds as [|d' [|? ?]]; try apply hoare_raise. apply hoare_ret. inversion Hds; subst; assumption.
Qed.

(* every value is fresh w.r.t. 0 *)
Lemma fresh0_dict (d : pdict addr) : fresh 0%nat d.
Proof. apply Forall_forall. intros ka _. split; [apply triv | unfold fresh, fresh_addr; lia]. Qed.
Lemma fresh0_dicts (ds : list (pdict addr)) : fresh 0%nat ds.
Proof. apply Forall_forall. intros d _. apply fresh0_dict. Qed.

#[export] Hint Resolve hoare_dget_m hoare_ddel_m hoare_list_get hoare_list_set hoare_pop_first hoare_pop_last hoare_py_int
  hoare_isinstance_of hoare_hasattr_of hoare_get_replicated_ranks_of hoare_keys_remove hoare_keys_append
  hoare_new_entry hoare_deepcopy_dicts hoare_deepcopy_dict hoare_raise : hoare.
#[export] Hint Extern 1 (hoare _ (attr_of _ _ _ _) _) => apply hoare_attr_of : hoare.
#[export] Hint Extern 1 (_ <= _)%nat => lia : hoare.
#[export] Hint Resolve fresh0_dict fresh0_dicts : fresh.

(* ------------------------------------------------------------------ the walk *)
Ltac split_fresh :=
  cbn [fst snd] in *;
  repeat (match goal with
          | H : fresh _ (_, _) |- _ => destruct H
          end; cbn [fst snd] in *).

(* a bind: first with the values fresh w.r.t. the level of the goal; if the first computation cannot be shown to
   produce such values (it handles objects of the caller, e.g. the metadata's own entries) it is walked at level 0,
   where it may read but not write, and what follows must re-establish freshness itself (copy.deepcopy, constructors) *)
Ltac hoare_step :=
  cbv beta zeta iota;
  lazymatch goal with
  | |- hoare ?n (bind _ _) (fresh ?k) =>
      let a := fresh "a" in let Ha := fresh "Ha" in
      first [ eapply (hoare_bind_fresh n k); [ solve [hoare_auto] | intros a Ha ]
            | eapply (hoare_bind_fresh n 0%nat); [ solve [hoare_auto] | intros a Ha ] ]
  | |- hoare _ (ret _) _ => apply hoare_ret; cbv zeta; eauto 8 with fresh
  | |- hoare _ (if ?b then _ else _) _ => destruct b
  | |- hoare _ (match ?x with (_, _) => _ end) _ => destruct x; split_fresh
  | |- hoare _ ((match ?x with (_, _) => _ end) _) _ => destruct x; split_fresh
  | |- hoare _ (for_each _ _ _) _ =>
      apply hoare_for_each; [ let x := fresh "x" in let s := fresh "s" in let Hx := fresh "Hx" in let Hs := fresh "Hs" in
                              intros x s Hx Hs | cbv zeta; eauto 8 with fresh | cbv zeta; eauto 8 with fresh ]
  | |- hoare _ (concat_mapM _ _) _ =>
      apply hoare_concat_mapM; [ let x := fresh "x" in let Hx := fresh "Hx" in intros x Hx | cbv zeta; eauto 8 with fresh ]
  | |- hoare _ _ _ => solve [ eauto 8 with hoare fresh ]
  end
with hoare_auto := repeat hoare_step.
