(* C16 (part 2): proofs about slab batching, staging and merged reads. *)
From TS Require Import model.Base model.Chunk model.Batch proofs.ChunkProofs.
From Coq Require Import Permutation.

(* ------------------------------------------------------------------ slices *)
Lemma blen_nonneg {A} (l : list A) : 0 <= blen l.
Proof. unfold blen; lia. Qed.

Lemma blen_app {A} (a b : list A) : blen (a ++ b) = blen a + blen b.
Proof. unfold blen. rewrite app_length. lia. Qed.

Lemma skipn_plus' {A} (l : list A) : forall n m, skipn m (skipn n l) = skipn (n + m) l.
Proof.
  induction l as [|x l IH]; intros n m.
  - rewrite !skipn_nil. reflexivity.
  - destruct n as [|n]; [reflexivity|]. cbn. apply IH.
Qed.

Lemma blen_slice {A} (l : list A) a b :
  0 <= a <= b -> blen (slice l a b) = Z.max 0 (Z.min b (blen l) - a).
Proof.
  intros H. unfold slice, blen. rewrite firstn_length, skipn_length. lia.
Qed.

Lemma slice_nil_range {A} (l : list A) a b : b <= a -> slice l a b = [].
Proof. intros H. unfold slice. replace (Z.to_nat (b - a)) with 0%nat by lia. reflexivity. Qed.

Lemma slice_app_l {A} (l1 l2 : list A) a b :
  0 <= a -> b <= blen l1 -> slice (l1 ++ l2) a b = slice l1 a b.
Proof.
  intros Ha Hb. destruct (Z.le_gt_cases b a) as [Hba | Hab]; [rewrite !slice_nil_range by lia; reflexivity|].
  unfold slice, blen in *. rewrite skipn_app, firstn_app.
  replace (Z.to_nat (b - a) - length (skipn (Z.to_nat a) l1))%nat with 0%nat by (rewrite skipn_length; lia).
  cbn [firstn]. rewrite app_nil_r. reflexivity.
Qed.

Lemma slice_app_r {A} (l1 l2 : list A) a b :
  blen l1 <= a -> slice (l1 ++ l2) a b = slice l2 (a - blen l1) (b - blen l1).
Proof.
  intros Ha. unfold slice, blen in *. rewrite skipn_app.
  rewrite (skipn_all2 l1) by lia. cbn [app].
  replace (Z.to_nat a - length l1)%nat with (Z.to_nat (a - Z.of_nat (length l1))) by lia.
  replace (b - Z.of_nat (length l1) - (a - Z.of_nat (length l1))) with (b - a) by lia. reflexivity.
Qed.

Lemma slice_firstn {A} (s : list A) n a b :
  0 <= a -> b <= n -> slice (firstn (Z.to_nat n) s) a b = slice s a b.
Proof.
  intros Ha Hb. destruct (Z.le_gt_cases b a) as [Hba | Hab]; [rewrite !slice_nil_range by lia; reflexivity|].
  unfold slice. rewrite skipn_firstn_comm, firstn_firstn. f_equal. lia.
Qed.

Lemma slice_skipn {A} (s : list A) n a b :
  0 <= a -> 0 <= n -> slice (skipn (Z.to_nat n) s) a b = slice s (a + n) (b + n).
Proof.
  intros Ha Hn. unfold slice. rewrite skipn_plus'. f_equal; [lia | f_equal; lia].
Qed.

Lemma slice_slice {A} (obj : list A) L H lo hi :
  0 <= L <= lo -> hi <= H -> slice (slice obj L H) (lo - L) (hi - L) = slice obj lo hi.
Proof.
  intros HL HH. unfold slice at 2. rewrite slice_firstn by lia. rewrite slice_skipn by lia.
  f_equal; lia.
Qed.

Lemma slice_clamp {A} (l : list A) a b :
  0 <= a -> 0 <= b -> slice l (Z.min a (blen l)) (Z.min b (blen l)) = slice l a b.
Proof.
  intros Ha Hb. pose proof (blen_nonneg l) as Hn.
  destruct (Z.le_gt_cases b a) as [Hba | Hab]; [rewrite !slice_nil_range by lia; reflexivity|].
  destruct (Z.le_gt_cases (blen l) a) as [Hbig | Hsmall].
  - unfold slice, blen in *. rewrite !skipn_all2 by lia. rewrite !firstn_nil. reflexivity.
  - replace (Z.min a (blen l)) with a by lia.
    destruct (Z.le_gt_cases b (blen l)) as [Hfit | Hover]; [replace (Z.min b (blen l)) with b by lia; reflexivity|].
    replace (Z.min b (blen l)) with (blen l) by lia.
    unfold slice, blen in *. rewrite !firstn_all2; [reflexivity | rewrite skipn_length; lia | rewrite skipn_length; lia].
Qed.

Lemma pyslice_nonneg {A} (l : list A) a b : 0 <= a -> 0 <= b -> pyslice l a b = slice l a b.
Proof.
  intros Ha Hb. unfold pyslice, pynorm.
  destruct (a <? 0) eqn:E1; [lia|]. destruct (b <? 0) eqn:E2; [lia|]. apply slice_clamp; assumption.
Qed.

(* ------------------------------------------------------------------ splice *)
Lemma blen_firstn_le {A} (s : list A) n : 0 <= n <= blen s -> blen (firstn (Z.to_nat n) s) = n.
Proof. intros H. unfold blen in *. rewrite firstn_length. lia. Qed.

Lemma blen_splice s lo hi buf :
  0 <= lo <= hi -> hi <= blen s -> blen buf = hi - lo -> blen (splice s lo hi buf) = blen s.
Proof.
  intros H1 H2 H3. unfold splice. rewrite !blen_app, blen_firstn_le by lia.
  unfold blen in *. rewrite skipn_length. lia.
Qed.

Lemma slice_splice_same s lo hi buf :
  0 <= lo <= hi -> hi <= blen s -> blen buf = hi - lo -> slice (splice s lo hi buf) lo hi = buf.
Proof.
  intros H1 H2 H3. unfold splice.
  rewrite slice_app_r by (rewrite blen_firstn_le; lia). rewrite blen_firstn_le by lia.
  rewrite slice_app_l by lia. replace (lo - lo) with 0 by lia.
  unfold slice. cbn [Z.to_nat skipn]. rewrite firstn_all2; [reflexivity | unfold blen in *; lia].
Qed.

Lemma slice_splice_other s lo hi buf a b :
  0 <= lo <= hi -> hi <= blen s -> blen buf = hi - lo -> 0 <= a <= b ->
  b <= lo \/ hi <= a -> slice (splice s lo hi buf) a b = slice s a b.
Proof.
  intros H1 H2 H3 Hab [Hl | Hr]; unfold splice.
  - rewrite slice_app_l by (rewrite ?blen_firstn_le; lia). apply slice_firstn; lia.
  - rewrite slice_app_r by (rewrite blen_firstn_le; lia). rewrite blen_firstn_le by lia.
    rewrite slice_app_r by lia. rewrite H3.
    rewrite slice_skipn by lia. f_equal; lia.
Qed.

(* ------------------------------------------------------------------ staging a slab *)
Lemma stage_from_app ms : forall slab x,
  stage_from slab (ms ++ [x]) = match stage_from slab ms with
                                | Some s' => stage_from s' [x]
                                | None => None
                                end.
Proof.
  induction ms as [|[[lo hi] buf] ms IH]; intros slab x; [cbn [app stage_from]; destruct x as [[? ?] ?]; reflexivity|].
  cbn [app stage_from]. destruct (blen buf =? hi - lo); [apply IH | reflexivity].
Qed.

Definition st_lo (x : Z * Z * bytes) : Z := fst (fst x).
Definition st_hi (x : Z * Z * bytes) : Z := snd (fst x).
Definition st_buf (x : Z * Z * bytes) : bytes := snd x.

(* members that are staged: inside the slab, declared length, and any two are equal or do not overlap *)
Definition stageable (sz : Z) (ms : list (Z * Z * bytes)) : Prop :=
  (forall x, In x ms -> 0 <= st_lo x <= st_hi x /\ st_hi x <= sz /\ blen (st_buf x) = st_hi x - st_lo x)
  /\ (forall x y, In x ms -> In y ms -> x = y \/ st_hi x <= st_lo y \/ st_hi y <= st_lo x).

Lemma stage_any_order sz (order : list (Z * Z * bytes)) :
  0 <= sz -> stageable sz order ->
  exists slab, stage_slab sz order = Some slab /\ blen slab = sz /\
               forall x, In x order -> slice slab (st_lo x) (st_hi x) = st_buf x.
Proof.
  intros Hsz. unfold stage_slab.
  induction order as [|x order IH] using rev_ind; intros [Hwf Hdis].
  - eexists; split; [reflexivity|]. split; [|intros ? []].
    unfold blen. rewrite repeat_length. lia.
  - destruct IH as (slab & Hst & Hlen & Hok).
    { split; [intros y Hy; apply Hwf; apply in_or_app; auto|].
      intros y z Hy Hz; apply Hdis; apply in_or_app; auto. }
    rewrite stage_from_app, Hst. destruct x as [[lo hi] buf].
    destruct (Hwf (lo, hi, buf) ltac:(apply in_or_app; right; left; reflexivity)) as (H1 & H2 & H3).
    unfold st_lo, st_hi, st_buf in H1, H2, H3. cbn [fst snd] in H1, H2, H3.
    cbn [stage_from]. rewrite H3, Z.eqb_refl.
    eexists; split; [reflexivity|]. split; [rewrite blen_splice; lia|].
    intros y Hy. apply in_app_or in Hy as [Hy | [<- | []]].
    + destruct (Hdis y (lo, hi, buf) ltac:(apply in_or_app; auto) ltac:(apply in_or_app; right; left; reflexivity))
        as [-> | Hd].
      * unfold st_lo, st_hi, st_buf; cbn [fst snd]. apply slice_splice_same; lia.
      * destruct (Hwf y ltac:(apply in_or_app; auto)) as (Hy1 & Hy2 & Hy3).
        change (st_hi (lo, hi, buf)) with hi in Hd. change (st_lo (lo, hi, buf)) with lo in Hd.
        rewrite slice_splice_other by lia.
        apply Hok; assumption.
    + unfold st_lo, st_hi, st_buf; cbn [fst snd]. apply slice_splice_same; lia.
Qed.

(* consecutive ranges (lo <= hi each) starting at cur >= 0 : bounds and separation *)
Lemma consecutive_bounds cur rs fin : consecutive cur rs fin ->
  forall r, In r rs -> cur <= fst r /\ fst r <= snd r /\ snd r <= fin.
Proof.
  revert cur; induction rs as [|[lo hi] rs IH]; intros cur H r Hin; [contradiction|].
  cbn in H. destruct H as (-> & Hle & H). pose proof (consecutive_le _ _ _ H) as Hfin.
  destruct Hin as [<- | Hin]; cbn [fst snd]; [lia|].
  specialize (IH hi H r Hin). lia.
Qed.

Lemma consecutive_app cur rs fin fin' :
  consecutive cur rs fin -> fin <= fin' -> consecutive cur (rs ++ [(fin, fin')]) fin'.
Proof.
  revert cur; induction rs as [|[lo hi] rs IH]; intros cur H Hle; cbn in *.
  - subst. repeat split; lia.
  - destruct H as (-> & Hl & H). repeat split; try lia. apply IH; assumption.
Qed.

(* two positions of a consecutive list: equal entries, or separated *)
Lemma consecutive_separated {B} (f : B -> Z * Z) (l : list B) : forall cur fin,
  consecutive cur (map f l) fin ->
  forall x y, In x l -> In y l ->
    x = y \/ snd (f x) <= fst (f y) \/ snd (f y) <= fst (f x) \/ (f x = f y /\ fst (f x) = snd (f x)).
Proof.
  induction l as [|z l IH]; intros cur fin H x y Hx Hy; [contradiction|].
  cbn [map] in H. destruct (f z) as [lo hi] eqn:Ez. cbn in H. destruct H as (-> & Hle & H).
  pose proof (consecutive_bounds _ _ _ H) as Hb.
  destruct Hx as [<- | Hx]; destruct Hy as [<- | Hy].
  - left; reflexivity.
  - right; left. rewrite Ez. cbn [snd]. specialize (Hb (f y) (in_map f _ _ Hy)). lia.
  - right; right; left. rewrite Ez. cbn [snd]. specialize (Hb (f x) (in_map f _ _ Hx)). lia.
  - eapply IH; eassumption.
Qed.

(* ------------------------------------------------------------------ Python dicts *)
Section Dict.
  Context {K V : Type} (eqb : K -> K -> bool).
  Hypothesis eqb_eq : forall a b, eqb a b = true <-> a = b.

  Lemma dict_set_in k0 v0 (d : list (K * V)) k v :
    In (k, v) (dict_set eqb k0 v0 d) -> (k = k0 /\ v = v0) \/ In (k, v) d.
  Proof.
    induction d as [|[k' v'] d IH]; cbn [dict_set]; intros H.
    - destruct H as [H | []]. inversion H; auto.
    - destruct (eqb k' k0) eqn:E.
      + apply eqb_eq in E. subst k'. destruct H as [H | H]; [inversion H; auto | right; right; assumption].
      + destruct H as [H | H]; [right; left; assumption|]. apply IH in H as [H | H]; [auto | right; right; assumption].
  Qed.

  Lemma dict_set_new k0 v0 (d : list (K * V)) : In (k0, v0) (dict_set eqb k0 v0 d).
  Proof.
    induction d as [|[k' v'] d IH]; cbn [dict_set]; [left; reflexivity|].
    destruct (eqb k' k0) eqn:E; [apply eqb_eq in E; subst; left; reflexivity | right; assumption].
  Qed.

  Lemma dict_set_keep k0 v0 (d : list (K * V)) k v : k <> k0 -> In (k, v) d -> In (k, v) (dict_set eqb k0 v0 d).
  Proof.
    intros Hne. induction d as [|[k' v'] d IH]; cbn [dict_set]; intros H; [contradiction|].
    destruct (eqb k' k0) eqn:E.
    - apply eqb_eq in E. subst k'. destruct H as [H | H]; [inversion H; congruence | right; assumption].
    - destruct H as [H | H]; [left; assumption | right; apply IH; assumption].
  Qed.

  Lemma dict_set_fresh k0 v0 (d : list (K * V)) : ~ In k0 (map fst d) -> dict_set eqb k0 v0 d = d ++ [(k0, v0)].
  Proof.
    induction d as [|[k' v'] d IH]; cbn [dict_set map fst app]; intros H; [reflexivity|].
    destruct (eqb k' k0) eqn:E; [apply eqb_eq in E; subst; exfalso; apply H; left; reflexivity|].
    f_equal. apply IH. intros Hin; apply H; right; assumption.
  Qed.

  Lemma dict_of_snoc (l : list (K * V)) x : dict_of eqb (l ++ [x]) = dict_set eqb (fst x) (snd x) (dict_of eqb l).
  Proof. unfold dict_of. rewrite fold_left_app. reflexivity. Qed.

  (* an entry of the dict was assigned at some point *)
  Lemma dict_of_sound (l : list (K * V)) k v : In (k, v) (dict_of eqb l) -> In (k, v) l.
  Proof.
    induction l as [|x l IH] using rev_ind; [intros []|].
    rewrite dict_of_snoc. intros H. apply dict_set_in in H as [[-> ->] | H].
    - apply in_or_app; right; left. destruct x; reflexivity.
    - apply in_or_app; left; apply IH; assumption.
  Qed.

  (* an assignment survives when no other value is ever assigned to the same key *)
  Lemma dict_of_complete (l : list (K * V)) k v :
    In (k, v) l -> (forall v', In (k, v') l -> v' = v) -> In (k, v) (dict_of eqb l).
  Proof.
    induction l as [|x l IH] using rev_ind; [intros []|].
    intros Hin Huniq. rewrite dict_of_snoc. destruct x as [k0 v0]. cbn [fst snd].
    destruct (eqb k0 k) eqn:E.
    - apply eqb_eq in E. subst k0.
      rewrite (Huniq v0) by (apply in_or_app; right; left; reflexivity). apply dict_set_new.
    - assert (Hne : k <> k0) by (intros ->; assert (eqb k0 k0 = true) by (apply eqb_eq; reflexivity); congruence).
      apply dict_set_keep; [assumption|]. apply IH.
      + apply in_app_or in Hin as [Hin | [Hin | []]]; [assumption | inversion Hin; congruence].
      + intros v' Hv'. apply Huniq. apply in_or_app; left; assumption.
  Qed.

  Lemma dict_get_in (d : list (K * V)) k v : dict_get eqb k d = Some v -> In (k, v) d.
  Proof.
    induction d as [|[k' v'] d IH]; cbn [dict_get]; [discriminate|].
    destruct (eqb k' k) eqn:E; intros H.
    - apply eqb_eq in E. inversion H; subst. left; reflexivity.
    - right; apply IH; assumption.
  Qed.

  Lemma dict_get_notin (d : list (K * V)) k : ~ In k (map fst d) -> dict_get eqb k d = None.
  Proof.
    induction d as [|[k' v'] d IH]; cbn [dict_get map fst]; intros H; [reflexivity|].
    destruct (eqb k' k) eqn:E; [apply eqb_eq in E; subst; exfalso; apply H; left; reflexivity|].
    apply IH. intros Hin; apply H; right; assumption.
  Qed.

  Lemma dict_get_nodup (d : list (K * V)) k v : NoDup (map fst d) -> In (k, v) d -> dict_get eqb k d = Some v.
  Proof.
    induction d as [|[k' v'] d IH]; cbn [dict_get map fst]; intros Hnd Hin; [contradiction|].
    inversion Hnd as [|? ? Hnotin Hnd']; subst.
    destruct Hin as [Hin | Hin].
    - inversion Hin; subst. assert (E : eqb k k = true) by (apply eqb_eq; reflexivity). rewrite E. reflexivity.
    - destruct (eqb k' k) eqn:E.
      + apply eqb_eq in E. subst k'. exfalso. apply Hnotin. change k with (fst (k, v)). apply in_map; assumption.
      + apply IH; assumption.
  Qed.
End Dict.

Lemma range_eqb_eq a b : range_eqb a b = true <-> a = b.
Proof.
  destruct a as [a1 a2], b as [b1 b2]. unfold range_eqb. cbn [fst snd].
  rewrite andb_true_iff, !Z.eqb_eq. split; [intros [-> ->]; reflexivity | intros H; inversion H; auto].
Qed.

(* ------------------------------------------------------------------ batch_write: invariant of the fold *)
Definition w_path (w : wreq) : Z := fst (fst w).
Definition w_batchable (w : wreq) : bool := snd (fst w).
Definition w_size (w : wreq) : Z := snd w.

(* the requests that go into a slab: batchable and strictly below the threshold *)
Definition small (T : Z) (w : wreq) : bool := w_batchable w && (w_size w <? T).

Definition m_range (m : member) : Z * Z := (m_lo m, m_hi m).

(* members tagged with the index of their slab *)
Fixpoint flat_from (i : Z) (slabs : list (list member)) : list (Z * member) :=
  match slabs with
  | [] => []
  | s :: r => map (pair i) s ++ flat_from (i + 1) r
  end.

Definition flat_out (slabs : list (Z * list member)) : list (Z * member) :=
  flat_map (fun ks => map (pair (fst ks)) (snd ks)) slabs.

Lemma flat_from_app slabs1 : forall i slabs2,
  flat_from i (slabs1 ++ slabs2) = flat_from i slabs1 ++ flat_from (i + blen slabs1) slabs2.
Proof.
  induction slabs1 as [|s r IH]; intros i slabs2; cbn [app flat_from].
  - f_equal. unfold blen. cbn. lia.
  - rewrite IH, <- app_assoc. do 3 f_equal. unfold blen. cbn [length]. lia.
Qed.

Lemma flat_from_index slabs : forall i,
  flat_from i slabs = flat_out (index_from i slabs).
Proof.
  induction slabs as [|s r IH]; intros i; [reflexivity|].
  cbn [flat_from index_from flat_out flat_map fst snd]. f_equal. apply IH.
Qed.

Lemma index_from_app {A} (l1 : list A) : forall i l2,
  index_from i (l1 ++ l2) = index_from i l1 ++ index_from (i + blen l1) l2.
Proof.
  induction l1 as [|x r IH]; intros i l2; cbn [app index_from].
  - f_equal. unfold blen; cbn; lia.
  - f_equal. rewrite IH. do 2 f_equal. unfold blen. cbn [length]. lia.
Qed.

Lemma slab_sz_snoc s m : slab_sz (s ++ [m]) = slab_sz s + (m_hi m - m_lo m).
Proof. unfold slab_sz. rewrite map_app, sumZ_app. cbn. lia. Qed.

Definition good_slab (T : Z) (s : list member) : Prop :=
  s <> [] /\ consecutive 0 (map m_range s) (slab_sz s) /\ slab_sz s < T.

Definition m_tag (km : Z * member) : Z * Z := (m_path (snd km), m_hi (snd km) - m_lo (snd km)).
Definition m_reloc (km : Z * member) : Z * (Z * Z * Z) := (m_path (snd km), (fst km, m_lo (snd km), m_hi (snd km))).

Record bw_inv (T : Z) (done : list wreq) (st : bstate) : Prop := {
  inv_pass : bs_pass st = filter (fun w => negb (small T w)) done;
  inv_members : map m_tag (flat_from 0 (bs_closed st ++ [bs_cur st]))
                = map (fun w => (w_path w, w_size w)) (filter (small T) done);
  inv_reloc : bs_reloc st = map m_reloc (flat_from 0 (bs_closed st ++ [bs_cur st]));
  inv_closed : Forall (good_slab T) (bs_closed st);
  inv_cur : consecutive 0 (map m_range (bs_cur st)) (slab_sz (bs_cur st)) /\ slab_sz (bs_cur st) < T
            /\ (bs_cur st = [] -> bs_closed st = [])
}.

Lemma bw_inv_init T : 1 <= T -> bw_inv T [] bs_init.
Proof.
  intros HT. constructor; cbn; try reflexivity; try (constructor; fail).
  all: repeat split; try reflexivity; try (constructor; fail); unfold slab_sz; cbn; lia.
Qed.

Lemma flat_paths_subset T done st :
  bw_inv T done st -> forall p, In p (map fst (bs_reloc st)) -> In p (map w_path done).
Proof.
  intros Hinv p Hp. rewrite (inv_reloc _ _ _ Hinv) in Hp. rewrite map_map in Hp.
  assert (Hp' : In p (map fst (map m_tag (flat_from 0 (bs_closed st ++ [bs_cur st]))))) by (rewrite map_map; exact Hp).
  rewrite (inv_members _ _ _ Hinv), map_map in Hp'. cbn [fst] in Hp'.
  apply in_map_iff in Hp' as (w & <- & Hw). apply filter_In in Hw as [Hw _]. apply in_map; assumption.
Qed.

Lemma bw_step_inv T done st w :
  1 <= T -> 0 <= w_size w -> ~ In (w_path w) (map w_path done) ->
  bw_inv T done st -> bw_inv T (done ++ [w]) (bw_step T st w).
Proof.
  intros HT Hsz Hfresh Hinv. destruct w as [[p b] sz].
  unfold w_size, w_path in Hsz, Hfresh. cbn [fst snd] in Hsz, Hfresh.
  assert (Hsmall : small T (p, b, sz) = b && (sz <? T)) by reflexivity.
  unfold bw_step.
  destruct b; cbn [negb].
  2:{ (* not batchable *)
    destruct Hinv as [H1 H2 H3 H4 H5].
    constructor; cbn [bs_pass bs_closed bs_cur bs_reloc]; rewrite ?filter_app; cbn [filter]; rewrite ?Hsmall; cbn [andb negb];
      rewrite ?app_nil_r; try assumption. rewrite H1. reflexivity. }
  destruct (sz >=? T) eqn:Ege.
  { (* too large *)
    assert (Hlt : (sz <? T) = false) by lia.
    destruct Hinv as [H1 H2 H3 H4 H5].
    constructor; cbn [bs_pass bs_closed bs_cur bs_reloc]; rewrite ?filter_app; cbn [filter]; rewrite ?Hsmall, ?Hlt; cbn [andb negb];
      rewrite ?app_nil_r; try assumption. rewrite H1. reflexivity. }
  assert (Hlt : (sz <? T) = true) by lia.
  pose proof (flat_paths_subset T done st Hinv) as Hsub.
  destruct Hinv as [H1 H2 H3 H4 (H5a & H5b & H5c)].
  (* in both branches the tagged member list grows by exactly one entry at the end *)
  set (cl := if slab_sz (bs_cur st) + sz >=? T then (bs_closed st ++ [bs_cur st], []) else (bs_closed st, bs_cur st)).
  assert (Hflat : flat_from 0 (fst cl ++ [snd cl ++ [(p, slab_sz (snd cl), slab_sz (snd cl) + sz)]])
                  = flat_from 0 (bs_closed st ++ [bs_cur st]) ++ [(blen (fst cl), (p, slab_sz (snd cl), slab_sz (snd cl) + sz))]).
  { unfold cl. destruct (slab_sz (bs_cur st) + sz >=? T); cbn [fst snd].
    - rewrite (flat_from_app (bs_closed st ++ [bs_cur st])). cbn [flat_from app map]. rewrite ?app_nil_r, ?Z.add_0_l. reflexivity.
    - rewrite !flat_from_app. cbn [flat_from]. rewrite ?app_nil_r, ?Z.add_0_l, map_app, app_assoc. reflexivity. }
  assert (Hgood : Forall (good_slab T) (fst cl)
                  /\ consecutive 0 (map m_range (snd cl)) (slab_sz (snd cl)) /\ slab_sz (snd cl) + sz < T).
  { unfold cl. destruct (slab_sz (bs_cur st) + sz >=? T) eqn:Enew; cbn [fst snd].
    - split; [|split; [reflexivity | cbn; lia]].
      apply Forall_app; split; [assumption|]. constructor; [|constructor].
      unfold good_slab. repeat split; try assumption.
      intros Hnil. rewrite Hnil in Enew. cbn in Enew. lia.
    - repeat split; try assumption. lia. }
  destruct cl as [closed cur] eqn:Ecl. cbn [fst snd] in Hflat, Hgood. destruct Hgood as (G1 & G2 & G3).
  pose proof (consecutive_le _ _ _ G2) as Hnn.
  constructor; cbn [bs_pass bs_closed bs_cur bs_reloc].
  - rewrite filter_app. cbn [filter]. rewrite Hsmall, Hlt. cbn [andb negb]. rewrite app_nil_r. assumption.
  - rewrite Hflat, map_app, H2, filter_app. cbn [filter]. rewrite Hsmall, Hlt. cbn [andb].
    rewrite map_app. f_equal. cbn. unfold m_tag, m_path, m_hi, m_lo, w_path, w_size. cbn [fst snd].
    do 2 f_equal. lia.
  - rewrite Hflat, map_app, <- H3. cbn [map]. unfold m_reloc, m_path, m_lo, m_hi. cbn [fst snd].
    apply (dict_set_fresh Z.eqb Z.eqb_eq). intros Hin. apply Hfresh. apply Hsub. assumption.
  - assumption.
  - split; [|split].
    + rewrite map_app, slab_sz_snoc. cbn [map]. unfold m_range, m_lo, m_hi. cbn [fst snd].
      replace (slab_sz cur + (slab_sz cur + sz - slab_sz cur)) with (slab_sz cur + sz) by lia.
      apply consecutive_app; [assumption | lia].
    + rewrite slab_sz_snoc. unfold m_hi, m_lo. cbn [fst snd]. lia.
    + intros Hnil. destruct cur; discriminate.
Qed.

Lemma bw_inv_all T reqs :
  1 <= T -> Forall (fun w => 0 <= w_size w) reqs -> NoDup (map w_path reqs) ->
  bw_inv T reqs (fold_left (bw_step T) reqs bs_init).
Proof.
  intros HT. induction reqs as [|w reqs IH] using rev_ind; intros Hsz Hnd.
  - apply bw_inv_init; assumption.
  - rewrite fold_left_app. cbn [fold_left].
    apply Forall_app in Hsz as [Hsz Hw]. inversion Hw; subst.
    rewrite map_app in Hnd. cbn [map] in Hnd.
    apply bw_step_inv; try assumption.
    + apply NoDup_remove_2 in Hnd. rewrite app_nil_r in Hnd. assumption.
    + apply IH; [assumption|]. apply NoDup_remove_1 in Hnd. rewrite app_nil_r in Hnd. assumption.
Qed.

(* ------------------------------------------------------------------ batch_write: what comes out *)
Lemma filter_all {A} (f : A -> bool) l : (forall x, In x l -> f x = true) -> filter f l = l.
Proof.
  induction l as [|x l IH]; intros H; [reflexivity|]. cbn [filter].
  rewrite (H x (or_introl eq_refl)). f_equal. apply IH. intros y Hy; apply H; right; assumption.
Qed.

Lemma index_from_snd {A} (l : list A) : forall i ks, In ks (index_from i l) -> In (snd ks) l.
Proof.
  induction l as [|x l IH]; intros i ks H; [contradiction|].
  destruct H as [<- | H]; [left; reflexivity | right; eapply IH; eassumption].
Qed.

Lemma index_from_fst {A} (l : list A) : forall i,
  map fst (index_from i l) = map (fun j => i + Z.of_nat j) (seq 0 (length l)).
Proof.
  induction l as [|x l IH]; intros i; [reflexivity|].
  cbn [index_from map length seq fst]. f_equal; [lia|].
  rewrite IH, <- seq_shift, map_map. apply map_ext. intros j. lia.
Qed.

Lemma index_from_length {A} (l : list A) : forall i, length (index_from i l) = length l.
Proof. induction l as [|x l IH]; intros i; cbn; auto. Qed.

Lemma consecutive_ordpairs {B} (f : B -> Z * Z) (l : list B) : forall cur fin,
  consecutive cur (map f l) fin -> ForallOrdPairs (fun a b => snd (f a) <= fst (f b)) l.
Proof.
  induction l as [|z l IH]; intros cur fin H; [constructor|].
  cbn [map] in H. destruct (f z) as [lo hi] eqn:Ez. cbn in H. destruct H as (-> & Hle & H).
  constructor; [|eapply IH; eassumption].
  rewrite Forall_forall. intros y Hy. rewrite Ez. cbn [snd].
  pose proof (consecutive_bounds _ _ _ H (f y) (in_map f _ _ Hy)). lia.
Qed.

Lemma NoDup_map_filter {A B} (f : A -> B) (g : A -> bool) l : NoDup (map f l) -> NoDup (map f (filter g l)).
Proof.
  induction l as [|x l IH]; intros H; [constructor|]. cbn [map] in H. inversion H as [|? ? Hn Hnd]; subst.
  cbn [filter]. destruct (g x); [|apply IH; assumption].
  cbn [map]. constructor; [|apply IH; assumption].
  intros Hin. apply Hn. apply in_map_iff in Hin as (y & Hy & Hin). apply filter_In in Hin as [Hin _].
  rewrite <- Hy. apply in_map; assumption.
Qed.

Lemma NoDup_map_inj_in {A B} (f : A -> B) l a b : NoDup (map f l) -> In a l -> In b l -> f a = f b -> a = b.
Proof.
  induction l as [|x l IH]; intros Hnd Ha Hb Hf; [contradiction|].
  cbn [map] in Hnd. inversion Hnd as [|? ? Hn Hnd']; subst.
  destruct Ha as [<- | Ha]; destruct Hb as [<- | Hb]; try reflexivity.
  - exfalso; apply Hn. rewrite Hf. apply in_map; assumption.
  - exfalso; apply Hn. rewrite <- Hf. apply in_map; assumption.
  - apply IH; assumption.
Qed.

Lemma in_flat_out slabs k m :
  In (k, m) (flat_out slabs) <-> exists ms, In (k, ms) slabs /\ In m ms.
Proof.
  unfold flat_out. rewrite in_flat_map. split.
  - intros ([k' ms] & Hin & Hm). cbn [fst snd] in Hm. apply in_map_iff in Hm as (m' & Heq & Hm').
    inversion Heq; subst. exists ms; auto.
  - intros (ms & Hin & Hm). exists (k, ms). split; [assumption|]. cbn [fst snd]. apply in_map; assumption.
Qed.

(* The write plan, for every threshold T >= 1 and every request list with non-negative sizes and distinct paths:
   1. pass-through = exactly the requests that are not (batchable and < T), unchanged and in order;
   2. every slab is non-empty, its member ranges are consecutive from 0 (each lo <= hi) and end at the slab
      size, which is < T;
   3. slab indices are 0, 1, 2, ... (only a never-used first slab is dropped);
   4. the members over all slabs, in order, are exactly the batchable requests < T, each once, each with a
      range as long as its size;
   5. the relocation dict has exactly one entry per member: path -> (slab, lo, hi). *)
Lemma slab_ranges_tile T reqs slabs pass reloc :
  1 <= T -> Forall (fun w => 0 <= w_size w) reqs -> NoDup (map w_path reqs) ->
  batch_write T reqs = (slabs, pass, reloc) ->
  pass = filter (fun w => negb (small T w)) reqs
  /\ Forall (fun ks => good_slab T (snd ks)) slabs
  /\ map fst slabs = zrange (blen slabs)
  /\ map m_tag (flat_out slabs) = map (fun w => (w_path w, w_size w)) (filter (small T) reqs)
  /\ reloc = map m_reloc (flat_out slabs).
Proof.
  intros HT Hsz Hnd Hbw. pose proof (bw_inv_all T reqs HT Hsz Hnd) as Hinv.
  unfold batch_write in Hbw. set (st := fold_left (bw_step T) reqs bs_init) in *.
  inversion Hbw as [[Hs Hp Hr]]. clear Hbw.
  destruct Hinv as [H1 H2 H3 H4 (H5a & H5b & H5c)].
  destruct (bs_cur st) as [|m0 cur0] eqn:Ecur.
  - rewrite (H5c eq_refl) in *. cbn in H2, H3 |- *. repeat split; try assumption. constructor.
  - set (all := bs_closed st ++ [m0 :: cur0]) in *.
    assert (Hne : forall s, In s all -> s <> []).
    { intros s Hs'. apply in_app_or in Hs' as [Hs' | [<- | []]]; [|discriminate].
      rewrite Forall_forall in H4. apply H4 in Hs'. apply Hs'. }
    rewrite (filter_all (fun s : Z * list member => nonempty (snd s))).
    2:{ intros ks Hks. apply index_from_snd in Hks. apply Hne in Hks. destruct (snd ks); [congruence | reflexivity]. }
    rewrite <- flat_from_index. split; [assumption|]. split; [|split; [|split; assumption]].
    + rewrite Forall_forall. intros ks Hks. apply index_from_snd in Hks.
      apply in_app_or in Hks as [Hks | [<- | []]].
      * rewrite Forall_forall in H4. apply H4; assumption.
      * unfold good_slab. split; [discriminate | split; assumption].
    + rewrite index_from_fst. unfold zrange, blen. rewrite index_from_length, Nat2Z.id.
      apply map_ext. intros; lia.
Qed.

Lemma good_slab_disjoint T s : good_slab T s -> ForallOrdPairs (fun a b => m_hi a <= m_lo b) s.
Proof. intros (_ & H & _). exact (consecutive_ordpairs m_range s 0 _ H). Qed.

Section PerRequest.
  Variables (T : Z) (reqs : list wreq) (slabs : list (Z * list member)) (pass : list wreq)
            (reloc : list (Z * (Z * Z * Z))).
  Hypothesis HT : 1 <= T.
  Hypothesis Hsz : Forall (fun w => 0 <= w_size w) reqs.
  Hypothesis Hnd : NoDup (map w_path reqs).
  Hypothesis Hbw : batch_write T reqs = (slabs, pass, reloc).

  Lemma reloc_keys : map fst reloc = map w_path (filter (small T) reqs).
  Proof.
    destruct (slab_ranges_tile T reqs slabs pass reloc HT Hsz Hnd Hbw) as (_ & _ & _ & H4 & H5).
    rewrite H5, map_map.
    transitivity (map fst (map m_tag (flat_out slabs))); [rewrite map_map; reflexivity|].
    rewrite H4, map_map. reflexivity.
  Qed.

  Lemma reloc_nodup : NoDup (map fst reloc).
  Proof. rewrite reloc_keys. apply NoDup_map_filter. assumption. Qed.

  Lemma bw_small_request w :
    In w reqs -> small T w = true ->
    exists k ms lo hi, In (k, ms) slabs /\ In (w_path w, lo, hi) ms /\ hi - lo = w_size w
                       /\ dict_get Z.eqb (w_path w) reloc = Some (k, lo, hi).
  Proof.
    intros Hin Hsm.
    destruct (slab_ranges_tile T reqs slabs pass reloc HT Hsz Hnd Hbw) as (_ & _ & _ & H4 & H5).
    assert (Hm : In (w_path w, w_size w) (map m_tag (flat_out slabs))).
    { rewrite H4. apply (in_map (fun w => (w_path w, w_size w))). apply filter_In; auto. }
    apply in_map_iff in Hm as ([k [[p lo] hi]] & Htag & Hkm).
    unfold m_tag, m_path, m_hi, m_lo in Htag. cbn [fst snd] in Htag. inversion Htag; subst p.
    apply in_flat_out in Hkm as Hms. destruct Hms as (ms & Hks & Hmm).
    exists k, ms, lo, hi. repeat split; try assumption.
    apply (dict_get_nodup Z.eqb Z.eqb_eq); [apply reloc_nodup|].
    rewrite H5. apply (in_map m_reloc) in Hkm. exact Hkm.
  Qed.

  Lemma bw_large_request w :
    In w reqs -> small T w = false -> In w pass /\ dict_get Z.eqb (w_path w) reloc = None.
  Proof.
    intros Hin Hsm.
    destruct (slab_ranges_tile T reqs slabs pass reloc HT Hsz Hnd Hbw) as (H1 & _).
    split.
    - rewrite H1. apply filter_In. rewrite Hsm. auto.
    - apply (dict_get_notin Z.eqb Z.eqb_eq). rewrite reloc_keys. intros Hp.
      apply in_map_iff in Hp as (w' & Hpath & Hw'). apply filter_In in Hw' as [Hw' Hsm'].
      assert (w' = w) by (eapply NoDup_map_inj_in; eassumption). congruence.
  Qed.

  Lemma bw_reloc_member p k lo hi :
    dict_get Z.eqb p reloc = Some (k, lo, hi) -> exists ms, In (k, ms) slabs /\ In (p, lo, hi) ms.
  Proof.
    intros Hget. apply (dict_get_in Z.eqb Z.eqb_eq) in Hget.
    destruct (slab_ranges_tile T reqs slabs pass reloc HT Hsz Hnd Hbw) as (_ & _ & _ & _ & H5).
    rewrite H5 in Hget. apply in_map_iff in Hget as ([k' [[p' lo'] hi']] & Heq & Hkm).
    unfold m_reloc, m_path, m_lo, m_hi in Heq. cbn [fst snd] in Heq. inversion Heq; subst.
    apply in_flat_out. assumption.
  Qed.

  Lemma slab_index_unique k ms ms' : In (k, ms) slabs -> In (k, ms') slabs -> ms = ms'.
  Proof.
    intros H1 H2.
    destruct (slab_ranges_tile T reqs slabs pass reloc HT Hsz Hnd Hbw) as (_ & _ & H3 & _).
    assert (Hn : NoDup (map fst slabs)).
    { rewrite H3. unfold zrange. apply FinFun.Injective_map_NoDup; [intros a b; apply Nat2Z.inj | apply seq_NoDup]. }
    assert (E : (k, ms) = (k, ms')) by (eapply (NoDup_map_inj_in fst); eauto).
    inversion E; reflexivity.
  Qed.

  Lemma slab_good k ms : In (k, ms) slabs -> good_slab T ms.
  Proof.
    intros H. destruct (slab_ranges_tile T reqs slabs pass reloc HT Hsz Hnd Hbw) as (_ & H2 & _).
    rewrite Forall_forall in H2. exact (H2 _ H).
  Qed.
End PerRequest.

(* ------------------------------------------------------------------ batch_read *)
Definition r_path (r : ranged) : Z := fst (fst r).
Definition r_lo (r : ranged) : Z := fst (snd (fst r)).
Definition r_hi (r : ranged) : Z := snd (snd (fst r)).
Definition r_cons (r : ranged) : Z := snd r.

Lemma memZ_in x l : memZ x l = true <-> In x l.
Proof.
  unfold memZ. rewrite existsb_exists. split.
  - intros (y & Hy & E). apply Z.eqb_eq in E. subst. assumption.
  - intros H. exists x. split; [assumption | apply Z.eqb_refl].
Qed.

Lemma locations_fold rs : forall acc,
  let res := fold_left (fun acc (r : ranged) => let p := fst (fst r) in if memZ p acc then acc else acc ++ [p]) rs acc in
  (forall x, In x acc -> In x res) /\ (forall r, In r rs -> In (r_path r) res).
Proof.
  induction rs as [|r rs IH]; intros acc; cbn [fold_left]; [split; [auto | intros ? []]|].
  set (acc' := if memZ (fst (fst r)) acc then acc else acc ++ [fst (fst r)]).
  destruct (IH acc') as [H1 H2]. split.
  - intros x Hx. apply H1. unfold acc'. destruct (memZ (fst (fst r)) acc); [assumption | apply in_or_app; auto].
  - intros r' [<- | Hr']; [|apply H2; assumption].
    apply H1. unfold acc', r_path. destruct (memZ (fst (fst r)) acc) eqn:E.
    + apply memZ_in; assumption.
    + apply in_or_app; right; left; reflexivity.
Qed.

Lemma locations_complete rs r : In r rs -> In (r_path r) (locations rs).
Proof. intros H. exact (proj2 (locations_fold rs []) r H). Qed.

Lemma merged_fold (l : list ranged) : forall A B,
  let res := fold_left (fun acc (r : ranged) => (Z.min (fst acc) (fst (snd (fst r))), Z.max (snd acc) (snd (snd (fst r))))) l (A, B) in
  fst res <= A /\ B <= snd res
  /\ (forall r, In r l -> fst res <= r_lo r /\ r_hi r <= snd res)
  /\ (0 <= A -> (forall r, In r l -> 0 <= r_lo r) -> 0 <= fst res).
Proof.
  induction l as [|r l IH]; intros A B; cbn [fold_left fst snd].
  - split; [lia|]. split; [lia|]. split; [intros ? []|]. intros; lia.
  - destruct (IH (Z.min A (fst (snd (fst r)))) (Z.max B (snd (snd (fst r))))) as (H1 & H2 & H3 & H4).
    cbv zeta in *. split; [lia|]. split; [lia|]. split.
    + intros r' [<- | H]; [unfold r_lo, r_hi; lia | apply H3; assumption].
    + intros HA Hall. apply H4; [|intros r' Hr'; apply Hall; right; assumption].
      pose proof (Hall r (or_introl eq_refl)). unfold r_lo in *. lia.
Qed.

Lemma merged_range_spec (mine : list ranged) r :
  In r mine -> (forall r', In r' mine -> 0 <= r_lo r') ->
  0 <= fst (merged_range mine) /\ fst (merged_range mine) <= r_lo r /\ r_hi r <= snd (merged_range mine).
Proof.
  intros Hin Hnn. unfold merged_range. destruct mine as [|r0 rest] eqn:E; [contradiction|]. rewrite <- E in *.
  destruct (snd (fst r0)) as [A B] eqn:E0.
  destruct (merged_fold mine A B) as (H1 & H2 & H3 & H4). cbv zeta in *.
  split; [|apply H3; assumption].
  apply H4; [|assumption]. specialize (Hnn r0). rewrite E in Hnn. specialize (Hnn (or_introl eq_refl)).
  unfold r_lo in Hnn. rewrite E0 in Hnn. exact Hnn.
Qed.

Lemma in_ranged_of reqs p lo hi c : In (p, (lo, hi), c) (ranged_of reqs) <-> In (p, Some (lo, hi), c) reqs.
Proof.
  unfold ranged_of. rewrite in_flat_map. split.
  - intros ([[p' rg] c'] & Hin & H). cbn [fst snd] in H. destruct rg as [rg|]; [|contradiction].
    destruct H as [H | []]. inversion H; subst. assumption.
  - intros H. exists (p, Some (lo, hi), c). split; [assumption | left; reflexivity].
Qed.

Lemma in_unranged_of reqs p c : In (p, c) (unranged_of reqs) <-> In (p, None, c) reqs.
Proof.
  unfold unranged_of. rewrite in_flat_map. split.
  - intros ([[p' rg] c'] & Hin & H). cbn [fst snd] in H. destruct rg as [rg|]; [contradiction|].
    destruct H as [H | []]. inversion H; subst. assumption.
  - intros H. exists (p, None, c). split; [assumption | left; reflexivity].
Qed.

Definition ranged_wf (reqs : list rreq) : Prop :=
  forall p lo hi c, In (p, Some (lo, hi), c) reqs -> 0 <= lo <= hi.

(* what the sub-consumers of the merged request of one location receive *)
Lemma merged_delivery reqs store loc obj c b :
  ranged_wf reqs -> lookup store loc = Some obj ->
  In (c, b) (exec_one store (merge_location (ranged_of reqs) loc)) ->
  exists lo hi, In (loc, Some (lo, hi), c) reqs /\ b = slice obj lo hi.
Proof.
  intros Hwf Hobj Hin. unfold merge_location in Hin.
  set (mine := at_location loc (ranged_of reqs)) in *.
  destruct (merged_range mine) as [L H] eqn:EM. cbn [exec_one] in Hin. rewrite Hobj in Hin.
  apply in_map_iff in Hin as ([[a b'] c'] & Heq & Hsub). cbn [fst snd] in Heq. inversion Heq; subst c' b. clear Heq.
  apply (dict_of_sound range_eqb range_eqb_eq) in Hsub.
  apply in_map_iff in Hsub as (r & Heq & Hr). inversion Heq; subst. clear Heq.
  assert (Hr' := Hr). unfold mine, at_location in Hr'. apply filter_In in Hr' as [Hr' Hp]. apply Z.eqb_eq in Hp.
  destruct r as [[p [lo hi]] c]. cbn [fst snd] in *. subst p.
  apply in_ranged_of in Hr'. exists lo, hi. split; [assumption|].
  assert (Hnn : forall r', In r' mine -> 0 <= r_lo r').
  { intros [[p' [lo' hi']] c'] Hr''. unfold mine, at_location in Hr''. apply filter_In in Hr'' as [Hr'' _].
    apply in_ranged_of in Hr''. apply Hwf in Hr''. unfold r_lo; cbn; lia. }
  destruct (merged_range_spec mine _ Hr Hnn) as (HL & Hlo & Hhi). rewrite EM in *.
  unfold r_lo, r_hi in Hlo, Hhi. cbn [fst snd] in HL, Hlo, Hhi.
  pose proof (Hwf _ _ _ _ Hr') as Hw.
  rewrite pyslice_nonneg by lia. cbn [read_obj]. apply slice_slice; lia.
Qed.

(* soundness: whatever a consumer receives is exactly object[lo:hi] (or the whole object) of one of ITS OWN
   requests - for any object length, any overlaps, any duplicates *)
Lemma batched_read_sound reqs store c b :
  ranged_wf reqs -> In (c, b) (exec_plan store (batch_read reqs)) ->
  exists p rg obj, In (p, rg, c) reqs /\ lookup store p = Some obj /\ b = read_obj obj rg.
Proof.
  intros Hwf Hin. unfold exec_plan, batch_read in Hin. apply in_flat_map in Hin as (pl & Hpl & Hd).
  apply in_app_or in Hpl as [Hpl | Hpl].
  - apply in_map_iff in Hpl as ([p c'] & <- & Hpc). cbn [fst snd exec_one] in Hd.
    destruct (lookup store p) as [obj|] eqn:E; [|contradiction]. destruct Hd as [Hd | []]. inversion Hd; subst.
    apply in_unranged_of in Hpc. exists p, None, b. auto.
  - apply in_map_iff in Hpl as (loc & <- & Hloc).
    destruct (lookup store loc) as [obj|] eqn:E.
    + destruct (merged_delivery reqs store loc obj c b Hwf E Hd) as (lo & hi & H1 & H2).
      exists loc, (Some (lo, hi)), obj. auto.
    + unfold merge_location in Hd. destruct (merged_range _) as [L H]. cbn [exec_one] in Hd. rewrite E in Hd. contradiction.
Qed.

(* completeness: a whole-object request is always served; a ranged request is served with exactly
   object[lo:hi] provided no other request of the same location and same range names another consumer *)
Lemma batched_read_complete_whole reqs store p c obj :
  In (p, None, c) reqs -> lookup store p = Some obj -> In (c, obj) (exec_plan store (batch_read reqs)).
Proof.
  intros Hin Hobj. unfold exec_plan, batch_read. apply in_flat_map.
  exists (RWhole p c). split.
  - apply in_or_app; left. apply in_unranged_of in Hin.
    change (RWhole p c) with ((fun pc : Z * Z => RWhole (fst pc) (snd pc)) (p, c)). apply in_map; assumption.
  - cbn [exec_one]. rewrite Hobj. left; reflexivity.
Qed.

Lemma batched_read_complete_ranged reqs store p lo hi c obj :
  ranged_wf reqs -> In (p, Some (lo, hi), c) reqs -> lookup store p = Some obj ->
  (forall c', In (p, Some (lo, hi), c') reqs -> c' = c) ->
  In (c, slice obj lo hi) (exec_plan store (batch_read reqs)).
Proof.
  intros Hwf Hin Hobj Huniq. unfold exec_plan, batch_read. apply in_flat_map.
  exists (merge_location (ranged_of reqs) p). split.
  - apply in_or_app; right. apply in_map.
    apply in_ranged_of in Hin. exact (locations_complete _ _ Hin).
  - unfold merge_location. set (mine := at_location p (ranged_of reqs)).
    assert (Hr : In (p, (lo, hi), c) mine).
    { unfold mine, at_location. apply filter_In. split; [apply in_ranged_of; assumption | cbn; apply Z.eqb_refl]. }
    assert (Hnn : forall r', In r' mine -> 0 <= r_lo r').
    { intros [[p' [lo' hi']] c'] Hr''. unfold mine, at_location in Hr''. apply filter_In in Hr'' as [Hr'' _].
      apply in_ranged_of in Hr''. apply Hwf in Hr''. unfold r_lo; cbn; lia. }
    destruct (merged_range_spec mine _ Hr Hnn) as (HL & Hlo & Hhi).
    destruct (merged_range mine) as [L H] eqn:EM.
    unfold r_lo, r_hi in Hlo, Hhi. cbn [fst snd] in HL, Hlo, Hhi.
    cbn [exec_one]. rewrite Hobj. apply in_map_iff.
    exists ((lo - L, hi - L), c). cbn [fst snd]. pose proof (Hwf _ _ _ _ Hin) as Hw. split.
    + f_equal. rewrite pyslice_nonneg by lia. cbn [read_obj]. apply slice_slice; lia.
    + apply (dict_of_complete range_eqb range_eqb_eq).
      * change ((lo - L, hi - L), c) with
          ((fun r : ranged => ((fst (snd (fst r)) - L, snd (snd (fst r)) - L), snd r)) (p, (lo, hi), c)).
        apply in_map; assumption.
      * intros c' Hc'. apply in_map_iff in Hc' as ([[p' [lo' hi']] c''] & Heq & Hr'). cbn [fst snd] in Heq.
        inversion Heq; subst c''. unfold mine, at_location in Hr'. apply filter_In in Hr' as [Hr' Hp'].
        cbn [fst] in Hp'. apply Z.eqb_eq in Hp'. subst p'. apply in_ranged_of in Hr'.
        apply Huniq. replace lo with lo' by lia. replace hi with hi' by lia. assumption.
Qed.

(* the buffer is complete exactly when the object reaches hi (or the range is empty) *)
Lemma slice_short_iff (obj : bytes) lo hi :
  0 <= lo <= hi -> (blen (slice obj lo hi) = hi - lo <-> (hi <= blen obj \/ lo = hi)).
Proof. intros H. rewrite blen_slice by lia. pose proof (blen_nonneg obj). lia. Qed.

(* the witness for the hypothesis of batched_read_complete_ranged: two requests for the same non-empty range of
   one location - the first consumer is never served *)
Lemma batched_read_duplicate_refuted :
  exists reqs store p lo hi c obj,
    ranged_wf reqs /\ In (p, Some (lo, hi), c) reqs /\ lookup store p = Some obj /\ lo < hi <= blen obj /\
    forall b, ~ In (c, b) (exec_plan store (batch_read reqs)).
Proof.
  exists [(0, Some (2, 5), 0); (0, Some (2, 5), 1); (0, Some (0, 2), 2)], [(0, [10; 11; 12; 13; 14; 15; 16])],
         0, 2, 5, 0, [10; 11; 12; 13; 14; 15; 16].
  split; [|split; [left; reflexivity | split; [reflexivity | split; [vm_compute; split; [reflexivity | discriminate]|]]]].
  - intros p lo hi c [H | [H | [H | []]]]; inversion H; lia.
  - intros b Hin. vm_compute in Hin. destruct Hin as [H | [H | []]]; inversion H.
Qed.

(* ------------------------------------------------------------------ write plan -> staging -> store -> read plan *)
(* an entry: (path, batchable, the bytes its stager produces) *)
Definition went := (Z * bool * bytes)%type.
Definition e_path (e : went) : Z := fst (fst e).
Definition e_buf (e : went) : bytes := snd e.
Definition wreq_of (e : went) : wreq := (fst (fst e), snd (fst e), blen (snd e)).

Definition buf_of (ws : list went) (p : Z) : bytes :=
  match find (fun e => e_path e =? p) ws with Some e => e_buf e | None => [] end.

Lemma buf_of_in ws e : NoDup (map e_path ws) -> In e ws -> buf_of ws (e_path e) = e_buf e.
Proof.
  unfold buf_of. induction ws as [|x ws IH]; intros Hnd Hin; [contradiction|].
  cbn [map] in Hnd. inversion Hnd as [|? ? Hn Hnd']; subst. cbn [find].
  destruct Hin as [-> | Hin]; [rewrite Z.eqb_refl; reflexivity|].
  destruct (e_path x =? e_path e) eqn:E.
  - apply Z.eqb_eq in E. exfalso. apply Hn. rewrite E. apply in_map; assumption.
  - apply IH; assumption.
Qed.

(* slab k has been staged and stored: the members staged (in completion order [order], any order, repeats allowed)
   are members of the slab and include every member with a non-empty range (BatchedBufferStager keys its stagers
   by range, so of several members with the same EMPTY range only one is staged) *)
Definition slab_stored (ws : list went) (store : list (Z * bytes)) (k : Z) (ms : list member) : Prop :=
  exists order slab,
    (forall x, In x order -> exists m, In m ms /\ x = (m_lo m, m_hi m, buf_of ws (m_path m)))
    /\ (forall m, In m ms -> m_lo m < m_hi m -> In (m_lo m, m_hi m, buf_of ws (m_path m)) order)
    /\ stage_slab (slab_sz ms) order = Some slab
    /\ lookup store (slab_path k) = Some slab.

Lemma blen_zero_nil {A} (l : list A) : blen l = 0 -> l = [].
Proof. destruct l; [reflexivity | unfold blen; cbn [length]; lia]. Qed.

Lemma slab_member_bytes T ws store k ms :
  good_slab T ms ->
  (forall m, In m ms -> blen (buf_of ws (m_path m)) = m_hi m - m_lo m) ->
  slab_stored ws store k ms ->
  exists slab, lookup store (slab_path k) = Some slab /\
               forall m, In m ms -> slice slab (m_lo m) (m_hi m) = buf_of ws (m_path m).
Proof.
  intros (Hne & Hcons & HltT) Hlen (order & slab & Hsub & Hall & Hstage & Hstore).
  pose proof (consecutive_bounds _ _ _ Hcons) as Hb.
  assert (Hbm : forall m, In m ms -> 0 <= m_lo m <= m_hi m /\ m_hi m <= slab_sz ms).
  { intros m Hm. specialize (Hb (m_range m) (in_map m_range _ _ Hm)). unfold m_range in Hb. cbn [fst snd] in Hb. lia. }
  destruct (stage_any_order (slab_sz ms) order) as (slab' & Hst' & Hlen' & Hok).
  - pose proof (consecutive_le _ _ _ Hcons). lia.
  - split.
    + intros x Hx. destruct (Hsub x Hx) as (m & Hm & ->). unfold st_lo, st_hi, st_buf. cbn [fst snd].
      destruct (Hbm m Hm). rewrite Hlen by assumption. lia.
    + intros x y Hx Hy. destruct (Hsub x Hx) as (m & Hm & ->). destruct (Hsub y Hy) as (m' & Hm' & ->).
      unfold st_lo, st_hi. cbn [fst snd].
      destruct (consecutive_separated m_range ms 0 _ Hcons m m' Hm Hm') as [-> | [H | [H | [H1 H2]]]];
        unfold m_range in *; cbn [fst snd] in *; [left; reflexivity | right; left; lia | right; right; lia |].
      inversion H1. right; left; lia.
  - rewrite Hstage in Hst'. inversion Hst'; subst slab'. exists slab. split; [assumption|].
    intros m Hm. destruct (Hbm m Hm) as [Hm1 Hm2].
    destruct (Z.eq_dec (m_lo m) (m_hi m)) as [Heq | Hneq].
    + rewrite <- Heq, slice_empty. symmetry. apply blen_zero_nil. rewrite Hlen by assumption. lia.
    + exact (Hok _ (Hall m Hm ltac:(lia))).
Qed.

Lemma slab_path_inj k k' : slab_path k = slab_path k' -> k = k'.
Proof. unfold slab_path; lia. Qed.

Section Compose.
  Variables (T : Z) (ws : list went) (slabs : list (Z * list member)) (pass : list wreq)
            (reloc : list (Z * (Z * Z * Z))) (store : list (Z * bytes)).
  Hypothesis HT : 1 <= T.
  Hypothesis Hnd : NoDup (map e_path ws).
  Hypothesis Hbw : batch_write T (map wreq_of ws) = (slabs, pass, reloc).
  Hypothesis Hpass : forall e, In e ws -> In (wreq_of e) pass -> lookup store (e_path e) = Some (e_buf e).
  Hypothesis Hslabs : forall k ms, In (k, ms) slabs -> slab_stored ws store k ms.

  Let reqs := map wreq_of ws.

  Lemma c_sizes : Forall (fun w => 0 <= w_size w) reqs.
  Proof.
    unfold reqs. rewrite Forall_forall. intros w Hw. apply in_map_iff in Hw as (e & <- & _).
    unfold wreq_of, w_size. cbn [snd]. apply blen_nonneg.
  Qed.

  Lemma c_paths : map w_path reqs = map e_path ws.
  Proof. unfold reqs. rewrite map_map. reflexivity. Qed.

  Lemma c_nodup : NoDup (map w_path reqs).
  Proof. rewrite c_paths. assumption. Qed.

  Lemma c_member_len k ms m : In (k, ms) slabs -> In m ms -> blen (buf_of ws (m_path m)) = m_hi m - m_lo m.
  Proof.
    intros Hk Hm.
    destruct (slab_ranges_tile T reqs slabs pass reloc HT c_sizes c_nodup Hbw) as (_ & _ & _ & H4 & _).
    assert (Hin : In (m_tag (k, m)) (map m_tag (flat_out slabs))) by (apply in_map; apply in_flat_out; eauto).
    rewrite H4 in Hin. apply in_map_iff in Hin as (w & Heq & Hw). apply filter_In in Hw as [Hw _].
    unfold reqs in Hw. apply in_map_iff in Hw as (e & <- & He).
    unfold m_tag in Heq. cbn [fst snd] in Heq. inversion Heq as [[Hp Hs]].
    change (w_path (wreq_of e)) with (e_path e). rewrite buf_of_in by assumption. reflexivity.
  Qed.

  (* how every entry is read back *)
  Lemma entry_plan e :
    In e ws ->
    (entry_read reloc (e_path e) = (e_path e, None, e_path e) /\ lookup store (e_path e) = Some (e_buf e))
    \/ (exists k ms lo hi slab,
          entry_read reloc (e_path e) = (slab_path k, Some (lo, hi), e_path e)
          /\ In (k, ms) slabs /\ In (e_path e, lo, hi) ms /\ hi - lo = blen (e_buf e) /\ good_slab T ms
          /\ lookup store (slab_path k) = Some slab /\ slice slab lo hi = e_buf e).
  Proof.
    intros He. assert (Hw : In (wreq_of e) reqs) by (unfold reqs; apply in_map; assumption).
    change (e_path e) with (w_path (wreq_of e)).
    destruct (small T (wreq_of e)) eqn:Esm.
    - right. destruct (bw_small_request T reqs slabs pass reloc HT c_sizes c_nodup Hbw _ Hw Esm)
        as (k & ms & lo & hi & Hk & Hm & Hlen & Hget).
      pose proof (slab_good T reqs slabs pass reloc HT c_sizes c_nodup Hbw k ms Hk) as Hgood.
      destruct (slab_member_bytes T ws store k ms Hgood (fun m Hm' => c_member_len k ms m Hk Hm') (Hslabs k ms Hk))
        as (slab & Hstore & Hbytes).
      exists k, ms, lo, hi, slab. unfold entry_read. rewrite Hget.
      split; [reflexivity|]. split; [exact Hk|]. split; [exact Hm|]. split; [exact Hlen|].
      split; [exact Hgood|]. split; [exact Hstore|].
      specialize (Hbytes _ Hm). unfold m_lo, m_hi, m_path in Hbytes. cbn [fst snd] in Hbytes.
      rewrite Hbytes. change (w_path (wreq_of e)) with (e_path e). apply buf_of_in; assumption.
    - left. destruct (bw_large_request T reqs slabs pass reloc HT c_sizes c_nodup Hbw _ Hw Esm) as [Hp Hget].
      unfold entry_read. rewrite Hget. split; [reflexivity|]. apply Hpass; assumption.
  Qed.

  Variable rreqs : list rreq.
  Hypothesis Hperm : Permutation rreqs (map (fun e => entry_read reloc (e_path e)) ws).

  Lemma c_rreq_origin r : In r rreqs -> exists e, In e ws /\ r = entry_read reloc (e_path e) /\ snd r = e_path e.
  Proof.
    intros Hr. apply (Permutation_in _ Hperm) in Hr. apply in_map_iff in Hr as (e & <- & He).
    exists e. repeat split; try assumption. unfold entry_read. destruct (dict_get _ _ _) as [[[? ?] ?]|]; reflexivity.
  Qed.

  Lemma c_wf : ranged_wf rreqs.
  Proof.
    intros p lo hi c Hin. destruct (c_rreq_origin _ Hin) as (e & He & Heq & _).
    destruct (entry_plan e He) as [[Hr _] | (k & ms & lo' & hi' & slab & Hr & Hk & Hm & _ & (_ & Hcons & _) & _)];
      rewrite Hr in Heq; inversion Heq; subst.
    pose proof (consecutive_bounds _ _ _ Hcons (m_range (e_path e, lo', hi')) (in_map m_range _ _ Hm)) as Hb.
    unfold m_range, m_lo, m_hi in Hb. cbn [fst snd] in Hb. lia.
  Qed.

  (* Every entry gets back exactly the bytes its stager produced: nothing else is ever delivered to it, and it is
     delivered whenever there is anything to deliver (an entry with an empty buffer may be skipped: two empty
     members of one slab share the range (s, s)). *)
  Lemma write_then_read_plan e :
    In e ws ->
    (e_buf e <> [] -> In (e_path e, e_buf e) (exec_plan store (batch_read rreqs)))
    /\ (forall b, In (e_path e, b) (exec_plan store (batch_read rreqs)) -> b = e_buf e).
  Proof.
    intros He. split.
    - intros Hbuf.
      assert (Hin : In (entry_read reloc (e_path e)) rreqs).
      { apply (Permutation_in _ (Permutation_sym Hperm)). apply (in_map (fun e => entry_read reloc (e_path e))). assumption. }
      destruct (entry_plan e He) as [[Hr Hst] | (k & ms & lo & hi & slab & Hr & Hk & Hm & Hlen & Hgood & Hst & Hbytes)];
        rewrite Hr in Hin.
      + apply (batched_read_complete_whole rreqs store _ _ _ Hin Hst).
      + rewrite <- Hbytes. apply (batched_read_complete_ranged rreqs store _ _ _ _ _ c_wf Hin Hst).
        intros c' Hc'. destruct (c_rreq_origin _ Hc') as (e' & He' & Heq' & Hc). cbn [snd] in Hc. subst c'.
        destruct (entry_plan e' He') as [[Hr' _] | (k' & ms' & lo' & hi' & slab' & Hr' & Hk' & Hm' & _)];
          rewrite Hr' in Heq'; inversion Heq' as [[Hkk Hlo Hhi]]; subst lo' hi'.
        apply slab_path_inj in Hkk. subst k'.
        assert (ms' = ms) by (eapply (slab_index_unique T reqs slabs pass reloc HT c_sizes c_nodup Hbw); eassumption).
        subst ms'. destruct Hgood as (_ & Hcons & _).
        assert (Hpos : lo < hi).
        { assert (0 < blen (e_buf e)); [|lia]. destruct (e_buf e); [congruence | unfold blen; cbn [length]; lia]. }
        destruct (consecutive_separated m_range ms 0 _ Hcons _ _ Hm' Hm) as [Heq | [H | [H | [_ H]]]];
          unfold m_range, m_lo, m_hi in *; cbn [fst snd] in *; try lia.
        inversion Heq; reflexivity.
    - intros b Hb.
      destruct (batched_read_sound rreqs store _ _ c_wf Hb) as (p & rg & obj & Hin & Hobj & ->).
      destruct (c_rreq_origin _ Hin) as (e' & He' & Heq' & Hc). cbn [snd] in Hc.
      assert (e' = e) by (eapply (NoDup_map_inj_in e_path); eauto). subst e'.
      destruct (entry_plan e He) as [[Hr Hst] | (k & ms & lo & hi & slab & Hr & _ & _ & _ & _ & Hst & Hbytes)];
        rewrite Hr in Heq'; inversion Heq'; subst; rewrite Hst in Hobj; inversion Hobj; subst; cbn [read_obj];
        [reflexivity | assumption].
  Qed.
End Compose.

(* ------------------------------------------------------------------ slab content, any completion order *)
Definition st_range (x : Z * Z * bytes) : Z * Z := (st_lo x, st_hi x).

Lemma slab_content sz (ms order : list (Z * Z * bytes)) :
  consecutive 0 (map st_range ms) sz ->
  (forall x, In x ms -> blen (st_buf x) = st_hi x - st_lo x) ->
  Permutation ms order ->
  exists slab, stage_slab sz order = Some slab /\ blen slab = sz /\
               forall x, In x ms -> slice slab (st_lo x) (st_hi x) = st_buf x.
Proof.
  intros Hcons Hlen Hperm.
  pose proof (consecutive_le _ _ _ Hcons) as Hsz.
  destruct (stage_any_order sz order Hsz) as (slab & H1 & H2 & H3).
  - split.
    + intros x Hx. apply (Permutation_in _ (Permutation_sym Hperm)) in Hx.
      pose proof (consecutive_bounds _ _ _ Hcons (st_range x) (in_map st_range _ _ Hx)) as Hb.
      unfold st_range in Hb. cbn [fst snd] in Hb. rewrite (Hlen x Hx). lia.
    + intros x y Hx Hy. apply (Permutation_in _ (Permutation_sym Hperm)) in Hx, Hy.
      destruct (consecutive_separated st_range ms 0 _ Hcons x y Hx Hy) as [H | [H | [H | [Ha Hb]]]];
        unfold st_range in *; cbn [fst snd] in *; [left; assumption | right; left; lia | right; right; lia |].
      inversion Ha. right; left; lia.
  - exists slab. repeat split; try assumption. intros x Hx. apply H3. apply (Permutation_in _ Hperm). assumption.
Qed.

(* pairwise disjointness of the member ranges of a slab, as a statement about positions *)
Lemma slab_ranges_disjoint T s : good_slab T s -> ForallOrdPairs (fun a b => m_hi a <= m_lo b) s.
Proof. exact (good_slab_disjoint T s). Qed.

(* ------------------------------------------------------------------ Slab.build() on the slabs of batch_write *)
Lemma dict_set_keys_in {K V} (eqb : K -> K -> bool) (eqb_eq : forall a b, eqb a b = true <-> a = b)
      k v (d : list (K * V)) : In k (map fst d) -> map fst (dict_set eqb k v d) = map fst d.
Proof.
  induction d as [|[k' v'] d IH]; cbn [dict_set map fst]; intros H; [contradiction|].
  destruct (eqb k' k) eqn:E; [reflexivity|]. cbn [map fst]. f_equal. apply IH.
  destruct H as [H | H]; [|assumption]. subst k'. assert (eqb k k = true) by (apply eqb_eq; reflexivity). congruence.
Qed.

Lemma consecutive_snoc_inv rs : forall cur a b fin,
  consecutive cur (rs ++ [(a, b)]) fin -> consecutive cur rs a /\ a <= b /\ b = fin.
Proof.
  induction rs as [|[lo hi] rs IH]; intros cur a b fin H; cbn in H.
  - destruct H as (-> & Hle & <-). cbn. auto.
  - destruct H as (-> & Hle & H). apply IH in H as (H1 & H2 & H3). cbn. auto.
Qed.

Lemma check_contiguous_ok keys : forall cur fin, consecutive cur keys fin -> check_contiguous cur keys = Some fin.
Proof.
  induction keys as [|[lo hi] keys IH]; intros cur fin H; cbn in *; [congruence|].
  destruct H as (-> & _ & H). rewrite Z.eqb_refl. apply IH; assumption.
Qed.

Definition m_entry (m : member) : (Z * Z) * Z := (m_range m, m_path m).

Lemma slab_dict_keys (s : list member) : forall fin,
  consecutive 0 (map m_range s) fin ->
  consecutive 0 (map fst (dict_of range_eqb (map m_entry s))) fin /\ (s <> [] -> dict_of range_eqb (map m_entry s) <> []).
Proof.
  induction s as [|x s IH] using rev_ind; intros fin H.
  - cbn in *. split; [assumption | congruence].
  - rewrite map_app in H. cbn [map] in H. unfold m_range at 2 in H.
    apply consecutive_snoc_inv in H as (Hpre & Hle & Hfin). subst fin.
    destruct (IH _ Hpre) as [Hk _].
    rewrite map_app. cbn [map]. rewrite (dict_of_snoc range_eqb). cbn [m_entry fst snd].
    set (d := dict_of range_eqb (map m_entry s)) in *.
    split.
    + destruct (in_dec (fun a b : Z * Z => ltac:(decide equality; apply Z.eq_dec)) (m_range x) (map fst d)) as [Hin | Hnot].
      * rewrite (dict_set_keys_in range_eqb range_eqb_eq) by assumption.
        pose proof (consecutive_bounds _ _ _ Hk _ Hin) as Hb. unfold m_range in Hb. cbn [fst snd] in Hb.
        replace (m_hi x) with (m_lo x) by lia. assumption.
      * rewrite (dict_set_fresh range_eqb range_eqb_eq) by assumption. rewrite map_app. cbn [map fst].
        unfold m_range. apply consecutive_app; assumption.
    + intros _ Hnil. pose proof (dict_set_new range_eqb range_eqb_eq (m_range x) (m_path x) d) as Hin.
      rewrite Hnil in Hin. contradiction.
Qed.

(* BatchedBufferStager's constructor accepts every slab batch_write produces; its slab_sz_bytes is the slab size;
   its stagers are members of the slab and include every member with a non-empty range *)
Lemma slab_build_good T s :
  good_slab T s ->
  exists d, slab_build s = Some (slab_sz s, d)
            /\ (forall m, In m s -> m_lo m < m_hi m -> In (m_range m, m_path m) d)
            /\ (forall k v, In (k, v) d -> exists m, In m s /\ m_range m = k /\ m_path m = v).
Proof.
  intros (Hne & Hcons & _). unfold slab_build.
  change (map (fun m => (m_lo m, m_hi m, m_path m)) s) with (map m_entry s).
  destruct (slab_dict_keys s _ Hcons) as [Hk Hnn]. specialize (Hnn Hne).
  set (d := dict_of range_eqb (map m_entry s)) in *.
  exists d. split; [|split].
  - destruct d as [|[[lo0 hi0] v0] r] eqn:Ed; [congruence|].
    cbn [map fst] in Hk. cbn in Hk. destruct Hk as (_ & _ & Hk).
    rewrite (check_contiguous_ok _ _ _ Hk). reflexivity.
  - intros m Hm Hpos. apply (dict_of_complete range_eqb range_eqb_eq).
    + change (m_range m, m_path m) with (m_entry m). apply in_map; assumption.
    + intros v' Hv'. apply in_map_iff in Hv' as (m' & Heq & Hm'). unfold m_entry in Heq. inversion Heq as [[Hr Hp]].
      destruct (consecutive_separated m_range s 0 _ Hcons m' m Hm' Hm) as [-> | [Hs | [Hs | [_ Hs]]]];
        try reflexivity; rewrite ?Hr in *; unfold m_range in *; cbn [fst snd] in *; lia.
  - intros k v Hkv. apply (dict_of_sound range_eqb range_eqb_eq) in Hkv.
    apply in_map_iff in Hkv as (m & Heq & Hm). unfold m_entry in Heq. inversion Heq. exists m. auto.
Qed.

(* staging exactly the stagers BatchedBufferStager holds (its dict), in any completion order, and storing the result
   under the slab's path establishes slab_stored - the hypothesis of write_then_read_plan *)
Definition staged_entry (ws : list went) (e : (Z * Z) * Z) : Z * Z * bytes :=
  (fst (fst e), snd (fst e), buf_of ws (snd e)).

Lemma slab_stored_of_build T ws store k ms sz d order slab :
  good_slab T ms -> slab_build ms = Some (sz, d) ->
  Permutation (map (staged_entry ws) d) order ->
  stage_slab sz order = Some slab -> lookup store (slab_path k) = Some slab ->
  slab_stored ws store k ms.
Proof.
  intros Hgood Hbuild Hperm Hstage Hstore.
  destruct (slab_build_good T ms Hgood) as (d' & Hb' & Hall & Hsub).
  rewrite Hbuild in Hb'. inversion Hb'; subst sz d'. clear Hb'.
  exists order, slab. split; [|split; [|split; assumption]].
  - intros x Hx. apply (Permutation_in _ (Permutation_sym Hperm)) in Hx.
    apply in_map_iff in Hx as ([kk v] & <- & Hkv). destruct (Hsub _ _ Hkv) as (m & Hm & <- & <-).
    exists m. split; [assumption | reflexivity].
  - intros m Hm Hpos. apply (Permutation_in _ Hperm).
    change (m_lo m, m_hi m, buf_of ws (m_path m)) with (staged_entry ws (m_range m, m_path m)).
    apply in_map. apply Hall; assumption.
Qed.
