(* Per-run obligation: the commit tail of Snapshot.take, as translated from snapshot.py on this run,
   satisfies the ordering condition whose soundness is proved in CommitProofs.v. *)
From TS Require Import model.Base gen.CommitGen model.Commit proofs.CommitProofs.

Lemma take_tail_well_ordered : well_ordered gen_take_tail = true.
Proof. vm_compute. reflexivity. Qed.
