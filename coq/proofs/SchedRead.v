(* Read pipeline (execute_read_reqs): budget, concurrency cap, exactly once, progress, termination, failures;
   and the automatic budget formula. *)
From TS Require Import model.Base gen.SchedGen model.Sched proofs.SchedInst proofs.SchedProofs proofs.SchedLive.
From Coq Require Import ZifyBool.

Ltac rproj := cbn [pend rio cons rdn rrem lread lcons rst].

Lemma rdispatch_ind (P : rstate -> Prop) rq K :
  (forall i s, P s -> memz i (pend s) = true -> gen_read_full (zlen (rio s)) K = false ->
     gen_read_admit (zlen (rio s)) (zlen (cons s)) (cost_of rq i) (rrem s) = true -> P (admit_read rq i s)) ->
  forall v s, P s -> P (rdispatch rq K v s).
Proof.
  intros Hstep v; induction v as [|i r IH]; intros s Hs; cbn [rdispatch]; [exact Hs|].
  destruct (gen_read_full _ _) eqn:Hf; [exact Hs|].
  destruct (memz i (pend s)) eqn:Hm; cbn [andb]; [|apply IH; exact Hs].
  destruct (gen_read_admit _ _ _ _) eqn:Hg; apply IH; [apply Hstep; assumption | exact Hs].
Qed.

(* ---------------------------------------------------------------- C10 *)
Definition RInv (rq : reqs) (B K : Z) (s : rstate) : Prop :=
  rrem s = B - raccounted rq s /\ (0 <= rrem s \/ rinflight s <= 1) /\ zlen (rio s) <= K.

Definition costs_nonneg (rq : reqs) : Prop := Forall (fun r => 0 <= fst r) rq.

Lemma costs_nonneg_at rq i : costs_nonneg rq -> 0 <= cost_of rq i.
Proof.
  intros H. unfold cost_of. destruct (Nat.lt_ge_cases (Z.to_nat i) (length rq)) as [Hlt|Hge].
  - unfold costs_nonneg in H. rewrite Forall_forall in H. apply (H (nth (Z.to_nat i) rq (0, 0))). apply nth_In; exact Hlt.
  - rewrite nth_overflow by exact Hge. cbn. lia.
Qed.

Lemma RInv_admit rq B K i s :
  costs_nonneg rq -> RInv rq B K s -> memz i (pend s) = true -> gen_read_full (zlen (rio s)) K = false ->
  gen_read_admit (zlen (rio s)) (zlen (cons s)) (cost_of rq i) (rrem s) = true -> RInv rq B K (admit_read rq i s).
Proof.
  intros Hwf (Hl & Hb & Hk) Hm Hf Hg. apply read_admit_sound in Hg.
  assert (zlen (rio s) < K) by (destruct (Z.lt_ge_cases (zlen (rio s)) K) as [L|L]; [exact L|]; apply read_full_iff in L; congruence).
  pose proof (costs_nonneg_at rq i Hwf). pose proof (zlen_nonneg (rio s)); pose proof (zlen_nonneg (cons s)).
  unfold RInv, raccounted, rinflight, sum_cost in *. unfold admit_read; rproj.
  rewrite read_admit_rem_eq, sumf_snoc, zlen_snoc. lia.
Qed.

Lemma RInv_step rq B K s e : costs_nonneg rq -> RInv rq B K s -> RInv rq B K (rstep rq K s e).
Proof.
  intros Hwf Hs. unfold rstep. destruct (rst s); [|exact Hs].
  destruct e as [v | i | i | i | i].
  - apply rdispatch_ind; [|exact Hs]. intros j s1 H1 Hm Hf Hg. apply RInv_admit; assumption.
  - destruct (memz i (rio s)) eqn:Hm; [|exact Hs]. destruct Hs as (Hl & Hb & Hk).
    unfold RInv, raccounted, rinflight, sum_cost in *; rproj.
    rewrite sumf_snoc, zlen_snoc, (sumf_remove1 (cost_of rq)) by exact Hm. rewrite zlen_remove1 by exact Hm. lia.
  - destruct (memz i (cons s)) eqn:Hm; [|exact Hs]. destruct Hs as (Hl & Hb & Hk).
    pose proof (costs_nonneg_at rq i Hwf). pose proof (zlen_nonneg (rio s)).
    unfold RInv, raccounted, rinflight, sum_cost in *; rproj.
    rewrite read_done_rem_eq, (sumf_remove1 (cost_of rq)) by exact Hm. rewrite zlen_remove1 by exact Hm. lia.
  - destruct (memz i (rio s)); exact Hs.
  - destruct (memz i (cons s)); exact Hs.
Qed.

Lemma RInv_run rq B K evs : costs_nonneg rq -> 0 <= B -> 0 <= K -> RInv rq B K (rrun rq K B evs).
Proof.
  intros Hwf HB HK. unfold rrun.
  assert (H0 : RInv rq B K (rinit rq B)) by (unfold RInv, raccounted, rinflight, sum_cost, rinit; rproj; cbn; lia).
  revert H0. generalize (rinit rq B) as s.
  induction evs as [|e evs IH]; intros s Hs; cbn [fold_left]; [exact Hs|]. apply IH. apply RInv_step; assumption.
Qed.

(* with buffers no larger than declared (bsz <= cost) the bytes really held, counted as the property does
   (declared cost while reading, buffer size while consuming), are bounded by what the code accounts *)
Definition rheld (rq : reqs) (s : rstate) : Z := sum_cost rq (rio s) + sum_bsz rq (cons s).

Lemma sum_bsz_le_cost rq l : wf_reqs rq -> sum_bsz rq l <= sum_cost rq l.
Proof.
  intros Hwf. unfold sum_bsz, sum_cost, sumZ. induction l as [|x l IH]; cbn [map fold_right]; [lia|].
  pose proof (wf_reqs_at rq x Hwf). lia.
Qed.

Lemma wf_costs_nonneg rq : wf_reqs rq -> costs_nonneg rq.
Proof. unfold wf_reqs, costs_nonneg. intros H. eapply Forall_impl; [|exact H]. cbn. intros a Ha. lia. Qed.

Lemma read_budget_respected rq B K evs :
  wf_reqs rq -> 0 <= B -> 0 <= K ->
  let s := rrun rq K B evs in
  rrem s = B - raccounted rq s /\ (rheld rq s <= B \/ rinflight s <= 1) /\ zlen (rio s) <= K.
Proof.
  intros Hwf HB HK s. destruct (RInv_run rq B K evs (wf_costs_nonneg rq Hwf) HB HK) as (Hl & Hb & Hk). fold s in Hl, Hb, Hk.
  pose proof (sum_bsz_le_cost rq (cons s) Hwf). unfold rheld, raccounted in *. repeat split; [exact Hl | lia | exact Hk].
Qed.

Lemma read_budget_returned rq B K evs :
  costs_nonneg rq -> 0 <= B -> 0 <= K -> rfinal (rrun rq K B evs) = true -> rrem (rrun rq K B evs) = B.
Proof.
  intros Hwf HB HK Hf. destruct (RInv_run rq B K evs Hwf HB HK) as (Hl & _ & _). rewrite Hl.
  unfold rfinal in Hf. unfold raccounted, sum_cost.
  destruct (pend _); [|discriminate]. destruct (rio _); [|discriminate]. destruct (cons _); [|discriminate]. cbn. lia.
Qed.

(* ---------------------------------------------------------------- C11: counting *)
Definition RCnt (n : nat) (s : rstate) : Prop := forall i,
  cnt i (pend s) + cnt i (rio s) + cnt i (cons s) + cnt i (rdn s) = cnt i (ids_from n) /\
  cnt i (lread s) = cnt i (rio s) + cnt i (cons s) + cnt i (rdn s) /\
  cnt i (lcons s) = cnt i (cons s) + cnt i (rdn s).

Lemma RCnt_step n rq K s e : RCnt n s -> RCnt n (rstep rq K s e).
Proof.
  intros Hs. unfold rstep. destruct (rst s); [|exact Hs].
  destruct e as [v | j | j | j | j].
  - apply rdispatch_ind; [|exact Hs]. intros k s1 H1 Hm _ _ i. specialize (H1 i). unfold admit_read; rproj.
    rewrite !cnt_snoc, cnt_remove1 by exact Hm. lia.
  - destruct (memz j (rio s)) eqn:Hm; [|exact Hs]. intros i. specialize (Hs i). rproj.
    rewrite !cnt_snoc, cnt_remove1 by exact Hm. lia.
  - destruct (memz j (cons s)) eqn:Hm; [|exact Hs]. intros i. specialize (Hs i). rproj.
    rewrite !cnt_snoc, cnt_remove1 by exact Hm. lia.
  - destruct (memz j (rio s)); exact Hs.
  - destruct (memz j (cons s)); exact Hs.
Qed.

Lemma RCnt_run rq K B evs : RCnt (length rq) (rrun rq K B evs).
Proof.
  unfold rrun. assert (H0 : RCnt (length rq) (rinit rq B)) by (intros i; unfold rinit; rproj; cbn [cnt]; lia).
  revert H0. generalize (rinit rq B) as s.
  induction evs as [|e evs IH]; intros s Hs; cbn [fold_left]; [exact Hs|]. apply IH. apply RCnt_step; exact Hs.
Qed.

Lemma read_exactly_once rq K B evs i :
  rfinal (rrun rq K B evs) = true ->
  let s := rrun rq K B evs in
  cnt i (lread s) = cnt i (ids_from (length rq)) /\ cnt i (lcons s) = cnt i (ids_from (length rq)) /\
  cnt i (rdn s) = cnt i (ids_from (length rq)).
Proof.
  intros Hf s. destruct (RCnt_run rq K B evs i) as (H1 & H2 & H3). fold s in H1, H2, H3.
  unfold rfinal in Hf. fold s in Hf.
  destruct (pend s); [|discriminate]. destruct (rio s); [|discriminate]. destruct (cons s); [|discriminate].
  cbn [cnt] in *. lia.
Qed.

Lemma read_at_most_once rq K B evs i :
  let s := rrun rq K B evs in cnt i (lread s) <= 1 /\ cnt i (lcons s) <= 1.
Proof.
  intros s. pose proof (RCnt_run rq K B evs) as H. fold s in H. destruct (H i) as (H1 & H2 & H3).
  pose proof (cnt_ids_le1 i (length rq)).
  pose proof (cnt_nonneg i (pend s)); pose proof (cnt_nonneg i (rio s)); pose proof (cnt_nonneg i (cons s));
  pose proof (cnt_nonneg i (rdn s)). lia.
Qed.

(* ---------------------------------------------------------------- C11: progress *)
(* after a dispatch pass that visits every pending id: nothing pending, or at capacity, or something in flight *)
Lemma rdispatch_progress rq K v : forall s,
  (forall i, cnt i (pend s) <= 1) -> covers v (pend s) ->
  let s' := rdispatch rq K v s in pend s' = [] \/ K <= zlen (rio s') \/ 0 < rinflight s'.
Proof.
  induction v as [|i r IH]; intros s Hnd Hcov; cbn [rdispatch].
  - left. apply nil_of_no_members. intros q Hq. exact (Hcov q Hq).
  - destruct (gen_read_full (zlen (rio s)) K) eqn:Hf; [right; left; apply read_full_iff; exact Hf|].
    destruct (memz i (pend s)) eqn:Hm; cbn [andb].
    + destruct (gen_read_admit _ _ _ _) eqn:Hg.
      * right. right.
        assert (Hmono : forall v0 s0, rinflight s0 <= rinflight (rdispatch rq K v0 s0)).
        { intros v0 s0. apply (rdispatch_ind (fun s' => rinflight s0 <= rinflight s')); [|lia].
          intros j s1 H _ _ _. unfold rinflight in *. unfold admit_read; rproj. rewrite zlen_snoc. lia. }
        specialize (Hmono r (admit_read rq i s)).
        assert (0 < rinflight (admit_read rq i s)).
        { unfold rinflight, admit_read; rproj. rewrite zlen_snoc. pose proof (zlen_nonneg (rio s)); pose proof (zlen_nonneg (cons s)). lia. }
        lia.
      * right. right.
        assert (Hmono : forall v0 s0, rinflight s0 <= rinflight (rdispatch rq K v0 s0)).
        { intros v0 s0. apply (rdispatch_ind (fun s' => rinflight s0 <= rinflight s')); [|lia].
          intros j s1 H _ _ _. unfold rinflight in *. unfold admit_read; rproj. rewrite zlen_snoc. lia. }
        specialize (Hmono r s).
        assert (0 < rinflight s).
        { pose proof (zlen_nonneg (rio s)); pose proof (zlen_nonneg (cons s)).
          destruct (Z.eq_dec (rinflight s) 0) as [E|E]; [|unfold rinflight in *; lia].
          unfold rinflight in E. rewrite (read_admit_when_idle _ _ _ _ E) in Hg. discriminate. }
        lia.
    + apply IH; [exact Hnd|]. intros q Hq. destruct (Hcov q Hq) as [Heq|Hin]; [|exact Hin].
      subst q. apply memz_In in Hq. congruence.
Qed.

(* at the wait point of every loop iteration (right after a dispatch pass over all pending ids) the set
   handed to asyncio.wait is non-empty unless the pipeline is finished *)
Lemma read_progress rq K B evs v :
  1 <= K -> let s := rrun rq K B evs in covers v (pend s) ->
  let s' := rdispatch rq K v s in rfinal s' = false -> rio s' <> [] \/ cons s' <> [].
Proof.
  intros HK s Hcov s' Hnf.
  assert (Hnd : forall i, cnt i (pend s) <= 1).
  { intros i. destruct (RCnt_run rq K B evs i) as (H1 & _ & _). fold s in H1. pose proof (cnt_ids_le1 i (length rq)).
    pose proof (cnt_nonneg i (rio s)); pose proof (cnt_nonneg i (cons s)); pose proof (cnt_nonneg i (rdn s)). lia. }
  pose proof (rdispatch_progress rq K v s Hnd Hcov) as H. cbv zeta in H. fold s' in H.
  destruct (rio s') as [|a l] eqn:Er; [|left; discriminate]. right.
  destruct H as [E|[E|E]].
  - unfold rfinal in Hnf. rewrite E, Er in Hnf. destruct (cons s'); [discriminate | discriminate].
  - try rewrite Er in E. unfold zlen in E. cbn in E. lia.
  - unfold rinflight in E. try rewrite Er in E. unfold zlen at 1 in E. cbn in E. intros E2. rewrite E2 in E. unfold zlen in E. cbn in E. lia.
Qed.

(* ---------------------------------------------------------------- C11: termination *)
Definition rvalid (s : rstate) (e : revent) : Prop :=
  match e with
  | RDispatch _ => True
  | RIoDone i | RIoFail i => memz i (rio s) = true
  | RConsDone i | RConsFail i => memz i (cons s) = true
  end.
Definition r_is_completion (e : revent) : bool := match e with RIoDone _ | RConsDone _ => true | _ => false end.
Definition r_is_failure (e : revent) : bool := match e with RIoFail _ | RConsFail _ => true | _ => false end.

Lemma rmeasure_step rq K s e :
  rst s = Running -> rvalid s e -> r_is_failure e = false ->
  rmeasure (rstep rq K s e) = rmeasure s - (if r_is_completion e then 1 else 0).
Proof.
  intros Hr Hv Hnf. unfold rstep. rewrite Hr. destruct e as [v | i | i | i | i]; cbn in Hnf; try discriminate; cbn [r_is_completion].
  - apply (rdispatch_ind (fun s' => rmeasure s' = rmeasure s - 0)); [|lia].
    intros j s1 H Hm _ _. unfold rmeasure in *. unfold admit_read; rproj. rewrite zlen_snoc, zlen_remove1 by exact Hm. lia.
  - cbn in Hv. rewrite Hv. unfold rmeasure; rproj. rewrite zlen_snoc, zlen_remove1 by exact Hv. lia.
  - cbn in Hv. rewrite Hv. unfold rmeasure; rproj. rewrite zlen_remove1 by exact Hv. lia.
Qed.

Fixpoint rvalid_evs (rq : reqs) (K : Z) (s : rstate) (evs : list revent) : Prop :=
  match evs with
  | [] => True
  | e :: r => rvalid s e /\ r_is_failure e = false /\ rvalid_evs rq K (rstep rq K s e) r
  end.

Definition completions (evs : list revent) : Z := zlen (filter r_is_completion evs).

Lemma rstep_running rq K s e : rst s = Running -> r_is_failure e = false -> rst (rstep rq K s e) = Running.
Proof.
  intros Hr Hnf. unfold rstep. rewrite Hr. destruct e as [v | i | i | i | i]; cbn in Hnf; try discriminate.
  - apply (rdispatch_ind (fun s' => rst s' = Running)); [intros j s1 H _ _ _; exact H | exact Hr].
  - destruct (memz i (rio s)); rproj; first [exact Hr | reflexivity].
  - destruct (memz i (cons s)); rproj; first [exact Hr | reflexivity].
Qed.

Lemma rmeasure_run rq K B evs :
  rvalid_evs rq K (rinit rq B) evs ->
  rmeasure (rrun rq K B evs) = 2 * Z.of_nat (length rq) - completions evs.
Proof.
  unfold rrun.
  assert (Hm : rmeasure (rinit rq B) = 2 * Z.of_nat (length rq)).
  { unfold rmeasure, rinit; rproj. rewrite zlen_ids_from. unfold zlen. cbn. lia. }
  assert (Hr : rst (rinit rq B) = Running) by reflexivity.
  revert Hm Hr. generalize (rinit rq B) as s. generalize (2 * Z.of_nat (length rq)) as m.
  induction evs as [|e evs IH]; intros m s Hm Hr Hv; cbn [fold_left]; [unfold completions, zlen; cbn; lia|].
  cbn [rvalid_evs] in Hv. destruct Hv as (Hv1 & Hnf & Hv2).
  rewrite (IH (m - (if r_is_completion e then 1 else 0))); [| | apply rstep_running; assumption | exact Hv2].
  - unfold completions. cbn [filter]. destruct (r_is_completion e); unfold zlen; cbn [length]; lia.
  - rewrite rmeasure_step by assumption. lia.
Qed.

Lemma rmeasure_zero_final s : rmeasure s = 0 <-> rfinal s = true.
Proof.
  unfold rmeasure, rfinal.
  pose proof (zlen_nonneg (pend s)); pose proof (zlen_nonneg (rio s)); pose proof (zlen_nonneg (cons s)).
  split.
  - intros E. assert (zlen (pend s) = 0 /\ zlen (rio s) = 0 /\ zlen (cons s) = 0) as (A & B0 & C) by lia.
    apply zlen_nil_iff in A, B0, C. rewrite A, B0, C. reflexivity.
  - destruct (pend s); [|discriminate]. destruct (rio s); [|discriminate]. destruct (cons s); [|discriminate].
    intros _. unfold zlen. cbn. lia.
Qed.

Lemma read_terminates rq K B evs :
  rvalid_evs rq K (rinit rq B) evs ->
  (rfinal (rrun rq K B evs) = true <-> completions evs = 2 * Z.of_nat (length rq)) /\
  completions evs <= 2 * Z.of_nat (length rq).
Proof.
  intros Hv. pose proof (rmeasure_run rq K B evs Hv) as Hm. pose proof (rmeasure_zero_final (rrun rq K B evs)) as Hz.
  assert (0 <= rmeasure (rrun rq K B evs)).
  { unfold rmeasure. set (s := rrun rq K B evs).
    pose proof (zlen_nonneg (pend s)); pose proof (zlen_nonneg (rio s)); pose proof (zlen_nonneg (cons s)). lia. }
  split; [|lia]. rewrite <- Hz. lia.
Qed.

(* ---------------------------------------------------------------- failures *)
Lemma r_raised_absorbing rq K evs s : rst s = Raised -> fold_left (rstep rq K) evs s = s.
Proof.
  intros Hr. induction evs as [|e evs IH]; cbn [fold_left]; [reflexivity|].
  assert (rstep rq K s e = s) as -> by (unfold rstep; rewrite Hr; reflexivity). exact IH.
Qed.

Lemma r_failure_never_success rq K s e evs :
  rst s = Running -> rvalid s e -> r_is_failure e = true ->
  rst (fold_left (rstep rq K) evs (rstep rq K s e)) = Raised.
Proof.
  intros Hr Hv Hf.
  assert (H : rst (rstep rq K s e) = Raised).
  { unfold rstep. rewrite Hr. destruct e as [v | i | i | i | i]; cbn in Hf; try discriminate; cbn in Hv; rewrite Hv; reflexivity. }
  rewrite r_raised_absorbing by exact H. exact H.
Qed.

(* ---------------------------------------------------------------- automatic budget *)
Ltac Zify.zify_post_hook ::= Z.to_euclidean_division_equations.

(* n ranks share a host and read the same `available`: the budgets sum to at most int(available * multiplier),
   which is at most `available`; each is at most the cap *)
Lemma auto_budget_sum available n :
  0 <= available -> 1 <= n ->
  n * auto_budget available n <= available_budget available /\
  available_budget available <= available /\
  auto_budget available n <= gen_budget_cap.
Proof.
  intros Ha Hn. unfold auto_budget. rewrite auto_budget_eq. unfold available_budget.
  pose proof multiplier_is_fraction as (Hnum & Hden).
  set (a6 := available * gen_multiplier_num / gen_multiplier_den).
  assert (Ha6 : 0 <= a6 <= available).
  { unfold a6. split.
    - apply Z.div_pos; nia.
    - apply Z.div_le_upper_bound; nia. }
  repeat split; try lia.
  assert (n * (a6 / n) <= a6) by (apply Z.mul_div_le; lia).
  nia.
Qed.

(* the same bound stated on a6 = int(available * multiplier) as the code computed it (float product, runtime) *)
Lemma auto_budget_sum_a6 a6 n :
  0 <= a6 -> 1 <= n ->
  n * gen_auto_budget a6 n gen_budget_cap <= a6 /\ gen_auto_budget a6 n gen_budget_cap <= gen_budget_cap /\
  0 <= gen_auto_budget a6 n gen_budget_cap.
Proof.
  intros Ha Hn. rewrite auto_budget_eq. pose proof budget_cap_positive as Hc.
  assert (n * (a6 / n) <= a6) by (apply Z.mul_div_le; lia).
  assert (0 <= a6 / n) by (apply Z.div_pos; lia).
  repeat split; try lia. nia.
Qed.
