(* C07: lemmas about model/ManifestOps.v (who can load what). *)
From TS Require Import model.Base model.Flatten model.ManifestOps proofs.FlattenProofs.
From Coq Require Import Permutation.

(* ================================================================== 1. dictionaries as association lists *)
Lemma path_eqb_neq : forall a b, path_eqb a b = false <-> a <> b.
Proof.
  intros a b. split.
  - intros H E. apply path_eqb_eq in E. congruence.
  - intro N. destruct (path_eqb a b) eqn:E; [|reflexivity]. apply path_eqb_eq in E. contradiction.
Qed.

Lemma path_eqb_sym : forall a b, path_eqb a b = path_eqb b a.
Proof.
  intros a b. destruct (path_eqb a b) eqn:E.
  - apply path_eqb_eq in E. subst. symmetry. apply path_eqb_refl.
  - apply path_eqb_neq in E. symmetry. apply path_eqb_neq. congruence.
Qed.

Lemma path_memb_in : forall p l, path_memb p l = true <-> In p l.
Proof.
  intros p l. unfold path_memb. rewrite existsb_exists. split.
  - intros [x [Hin E]]. apply path_eqb_eq in E. subst. exact Hin.
  - intro Hin. exists p. split; [exact Hin | apply path_eqb_refl].
Qed.

Lemma path_memb_app : forall p l1 l2, path_memb p (l1 ++ l2) = path_memb p l1 || path_memb p l2.
Proof. intros. unfold path_memb. apply existsb_app. Qed.

Lemma mget_mset : forall m q e p, mget (mset m q e) p = if path_eqb q p then Some e else mget m p.
Proof.
  induction m as [|[q' e'] r IH]; intros q e p; cbn [mset mget].
  - reflexivity.
  - destruct (path_eqb q' q) eqn:E1; cbn [mget].
    + apply path_eqb_eq in E1. subst q'. destruct (path_eqb q p); reflexivity.
    + destruct (path_eqb q' p) eqn:E2.
      * destruct (path_eqb q p) eqn:E3; [|reflexivity].
        apply path_eqb_eq in E2. apply path_eqb_eq in E3. subst. rewrite path_eqb_refl in E1. discriminate.
      * apply IH.
Qed.

Lemma mget_none_iff : forall m p, mget m p = None <-> ~ In p (map fst m).
Proof.
  induction m as [|[q e] r IH]; intro p; cbn [mget map fst In].
  - split; [tauto | reflexivity].
  - destruct (path_eqb q p) eqn:E.
    + apply path_eqb_eq in E. subst. split; [discriminate | tauto].
    + apply path_eqb_neq in E. rewrite IH. tauto.
Qed.

Lemma mget_some_in : forall m p e, mget m p = Some e -> In (p, e) m.
Proof.
  induction m as [|[q e'] r IH]; intros p e H; cbn [mget] in H; [discriminate|].
  destruct (path_eqb q p) eqn:E.
  - apply path_eqb_eq in E. inversion H; subst. left. reflexivity.
  - right. apply IH. exact H.
Qed.

Lemma mget_in : forall m p e, NoDup (map fst m) -> In (p, e) m -> mget m p = Some e.
Proof.
  induction m as [|[q e'] r IH]; intros p e N Hin; [contradiction|].
  cbn [map fst] in N. inversion N as [|x l Hn N']; subst. cbn [mget]. destruct Hin as [E|Hin].
  - inversion E; subst. rewrite path_eqb_refl. reflexivity.
  - destruct (path_eqb q p) eqn:E.
    + apply path_eqb_eq in E. subst. exfalso. apply Hn. apply in_map_iff. exists (p, e). split; [reflexivity | exact Hin].
    + apply IH; assumption.
Qed.

Lemma mget_some_path : forall m p e, mget m p = Some e -> In p (map fst m).
Proof. intros m p e H. apply mget_some_in in H. apply in_map_iff. exists (p, e). split; [reflexivity | exact H]. Qed.

Lemma in_paths_mget : forall m p, In p (map fst m) -> exists e, mget m p = Some e.
Proof.
  intros m p H. destruct (mget m p) as [e|] eqn:E; [exists e; reflexivity|].
  apply mget_none_iff in E. contradiction.
Qed.

Lemma mset_paths : forall m p e,
  map fst (mset m p e) = if path_memb p (map fst m) then map fst m else map fst m ++ [p].
Proof.
  induction m as [|[q e'] r IH]; intros p e; cbn [mset map fst].
  - reflexivity.
  - unfold path_memb. cbn [existsb]. fold (path_memb p (map fst r)). rewrite (path_eqb_sym p q).
    destruct (path_eqb q p) eqn:E; cbn [map fst orb]; [reflexivity|].
    rewrite IH. destruct (path_memb p (map fst r)); reflexivity.
Qed.

Lemma mset_nodup : forall m p e, NoDup (map fst m) -> NoDup (map fst (mset m p e)).
Proof.
  intros m p e N. rewrite mset_paths. destruct (path_memb p (map fst m)) eqn:E; [exact N|].
  apply NoDup_app_intro; [exact N | constructor; [intros []|constructor] |].
  intros x Hx [Hy|[]]. subst. assert (X : path_memb x (map fst m) = true) by (apply path_memb_in; exact Hx). congruence.
Qed.

Lemma mdel_paths_incl : forall m p q, In q (map fst (mdel m p)) -> In q (map fst m).
Proof.
  induction m as [|[q' e] r IH]; intros p q H; cbn [mdel] in H; [exact H|].
  destruct (path_eqb q' p).
  - right. exact H.
  - cbn [map fst In] in *. destruct H as [H|H]; [left; exact H | right; apply (IH p); exact H].
Qed.

Lemma mdel_nodup : forall m p, NoDup (map fst m) -> NoDup (map fst (mdel m p)).
Proof.
  induction m as [|[q e] r IH]; intros p N; cbn [mdel]; [constructor|].
  cbn [map fst] in N. inversion N as [|x l Hn N']; subst. destruct (path_eqb q p); [exact N'|].
  cbn [map fst]. constructor; [|apply IH; exact N']. intro H. apply Hn. apply (mdel_paths_incl r p). exact H.
Qed.

Lemma mget_mdel : forall m q p, NoDup (map fst m) ->
  mget (mdel m q) p = if path_eqb q p then None else mget m p.
Proof.
  induction m as [|[q' e] r IH]; intros q p N; cbn [mdel mget].
  - destruct (path_eqb q p); reflexivity.
  - cbn [map fst] in N. inversion N as [|x l Hn N']; subst. destruct (path_eqb q' q) eqn:E1.
    + apply path_eqb_eq in E1. subst q'. destruct (path_eqb q p) eqn:E2; [|reflexivity].
      apply path_eqb_eq in E2. subst. apply mget_none_iff. exact Hn.
    + cbn [mget]. destruct (path_eqb q' p) eqn:E2.
      * destruct (path_eqb q p) eqn:E3; [|reflexivity].
        apply path_eqb_eq in E2. apply path_eqb_eq in E3. subst. rewrite path_eqb_refl in E1. discriminate.
      * apply IH. exact N'.
Qed.

Lemma mget_filter : forall (f : path * mentry -> bool) m p, NoDup (map fst m) ->
  mget (filter f m) p = match mget m p with
                        | Some e => if f (p, e) then Some e else None
                        | None => None
                        end.
Proof.
  induction m as [|[q e] r IH]; intros p N; cbn [filter mget]; [reflexivity|].
  cbn [map fst] in N. inversion N as [|x l Hn N']; subst.
  destruct (path_eqb q p) eqn:E.
  - apply path_eqb_eq in E. subst q. destruct (f (p, e)) eqn:F; cbn [mget].
    + rewrite path_eqb_refl. reflexivity.
    + rewrite (IH p N'). assert (X : mget r p = None) by (apply mget_none_iff; exact Hn). rewrite X. reflexivity.
  - destruct (f (q, e)); cbn [mget]; [rewrite E|]; apply IH; exact N'.
Qed.

Lemma filter_nodup_paths : forall (f : path * mentry -> bool) m, NoDup (map fst m) -> NoDup (map fst (filter f m)).
Proof. intros f m N. apply NoDup_map_filter. exact N. Qed.

(* ================================================================== 2. rank manifests, ranks *)
Lemma in_rank_manifest : forall g r p e, In (p, e) (rank_manifest g r) <-> In (r, p, e) g.
Proof.
  intros g r p e. unfold rank_manifest. rewrite in_flat_map. split.
  - intros [[[r' p'] e'] [Hin H]]. unfold grank, gpath, gentry in H. cbn [fst snd] in H.
    destruct (r' =? r) eqn:E; [|contradiction]. apply Z.eqb_eq in E. destruct H as [H|[]]. inversion H; subst. exact Hin.
  - intro Hin. exists (r, p, e). split; [exact Hin|]. unfold grank, gpath, gentry. cbn [fst snd].
    rewrite Z.eqb_refl. left. reflexivity.
Qed.

Lemma in_ranks : forall W r, In r (ranks W) <-> 0 <= r < W.
Proof.
  intros W r. unfold ranks. rewrite in_map_iff. split.
  - intros [n [E Hin]]. apply in_seq in Hin. lia.
  - intro H. exists (Z.to_nat r). split; [lia|]. apply in_seq. lia.
Qed.

(* ================================================================== 3. boolean checks -> Prop *)
Lemma nodup_pathb_sound : forall l, nodup_pathb l = true -> NoDup l.
Proof.
  induction l as [|p r IH]; intro H; [constructor|]. cbn [nodup_pathb] in H. apply andb_true_iff in H. destruct H as [H1 H2].
  constructor; [|apply IH; exact H2]. intro K. apply path_memb_in in K. rewrite K in H1. discriminate.
Qed.

Lemma nodup_strb_sound : forall l, nodup_strb l = true -> NoDup l.
Proof.
  induction l as [|p r IH]; intro H; [constructor|]. cbn [nodup_strb] in H. apply andb_true_iff in H. destruct H as [H1 H2].
  constructor; [|apply IH; exact H2]. intro K. apply str_memb_in in K. rewrite K in H1. discriminate.
Qed.

Lemma nodup_Zb_sound : forall l, nodup_Zb l = true -> NoDup l.
Proof.
  induction l as [|z r IH]; intro H; [constructor|]. cbn [nodup_Zb] in H. apply andb_true_iff in H. destruct H as [H1 H2].
  constructor; [|apply IH; exact H2]. intro K. apply negb_true_iff in H1.
  assert (X : existsb (Z.eqb z) r = true) by (apply existsb_exists; exists z; split; [exact K | apply Z.eqb_refl]). congruence.
Qed.

Definition wf_global (W : Z) (g : gman) : Prop := wf_globalb W g = true.

Section WF.
  Variable W : Z.
  Variable g : gman.
  Hypothesis WF : wf_global W g.

  Lemma wf_parts :
    1 <= W /\
    (forall x, In x g -> 0 <= grank x < W) /\
    (forall r, 0 <= r < W -> NoDup (map fst (rank_manifest g r))) /\
    (forall x, In x g -> path_ok (gpath x) = true /\ keys_ok (gentry x) = true) /\
    (forall x, In x g -> parent_ok (rank_manifest g (grank x)) (gpath x) = true) /\
    (forall x, In x g -> grank x <> 0 -> is_replicated (gentry x) = false /\ repl_at0 g (gpath x) = false) /\
    NoDup (priv_ids g).
  Proof.
    unfold wf_global, wf_globalb in WF.
    apply andb_true_iff in WF. destruct WF as [W6 H7].
    apply andb_true_iff in W6. destruct W6 as [W5 H6].
    apply andb_true_iff in W5. destruct W5 as [W4 H5].
    apply andb_true_iff in W4. destruct W4 as [W3 H4].
    apply andb_true_iff in W3. destruct W3 as [W2 H3].
    apply andb_true_iff in W2. destruct W2 as [H1 H2].
    rewrite forallb_forall in H2, H3, H4, H5, H6.
    split; [lia|]. split.
    { intros x Hx. specialize (H2 x Hx). lia. }
    split.
    { intros r Hr. apply nodup_pathb_sound. apply H3. apply in_ranks. exact Hr. }
    split.
    { intros x Hx. specialize (H4 x Hx). apply andb_true_iff in H4. exact H4. }
    split.
    { intros x Hx. exact (H5 x Hx). }
    split.
    { intros x Hx Hr. specialize (H6 x Hx). apply orb_true_iff in H6. destruct H6 as [E|E].
      - apply Z.eqb_eq in E. contradiction.
      - apply andb_true_iff in E. destruct E as [E1 E2]. apply negb_true_iff in E1. apply negb_true_iff in E2. split; assumption. }
    apply nodup_Zb_sound. exact H7.
  Qed.
End WF.

(* ================================================================== 4. the view of an existing rank *)
Definition merge_at (W : Z) (g : gman) (p : path) (e : mentry) : mentry :=
  match e with MShard _ => MShard (merged_shards W g p) | _ => e end.

Lemma mget_replace_sharded : forall W g m p,
  mget (replace_sharded W g m) p = option_map (merge_at W g p) (mget m p).
Proof.
  intros W g. induction m as [|[q e] r IH]; intro p; cbn [replace_sharded map mget]; [reflexivity|].
  fold (replace_sharded W g r). destruct e; cbn [fst snd mget]; destruct (path_eqb q p) eqn:E; try apply IH;
    cbn [option_map merge_at]; try reflexivity.
  apply path_eqb_eq in E. subst. reflexivity.
Qed.

Lemma replace_sharded_paths : forall W g m, map fst (replace_sharded W g m) = map fst m.
Proof.
  intros W g m. unfold replace_sharded. rewrite map_map. apply map_ext. intros [q e]. destruct e; reflexivity.
Qed.

Lemma mget_add_replicated : forall m0 l p, NoDup (map fst m0) ->
  mget (add_replicated m0 l) p = match mget m0 p with
                                 | Some e => if is_replicated e then Some e else mget l p
                                 | None => mget l p
                                 end.
Proof.
  unfold add_replicated. induction m0 as [|[q e] r IH]; intros l p N; cbn [fold_left mget]; [reflexivity|].
  cbn [map fst] in N. inversion N as [|x xs Hn N']; subst. cbn [fst snd]. rewrite (IH _ p N').
  destruct (path_eqb q p) eqn:E.
  - apply path_eqb_eq in E. subst q. assert (X : mget r p = None) by (apply mget_none_iff; exact Hn). rewrite X.
    destruct (is_replicated e); [|reflexivity]. rewrite mget_mset, path_eqb_refl. reflexivity.
  - destruct (is_replicated e); [|reflexivity]. rewrite mget_mset, E. reflexivity.
Qed.

Lemma add_replicated_nodup : forall m0 l, NoDup (map fst l) -> NoDup (map fst (add_replicated m0 l)).
Proof.
  unfold add_replicated. induction m0 as [|[q e] r IH]; intros l N; cbn [fold_left]; [exact N|].
  apply IH. cbn [fst snd]. destruct (is_replicated e); [apply mset_nodup|]; exact N.
Qed.

Lemma existing_lookup : forall W g r p, NoDup (map fst (rank_manifest g 0)) ->
  mget (manifest_for_existing_rank W g r) p =
  option_map (merge_at W g p)
    (match mget (rank_manifest g 0) p with
     | Some e => if is_replicated e then Some e else mget (rank_manifest g r) p
     | None => mget (rank_manifest g r) p
     end).
Proof.
  intros W g r p N. unfold manifest_for_existing_rank. rewrite mget_replace_sharded, mget_add_replicated by exact N.
  reflexivity.
Qed.

Lemma existing_nodup : forall W g r, NoDup (map fst (rank_manifest g r)) ->
  NoDup (map fst (manifest_for_existing_rank W g r)).
Proof.
  intros W g r N. unfold manifest_for_existing_rank. rewrite replace_sharded_paths. apply add_replicated_nodup. exact N.
Qed.

Lemma flat_map_single_inj : forall {A B} (f : A -> list B) (l : list A) x y i,
  NoDup (flat_map f l) -> In x l -> In y l -> In i (f x) -> In i (f y) -> x = y.
Proof.
  intros A B f. induction l as [|a r IH]; intros x y i N Hx Hy Ix Iy; [contradiction|].
  cbn [flat_map] in N. destruct Hx as [Hx|Hx]; destruct Hy as [Hy|Hy]; subst.
  - reflexivity.
  - exfalso.
    assert (K : In i (flat_map f r)) by (apply in_flat_map; exists y; split; assumption).
    revert N Ix K. generalize (f x) (flat_map f r). intros l1 l2 N Ix K.
    induction l1 as [|b l1 IHl]; [contradiction|]. cbn [app] in N. inversion N as [|? ? Hn N']; subst.
    destruct Ix as [E|Ix]; [subst; apply Hn; apply in_or_app; right; exact K | exact (IHl N' Ix)].
  - exfalso.
    assert (K : In i (flat_map f r)) by (apply in_flat_map; exists x; split; assumption).
    revert N Iy K. generalize (f y) (flat_map f r). intros l1 l2 N Iy K.
    induction l1 as [|b l1 IHl]; [contradiction|]. cbn [app] in N. inversion N as [|? ? Hn N']; subst.
    destruct Iy as [E|Iy]; [subst; apply Hn; apply in_or_app; right; exact K | exact (IHl N' Iy)].
  - apply (IH x y i); try assumption. apply NoDup_app_r in N. exact N.
Qed.

Lemma priv_id_owner : forall g r p i r' p',
  NoDup (priv_ids g) -> In (r, p, MPriv i) g -> In (r', p', MPriv i) g -> r = r' /\ p = p'.
Proof.
  intros g r p i r' p' N H1 H2. unfold priv_ids in N.
  assert (E : (r, p, MPriv i) = (r', p', MPriv i)).
  { apply (flat_map_single_inj _ g _ _ i N H1 H2); cbn; left; reflexivity. }
  inversion E. split; reflexivity.
Qed.

(* ================================================================== 5. _remove_entry and the view of a new rank *)
Definition nonnil (s : pystr) : bool := match s with [] => false | _ => true end.

(* what _remove_entry m p does to the entry stored at another path q *)
Definition upd_parent (p q : path) (e : mentry) : mentry :=
  if path_eqb (removelast p) q && nonnil (join (removelast p)) then
    match e with
    | MCont (EDict ord ks) => MCont (EDict ord (remove_key ks (decode (last p []))))
    | _ => e
    end
  else e.

Lemma option_map_id : forall {A} (f : A -> A) (o : option A), (forall x, f x = x) -> option_map f o = o.
Proof. intros A f [x|] H; cbn; [rewrite H|]; reflexivity. Qed.

Lemma upd_parent_other : forall p q e, path_eqb (removelast p) q = false -> upd_parent p q e = e.
Proof. intros p q e H. unfold upd_parent. rewrite H. reflexivity. Qed.

Lemma remove_entry_lookup : forall m p e m', NoDup (map fst m) -> mget m p = Some e -> remove_entry m p = Some m' ->
  NoDup (map fst m') /\
  forall q, mget m' q = if path_eqb p q then None else option_map (upd_parent p q) (mget m q).
Proof.
  intros m p e m' N H R. unfold remove_entry, remove_entry_with in R. rewrite H in R.
  pose proof (mdel_nodup m p N) as Nd.
  destruct (join (removelast p)) as [|c js] eqn:J.
  - inversion R; subst m'. split; [exact Nd|]. intro q. rewrite mget_mdel by exact N.
    destruct (path_eqb p q); [reflexivity|]. symmetry. apply option_map_id. intro x. unfold upd_parent. rewrite J.
    cbn [nonnil]. rewrite andb_false_r. reflexivity.
  - destruct (mget (mdel m p) (removelast p)) as [e1|] eqn:P; [|discriminate].
    rewrite mget_mdel in P by exact N. destruct (path_eqb p (removelast p)) eqn:PP; [discriminate|].
    assert (Plain : m' = mdel m p -> (forall ord ks, e1 <> MCont (EDict ord ks)) ->
              NoDup (map fst m') /\
              forall q, mget m' q = if path_eqb p q then None else option_map (upd_parent p q) (mget m q)).
    { intros -> Hne. split; [exact Nd|]. intro q. rewrite mget_mdel by exact N.
      destruct (path_eqb p q) eqn:E; [reflexivity|]. destruct (path_eqb (removelast p) q) eqn:E2.
      - apply path_eqb_eq in E2. subst q. rewrite P. cbn [option_map]. unfold upd_parent.
        destruct e1 as [[|ord ks]| | |]; try (destruct (_ && _); reflexivity). exfalso. apply (Hne ord ks). reflexivity.
      - symmetry. apply option_map_id. intro x. apply upd_parent_other. exact E2. }
    destruct e1 as [[|ord ks]|i|i|s].
    + injection R as R'. apply Plain; [symmetry; exact R' | intros; discriminate].
    + unfold rk_current in R. inversion R; subst m'. split; [apply mset_nodup; exact Nd|].
      intro q. rewrite mget_mset, mget_mdel by exact N. destruct (path_eqb (removelast p) q) eqn:E2.
      * apply path_eqb_eq in E2. subst q. rewrite PP, P. cbn [option_map]. unfold upd_parent.
        rewrite path_eqb_refl, J. reflexivity.
      * destruct (path_eqb p q); [reflexivity|]. symmetry. apply option_map_id. intro x. apply upd_parent_other. exact E2.
    + injection R as R'. apply Plain; [symmetry; exact R' | intros; discriminate].
    + injection R as R'. apply Plain; [symmetry; exact R' | intros; discriminate].
    + injection R as R'. apply Plain; [symmetry; exact R' | intros; discriminate].
Qed.

Section NewRank.
  Variable m0 : man.
  Hypothesis N0 : NoDup (map fst m0).

  Definition keep_at (p : path) : bool :=
    match mget m0 p with Some e => keep_for_new_rank e | None => true end.

  (* p is a withheld (not kept) child of the container at q, and _remove_entry touches q for it *)
  Definition rm_child (q p : path) : bool :=
    negb (keep_at p) && path_eqb (removelast p) q && nonnil (join q).

  Definition strip (done : list path) (q : path) (e : mentry) : mentry :=
    match e with
    | MCont (EDict ord ks) =>
        MCont (EDict ord (fold_left remove_key (map (fun p => decode (last p [])) (filter (rm_child q) done)) ks))
    | _ => e
    end.

  Definition nr_spec (done : list path) (q : path) : option mentry :=
    match mget m0 q with
    | None => None
    | Some e => if keep_for_new_rank e then Some (strip done q e)
                else if path_memb q done then None else Some e
    end.

  Definition Inv (done : list path) (cur : man) : Prop :=
    NoDup (map fst cur) /\ forall q, mget cur q = nr_spec done q.

  Lemma strip_keep : forall done q e, keep_for_new_rank (strip done q e) = keep_for_new_rank e.
  Proof. intros done q [[|ord ks]| | |]; reflexivity. Qed.

  Lemma strip_nil : forall q e, strip [] q e = e.
  Proof. intros q [[|ord ks]| | |]; reflexivity. Qed.

  Lemma inv_init : Inv [] m0.
  Proof.
    split; [exact N0|]. intro q. unfold nr_spec. destruct (mget m0 q) as [e|]; [|reflexivity].
    rewrite strip_nil. destruct (keep_for_new_rank e); reflexivity.
  Qed.

  Lemma strip_snoc_keep : forall done p q e, keep_at p = true -> strip (done ++ [p]) q e = strip done q e.
  Proof.
    intros done p q e K. unfold strip. rewrite filter_app. cbn [filter]. unfold rm_child at 2. rewrite K. cbn [negb andb].
    rewrite app_nil_r. reflexivity.
  Qed.

  Lemma strip_snoc_rm : forall done p q e, keep_at p = false ->
    strip (done ++ [p]) q e = upd_parent p q (strip done q e).
  Proof.
    intros done p q e KA.
    assert (R : rm_child q p = path_eqb (removelast p) q && nonnil (join q)) by (unfold rm_child; rewrite KA; reflexivity).
    unfold upd_parent. destruct (path_eqb (removelast p) q) eqn:E2.
    - apply path_eqb_eq in E2. subst q. cbn [andb] in *.
      destruct e as [[|ord ks]|i|i|s]; try (destruct (nonnil _); reflexivity).
      unfold strip. rewrite filter_app. cbn [filter]. rewrite R.
      destruct (nonnil (join (removelast p))).
      + rewrite map_app, fold_left_app. reflexivity.
      + rewrite app_nil_r. reflexivity.
    - cbn [andb] in *. destruct e as [[|ord ks]|i|i|s]; try reflexivity.
      unfold strip. rewrite filter_app. cbn [filter]. rewrite R, app_nil_r. reflexivity.
  Qed.

  Lemma inv_step : forall done cur p m', Inv done cur -> In p (map fst m0) -> ~ In p done ->
    new_rank_step rk_current (Some cur) p = Some m' -> Inv (done ++ [p]) m'.
  Proof.
    intros done cur p m' [Nc I] Hp Hnd S. unfold new_rank_step in S.
    destruct (in_paths_mget m0 p Hp) as [e0 E0].
    pose proof (I p) as Ip. unfold nr_spec in Ip. rewrite E0 in Ip.
    destruct (keep_for_new_rank e0) eqn:K.
    - (* kept: nothing happens *)
      rewrite Ip, strip_keep, K in S. inversion S; subst m'. split; [exact Nc|]. intro q. rewrite (I q). unfold nr_spec.
      destruct (mget m0 q) as [e|] eqn:Eq; [|reflexivity].
      assert (KA : keep_at p = true) by (unfold keep_at; rewrite E0; exact K).
      rewrite (strip_snoc_keep done p q e KA). destruct (keep_for_new_rank e) eqn:Ke; [reflexivity|].
      rewrite path_memb_app. destruct (path_memb q done); [reflexivity|]. cbn [orb].
      unfold path_memb. cbn [existsb]. rewrite orb_false_r. destruct (path_eqb q p) eqn:E; [|reflexivity].
      apply path_eqb_eq in E. subst q. congruence.
    - (* withheld: _remove_entry *)
      assert (Hm : path_memb p done = false).
      { destruct (path_memb p done) eqn:X; [|reflexivity]. apply path_memb_in in X. contradiction. }
      rewrite Hm in Ip. rewrite Ip, K in S.
      destruct (remove_entry_lookup cur p e0 m' Nc Ip S) as [Nm L]. split; [exact Nm|].
      assert (KA : keep_at p = false) by (unfold keep_at; rewrite E0; exact K).
      intro q. rewrite (L q). destruct (path_eqb p q) eqn:E.
      + apply path_eqb_eq in E. subst q. unfold nr_spec. rewrite E0, K, path_memb_app.
        unfold path_memb at 2. cbn [existsb]. rewrite path_eqb_refl. rewrite orb_true_r. reflexivity.
      + rewrite (I q). unfold nr_spec. destruct (mget m0 q) as [e|] eqn:Eq; [|reflexivity].
        destruct (keep_for_new_rank e) eqn:Ke.
        * cbn [option_map]. f_equal. symmetry. apply strip_snoc_rm. exact KA.
        * rewrite path_memb_app. destruct (path_memb q done); [reflexivity|]. cbn [orb option_map].
          unfold path_memb. cbn [existsb]. rewrite (path_eqb_sym q p), E. cbn [orb]. f_equal.
          unfold upd_parent. destruct (_ && _); [|reflexivity].
          destruct e as [[|ord ks]| | |]; try reflexivity; discriminate.
  Qed.

  Lemma new_rank_fold_none : forall rk ps, fold_left (new_rank_step rk) ps None = None.
  Proof. intros rk. induction ps as [|p r IH]; [reflexivity | exact IH]. Qed.

  Lemma inv_fold : forall ps done cur m', Inv done cur -> (forall p, In p ps -> In p (map fst m0)) ->
    NoDup (done ++ ps) -> fold_left (new_rank_step rk_current) ps (Some cur) = Some m' -> Inv (done ++ ps) m'.
  Proof.
    induction ps as [|p r IH]; intros done cur m' I Hin Nd F.
    - cbn [fold_left] in F. inversion F; subst. rewrite app_nil_r. exact I.
    - cbn [fold_left] in F. destruct (new_rank_step rk_current (Some cur) p) as [c1|] eqn:S.
      + assert (I1 : Inv (done ++ [p]) c1).
        { apply (inv_step done cur p c1 I); [apply Hin; left; reflexivity | | exact S].
          apply NoDup_remove_2 in Nd. intro K. apply Nd. apply in_or_app. left. exact K. }
        replace (done ++ p :: r) with ((done ++ [p]) ++ r) by (rewrite <- app_assoc; reflexivity).
        apply (IH (done ++ [p]) c1 m' I1); [intros x Hx; apply Hin; right; exact Hx | | exact F].
        rewrite <- app_assoc. exact Nd.
      + rewrite new_rank_fold_none in F. discriminate.
  Qed.

  Definition withheld_tokens (q : path) : list token :=
    map (fun p => last p []) (filter (rm_child q) (map fst m0)).

  (* the view of a new rank, entry by entry *)
  Lemma new_rank_lookup : forall m', manifest_for_new_rank m0 = Some m' ->
    NoDup (map fst m') /\
    forall q, mget m' q = match mget m0 q with
                          | None => None
                          | Some e => if keep_for_new_rank e then Some (strip (map fst m0) q e) else None
                          end.
  Proof.
    intros m' F. unfold manifest_for_new_rank, manifest_for_new_rank_with in F.
    destruct (inv_fold (map fst m0) [] m0 m' inv_init (fun p H => H) N0 F) as [Nm I]. cbn [app] in I.
    split; [exact Nm|]. intro q. rewrite (I q). unfold nr_spec. destruct (mget m0 q) as [e|] eqn:E; [|reflexivity].
    destruct (keep_for_new_rank e); [reflexivity|].
    assert (X : path_memb q (map fst m0) = true) by (apply path_memb_in; apply (mget_some_path m0 q e E)). rewrite X. reflexivity.
  Qed.
End NewRank.

(* ---- no exception for a new rank when every entry of rank 0 has its parent container *)
Lemma removelast_neq : forall {A} (p : list A), p <> [] -> removelast p <> p.
Proof.
  intros A p Hp E. destruct p as [|a r]; [contradiction|].
  pose proof (app_removelast_last a Hp) as H. rewrite E in H.
  apply (f_equal (@length _)) in H. rewrite app_length in H. cbn [length] in H. lia.
Qed.

Lemma join_nil_of_nil : forall q : path, q = [] -> join q = [].
Proof. intros q ->. reflexivity. Qed.

Section NewRankDefined.
  Variable m0 : man.
  Hypothesis N0 : NoDup (map fst m0).
  Hypothesis P0 : forall p, In p (map fst m0) -> parent_ok m0 p = true.

  Lemma new_rank_step_defined : forall done cur p, Inv m0 done cur -> In p (map fst m0) -> ~ In p done ->
    exists c1, new_rank_step rk_current (Some cur) p = Some c1.
  Proof.
    intros done cur p [Nc I] Hp Hnd. unfold new_rank_step.
    destruct (in_paths_mget m0 p Hp) as [e0 E0].
    assert (Hm : path_memb p done = false).
    { destruct (path_memb p done) eqn:X; [|reflexivity]. apply path_memb_in in X. contradiction. }
    pose proof (I p) as Ip. unfold nr_spec in Ip. rewrite E0, Hm in Ip.
    destruct (keep_for_new_rank e0) eqn:K.
    - rewrite Ip, strip_keep, K. eexists. reflexivity.
    - rewrite Ip, K. unfold remove_entry_with. rewrite Ip.
      destruct (join (removelast p)) as [|c js] eqn:J; [eexists; reflexivity|].
      assert (Pne : removelast p <> []) by (intro X; rewrite X in J; discriminate).
      assert (pne : p <> []) by (intro X; subst p; apply Pne; reflexivity).
      rewrite mget_mdel by exact Nc.
      destruct (path_eqb p (removelast p)) eqn:PP.
      { apply path_eqb_eq in PP. exfalso. apply (removelast_neq p pne). symmetry. exact PP. }
      rewrite (I (removelast p)). unfold nr_spec.
      pose proof (P0 p Hp) as PO. unfold parent_ok in PO.
      destruct (removelast p) as [|t ts] eqn:RL; [contradiction|].
      destruct (mget m0 (t :: ts)) as [[[|ord ks]|i|i|s]|] eqn:EP; try discriminate; cbn [keep_for_new_rank is_container orb strip].
      + eexists. reflexivity.
      + unfold rk_current. eexists. reflexivity.
  Qed.

  Lemma new_rank_fold_defined : forall ps done cur, Inv m0 done cur -> (forall p, In p ps -> In p (map fst m0)) ->
    NoDup (done ++ ps) -> exists m', fold_left (new_rank_step rk_current) ps (Some cur) = Some m'.
  Proof.
    induction ps as [|p r IH]; intros done cur I Hin Nd.
    - exists cur. reflexivity.
    - cbn [fold_left].
      assert (Hnd : ~ In p done).
      { apply NoDup_remove_2 in Nd. intro K. apply Nd. apply in_or_app. left. exact K. }
      destruct (new_rank_step_defined done cur p I (Hin p (or_introl eq_refl)) Hnd) as [c1 S]. rewrite S.
      apply (IH (done ++ [p]) c1).
      + apply (inv_step m0 done cur p c1 I (Hin p (or_introl eq_refl)) Hnd S).
      + intros x Hx. apply Hin. right. exact Hx.
      + rewrite <- app_assoc. exact Nd.
  Qed.

  Lemma new_rank_defined : exists m', manifest_for_new_rank m0 = Some m'.
  Proof.
    unfold manifest_for_new_rank, manifest_for_new_rank_with.
    apply (new_rank_fold_defined (map fst m0) [] m0 (inv_init m0 N0) (fun p H => H) N0).
  Qed.
End NewRankDefined.

(* ================================================================== 6. removing a key *)
Lemma py_eqb_refl : forall k, py_eqb k k = true.
Proof.
  intros [s|z|b|i]; cbn [py_eqb key_num].
  - apply str_eqb_refl.
  - apply Z.eqb_refl.
  - apply Z.eqb_refl.
  - apply Z.eqb_refl.
Qed.

Lemma keys_py_distinctb_eq : forall ks, keys_py_distinctb ks = keys_distinctb ks.
Proof. induction ks as [|k r IH]; cbn [keys_py_distinctb keys_distinctb]; [reflexivity | rewrite IH; reflexivity]. Qed.

Lemma find_key_none : forall s ks, find_key s ks = None -> forall k, In k ks -> str_eqb (key_str k) s = false.
Proof.
  induction ks as [|x r IH]; intros F k Hin; [contradiction|]. cbn [find_key] in F.
  destruct (str_eqb (key_str x) s) eqn:E; [discriminate|]. destruct Hin as [->|Hin]; [exact E | exact (IH F k Hin)].
Qed.

Lemma filter_id : forall {A} (f : A -> bool) l, (forall x, In x l -> f x = true) -> filter f l = l.
Proof.
  intros A f. induction l as [|x r IH]; intro H; [reflexivity|]. cbn [filter]. rewrite (H x (or_introl eq_refl)).
  f_equal. apply IH. intros y Hy. apply H. right. exact Hy.
Qed.

(* with pairwise distinct str() and pairwise Python-distinct keys, _remove_entry's key deletion is a filter *)
Lemma remove_key_filter : forall ks s, NoDup (map key_str ks) -> keys_py_distinctb ks = true ->
  remove_key ks s = filter (fun k => negb (str_eqb (key_str k) s)) ks.
Proof.
  induction ks as [|k r IH]; intros s N D; [reflexivity|].
  cbn [map] in N. inversion N as [|x xs Hn N']; subst. cbn [keys_py_distinctb] in D. apply andb_true_iff in D.
  destruct D as [D1 D2]. apply negb_true_iff in D1.
  unfold remove_key. cbn [find_key filter]. destruct (str_eqb (key_str k) s) eqn:E.
  - cbn [remove_pyeq negb]. rewrite py_eqb_refl. symmetry. apply filter_id. intros y Hy. apply negb_true_iff.
    apply str_eqb_neq. intro K. apply str_eqb_eq in E. apply Hn. apply in_map_iff. exists y. split; [congruence | exact Hy].
  - cbn [negb]. specialize (IH s N' D2). unfold remove_key in IH. destruct (find_key s r) as [k'|] eqn:F.
    + cbn [remove_pyeq].
      assert (Hin : In k' r).
      { clear - F. induction r as [|x r IH]; [discriminate|]. cbn [find_key] in F. destruct (str_eqb (key_str x) s).
        - inversion F. left. reflexivity.
        - right. exact (IH F). }
      assert (X : py_eqb k k' = false).
      { destruct (py_eqb k k') eqn:PE; [|reflexivity].
        assert (Y : existsb (py_eqb k) r = true) by (apply existsb_exists; exists k'; split; assumption). congruence. }
      rewrite X. f_equal. exact IH.
    + f_equal. exact IH.
Qed.

Lemma keys_py_distinctb_filter : forall (f : key -> bool) ks, keys_py_distinctb ks = true -> keys_py_distinctb (filter f ks) = true.
Proof.
  intros f. induction ks as [|k r IH]; intro D; [reflexivity|]. cbn [keys_py_distinctb] in D. apply andb_true_iff in D.
  destruct D as [D1 D2]. cbn [filter]. destruct (f k); [|exact (IH D2)]. cbn [keys_py_distinctb]. rewrite (IH D2), andb_true_r.
  apply negb_true_iff. apply negb_true_iff in D1. destruct (existsb (py_eqb k) (filter f r)) eqn:E; [|reflexivity].
  apply existsb_exists in E. destruct E as [y [Hy Py]]. apply filter_In in Hy. destruct Hy as [Hy _].
  assert (Y : existsb (py_eqb k) r = true) by (apply existsb_exists; exists y; split; assumption). congruence.
Qed.

Lemma filter_filter : forall {A} (f g : A -> bool) l, filter f (filter g l) = filter (fun x => g x && f x) l.
Proof.
  intros A f g. induction l as [|x r IH]; [reflexivity|]. cbn [filter]. destruct (g x); cbn [filter andb]; [|exact IH].
  destruct (f x); [f_equal|]; exact IH.
Qed.

Lemma fold_remove_key_filter : forall ss ks, NoDup (map key_str ks) -> keys_py_distinctb ks = true ->
  fold_left remove_key ss ks = filter (fun k => negb (str_memb (key_str k) ss)) ks.
Proof.
  induction ss as [|s r IH]; intros ks N D.
  - cbn [fold_left str_memb negb]. symmetry. apply filter_id. reflexivity.
  - cbn [fold_left]. rewrite (remove_key_filter ks s N D).
    rewrite IH; [| apply NoDup_map_filter; exact N | apply keys_py_distinctb_filter; exact D].
    rewrite filter_filter. apply filter_ext. intro k. cbn [str_memb]. rewrite negb_orb.
    reflexivity.
Qed.

(* flatten's component for the key k is key_token k = encode (str k); the removed key is exactly that k *)
Lemma remove_key_of_flatten_token : forall ks k, In k ks -> NoDup (map key_str ks) -> keys_py_distinctb ks = true ->
  exists l1 l2, ks = l1 ++ k :: l2 /\ remove_key ks (decode (key_token k)) = l1 ++ l2 /\ ~ In k (l1 ++ l2).
Proof.
  intros ks k Hin N D. unfold key_token. rewrite decode_encode. rewrite (remove_key_filter ks _ N D).
  destruct (in_split k ks Hin) as [l1 [l2 E]]. exists l1, l2. split; [exact E|]. subst ks.
  rewrite map_app in N. cbn [map] in N.
  assert (F1 : forall x, In x l1 -> negb (str_eqb (key_str x) (key_str k)) = true).
  { intros x Hx. apply negb_true_iff. apply str_eqb_neq. intro K. apply NoDup_remove_2 in N. apply N.
    apply in_or_app. left. apply in_map_iff. exists x. split; assumption. }
  assert (F2 : forall x, In x l2 -> negb (str_eqb (key_str x) (key_str k)) = true).
  { intros x Hx. apply negb_true_iff. apply str_eqb_neq. intro K. apply NoDup_remove_2 in N. apply N.
    apply in_or_app. right. apply in_map_iff. exists x. split; assumption. }
  rewrite filter_app. cbn [filter]. rewrite str_eqb_refl. cbn [negb]. rewrite (filter_id _ l1 F1), (filter_id _ l2 F2).
  split; [reflexivity|]. intro K. apply in_app_or in K. destruct K as [K|K].
  - specialize (F1 k K). rewrite str_eqb_refl in F1. discriminate.
  - specialize (F2 k K). rewrite str_eqb_refl in F2. discriminate.
Qed.

(* ================================================================== 7. sorting shards by offsets *)
Lemma lex_ltb_asym : forall a b, lex_ltb a b = true -> lex_ltb b a = false.
Proof.
  induction a as [|x a IH]; intros [|y b] H; cbn [lex_ltb] in *; try discriminate; try reflexivity.
  destruct (x <? y) eqn:E1.
  - apply Z.ltb_lt in E1. destruct (y <? x) eqn:E2; [apply Z.ltb_lt in E2; lia | reflexivity].
  - destruct (y <? x) eqn:E2; [discriminate|]. apply IH. exact H.
Qed.

(* adjacent elements are never in strictly decreasing offsets order *)
Fixpoint sorted_shards (l : list shard) : Prop :=
  match l with
  | [] => True
  | x :: r => match r with
              | [] => True
              | y :: _ => lex_ltb (fst y) (fst x) = false /\ sorted_shards r
              end
  end.

Lemma insert_shard_perm : forall x l, Permutation (insert_shard x l) (x :: l).
Proof.
  intros x. induction l as [|y r IH]; cbn [insert_shard]; [apply Permutation_refl|].
  destruct (lex_ltb (fst y) (fst x)); [|apply Permutation_refl].
  eapply perm_trans; [apply perm_skip; exact IH | apply perm_swap].
Qed.

Lemma sort_shards_perm : forall l, Permutation (sort_shards l) l.
Proof.
  induction l as [|x r IH]; cbn [sort_shards]; [apply perm_nil|].
  eapply perm_trans; [apply insert_shard_perm | apply perm_skip; exact IH].
Qed.

Lemma insert_shard_sorted : forall x l, sorted_shards l -> sorted_shards (insert_shard x l).
Proof.
  intros x. induction l as [|y r IH]; intro S; cbn [insert_shard]; [exact I|].
  destruct (lex_ltb (fst y) (fst x)) eqn:E.
  - specialize (IH (match r as r0 return sorted_shards (y :: r0) -> sorted_shards r0 with
                    | [] => fun _ => I | _ :: _ => fun H => proj2 H end S)).
    destruct r as [|z r']; cbn [insert_shard] in *.
    + cbn [sorted_shards]. split; [apply lex_ltb_asym; exact E | exact I].
    + destruct S as [S1 S2]. destruct (lex_ltb (fst z) (fst x)) eqn:E2.
      * cbn [sorted_shards]. split; [exact S1 | exact IH].
      * cbn [sorted_shards]. split; [apply lex_ltb_asym; exact E | exact IH].
  - cbn [sorted_shards]. split; [exact E | exact S].
Qed.

Lemma sort_shards_sorted : forall l, sorted_shards (sort_shards l).
Proof. induction l as [|x r IH]; cbn [sort_shards]; [exact I | apply insert_shard_sorted; exact IH]. Qed.

(* ================================================================== 8. handle_sharded_tensor_elasticity *)
Lemma path_memb_filter : forall (f : path -> bool) q l, path_memb q (filter f l) = path_memb q l && f q.
Proof.
  intros f q. induction l as [|x r IH]; [reflexivity|]. cbn [filter]. unfold path_memb in *. cbn [existsb].
  destruct (f x) eqn:F; cbn [existsb]; rewrite IH.
  - destruct (path_eqb q x) eqn:E; [|reflexivity]. apply path_eqb_eq in E. subst. rewrite F. cbn [orb andb].
    destruct (existsb (path_eqb x) r); reflexivity.
  - destruct (path_eqb q x) eqn:E; [|reflexivity]. apply path_eqb_eq in E. subst. rewrite F. cbn [orb].
    rewrite !andb_false_r. reflexivity.
Qed.

Section Elastic.
  Variable W : Z.
  Variable g : gman.
  Variable m : man.
  Hypothesis Nm : NoDup (map fst m).

  Definition parent_of (p : path) : path := norm_path (removelast p).

  (* what the add phase has done to the entry at q after the requests [done] *)
  Definition clause2 (done : list path) (cur : man) : Prop :=
    forall q, match mget m q with
              | Some (MCont (EDict ord ks)) => exists extra, mget cur q = Some (MCont (EDict ord (ks ++ extra)))
              | Some e => mget cur q = Some e
              | None => mget cur q = if path_memb q done then Some (MShard (merged_shards W g q)) else None
              end.

  (* an added entry whose parent is a dict has its decoded key in the parent's key list *)
  Definition clause3 (done : list path) (cur : man) : Prop :=
    forall p, In p done -> mget m p = None ->
      match mget m (parent_of p) with
      | Some (MCont (EDict ord ks)) =>
          exists ks', mget cur (parent_of p) = Some (MCont (EDict ord ks')) /\ In (KStr (decode (last p []))) ks'
      | _ => True
      end.

  Definition EInv (done : list path) (cur : man) : Prop :=
    NoDup (map fst cur) /\ clause2 done cur /\ clause3 done cur.

  Lemma einv_init : EInv [] m.
  Proof.
    split; [exact Nm|]. split.
    - intro q. destruct (mget m q) as [[[|ord ks]|i|i|s]|]; try reflexivity. exists []. rewrite app_nil_r. reflexivity.
    - intros p [].
  Qed.

  Lemma c2_cur_dict : forall done cur q ord ks1, clause2 done cur -> mget cur q = Some (MCont (EDict ord ks1)) ->
    exists ks0 extra, mget m q = Some (MCont (EDict ord ks0)) /\ ks1 = ks0 ++ extra.
  Proof.
    intros done cur q ord ks1 C H. specialize (C q). destruct (mget m q) as [[[|o k]|i|i|s]|].
    - rewrite H in C. discriminate.
    - destruct C as [extra C]. rewrite H in C. inversion C; subst. exists k, extra. split; reflexivity.
    - rewrite H in C. discriminate.
    - rewrite H in C. discriminate.
    - rewrite H in C. discriminate.
    - rewrite H in C. destruct (path_memb q done); discriminate.
  Qed.

  Lemma c2_cur_none : forall done cur q, clause2 done cur -> mget cur q = None ->
    mget m q = None /\ path_memb q done = false.
  Proof.
    intros done cur q C H. specialize (C q). destruct (mget m q) as [[[|o k]|i|i|s]|].
    - rewrite H in C. discriminate.
    - destruct C as [extra C]. rewrite H in C. discriminate.
    - rewrite H in C. discriminate.
    - rewrite H in C. discriminate.
    - rewrite H in C. discriminate.
    - rewrite H in C. destruct (path_memb q done); [discriminate|]. split; reflexivity.
  Qed.

  Lemma c2_cur_some_done : forall done cur q, clause2 done cur -> mget m q = None -> mget cur q <> None ->
    path_memb q done = true.
  Proof.
    intros done cur q C H Hc. specialize (C q). rewrite H in C. destruct (path_memb q done); [reflexivity|]. contradiction.
  Qed.

  Lemma path_memb_snoc : forall q done p, path_memb q (done ++ [p]) = path_memb q done || path_eqb q p.
  Proof. intros. rewrite path_memb_app. unfold path_memb at 2. cbn [existsb]. rewrite orb_false_r. reflexivity. Qed.

  Lemma einv_step : forall done cur p c1, EInv done cur ->
    elastic_add W g (Some cur) p = Some c1 -> EInv (done ++ [p]) c1.
  Proof.
    intros done cur p c1 [Nc [C2 C3]] S. unfold elastic_add, elastic_add_with in S.
    destruct (mget cur p) as [ep|] eqn:Ecp.
    - (* already present *)
      inversion S; subst c1. split; [exact Nc|]. split.
      + intro q. specialize (C2 q) as Cq. destruct (mget m q) as [[[|ord ks]|i|i|s]|] eqn:Emq; try exact Cq.
        rewrite path_memb_snoc. destruct (path_memb q done) eqn:Pd; [exact Cq|]. cbn [orb].
        destruct (path_eqb q p) eqn:E; [|exact Cq]. apply path_eqb_eq in E. subst q. rewrite Ecp in Cq. discriminate.
      + intros p' Hin Hm. apply in_app_or in Hin. destruct Hin as [Hin|[<-|[]]]; [exact (C3 p' Hin Hm)|].
        apply (C3 p); [|exact Hm]. apply path_memb_in. apply (c2_cur_some_done done cur p C2 Hm). rewrite Ecp. discriminate.
    - (* added *)
      destruct (c2_cur_none done cur p C2 Ecp) as [Hmp Hpd].
      set (m1 := mset cur p (MShard (merged_shards W g p))) in *.
      assert (N1 : NoDup (map fst m1)) by (apply mset_nodup; exact Nc).
      assert (G1 : forall q, mget m1 q = if path_eqb p q then Some (MShard (merged_shards W g p)) else mget cur q)
        by (intro q; apply mget_mset).
      fold (parent_of p) in S.
      destruct (mget m1 (parent_of p)) as [e1|] eqn:E1; [|discriminate].
      assert (Plain : c1 = m1 -> (forall ord ks, e1 <> MCont (EDict ord ks)) -> EInv (done ++ [p]) c1).
      { intros -> Hne. split; [exact N1|]. split.
        - intro q. specialize (C2 q) as Cq. rewrite (G1 q). destruct (path_eqb p q) eqn:E.
          + apply path_eqb_eq in E. subst q. rewrite Hmp. rewrite path_memb_snoc, path_eqb_refl, orb_true_r. reflexivity.
          + destruct (mget m q) as [[[|ord ks]|i|i|s]|] eqn:Emq; try exact Cq.
            rewrite path_memb_snoc, (path_eqb_sym q p), E, orb_false_r. exact Cq.
        - intros p' Hin Hm. apply in_app_or in Hin. destruct Hin as [Hin|[<-|[]]].
          + specialize (C3 p' Hin Hm). destruct (mget m (parent_of p')) as [[[|ord ks]|i|i|s]|] eqn:Emp; try exact I.
            destruct C3 as [ks' [Hc Hk]]. exists ks'. split; [|exact Hk]. rewrite (G1 (parent_of p')).
            destruct (path_eqb p (parent_of p')) eqn:E; [|exact Hc]. apply path_eqb_eq in E. rewrite <- E in Emp. congruence.
          + destruct (mget m (parent_of p)) as [[[|ord ks]|i|i|s]|] eqn:Emp; try exact I. exfalso.
            specialize (C2 (parent_of p)). rewrite Emp in C2. destruct C2 as [extra C2].
            rewrite (G1 (parent_of p)) in E1. destruct (path_eqb p (parent_of p)) eqn:E.
            * apply path_eqb_eq in E. rewrite <- E in Emp. congruence.
            * rewrite C2 in E1. inversion E1. apply (Hne ord (ks ++ extra)). congruence. }
      destruct e1 as [[|ord ks1]|i|i|s].
      + injection S as S. apply Plain; [symmetry; exact S | intros; discriminate].
      + (* dict parent: key appended *)
        injection S as S. subst c1. cbn [andb] in *.
        rewrite (G1 (parent_of p)) in E1. destruct (path_eqb p (parent_of p)) eqn:Epp; [discriminate|].
        destruct (c2_cur_dict done cur (parent_of p) ord ks1 C2 E1) as [ks0 [extra [Emp Eks]]].
        set (k := KStr (decode (last p []))) in *.
        assert (G2 : forall q, mget (mset m1 (parent_of p) (MCont (EDict ord (ks1 ++ [k])))) q =
                     if path_eqb (parent_of p) q then Some (MCont (EDict ord (ks1 ++ [k])))
                     else if path_eqb p q then Some (MShard (merged_shards W g p)) else mget cur q).
        { intro q. rewrite mget_mset, (G1 q). reflexivity. }
        split; [apply mset_nodup; exact N1|]. split.
        * intro q. rewrite (G2 q). destruct (path_eqb (parent_of p) q) eqn:E.
          -- apply path_eqb_eq in E. subst q. rewrite Emp. exists (extra ++ [k]). rewrite Eks, <- app_assoc. reflexivity.
          -- specialize (C2 q) as Cq. destruct (path_eqb p q) eqn:E2.
             ++ apply path_eqb_eq in E2. subst q. rewrite Hmp, path_memb_snoc, path_eqb_refl, orb_true_r. reflexivity.
             ++ destruct (mget m q) as [[[|o ks]|i|i|s]|] eqn:Emq; try exact Cq.
                rewrite path_memb_snoc, (path_eqb_sym q p), E2, orb_false_r. exact Cq.
        * intros p' Hin Hm. apply in_app_or in Hin. destruct Hin as [Hin|[<-|[]]].
          -- specialize (C3 p' Hin Hm). destruct (mget m (parent_of p')) as [[[|o ks]|i|i|s]|] eqn:Emp'; try exact I.
             destruct C3 as [ks' [Hc Hk]]. rewrite (G2 (parent_of p')). destruct (path_eqb (parent_of p) (parent_of p')) eqn:E.
             ++ apply path_eqb_eq in E. rewrite <- E in Hc, Emp'. rewrite E1 in Hc. rewrite Emp in Emp'.
                assert (X : o = ord /\ ks' = ks1) by (split; congruence). destruct X as [-> ->].
                exists (ks1 ++ [k]). split; [reflexivity|]. apply in_or_app. left. exact Hk.
             ++ destruct (path_eqb p (parent_of p')) eqn:E2.
                ** apply path_eqb_eq in E2. rewrite <- E2 in Emp'. congruence.
                ** exists ks'. split; assumption.
          -- rewrite Emp. exists (ks1 ++ [k]). split.
             ++ rewrite (G2 (parent_of p)), path_eqb_refl. reflexivity.
             ++ apply in_or_app. right. left. reflexivity.
      + injection S as S. apply Plain; [symmetry; exact S | intros; discriminate].
      + injection S as S. apply Plain; [symmetry; exact S | intros; discriminate].
      + injection S as S. apply Plain; [symmetry; exact S | intros; discriminate].
  Qed.

  Lemma elastic_fold_none : forall legacy ps, fold_left (elastic_add_with legacy W g) ps None = None.
  Proof. intros legacy. induction ps as [|p r IH]; [reflexivity | exact IH]. Qed.

  Lemma einv_fold : forall ps done cur m1, EInv done cur ->
    fold_left (elastic_add W g) ps (Some cur) = Some m1 -> EInv (done ++ ps) m1.
  Proof.
    induction ps as [|p r IH]; intros done cur m1 I F.
    - cbn [fold_left] in F. inversion F; subst. rewrite app_nil_r. exact I.
    - cbn [fold_left] in F. destruct (elastic_add W g (Some cur) p) as [c1|] eqn:S.
      + replace (done ++ p :: r) with ((done ++ [p]) ++ r) by (rewrite <- app_assoc; reflexivity).
        apply (IH (done ++ [p]) c1 m1); [apply (einv_step done cur p c1 I S) | exact F].
      + unfold elastic_add in F. rewrite elastic_fold_none in F. discriminate.
  Qed.

  (* the result of handle_sharded_tensor_elasticity, entry by entry *)
  Lemma elasticity_lookup : forall reqs m', elasticity W g m reqs = Some m' ->
    NoDup (map fst m') /\
    (forall q, match mget m q with
               | Some (MCont (EDict ord ks)) => exists extra, mget m' q = Some (MCont (EDict ord (ks ++ extra)))
               | Some (MShard s) => mget m' q = if path_memb q reqs && merged_has W g q then Some (MShard s) else None
               | Some e => mget m' q = Some e
               | None => mget m' q = if path_memb q reqs && merged_has W g q
                                     then Some (MShard (merged_shards W g q)) else None
               end) /\
    (forall p, In p reqs -> merged_has W g p = true -> mget m p = None ->
       match mget m (parent_of p) with
       | Some (MCont (EDict ord ks)) =>
           exists ks', mget m' (parent_of p) = Some (MCont (EDict ord ks')) /\ In (KStr (decode (last p []))) ks'
       | _ => True
       end).
  Proof.
    intros reqs m' E. unfold elasticity, elasticity_with in E.
    destruct (fold_left (elastic_add_with false W g) (filter (merged_has W g) reqs) (Some m)) as [m1|] eqn:F; [|discriminate].
    inversion E; subst m'. clear E.
    destruct (einv_fold (filter (merged_has W g) reqs) [] m m1 einv_init F) as [N1 [C2 C3]]. cbn [app] in C2, C3.
    split; [apply filter_nodup_paths; exact N1|]. split.
    - intro q. rewrite (mget_filter _ m1 q N1). cbn [fst snd]. rewrite path_memb_filter.
      specialize (C2 q). destruct (mget m q) as [[[|ord ks]|i|i|s]|] eqn:Emq.
      + rewrite C2. reflexivity.
      + destruct C2 as [extra C2]. exists extra. rewrite C2. reflexivity.
      + rewrite C2. reflexivity.
      + rewrite C2. reflexivity.
      + rewrite C2. cbn [is_sharded andb]. destruct (path_memb q reqs && merged_has W g q); reflexivity.
      + rewrite path_memb_filter in C2. rewrite C2. destruct (path_memb q reqs && merged_has W g q); [|reflexivity].
        cbn [is_sharded negb andb]. reflexivity.
    - intros p Hin Hm Hmp. specialize (C3 p). 
      assert (Hin' : In p (filter (merged_has W g) reqs)) by (apply filter_In; split; assumption).
      specialize (C3 Hin' Hmp). destruct (mget m (parent_of p)) as [[[|ord ks]|i|i|s]|]; try exact I.
      destruct C3 as [ks' [Hc Hk]]. exists ks'. split; [|exact Hk]. rewrite (mget_filter _ m1 _ N1), Hc. reflexivity.
  Qed.
End Elastic.

(* ================================================================== 9. the property-level statements *)
Lemma join_nonnil : forall q, path_ok q = true -> nonnil (join q) = true.
Proof.
  intros [|t r] H; cbn [path_ok] in H; [discriminate|]. destruct t as [|c t]; [discriminate|].
  cbn [join]. destruct r; reflexivity.
Qed.

Section Global.
  Variable W : Z.
  Variable g : gman.
  Hypothesis WF : wf_global W g.

  Let m0 := rank_manifest g 0.

  Lemma g_entry : forall r p e, In (r, p, e) g ->
    0 <= r < W /\ NoDup (map fst (rank_manifest g r)) /\ mget (rank_manifest g r) p = Some e.
  Proof.
    intros r p e Hin. destruct (wf_parts W g WF) as [_ [R [N _]]].
    pose proof (R _ Hin) as Hr. unfold grank in Hr. cbn [fst] in Hr. split; [exact Hr|]. split; [exact (N r Hr)|].
    apply mget_in; [exact (N r Hr) | apply in_rank_manifest; exact Hin].
  Qed.

  Lemma g_nodup0 : NoDup (map fst m0).
  Proof. destruct (wf_parts W g WF) as [HW [_ [N _]]]. apply N. lia. Qed.

  Lemma g_parent0 : forall p, In p (map fst m0) -> parent_ok m0 p = true.
  Proof.
    intros p Hp. destruct (wf_parts W g WF) as [_ [_ [_ [_ [P _]]]]].
    apply in_map_iff in Hp. destruct Hp as [[p' e] [E Hin]]. cbn [fst] in E. subst p'.
    apply in_rank_manifest in Hin. exact (P _ Hin).
  Qed.

  Lemma repl_rank0 : forall r p i, In (r, p, MRepl i) g -> r = 0.
  Proof.
    intros r p i Hin. destruct (wf_parts W g WF) as [_ [_ [_ [_ [_ [R _]]]]]].
    destruct (Z.eq_dec r 0) as [E|E]; [exact E|]. destruct (R _ Hin E) as [X _]. discriminate.
  Qed.

  Lemma get_defined : forall r', exists m, get_manifest_for_rank W g r' = Some m.
  Proof.
    intro r'. unfold get_manifest_for_rank. destruct (is_existing_rank W r'); [eexists; reflexivity|].
    apply new_rank_defined; [exact g_nodup0 | exact g_parent0].
  Qed.

  Lemma get_nodup : forall r' m, 0 <= r' -> get_manifest_for_rank W g r' = Some m -> NoDup (map fst m).
  Proof.
    intros r' m Hr G. unfold get_manifest_for_rank, is_existing_rank in G. destruct (r' <? W) eqn:E.
    - inversion G; subst. apply existing_nodup. destruct (wf_parts W g WF) as [_ [_ [N _]]]. apply N. apply Z.ltb_lt in E. lia.
    - exact (proj1 (new_rank_lookup m0 g_nodup0 m G)).
  Qed.

  (* ---- replicated: visible to every rank index, with the saved entry *)
  Lemma replicated_visible_everywhere : forall r p i, In (r, p, MRepl i) g -> forall r', 0 <= r' ->
    exists m, get_manifest_for_rank W g r' = Some m /\ mget m p = Some (MRepl i).
  Proof.
    intros r p i Hin r' Hr'. pose proof (repl_rank0 r p i Hin) as ->.
    destruct (g_entry 0 p (MRepl i) Hin) as [_ [_ E0]]. fold m0 in E0.
    destruct (get_defined r') as [m G]. exists m. split; [exact G|].
    unfold get_manifest_for_rank, is_existing_rank in G. destruct (r' <? W) eqn:E.
    - inversion G; subst m. rewrite (existing_lookup W g r' p g_nodup0). fold m0. rewrite E0. reflexivity.
    - destruct (new_rank_lookup m0 g_nodup0 m G) as [_ L]. rewrite (L p), E0. reflexivity.
  Qed.

  Lemma merge_at_priv : forall p x i, option_map (merge_at W g p) x = Some (MPriv i) -> x = Some (MPriv i).
  Proof. intros p [[c|j|j|s]|] i H; cbn in H; try discriminate; inversion H; reflexivity. Qed.

  (* ---- private: only the rank index that saved it *)
  Lemma private_only_to_owner : forall r p i, In (r, p, MPriv i) g -> forall r' m, 0 <= r' ->
    get_manifest_for_rank W g r' = Some m ->
    (r' = r -> mget m p = Some (MPriv i)) /\
    (forall p', mget m p' = Some (MPriv i) -> r' = r /\ p' = p).
  Proof.
    intros r p i Hin r' m Hr' G. destruct (g_entry r p (MPriv i) Hin) as [Rr [_ Er]].
    destruct (wf_parts W g WF) as [_ [_ [_ [_ [_ [RP NP]]]]]].
    unfold get_manifest_for_rank, is_existing_rank in G. destruct (r' <? W) eqn:E.
    - inversion G; subst m. split.
      + intros ->. rewrite (existing_lookup W g r p g_nodup0). fold m0.
        assert (X : match mget m0 p with Some e => if is_replicated e then Some e else mget (rank_manifest g r) p
                    | None => mget (rank_manifest g r) p end = Some (MPriv i)).
        { destruct (Z.eq_dec r 0) as [->|Hr0].
          - fold m0 in Er. rewrite Er. cbn [is_replicated]. exact Er.
          - destruct (RP _ Hin Hr0) as [_ X]. unfold repl_at0, gpath in X. cbn [fst snd] in X. fold m0 in X.
            destruct (mget m0 p) as [[c|j|j|s]|]; try exact Er. discriminate. }
        rewrite X. reflexivity.
      + intros p' H. rewrite (existing_lookup W g r' p' g_nodup0) in H. fold m0 in H. apply merge_at_priv in H.
        assert (X : mget (rank_manifest g r') p' = Some (MPriv i)).
        { destruct (mget m0 p') as [e|] eqn:E0; [|exact H]. destruct (is_replicated e) eqn:Re; [|exact H].
          inversion H; subst e. discriminate. }
        apply mget_some_in in X. apply in_rank_manifest in X.
        destruct (priv_id_owner g r p i r' p' NP Hin X) as [-> ->]. split; reflexivity.
    - destruct (new_rank_lookup m0 g_nodup0 m G) as [_ L]. split.
      + intros ->. apply Z.ltb_ge in E. lia.
      + intros p' H. rewrite (L p') in H. destruct (mget m0 p') as [e|]; [|discriminate].
        destruct (keep_for_new_rank e) eqn:K; [|discriminate]. inversion H as [H1].
        destruct e as [[|ord ks]|j|j|s]; cbn in H1, K; discriminate.
  Qed.

  (* ---- sharded: what an existing rank sees is the merged entry *)
  Lemma sharded_visible_is_merged : forall r' m p s, 0 <= r' -> get_manifest_for_rank W g r' = Some m ->
    mget m p = Some (MShard s) ->
    s = merged_shards W g p /\ Permutation s (all_shards W g p) /\ sorted_shards s /\
    r' < W /\ exists s0, In (r', p, MShard s0) g.
  Proof.
    intros r' m p s Hr' G H. unfold get_manifest_for_rank, is_existing_rank in G. destruct (r' <? W) eqn:E.
    - inversion G; subst m. rewrite (existing_lookup W g r' p g_nodup0) in H. fold m0 in H.
      set (x := match mget m0 p with Some e => if is_replicated e then Some e else mget (rank_manifest g r') p
                | None => mget (rank_manifest g r') p end) in *.
      assert (X : exists s0, x = Some (MShard s0) /\ s = merged_shards W g p).
      { destruct x as [[c|j|j|s0]|]; cbn in H; try discriminate. inversion H. exists s0. split; reflexivity. }
      destruct X as [s0 [X ->]]. split; [reflexivity|]. split; [apply sort_shards_perm|]. split; [apply sort_shards_sorted|].
      split; [apply Z.ltb_lt; exact E|]. exists s0. apply in_rank_manifest. apply mget_some_in. subst x.
      destruct (mget m0 p) as [e|]; [|exact X]. destruct (is_replicated e) eqn:Re; [|exact X]. inversion X; subst e. discriminate.
    - destruct (new_rank_lookup m0 g_nodup0 m G) as [_ L]. rewrite (L p) in H. destruct (mget m0 p) as [e|]; [|discriminate].
      destruct (keep_for_new_rank e) eqn:K; [|discriminate]. inversion H as [H1].
      destruct e as [[|ord ks]|j|j|s1]; cbn in H1, K; discriminate.
  Qed.

  Lemma path_memb_true_in : forall p l, In p l -> path_memb p l = true.
  Proof. intros. apply path_memb_in. assumption. Qed.

  Lemma path_memb_false_notin : forall p l, ~ In p l -> path_memb p l = false.
  Proof. intros p l H. destruct (path_memb p l) eqn:E; [|reflexivity]. apply path_memb_in in E. contradiction. Qed.

  (* ---- sharded: after handle_sharded_tensor_elasticity, present iff requested *)
  Lemma sharded_present_iff_requested : forall r' reqs m m' p, 0 <= r' ->
    get_manifest_for_rank W g r' = Some m -> elasticity W g m reqs = Some m' ->
    merged_has W g p = true -> (forall e, mget m p = Some e -> is_sharded e = true) ->
    (In p reqs -> mget m' p = Some (MShard (merged_shards W g p))) /\
    (~ In p reqs -> mget m' p = None) /\
    (In p reqs -> mget m p = None -> forall ord ks, mget m (parent_of p) = Some (MCont (EDict ord ks)) ->
       exists ks', mget m' (parent_of p) = Some (MCont (EDict ord ks')) /\
                   In (KStr (decode (last p []))) ks' /\ key_str (KStr (decode (last p []))) = decode (last p [])).
  Proof.
    intros r' reqs m m' p Hr' G El Hm Hs.
    destruct (elasticity_lookup W g m (get_nodup r' m Hr' G) reqs m' El) as [_ [L K]].
    specialize (L p). split; [|split].
    - intro Hin. rewrite (path_memb_true_in p reqs Hin), Hm in L. cbn [andb] in L.
      destruct (mget m p) as [e|] eqn:E; [|exact L]. pose proof (Hs e eq_refl) as S.
      destruct e as [c|j|j|s]; try discriminate.
      destruct (sharded_visible_is_merged r' m p s Hr' G E) as [-> _]. exact L.
    - intro Hn. rewrite (path_memb_false_notin p reqs Hn) in L. cbn [andb] in L.
      destruct (mget m p) as [e|] eqn:E; [|exact L]. pose proof (Hs e eq_refl) as S.
      destruct e as [c|j|j|s]; try discriminate. exact L.
    - intros Hin Hnone ord ks Hp. specialize (K p Hin Hm Hnone). rewrite Hp in K. destruct K as [ks' [K1 K2]].
      exists ks'. split; [exact K1|]. split; [exact K2 | reflexivity].
  Qed.

  (* ---- containers of an existing rank are unchanged by get_manifest_for_rank *)
  Lemma containers_existing : forall r' p c, In (r', p, MCont c) g ->
    mget (manifest_for_existing_rank W g r') p = Some (MCont c).
  Proof.
    intros r' p c Hin. destruct (g_entry r' p (MCont c) Hin) as [_ [_ Er]].
    destruct (wf_parts W g WF) as [_ [_ [_ [_ [_ [RP _]]]]]].
    rewrite (existing_lookup W g r' p g_nodup0). fold m0.
    assert (X : match mget m0 p with Some e => if is_replicated e then Some e else mget (rank_manifest g r') p
                | None => mget (rank_manifest g r') p end = Some (MCont c)).
    { destruct (Z.eq_dec r' 0) as [->|Hr0].
      - fold m0 in Er. rewrite Er. cbn [is_replicated]. exact Er.
      - destruct (RP _ Hin Hr0) as [_ X]. unfold repl_at0, gpath in X. cbn [fst snd] in X. fold m0 in X.
        destruct (mget m0 p) as [[c'|j|j|s]|]; try exact Er. discriminate. }
    rewrite X. reflexivity.
  Qed.

  (* the last components of the children of q (in rank 0's manifest) that are withheld from a new rank *)
  Lemma withheld_tokens_spec : forall q t, nonnil (join q) = true ->
    (In t (withheld_tokens m0 q) <-> exists e, mget m0 (q ++ [t]) = Some e /\ keep_for_new_rank e = false).
  Proof.
    intros q t Hq. unfold withheld_tokens. rewrite in_map_iff. split.
    - intros [p [E Hin]]. apply filter_In in Hin. destruct Hin as [Hin R]. unfold rm_child in R.
      apply andb_true_iff in R. destruct R as [R _]. apply andb_true_iff in R. destruct R as [R1 R2].
      apply path_eqb_eq in R2. apply negb_true_iff in R1. unfold keep_at in R1.
      assert (pne : p <> []).
      { intro X. subst p. cbn in R2. subst q. discriminate. }
      pose proof (app_removelast_last [] pne) as D. subst q t.
      destruct (mget m0 p) as [e|] eqn:Emp; [|discriminate]. exists e. split; [|exact R1].
      transitivity (mget m0 p); [f_equal; symmetry; exact D | exact Emp].
    - intros [e [E K]]. exists (q ++ [t]). split; [apply last_last|]. apply filter_In. split.
      + apply (mget_some_path m0 _ e E).
      + unfold rm_child, keep_at. rewrite E, K, removelast_last, path_eqb_refl, Hq. reflexivity.
  Qed.

  (* ---- containers of a new rank: rank 0's, minus exactly the keys of the withheld children, order kept *)
  Lemma containers_new_rank : forall r' m p c, W <= r' -> get_manifest_for_rank W g r' = Some m ->
    In (0, p, MCont c) g ->
    mget m p = Some (MCont (match c with
                            | EList => EList
                            | EDict ord ks =>
                                EDict ord (filter (fun k => negb (str_memb (key_str k) (map decode (withheld_tokens m0 p)))) ks)
                            end)) /\
    (forall t, In t (withheld_tokens m0 p) <-> exists e, In (0, p ++ [t], e) g /\ keep_for_new_rank e = false).
  Proof.
    intros r' m p c Hr' G Hin. destruct (g_entry 0 p (MCont c) Hin) as [_ [_ E0]]. fold m0 in E0.
    destruct (wf_parts W g WF) as [_ [_ [_ [PK _]]]]. destruct (PK _ Hin) as [PO KO]. unfold gpath, gentry in PO, KO.
    cbn [fst snd] in PO, KO.
    unfold get_manifest_for_rank, is_existing_rank in G. assert (E : r' <? W = false) by (apply Z.ltb_ge; exact Hr').
    rewrite E in G. destruct (new_rank_lookup m0 g_nodup0 m G) as [_ L]. split.
    - rewrite (L p), E0. cbn [keep_for_new_rank is_container orb]. f_equal. destruct c as [|ord ks]; [reflexivity|].
      cbn [strip]. f_equal. f_equal. cbn [keys_ok] in KO. apply andb_true_iff in KO. destruct KO as [K1 K2].
      rewrite (fold_remove_key_filter _ ks (nodup_strb_sound _ K2) K1). unfold withheld_tokens. rewrite map_map. reflexivity.
    - intro t. rewrite (withheld_tokens_spec p t (join_nonnil p PO)). split.
      + intros [e [E1 K]]. exists e. split; [|exact K]. apply in_rank_manifest. apply mget_some_in. exact E1.
      + intros [e [E1 K]]. exists e. split; [|exact K]. apply mget_in; [exact g_nodup0 | apply in_rank_manifest; exact E1].
  Qed.
End Global.
