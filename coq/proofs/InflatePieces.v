(* C15: lemmas about the Python vocabulary of model/FlattenPy.v (dicts as association lists, split/join, grouping by
   parent path, population of the heap of containers, reading references back) and about the hand model's [build],
   independent of the generated terms.  proofs/InflateInst.v instantiates them with gen/FlattenRecGen.v. *)
From TS Require Import model.Base model.Flatten model.FlattenPy proofs.FlattenProofs.
From Coq Require Import Permutation.

(* ================================================================== 1. split / join *)
Lemma split_cons : forall s, exists t r, split s = t :: r.
Proof.
  induction s as [|c s [t [r E]]]; cbn [split]; [eauto|].
  destruct (c =? 47); [eauto|]. rewrite E. eauto.
Qed.

Lemma split_tokens_slash_free : forall s, Forall slash_free (split s).
Proof.
  induction s as [|c s IH]; cbn [split].
  - constructor; [intros [] | constructor].
  - destruct (c =? 47) eqn:E.
    + constructor; [intros [] | exact IH].
    + destruct (split s) as [|t ts]; [constructor; [|constructor] | inversion IH; subst; constructor; [|assumption]].
      * intros [K|[]]. subst. discriminate.
      * intros [K|K]; [subst; discriminate | contradiction].
Qed.

Lemma join_split : forall s, join (split s) = s.
Proof.
  induction s as [|c s IH]; [reflexivity|]. cbn [split]. destruct (split_cons s) as [t [r E]].
  destruct (c =? 47) eqn:C.
  - apply Z.eqb_eq in C. subst c. rewrite E in *. cbn [join app] in *. rewrite IH. reflexivity.
  - rewrite E in *. destruct r; cbn [join] in *; rewrite <- IH; reflexivity.
Qed.

Lemma split_singleton : forall p s, slash_free p -> (split s = [p] <-> s = p).
Proof.
  intros p s SF. split; intro H.
  - rewrite <- (join_split s), H. reflexivity.
  - subst. apply split_slash_free. exact SF.
Qed.

Lemma join_inj_sf : forall P Q, P <> [] -> Q <> [] -> Forall slash_free P -> Forall slash_free Q ->
  join P = join Q -> P = Q.
Proof. intros P Q HP HQ FP FQ E. rewrite <- (split_join P HP FP), <- (split_join Q HQ FQ), E. reflexivity. Qed.

Lemma split_head_cons : forall s t r, split s = t :: r -> split_head s = t.
Proof. intros s t r E. unfold split_head. rewrite E. reflexivity. Qed.

Lemma py_pop_snoc : forall {A} (q : list A) t, py_pop (q ++ [t]) = Some (q, t).
Proof. intros A q t. unfold py_pop. rewrite rev_unit, removelast_last. reflexivity. Qed.

Lemma snoc_cases : forall {A} (l : list A), l = [] \/ exists q t, l = q ++ [t].
Proof.
  intros A l. destruct l as [|a l]; [left; reflexivity|]. right.
  exists (removelast (a :: l)), (last (a :: l) a). apply app_removelast_last. discriminate.
Qed.

(* ================================================================== 2. dicts with str keys *)
Lemma sdict_get_set_same : forall {V} k (v : V) d, sdict_get k (sdict_set k v d) = Some v.
Proof.
  intros V k v d. induction d as [|[k' v'] d IH]; cbn [sdict_set sdict_get].
  - rewrite str_eqb_refl. reflexivity.
  - destruct (str_eqb k' k) eqn:E; cbn [sdict_get]; rewrite E; [reflexivity | exact IH].
Qed.

Lemma sdict_get_set_other : forall {V} k k' (v : V) d, k' <> k -> sdict_get k' (sdict_set k v d) = sdict_get k' d.
Proof.
  intros V k k' v d N. induction d as [|[k2 v2] d IH]; cbn [sdict_set sdict_get].
  - destruct (str_eqb k k') eqn:E; [apply str_eqb_eq in E; congruence | reflexivity].
  - destruct (str_eqb k2 k) eqn:E; cbn [sdict_get].
    + apply str_eqb_eq in E. subst k2. destruct (str_eqb k k') eqn:E2; [apply str_eqb_eq in E2; congruence | reflexivity].
    + rewrite IH. reflexivity.
Qed.

Lemma sdict_set_keys : forall {V} k (v : V) d,
  map fst (sdict_set k v d) = if sdict_mem k d then map fst d else map fst d ++ [k].
Proof.
  intros V k v d. unfold sdict_mem. induction d as [|[k' v'] d IH]; cbn [sdict_set sdict_get map fst app]; [reflexivity|].
  destruct (str_eqb k' k) eqn:E; cbn [map fst]; [reflexivity|]. rewrite IH.
  destruct (sdict_get k d); reflexivity.
Qed.

Lemma sdict_get_none : forall {V} k (d : sdict V), sdict_get k d = None <-> ~ In k (map fst d).
Proof.
  intros V k d. induction d as [|[k' v'] d IH]; cbn [sdict_get map fst In]; [tauto|].
  destruct (str_eqb k' k) eqn:E.
  - apply str_eqb_eq in E. subst. split; [discriminate | tauto].
  - apply str_eqb_neq in E. rewrite IH. tauto.
Qed.

Lemma sdict_set_nodup : forall {V} k (v : V) d, NoDup (map fst d) -> NoDup (map fst (sdict_set k v d)).
Proof.
  intros V k v d N. rewrite sdict_set_keys. unfold sdict_mem. destruct (sdict_get k d) eqn:E; [exact N|].
  apply sdict_get_none in E. apply NoDup_app_intro; [exact N | constructor; [tauto | constructor] |].
  intros x H1 [H2|[]]. subst. contradiction.
Qed.

Lemma sdict_set_length : forall {V} k (v : V) d, sdict_mem k d = true -> length (sdict_set k v d) = length d.
Proof.
  intros V k v d H. rewrite <- (map_length fst), sdict_set_keys, H, map_length. reflexivity.
Qed.

Lemma sdict_get_in : forall {V} k (v : V) d, NoDup (map fst d) -> In (k, v) d -> sdict_get k d = Some v.
Proof.
  intros V k v d. induction d as [|[k' v'] d IH]; cbn [map fst]; intros N Hin; [destruct Hin|].
  inversion N as [|? ? Hk N']; subst. cbn [sdict_get]. destruct Hin as [E|Hin].
  - inversion E; subst. rewrite str_eqb_refl. reflexivity.
  - destruct (str_eqb k' k) eqn:E; [|exact (IH N' Hin)].
    apply str_eqb_eq in E. subst k'. exfalso. apply Hk. apply (in_map fst) in Hin. exact Hin.
Qed.

Lemma sdict_get_some_in : forall {V} k (v : V) d, sdict_get k d = Some v -> In (k, v) d.
Proof.
  intros V k v d. induction d as [|[k' v'] d IH]; cbn [sdict_get]; [discriminate|].
  destruct (str_eqb k' k) eqn:E.
  - apply str_eqb_eq in E. intro H. inversion H; subst. left. reflexivity.
  - intro H. right. exact (IH H).
Qed.

Lemma sdict_get_map : forall {V W} (g : V -> W) k (d : sdict V),
  sdict_get k (map (fun kv => (fst kv, g (snd kv))) d) = option_map g (sdict_get k d).
Proof.
  intros V W g k d. induction d as [|[k' v'] d IH]; cbn [map sdict_get fst snd]; [reflexivity|].
  destruct (str_eqb k' k); [reflexivity | exact IH].
Qed.

Lemma sdict_set_absent' : forall {V} k (v : V) d, ~ In k (map fst d) -> sdict_set k v d = d ++ [(k, v)].
Proof.
  intros V k v d. induction d as [|[k' v'] d IH]; cbn [map fst In sdict_set app]; intro H; [reflexivity|].
  destruct (str_eqb k' k) eqn:E.
  - apply str_eqb_eq in E. subst. tauto.
  - rewrite IH by tauto. reflexivity.
Qed.

Lemma flat_map_filter_pairs : forall {A B} (c : A * B -> bool) (l : list (A * B)),
  flat_map (fun it => if c it then [(fst it, snd it)] else []) l = filter c l.
Proof.
  intros A B c l. induction l as [|[a b] l IH]; cbn [flat_map filter fst snd]; [reflexivity|].
  rewrite IH. destruct (c (a, b)); reflexivity.
Qed.

Lemma flat_map_map : forall {A B C} (f : B -> list C) (g : A -> B) l, flat_map f (map g l) = flat_map (fun x => f (g x)) l.
Proof. intros A B C f g l. induction l as [|a l IH]; cbn [map flat_map]; [reflexivity|]. rewrite IH. reflexivity. Qed.

Lemma filter_map_comm : forall {A B} (f : B -> bool) (g : A -> B) l, filter f (map g l) = map g (filter (fun x => f (g x)) l).
Proof.
  intros A B f g l. induction l as [|a l IH]; cbn [map filter]; [reflexivity|]. rewrite IH. destruct (f (g a)); reflexivity.
Qed.

Lemma py_for_ext : forall {S X} (l : list X) (f g : S -> X -> option S) st,
  (forall st x, In x l -> f st x = g st x) -> py_for l st f = py_for l st g.
Proof.
  intros S X l f g. induction l as [|x l IH]; intros st H; [reflexivity|]. cbn [py_for].
  rewrite (H st x (or_introl eq_refl)). destruct (g st x); [|reflexivity]. apply IH. intros; apply H; right; assumption.
Qed.

(* ================================================================== 3. grouping containers / leaves by parent path *)
Definition nonempty {A} (l : list A) : option (list A) := match l with [] => None | _ => Some l end.

Lemma nonempty_default : forall {A} (l : list A), match nonempty l with Some x => x | None => [] end = l.
Proof. intros A [|a l]; reflexivity. Qed.
Lemma nonempty_snoc : forall {A} (l : list A) x, nonempty (l ++ [x]) = Some (l ++ [x]).
Proof. intros A [|a l] x; reflexivity. Qed.

(* parent path and key of a path, as inflate computes them: tokens = path.split("/"); key = tokens.pop();
   "/".join(tokens); the outermost container (path == prefix) is skipped *)
Definition pk (p s : pystr) : option (pystr * pystr) :=
  if str_eqb s p then None else Some (join (removelast (split s)), last (split s) []).

Definition grp (p : pystr) (ch : list (pystr * ref)) (cp : pystr) : list (pystr * ref) :=
  flat_map (fun it => match pk p (fst it) with
                      | Some (c, k) => if str_eqb c cp then [(k, snd it)] else []
                      | None => []
                      end) ch.

Definition grp_step (p : pystr) (st : sdict (sdict ref)) (it : pystr * ref) : sdict (sdict ref) :=
  match pk p (fst it) with None => st | Some (c, k) => ddict_set2 c k (snd it) st end.

Lemma grp_app : forall p a b cp, grp p (a ++ b) cp = grp p a cp ++ grp p b cp.
Proof. intros. unfold grp. apply flat_map_app. Qed.

Lemma grp_for_gen : forall p (body : sdict (sdict ref) -> pystr * ref -> option (sdict (sdict ref))) rest done G0,
  (forall st it, In it rest -> body st it = Some (grp_step p st it)) ->
  NoDup (map fst (done ++ rest)) ->
  (forall it c k, In it (done ++ rest) -> pk p (fst it) = Some (c, k) -> fst it = c ++ 47 :: k) ->
  NoDup (map fst G0) -> (forall cp, sdict_get cp G0 = nonempty (grp p done cp)) ->
  exists G, py_for rest G0 body = Some G /\ NoDup (map fst G) /\ forall cp, sdict_get cp G = nonempty (grp p (done ++ rest) cp).
Proof.
  intros p body rest. induction rest as [|it rest IH]; intros done G0 Hb N R NG I.
  - exists G0. rewrite app_nil_r. auto.
  - cbn [py_for]. rewrite (Hb G0 it (or_introl eq_refl)).
    assert (E : done ++ it :: rest = (done ++ [it]) ++ rest) by (rewrite <- app_assoc; reflexivity).
    rewrite E in *. apply IH; clear IH.
    + intros st x Hx. apply Hb. right. exact Hx.
    + exact N.
    + exact R.
    + unfold grp_step. destruct (pk p (fst it)) as [[c k]|]; [|exact NG]. unfold ddict_set2. apply sdict_set_nodup. exact NG.
    + intro cp. rewrite grp_app. unfold grp at 2. cbn [flat_map]. rewrite app_nil_r. unfold grp_step.
      destruct (pk p (fst it)) as [[c k]|] eqn:PK; [|rewrite app_nil_r; apply I].
      unfold ddict_set2. unfold sdict in *. rewrite (I c), nonempty_default.
      destruct (str_eqb c cp) eqn:C.
      * apply str_eqb_eq in C. subst cp. rewrite sdict_get_set_same.
        rewrite sdict_set_absent'; [symmetry; apply nonempty_snoc|].
        intro K. apply in_map_iff in K. destruct K as [[k' r'] [Ek K]]. cbn [fst] in Ek. subst k'.
        unfold grp in K. apply in_flat_map in K. destruct K as [it' [Hit' K]].
        destruct (pk p (fst it')) as [[c' k']|] eqn:PK'; [|destruct K].
        destruct (str_eqb c' c) eqn:C'; [|destruct K]. destruct K as [K|[]]. inversion K; subst k'.
        apply str_eqb_eq in C'. subst c'.
        assert (F1 : fst it' = c ++ 47 :: k) by (apply (R it' c k); [apply in_or_app; left; apply in_or_app; left; exact Hit' | exact PK']).
        assert (F2 : fst it = c ++ 47 :: k) by (apply (R it c k); [apply in_or_app; left; apply in_or_app; right; left; reflexivity | exact PK]).
        rewrite <- app_assoc in N. cbn [app] in N. rewrite map_app in N. cbn [map] in N. apply NoDup_remove_2 in N.
        apply N. apply in_or_app. left. rewrite F2, <- F1. apply in_map. exact Hit'.
      * rewrite app_nil_r. rewrite sdict_get_set_other; [apply I|].
        intro K. subst cp. rewrite str_eqb_refl in C. discriminate.
Qed.

Lemma grp_for : forall p (body : sdict (sdict ref) -> pystr * ref -> option (sdict (sdict ref))) ch,
  (forall st it, In it ch -> body st it = Some (grp_step p st it)) ->
  NoDup (map fst ch) ->
  (forall it c k, In it ch -> pk p (fst it) = Some (c, k) -> fst it = c ++ 47 :: k) ->
  exists G, py_for ch [] body = Some G /\ NoDup (map fst G) /\ forall cp, sdict_get cp G = nonempty (grp p ch cp).
Proof.
  intros p body ch Hb N R. apply (grp_for_gen p body ch [] []); try assumption; [constructor | reflexivity].
Qed.

(* ================================================================== 4. populating the heap *)
Definition pop_step (pop : pystr -> cont ref -> sdict ref -> option (cont ref)) (st : heap) (it : pystr * sdict ref)
  : option heap :=
  c <- sdict_get (fst it) st ;; c' <- pop (fst it) c (snd it) ;; Some (sdict_set (fst it) c' st).

Lemma pop_for : forall pop (body : heap -> pystr * sdict ref -> option heap) G H0,
  (forall st it, In it G -> body st it = pop_step pop st it) ->
  NoDup (map fst G) ->
  (forall s vals, In (s, vals) G -> exists c c', sdict_get s H0 = Some c /\ pop s c vals = Some c') ->
  exists H', py_for G H0 body = Some H' /\ length H' = length H0 /\
    forall s, sdict_get s H' = match sdict_get s G with
                               | None => sdict_get s H0
                               | Some vals => c <- sdict_get s H0 ;; pop s c vals
                               end.
Proof.
  intros pop body G. induction G as [|[s0 v0] G IH]; intros H0 Hb N OK.
  - exists H0. auto.
  - cbn [py_for]. rewrite (Hb H0 _ (or_introl eq_refl)). unfold pop_step. cbn [fst snd].
    destruct (OK s0 v0 (or_introl eq_refl)) as [c [c' [E1 E2]]]. rewrite E1. cbn [obind]. rewrite E2. cbn [obind].
    cbn [map fst] in N. inversion N as [|? ? Hs0 N']; subst.
    destruct (IH (sdict_set s0 c' H0)) as [H' [P1 [P2 P3]]].
    + intros st it Hit. apply Hb. right. exact Hit.
    + exact N'.
    + intros s vals Hin. destruct (OK s vals (or_intror Hin)) as [d [d' [D1 D2]]]. exists d, d'. split; [|exact D2].
      rewrite sdict_get_set_other; [exact D1|]. intro K. subst s. apply Hs0. apply (in_map fst) in Hin. exact Hin.
    + exists H'. split; [exact P1|]. split.
      * rewrite P2. apply sdict_set_length. unfold sdict_mem. rewrite E1. reflexivity.
      * intro s. rewrite P3. cbn [sdict_get]. destruct (str_eqb s0 s) eqn:E.
        -- apply str_eqb_eq in E. subst s. apply sdict_get_none in Hs0. rewrite Hs0, sdict_get_set_same, E1. cbn [obind]. auto.
        -- apply str_eqb_neq in E. rewrite sdict_get_set_other by congruence. reflexivity.
Qed.

(* ================================================================== 5. _populate_container, polymorphic in the values *)
Definition map_snd {A V W} (g : V -> W) (l : list (A * V)) : list (A * W) := map (fun tv => (fst tv, g (snd tv))) l.

(* Flatten.populate with the stored values abstract: it only moves them around *)
Definition lookup_keys {V} (d : list (pystr * V)) (ks : list key) : list (key * V) :=
  flat_map (fun k => match assoc_str (key_str k) d with Some v => [(k, v)] | None => [] end) ks.

Definition populate_spec {V} (e : entry) (vals : list (token * V)) : option (cont V) :=
  match e with
  | EList =>
      match mapM (fun tv => option_map (fun z => (z, snd tv)) (parse_int (fst tv))) vals with
      | None => None
      | Some zs => Some (CList (map snd (sort_by_int zs)))
      end
  | EDict ord keys =>
      Some (CDict ord (lookup_keys (rev (map (fun tv => (decode (fst tv), snd tv)) vals)) (fromkeys keys)))
  end.

Definition cont_obj (c : cont obj) : obj := match c with CList xs => OList xs | CDict ord kvs => ODict ord kvs end.
Definition cont_map {V W} (g : V -> W) (c : cont V) : cont W :=
  match c with CList xs => CList (map g xs) | CDict ord kvs => CDict ord (map_snd g kvs) end.
Definition cont_vals {V} (c : cont V) : list V := match c with CList xs => xs | CDict _ kvs => map snd kvs end.

Lemma populate_is_spec : forall e vals, populate e vals = option_map cont_obj (populate_spec e vals).
Proof.
  intros [|ord keys] vals; cbn [populate populate_spec]; [|reflexivity].
  match goal with |- context [mapM ?f vals] => destruct (mapM f vals) end; reflexivity.
Qed.

Lemma mapM_map_snd : forall {V W} (g : V -> W) (vals : list (token * V)),
  mapM (fun tv => option_map (fun z => (z, snd tv)) (parse_int (fst tv))) (map_snd g vals) =
  option_map (map_snd g) (mapM (fun tv => option_map (fun z => (z, snd tv)) (parse_int (fst tv))) vals).
Proof.
  intros V W g vals. induction vals as [|[t v] vals IH]; [reflexivity|].
  cbn [map_snd map mapM fst snd]. fold (map_snd g vals). rewrite IH.
  destruct (parse_int t); cbn [option_map]; [|reflexivity].
  match goal with |- context [mapM ?f vals] => destruct (mapM f vals) end; reflexivity.
Qed.

Lemma insert_by_map_snd : forall {V W} (g : V -> W) (x : Z * V) l,
  insert_by (fst x, g (snd x)) (map_snd g l) = map_snd g (insert_by x l).
Proof.
  intros V W g x l. induction l as [|y l IH]; [reflexivity|].
  cbn [map_snd map insert_by fst snd]. fold (map_snd g l). destruct (fst y <? fst x); [|reflexivity].
  rewrite IH. reflexivity.
Qed.

Lemma isort_map_snd : forall {V W} (g : V -> W) (l : list (Z * V)), isort (map_snd g l) = map_snd g (isort l).
Proof.
  intros V W g l. induction l as [|x l IH]; [reflexivity|].
  cbn [map_snd map isort]. fold (map_snd g l). rewrite IH. apply insert_by_map_snd.
Qed.

Lemma assoc_str_map_snd : forall {V W} (g : V -> W) s (l : list (pystr * V)),
  assoc_str s (map_snd g l) = option_map g (assoc_str s l).
Proof.
  intros V W g s l. induction l as [|[t v] l IH]; [reflexivity|].
  cbn [map_snd map assoc_str fst snd]. fold (map_snd g l). destruct (str_eqb s t); [reflexivity | exact IH].
Qed.

Lemma lookup_keys_map_snd : forall {V W} (g : V -> W) (d : list (pystr * V)) ks,
  lookup_keys (map_snd g d) ks = map_snd g (lookup_keys d ks).
Proof.
  intros V W g d ks. induction ks as [|k ks IH]; [reflexivity|]. unfold lookup_keys in *. cbn [flat_map].
  rewrite assoc_str_map_snd, IH. unfold map_snd. rewrite map_app.
  destruct (assoc_str (key_str k) d); reflexivity.
Qed.

(* free theorem 1: populate commutes with any function on the stored values *)
Lemma populate_spec_map : forall {V W} (g : V -> W) e vals,
  populate_spec e (map_snd g vals) = option_map (cont_map g) (populate_spec e vals).
Proof.
  intros V W g [|ord keys] vals; cbn [populate_spec].
  - rewrite mapM_map_snd. match goal with |- context [mapM ?f vals] => destruct (mapM f vals) as [zs|] end; cbn [option_map]; [|reflexivity].
    unfold sort_by_int. rewrite isort_map_snd. unfold map_snd. cbn [cont_map]. rewrite !map_map. reflexivity.
  - cbn [option_map cont_map]. f_equal. f_equal. rewrite <- lookup_keys_map_snd. f_equal.
    unfold map_snd. rewrite map_rev, !map_map. reflexivity.
Qed.

Lemma insert_by_in : forall {A} (x y : Z * A) l, In y (insert_by x l) -> y = x \/ In y l.
Proof.
  intros A x y l. induction l as [|z l IH]; cbn [insert_by In]; [intros [H|[]]; auto|].
  destruct (fst z <? fst x); cbn [In]; [|intros [H|[H|H]]; auto]. intros [H|H]; [auto | destruct (IH H); auto].
Qed.
Lemma isort_in : forall {A} (y : Z * A) l, In y (isort l) -> In y l.
Proof.
  intros A y l. induction l as [|x l IH]; cbn [isort In]; [tauto|]. intro H.
  apply insert_by_in in H. destruct H; [left; auto | right; auto].
Qed.

Lemma mapM_in : forall {A B} (f : A -> option B) l l' y, mapM f l = Some l' -> In y l' -> exists x, In x l /\ f x = Some y.
Proof.
  intros A B f l. induction l as [|a l IH]; intros l' y H Hy; cbn [mapM] in H.
  - inversion H; subst. destruct Hy.
  - destruct (f a) as [b|] eqn:E; [|discriminate]. destruct (mapM f l) as [bs|]; [|discriminate].
    inversion H; subst. destruct Hy as [Hy|Hy].
    + subst. exists a. split; [left; reflexivity | exact E].
    + destruct (IH bs y eq_refl Hy) as [x [H1 H2]]. exists x. split; [right; exact H1 | exact H2].
Qed.

Lemma mapM_all : forall {A B} (f : A -> option B) l l' x, mapM f l = Some l' -> In x l -> exists y, f x = Some y.
Proof.
  intros A B f l. induction l as [|a l IH]; intros l' x H Hx; [destruct Hx|]. cbn [mapM] in H.
  destruct (f a) as [b|] eqn:E; [|discriminate]. destruct (mapM f l) as [bs|] eqn:E2; [|discriminate].
  destruct Hx as [Hx|Hx]; [subst; eauto | exact (IH bs x eq_refl Hx)].
Qed.

Lemma assoc_str_some_in : forall {A} s (l : list (pystr * A)) v, assoc_str s l = Some v -> In v (map snd l).
Proof.
  intros A s l v. induction l as [|[t w] l IH]; cbn [assoc_str map snd In]; [discriminate|].
  destruct (str_eqb s t); [intro H; inversion H; auto | intro H; right; exact (IH H)].
Qed.

(* free theorem 2: every value in the populated container is one of the given values *)
Lemma populate_spec_vals : forall {V} e (vals : list (token * V)) c,
  populate_spec e vals = Some c -> forall v, In v (cont_vals c) -> In v (map snd vals).
Proof.
  intros V [|ord keys] vals c H v Hv; cbn [populate_spec] in H.
  - match type of H with context [mapM ?f vals] => destruct (mapM f vals) as [zs|] eqn:M end; [|discriminate].
    inversion H; subst. cbn [cont_vals] in Hv.
    apply in_map_iff in Hv. destruct Hv as [[z w] [E Hin]]. cbn [snd] in E. subst w.
    apply isort_in in Hin. destruct (mapM_in _ _ _ _ M Hin) as [[t w] [H1 H2]]. cbn [fst snd] in H2.
    destruct (parse_int t); [|discriminate]. inversion H2; subst. apply (in_map snd) in H1. exact H1.
  - inversion H; subst. cbn [cont_vals] in Hv. apply in_map_iff in Hv. destruct Hv as [[k w] [E Hin]].
    cbn [snd] in E. subst w. unfold lookup_keys in Hin. apply in_flat_map in Hin. destruct Hin as [k' [_ Hin]].
    destruct (assoc_str (key_str k') _) as [w|] eqn:A; [|destruct Hin]. destruct Hin as [Hin|[]]. inversion Hin; subst.
    apply assoc_str_some_in in A. rewrite map_rev in A. apply in_rev in A. rewrite map_map in A. exact A.
Qed.

(* whether populate raises depends on the entry kind and the path components only *)
Definition pop_ok (e : entry) (toks : list token) : bool :=
  match e with
  | EList => forallb (fun t => match parse_int t with Some _ => true | None => false end) toks
  | EDict _ _ => true
  end.

Lemma populate_spec_ok : forall {V} e (vals : list (token * V)),
  pop_ok e (map fst vals) = true -> exists c, populate_spec e vals = Some c.
Proof.
  intros V [|ord keys] vals H; cbn [populate_spec]; [|eauto].
  match goal with |- context [mapM ?f vals] => assert (M : exists zs, mapM f vals = Some zs) end.
  { cbn [pop_ok] in H. induction vals as [|[t v] vals IH]; [cbn; eauto|].
    cbn [map fst forallb] in H. apply andb_true_iff in H. destruct H as [H1 H2]. destruct (IH H2) as [zs E].
    cbn [mapM fst snd]. destruct (parse_int t); [|discriminate]. cbn [option_map]. rewrite E. eauto. }
  destruct M as [zs E]. rewrite E. eauto.
Qed.

Lemma populate_spec_ok_inv : forall {V} e (vals : list (token * V)) c,
  populate_spec e vals = Some c -> pop_ok e (map fst vals) = true.
Proof.
  intros V [|ord keys] vals c H; [|reflexivity]. cbn [populate_spec] in H. cbn [pop_ok].
  match type of H with context [mapM ?f vals] => destruct (mapM f vals) as [zs|] eqn:M end; [|discriminate]. clear H. revert zs M.
  induction vals as [|[t v] vals IH]; intros zs M; [reflexivity|]. cbn [mapM fst snd] in M. cbn [map fst forallb].
  destruct (parse_int t); [|discriminate]. cbn [option_map] in M.
  match type of M with context [mapM ?f vals] => destruct (mapM f vals) as [zs'|] eqn:M' end; [|discriminate].
  rewrite (IH zs' eq_refl). reflexivity.
Qed.

(* ================================================================== 6. the hand model's [build]: what a success implies *)
Lemma build_inv : forall f m lm P e o, build (S f) m lm P e = Some o ->
  exists vc, mapM (fun te => option_map (fun o0 => (fst te, o0)) (build f m lm (P ++ [fst te]) (snd te))) (children m P) = Some vc /\
             match vc ++ children lm P with [] => Some (init_container e) | vals => populate e vals end = Some o.
Proof.
  intros f m lm P e o H. cbn [build] in H.
  match type of H with context [mapM ?g ?l] => destruct (mapM g l) as [vc|] eqn:M end; [|discriminate].
  exists vc. split; [reflexivity | exact H].
Qed.

Lemma build_child : forall f m lm P e o t e', build (S f) m lm P e = Some o -> In (t, e') (children m P) ->
  exists o', build f m lm (P ++ [t]) e' = Some o'.
Proof.
  intros f m lm P e o t e' H Hin. destruct (build_inv _ _ _ _ _ _ H) as [vc [M _]].
  destruct (mapM_all _ _ _ _ M Hin) as [y Hy]. cbn [fst snd] in Hy.
  destruct (build f m lm (P ++ [t]) e') as [o'|]; [eauto | discriminate].
Qed.

(* every container whose ancestors down to P are all in the manifest is built (with the fuel left at its depth) when
   the build of P succeeds *)
Lemma build_reach : forall m lm, NoDup (map fst m) ->
  forall r P e f o eQ, build f m lm P e = Some o -> In (P, e) m -> In (P ++ r, eQ) m ->
  (forall k, (k <= length r)%nat -> In (P ++ firstn k r) (map fst m)) -> (length r < f)%nat ->
  exists o', build (f - length r) m lm (P ++ r) eQ = Some o'.
Proof.
  intros m lm N r. induction r as [|t r IH]; intros P e f o eQ B HP HQ A L.
  - rewrite app_nil_r in *. cbn [length]. rewrite Nat.sub_0_r.
    rewrite (fst_unique m P eQ e N HQ HP). eauto.
  - destruct f as [|f]; [cbn [length] in L; lia|].
    pose proof (A 1%nat ltac:(cbn [length]; lia)) as A1. cbn [firstn] in A1.
    apply in_map_iff in A1. destruct A1 as [[q e1] [E1 H1]]. cbn [fst] in E1. subst q.
    assert (C1 : In (t, e1) (children m P)) by (apply in_children; exact H1).
    destruct (build_child _ _ _ _ _ _ _ _ B C1) as [o1 B1].
    replace (P ++ t :: r) with ((P ++ [t]) ++ r) in * by (rewrite <- app_assoc; reflexivity).
    cbn [length]. replace (S f - S (length r))%nat with (f - length r)%nat by lia.
    apply (IH (P ++ [t]) e1 f o1 eQ B1 H1 HQ).
    + intros k Hk. rewrite <- app_assoc. cbn [app]. exact (A (S k) ltac:(cbn [length]; lia)).
    + cbn [length] in L. lia.
Qed.

Lemma ancestors_closed : forall (keys : list path) root,
  (forall q, In q keys -> q = root \/ In (removelast q) keys) ->
  forall r, In (root ++ r) keys -> forall k, (k <= length r)%nat -> In (root ++ firstn k r) keys.
Proof.
  intros keys root C r. induction r as [|t r IH] using rev_ind; intros H k Hk.
  - destruct k; exact H.
  - rewrite app_length in Hk. cbn [length] in Hk.
    destruct (C _ H) as [E|Hp].
    + exfalso. apply (f_equal (@length _)) in E. rewrite !app_length in E. cbn [length] in E. lia.
    + rewrite app_assoc, removelast_last in Hp.
      destruct (Nat.eq_dec k (length r + 1)) as [Ek|Nk].
      * subst k. rewrite firstn_all2 by (rewrite app_length; cbn [length]; lia). exact H.
      * rewrite firstn_app. replace (k - length r)%nat with O by lia. cbn [firstn]. rewrite app_nil_r.
        apply IH; [exact Hp | lia].
Qed.

Lemma chain_length : forall (keys : list path) root r, NoDup keys ->
  (forall k, (k <= length r)%nat -> In (root ++ firstn k r) keys) -> (length r < length keys)%nat.
Proof.
  intros keys root r N A.
  set (L := map (fun k => root ++ firstn k r) (seq 0 (S (length r)))).
  assert (NL : NoDup L).
  { unfold L. apply NoDup_map_inj_on; [|apply seq_NoDup].
    intros a b Ha Hb E. apply in_seq in Ha. apply in_seq in Hb. apply app_inv_head in E.
    apply (f_equal (@length _)) in E. rewrite !firstn_length_le in E by lia. exact E. }
  assert (IL : incl L keys).
  { intros q Hq. unfold L in Hq. apply in_map_iff in Hq. destruct Hq as [k [E Hk]]. subst q. apply in_seq in Hk. apply A. lia. }
  pose proof (NoDup_incl_length NL IL) as Le. unfold L in Le. rewrite map_length, seq_length in Le. exact Le.
Qed.

(* ================================================================== 7. failures *)
Lemma mapM_none : forall {A B} (f : A -> option B) l, mapM f l = None -> exists x, In x l /\ f x = None.
Proof.
  intros A B f l. induction l as [|a l IH]; cbn [mapM]; [discriminate|].
  destruct (f a) as [b|] eqn:E; [|intros _; exists a; split; [left; reflexivity | exact E]].
  destruct (mapM f l) as [bs|]; [discriminate|]. intros _. destruct (IH eq_refl) as [x [H1 H2]]. exists x. split; [right; exact H1 | exact H2].
Qed.

Lemma forallb_false : forall {A} (f : A -> bool) l, forallb f l = false -> exists x, In x l /\ f x = false.
Proof.
  intros A f l. induction l as [|a l IH]; cbn [forallb]; [discriminate|].
  destruct (f a) eqn:E; cbn [andb]; [|intros _; exists a; split; [left; reflexivity | exact E]].
  intro H. destruct (IH H) as [x [H1 H2]]. exists x. split; [right; exact H1 | exact H2].
Qed.

(* the populate loop raises as soon as one group has no container or its population raises *)
Lemma pop_for_fail : forall pop (body : heap -> pystr * sdict ref -> option heap) G H0,
  (forall st it, In it G -> body st it = pop_step pop st it) ->
  NoDup (map fst G) ->
  (exists s vals, In (s, vals) G /\ forall c, sdict_get s H0 = Some c -> pop s c vals = None) ->
  py_for G H0 body = None.
Proof.
  intros pop body G. induction G as [|[s0 v0] G IH]; intros H0 Hb N [s [vals [Hin F]]]; [destruct Hin|].
  cbn [py_for]. rewrite (Hb H0 _ (or_introl eq_refl)). unfold pop_step. cbn [fst snd].
  destruct (sdict_get s0 H0) as [c|] eqn:E1; cbn [obind]; [|reflexivity].
  destruct (pop s0 c v0) as [c'|] eqn:E2; cbn [obind]; [|reflexivity].
  cbn [map fst] in N. inversion N as [|? ? Hs0 N']; subst.
  apply IH; [intros st it Hit; apply Hb; right; exact Hit | exact N' |].
  destruct Hin as [Hin|Hin].
  - inversion Hin; subst s vals. rewrite (F c E1) in E2. discriminate.
  - exists s, vals. split; [exact Hin|]. intros d Hd. apply F. rewrite sdict_get_set_other in Hd; [exact Hd|].
    intro K. subst s. apply Hs0. apply (in_map fst) in Hin. exact Hin.
Qed.

Lemma populate_spec_none_tokens : forall {V W} e (v1 : list (token * V)) (v2 : list (token * W)),
  map fst v1 = map fst v2 -> populate_spec e v1 = None -> populate_spec e v2 = None.
Proof.
  intros V W e v1 v2 T H. destruct (populate_spec e v2) as [c|] eqn:E; [|reflexivity].
  apply populate_spec_ok_inv in E. rewrite <- T in E. destruct (populate_spec_ok e v1 E) as [c1 E1]. congruence.
Qed.
